(* Store/Proofs.v — lemmas about the sequential Store model that hold in EVERY state
   (no well-formedness needed): the version fence of Read/Stat/Write, the guards of SetVersion,
   the GC rule, what a restart and RemoveDisk leave alone. *)
From Coq Require Import List NArith ZArith Bool Lia.
From BLB Require Import Gen.Consts Store.Bytes Store.MapProofs Store.Model.
Import ListNotations.
Open Scope N_scope.

(* ---------- error codes are pairwise distinct where it matters ---------- *)
Ltac ecodes :=
  unfold E_OK, E_EOF, E_NoSuchTract, E_AlreadyExists, E_VersionMismatch, E_BadVersion, E_StampChanged,
         E_InvalidState, E_NoSpace, E_FileNotFound, E_DiskExists, E_PANIC, E_BADORACLE, E_nover,
         st_NoError, st_EOF, st_NoSuchTract, st_AlreadyExists, st_VersionMismatch, st_BadVersion,
         st_StampChanged, st_InvalidState, st_NoSpace, st_FileNotFound in *.

Definition is_fail (e : Z) : Prop := e <> E_OK /\ e <> E_EOF.

Lemma fail_NoSuchTract : is_fail E_NoSuchTract. Proof. split; ecodes; discriminate. Qed.
Lemma fail_PANIC : is_fail E_PANIC. Proof. split; ecodes; discriminate. Qed.
Lemma fail_VersionMismatch : is_fail E_VersionMismatch. Proof. split; ecodes; discriminate. Qed.
Lemma fail_nover : forall s, is_fail (E_nover s).
Proof. intros s; split; ecodes; destruct (mgr s); discriminate. Qed.
Lemma fail_BadVersion : is_fail E_BadVersion. Proof. split; ecodes; discriminate. Qed.
Lemma fail_StampChanged : is_fail E_StampChanged. Proof. split; ecodes; discriminate. Qed.
Lemma fail_InvalidState : is_fail E_InvalidState. Proof. split; ecodes; discriminate. Qed.

(* ---------- record plumbing ---------- *)
Lemma files_of_set_files : forall s pd d pd',
    files_of (set_files s pd d) pd' = if pd' =? pd then d else files_of s pd'.
Proof.
  intros. unfold files_of, set_files; simpl. rewrite get_put. now destruct (pd' =? pd).
Qed.

Lemma files_of_set_table : forall s tb pd, files_of (set_table s tb) pd = files_of s pd.
Proof. reflexivity. Qed.

Lemma copy_put_file : forall s pd t f pd' t',
    copy (put_file s pd t f) pd' t' =
    if (pd' =? pd) && (t' =? t) then Some f else copy s pd' t'.
Proof.
  intros. unfold copy, put_file. rewrite files_of_set_files.
  destruct (pd' =? pd) eqn:E; simpl; [|reflexivity].
  apply N.eqb_eq in E. subst. rewrite get_put. now destruct (t' =? t).
Qed.

Lemma copy_del_file : forall s pd t pd' t',
    copy (del_file s pd t) pd' t' =
    if (pd' =? pd) && (t' =? t) then None else copy s pd' t'.
Proof.
  intros. unfold copy, del_file. rewrite files_of_set_files.
  destruct (pd' =? pd) eqn:E; simpl; [|reflexivity].
  apply N.eqb_eq in E. subst. rewrite get_del. now destruct (t' =? t).
Qed.

(* ---------- what opening a tract finds ---------- *)
Lemma open_existing_ok : forall s t pd f,
    open_existing s t = Op_ok pd f ->
    exists slot st, lookup s t = Some (slot, st) /\ disk_of s slot = Some pd /\ copy s pd t = Some f.
Proof.
  unfold open_existing, copy. intros s t pd f.
  destruct (lookup s t) as [[slot st]|] eqn:L; [|discriminate].
  destruct (disk_of s slot) as [pd'|] eqn:D; [|discriminate].
  destruct (get t (files_of s pd')) as [f'|] eqn:G; [|discriminate].
  intros H; inversion H; subst. exists slot, st. auto.
Qed.

Lemma open_existing_err : forall s t e, open_existing s t = Op_err e -> is_fail e.
Proof.
  unfold open_existing. intros s t e.
  destruct (lookup s t) as [[slot st]|]; [|intros H; inversion H; apply fail_NoSuchTract].
  destruct (disk_of s slot) as [pd'|]; [|intros H; inversion H; apply fail_PANIC].
  destruct (get t (files_of s pd')); [discriminate|intros H; inversion H; apply fail_NoSuchTract].
Qed.

Lemma open_version_ok : forall s t pd f c,
    open_version s t = V_ok pd f c ->
    open_existing s t = Op_ok pd f /\ f_ver f = Some c /\ cur s t = Some f /\ cur_ver s t = Some c.
Proof.
  unfold open_version, cur_ver, cur. intros s t pd f c.
  destruct (open_existing s t) as [pd' f'|e]; [|discriminate].
  destruct (f_ver f') eqn:V; [|discriminate].
  intros H; inversion H; subst. rewrite V. auto.
Qed.

Lemma open_version_err : forall s t e,
    open_version s t = V_err e -> is_fail e /\ cur_ver s t = None.
Proof.
  unfold open_version, cur_ver, cur. intros s t e.
  destruct (open_existing s t) as [pd' f'|e'] eqn:O.
  - destruct (f_ver f') eqn:V; [discriminate|]. intros H; inversion H. split; [apply fail_nover|reflexivity].
  - intros H; inversion H; subst. split; [eapply open_existing_err; eauto|reflexivity].
Qed.

Lemma cur_put_file_same : forall s pd t f slot st,
    lookup s t = Some (slot, st) -> disk_of s slot = Some pd -> cur (put_file s pd t f) t = Some f.
Proof.
  intros s pd t f slot st L D. unfold cur, open_existing.
  assert (L' : lookup (put_file s pd t f) t = Some (slot, st)) by exact L.
  assert (D' : disk_of (put_file s pd t f) slot = Some pd) by exact D.
  rewrite L', D'. unfold put_file. rewrite files_of_set_files, N.eqb_refl, get_put_eq. reflexivity.
Qed.

(* ---------- the fence: Read ---------- *)
Lemma read_fence : forall s t v len off,
    let '(e, b) := read s t v len off in
    ((e = E_OK \/ e = E_EOF) <-> cur_ver s t = Some v) /\
    (cur_ver s t <> Some v -> b = []) /\
    (forall f, cur s t = Some f -> f_ver f = Some v ->
               b = rle_read (f_data f) off len /\ (e = E_OK <-> rle_len b = len)).
Proof.
  intros. unfold read.
  destruct (open_version s t) as [pd f c|e] eqn:O.
  - apply open_version_ok in O. destruct O as (_ & Hv & Hc & Hcv).
    destruct (v =? c)%Z eqn:E.
    + apply Z.eqb_eq in E. subst c. split; [|split].
      * split; [intros _; exact Hcv|intros _].
        destruct (rle_len (rle_read (f_data f) off len) =? len); auto.
      * intros H. congruence.
      * intros f0 H0 H1. rewrite Hc in H0. inversion H0; subst f0. split; [reflexivity|].
        destruct (rle_len (rle_read (f_data f) off len) =? len) eqn:L.
        -- apply N.eqb_eq in L. tauto.
        -- apply N.eqb_neq in L. split; [intros X; exfalso; revert X; ecodes; discriminate|tauto].
    + apply Z.eqb_neq in E. split; [|split].
      * destruct fail_VersionMismatch. split; [tauto|]. rewrite Hcv. intros X. inversion X. congruence.
      * reflexivity.
      * intros f0 H0 H1. rewrite Hc in H0. inversion H0; subst f0. congruence.
  - apply open_version_err in O. destruct O as ([F1 F2] & Hcv).
    split; [|split].
    + split; [tauto|congruence].
    + reflexivity.
    + intros f0 H0 H1. unfold cur_ver in Hcv. rewrite H0 in Hcv. congruence.
Qed.

(* ---------- the fence: Stat ---------- *)
Lemma stat_fence : forall s t v,
    let '(e, sz, st) := stat s t v in
    (e = E_OK <-> cur_ver s t = Some v) /\
    (cur_ver s t <> Some v -> sz = 0) /\
    (forall f, cur s t = Some f -> f_ver f = Some v -> sz = rle_len (f_data f)).
Proof.
  intros. unfold stat.
  destruct (lookup s t) as [[slot st]|] eqn:L.
  - destruct (open_version s t) as [pd f c|e] eqn:O.
    + apply open_version_ok in O. destruct O as (_ & Hv & Hc & Hcv).
      destruct (v =? c)%Z eqn:E.
      * apply Z.eqb_eq in E. subst c. split; [|split].
        -- tauto.
        -- congruence.
        -- intros f0 H0 H1. rewrite Hc in H0. now inversion H0.
      * apply Z.eqb_neq in E. split; [|split].
        -- destruct fail_VersionMismatch. split; [tauto|]. rewrite Hcv. intros X. inversion X. congruence.
        -- reflexivity.
        -- intros f0 H0 H1. rewrite Hc in H0. inversion H0; subst f0. congruence.
    + apply open_version_err in O. destruct O as ([F1 F2] & Hcv).
      split; [|split].
      * split; [tauto|congruence].
      * reflexivity.
      * intros f0 H0 H1. unfold cur_ver in Hcv. rewrite H0 in Hcv. congruence.
  - assert (Hcv : cur_ver s t = None).
    { unfold cur_ver, cur, open_existing. now rewrite L. }
    split; [|split].
    + destruct fail_NoSuchTract. split; [tauto|congruence].
    + reflexivity.
    + intros f0 H0 H1. unfold cur_ver in Hcv. rewrite H0 in Hcv. congruence.
Qed.

(* ---------- the fence: Write (doWrite) ---------- *)
Lemma lookup_bump_stamp : forall s t t',
    lookup (bump_stamp s t) t' =
    match lookup s t' with
    | Some (slot, st) => if t' =? t then Some (slot, stamp_succ st) else Some (slot, st)
    | None => None
    end.
Proof.
  intros. unfold bump_stamp, lookup.
  destruct (get t (table s)) as [[slot st]|] eqn:G; simpl.
  - rewrite get_put. destruct (t' =? t) eqn:E.
    + apply N.eqb_eq in E. subst. now rewrite G.
    + now destruct (get t' (table s)) as [[? ?]|].
  - destruct (get t' (table s)) as [[slot st]|] eqn:G'; [|reflexivity].
    destruct (t' =? t) eqn:E; [|reflexivity]. apply N.eqb_eq in E. subst. congruence.
Qed.

Lemma bump_stamp_disks : forall s t, disks (bump_stamp s t) = disks s /\ slots (bump_stamp s t) = slots s
                                     /\ noalloc (bump_stamp s t) = noalloc s /\ epoch (bump_stamp s t) = epoch s.
Proof. intros. unfold bump_stamp. now destruct (lookup s t) as [[? ?]|]. Qed.

Lemma open_existing_bump : forall s t t', open_existing (bump_stamp s t) t' = open_existing s t'.
Proof.
  intros. unfold open_existing. rewrite lookup_bump_stamp.
  destruct (lookup s t') as [[slot st]|]; [|reflexivity].
  unfold disk_of, files_of. destruct (bump_stamp_disks s t) as (-> & -> & _).
  destruct (t' =? t); reflexivity.
Qed.

Lemma cur_bump : forall s t t', cur (bump_stamp s t) t' = cur s t'.
Proof. intros. unfold cur. now rewrite open_existing_bump. Qed.

Lemma write_fence : forall s t v d off,
    let '(s', e) := do_write s t v d off in
    (e = E_OK <-> cur_ver s t = Some v) /\
    (cur_ver s t <> Some v -> s' = bump_stamp s t) /\
    (forall f, cur s t = Some f -> f_ver f = Some v ->
               cur s' t = Some (mkfile (Some v) (rle_write (f_data f) d off))).
Proof.
  intros. unfold do_write.
  assert (CV : cur_ver (bump_stamp s t) t = cur_ver s t) by (unfold cur_ver; now rewrite cur_bump).
  destruct (open_version (bump_stamp s t) t) as [pd f c|e] eqn:O.
  - pose proof O as O'. apply open_version_ok in O. destruct O as (Oe & Hv & Hc & Hcv).
    rewrite CV in Hcv. rewrite cur_bump in Hc.
    destruct (v =? c)%Z eqn:E.
    + apply Z.eqb_eq in E. subst c. split; [|split].
      * tauto.
      * congruence.
      * intros f0 H0 H1. rewrite Hc in H0. inversion H0; subst f0. rewrite Hv.
        apply open_existing_ok in Oe. destruct Oe as (slot & st & L & D & C).
        eapply cur_put_file_same; eauto.
    + apply Z.eqb_neq in E. split; [|split].
      * destruct fail_VersionMismatch. split; [tauto|]. rewrite Hcv. intros X. inversion X. congruence.
      * reflexivity.
      * intros f0 H0 H1. rewrite Hc in H0. inversion H0; subst f0. congruence.
  - apply open_version_err in O. destruct O as ([F1 F2] & Hcv). rewrite CV in Hcv.
    split; [|split].
    + split; [tauto|congruence].
    + reflexivity.
    + intros f0 H0 H1. unfold cur_ver in Hcv. rewrite H0 in Hcv. congruence.
Qed.

(* a rejected write leaves every file, the disk table and every other tract's table entry alone;
   the named tract's mod stamp IS bumped *)
Lemma bump_stamp_effect : forall s t,
    disks (bump_stamp s t) = disks s /\ slots (bump_stamp s t) = slots s /\
    (forall t', cur (bump_stamp s t) t' = cur s t') /\
    (forall t', t' <> t -> lookup (bump_stamp s t) t' = lookup s t') /\
    (forall slot st, lookup s t = Some (slot, st) -> lookup (bump_stamp s t) t = Some (slot, stamp_succ st)).
Proof.
  intros. destruct (bump_stamp_disks s t) as (D & S & _).
  repeat split; auto.
  - intros. apply cur_bump.
  - intros t' Hne. rewrite lookup_bump_stamp. apply N.eqb_neq in Hne. rewrite Hne.
    now destruct (lookup s t') as [[? ?]|].
  - intros slot st L. rewrite lookup_bump_stamp, L, N.eqb_refl. reflexivity.
Qed.

(* ---------- SetVersion: the exact guards ---------- *)
Definition cond_stale (s : store) (t : tract) (c : option stamp) : bool :=
  match c with
  | None => false
  | Some c => match lookup s t with
              | Some (_, st) => negb (stamp_eqb c st)
              | None => true
              end
  end.

Lemma set_version_spec : forall s t v c,
    let '(s', (e, fv)) := set_version s t v c in
    ((v <= 1)%Z -> s' = s /\ e = E_BadVersion) /\
    ((1 < v)%Z -> cond_stale s t c = true -> s' = s /\ e = E_StampChanged) /\
    ((1 < v)%Z -> cond_stale s t c = false ->
     match cur s t with
     | None => s' = s /\ is_fail e
     | Some f =>
         match f_ver f with
         | None => s' = s /\ is_fail e
         | Some cv =>
             ((v <= cv)%Z -> s' = s /\ e = E_OK) /\
             (v = (cv + 1)%Z -> e = E_OK /\ cur s' t = Some (mkfile (Some v) (f_data f)) /\
                                (exists pd, s' = put_file s pd t (mkfile (Some v) (f_data f)))) /\
             ((cv + 1 < v)%Z -> s' = s /\ e = E_VersionMismatch)
         end
     end).
Proof.
  intros. unfold set_version.
  destruct (v <=? 1)%Z eqn:V1.
  - apply Z.leb_le in V1. repeat split; auto; intros; lia.
  - apply Z.leb_gt in V1.
    assert (ST : (match c with
                  | None => false
                  | Some c0 => match match lookup s t with Some (_, st) => Some st | None => None end with
                               | Some st => negb (stamp_eqb c0 st) | None => true end
                  end) = cond_stale s t c).
    { unfold cond_stale. destruct c; [|reflexivity]. now destruct (lookup s t) as [[? ?]|]. }
    rewrite ST. destruct (cond_stale s t c) eqn:CS.
    + repeat split; auto; intros; try lia; discriminate.
    + destruct (open_version s t) as [pd f cv|e] eqn:O.
      * pose proof O as O'. apply open_version_ok in O. destruct O as (Oe & Hv & Hc & Hcv).
        rewrite Hc, Hv.
        destruct (v <=? cv)%Z eqn:L1.
        -- apply Z.leb_le in L1. repeat split; auto; intros; try lia; try discriminate.
        -- apply Z.leb_gt in L1. destruct (cv + 1 =? v)%Z eqn:L2.
           ++ apply Z.eqb_eq in L2. repeat split; auto; intros; try lia; try discriminate.
              ** apply open_existing_ok in Oe. destruct Oe as (slot & st & L & D & C).
                 eapply cur_put_file_same; eauto.
              ** eauto.
           ++ apply Z.eqb_neq in L2. repeat split; auto; intros; try lia; try discriminate.
      * apply open_version_err in O. destruct O as (F & Hcv).
        split; [intros; lia|]. split; [intros; discriminate|]. intros _ _.
        unfold cur_ver in Hcv. destruct (cur s t) as [f|]; [rewrite Hcv|]; auto.
Qed.

(* ---------- restart / RemoveDisk never touch files ---------- *)
Lemma restart_disks : forall s, disks (restart s) = disks s.
Proof. reflexivity. Qed.

Lemma remove_disk_disks : forall s pd, disks (fst (remove_disk s pd)) = disks s.
Proof. intros. unfold remove_disk. now destruct (slot_of s pd). Qed.

(* ---------- removeTract / GC ---------- *)
Lemma remove_tract_served : forall s t f,
    cur s t = Some f ->
    exists slot st pd, lookup s t = Some (slot, st) /\ disk_of s slot = Some pd /\ copy s pd t = Some f /\
      remove_tract s t = (set_table (del_file s pd t) (del t (table s)), E_OK).
Proof.
  unfold cur. intros s t f H.
  destruct (open_existing s t) as [pd f'|] eqn:O; [|discriminate]. inversion H; subst f'.
  apply open_existing_ok in O. destruct O as (slot & st & L & D & C).
  exists slot, st, pd. repeat split; auto.
  unfold remove_tract. rewrite L, D. unfold copy in C. now rewrite C.
Qed.

Lemma lookup_set_table : forall s tb t, lookup (set_table s tb) t = get t tb.
Proof. reflexivity. Qed.

Lemma remove_tract_gone : forall s t f,
    cur s t = Some f ->
    let s' := fst (remove_tract s t) in
    lookup s' t = None /\ cur s' t = None /\
    slots s' = slots s /\
    (exists pd, copy s pd t = Some f /\ copy s' pd t = None /\
                forall pd' t', (pd', t') <> (pd, t) -> copy s' pd' t' = copy s pd' t') /\
    (forall t', t' <> t -> lookup s' t' = lookup s t').
Proof.
  intros s t f H. destruct (remove_tract_served s t f H) as (slot & st & pd & L & D & C & R).
  simpl. rewrite R. simpl.
  assert (L' : lookup (set_table (del_file s pd t) (del t (table s))) t = None)
    by (rewrite lookup_set_table; apply get_del_eq).
  repeat split; auto.
  - unfold cur, open_existing. now rewrite L'.
  - exists pd. repeat split; auto.
    + unfold copy. rewrite files_of_set_table. fold (copy (del_file s pd t) pd t).
      rewrite copy_del_file, !N.eqb_refl. reflexivity.
    + intros pd' t' Hne. unfold copy. rewrite files_of_set_table. fold (copy (del_file s pd t) pd' t').
      rewrite copy_del_file.
      destruct (pd' =? pd) eqn:E1; destruct (t' =? t) eqn:E2; simpl; auto.
      apply N.eqb_eq in E1, E2. subst. congruence.
  - intros t' Hne. rewrite lookup_set_table. now apply get_del_ne.
Qed.

(* maybeGCTract deletes iff the local version is at most the instruction's *)
Lemma maybe_gc_spec : forall s t v f c,
    cur s t = Some f -> f_ver f = Some c ->
    ((c <= v)%Z -> maybe_gc s (t, v) = fst (remove_tract s t)) /\
    ((v < c)%Z -> maybe_gc s (t, v) = s).
Proof.
  intros s t v f c Hc Hv. unfold maybe_gc. simpl.
  unfold open_version. unfold cur in Hc.
  destruct (open_existing s t) as [pd f'|]; [|discriminate]. inversion Hc; subst f'. rewrite Hv.
  split; intros H.
  - assert ((v <? c)%Z = false) by (apply Z.ltb_ge; lia). now rewrite H0.
  - assert ((v <? c)%Z = true) by (apply Z.ltb_lt; lia). now rewrite H0.
Qed.

Lemma maybe_gc_unreadable : forall s t v,
    cur_ver s t = None -> maybe_gc s (t, v) = s.
Proof.
  intros s t v H. unfold maybe_gc. simpl.
  destruct (open_version s t) as [pd f c|e] eqn:O; [|reflexivity].
  apply open_version_ok in O. destruct O as (_ & _ & _ & Hcv). congruence.
Qed.
