(* Store/CrashInv.v — invariants of the crash model (Store/Crash.v) under ARBITRARY faults and power losses:
   well-formedness of the visible state, "the visible version of a dirty file is at least its durable
   image's", and, per stored copy, monotonicity of the visible version and of the durable version. *)
From Coq Require Import List NArith ZArith Bool Lia.
From BLB Require Import Gen.Consts Store.Bytes Store.MapProofs Store.Model Store.Proofs Store.WF Store.Conflict
     Store.Mono Store.Steps Store.Monotone Store.Crash Store.CrashProofs.
Import ListNotations.
Open Scope N_scope.

(* ---------- d_find on duplicate-free dirty lists ---------- *)
Definition dkeys (l : list (N * N * option file)) : list (N * N) := map fst l.

Lemma key_eqb_true : forall pd t e, key_eqb pd t e = true <-> fst e = (pd, t).
Proof.
  intros pd t [[p t0] img]. unfold key_eqb. simpl. rewrite andb_true_iff, !N.eqb_eq. split.
  - intros [-> ->]. reflexivity.
  - intros H. inversion H. auto.
Qed.

Lemma d_find_some_in : forall pd t l img, d_find pd t l = Some img -> In (pd, t, img) l.
Proof.
  intros pd t l img H. unfold d_find in H.
  destruct (filter (key_eqb pd t) l) as [|e r] eqn:F; [discriminate|]. inversion H; subst.
  assert (Hin : In e (filter (key_eqb pd t) l)) by (rewrite F; now left).
  apply filter_In in Hin. destruct Hin as [Hin K]. apply key_eqb_true in K.
  destruct e as [k i]. simpl in *. subst. exact Hin.
Qed.

Lemma d_find_in : forall pd t l img, NoDup (dkeys l) -> In (pd, t, img) l -> d_find pd t l = Some img.
Proof.
  intros pd t l img. induction l as [|e l IH]; intros ND Hin; [destruct Hin|].
  unfold d_find. simpl. inversion ND as [|? ? Hn ND']; subst.
  destruct (key_eqb pd t e) eqn:K.
  - destruct Hin as [->|Hin]; [reflexivity|]. exfalso. apply key_eqb_true in K. apply Hn.
    unfold dkeys. apply in_map_iff. exists (pd, t, img). split; [simpl; symmetry; exact K|exact Hin].
  - destruct Hin as [->|Hin].
    + exfalso. assert (key_eqb pd t (pd, t, img) = true) by (apply key_eqb_true; reflexivity). congruence.
    + apply IH; assumption.
Qed.

Lemma d_find_none_notin : forall pd t l img, d_find pd t l = None -> ~ In (pd, t, img) l.
Proof.
  intros pd t l img H Hin. pose proof (d_find_none_all pd t l H _ Hin) as K.
  assert (key_eqb pd t (pd, t, img) = true) by (apply key_eqb_true; reflexivity). congruence.
Qed.

Lemma NoDup_dkeys_filter : forall p l, NoDup (dkeys l) -> NoDup (dkeys (filter p l)).
Proof.
  intros p l. induction l as [|e l IH]; intros ND; simpl; [constructor|].
  inversion ND as [|? ? Hn ND']; subst. destruct (p e); simpl; [|now apply IH].
  constructor; [|now apply IH]. intros H. apply Hn. unfold dkeys in *. apply in_map_iff in H.
  destruct H as (x & Hx & Hin). apply filter_In in Hin. apply in_map_iff. exists x. tauto.
Qed.

Lemma d_find_filter : forall p pd t l,
    NoDup (dkeys l) ->
    d_find pd t (filter p l) =
    match d_find pd t l with Some img => if p (pd, t, img) then Some img else None | None => None end.
Proof.
  intros p pd t l ND. destruct (d_find pd t l) as [img|] eqn:F.
  - apply d_find_some_in in F. destruct (p (pd, t, img)) eqn:P.
    + apply d_find_in; [now apply NoDup_dkeys_filter|]. apply filter_In. auto.
    + destruct (d_find pd t (filter p l)) as [img'|] eqn:F'; [|reflexivity]. exfalso.
      apply d_find_some_in in F'. apply filter_In in F'. destruct F' as [Hin P'].
      assert (img' = img); [|subst; congruence].
      pose proof (d_find_in pd t l img ND F) as A. pose proof (d_find_in pd t l img' ND Hin) as B. congruence.
  - destruct (d_find pd t (filter p l)) as [img'|] eqn:F'; [|reflexivity]. exfalso.
    apply d_find_some_in in F'. apply filter_In in F'. destruct F' as [Hin _].
    eapply d_find_none_notin; eauto.
Qed.

(* ---------- the invariant ---------- *)
(* every file with unsynced updates exists, and its visible version is at least its durable image's *)
Definition DI (cs : cstore) : Prop :=
  NoDup (dkeys (dirty cs)) /\
  forall pd t img, In (pd, t, img) (dirty cs) ->
                   exists f, copy (vs cs) pd t = Some f /\ forall g, img = Some g -> ver_le g f.

Definition cinv (cs : cstore) : Prop := wf (vs cs) /\ DI cs.

Lemma cinv_init : forall m, cinv (cinit m).
Proof.
  intros m. split; [apply wf_init|]. split; [constructor|]. intros pd t img [].
Qed.

(* what one transition does to one stored copy: visible copy V, durable copy D *)
Definition kstep (cs cs' : cstore) (pd : N) (t : tract) : Prop :=
  (* gone (or never there) *)
  (copy (vs cs') pd t = None /\ durable_copy cs' pd t = None) \/
  (* still there: neither the visible nor the durable version went down; durable <= visible *)
  (exists f f', copy (vs cs) pd t = Some f /\ copy (vs cs') pd t = Some f' /\ ver_le f f' /\
                (forall g, durable_copy cs pd t = Some g ->
                           exists g', durable_copy cs' pd t = Some g' /\ ver_le g g') /\
                (forall g', durable_copy cs' pd t = Some g' -> ver_le g' f')) \/
  (* new *)
  (copy (vs cs) pd t = None /\ durable_copy cs pd t = None /\
   exists f', copy (vs cs') pd t = Some f' /\ forall g', durable_copy cs' pd t = Some g' -> ver_le g' f').

(* without the "new" case: closed under composition *)
Definition kstepNI (cs cs' : cstore) (pd : N) (t : tract) : Prop :=
  (copy (vs cs') pd t = None /\ durable_copy cs' pd t = None) \/
  (exists f f', copy (vs cs) pd t = Some f /\ copy (vs cs') pd t = Some f' /\ ver_le f f' /\
                (forall g, durable_copy cs pd t = Some g ->
                           exists g', durable_copy cs' pd t = Some g' /\ ver_le g g') /\
                (forall g', durable_copy cs' pd t = Some g' -> ver_le g' f')).

Lemma kstepNI_kstep : forall a b pd t, kstepNI a b pd t -> kstep a b pd t.
Proof. intros a b pd t [H|H]; [now left|right; now left]. Qed.

Lemma kstepNI_trans : forall a b c pd t, kstepNI a b pd t -> kstepNI b c pd t -> kstepNI a c pd t.
Proof.
  intros a b c pd t H1 H2. destruct H2 as [G|(f1 & f2 & C1 & C2 & L & Dm & Dl)]; [now left|].
  destruct H1 as [[G _]|(f0 & f1' & C0 & C1' & L' & Dm' & Dl')]; [congruence|].
  rewrite C1 in C1'. inversion C1'; subst f1'. right. exists f0, f2.
  split; [exact C0|]. split; [exact C2|]. split; [eapply ver_le_trans; eauto|]. split; [|exact Dl].
  intros g Hg. destruct (Dm' g Hg) as (g1 & Hg1 & L1). destruct (Dm g1 Hg1) as (g2 & Hg2 & L2).
  exists g2. split; [exact Hg2|eapply ver_le_trans; eauto].
Qed.

(* a transition that is good: keeps the invariant and is a kstepNI for every copy *)
Definition goodNI (cs cs' : cstore) : Prop :=
  cinv cs -> cinv cs' /\ forall pd t, kstepNI cs cs' pd t.

Lemma goodNI_trans : forall a b c, goodNI a b -> goodNI b c -> goodNI a c.
Proof.
  intros a b c H1 H2 I. destruct (H1 I) as [Ib K1]. destruct (H2 Ib) as [Ic K2].
  split; [exact Ic|]. intros pd t. eapply kstepNI_trans; eauto.
Qed.

Lemma durable_le_visible : forall cs pd t g,
    DI cs -> durable_copy cs pd t = Some g -> exists f, copy (vs cs) pd t = Some f /\ ver_le g f.
Proof.
  intros cs pd t g [ND E] H. unfold durable_copy in H.
  destruct (d_find pd t (dirty cs)) as [img|] eqn:F.
  - subst img. apply d_find_some_in in F. destruct (E pd t (Some g) F) as (f & C & L). exists f. auto.
  - exists g. split; [exact H|apply ver_le_refl].
Qed.

Lemma goodNI_refl : forall cs, goodNI cs cs.
Proof.
  intros cs I. split; [exact I|]. intros pd t. destruct (copy (vs cs) pd t) as [f|] eqn:C.
  - right. exists f, f. repeat split; auto using ver_le_refl.
    + intros g Hg. exists g. split; [exact Hg|apply ver_le_refl].
    + intros g' Hg. destruct I as [_ DIc]. destruct (durable_le_visible cs pd t g' DIc Hg) as (f0 & C0 & L).
      rewrite C in C0. inversion C0; subst. exact L.
  - left. split; [exact C|]. unfold durable_copy. destruct I as [_ [ND E]].
    destruct (d_find pd t (dirty cs)) as [img|] eqn:F; [|exact C].
    apply d_find_some_in in F. destruct (E pd t img F) as (f & C' & _). congruence.
Qed.

(* ---------- generic transitions ---------- *)
(* copies stay or disappear, dirty entries are dropped (synced or deleted), none is left for a deleted file *)
Lemma good_shrink : forall cs cs' p,
    DI cs ->
    (forall pd t, copy (vs cs') pd t = copy (vs cs) pd t \/ copy (vs cs') pd t = None) ->
    dirty cs' = filter p (dirty cs) ->
    (forall pd t img, In (pd, t, img) (dirty cs') -> copy (vs cs') pd t <> None) ->
    DI cs' /\ forall pd t, kstepNI cs cs' pd t.
Proof.
  intros cs cs' p [ND E] HC HD HP.
  assert (ND' : NoDup (dkeys (dirty cs'))) by (rewrite HD; now apply NoDup_dkeys_filter).
  assert (DI' : DI cs').
  { split; [exact ND'|]. intros pd t img Hin. pose proof (HP pd t img Hin) as Hn.
    rewrite HD in Hin. apply filter_In in Hin. destruct Hin as [Hin _].
    destruct (E pd t img Hin) as (f & C & L). exists f. split; [|exact L].
    destruct (HC pd t) as [X|X]; congruence. }
  split; [exact DI'|]. intros pd t.
  assert (DF : d_find pd t (dirty cs') =
               match d_find pd t (dirty cs) with
               | Some img => if p (pd, t, img) then Some img else None | None => None end)
    by (rewrite HD; now apply d_find_filter).
  destruct (copy (vs cs') pd t) as [f'|] eqn:C'.
  - destruct (HC pd t) as [X|X]; [|congruence]. rewrite C' in X. symmetry in X.
    right. exists f', f'. split; [exact X|]. split; [exact C'|]. split; [apply ver_le_refl|]. split.
    + intros g Hg. unfold durable_copy in *. rewrite DF.
      destruct (d_find pd t (dirty cs)) as [img|] eqn:F.
      * subst img. destruct (p (pd, t, Some g)); [exists g; split; [reflexivity|apply ver_le_refl]|].
        rewrite C'. exists f'. split; [reflexivity|].
        apply d_find_some_in in F. destruct (E pd t (Some g) F) as (f0 & C0 & L). rewrite X in C0.
        inversion C0; subst. now apply L.
      * rewrite C'. rewrite X in Hg. exists f'. split; [reflexivity|]. inversion Hg. apply ver_le_refl.
    + intros g' Hg. destruct (durable_le_visible cs' pd t g' DI' Hg) as (f0 & C0 & L).
      rewrite C' in C0. inversion C0; subst. exact L.
  - left. split; [exact C'|]. unfold durable_copy.
    destruct (d_find pd t (dirty cs')) as [img|] eqn:F; [|exact C'].
    apply d_find_some_in in F. exfalso. eapply HP; eauto.
Qed.

(* an in-place update of an existing file that does not lower its version *)
Lemma good_upd : forall cs pd t f f',
    DI cs -> copy (vs cs) pd t = Some f -> ver_le f f' ->
    let cs' := with_vs (d_mark cs pd t) (put_file (vs cs) pd t f') in
    DI cs' /\ forall p t0, kstepNI cs cs' p t0.
Proof.
  intros cs pd t f f' [ND E] C L cs'.
  assert (CP : forall p t0, copy (vs cs') p t0 = if (p =? pd) && (t0 =? t) then Some f' else copy (vs cs) p t0).
  { intros. unfold cs'. simpl. apply copy_put_file. }
  assert (DD : dirty cs' = match d_find pd t (dirty cs) with
                           | Some _ => dirty cs | None => (pd, t, Some f) :: dirty cs end).
  { unfold cs', d_mark. simpl. rewrite C. now destruct (d_find pd t (dirty cs)). }
  assert (DF : forall p t0, d_find p t0 (dirty cs') =
                            if (p =? pd) && (t0 =? t)
                            then match d_find pd t (dirty cs) with Some i => Some i | None => Some (Some f) end
                            else d_find p t0 (dirty cs)).
  { intros p t0. rewrite DD. destruct (d_find pd t (dirty cs)) as [i|] eqn:F.
    - destruct ((p =? pd) && (t0 =? t)) eqn:K; [|reflexivity].
      apply andb_true_iff in K. destruct K as [K1 K2]. apply N.eqb_eq in K1, K2. now subst.
    - unfold d_find at 1. simpl. unfold key_eqb at 1. simpl. rewrite (N.eqb_sym pd p), (N.eqb_sym t t0).
      destruct ((p =? pd) && (t0 =? t)); reflexivity. }
  assert (DI' : DI cs').
  { split.
    - rewrite DD. destruct (d_find pd t (dirty cs)) eqn:F; [exact ND|]. simpl. constructor; [|exact ND].
      intros H. unfold dkeys in H. apply in_map_iff in H. destruct H as ([[p0 t1] i] & Hk & Hin).
      simpl in Hk. inversion Hk; subst. eapply d_find_none_notin; eauto.
    - intros p t0 img Hin. rewrite CP. rewrite DD in Hin.
      assert (Hin' : In (p, t0, img) (dirty cs) \/ (p = pd /\ t0 = t /\ img = Some f)).
      { destruct (d_find pd t (dirty cs)); [now left|]. destruct Hin as [X|X]; [right; inversion X; auto|now left]. }
      destruct Hin' as [Hin'|(-> & -> & ->)].
      + destruct (E p t0 img Hin') as (f0 & C0 & L0).
        destruct ((p =? pd) && (t0 =? t)) eqn:K; [|exists f0; auto].
        apply andb_true_iff in K. destruct K as [K1 K2]. apply N.eqb_eq in K1, K2. subst.
        exists f'. split; [reflexivity|]. intros g Hg. rewrite C in C0. inversion C0; subst f0.
        eapply ver_le_trans; [now apply L0|exact L].
      + rewrite !N.eqb_refl. exists f'. split; [reflexivity|]. intros g Hg. inversion Hg; subst. exact L. }
  split; [exact DI'|]. intros p t0.
  destruct ((p =? pd) && (t0 =? t)) eqn:K.
  - apply andb_true_iff in K. destruct K as [K1 K2]. apply N.eqb_eq in K1, K2. subst p t0.
    right. exists f, f'. split; [exact C|]. split; [rewrite CP, !N.eqb_refl; reflexivity|]. split; [exact L|]. split.
    + intros g Hg. unfold durable_copy in *. rewrite DF, !N.eqb_refl. simpl.
      destruct (d_find pd t (dirty cs)) as [i|]; [exists g; split; [exact Hg|apply ver_le_refl]|].
      rewrite C in Hg. inversion Hg; subst. exists g. split; [reflexivity|apply ver_le_refl].
    + intros g' Hg. destruct (durable_le_visible cs' pd t g' DI' Hg) as (f0 & C0 & L0).
      rewrite CP, !N.eqb_refl in C0. inversion C0; subst. exact L0.
  - assert (SV : copy (vs cs') p t0 = copy (vs cs) p t0) by (rewrite CP, K; reflexivity).
    assert (SD : durable_copy cs' p t0 = durable_copy cs p t0).
    { unfold durable_copy. rewrite DF, K, SV. reflexivity. }
    (* reflexivity on cs for this key, transported along the two equalities *)
    assert (R0 : kstepNI cs cs p t0).
    { destruct (copy (vs cs) p t0) as [f0|] eqn:C0.
      - right. exists f0, f0. repeat split; auto using ver_le_refl.
        + intros g Hg. exists g. split; [exact Hg|apply ver_le_refl].
        + intros g' Hg. destruct (durable_le_visible cs p t0 g' (conj ND E) Hg) as (f1 & C1 & L1).
          rewrite C0 in C1. inversion C1; subst. exact L1.
      - left. split; [exact C0|]. unfold durable_copy.
        destruct (d_find p t0 (dirty cs)) as [img|] eqn:F; [|exact C0].
        apply d_find_some_in in F. destruct (E p t0 img F) as (f1 & C1 & _). congruence. }
    destruct R0 as [[A B]|(f0 & f1 & A & B & Lx & Dm & Dl)].
    + left. rewrite SV, SD. auto.
    + right. exists f0, f1. rewrite SV, SD. auto.
Qed.

(* ---------- the primitive transitions are good ---------- *)
Lemma filter_true : forall (A : Type) (l : list A), filter (fun _ => true) l = l.
Proof. induction l; simpl; congruence. Qed.

Lemma goodNI_same_copies : forall cs s' p,
    wf s' -> (forall pd t, copy s' pd t = copy (vs cs) pd t) ->
    goodNI cs (mkc s' (filter p (dirty cs))).
Proof.
  intros cs s' p W HC [_ DIc].
  destruct (good_shrink cs (mkc s' (filter p (dirty cs))) p DIc) as [D K]; simpl; auto.
  - intros pd t img Hin. apply filter_In in Hin. destruct Hin as [Hin _].
    destruct DIc as [_ E]. destruct (E pd t img Hin) as (f & C & _). rewrite HC. congruence.
  - split; [split; [exact W|exact D]|exact K].
Qed.

Lemma goodNI_bump : forall cs t, goodNI cs (with_vs cs (bump_stamp (vs cs) t)).
Proof.
  intros cs t I. pose proof (goodNI_same_copies cs (bump_stamp (vs cs) t) (fun _ => true)) as G.
  rewrite filter_true in G. apply G; auto.
  - apply wf_bump_stamp. apply I.
  - intros. apply copy_bump.
Qed.

Lemma goodNI_sync : forall cs pd t, goodNI cs (d_clear cs pd t).
Proof.
  intros cs pd t I. unfold d_clear. apply goodNI_same_copies; auto. apply I.
Qed.

(* a visible state whose copies are those of cs or gone, with the dirty list pruned accordingly *)
Lemma goodNI_prune : forall cs s',
    wf s' -> (forall pd t, copy s' pd t = copy (vs cs) pd t \/ copy s' pd t = None) ->
    goodNI cs (prune (with_vs cs s')).
Proof.
  intros cs s' W HC [_ DIc].
  destruct (good_shrink cs (prune (with_vs cs s'))
                        (fun e => match copy s' (fst (fst e)) (snd (fst e)) with Some _ => true | None => false end)
                        DIc) as [D K]; simpl; auto.
  - intros pd t img Hin. apply filter_In in Hin. destruct Hin as [_ Hc]. simpl in Hc.
    destruct (copy s' pd t); [discriminate|discriminate].
  - split; [split; [exact W|exact D]|exact K].
Qed.

Lemma goodNI_rm : forall cs t, goodNI cs (fst (x_remove_tract cs t)).
Proof.
  intros cs t I. unfold x_remove_tract.
  pose proof (wf_remove_tract (vs cs) t (proj1 I)) as W.
  pose proof (remove_tract_effect (vs cs) t) as Eff.
  destruct (remove_tract (vs cs) t) as [s' e]. simpl in *.
  apply goodNI_prune; auto. intros pd t0.
  destruct Eff as [->|(pd0 & f & _ & _ & _ & _ & E)]; [now left|].
  rewrite E. destruct ((pd =? pd0) && (t0 =? t)); auto.
Qed.

Lemma goodNI_upd : forall cs pd t f f',
    copy (vs cs) pd t = Some f -> ver_le f f' ->
    goodNI cs (with_vs (d_mark cs pd t) (put_file (vs cs) pd t f')).
Proof.
  intros cs pd t f f' C L [W DIc].
  destruct (good_upd cs pd t f f' DIc C L) as [D K]. split; [split; [|exact D]|exact K].
  simpl. apply wf_put_file_existing; [congruence|exact W].
Qed.

(* ---------- disk calls ---------- *)
Lemma x_open_keeps : forall cs f pd t, fst (fst (x_open cs f pd t false)) = cs.
Proof.
  intros. unfold x_open. destruct (tick f) as [h f']. destruct h; [reflexivity|].
  now destruct (copy (vs cs) pd t).
Qed.

Lemma x_open_existing_keeps : forall cs f t, fst (fst (fst (x_open_existing cs f t))) = cs.
Proof.
  intros. unfold x_open_existing. destruct (lookup (vs cs) t) as [[slot st]|]; [|reflexivity].
  destruct (disk_of (vs cs) slot) as [pd|]; [|reflexivity].
  pose proof (x_open_keeps cs f pd t) as H. destruct (x_open cs f pd t false) as [[c f1] e]. exact H.
Qed.

Lemma good_x_close : forall cs f pd t, goodNI cs (fst (fst (x_close cs f pd t))).
Proof.
  intros. unfold x_close. destruct (tick f) as [h f']. destruct h; simpl; [apply goodNI_refl|apply goodNI_sync].
Qed.

Lemma good_x_close_if : forall cs f opd t e, goodNI cs (fst (fst (x_close_if cs f opd t e))).
Proof.
  intros. unfold x_close_if. destruct opd as [pd|]; [|apply goodNI_refl].
  pose proof (good_x_close cs f pd t) as G. destruct (x_close cs f pd t) as [[c f1] ce]. exact G.
Qed.

Lemma good_x_write : forall cs f pd t d off, goodNI cs (fst (fst (x_write cs f pd t d off))).
Proof.
  intros. unfold x_write. destruct (tick f) as [h f'].
  destruct (copy (vs cs) pd t) as [fl|] eqn:C; [|apply goodNI_refl].
  assert (L : forall x, ver_le fl (mkfile (f_ver fl) x)).
  { intros x v Hv. exists v. split; [exact Hv|lia]. }
  destruct h; [destruct (rle_len d / 2 =? 0); [apply goodNI_refl|]|]; simpl; eapply goodNI_upd; eauto.
Qed.

Lemma good_x_setxattr : forall cs f pd t v,
    (forall fl c, copy (vs cs) pd t = Some fl -> f_ver fl = Some c -> (c <= v)%Z) ->
    goodNI cs (fst (fst (x_setxattr cs f pd t v))).
Proof.
  intros cs f pd t v H. unfold x_setxattr. destruct (tick f) as [h f']. destruct h; [apply goodNI_refl|].
  destruct (copy (vs cs) pd t) as [fl|] eqn:C; [|apply goodNI_refl]. simpl.
  eapply goodNI_upd; eauto. intros c Hc. exists v. split; [reflexivity|eapply H; eauto].
Qed.

(* ---------- operations without installation ---------- *)
Ltac open_ex cs f t cs1 f1 opd e :=
  pose proof (x_open_existing_keeps cs f t) as Hk;
  destruct (x_open_existing cs f t) as [[[cs1 f1] opd] e]; simpl in Hk; subst cs1.

Lemma good_x_do_write : forall cs f t v d off, goodNI cs (fst (fst (x_do_write cs f t v d off))).
Proof.
  intros. unfold x_do_write. eapply goodNI_trans; [apply (goodNI_bump cs t)|].
  set (cs0 := with_vs cs (bump_stamp (vs cs) t)).
  open_ex cs0 f t cs1 f1 opd e. destruct opd as [pd|]; [|apply goodNI_refl].
  match goal with |- context [if ?b then x_write _ _ _ _ _ _ else _] => destruct b end.
  - pose proof (good_x_write cs0 f1 pd t d off) as G1.
    destruct (x_write cs0 f1 pd t d off) as [[cs2 f2] e2]. simpl in G1.
    eapply goodNI_trans; [exact G1|]. apply good_x_close_if.
  - apply good_x_close_if.
Qed.

Lemma good_x_read : forall cs f t v len off, goodNI cs (fst (fst (x_read cs f t v len off))).
Proof.
  intros. unfold x_read. open_ex cs f t cs1 f1 opd e. destruct opd as [pd|]; [|apply goodNI_refl].
  match goal with |- context [x_close_if ?a ?b ?c ?d ?e] =>
    pose proof (good_x_close_if a b c d e) as G; destruct (x_close_if a b c d e) as [[cs2 f2] e2] end.
  exact G.
Qed.

Lemma good_x_stat : forall cs f t v, goodNI cs (fst (fst (x_stat cs f t v))).
Proof.
  intros. unfold x_stat. destruct (lookup (vs cs) t) as [[slot st]|]; [|apply goodNI_refl].
  open_ex cs f t cs1 f1 opd e. destruct opd as [pd|]; [|apply goodNI_refl].
  match goal with |- context [x_close_if ?a ?b ?c ?d ?e] =>
    pose proof (good_x_close_if a b c d e) as G; destruct (x_close_if a b c d e) as [[cs2 f2] e2] end.
  exact G.
Qed.

Lemma good_x_probe : forall cs f t, goodNI cs (fst (fst (x_probe cs f t))).
Proof.
  intros. unfold x_probe. open_ex cs f t cs1 f1 opd e. destruct opd as [pd|]; [|apply goodNI_refl].
  match goal with |- context [x_close_if ?a ?b ?c ?d ?e] =>
    pose proof (good_x_close_if a b c d e) as G; destruct (x_close_if a b c d e) as [[cs2 f2] e2] end.
  exact G.
Qed.

Lemma good_x_set_version : forall cs f t v c, goodNI cs (fst (fst (x_set_version cs f t v c))).
Proof.
  intros. unfold x_set_version. destruct (v <=? 1)%Z; [apply goodNI_refl|].
  open_ex cs f t cs1 f1 opd e.
  match goal with |- context [if ?b then _ else _] => destruct b end.
  - match goal with |- context [x_close_if ?a ?b ?c ?d ?e] =>
      pose proof (good_x_close_if a b c d e) as G; destruct (x_close_if a b c d e) as [[cs2 f2] e2] end.
    exact G.
  - destruct opd as [pd|]; [|apply goodNI_refl].
    assert (G2 : goodNI cs (fst (fst (match getver cs pd t with
                                      | inl cur => if (v <=? cur)%Z then (cs, f1, E_OK)
                                                   else if (cur + 1 =? v)%Z then x_setxattr cs f1 pd t v
                                                        else (cs, f1, E_VersionMismatch)
                                      | inr er => (cs, f1, er) end)))).
    { unfold getver. destruct (copy (vs cs) pd t) as [fl|] eqn:C; [|apply goodNI_refl].
      destruct (f_ver fl) as [cur|] eqn:V; [|apply goodNI_refl].
      destruct (v <=? cur)%Z; [apply goodNI_refl|]. destruct (cur + 1 =? v)%Z eqn:E1; [|apply goodNI_refl].
      apply good_x_setxattr. intros fl0 c0 C0 V0. rewrite C in C0. inversion C0; subst fl0.
      rewrite V in V0. inversion V0; subst. apply Z.eqb_eq in E1. lia. }
    destruct (match getver cs pd t with
              | inl cur => _ | inr er => _ end) as [[cs2 f2] e2]. simpl in G2.
    match goal with |- context [x_close_if ?a ?b ?c ?d ?e] =>
      pose proof (good_x_close_if a b c d e) as G; destruct (x_close_if a b c d e) as [[cs3 f3] e3] end.
    simpl in *. eapply goodNI_trans; eauto.
Qed.

Lemma good_x_check : forall ts cs f, goodNI cs (fst (fst (x_check cs f ts))).
Proof.
  induction ts as [|tv rest IH]; intros cs f; simpl; [apply goodNI_refl|].
  pose proof (good_x_probe cs f (fst tv)) as G1. destruct (x_probe cs f (fst tv)) as [[cs1 f1] r].
  pose proof (IH cs1 f1) as G2. destruct (x_check cs1 f1 rest) as [[cs2 f2] m]. simpl in *.
  eapply goodNI_trans; eauto.
Qed.

Lemma good_x_maybe_gc : forall cs f tv, goodNI cs (fst (x_maybe_gc (cs, f) tv)).
Proof.
  intros. unfold x_maybe_gc.
  pose proof (good_x_probe cs f (fst tv)) as G1. destruct (x_probe cs f (fst tv)) as [[cs1 f1] r]. simpl in G1.
  destruct r as [cur|er]; [|exact G1]. destruct (snd tv <? cur)%Z; [exact G1|].
  simpl. eapply goodNI_trans; [exact G1|apply goodNI_rm].
Qed.

Lemma good_x_gc : forall cs f old gone, goodNI cs (fst (x_gc cs f old gone)).
Proof.
  intros. unfold x_gc.
  assert (H1 : forall l c f0, goodNI c (fst (fold_left x_maybe_gc l (c, f0)))).
  { induction l as [|x l IH]; intros c f0; cbn [fold_left]; [apply goodNI_refl|].
    pose proof (good_x_maybe_gc c f0 x) as G. destruct (x_maybe_gc (c, f0) x) as [c1 f1]. simpl in G.
    eapply goodNI_trans; [exact G|apply IH]. }
  pose proof (H1 old cs f) as G1. destruct (fold_left x_maybe_gc old (cs, f)) as [cs1 f1]. simpl in *.
  eapply goodNI_trans; [exact G1|]. clear.
  revert cs1. induction gone as [|x l IH]; intros c; cbn [fold_left]; [apply goodNI_refl|].
  eapply goodNI_trans; [apply goodNI_rm|apply IH].
Qed.

(* ---------- installation of a new copy ---------- *)
Definition good (cs cs' : cstore) : Prop := cinv cs -> cinv cs' /\ forall pd t, kstep cs cs' pd t.

Lemma goodNI_good : forall a b, goodNI a b -> good a b.
Proof. intros a b H I. destruct (H I) as [Ib K]. split; [exact Ib|]. intros. now apply kstepNI_kstep. Qed.

Lemma wf_install : forall s t slot pd fl st,
    wf s -> lookup s t = None -> get slot (slots s) = Some pd -> copy s pd t = None ->
    wf (set_table (put_file s pd t fl) (put t (slot, st) (table (put_file s pd t fl)))).
Proof.
  intros s t slot pd fl st (I & A & B) L P G. repeat split; simpl; auto.
  - intros t' i st' G'. rewrite get_put in G'. destruct (t' =? t) eqn:E.
    + apply N.eqb_eq in E. subst t'. inversion G'; subst. exists pd. split; [exact P|].
      rewrite copy_set_table, copy_put_file, !N.eqb_refl. discriminate.
    + destruct (A t' i st' G') as (pd' & G'' & C). exists pd'. split; [exact G''|].
      rewrite copy_set_table, copy_put_file, E, andb_false_r. exact C.
  - intros i pd' t' G' C. rewrite copy_set_table, copy_put_file in C. rewrite get_put.
    destruct (t' =? t) eqn:E2.
    + apply N.eqb_eq in E2. subst t'. rewrite andb_true_r in C. destruct (pd' =? pd) eqn:E1.
      * apply N.eqb_eq in E1. subst pd'. rewrite (I i slot pd G' P). eauto.
      * destruct (B i pd' t G' C) as [st' Hs]. unfold lookup in L. congruence.
    + rewrite andb_false_r in C. eapply B; eauto.
Qed.

Lemma good_install : forall cs t slot pd fl st,
    lookup (vs cs) t = None -> get slot (slots (vs cs)) = Some pd -> copy (vs cs) pd t = None ->
    good cs (with_vs cs (set_table (put_file (vs cs) pd t fl)
                                   (put t (slot, st) (table (put_file (vs cs) pd t fl))))).
Proof.
  intros cs t slot pd fl st L P G [W [ND E]].
  set (cs' := with_vs cs _).
  assert (CP : forall p t0, copy (vs cs') p t0 = if (p =? pd) && (t0 =? t) then Some fl else copy (vs cs) p t0).
  { intros. unfold cs'. simpl. rewrite copy_set_table. apply copy_put_file. }
  assert (NF : d_find pd t (dirty cs) = None).
  { destruct (d_find pd t (dirty cs)) as [img|] eqn:F; [|reflexivity].
    apply d_find_some_in in F. destruct (E pd t img F) as (f0 & C0 & _). congruence. }
  assert (DI' : DI cs').
  { split; [exact ND|]. intros p t0 img Hin. destruct (E p t0 img Hin) as (f0 & C0 & L0).
    destruct ((p =? pd) && (t0 =? t)) eqn:K.
    - apply andb_true_iff in K. destruct K as [K1 K2]. apply N.eqb_eq in K1, K2. subst. congruence.
    - exists f0. split; [rewrite CP, K; exact C0|exact L0]. }
  split; [split; [now apply wf_install|exact DI']|].
  intros p t0. destruct ((p =? pd) && (t0 =? t)) eqn:K.
  - apply andb_true_iff in K. destruct K as [K1 K2]. apply N.eqb_eq in K1, K2. subst p t0.
    right. right. split; [exact G|]. split; [unfold durable_copy; now rewrite NF|].
    exists fl. split; [rewrite CP, !N.eqb_refl; reflexivity|].
    intros g' Hg. destruct (durable_le_visible cs' pd t g' DI' Hg) as (f0 & C0 & L0).
    rewrite CP, !N.eqb_refl in C0. inversion C0; subst. exact L0.
  - assert (SV : copy (vs cs') p t0 = copy (vs cs) p t0) by (rewrite CP, K; reflexivity).
    assert (SD : durable_copy cs' p t0 = durable_copy cs p t0)
      by (unfold durable_copy; change (dirty cs') with (dirty cs); now rewrite SV).
    destruct (goodNI_refl cs (conj W (conj ND E))) as [_ R]. specialize (R p t0).
    apply kstepNI_kstep. destruct R as [[A B]|(f0 & f1 & A & B & Lx & Dm & Dl)].
    + left. rewrite SV, SD. auto.
    + right. exists f0, f1. rewrite SV, SD. auto.
Qed.

Lemma x_pick_ok : forall s f orc slot pd, x_pick s f orc = inl (slot, pd) -> get slot (slots s) = Some pd.
Proof.
  intros s f orc slot pd. unfold x_pick. destruct (pick s orc) as [[sl p]|e] eqn:P.
  - destruct f; intros H; inversion H; subst; eapply pick_ok; eauto.
  - destruct f; [|discriminate]. destruct (e =? E_BADORACLE)%Z; [|discriminate].
    destruct (find _ (keys (slots s))) as [i|]; [|discriminate].
    destruct (get i (slots s)) eqn:G; [|discriminate]. intros H; inversion H; subst. exact G.
Qed.

Lemma good_x_do_create : forall cs f t ver d off orc,
    good cs (fst (fst (x_do_create cs f t ver d off orc))).
Proof.
  intros. unfold x_do_create.
  destruct (lookup (vs cs) t) as [[? ?]|] eqn:L; [apply goodNI_good, goodNI_refl|].
  destruct (x_pick (vs cs) f orc) as [[slot pd]|e] eqn:P; [|apply goodNI_good, goodNI_refl].
  apply x_pick_ok in P. destruct (tick f) as [h1 f1].
  destruct (copy (vs cs) pd t) as [fl|] eqn:C.
  - simpl. apply goodNI_good. intros I. apply goodNI_prune; auto.
    + apply wf_del_file_unserved; [exact L|apply I].
    + intros p t0. rewrite copy_del_file. destruct ((p =? pd) && (t0 =? t)); auto.
  - destruct h1; [apply goodNI_good, goodNI_refl|].
    destruct (tick f1) as [h2 f2]. destruct h2; [apply goodNI_good, goodNI_refl|].
    destruct (tick f2) as [h3 f3]. destruct h3; [apply goodNI_good, goodNI_refl|].
    destruct (tick f3) as [h4 f4]. destruct h4; [apply goodNI_good, goodNI_refl|].
    simpl. now apply good_install.
Qed.

(* Create: a new copy, or (tract already there) the write path *)
Lemma good_x_create : forall cs f t d off orc, good cs (fst (fst (x_create cs f t d off orc))).
Proof.
  intros cs f t d off orc I. unfold x_create.
  pose proof (good_x_do_create cs f t (initial_version t) d off orc I) as G1.
  assert (NI : snd (x_do_create cs f t (initial_version t) d off orc) = E_AlreadyExists ->
               cinv (fst (fst (x_do_create cs f t (initial_version t) d off orc))) /\
               forall pd t0, kstepNI cs (fst (fst (x_do_create cs f t (initial_version t) d off orc))) pd t0).
  { unfold x_do_create.
    destruct (lookup (vs cs) t) as [[? ?]|] eqn:L; [intros _; now apply goodNI_refl|].
    destruct (x_pick (vs cs) f orc) as [[slot pd]|e] eqn:P; [|intros _; now apply goodNI_refl].
    destruct (tick f) as [h1 f1]. destruct (copy (vs cs) pd t) as [fl|] eqn:C.
    - intros _. simpl. apply goodNI_prune; auto.
      + apply wf_del_file_unserved; [exact L|apply I].
      + intros p t0. rewrite copy_del_file. destruct ((p =? pd) && (t0 =? t)); auto.
    - destruct h1; [intros _; now apply goodNI_refl|].
      destruct (tick f1) as [h2 f2]. destruct h2; [intros _; now apply goodNI_refl|].
      destruct (tick f2) as [h3 f3]. destruct h3; [intros _; now apply goodNI_refl|].
      destruct (tick f3) as [h4 f4]. destruct h4; [intros _; now apply goodNI_refl|].
      simpl. intros X. exfalso. revert X. ecodes. discriminate. }
  destruct (x_do_create cs f t (initial_version t) d off orc) as [[cs1 f1] e]. simpl in *.
  destruct (e =? E_AlreadyExists)%Z eqn:X; [|exact G1].
  apply Z.eqb_eq in X. destruct (NI X) as [I1 K1].
  pose proof (good_x_do_write cs1 f1 t (initial_version t) d off I1) as [I2 K2].
  destruct (x_do_write cs1 f1 t (initial_version t) d off) as [[cs2 f2] e2]. simpl in *.
  split; [exact I2|]. intros pd t0. apply kstepNI_kstep. eapply kstepNI_trans; eauto.
Qed.

(* PullTract: the invariant is kept (per-copy claims about a pull are in Store/Steps.v for the unfaulted
   call; a faulted pull may replace the copy - that is the event excluded from the monotonicity claims) *)
Lemma cinv_x_pull_pre : forall cs f t v, cinv cs -> cinv (fst (fst (x_pull_pre cs f t v))).
Proof.
  intros cs f t v I. unfold x_pull_pre.
  destruct (lookup (vs cs) t) as [[slot st]|]; [|exact I].
  destruct (disk_of (vs cs) slot) as [pd|]; [|exact I].
  pose proof (x_open_keeps cs f pd t) as Hk. destruct (x_open cs f pd t false) as [[cs1 f1] e]. simpl in Hk. subst cs1.
  match goal with |- context [x_close_if ?a ?b ?c ?d ?e] =>
    pose proof (good_x_close_if a b c d e I) as [I2 _]; destruct (x_close_if a b c d e) as [[cs2 f2] e2] end.
  simpl in I2.
  match goal with |- context [if ?b then (cs2, f2, Some E_InvalidState) else _] => destruct b end; [exact I2|].
  pose proof (goodNI_rm cs2 t I2) as [I3 _]. destruct (x_remove_tract cs2 t) as [cs3 e3]. exact I3.
Qed.

Lemma cinv_x_pull_once : forall cs f t r v orc, cinv cs -> cinv (fst (fst (x_pull_once cs f t r v orc))).
Proof.
  intros cs f t [re data] v orc I. unfold x_pull_once.
  pose proof (cinv_x_pull_pre cs f t v I) as I1. destruct (x_pull_pre cs f t v) as [[cs1 f1] r]. simpl in I1.
  destruct r as [e|]; [exact I1|].
  destruct (negb (re =? E_OK)%Z && negb (re =? E_EOF)%Z); [exact I1|].
  pose proof (good_x_do_create cs1 f1 t v data 0 orc I1) as [I2 _].
  destruct (x_do_create cs1 f1 t v data 0 orc) as [[cs2 f2] ce]. simpl in I2.
  destruct (ce =? E_OK)%Z; [exact I2|]. simpl. now apply goodNI_rm.
Qed.

Lemma cinv_x_pull_all : forall srcs cs f t v orc last,
    cinv cs -> cinv (fst (fst (x_pull_all cs f t srcs v orc last))).
Proof.
  induction srcs as [|r rest IH]; intros cs f t v orc last I; simpl; [exact I|].
  pose proof (cinv_x_pull_once cs f t r v orc I) as I1.
  destruct (x_pull_once cs f t r v orc) as [[cs1 f1] e]. simpl in I1.
  destruct (e =? E_OK)%Z; [exact I1|]. now apply IH.
Qed.

(* ---------- AddDisk ---------- *)
Lemma filter_filter : forall (A : Type) (p q : A -> bool) l,
    filter p (filter q l) = filter (fun x => q x && p x) l.
Proof.
  induction l as [|x l IH]; simpl; [reflexivity|]. destruct (q x); simpl; [destruct (p x)|]; now rewrite IH.
Qed.

Lemma fold_filters : forall (A B : Type) (g : B -> A -> bool) (h : list A -> B -> list A),
    (forall d c, h d c = filter (g c) d) ->
    forall (cl : list B) (d : list A), exists p, fold_left h cl d = filter p d.
Proof.
  intros A B g h Hh. induction cl as [|c cl IH]; intros d; simpl.
  - exists (fun _ => true). now rewrite filter_true.
  - destruct (IH (h d c)) as [p Hp]. rewrite Hp, Hh, filter_filter. eauto.
Qed.

Lemma goodNI_prune_f : forall cs s' p,
    wf s' -> (forall pd t, copy s' pd t = copy (vs cs) pd t \/ copy s' pd t = None) ->
    goodNI cs (prune (mkc s' (filter p (dirty cs)))).
Proof.
  intros cs s' p W HC [_ DIc]. unfold prune. simpl. rewrite filter_filter.
  match goal with |- context [filter ?q (dirty cs)] =>
    destruct (good_shrink cs (mkc s' (filter q (dirty cs))) q DIc) as [D K]; simpl; auto end.
  - intros pd t img Hin. apply filter_In in Hin. destruct Hin as [_ Hc]. simpl in Hc.
    apply andb_true_iff in Hc. destruct Hc as [_ Hc]. destruct (copy s' pd t); discriminate.
  - split; [split; [exact W|exact D]|exact K].
Qed.

Lemma add_disk_copies : forall s pd p t,
    wf s -> copy (fst (add_disk s pd)) p t = copy s p t \/ copy (fst (add_disk s pd)) p t = None.
Proof.
  intros s pd p t W. pose proof (copy_step_cases s (AddDisk pd) p t W) as CC. simpl in CC.
  destruct (add_disk s pd) as [s' e]. simpl in *.
  destruct (copy s' p t) as [f'|] eqn:C'; [|now right]. left.
  destruct (cc_to_some _ _ _ _ _ _ CC) as
      [E|[(f & v & d & off & _ & X & _)|[(f & d & off & orc & _ & X & _)
       |[(f & v & c & _ & X & _)|[(d & off & orc & _ & X & _)
       |(srcs & v & orc & re & data & X & _)]]]]]; try discriminate.
  now symmetry.
Qed.

Lemma good_x_add_disk : forall cs pd, goodNI cs (fst (x_add_disk cs pd)).
Proof.
  intros cs pd I. unfold x_add_disk.
  pose proof (wf_add_disk (vs cs) pd (proj1 I)) as W.
  pose proof (fun p t => add_disk_copies (vs cs) pd p t (proj1 I)) as HC.
  destruct (add_disk (vs cs) pd) as [s' e]. simpl in *.
  destruct (e =? E_OK)%Z; [|now apply goodNI_refl]. simpl.
  match goal with |- context [fold_left ?h ?cl (dirty cs)] =>
    assert (HF : exists p, fold_left h cl (dirty cs) = filter p (dirty cs))
  end.
  { apply (fold_filters _ _ (fun (c : conflict) (e0 : N * N * option file) =>
                               let '(t, _, _, pd1, pd2) := c in
                               negb (key_eqb pd1 t e0) && negb (key_eqb pd2 t e0))).
    intros d [[[[t i1] i2] pd1] pd2]. reflexivity. }
  destruct HF as [p Hp]. rewrite Hp.
  now apply goodNI_prune_f.
Qed.

(* ---------- power loss ---------- *)
Lemma copy_restore_same : forall s pd t img, copy (restore s (pd, t, img)) pd t = img.
Proof.
  intros. unfold restore. simpl. destruct img as [fl|].
  - rewrite copy_put_file, !N.eqb_refl. reflexivity.
  - rewrite copy_del_file, !N.eqb_refl. reflexivity.
Qed.

Lemma fold_restore_other : forall l s pd t,
    (forall e, In e l -> key_eqb pd t e = false) -> copy (fold_left restore l s) pd t = copy s pd t.
Proof.
  induction l as [|e l IH]; intros s pd t A; simpl; [reflexivity|].
  rewrite IH by (intros; apply A; now right). apply copy_restore_other. apply A. now left.
Qed.

(* after a power loss the visible copy IS the durable copy *)
Lemma power_loss_visible : forall cs pd t,
    NoDup (dkeys (dirty cs)) -> copy (vs (power_loss cs)) pd t = durable_copy cs pd t.
Proof.
  intros cs pd t ND. unfold power_loss. simpl.
  change (copy (restart (fold_left restore (dirty cs) (vs cs))) pd t)
    with (copy (fold_left restore (dirty cs) (vs cs)) pd t).
  unfold durable_copy. destruct (d_find pd t (dirty cs)) as [img|] eqn:F.
  - apply d_find_some_in in F. revert F ND. generalize (vs cs).
    induction (dirty cs) as [|e l IH]; intros s Hin ND; [destruct Hin|].
    simpl. inversion ND as [|? ? Hn ND']; subst. destruct Hin as [->|Hin].
    + rewrite fold_restore_other; [apply copy_restore_same|].
      intros e He. destruct (key_eqb pd t e) eqn:K; [|reflexivity]. exfalso. apply key_eqb_true in K.
      apply Hn. simpl. unfold dkeys. apply in_map_iff. exists e. auto.
    + apply IH; assumption.
  - apply fold_restore_other. now apply d_find_none_all.
Qed.

Lemma cinv_power_loss : forall cs, cinv (power_loss cs).
Proof. intros. split; [apply wf_restart|]. split; [constructor|]. intros pd t img []. Qed.

Lemma durable_power_loss : forall cs pd t,
    DI cs -> durable_copy (power_loss cs) pd t = durable_copy cs pd t.
Proof.
  intros cs pd t [ND _]. unfold durable_copy at 1. simpl. now apply power_loss_visible.
Qed.

(* ---------- every transition of the double keeps the invariant ---------- *)
Definition is_pull (o : op) : bool := match o with PullTract _ _ _ _ => true | _ => false end.

Lemma good_restart : forall cs, goodNI cs (with_vs cs (restart (vs cs))).
Proof.
  intros cs I. pose proof (goodNI_same_copies cs (restart (vs cs)) (fun _ => true)) as G.
  rewrite filter_true in G. apply G; auto. apply wf_restart.
Qed.

Lemma good_x_step : forall cs f o, is_pull o = false -> good cs (fst (x_step cs f o)).
Proof.
  intros cs f o NP. destruct o; try discriminate; simpl.
  - pose proof (good_x_create cs f t data off orc) as G. now destruct (x_create cs f t data off orc) as [[? ?] ?].
  - apply goodNI_good. pose proof (good_x_do_write cs f t v data off) as G.
    now destruct (x_do_write cs f t v data off) as [[? ?] ?].
  - apply goodNI_good. pose proof (good_x_read cs f t v len off) as G.
    now destruct (x_read cs f t v len off) as [[? ?] [? ?]].
  - apply goodNI_good. pose proof (good_x_stat cs f t v) as G.
    now destruct (x_stat cs f t v) as [[? ?] [[? ?] ?]].
  - apply goodNI_good. pose proof (good_x_set_version cs f t v cond) as G.
    now destruct (x_set_version cs f t v cond) as [[? ?] [? ?]].
  - apply goodNI_good. apply good_x_gc.
  - apply goodNI_good. pose proof (good_x_check ts cs f) as G. now destruct (x_check cs f ts) as [[? ?] ?].
  - apply goodNI_good. apply good_restart.
  - apply goodNI_good. pose proof (good_x_add_disk cs pd) as G. now destruct (x_add_disk cs pd).
  - apply goodNI_good. intros I.
    pose proof (wf_remove_disk (vs cs) pd (proj1 I)) as W. pose proof (remove_disk_disks (vs cs) pd) as D.
    destruct (remove_disk (vs cs) pd) as [s' e]. simpl in *.
    pose proof (goodNI_same_copies cs s' (fun _ => true)) as G. rewrite filter_true in G.
    apply G; auto. intros. unfold copy, files_of. now rewrite D.
  - apply goodNI_good. intros I.
    pose proof (wf_set_alloc (vs cs) pd stop (proj1 I)) as W.
    assert (D : disks (fst (set_alloc (vs cs) pd stop)) = disks (vs cs))
      by (unfold set_alloc; now destruct (slot_of (vs cs) pd)).
    destruct (set_alloc (vs cs) pd stop) as [s' e]. simpl in *.
    pose proof (goodNI_same_copies cs s' (fun _ => true)) as G. rewrite filter_true in G.
    apply G; auto. intros. unfold copy, files_of. now rewrite D.
Qed.

Theorem cinv_xstep : forall cs x, cinv cs -> cinv (xstep cs x).
Proof.
  intros cs [f o|] I; simpl; [|apply cinv_power_loss].
  destruct (is_pull o) eqn:P; [|now apply good_x_step].
  destruct o; try discriminate. simpl.
  pose proof (cinv_x_pull_all srcs cs f t v orc E_OK I) as G.
  now destruct (x_pull_all cs f t srcs v orc E_OK) as [[? ?] ?].
Qed.

Theorem cinv_xrun : forall xs cs, cinv cs -> cinv (xrun cs xs).
Proof. induction xs as [|x xs IH]; intros cs I; simpl; [exact I|]. apply IH. now apply cinv_xstep. Qed.

(* ---------- monotonicity under faults ---------- *)
(* the transitions after which the claims are made: every operation with every fault position, except
   PullTract (it may delete and re-install the copy: a fresh history), and (durable claim only) power loss *)
Definition xop_nopull (x : xop) : Prop := match x with XOp _ o => is_pull o = false | XPowerLoss => True end.

(* visible version of a stored copy: never decreases by any (faulted) operation other than PullTract *)
Theorem x_visible_monotone : forall cs f o pd t fl fl',
    cinv cs -> is_pull o = false ->
    copy (vs cs) pd t = Some fl -> copy (vs (fst (x_step cs f o))) pd t = Some fl' -> ver_le fl fl'.
Proof.
  intros cs f o pd t fl fl' I NP C C'. destruct (good_x_step cs f o NP I) as [_ K].
  destruct (K pd t) as [[X _]|[(f0 & f1 & A & B & L & _)|(X & _)]]; try congruence.
  rewrite C in A. rewrite C' in B. inversion A. inversion B. subst. exact L.
Qed.

(* durable version of a stored copy: never decreases by any faulted operation other than PullTract, nor by
   a power loss; and it never exceeds the visible version *)
Theorem x_durable_monotone : forall cs x pd t g g',
    cinv cs -> xop_nopull x ->
    durable_copy cs pd t = Some g -> durable_copy (xstep cs x) pd t = Some g' -> ver_le g g'.
Proof.
  intros cs [f o|] pd t g g' I NP Dg Dg'; simpl in *.
  - destruct (good_x_step cs f o NP I) as [_ K].
    destruct (K pd t) as [[_ X]|[(f0 & f1 & _ & _ & _ & Dm & _)|(_ & X & _)]]; try congruence.
    destruct (Dm g Dg) as (g2 & H2 & L). rewrite Dg' in H2. inversion H2; subst. exact L.
  - rewrite durable_power_loss in Dg' by apply I. rewrite Dg in Dg'. inversion Dg'. apply ver_le_refl.
Qed.

Fixpoint xstays (P : cstore -> Prop) (cs : cstore) (xs : list xop) : Prop :=
  match xs with [] => True | x :: r => P (xstep cs x) /\ xstays P (xstep cs x) r end.

(* along any history of faulted operations (no PullTract) and power losses during which the copy stays on
   stable storage, its durable version never decreases *)
Theorem durable_monotone_run : forall xs cs pd t g g',
    cinv cs -> Forall xop_nopull xs ->
    xstays (fun c => durable_copy c pd t <> None) cs xs ->
    durable_copy cs pd t = Some g -> durable_copy (xrun cs xs) pd t = Some g' -> ver_le g g'.
Proof.
  induction xs as [|x xs IH]; intros cs pd t g g' I NP ST Dg Dg'; simpl in *.
  - rewrite Dg in Dg'. inversion Dg'. apply ver_le_refl.
  - inversion NP as [|? ? Hx Hr]; subst. destruct ST as [Hn ST].
    destruct (durable_copy (xstep cs x) pd t) as [g1|] eqn:D1; [|congruence].
    apply (ver_le_trans g g1 g'); [exact (x_durable_monotone cs x pd t g g1 I Hx Dg D1)|].
    exact (IH (xstep cs x) pd t g1 g' (cinv_xstep cs x I) Hr ST D1 Dg').
Qed.

(* ---------- a PullTract of ANOTHER tract does not touch this tract's copies ---------- *)
Definition other_same (t : tract) (cs cs' : cstore) : Prop :=
  forall p t0, t0 <> t -> copy (vs cs') p t0 = copy (vs cs) p t0 /\ durable_copy cs' p t0 = durable_copy cs p t0.

Lemma os_refl : forall t cs, other_same t cs cs.
Proof. intros t cs p t0 _. auto. Qed.

Lemma os_trans : forall t a b c, other_same t a b -> other_same t b c -> other_same t a c.
Proof.
  intros t a b c H1 H2 p t0 Hne. destruct (H1 p t0 Hne) as [A1 B1]. destruct (H2 p t0 Hne) as [A2 B2].
  split; congruence.
Qed.

Lemma filter_filter_sub : forall (A : Type) (a b : A -> bool) l,
    (forall x, In x l -> a x = true -> b x = true) -> filter a (filter b l) = filter a l.
Proof.
  induction l as [|x l IH]; intros H; simpl; [reflexivity|].
  assert (IH' : filter a (filter b l) = filter a l) by (apply IH; intros; apply H; auto; now right).
  destruct (b x) eqn:B; simpl.
  - now rewrite IH'.
  - destruct (a x) eqn:Ax; [|exact IH']. rewrite (H x (or_introl eq_refl) Ax) in B. discriminate.
Qed.

Lemma key_neq : forall p t0 pd t e, t0 <> t -> key_eqb p t0 e = true -> key_eqb pd t e = false.
Proof.
  intros p t0 pd t [[a b] i] Hne K. unfold key_eqb in *. simpl in *.
  apply andb_true_iff in K. destruct K as [_ K]. apply N.eqb_eq in K. subst b.
  apply andb_false_iff. right. now apply N.eqb_neq.
Qed.

Lemma os_sync : forall t cs pd, other_same t cs (d_clear cs pd t).
Proof.
  intros t cs pd p t0 Hne. split; [reflexivity|]. unfold durable_copy, d_clear, d_find. simpl.
  rewrite filter_filter_sub; [reflexivity|].
  intros x _ K. rewrite (key_neq p t0 pd t x Hne K). reflexivity.
Qed.

(* the visible state changes only copies of t, the dirty list is pruned: nothing else moves (needs DI) *)
Lemma os_prune : forall t cs s',
    DI cs -> (forall p t0, t0 <> t -> copy s' p t0 = copy (vs cs) p t0) ->
    other_same t cs (prune (with_vs cs s')).
Proof.
  intros t cs s' [ND E] HC p t0 Hne. split; [simpl; now apply HC|].
  unfold durable_copy, prune, d_find. simpl. rewrite HC by exact Hne.
  rewrite filter_filter_sub; [reflexivity|].
  intros [[a b] i] Hin K. apply key_eqb_true in K. simpl in K. inversion K; subst a b. simpl.
  rewrite HC by exact Hne. destruct (E p t0 i Hin) as (f0 & C0 & _). now rewrite C0.
Qed.

Lemma os_rm : forall t cs, DI cs -> other_same t cs (fst (x_remove_tract cs t)).
Proof.
  intros t cs D. unfold x_remove_tract. pose proof (remove_tract_effect (vs cs) t) as Eff.
  destruct (remove_tract (vs cs) t) as [s' e]. simpl in *. apply os_prune; [exact D|].
  intros p t0 Hne. destruct Eff as [->|(pd0 & f & _ & _ & _ & _ & E)]; [reflexivity|].
  rewrite E. apply N.eqb_neq in Hne. now rewrite Hne, andb_false_r.
Qed.

Lemma os_x_close_if : forall t cs f opd e, other_same t cs (fst (fst (x_close_if cs f opd t e))).
Proof.
  intros. unfold x_close_if. destruct opd as [pd|]; [|apply os_refl].
  unfold x_close. destruct (tick f) as [h f']. destruct h; simpl; [apply os_refl|apply os_sync].
Qed.

Lemma os_x_do_create : forall t cs f ver d off orc,
    DI cs -> other_same t cs (fst (fst (x_do_create cs f t ver d off orc))).
Proof.
  intros t cs f ver d off orc D. unfold x_do_create.
  destruct (lookup (vs cs) t) as [[? ?]|]; [apply os_refl|].
  destruct (x_pick (vs cs) f orc) as [[slot pd]|e]; [|apply os_refl].
  destruct (tick f) as [h1 f1]. destruct (copy (vs cs) pd t) as [fl|].
  - simpl. apply os_prune; [exact D|]. intros p t0 Hne. rewrite copy_del_file.
    apply N.eqb_neq in Hne. now rewrite Hne, andb_false_r.
  - destruct h1; [apply os_refl|]. destruct (tick f1) as [h2 f2]. destruct h2; [apply os_refl|].
    destruct (tick f2) as [h3 f3]. destruct h3; [apply os_refl|].
    destruct (tick f3) as [h4 f4]. destruct h4; [apply os_refl|]. simpl.
    intros p t0 Hne. unfold durable_copy. simpl.
    rewrite copy_set_table, copy_put_file. apply N.eqb_neq in Hne. rewrite Hne, andb_false_r. auto.
Qed.

Lemma os_x_pull_all : forall srcs t cs f v orc last,
    cinv cs -> other_same t cs (fst (fst (x_pull_all cs f t srcs v orc last))).
Proof.
  induction srcs as [|[re data] rest IH]; intros t cs f v orc last I; simpl; [apply os_refl|].
  assert (ONE : other_same t cs (fst (fst (x_pull_once cs f t (re, data) v orc)))).
  { unfold x_pull_once.
    assert (PRE : other_same t cs (fst (fst (x_pull_pre cs f t v)))).
    { unfold x_pull_pre. destruct (lookup (vs cs) t) as [[slot st]|]; [|apply os_refl].
      destruct (disk_of (vs cs) slot) as [pd|]; [|apply os_refl].
      pose proof (x_open_keeps cs f pd t) as Hk. destruct (x_open cs f pd t false) as [[cs1 f1] e]. simpl in Hk. subst cs1.
      match goal with |- context [x_close_if ?a ?b ?c ?d ?e] =>
        pose proof (os_x_close_if t a b c e) as O1; pose proof (good_x_close_if a b c d e I) as [I2 _];
        destruct (x_close_if a b c d e) as [[cs2 f2] e2] end.
      simpl in *.
      match goal with |- context [if ?b then (cs2, f2, Some E_InvalidState) else _] => destruct b end; [exact O1|].
      pose proof (os_rm t cs2 (proj2 I2)) as O2. destruct (x_remove_tract cs2 t) as [cs3 e3]. simpl in *.
      eapply os_trans; eauto. }
    pose proof (cinv_x_pull_pre cs f t v I) as I1.
    destruct (x_pull_pre cs f t v) as [[cs1 f1] r]. simpl in *.
    destruct r as [e|]; [exact PRE|].
    destruct (negb (re =? E_OK)%Z && negb (re =? E_EOF)%Z); [exact PRE|].
    pose proof (os_x_do_create t cs1 f1 v data 0 orc (proj2 I1)) as O2.
    pose proof (good_x_do_create cs1 f1 t v data 0 orc I1) as [I2 _].
    destruct (x_do_create cs1 f1 t v data 0 orc) as [[cs2 f2] ce]. simpl in *.
    destruct (ce =? E_OK)%Z; simpl; [eapply os_trans; eauto|].
    eapply os_trans; [exact PRE|]. eapply os_trans; [exact O2|]. apply os_rm. apply I2. }
  pose proof (cinv_x_pull_once cs f t (re, data) v orc I) as I1.
  destruct (x_pull_once cs f t (re, data) v orc) as [[cs1 f1] e]. simpl in *.
  destruct (e =? E_OK)%Z; [exact ONE|]. eapply os_trans; [exact ONE|]. now apply IH.
Qed.

(* the transitions allowed in a history about tract t: everything except a PullTract of t itself *)
Definition xop_ok_for (t : tract) (x : xop) : Prop :=
  match x with XOp _ (PullTract t' _ _ _) => t' <> t | _ => True end.

Theorem x_durable_monotone_for : forall cs x pd t g g',
    cinv cs -> xop_ok_for t x ->
    durable_copy cs pd t = Some g -> durable_copy (xstep cs x) pd t = Some g' -> ver_le g g'.
Proof.
  intros cs x pd t g g' I OK Dg Dg'.
  destruct x as [f o|]; [|exact (x_durable_monotone cs XPowerLoss pd t g g' I Logic.I Dg Dg')].
  destruct (is_pull o) eqn:P; [|exact (x_durable_monotone cs (XOp f o) pd t g g' I P Dg Dg')].
  destruct o; try discriminate. simpl in *.
  pose proof (os_x_pull_all srcs t0 cs f v orc E_OK I pd t (fun H => OK (eq_sym H))) as [_ D].
  destruct (x_pull_all cs f t0 srcs v orc E_OK) as [[cs1 f1] e]. simpl in *.
  rewrite D, Dg in Dg'. inversion Dg'. apply ver_le_refl.
Qed.

Theorem durable_monotone_run_for : forall xs cs pd t g g',
    cinv cs -> Forall (xop_ok_for t) xs ->
    xstays (fun c => durable_copy c pd t <> None) cs xs ->
    durable_copy cs pd t = Some g -> durable_copy (xrun cs xs) pd t = Some g' -> ver_le g g'.
Proof.
  induction xs as [|x xs IH]; intros cs pd t g g' I NP ST Dg Dg'; simpl in *.
  - rewrite Dg in Dg'. inversion Dg'. apply ver_le_refl.
  - inversion NP as [|? ? Hx Hr]; subst. destruct ST as [Hn ST].
    destruct (durable_copy (xstep cs x) pd t) as [g1|] eqn:D1; [|congruence].
    apply (ver_le_trans g g1 g'); [exact (x_durable_monotone_for cs x pd t g g1 I Hx Dg D1)|].
    exact (IH (xstep cs x) pd t g1 g' (cinv_xstep cs x I) Hr ST D1 Dg').
Qed.
