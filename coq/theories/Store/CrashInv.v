(* Store/CrashInv.v — invariants of the crash model (Store/Crash.v) under ARBITRARY faults and power losses:
   well-formedness of the visible state, "the visible version of a dirty file is at least its durable
   image's", and, per stored copy, monotonicity of the visible version and of the durable version. *)
From Coq Require Import List NArith ZArith Bool Lia.
From BLB Require Import Gen.Consts Store.Bytes Store.MapProofs Store.Model Store.Proofs Store.WF Store.Conflict
     Store.Mono Store.Steps Store.Monotone Store.Crash Store.CrashProofs.
Import ListNotations.
Open Scope N_scope.

(* ---------- d_find on duplicate-free dirty lists ---------- *)
Definition dkeys (l : list (N * N * option file)) : list (N * N) := map fst l.

Lemma key_eqb_true : forall pd t e, key_eqb pd t e = true <-> fst e = (pd, t).
Proof.
  intros pd t [[p t0] img]. unfold key_eqb. simpl. rewrite andb_true_iff, !N.eqb_eq. split.
  - intros [-> ->]. reflexivity.
  - intros H. inversion H. auto.
Qed.

Lemma d_find_some_in : forall pd t l img, d_find pd t l = Some img -> In (pd, t, img) l.
Proof.
  intros pd t l img H. unfold d_find in H.
  destruct (filter (key_eqb pd t) l) as [|e r] eqn:F; [discriminate|]. inversion H; subst.
  assert (Hin : In e (filter (key_eqb pd t) l)) by (rewrite F; now left).
  apply filter_In in Hin. destruct Hin as [Hin K]. apply key_eqb_true in K.
  destruct e as [k i]. simpl in *. subst. exact Hin.
Qed.

Lemma d_find_in : forall pd t l img, NoDup (dkeys l) -> In (pd, t, img) l -> d_find pd t l = Some img.
Proof.
  intros pd t l img. induction l as [|e l IH]; intros ND Hin; [destruct Hin|].
  unfold d_find. simpl. inversion ND as [|? ? Hn ND']; subst.
  destruct (key_eqb pd t e) eqn:K.
  - destruct Hin as [->|Hin]; [reflexivity|]. exfalso. apply key_eqb_true in K. apply Hn.
    unfold dkeys. apply in_map_iff. exists (pd, t, img). split; [simpl; symmetry; exact K|exact Hin].
  - destruct Hin as [->|Hin].
    + exfalso. assert (key_eqb pd t (pd, t, img) = true) by (apply key_eqb_true; reflexivity). congruence.
    + apply IH; assumption.
Qed.

Lemma d_find_none_notin : forall pd t l img, d_find pd t l = None -> ~ In (pd, t, img) l.
Proof.
  intros pd t l img H Hin. pose proof (d_find_none_all pd t l H _ Hin) as K.
  assert (key_eqb pd t (pd, t, img) = true) by (apply key_eqb_true; reflexivity). congruence.
Qed.

Lemma NoDup_dkeys_filter : forall p l, NoDup (dkeys l) -> NoDup (dkeys (filter p l)).
Proof.
  intros p l. induction l as [|e l IH]; intros ND; simpl; [constructor|].
  inversion ND as [|? ? Hn ND']; subst. destruct (p e); simpl; [|now apply IH].
  constructor; [|now apply IH]. intros H. apply Hn. unfold dkeys in *. apply in_map_iff in H.
  destruct H as (x & Hx & Hin). apply filter_In in Hin. apply in_map_iff. exists x. tauto.
Qed.

Lemma d_find_filter : forall p pd t l,
    NoDup (dkeys l) ->
    d_find pd t (filter p l) =
    match d_find pd t l with Some img => if p (pd, t, img) then Some img else None | None => None end.
Proof.
  intros p pd t l ND. destruct (d_find pd t l) as [img|] eqn:F.
  - apply d_find_some_in in F. destruct (p (pd, t, img)) eqn:P.
    + apply d_find_in; [now apply NoDup_dkeys_filter|]. apply filter_In. auto.
    + destruct (d_find pd t (filter p l)) as [img'|] eqn:F'; [|reflexivity]. exfalso.
      apply d_find_some_in in F'. apply filter_In in F'. destruct F' as [Hin P'].
      assert (img' = img); [|subst; congruence].
      pose proof (d_find_in pd t l img ND F) as A. pose proof (d_find_in pd t l img' ND Hin) as B. congruence.
  - destruct (d_find pd t (filter p l)) as [img'|] eqn:F'; [|reflexivity]. exfalso.
    apply d_find_some_in in F'. apply filter_In in F'. destruct F' as [Hin _].
    eapply d_find_none_notin; eauto.
Qed.

(* ---------- the invariant ---------- *)
(* every file with unsynced updates exists, and its visible version is at least its durable image's *)
Definition DI (cs : cstore) : Prop :=
  NoDup (dkeys (dirty cs)) /\
  forall pd t img, In (pd, t, img) (dirty cs) ->
                   exists f, copy (vs cs) pd t = Some f /\ forall g, img = Some g -> ver_le g f.

Definition cinv (cs : cstore) : Prop := wf (vs cs) /\ DI cs.

Lemma cinv_init : forall m, cinv (cinit m).
Proof.
  intros m. split; [apply wf_init|]. split; [constructor|]. intros pd t img [].
Qed.

(* what one transition does to one stored copy: visible copy V, durable copy D *)
Definition kstep (cs cs' : cstore) (pd : N) (t : tract) : Prop :=
  (* gone (or never there) *)
  (copy (vs cs') pd t = None /\ durable_copy cs' pd t = None) \/
  (* still there: neither the visible nor the durable version went down; durable <= visible *)
  (exists f f', copy (vs cs) pd t = Some f /\ copy (vs cs') pd t = Some f' /\ ver_le f f' /\
                (forall g, durable_copy cs pd t = Some g ->
                           exists g', durable_copy cs' pd t = Some g' /\ ver_le g g') /\
                (forall g', durable_copy cs' pd t = Some g' -> ver_le g' f')) \/
  (* new *)
  (copy (vs cs) pd t = None /\ durable_copy cs pd t = None /\
   exists f', copy (vs cs') pd t = Some f' /\ forall g', durable_copy cs' pd t = Some g' -> ver_le g' f').

(* without the "new" case: closed under composition *)
Definition kstepNI (cs cs' : cstore) (pd : N) (t : tract) : Prop :=
  (copy (vs cs') pd t = None /\ durable_copy cs' pd t = None) \/
  (exists f f', copy (vs cs) pd t = Some f /\ copy (vs cs') pd t = Some f' /\ ver_le f f' /\
                (forall g, durable_copy cs pd t = Some g ->
                           exists g', durable_copy cs' pd t = Some g' /\ ver_le g g') /\
                (forall g', durable_copy cs' pd t = Some g' -> ver_le g' f')).

Lemma kstepNI_kstep : forall a b pd t, kstepNI a b pd t -> kstep a b pd t.
Proof. intros a b pd t [H|H]; [now left|right; now left]. Qed.

Lemma kstepNI_trans : forall a b c pd t, kstepNI a b pd t -> kstepNI b c pd t -> kstepNI a c pd t.
Proof.
  intros a b c pd t H1 H2. destruct H2 as [G|(f1 & f2 & C1 & C2 & L & Dm & Dl)]; [now left|].
  destruct H1 as [[G _]|(f0 & f1' & C0 & C1' & L' & Dm' & Dl')]; [congruence|].
  rewrite C1 in C1'. inversion C1'; subst f1'. right. exists f0, f2.
  split; [exact C0|]. split; [exact C2|]. split; [eapply ver_le_trans; eauto|]. split; [|exact Dl].
  intros g Hg. destruct (Dm' g Hg) as (g1 & Hg1 & L1). destruct (Dm g1 Hg1) as (g2 & Hg2 & L2).
  exists g2. split; [exact Hg2|eapply ver_le_trans; eauto].
Qed.

(* a transition that is good: keeps the invariant and is a kstepNI for every copy *)
Definition goodNI (cs cs' : cstore) : Prop :=
  cinv cs -> cinv cs' /\ forall pd t, kstepNI cs cs' pd t.

Lemma goodNI_trans : forall a b c, goodNI a b -> goodNI b c -> goodNI a c.
Proof.
  intros a b c H1 H2 I. destruct (H1 I) as [Ib K1]. destruct (H2 Ib) as [Ic K2].
  split; [exact Ic|]. intros pd t. eapply kstepNI_trans; eauto.
Qed.

Lemma durable_le_visible : forall cs pd t g,
    DI cs -> durable_copy cs pd t = Some g -> exists f, copy (vs cs) pd t = Some f /\ ver_le g f.
Proof.
  intros cs pd t g [ND E] H. unfold durable_copy in H.
  destruct (d_find pd t (dirty cs)) as [img|] eqn:F.
  - subst img. apply d_find_some_in in F. destruct (E pd t (Some g) F) as (f & C & L). exists f. auto.
  - exists g. split; [exact H|apply ver_le_refl].
Qed.

Lemma goodNI_refl : forall cs, goodNI cs cs.
Proof.
  intros cs I. split; [exact I|]. intros pd t. destruct (copy (vs cs) pd t) as [f|] eqn:C.
  - right. exists f, f. repeat split; auto using ver_le_refl.
    + intros g Hg. exists g. split; [exact Hg|apply ver_le_refl].
    + intros g' Hg. destruct I as [_ DIc]. destruct (durable_le_visible cs pd t g' DIc Hg) as (f0 & C0 & L).
      rewrite C in C0. inversion C0; subst. exact L.
  - left. split; [exact C|]. unfold durable_copy. destruct I as [_ [ND E]].
    destruct (d_find pd t (dirty cs)) as [img|] eqn:F; [|exact C].
    apply d_find_some_in in F. destruct (E pd t img F) as (f & C' & _). congruence.
Qed.

(* ---------- generic transitions ---------- *)
(* copies stay or disappear, dirty entries are dropped (synced or deleted), none is left for a deleted file *)
Lemma good_shrink : forall cs cs' p,
    DI cs ->
    (forall pd t, copy (vs cs') pd t = copy (vs cs) pd t \/ copy (vs cs') pd t = None) ->
    dirty cs' = filter p (dirty cs) ->
    (forall pd t img, In (pd, t, img) (dirty cs') -> copy (vs cs') pd t <> None) ->
    DI cs' /\ forall pd t, kstepNI cs cs' pd t.
Proof.
  intros cs cs' p [ND E] HC HD HP.
  assert (ND' : NoDup (dkeys (dirty cs'))) by (rewrite HD; now apply NoDup_dkeys_filter).
  assert (DI' : DI cs').
  { split; [exact ND'|]. intros pd t img Hin. pose proof (HP pd t img Hin) as Hn.
    rewrite HD in Hin. apply filter_In in Hin. destruct Hin as [Hin _].
    destruct (E pd t img Hin) as (f & C & L). exists f. split; [|exact L].
    destruct (HC pd t) as [X|X]; congruence. }
  split; [exact DI'|]. intros pd t.
  assert (DF : d_find pd t (dirty cs') =
               match d_find pd t (dirty cs) with
               | Some img => if p (pd, t, img) then Some img else None | None => None end)
    by (rewrite HD; now apply d_find_filter).
  destruct (copy (vs cs') pd t) as [f'|] eqn:C'.
  - destruct (HC pd t) as [X|X]; [|congruence]. rewrite C' in X. symmetry in X.
    right. exists f', f'. split; [exact X|]. split; [exact C'|]. split; [apply ver_le_refl|]. split.
    + intros g Hg. unfold durable_copy in *. rewrite DF.
      destruct (d_find pd t (dirty cs)) as [img|] eqn:F.
      * subst img. destruct (p (pd, t, Some g)); [exists g; split; [reflexivity|apply ver_le_refl]|].
        rewrite C'. exists f'. split; [reflexivity|].
        apply d_find_some_in in F. destruct (E pd t (Some g) F) as (f0 & C0 & L). rewrite X in C0.
        inversion C0; subst. now apply L.
      * rewrite C'. rewrite X in Hg. exists f'. split; [reflexivity|]. inversion Hg. apply ver_le_refl.
    + intros g' Hg. destruct (durable_le_visible cs' pd t g' DI' Hg) as (f0 & C0 & L).
      rewrite C' in C0. inversion C0; subst. exact L.
  - left. split; [exact C'|]. unfold durable_copy.
    destruct (d_find pd t (dirty cs')) as [img|] eqn:F; [|exact C'].
    apply d_find_some_in in F. exfalso. eapply HP; eauto.
Qed.

(* an in-place update of an existing file that does not lower its version *)
Lemma good_upd : forall cs pd t f f',
    DI cs -> copy (vs cs) pd t = Some f -> ver_le f f' ->
    let cs' := with_vs (d_mark cs pd t) (put_file (vs cs) pd t f') in
    DI cs' /\ forall p t0, kstepNI cs cs' p t0.
Proof.
  intros cs pd t f f' [ND E] C L cs'.
  assert (CP : forall p t0, copy (vs cs') p t0 = if (p =? pd) && (t0 =? t) then Some f' else copy (vs cs) p t0).
  { intros. unfold cs'. simpl. apply copy_put_file. }
  assert (DD : dirty cs' = match d_find pd t (dirty cs) with
                           | Some _ => dirty cs | None => (pd, t, Some f) :: dirty cs end).
  { unfold cs', d_mark. simpl. rewrite C. now destruct (d_find pd t (dirty cs)). }
  assert (DF : forall p t0, d_find p t0 (dirty cs') =
                            if (p =? pd) && (t0 =? t)
                            then match d_find pd t (dirty cs) with Some i => Some i | None => Some (Some f) end
                            else d_find p t0 (dirty cs)).
  { intros p t0. rewrite DD. destruct (d_find pd t (dirty cs)) as [i|] eqn:F.
    - destruct ((p =? pd) && (t0 =? t)) eqn:K; [|reflexivity].
      apply andb_true_iff in K. destruct K as [K1 K2]. apply N.eqb_eq in K1, K2. now subst.
    - unfold d_find at 1. simpl. unfold key_eqb at 1. simpl. rewrite (N.eqb_sym pd p), (N.eqb_sym t t0).
      destruct ((p =? pd) && (t0 =? t)); reflexivity. }
  assert (DI' : DI cs').
  { split.
    - rewrite DD. destruct (d_find pd t (dirty cs)) eqn:F; [exact ND|]. simpl. constructor; [|exact ND].
      intros H. unfold dkeys in H. apply in_map_iff in H. destruct H as ([[p0 t1] i] & Hk & Hin).
      simpl in Hk. inversion Hk; subst. eapply d_find_none_notin; eauto.
    - intros p t0 img Hin. rewrite CP. rewrite DD in Hin.
      assert (Hin' : In (p, t0, img) (dirty cs) \/ (p = pd /\ t0 = t /\ img = Some f)).
      { destruct (d_find pd t (dirty cs)); [now left|]. destruct Hin as [X|X]; [right; inversion X; auto|now left]. }
      destruct Hin' as [Hin'|(-> & -> & ->)].
      + destruct (E p t0 img Hin') as (f0 & C0 & L0).
        destruct ((p =? pd) && (t0 =? t)) eqn:K; [|exists f0; auto].
        apply andb_true_iff in K. destruct K as [K1 K2]. apply N.eqb_eq in K1, K2. subst.
        exists f'. split; [reflexivity|]. intros g Hg. rewrite C in C0. inversion C0; subst f0.
        eapply ver_le_trans; [now apply L0|exact L].
      + rewrite !N.eqb_refl. exists f'. split; [reflexivity|]. intros g Hg. inversion Hg; subst. exact L. }
  split; [exact DI'|]. intros p t0.
  destruct ((p =? pd) && (t0 =? t)) eqn:K.
  - apply andb_true_iff in K. destruct K as [K1 K2]. apply N.eqb_eq in K1, K2. subst p t0.
    right. exists f, f'. split; [exact C|]. split; [rewrite CP, !N.eqb_refl; reflexivity|]. split; [exact L|]. split.
    + intros g Hg. unfold durable_copy in *. rewrite DF, !N.eqb_refl. simpl.
      destruct (d_find pd t (dirty cs)) as [i|]; [exists g; split; [exact Hg|apply ver_le_refl]|].
      rewrite C in Hg. inversion Hg; subst. exists g. split; [reflexivity|apply ver_le_refl].
    + intros g' Hg. destruct (durable_le_visible cs' pd t g' DI' Hg) as (f0 & C0 & L0).
      rewrite CP, !N.eqb_refl in C0. inversion C0; subst. exact L0.
  - assert (SV : copy (vs cs') p t0 = copy (vs cs) p t0) by (rewrite CP, K; reflexivity).
    assert (SD : durable_copy cs' p t0 = durable_copy cs p t0).
    { unfold durable_copy. rewrite DF, K, SV. reflexivity. }
    (* reflexivity on cs for this key, transported along the two equalities *)
    assert (R0 : kstepNI cs cs p t0).
    { destruct (copy (vs cs) p t0) as [f0|] eqn:C0.
      - right. exists f0, f0. repeat split; auto using ver_le_refl.
        + intros g Hg. exists g. split; [exact Hg|apply ver_le_refl].
        + intros g' Hg. destruct (durable_le_visible cs p t0 g' (conj ND E) Hg) as (f1 & C1 & L1).
          rewrite C0 in C1. inversion C1; subst. exact L1.
      - left. split; [exact C0|]. unfold durable_copy.
        destruct (d_find p t0 (dirty cs)) as [img|] eqn:F; [|exact C0].
        apply d_find_some_in in F. destruct (E p t0 img F) as (f1 & C1 & _). congruence. }
    destruct R0 as [[A B]|(f0 & f1 & A & B & Lx & Dm & Dl)].
    + left. rewrite SV, SD. auto.
    + right. exists f0, f1. rewrite SV, SD. auto.
Qed.
