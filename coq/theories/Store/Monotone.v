(* Store/Monotone.v — versions never decrease, along every operation sequence:
   per stored copy (physical disk, tract), and for the served view (the copy the table points at). *)
From Coq Require Import List NArith ZArith Bool Lia.
From BLB Require Import Gen.Consts Store.Bytes Store.MapProofs Store.Model Store.Proofs Store.WF Store.Conflict
     Store.Mono Store.Steps.
Import ListNotations.
Open Scope N_scope.

(* ---------- the reachable-state invariant ---------- *)
Definition inv (s : store) : Prop := wf s /\ versioned s.

Lemma versioned_init : forall m, versioned (init m).
Proof. intros m pd t f H. unfold copy, files_of in H. simpl in H. discriminate. Qed.

Lemma versioned_step : forall s o, wf s -> versioned s -> versioned (fst (step s o)).
Proof.
  intros s o W V pd t f' H.
  pose proof (copy_step_cases s o pd t W) as CC. rewrite H in CC.
  destruct (cc_to_some _ _ _ _ _ _ CC) as
      [E|[(f & v & d & off & E & _ & Hv & ->)|[(f & d & off & orc & E & _ & Hv & ->)
       |[(f & v & c & E & _ & Hv & ->)|[(d & off & orc & E & _ & _ & ->)
       |(srcs & v & orc & re & data & _ & _ & _ & _ & ->)]]]]]; simpl; try discriminate.
  - eapply V; eauto.
  - congruence.
  - congruence.
Qed.

Lemma inv_init : forall m, inv (init m).
Proof. intros. split; [apply wf_init|apply versioned_init]. Qed.

Lemma inv_step : forall s o, inv s -> inv (fst (step s o)).
Proof. intros s o [W V]. split; [now apply wf_step|now apply versioned_step]. Qed.

Lemma inv_run : forall ops s, inv s -> inv (run s ops).
Proof. induction ops as [|o ops IH]; intros s I; simpl; [exact I|]. apply IH. now apply inv_step. Qed.

(* ---------- one step, one copy ---------- *)
Theorem copy_step_mono : forall s o pd t f f',
    wf s -> copy s pd t = Some f -> copy (fst (step s o)) pd t = Some f' -> ver_le f f'.
Proof.
  intros s o pd t f f' W C C'.
  pose proof (copy_step_cases s o pd t W) as CC. rewrite C, C' in CC.
  destruct (cc_to_some _ _ _ _ _ _ CC) as
      [E|[(f0 & v & d & off & E & _ & Hv & ->)|[(f0 & d & off & orc & E & _ & Hv & ->)
       |[(f0 & v & c & E & _ & Hv & ->)|[(d & off & orc & E & _ & _ & ->)
       |(srcs & v & orc & re & data & _ & HX & _ & _ & ->)]]]]]; try discriminate.
  - inversion E. apply ver_le_refl.
  - inversion E; subst f0. intros v0 H0. exists v0. simpl. split; [exact H0|lia].
  - inversion E; subst f0. intros v0 H0. exists v0. simpl. split; [exact H0|lia].
  - inversion E; subst f0. intros v0 H0. rewrite Hv in H0. inversion H0; subst.
    exists v. simpl. split; [reflexivity|lia].
  - intros c Hc. exists v. simpl. split; [reflexivity|]. eapply HX; eauto.
Qed.

(* a copy's version rises only by SetVersion's single step or by PullTract installing a complete copy *)
Theorem copy_rise_cases : forall s o pd t f f' c c',
    wf s -> copy s pd t = Some f -> copy (fst (step s o)) pd t = Some f' ->
    f_ver f = Some c -> f_ver f' = Some c' -> (c < c')%Z ->
    (exists cond, o = SetVersion t c' cond /\ c' = (c + 1)%Z /\ f_data f' = f_data f) \/
    (exists srcs orc re data, o = PullTract t srcs c' orc /\ In (re, data) srcs /\ ok_reply re /\
                              f' = mkfile (Some c') (rle_write [] data 0)).
Proof.
  intros s o pd t f f' c c' W C C' Hc Hc' Hlt.
  pose proof (copy_step_cases s o pd t W) as CC. rewrite C, C' in CC.
  destruct (cc_to_some _ _ _ _ _ _ CC) as
      [E|[(f0 & v & d & off & E & _ & Hv & ->)|[(f0 & d & off & orc & E & _ & Hv & ->)
       |[(f0 & v & cd & E & Ho & Hv & ->)|[(d & off & orc & E & _ & _ & ->)
       |(srcs & v & orc & re & data & Ho & HX & Hin & Hok & ->)]]]]]; try discriminate.
  - inversion E; subst. rewrite Hc in Hc'. inversion Hc'. lia.
  - inversion E; subst f0. simpl in Hc'. rewrite Hc in Hc'. inversion Hc'. lia.
  - inversion E; subst f0. simpl in Hc'. rewrite Hc in Hc'. inversion Hc'. lia.
  - inversion E; subst f0. simpl in Hc'. inversion Hc'; subst v. rewrite Hc in Hv. inversion Hv.
    left. exists cd. repeat split; auto. lia.
  - simpl in Hc'. inversion Hc'; subst v. right. exists srcs, orc, re, data. auto.
Qed.

(* ---------- slots: only AddDisk attaches ---------- *)
Lemma slots_step : forall s o,
    match o with
    | AddDisk _ => True
    | Restart => slots (fst (step s o)) = []
    | RemoveDisk _ => forall i p, get i (slots (fst (step s o))) = Some p -> get i (slots s) = Some p
    | _ => slots (fst (step s o)) = slots s
    end.
Proof.
  intros s o. destruct o; simpl; auto.
  - unfold create. pose proof (slots_do_create s t (initial_version t) data off orc) as H.
    destruct (do_create s t (initial_version t) data off orc) as [s1 e]. simpl in H.
    destruct (e =? E_AlreadyExists)%Z; simpl; [|exact H].
    pose proof (slots_do_write s1 t (initial_version t) data off) as H2.
    destruct (do_write s1 t (initial_version t) data off). simpl in *. congruence.
  - pose proof (slots_do_write s t v data off) as H. now destruct (do_write s t v data off).
  - now destruct (read s t v len off).
  - now destruct (stat s t v) as [[? ?] ?].
  - pose proof (slots_set_version s t v cond) as H. now destruct (set_version s t v cond) as [? [? ?]].
  - unfold pull_tract. pose proof (slots_pull_all srcs s t v orc E_OK) as H.
    now destruct (pull_all s t srcs v orc E_OK).
  - apply slots_gc_tracts.
  - unfold remove_disk. destruct (slot_of s pd) as [i0|]; simpl; [|auto].
    intros i p G. rewrite get_del in G. destruct (i =? i0); [discriminate|exact G].
  - unfold set_alloc. now destruct (slot_of s pd).
Qed.

Lemma slots_step_sub : forall s o,
    (forall pd, o <> AddDisk pd) ->
    forall i p, get i (slots (fst (step s o))) = Some p -> get i (slots s) = Some p.
Proof.
  intros s o Hna i p G. pose proof (slots_step s o) as H.
  destruct o; try (rewrite H in G; exact G); try (now apply H).
  - rewrite H in G. discriminate.
  - exfalso. eapply Hna; eauto.
Qed.

Lemma cur_some : forall s t f,
    cur s t = Some f ->
    exists i st pd, get t (table s) = Some (i, st) /\ get i (slots s) = Some pd /\ copy s pd t = Some f.
Proof.
  intros s t f H. unfold cur in H. destruct (open_existing s t) as [pd f0|] eqn:O; [|discriminate].
  inversion H; subst f0. apply open_existing_ok in O. destruct O as (i & st & L & D & C).
  exists i, st, pd. auto.
Qed.

Lemma add_disk_fail_same : forall s pd s' e, add_disk s pd = (s', e) -> e <> E_OK -> s' = s.
Proof.
  intros s pd s' e HA Hne. unfold add_disk in HA. destruct (slot_of s pd); [now inversion HA|].
  destruct (free_slot s); [|now inversion HA].
  destruct (dangling s _); inversion HA; subst; congruence.
Qed.

(* ---------- one step, the served view ---------- *)
Theorem served_step_mono : forall s o t f f',
    inv s -> cur s t = Some f -> cur (fst (step s o)) t = Some f' -> ver_le f f'.
Proof.
  intros s o t f f' [W V] Hc Hc'.
  pose proof (wf_step s o W) as W'.
  destruct (cur_some s t f Hc) as (i & st & pd & G & Gi & C).
  assert (ISADD : (exists pd0, o = AddDisk pd0) \/ (forall pd0, o <> AddDisk pd0)).
  { destruct o; try (right; intros; discriminate). left. eauto. }
  destruct ISADD as [[pd0 ->]|Hna].
  - (* AddDisk *)
    simpl in *. destruct (add_disk s pd0) as [s' e] eqn:HA. simpl in *.
    destruct (Z.eq_dec e E_OK) as [->|Hne];
      [|rewrite (add_disk_fail_same _ _ _ _ HA Hne) in Hc'; rewrite Hc in Hc'; inversion Hc'; apply ver_le_refl].
    destruct (add_disk_view s pd0 s' W HA) as (i0 & Fi & SN & SL & HV).
    assert (Hii : i <> i0) by congruence.
    destruct (HV t) as [H1 H2].
    rewrite cur_view, SL in Hc'.
    destruct (copy s pd0 t) as [f2|] eqn:C0.
    + destruct (H2 f2 i st pd eq_refl G Gi) as (Hp & _ & HVd & _).
      rewrite (verdict_ver0f s t pd pd0 f f2 C C0) in HVd.
      destruct (ver0f f2 <? ver0f f)%Z eqn:X1; [|destruct (ver0f f <? ver0f f2)%Z eqn:X2].
      * destruct HVd as (T' & _ & E). rewrite T', get_put_ne, Gi, E, C in Hc' by exact Hii.
        inversion Hc'. apply ver_le_refl.
      * destruct HVd as (T' & _ & E). rewrite T', get_put_eq, E in Hc'. inversion Hc'; subst f'.
        apply Z.ltb_lt in X2. intros c Hv.
        destruct (f_ver f2) as [c2|] eqn:V2; [|exfalso; eapply V; eauto].
        exists c2. split; [reflexivity|]. unfold ver0f in X2. rewrite Hv, V2 in X2. lia.
      * destruct HVd as (T' & _). rewrite T' in Hc'. discriminate.
    + destruct (H1 (or_introl eq_refl)) as [Tt Ct]. rewrite Tt, G, get_put_ne, Gi, Ct, C in Hc' by exact Hii.
      inversion Hc'. apply ver_le_refl.
  - (* every other operation *)
    destruct (cur_some _ t f' Hc') as (i' & st' & pd' & G' & Gi' & C').
    pose proof (slots_step_sub s o Hna i' pd' Gi') as Gis.
    destruct (N.eq_dec pd' pd) as [Heq|Hne]; [subst pd'; exact (copy_step_mono s o pd t f f' W C C')|].
    assert (CN : copy s pd' t = None).
    { destruct (copy s pd' t) eqn:X; [|reflexivity]. exfalso.
      destruct W as (I & _ & B). destruct (B i' pd' t Gis) as [st0 Hs]; [congruence|].
      rewrite G in Hs. inversion Hs; subst i'. congruence. }
    pose proof (copy_step_cases s o pd' t W) as CC. rewrite CN, C' in CC.
    destruct (cc_to_some _ _ _ _ _ _ CC) as
        [E|[(f0 & v & d & off & E & _)|[(f0 & d & off & orc & E & _)
         |[(f0 & v & c & E & _)|[(d & off & orc & _ & _ & HL & _)
         |(srcs & v & orc & re & data & Ho & _ & _ & _ & ->)]]]]]; try discriminate.
    + unfold lookup in HL. congruence.
    + (* the old copy on pd must be gone, and PullTract only removes what is not newer than v *)
      subst o. pose proof (slots_step s (PullTract t srcs v orc)) as SLP. cbv beta iota in SLP.
      assert (CP : copy (fst (step s (PullTract t srcs v orc))) pd t = None).
      { destruct (copy (fst (step s (PullTract t srcs v orc))) pd t) eqn:X; [|reflexivity]. exfalso.
        destruct W' as (I' & _ & B'). rewrite <- SLP in Gi.
        destruct (B' i pd t Gi) as [st0 Hs]; [congruence|].
        rewrite G' in Hs. inversion Hs; subst i'. congruence. }
      pose proof (copy_step_cases s (PullTract t srcs v orc) pd t W) as CC2. rewrite C, CP in CC2.
      destruct (cc_to_none _ _ _ _ _ CC2) as
          [(srcs2 & v2 & orc2 & Ho2 & HV2)|[(? & ? & Ho2 & _)|[(? & ? & Ho2 & _)|(? & ? & Ho2 & _)]]];
        try discriminate.
      inversion Ho2; subst.
      intros c Hv. exists v2. split; [reflexivity|]. now apply HV2.
Qed.

(* ---------- along any sequence ---------- *)
Fixpoint stays (P : store -> Prop) (s : store) (ops : list op) : Prop :=
  match ops with
  | [] => True
  | o :: r => P (fst (step s o)) /\ stays P (fst (step s o)) r
  end.

(* the copy on (pd, t) exists after every operation of the sequence *)
Definition stored_throughout (s : store) (ops : list op) (pd : N) (t : tract) : Prop :=
  stays (fun x => copy x pd t <> None) s ops.
(* tract t is served after every operation of the sequence *)
Definition served_throughout (s : store) (ops : list op) (t : tract) : Prop :=
  stays (fun x => cur x t <> None) s ops.

Theorem copy_monotone : forall ops s pd t f f',
    wf s -> stored_throughout s ops pd t ->
    copy s pd t = Some f -> copy (run s ops) pd t = Some f' -> ver_le f f'.
Proof.
  induction ops as [|o ops IH]; intros s pd t f f' W ST C C'; simpl in *.
  - rewrite C in C'. inversion C'. apply ver_le_refl.
  - destruct ST as [Hn ST]. destruct (copy (fst (step s o)) pd t) as [f1|] eqn:C1; [|congruence].
    apply (ver_le_trans f f1 f'); [exact (copy_step_mono s o pd t f f1 W C C1)|].
    exact (IH (fst (step s o)) pd t f1 f' (wf_step s o W) ST C1 C').
Qed.

Theorem served_monotone : forall ops s t f f',
    inv s -> served_throughout s ops t ->
    cur s t = Some f -> cur (run s ops) t = Some f' -> ver_le f f'.
Proof.
  induction ops as [|o ops IH]; intros s t f f' I ST C C'; simpl in *.
  - rewrite C in C'. inversion C'. apply ver_le_refl.
  - destruct ST as [Hn ST]. destruct (cur (fst (step s o)) t) as [f1|] eqn:C1; [|congruence].
    apply (ver_le_trans f f1 f'); [exact (served_step_mono s o t f f1 I C C1)|].
    exact (IH (fst (step s o)) t f1 f' (inv_step s o I) ST C1 C').
Qed.
