(* Store/Readd.v — a restart followed by AddDisk of all previously attached disks, in ANY order,
   restores exactly the served view (one induction over the disk list). *)
From Coq Require Import List NArith ZArith Bool Lia.
From BLB Require Import Gen.Consts Store.Bytes Store.MapProofs Store.Model Store.Proofs Store.WF Store.Conflict
     Store.Mono Store.Steps Store.Monotone.
Import ListNotations.
Open Scope N_scope.

(* AddDisk of every disk of the list, each one succeeding *)
Fixpoint adds (s : store) (l : list N) : option store :=
  match l with
  | [] => Some s
  | pd :: r => if (snd (add_disk s pd) =? E_OK)%Z then adds (fst (add_disk s pd)) r else None
  end.

Definition attached (s : store) (pd : N) : Prop := exists i, get i (slots s) = Some pd.

Lemma adds_run : forall l s s', adds s l = Some s' -> run s (map AddDisk l) = s'.
Proof.
  induction l as [|pd r IH]; intros s s' H; simpl in *; [now inversion H|].
  destruct (add_disk s pd) as [s1 e]. simpl in *. destruct (e =? E_OK)%Z; [|discriminate]. now apply IH.
Qed.

Lemma copy_disks_eq : forall a b, disks a = disks b -> forall p t, copy a p t = copy b p t.
Proof. intros a b H p t. unfold copy, files_of. now rewrite H. Qed.

(* two different disks attached in a well-formed state never both hold a tract *)
Lemma wf_disjoint : forall s p q t,
    wf s -> attached s p -> attached s q -> copy s p t <> None -> copy s q t <> None -> p = q.
Proof.
  intros s p q t (I & _ & B) [ip Gp] [iq Gq] Cp Cq.
  destruct (B ip p t Gp Cp) as [st1 H1]. destruct (B iq q t Gq Cq) as [st2 H2].
  rewrite H1 in H2. inversion H2; subst iq. congruence.
Qed.

Lemma wf_cur_none_lookup : forall s t, wf s -> cur s t = None -> lookup s t = None.
Proof.
  intros s t W H. unfold lookup. destruct (get t (table s)) as [[i st]|] eqn:G; [|reflexivity].
  destruct (wf_served s t i st W G) as (pd & f & Gi & C & O). unfold cur in H. rewrite O in H. discriminate.
Qed.

Section Readd.
  Variable s : store.            (* the state before the restart *)
  Hypothesis W : wf s.

  Definition view_ok (sk : store) (done : list N) : Prop :=
    wf sk /\ disks sk = disks s /\
    (forall p, attached sk p <-> In p done) /\
    (forall t p f, In p done -> copy s p t = Some f -> cur sk t = Some f) /\
    (forall t, (forall p, In p done -> copy s p t = None) -> cur sk t = None).

  Lemma adds_view : forall l done sk s',
      view_ok sk done -> NoDup (done ++ l) -> (forall p, In p (done ++ l) -> attached s p) ->
      adds sk l = Some s' -> view_ok s' (done ++ l).
  Proof.
    induction l as [|pd r IH]; intros done sk s' VO ND AT H; simpl in H.
    - inversion H; subst. now rewrite app_nil_r.
    - destruct (add_disk sk pd) as [s1 e] eqn:HA. simpl in H.
      destruct (e =? E_OK)%Z eqn:E; [|discriminate]. apply Z.eqb_eq in E. subst e.
      destruct VO as (Wk & Dk & Ak & V1 & V2).
      pose proof (copy_disks_eq sk s Dk) as CE.
      assert (Hpd : ~ In pd done).
      { intros Hin. apply NoDup_remove_2 in ND. apply ND. apply in_or_app. now left. }
      (* none of pd's tracts is served yet *)
      assert (HN : forall t, copy sk pd t <> None -> lookup sk t = None).
      { intros t Cn. apply wf_cur_none_lookup; [exact Wk|].
        destruct (cur sk t) as [g|] eqn:Cu; [|reflexivity]. exfalso.
        destruct (cur_some sk t g Cu) as (i & st & p & _ & Gi & Cp).
        assert (Ip : In p done) by (apply Ak; exists i; exact Gi).
        assert (p = pd).
        { apply (wf_disjoint s p pd t W).
          - apply AT. apply in_or_app. now left.
          - apply AT. apply in_or_app. right. now left.
          - rewrite <- CE. congruence.
          - rewrite <- CE. exact Cn. }
        subst p. contradiction. }
      destruct (add_disk_no_conflict sk pd s1 Wk HA HN) as [D1 CU].
      destruct (add_disk_view sk pd s1 Wk HA) as (i0 & Fi & _ & SL & _).
      assert (VO1 : view_ok s1 (done ++ [pd])).
      { split; [|split; [|split; [|split]]].
        - pose proof (wf_add_disk sk pd Wk) as X. now rewrite HA in X.
        - congruence.
        - intros p. unfold attached. rewrite SL. split.
          + intros [j Gj]. rewrite get_put in Gj. apply in_or_app. destruct (j =? i0).
            * inversion Gj. right. now left.
            * left. apply Ak. now exists j.
          + intros Hin. apply in_app_or in Hin. destruct Hin as [Hin|[<-|[]]].
            * apply Ak in Hin. destruct Hin as [j Gj]. exists j. rewrite get_put_ne; [exact Gj|congruence].
            * exists i0. apply get_put_eq.
        - intros t p f Hin Cp. rewrite CU, CE. apply in_app_or in Hin. destruct Hin as [Hin|[<-|[]]].
          + assert (Cpd : copy s pd t = None).
            { destruct (copy s pd t) eqn:X; [|reflexivity]. exfalso.
              assert (p = pd); [|subst; contradiction].
              apply (wf_disjoint s p pd t W); try congruence.
              - apply AT. apply in_or_app. now left.
              - apply AT. apply in_or_app. right. now left. }
            rewrite Cpd. eapply V1; eauto.
          + now rewrite Cp.
        - intros t Hall. rewrite CU, CE.
          rewrite (Hall pd) by (apply in_or_app; right; now left).
          apply V2. intros p Hin. apply Hall. apply in_or_app. now left. }
      replace (done ++ pd :: r) with ((done ++ [pd]) ++ r) by (rewrite <- app_assoc; reflexivity).
      apply (IH (done ++ [pd]) s1 s' VO1).
      + rewrite <- app_assoc. exact ND.
      + rewrite <- app_assoc. exact AT.
      + exact H.
  Qed.

  Theorem restart_readd : forall l s',
      NoDup l -> (forall p, In p l <-> attached s p) ->
      adds (restart s) l = Some s' ->
      run s (Restart :: map AddDisk l) = s' /\ wf s' /\ disks s' = disks s /\
      forall t, cur s' t = cur s t.
  Proof.
    intros l s' ND AT H.
    assert (V0 : view_ok (restart s) []).
    { split; [apply wf_restart|]. split; [reflexivity|]. split; [|split].
      - intros p. split; [intros [i Gi]; simpl in Gi; discriminate|intros []].
      - intros t p f [].
      - intros t _. rewrite cur_view. reflexivity. }
    destruct (adds_view l [] (restart s) s' V0 ND (fun p Hp => proj1 (AT p) Hp) H) as (W' & D' & _ & V1 & V2).
    simpl in V1, V2. split; [simpl; now apply adds_run|]. split; [exact W'|]. split; [exact D'|].
    intros t. destruct (cur s t) as [f|] eqn:Cu.
    - destruct (cur_some s t f Cu) as (i & st & p & _ & Gi & Cp).
      apply (V1 t p f); [|exact Cp]. apply AT. now exists i.
    - apply V2. intros p Hin. destruct (copy s p t) as [g|] eqn:Cp; [|reflexivity]. exfalso.
      apply AT in Hin. destruct Hin as [i Gi]. destruct W as (_ & _ & B).
      destruct (B i p t Gi) as [st Hs]; [congruence|].
      rewrite cur_view, Hs, Gi, Cp in Cu. discriminate.
  Qed.
End Readd.
