(* Store/Steps.v — what ONE operation can do to ONE stored copy (physical disk, tract), in every
   well-formed state: the exhaustive list [copy_change] of ways a copy is created, rewritten, re-versioned
   or stops existing, proved for every operation of the alphabet (including multi-source PullTract,
   create-as-write, GCTracts lists and AddDisk with any number of conflicts). *)
From Coq Require Import List NArith ZArith Bool Lia.
From BLB Require Import Gen.Consts Store.Bytes Store.MapProofs Store.Model Store.Proofs Store.WF Store.Conflict Store.Mono.
Import ListNotations.
Open Scope N_scope.

(* ---------- vocabulary ---------- *)
(* f' is at least as new as f (a readable version stays readable and does not decrease) *)
Definition ver_le (f f' : file) : Prop :=
  forall v, f_ver f = Some v -> exists v', f_ver f' = Some v' /\ (v <= v')%Z.
(* f's version is unreadable or at most v *)
Definition vle (f : file) (v : Z) : Prop := forall c, f_ver f = Some c -> (c <= v)%Z.
(* the version as resolveConflicts reads it *)
Definition ver0f (f : file) : Z := match f_ver f with Some v => v | None => 0%Z end.
Definition ok_reply (re : Z) : Prop := re = E_OK \/ re = E_EOF.
(* every stored file has a version attribute (true of every reachable state: no operation strips it) *)
Definition versioned (s : store) : Prop := forall pd t f, copy s pd t = Some f -> f_ver f <> None.

Lemma ver_le_refl : forall f, ver_le f f.
Proof. intros f v H. exists v. split; [exact H|lia]. Qed.
Lemma ver_le_trans : forall a b c, ver_le a b -> ver_le b c -> ver_le a c.
Proof.
  intros a b c H1 H2 v Hv. destruct (H1 v Hv) as (v1 & Hb & L1). destruct (H2 v1 Hb) as (v2 & Hc & L2).
  exists v2. split; [exact Hc|lia].
Qed.

(* The ways the copy of tract t on physical disk pd can differ before/after operation o in state s. *)
Inductive copy_change (s : store) (o : op) (pd : N) (t : tract) : option file -> option file -> Prop :=
| CC_same : forall x, copy_change s o pd t x x
| CC_write : forall f v d off,
    (* Write at the copy's own version: bytes overwritten, version kept *)
    o = Write t v d off -> f_ver f = Some v ->
    copy_change s o pd t (Some f) (Some (mkfile (f_ver f) (rle_write (f_data f) d off)))
| CC_create_write : forall f d off orc,
    (* Create of an existing tract = write fenced at the initial version *)
    o = Create t d off orc -> f_ver f = Some (initial_version t) ->
    copy_change s o pd t (Some f) (Some (mkfile (f_ver f) (rle_write (f_data f) d off)))
| CC_bump : forall f v c,
    (* SetVersion: exactly one step, content kept *)
    o = SetVersion t v c -> f_ver f = Some (v - 1)%Z ->
    copy_change s o pd t (Some f) (Some (mkfile (Some v) (f_data f)))
| CC_create : forall d off orc,
    (* Create of a tract that is not in the table: a new copy where there was none *)
    o = Create t d off orc -> lookup s t = None ->
    copy_change s o pd t None (Some (mkfile (Some (initial_version t)) (rle_write [] d off)))
| CC_pull : forall srcs v orc x y,
    (* PullTract: whatever was there had an unreadable version or one <= v; afterwards there is nothing
       (deleted, fetch failed) or the complete bytes of one source at exactly v *)
    o = PullTract t srcs v orc ->
    (forall f, x = Some f -> vle f v) ->
    (y = None \/ exists re data, In (re, data) srcs /\ ok_reply re /\
                                 y = Some (mkfile (Some v) (rle_write [] data 0))) ->
    copy_change s o pd t x y
| CC_gc : forall old gone f,
    (* GCTracts: named as gone, or an instruction at or above the copy's version *)
    o = GCTracts old gone ->
    (In t gone \/ exists v, In (t, v) old /\ vle f v) ->
    copy_change s o pd t (Some f) None
| CC_conflict_new_loses : forall pd1 f f1,
    (* AddDisk pd: the copy on the disk being attached is not newer than the served one *)
    o = AddDisk pd -> open_existing s t = Op_ok pd1 f1 -> pd1 <> pd -> (ver0f f <= ver0f f1)%Z ->
    copy_change s o pd t (Some f) None
| CC_conflict_old_loses : forall pd0 f f2,
    (* AddDisk pd0: the served copy (on pd) is not newer than the one found on pd0 *)
    o = AddDisk pd0 -> open_existing s t = Op_ok pd f -> pd0 <> pd -> copy s pd0 t = Some f2 ->
    (ver0f f <= ver0f f2)%Z ->
    copy_change s o pd t (Some f) None.

(* ---------- effect of the primitives on [copy] and [slots] ---------- *)
Lemma copy_set_table : forall s tb p t, copy (set_table s tb) p t = copy s p t.
Proof. reflexivity. Qed.

Lemma copy_bump : forall s t p t', copy (bump_stamp s t) p t' = copy s p t'.
Proof. intros. unfold copy, files_of. now rewrite (proj1 (bump_stamp_disks s t)). Qed.

Lemma slots_bump : forall s t, slots (bump_stamp s t) = slots s.
Proof. intros. apply bump_stamp_disks. Qed.

Lemma remove_tract_effect : forall s (t : tract),
    fst (remove_tract s t) = s \/
    exists pd f, cur s t = Some f /\ copy s pd t = Some f /\ snd (remove_tract s t) = E_OK /\
                 lookup (fst (remove_tract s t)) t = None /\
                 forall p t', copy (fst (remove_tract s t)) p t' =
                              if (p =? pd) && (t' =? t) then None else copy s p t'.
Proof.
  intros s t. unfold remove_tract.
  destruct (lookup s t) as [[slot st]|] eqn:L; [|now left].
  destruct (disk_of s slot) as [pd|] eqn:D; [|now left].
  destruct (get t (files_of s pd)) as [f|] eqn:G; [|now left].
  right. exists pd, f. simpl. repeat split.
  - unfold cur, open_existing. now rewrite L, D, G.
  - exact G.
  - rewrite lookup_set_table. apply get_del_eq.
  - intros p t'. rewrite copy_set_table. apply copy_del_file.
Qed.

Lemma slots_remove_tract : forall s t, slots (fst (remove_tract s t)) = slots s.
Proof.
  intros. unfold remove_tract. destruct (lookup s t) as [[slot st]|]; [|reflexivity].
  destruct (disk_of s slot); [|reflexivity]. now destruct (get t (files_of s n)).
Qed.

Lemma remove_tract_ok_lookup : forall s t,
    snd (remove_tract s t) = E_OK -> lookup (fst (remove_tract s t)) t = None.
Proof.
  intros s t. unfold remove_tract.
  destruct (lookup s t) as [[slot st]|] eqn:L; [|intros _; exact L].
  destruct (disk_of s slot) as [pd|]; [|simpl; intros H; exfalso; revert H; ecodes; discriminate].
  destruct (get t (files_of s pd)); simpl.
  - intros _. rewrite lookup_set_table. apply get_del_eq.
  - intros H; exfalso; revert H; ecodes; discriminate.
Qed.

Lemma remove_tract_unserved : forall s t, lookup s t = None -> remove_tract s t = (s, E_OK).
Proof. intros s t L. unfold remove_tract. now rewrite L. Qed.

(* doCreate in a well-formed state: fails without touching anything, or adds one new copy *)
Lemma do_create_effect : forall s (t : tract) ver d off orc,
    wf s ->
    (fst (do_create s t ver d off orc) = s /\ snd (do_create s t ver d off orc) <> E_OK /\
     (lookup s t = None -> snd (do_create s t ver d off orc) <> E_AlreadyExists)) \/
    (snd (do_create s t ver d off orc) = E_OK /\ lookup s t = None /\
     exists pd, copy s pd t = None /\
                forall p t', copy (fst (do_create s t ver d off orc)) p t' =
                             if (p =? pd) && (t' =? t) then Some (mkfile (Some ver) (rle_write [] d off))
                             else copy s p t').
Proof.
  intros s t ver d off orc (I & A & B). unfold do_create.
  destruct (lookup s t) as [[slot0 st0]|] eqn:L.
  - left. simpl. repeat split; [ecodes; discriminate|congruence].
  - destruct (pick s orc) as [[slot pd]|e] eqn:P.
    + apply pick_ok in P.
      destruct (get t (files_of s pd)) as [f|] eqn:G.
      * exfalso. assert (C : copy s pd t <> None) by (unfold copy; congruence).
        destruct (B slot pd t P C) as [st Hs]. unfold lookup in L. congruence.
      * right. simpl. repeat split. exists pd. split; [exact G|].
        intros p t'. rewrite copy_set_table. apply copy_put_file.
    + left. simpl. unfold pick in P.
      destruct (existsb _ _).
      * destruct (disk_of s orc) as [pd'|]; [destruct (can_alloc s pd')|]; inversion P; subst;
          (repeat split; [ecodes; discriminate|intros _; ecodes; discriminate]).
      * inversion P; subst. repeat split; [ecodes; discriminate|intros _; ecodes; discriminate].
Qed.

Lemma slots_do_create : forall s t ver d off orc, slots (fst (do_create s t ver d off orc)) = slots s.
Proof.
  intros. unfold do_create. destruct (lookup s t) as [[? ?]|]; [reflexivity|].
  destruct (pick s orc) as [[slot pd]|e]; [|reflexivity]. now destruct (get t (files_of s pd)).
Qed.

(* doWrite: nothing but (possibly) the served copy, rewritten at its own version *)
Lemma do_write_effect : forall s (t : tract) v d off p t',
    copy (fst (do_write s t v d off)) p t' = copy s p t' \/
    (t' = t /\ exists f, copy s p t = Some f /\ f_ver f = Some v /\
                         copy (fst (do_write s t v d off)) p t =
                         Some (mkfile (f_ver f) (rle_write (f_data f) d off))).
Proof.
  intros s t v d off p t'. unfold do_write.
  destruct (open_version (bump_stamp s t) t) as [pd f c|e] eqn:O; [|left; apply copy_bump].
  destruct (v =? c)%Z eqn:E; [|left; apply copy_bump]. simpl.
  apply Z.eqb_eq in E. subst c.
  apply open_version_ok in O. destruct O as (Oe & Hv & _).
  apply open_existing_ok in Oe. destruct Oe as (slot & st & _ & _ & C). rewrite copy_bump in C.
  rewrite copy_put_file, copy_bump.
  destruct ((p =? pd) && (t' =? t)) eqn:X; [|now left].
  apply andb_true_iff in X. destruct X as [X1 X2]. apply N.eqb_eq in X1, X2. subst p t'.
  right. split; [reflexivity|]. exists f. rewrite copy_put_file, !N.eqb_refl. auto.
Qed.

Lemma slots_do_write : forall s t v d off, slots (fst (do_write s t v d off)) = slots s.
Proof.
  intros. unfold do_write. destruct (open_version (bump_stamp s t) t); [|apply slots_bump].
  destruct (v =? cur)%Z; apply slots_bump.
Qed.

Lemma set_version_effect : forall s (t : tract) v c,
    fst (set_version s t v c) = s \/
    exists pd f, copy s pd t = Some f /\ f_ver f = Some (v - 1)%Z /\
                 fst (set_version s t v c) = put_file s pd t (mkfile (Some v) (f_data f)).
Proof.
  intros s t v c. unfold set_version.
  destruct (v <=? 1)%Z; [now left|].
  match goal with |- context [if ?b then (s, (E_StampChanged, _)) else _] => destruct b end; [now left|].
  destruct (open_version s t) as [pd f cv|e] eqn:O; [|now left].
  destruct (v <=? cv)%Z; [now left|]. destruct (cv + 1 =? v)%Z eqn:E; [|now left].
  apply Z.eqb_eq in E. right. exists pd, f.
  apply open_version_ok in O. destruct O as (Oe & Hv & _).
  apply open_existing_ok in Oe. destruct Oe as (slot & st & _ & _ & C).
  simpl. repeat split; auto. rewrite Hv. f_equal. lia.
Qed.

Lemma slots_set_version : forall s t v c, slots (fst (set_version s t v c)) = slots s.
Proof. intros. destruct (set_version_effect s t v c) as [->|(pd & f & _ & _ & ->)]; reflexivity. Qed.

(* ---------- PullTract ---------- *)
Section Pull.
  Variable t : tract.
  Variable v : Z.
  Variable srcs : list (Z * rle).

  (* what any number of pullTractOnce rounds for (t, v) with replies from srcs can do *)
  Definition pull_rel (s0 s1 : store) : Prop :=
    forall p t',
      (t' <> t -> copy s1 p t' = copy s0 p t') /\
      (copy s1 p t = copy s0 p t \/
       ((forall f, copy s0 p t = Some f -> vle f v) /\
        (copy s1 p t = None \/
         exists re data, In (re, data) srcs /\ ok_reply re /\
                         copy s1 p t = Some (mkfile (Some v) (rle_write [] data 0))))).

  Lemma pull_rel_refl : forall s, pull_rel s s.
  Proof. intros s p t'. split; auto. Qed.

  Lemma pull_rel_trans : forall a b c, pull_rel a b -> pull_rel b c -> pull_rel a c.
  Proof.
    intros a b c H1 H2 p t'. destruct (H1 p t') as [O1 C1]. destruct (H2 p t') as [O2 C2].
    split; [intros Hne; rewrite O2, O1; auto|].
    destruct C1 as [E1|[P1 R1]]; destruct C2 as [E2|[P2 R2]].
    - left. congruence.
    - right. split; [|exact R2]. intros f Hf. apply P2. congruence.
    - right. split; [exact P1|]. rewrite E2. exact R1.
    - right. split; [exact P1|exact R2].
  Qed.

  Lemma pull_pre_effect : forall s s1 r,
      pull_pre s t v = (s1, r) ->
      (s1 = s \/ (s1 = fst (remove_tract s t) /\ forall f, cur s t = Some f -> vle f v)) /\
      (r = None -> lookup s1 t = None).
  Proof.
    intros s s1 r. unfold pull_pre.
    destruct (remove_tract s t) as [sr er] eqn:R.
    assert (RM : (sr, if (er =? E_OK)%Z then None else Some er) = (s1, r) ->
                 (forall f, cur s t = Some f -> vle f v) ->
                 (s1 = s \/ (s1 = fst (sr, er) /\ forall f, cur s t = Some f -> vle f v)) /\
                 (r = None -> lookup s1 t = None)).
    { intros H HV. inversion H; subst s1 r. split; [right; auto|].
      destruct (er =? E_OK)%Z eqn:X; [|discriminate]. intros _. apply Z.eqb_eq in X.
      pose proof (remove_tract_ok_lookup s t) as K. rewrite R in K. simpl in K. auto. }
    destruct (lookup s t) as [[slot st]|] eqn:L.
    - destruct (open_existing s t) as [pd f|e] eqn:O.
      + destruct (f_ver f) as [cv|] eqn:V.
        * destruct (v <? cv)%Z eqn:X.
          -- intros H; inversion H; subst. split; [now left|discriminate].
          -- intros H. apply RM; [exact H|]. intros f0 Hc c Hv.
             unfold cur in Hc. rewrite O in Hc. inversion Hc; subst f0.
             rewrite V in Hv. inversion Hv; subst c. apply Z.ltb_ge in X. exact X.
        * intros H. apply RM; [exact H|]. intros f0 Hc c Hv.
          unfold cur in Hc. rewrite O in Hc. inversion Hc; subst f0. congruence.
      + destruct (e =? E_PANIC)%Z.
        * intros H; inversion H; subst. split; [now left|discriminate].
        * intros H. apply RM; [exact H|]. intros f0 Hc. unfold cur in Hc. rewrite O in Hc. discriminate.
    - intros H; inversion H; subst. split; [now left|auto].
  Qed.

  Lemma pull_rel_remove : forall s,
      (forall f, cur s t = Some f -> vle f v) -> pull_rel s (fst (remove_tract s t)).
  Proof.
    intros s HV. destruct (remove_tract_effect s t) as [->|(pd & f & Hc & C & _ & _ & E)].
    - apply pull_rel_refl.
    - intros p t'. split.
      + intros Hne. rewrite E. apply N.eqb_neq in Hne. now rewrite Hne, andb_false_r.
      + rewrite E, N.eqb_refl, andb_true_r. destruct (p =? pd) eqn:X; [|now left].
        apply N.eqb_eq in X. subst p. right. split; [|now left].
        intros f0 Hf. rewrite C in Hf. inversion Hf; subst f0. now apply HV.
  Qed.

  Lemma pull_once_rel : forall s r orc,
      wf s -> In r srcs -> pull_rel s (fst (pull_once s t r v orc)).
  Proof.
    intros s [re data] orc W Hin. unfold pull_once.
    pose proof (wf_pull_pre s t v W) as W1.
    destruct (pull_pre s t v) as [s1 r] eqn:PP. simpl in W1.
    destruct (pull_pre_effect s s1 r PP) as [HS HL].
    assert (R1 : pull_rel s s1).
    { destruct HS as [->|[-> HV]]; [apply pull_rel_refl|now apply pull_rel_remove]. }
    destruct r as [e|]; [exact R1|].
    specialize (HL eq_refl).
    destruct (negb (re =? E_OK)%Z && negb (re =? E_EOF)%Z) eqn:BAD; [exact R1|].
    assert (OKR : ok_reply re).
    { unfold ok_reply. apply andb_false_iff in BAD. destruct BAD as [X|X]; apply negb_false_iff in X;
        apply Z.eqb_eq in X; auto. }
    destruct (do_create_effect s1 t v data 0 orc W1) as [(E1 & NE & _)|(E1 & _ & pd & CN & E2)];
      destruct (do_create s1 t v data 0 orc) as [s2 ce]; simpl in *.
    - subst s2. assert (X : (ce =? E_OK)%Z = false) by now apply Z.eqb_neq. rewrite X.
      rewrite (remove_tract_unserved s1 t HL). exact R1.
    - subst ce. assert (X : (E_OK =? E_OK)%Z = true) by apply Z.eqb_refl. rewrite X. simpl.
      eapply pull_rel_trans; [exact R1|].
      intros p t'. split.
      + intros Hne. rewrite E2. apply N.eqb_neq in Hne. now rewrite Hne, andb_false_r.
      + rewrite E2, N.eqb_refl, andb_true_r. destruct (p =? pd) eqn:Y; [|now left].
        apply N.eqb_eq in Y. subst p. right. split; [intros f Hf; congruence|].
        right. exists re, data. auto.
  Qed.

  Lemma pull_all_rel : forall rest s orc last,
      wf s -> incl rest srcs -> pull_rel s (fst (pull_all s t rest v orc last)).
  Proof.
    induction rest as [|r rest IH]; intros s orc last W Hin; simpl; [apply pull_rel_refl|].
    assert (Hr : In r srcs) by (apply Hin; now left).
    pose proof (pull_once_rel s r orc W Hr) as R1.
    pose proof (wf_pull_once s t r v orc W) as W1.
    destruct (pull_once s t r v orc) as [s' e]. simpl in *.
    destruct (e =? E_OK)%Z; [exact R1|].
    eapply pull_rel_trans; [exact R1|]. apply IH; [exact W1|]. intros x Hx. apply Hin. now right.
  Qed.
End Pull.

Lemma slots_pull_pre : forall s t v, slots (fst (pull_pre s t v)) = slots s.
Proof.
  intros. destruct (pull_pre_cases s t v) as [->|[[e ->]| ->]]; try reflexivity.
  simpl. apply slots_remove_tract.
Qed.

Lemma slots_pull_once : forall s t r v orc, slots (fst (pull_once s t r v orc)) = slots s.
Proof.
  intros s t [re data] v orc. unfold pull_once.
  pose proof (slots_pull_pre s t v) as H. destruct (pull_pre s t v) as [s1 [e|]]; simpl in H; [exact H|].
  destruct (negb (re =? E_OK)%Z && negb (re =? E_EOF)%Z); [exact H|].
  pose proof (slots_do_create s1 t v data 0 orc) as H2.
  destruct (do_create s1 t v data 0 orc) as [s2 ce]. simpl in H2.
  destruct (ce =? E_OK)%Z; simpl; [congruence|]. rewrite slots_remove_tract. congruence.
Qed.

Lemma slots_pull_all : forall srcs s t v orc last, slots (fst (pull_all s t srcs v orc last)) = slots s.
Proof.
  induction srcs as [|r rest IH]; intros; simpl; [reflexivity|].
  pose proof (slots_pull_once s t r v orc) as H. destruct (pull_once s t r v orc) as [s' e]. simpl in H.
  destruct (e =? E_OK)%Z; [exact H|]. rewrite IH. exact H.
Qed.

(* ---------- GCTracts ---------- *)
Section GC.
  Variable old : list (tract * Z).
  Variable gone : list tract.

  Definition gc_rel (s0 s1 : store) : Prop :=
    forall p t,
      copy s1 p t = copy s0 p t \/
      (copy s1 p t = None /\
       exists f, copy s0 p t = Some f /\ (In t gone \/ exists v, In (t, v) old /\ vle f v)).

  Lemma gc_rel_refl : forall s, gc_rel s s.
  Proof. intros s p t. now left. Qed.

  Lemma gc_rel_trans : forall a b c, gc_rel a b -> gc_rel b c -> gc_rel a c.
  Proof.
    intros a b c H1 H2 p t. destruct (H1 p t) as [E1|(N1 & f & F1 & J1)]; destruct (H2 p t) as [E2|(N2 & g & F2 & J2)].
    - left. congruence.
    - right. split; [exact N2|]. exists g. split; [congruence|exact J2].
    - right. split; [congruence|]. exists f. auto.
    - congruence.
  Qed.

  Lemma gc_rel_remove : forall s t,
      (forall f, cur s t = Some f -> In t gone \/ exists v, In (t, v) old /\ vle f v) ->
      gc_rel s (fst (remove_tract s t)).
  Proof.
    intros s t HJ. destruct (remove_tract_effect s t) as [->|(pd & f & Hc & C & _ & _ & E)].
    - apply gc_rel_refl.
    - intros p t'. rewrite E. destruct ((p =? pd) && (t' =? t)) eqn:X; [|now left].
      apply andb_true_iff in X. destruct X as [X1 X2]. apply N.eqb_eq in X1, X2. subst p t'.
      right. split; [reflexivity|]. exists f. split; [exact C|]. now apply HJ.
  Qed.

  Lemma gc_rel_maybe : forall s tv, In tv old -> gc_rel s (maybe_gc s tv).
  Proof.
    intros s [t v] Hin. unfold maybe_gc. simpl.
    destruct (open_version s t) as [pd f c|e] eqn:O; [|apply gc_rel_refl].
    destruct (v <? c)%Z eqn:X; [apply gc_rel_refl|].
    apply gc_rel_remove. intros f0 Hc. right. exists v. split; [exact Hin|].
    apply open_version_ok in O. destruct O as (_ & Hv & Hc' & _).
    rewrite Hc' in Hc. inversion Hc; subst f0. intros c0 H0. rewrite Hv in H0. inversion H0; subst c0.
    now apply Z.ltb_ge in X.
  Qed.
End GC.

Lemma gc_tracts_rel : forall s old gone, gc_rel old gone s (gc_tracts s old gone).
Proof.
  intros s old gone. unfold gc_tracts.
  assert (H1 : forall l s, incl l old -> gc_rel old gone s (fold_left maybe_gc l s)).
  { induction l as [|x l IH]; intros s0 Hin; simpl; [apply gc_rel_refl|].
    eapply gc_rel_trans; [apply gc_rel_maybe; apply Hin; now left|].
    apply IH. intros y Hy. apply Hin. now right. }
  assert (H2 : forall l s, incl l gone ->
                           gc_rel old gone s (fold_left (fun s t => fst (remove_tract s t)) l s)).
  { induction l as [|x l IH]; intros s0 Hin; simpl; [apply gc_rel_refl|].
    eapply gc_rel_trans; [apply gc_rel_remove; intros; left; apply Hin; now left|].
    apply IH. intros y Hy. apply Hin. now right. }
  eapply gc_rel_trans; [apply H1, incl_refl|apply H2, incl_refl].
Qed.

Lemma slots_maybe_gc : forall s tv, slots (maybe_gc s tv) = slots s.
Proof.
  intros. unfold maybe_gc. destruct (open_version s (fst tv)); [|reflexivity].
  destruct (snd tv <? cur)%Z; [reflexivity|apply slots_remove_tract].
Qed.

Lemma slots_gc_tracts : forall s old gone, slots (gc_tracts s old gone) = slots s.
Proof.
  intros. unfold gc_tracts.
  assert (H1 : forall l s, slots (fold_left maybe_gc l s) = slots s).
  { induction l as [|x l IH]; intros; simpl; [reflexivity|]. now rewrite IH, slots_maybe_gc. }
  assert (H2 : forall l s, slots (fold_left (fun s t => fst (remove_tract s t)) l s) = slots s).
  { induction l as [|x l IH]; intros; simpl; [reflexivity|]. now rewrite IH, slots_remove_tract. }
  now rewrite H2, H1.
Qed.

(* ---------- AddDisk, tract by tract ---------- *)
Lemma add_disk_view : forall s pd s',
    wf s -> add_disk s pd = (s', E_OK) ->
    exists i, get i (slots s) = None /\ slot_of s pd = None /\ slots s' = put i pd (slots s) /\
      forall t : tract,
        ((copy s pd t = None \/ get t (table s) = None) ->
         get t (table s') = match get t (table s) with
                            | Some x => Some x
                            | None => match copy s pd t with Some _ => Some (i, stamp0 s) | None => None end
                            end /\
         forall p, copy s' p t = copy s p t) /\
        (forall f2 i1 st pd1,
            copy s pd t = Some f2 -> get t (table s) = Some (i1, st) -> get i1 (slots s) = Some pd1 ->
            pd1 <> pd /\ i1 <> i /\
            match verdict s t pd1 pd with
            | KeepOld => get t (table s') = Some (i1, st) /\ copy s' pd t = None /\ copy s' pd1 t = copy s pd1 t
            | KeepNew => get t (table s') = Some (i, stamp_succ st) /\ copy s' pd1 t = None /\ copy s' pd t = Some f2
            | DropBoth => get t (table s') = None /\ copy s' pd1 t = None /\ copy s' pd t = None
            end /\
            forall p, p <> pd1 -> p <> pd -> copy s' p t = copy s p t).
Proof.
  intros s pd s' W HA.
  destruct (add_disk_ok s pd s' HA) as (i & SN & Fi & DG & ->).
  set (tids := tids_of (files_of s pd)) in *.
  set (s1 := mkstore (disks s) (noalloc s) (put i pd (slots s)) (new_entries s i tids) (epoch s) (mgr s)).
  exists i. split; [exact Fi|]. split; [exact SN|].
  split; [now rewrite slots_fold_resolve|].
  assert (ND : NoDup (map ctract (conflicts_of s i pd tids))) by (apply NoDup_conflicts_of, NoDup_nodup).
  intros t. split.
  - intros Hnc.
    assert (Nin : ~ In t (map ctract (conflicts_of s i pd tids))).
    { intros H. apply in_map_iff in H. destruct H as (c & Hc & Hin).
      apply In_conflicts_of in Hin. destruct Hin as (t0 & i1 & st & pd1 & -> & Ht & G & _).
      simpl in Hc. subst t0. apply In_tids_of in Ht. destruct Hnc as [X|X]; [unfold copy in X|]; congruence. }
    destruct (fold_resolve_other _ s1 t Nin) as [Tf Cf]. split.
    + rewrite Tf. unfold s1. simpl. rewrite get_new_entries.
      destruct (get t (table s)); [reflexivity|].
      destruct (copy s pd t) eqn:C.
      * assert (M : memN t tids = true) by (apply memN_In, In_tids_of; unfold copy in C; congruence).
        now rewrite M.
      * destruct (memN t tids) eqn:M; [|reflexivity]. apply memN_In, In_tids_of in M. unfold copy in C. congruence.
    + intros p. rewrite Cf. reflexivity.
  - intros f2 i1 st pd1 HC L D.
    assert (Hp : pd1 <> pd) by (intros ->; eapply slot_of_none; eauto).
    assert (Hi : i1 <> i) by congruence.
    split; [exact Hp|]. split; [exact Hi|].
    assert (Ht : In t tids) by (apply In_tids_of; unfold copy in HC; congruence).
    set (c0 := ((t, i1, i, pd1, pd) : conflict)).
    assert (Hc0 : In c0 (conflicts_of s i pd tids)).
    { apply In_conflicts_of. exists t, i1, st, pd1. auto. }
    destruct (in_split _ _ Hc0) as (l1 & l2 & Hsplit). rewrite Hsplit in *.
    rewrite map_app in ND. simpl in ND.
    assert (N1 : ~ In t (map ctract l1)).
    { intros H. apply NoDup_remove_2 in ND. apply ND. apply in_or_app. now left. }
    assert (N2 : ~ In t (map ctract l2)).
    { intros H. apply NoDup_remove_2 in ND. apply ND. apply in_or_app. now right. }
    rewrite fold_left_app. cbn [fold_left].
    set (sm := fold_left resolve_one l1 s1).
    destruct (fold_resolve_other l1 s1 t N1) as [Tm Cm]. fold sm in Tm, Cm.
    assert (Tm' : get t (table sm) = Some (i1, st)).
    { rewrite Tm. unfold s1. simpl. rewrite get_new_entries, L. reflexivity. }
    assert (Cm' : forall p, copy sm p t = copy s p t) by (intros; rewrite Cm; reflexivity).
    assert (V : verdict sm t pd1 pd = verdict s t pd1 pd).
    { unfold verdict, ver0. fold (copy sm pd1 t) (copy sm pd t) (copy s pd1 t) (copy s pd t).
      now rewrite !Cm'. }
    pose proof (resolve_one_self sm t i1 i pd1 pd st Tm' Hi Hp) as Hres. cbv zeta in Hres.
    destruct Hres as [Hself Hoth]. fold c0 in Hself, Hoth. rewrite V in Hself.
    set (sr := resolve_one sm c0) in *.
    destruct (fold_resolve_other l2 sr t N2) as [Tf Cf].
    change (fold_left resolve_one l2 (resolve_one (fold_left resolve_one l1 s1) c0))
      with (fold_left resolve_one l2 sr).
    split.
    + destruct (verdict s t pd1 pd); destruct Hself as (Ha & Hb & Hc); rewrite Tf, !Cf, Ha, Hb, Hc;
        rewrite ?Cm', ?HC; auto.
    + intros p H1 H2. rewrite Cf, (Hoth p H1 H2). apply Cm'.
Qed.

Lemma verdict_ver0f : forall s t p1 p2 f1 f2,
    copy s p1 t = Some f1 -> copy s p2 t = Some f2 ->
    verdict s t p1 p2 = if (ver0f f2 <? ver0f f1)%Z then KeepOld
                        else if (ver0f f1 <? ver0f f2)%Z then KeepNew else DropBoth.
Proof.
  intros s t p1 p2 f1 f2 C1 C2. unfold verdict, ver0, ver0f. unfold copy in C1, C2. now rewrite C1, C2.
Qed.

(* ---------- the classification, for every operation ---------- *)
Lemma wf_served : forall s t i st,
    wf s -> get t (table s) = Some (i, st) ->
    exists pd f, get i (slots s) = Some pd /\ copy s pd t = Some f /\ open_existing s t = Op_ok pd f.
Proof.
  intros s t i st (_ & A & _) G. destruct (A t i st G) as (pd & Gp & C).
  destruct (copy s pd t) as [f|] eqn:Cf; [|congruence].
  exists pd, f. repeat split; auto. unfold open_existing, lookup, disk_of. rewrite G, Gp.
  unfold copy in Cf. now rewrite Cf.
Qed.

Theorem copy_step_cases : forall s o pd t,
    wf s -> copy_change s o pd t (copy s pd t) (copy (fst (step s o)) pd t).
Proof.
  intros s o pd t W. destruct o as [t0 d off orc|t0 v d off|t0 v len off|t0 v|t0 v c|t0 srcs v orc|old gone|ts| |pd0|pd0|pd0 stop];
    simpl.
  - (* Create *)
    unfold create.
    destruct (do_create_effect s t0 (initial_version t0) d off orc W) as [(E1 & NE & NA)|(E1 & L & pdn & CN & E2)];
      destruct (do_create s t0 (initial_version t0) d off orc) as [s1 e]; simpl in *.
    + subst s1. destruct (e =? E_AlreadyExists)%Z; [|apply CC_same].
      pose proof (do_write_effect s t0 (initial_version t0) d off pd t) as H.
      destruct (do_write s t0 (initial_version t0) d off) as [s2 e2]. simpl in *.
      destruct H as [->|(-> & f & C & Hv & ->)]; [apply CC_same|].
      rewrite C. eapply CC_create_write; eauto.
    + subst e. assert (X : (E_OK =? E_AlreadyExists)%Z = false) by (ecodes; reflexivity). rewrite X. simpl.
      rewrite E2. destruct ((pd =? pdn) && (t =? t0)) eqn:Y; [|apply CC_same].
      apply andb_true_iff in Y. destruct Y as [Y1 Y2]. apply N.eqb_eq in Y1, Y2. subst pd t.
      rewrite CN. eapply CC_create; eauto.
  - (* Write *)
    pose proof (do_write_effect s t0 v d off pd t) as H.
    destruct (do_write s t0 v d off) as [s2 e2]. simpl in *.
    destruct H as [->|(-> & f & C & Hv & ->)]; [apply CC_same|].
    rewrite C. eapply CC_write; eauto.
  - destruct (read s t0 v len off). apply CC_same.
  - destruct (stat s t0 v) as [[? ?] ?]. apply CC_same.
  - (* SetVersion *)
    pose proof (set_version_effect s t0 v c) as H.
    destruct (set_version s t0 v c) as [s2 [e fv]]. simpl in *.
    destruct H as [->|(pdn & f & C & Hv & ->)]; [apply CC_same|].
    rewrite copy_put_file. destruct ((pd =? pdn) && (t =? t0)) eqn:Y; [|apply CC_same].
    apply andb_true_iff in Y. destruct Y as [Y1 Y2]. apply N.eqb_eq in Y1, Y2. subst pd t.
    rewrite C. eapply CC_bump; eauto.
  - (* PullTract *)
    unfold pull_tract.
    pose proof (pull_all_rel t0 v srcs srcs s orc E_OK W (incl_refl _) pd t) as [HO HC].
    destruct (pull_all s t0 srcs v orc E_OK) as [s2 e]. simpl in *.
    destruct (N.eq_dec t t0) as [->|Hne]; [|rewrite (HO Hne); apply CC_same].
    destruct HC as [->|[HP HR]]; [apply CC_same|].
    eapply CC_pull; [reflexivity| |exact HR]. intros f Hf. now apply HP.
  - (* GCTracts *)
    destruct (gc_tracts_rel s old gone pd t) as [->|(N & f & C & J)]; [apply CC_same|].
    rewrite N, C. eapply CC_gc; eauto.
  - apply CC_same.
  - apply CC_same.
  - (* AddDisk *)
    destruct (add_disk s pd0) as [s' e] eqn:HA. simpl.
    destruct (Z.eq_dec e E_OK) as [->|Hne].
    + destruct (add_disk_view s pd0 s' W HA) as (i & Fi & SN & SL & HV).
      destruct (HV t) as [H1 H2].
      destruct (copy s pd0 t) as [f2|] eqn:C0; [|destruct (H1 (or_introl eq_refl)) as [_ ->]; apply CC_same].
      destruct (get t (table s)) as [[i1 st]|] eqn:G; [|destruct (H1 (or_intror eq_refl)) as [_ ->]; apply CC_same].
      destruct (wf_served s t i1 st W G) as (pd1 & f1 & G1 & C1 & O1).
      destruct (H2 f2 i1 st pd1 eq_refl eq_refl G1) as (Hp & Hi & HVd & Hoth).
      rewrite (verdict_ver0f s t pd1 pd0 f1 f2 C1 C0) in HVd.
      destruct (N.eq_dec pd pd1) as [->|Hn1]; [|destruct (N.eq_dec pd pd0) as [->|Hn0]].
      * (* the old, served copy *)
        destruct (ver0f f2 <? ver0f f1)%Z eqn:X1; [destruct HVd as (_ & _ & ->); apply CC_same|].
        apply Z.ltb_ge in X1.
        destruct (ver0f f1 <? ver0f f2)%Z eqn:X2; destruct HVd as (_ & -> & _); rewrite C1;
          eapply CC_conflict_old_loses; eauto.
      * (* the copy on the disk being attached *)
        destruct (ver0f f2 <? ver0f f1)%Z eqn:X1.
        -- destruct HVd as (_ & -> & _). rewrite C0. apply Z.ltb_lt in X1.
           eapply CC_conflict_new_loses; eauto. lia.
        -- apply Z.ltb_ge in X1. destruct (ver0f f1 <? ver0f f2)%Z eqn:X2.
           ++ destruct HVd as (_ & _ & ->). rewrite C0. apply CC_same.
           ++ apply Z.ltb_ge in X2. destruct HVd as (_ & _ & ->). rewrite C0.
              eapply CC_conflict_new_loses; eauto.
      * rewrite (Hoth pd Hn1 Hn0). apply CC_same.
    + assert (s' = s); [|subst; apply CC_same].
      unfold add_disk in HA. destruct (slot_of s pd0); [now inversion HA|].
      destruct (free_slot s); [|now inversion HA].
      destruct (dangling s _); inversion HA; subst; congruence.
  - (* RemoveDisk *)
    pose proof (remove_disk_disks s pd0) as H. destruct (remove_disk s pd0) as [s' e]. simpl in *.
    unfold copy, files_of. rewrite H. apply CC_same.
  - unfold set_alloc. destruct (slot_of s pd0); apply CC_same.
Qed.

(* ---------- reading the classification backwards ---------- *)
Lemma cc_to_some : forall s o pd t x f',
    copy_change s o pd t x (Some f') ->
    x = Some f' \/
    (exists f v d off, x = Some f /\ o = Write t v d off /\ f_ver f = Some v /\
                       f' = mkfile (f_ver f) (rle_write (f_data f) d off)) \/
    (exists f d off orc, x = Some f /\ o = Create t d off orc /\ f_ver f = Some (initial_version t) /\
                         f' = mkfile (f_ver f) (rle_write (f_data f) d off)) \/
    (exists f v c, x = Some f /\ o = SetVersion t v c /\ f_ver f = Some (v - 1)%Z /\
                   f' = mkfile (Some v) (f_data f)) \/
    (exists d off orc, x = None /\ o = Create t d off orc /\ lookup s t = None /\
                       f' = mkfile (Some (initial_version t)) (rle_write [] d off)) \/
    (exists srcs v orc re data, o = PullTract t srcs v orc /\ (forall f, x = Some f -> vle f v) /\
                                In (re, data) srcs /\ ok_reply re /\
                                f' = mkfile (Some v) (rle_write [] data 0)).
Proof.
  intros s o pd t x f' H. remember (Some f') as y eqn:Ey.
  destruct H as [x | f v d off Ho Hv | f d off orc Ho Hv | f v c Ho Hv | d off orc Ho Hl
                 | srcs v orc x y Ho Hx Hy | old gone f Ho HJ | pd1 f f1 Ho HO Hn Hle | pd0 f f2 Ho HO Hn HC Hle];
    try discriminate.
  - now left.
  - inversion Ey. right; left. exists f, v, d, off. auto.
  - inversion Ey. right; right; left. exists f, d, off, orc. auto.
  - inversion Ey. right; right; right; left. exists f, v, c. auto.
  - inversion Ey. right; right; right; right; left. exists d, off, orc. auto.
  - right; right; right; right; right. subst y. destruct Hy as [?|(re & data & Hin & Hok & E)]; [discriminate|].
    inversion E. exists srcs, v, orc, re, data. auto.
Qed.

Lemma cc_to_none : forall s o pd t f,
    copy_change s o pd t (Some f) None ->
    (exists srcs v orc, o = PullTract t srcs v orc /\ vle f v) \/
    (exists old gone, o = GCTracts old gone /\ (In t gone \/ exists v, In (t, v) old /\ vle f v)) \/
    (exists pd1 f1, o = AddDisk pd /\ open_existing s t = Op_ok pd1 f1 /\ pd1 <> pd /\ (ver0f f <= ver0f f1)%Z) \/
    (exists pd0 f2, o = AddDisk pd0 /\ open_existing s t = Op_ok pd f /\ pd0 <> pd /\ copy s pd0 t = Some f2 /\
                    (ver0f f <= ver0f f2)%Z).
Proof.
  intros s o pd t f H. remember (Some f) as x eqn:Ex. remember (@None file) as y eqn:Ey.
  destruct H as [x | f0 v d off Ho Hv | f0 d off orc Ho Hv | f0 v c Ho Hv | d off orc Ho Hl
                 | srcs v orc x y Ho Hx Hy | old gone f0 Ho HJ | pd1 f0 f1 Ho HO Hn Hle | pd0 f0 f2 Ho HO Hn HC Hle];
    try discriminate; try congruence.
  - left. exists srcs, v, orc. split; [exact Ho|]. now apply Hx.
  - inversion Ex; subst f0. right; left. exists old, gone. auto.
  - inversion Ex; subst f0. right; right; left. exists pd1, f1. auto.
  - inversion Ex; subst f0. right; right; right. exists pd0, f2. auto.
Qed.
