(* Store/Crash.v — the Store operations spelled out disk call by disk call, with
   (1) an injected fault at ANY faultable disk call of an operation (Open, Setxattr, Write, Close of a
       tract file; the n-th such call counted from the start of the operation fails), and
   (2) power loss: updates made through a handle (new file, bytes, version attribute) sit in the page
       cache until SOME handle of that file is closed successfully (ChecksumFile.Close fsyncs the file;
       a failed Close = a failed fsync leaves them volatile); Delete is durable at once (Manager renames
       and syncs the directory).  A power loss throws the volatile updates away and restarts the process.
   State = the visible state [vs] (the sequential model's [store]: what this process sees) plus [dirty]:
   for every file with unsynced updates, its durable image (None = does not exist durably).
   Failure behaviour of the double (go/C09 c09disk), per call:
     Open fails      -> ErrIO, nothing happens (no file is created);
     Setxattr fails  -> ErrIO, attribute unchanged;
     Write fails     -> ErrNoSpace after the first half of the bytes was written (len/2, nothing if 0);
     Close fails     -> ErrIO, the handle is gone but nothing was synced.
   Every function transcribes the order of disk calls of store.go / store_internal.go (errTract: a call is
   skipped once an error is pending; closeErrTract always closes an opened handle and keeps the FIRST error).
   With no fault armed the visible part is exactly Store/Model.v (Store/CrashProofs.v, x_step_nofault).
   Definitions only. *)
From Coq Require Import List NArith ZArith Bool.
From BLB Require Import Gen.Consts Store.Bytes Store.Model.
Import ListNotations.
Open Scope N_scope.

Definition E_IO : Z := st_IO.

(* Some n: the n-th faultable disk call from now on fails; None: no fault armed / already consumed *)
Definition fault := option nat.
Definition tick (f : fault) : bool * fault :=
  match f with
  | None => (false, None)
  | Some O => (true, None)
  | Some (S n) => (false, Some n)
  end.

Record cstore := mkc { vs : store; dirty : list (N * N * option file) }.

Definition key_eqb (pd : N) (t : tract) (e : N * N * option file) : bool :=
  (fst (fst e) =? pd) && (snd (fst e) =? t).
Definition d_find (pd : N) (t : tract) (l : list (N * N * option file)) : option (option file) :=
  match filter (key_eqb pd t) l with e :: _ => Some (snd e) | [] => None end.
Definition with_vs (cs : cstore) (s : store) : cstore := mkc s (dirty cs).
(* first unsynced update of a file: remember its durable image *)
Definition d_mark (cs : cstore) (pd : N) (t : tract) : cstore :=
  match d_find pd t (dirty cs) with
  | Some _ => cs
  | None => mkc (vs cs) ((pd, t, copy (vs cs) pd t) :: dirty cs)
  end.
(* a successful fsync of the file *)
Definition d_clear (cs : cstore) (pd : N) (t : tract) : cstore :=
  mkc (vs cs) (filter (fun e => negb (key_eqb pd t e)) (dirty cs)).
(* deleted files have nothing pending *)
Definition prune (cs : cstore) : cstore :=
  mkc (vs cs) (filter (fun e => match copy (vs cs) (fst (fst e)) (snd (fst e)) with
                                | Some _ => true | None => false end) (dirty cs)).
(* the durable image of a file *)
Definition durable_copy (cs : cstore) (pd : N) (t : tract) : option file :=
  match d_find pd t (dirty cs) with Some img => img | None => copy (vs cs) pd t end.

Definition cinit (m : bool) : cstore := mkc (init m) [].

(* ---------- disk calls ---------- *)
Definition x_open (cs : cstore) (f : fault) (pd : N) (t : tract) (create : bool) : cstore * fault * Z :=
  let '(hit, f') := tick f in
  if hit then (cs, f', E_IO)
  else match copy (vs cs) pd t with
       | Some _ => (cs, f', if create then E_AlreadyExists else E_OK)
       | None => if create
                 then (with_vs (d_mark cs pd t) (put_file (vs cs) pd t (mkfile None [])), f', E_OK)
                 else (cs, f', E_NoSuchTract)
       end.

Definition x_setxattr (cs : cstore) (f : fault) (pd : N) (t : tract) (v : Z) : cstore * fault * Z :=
  let '(hit, f') := tick f in
  if hit then (cs, f', E_IO)
  else match copy (vs cs) pd t with
       | Some fl => (with_vs (d_mark cs pd t) (put_file (vs cs) pd t (mkfile (Some v) (f_data fl))), f', E_OK)
       | None => (cs, f', E_PANIC)
       end.

Definition x_write (cs : cstore) (f : fault) (pd : N) (t : tract) (d : rle) (off : N) : cstore * fault * Z :=
  let '(hit, f') := tick f in
  match copy (vs cs) pd t with
  | None => (cs, f', E_PANIC)
  | Some fl =>
      if hit then
        let half := rle_len d / 2 in
        if half =? 0 then (cs, f', E_NoSpace)
        else (with_vs (d_mark cs pd t)
                      (put_file (vs cs) pd t (mkfile (f_ver fl) (rle_write (f_data fl) (rle_take half d) off))),
              f', E_NoSpace)
      else (with_vs (d_mark cs pd t) (put_file (vs cs) pd t (mkfile (f_ver fl) (rle_write (f_data fl) d off))),
            f', E_OK)
  end.

Definition x_close (cs : cstore) (f : fault) (pd : N) (t : tract) : cstore * fault * Z :=
  let '(hit, f') := tick f in
  if hit then (cs, f', E_IO) else (d_clear cs pd t, f', E_OK).

(* closeErrTract: close if opened; the first error wins *)
Definition x_close_if (cs : cstore) (f : fault) (opd : option N) (t : tract) (err : Z) : cstore * fault * Z :=
  match opd with
  | None => (cs, f, err)
  | Some pd => let '(cs1, f1, ce) := x_close cs f pd t in (cs1, f1, if (err =? E_OK)%Z then ce else err)
  end.

(* lookup + Open of an existing tract: the disk it was opened on, if it was *)
Definition x_open_existing (cs : cstore) (f : fault) (t : tract) : cstore * fault * option N * Z :=
  match lookup (vs cs) t with
  | None => (cs, f, None, E_NoSuchTract)
  | Some (slot, _) =>
      match disk_of (vs cs) slot with
      | None => (cs, f, None, E_PANIC)
      | Some pd => let '(cs1, f1, e) := x_open cs f pd t false in
                   (cs1, f1, if (e =? E_OK)%Z then Some pd else None, e)
      end
  end.

(* errTract.getVersion on an opened file *)
Definition getver (cs : cstore) (pd : N) (t : tract) : Z + Z :=
  match copy (vs cs) pd t with
  | Some fl => match f_ver fl with Some v => inl v | None => inr (E_nover (vs cs)) end
  | None => inr E_PANIC
  end.

(* ---------- operations ---------- *)
Definition x_do_write (cs : cstore) (f : fault) (t : tract) (v : Z) (d : rle) (off : N) : cstore * fault * Z :=
  let cs0 := with_vs cs (bump_stamp (vs cs) t) in
  let '(cs1, f1, opd, e) := x_open_existing cs0 f t in
  match opd with
  | None => (cs1, f1, e)
  | Some pd =>
      let e1 := match getver cs1 pd t with
                | inl cur => if (v =? cur)%Z then E_OK else E_VersionMismatch
                | inr er => er end in
      let '(cs2, f2, e2) := if (e1 =? E_OK)%Z then x_write cs1 f1 pd t d off else (cs1, f1, e1) in
      x_close_if cs2 f2 (Some pd) t e2
  end.

Definition x_read (cs : cstore) (f : fault) (t : tract) (v : Z) (len off : N) : cstore * fault * (Z * rle) :=
  let '(cs1, f1, opd, e) := x_open_existing cs f t in
  match opd with
  | None => (cs1, f1, (e, []))
  | Some pd =>
      let e1 := match getver cs1 pd t with
                | inl cur => if (v =? cur)%Z then E_OK else E_VersionMismatch
                | inr er => er end in
      let b := match copy (vs cs1) pd t with Some fl => rle_read (f_data fl) off len | None => [] end in
      let '(cs2, f2, e2) := x_close_if cs1 f1 (Some pd) t e1 in
      (cs2, f2, if (e2 =? E_OK)%Z then (if rle_len b =? len then E_OK else E_EOF, b) else (e2, []))
  end.

Definition x_stat (cs : cstore) (f : fault) (t : tract) (v : Z) : cstore * fault * (Z * N * option stamp) :=
  match lookup (vs cs) t with
  | None => (cs, f, (E_NoSuchTract, 0, None))
  | Some (_, st) =>
      let '(cs1, f1, opd, e) := x_open_existing cs f t in
      match opd with
      | None => (cs1, f1, (e, 0, Some st))
      | Some pd =>
          let e1 := match getver cs1 pd t with
                    | inl cur => if (v =? cur)%Z then E_OK else E_VersionMismatch
                    | inr er => er end in
          let sz := if (e1 =? E_OK)%Z
                    then match copy (vs cs1) pd t with Some fl => rle_len (f_data fl) | None => 0 end
                    else 0 in
          let '(cs2, f2, e2) := x_close_if cs1 f1 (Some pd) t e1 in
          (cs2, f2, (e2, sz, Some st))      (* the size was taken before the close *)
      end
  end.

Definition x_set_version (cs : cstore) (f : fault) (t : tract) (v : Z) (cond : option stamp)
  : cstore * fault * (Z * Z) :=
  if (v <=? 1)%Z then (cs, f, (E_BadVersion, 0%Z))
  else
    let cur_stamp := match lookup (vs cs) t with Some (_, st) => Some st | None => None end in
    let stale := match cond with
                 | None => false
                 | Some c => match cur_stamp with
                             | Some st => negb (stamp_eqb c st)
                             | None => true
                             end
                 end in
    let '(cs1, f1, opd, e) := x_open_existing cs f t in
    if stale then
      let '(cs2, f2, _) := x_close_if cs1 f1 opd t e in (cs2, f2, (E_StampChanged, 0%Z))
    else
      match opd with
      | None => (cs1, f1, (e, v))
      | Some pd =>
          let '(cs2, f2, e2) :=
            match getver cs1 pd t with
            | inr er => (cs1, f1, er)
            | inl cur => if (v <=? cur)%Z then (cs1, f1, E_OK)
                         else if (cur + 1 =? v)%Z then x_setxattr cs1 f1 pd t v
                         else (cs1, f1, E_VersionMismatch)
            end in
          let '(cs3, f3, e3) := x_close_if cs2 f2 (Some pd) t e2 in
          (cs3, f3, (e3, v))
      end.

(* removeTract: disk.Delete is durable at once; no faultable call *)
Definition x_remove_tract (cs : cstore) (t : tract) : cstore * Z :=
  let '(s', e) := remove_tract (vs cs) t in (prune (with_vs cs s'), e).

(* pickDiskForNewTract.  When a create fails because of the injected fault the harness cannot see which disk
   was picked (nothing is left on it) and passes no oracle: the outcome does not depend on the choice, so
   while a fault is still armed an unusable oracle falls back to the first disk that can allocate. *)
Definition x_pick (s : store) (f : fault) (orc : N) : (N * N) + Z :=
  match pick s orc, f with
  | inr e, Some _ =>
      if (e =? E_BADORACLE)%Z then
        match find (fun i => match get i (slots s) with Some p => can_alloc s p | None => false end)
                   (keys (slots s)) with
        | Some i => match get i (slots s) with Some p => inl (i, p) | None => inr E_NoSpace end
        | None => inr E_NoSpace
        end
      else inr e
  | r, _ => r
  end.

(* doCreate.  Disk calls on the new file in order: Open(O_CREATE|O_EXCL), Setxattr(version), Write, Close;
   a call is skipped once an error is pending, Close always runs on an opened handle and the first error
   wins.  If all four succeed the new file (synced by the Close) enters the table.  Otherwise whatever
   was created - nothing, an empty file without version, a version-stamped partial file - is removed again
   by disk.Delete(id): the state is the state before (minus a stray file of that name on the picked disk,
   which the O_EXCL open reports as AlreadyExists and the cleanup then deletes). *)
Definition x_do_create (cs : cstore) (f : fault) (t : tract) (ver : Z) (d : rle) (off : N) (orc : N)
  : cstore * fault * Z :=
  match lookup (vs cs) t with
  | Some _ => (cs, f, E_AlreadyExists)
  | None =>
      match x_pick (vs cs) f orc with
      | inr e => (cs, f, e)
      | inl (slot, pd) =>
          let '(h1, f1) := tick f in                                             (* Open *)
          match copy (vs cs) pd t with
          | Some _ => (prune (with_vs cs (del_file (vs cs) pd t)), f1, if h1 then E_IO else E_AlreadyExists)
          | None =>
              if h1 then (cs, f1, E_IO)
              else
                let '(h2, f2) := tick f1 in                                      (* Setxattr *)
                if h2 then (cs, snd (tick f2), E_IO)                             (* + Close *)
                else
                  let '(h3, f3) := tick f2 in                                    (* Write *)
                  if h3 then (cs, snd (tick f3), E_NoSpace)                      (* + Close *)
                  else
                    let '(h4, f4) := tick f3 in                                  (* Close *)
                    if h4 then (cs, f4, E_IO)
                    else
                      let s1 := put_file (vs cs) pd t (mkfile (Some ver) (rle_write [] d off)) in
                      (with_vs cs (set_table s1 (put t (slot, stamp0 (vs cs)) (table s1))), f4, E_OK)
          end
      end
  end.

Definition x_create (cs : cstore) (f : fault) (t : tract) (d : rle) (off : N) (orc : N) : cstore * fault * Z :=
  let '(cs1, f1, e) := x_do_create cs f t (initial_version t) d off orc in
  if (e =? E_AlreadyExists)%Z then x_do_write cs1 f1 t (initial_version t) d off else (cs1, f1, e).

Definition x_pull_pre (cs : cstore) (f : fault) (t : tract) (v : Z) : cstore * fault * option Z :=
  match lookup (vs cs) t with
  | None => (cs, f, None)
  | Some (slot, _) =>
      match disk_of (vs cs) slot with
      | None => (cs, f, Some E_PANIC)
      | Some pd =>
          let '(cs1, f1, e) := x_open cs f pd t false in
          let opened := (e =? E_OK)%Z in
          let gv := if opened then getver cs1 pd t else inr e in
          let e1 := match gv with inl _ => E_OK | inr er => er end in
          let '(cs2, f2, e2) := x_close_if cs1 f1 (if opened then Some pd else None) t e1 in
          let newer := match gv with inl cur => (e2 =? E_OK)%Z && (v <? cur)%Z | inr _ => false end in
          if newer then (cs2, f2, Some E_InvalidState)
          else let '(cs3, e3) := x_remove_tract cs2 t in
               (cs3, f2, if (e3 =? E_OK)%Z then None else Some e3)
      end
  end.

Definition x_pull_once (cs : cstore) (f : fault) (t : tract) (reply : Z * rle) (v : Z) (orc : N)
  : cstore * fault * Z :=
  let '(cs1, f1, r) := x_pull_pre cs f t v in
  match r with
  | Some e => (cs1, f1, e)
  | None =>
      let '(re, data) := reply in
      if negb (re =? E_OK)%Z && negb (re =? E_EOF)%Z then (cs1, f1, re)
      else let '(cs2, f2, ce) := x_do_create cs1 f1 t v data 0 orc in
           if (ce =? E_OK)%Z then (cs2, f2, E_OK) else (fst (x_remove_tract cs2 t), f2, ce)
  end.

Fixpoint x_pull_all (cs : cstore) (f : fault) (t : tract) (srcs : list (Z * rle)) (v : Z) (orc : N) (last : Z)
  : cstore * fault * Z :=
  match srcs with
  | [] => (cs, f, last)
  | r :: rest =>
      let '(cs1, f1, e) := x_pull_once cs f t r v orc in
      if (e =? E_OK)%Z then (cs1, f1, E_OK) else x_pull_all cs1 f1 t rest v orc e
  end.

(* open + getVersion + close of a served tract (maybeGCTract, Check): the version, or the error *)
Definition x_probe (cs : cstore) (f : fault) (t : tract) : cstore * fault * (Z + Z) :=
  let '(cs1, f1, opd, e) := x_open_existing cs f t in
  match opd with
  | None => (cs1, f1, inr e)
  | Some pd =>
      let gv := getver cs1 pd t in
      let e1 := match gv with inl _ => E_OK | inr er => er end in
      let '(cs2, f2, e2) := x_close_if cs1 f1 (Some pd) t e1 in
      (cs2, f2, if (e2 =? E_OK)%Z then gv else inr e2)
  end.

Definition x_maybe_gc (acc : cstore * fault) (tv : tract * Z) : cstore * fault :=
  let '(cs, f) := acc in
  let '(cs1, f1, r) := x_probe cs f (fst tv) in
  match r with
  | inr _ => (cs1, f1)
  | inl cur => if (snd tv <? cur)%Z then (cs1, f1) else (fst (x_remove_tract cs1 (fst tv)), f1)
  end.

Definition x_gc (cs : cstore) (f : fault) (old : list (tract * Z)) (gone : list tract) : cstore * fault :=
  let '(cs1, f1) := fold_left x_maybe_gc old (cs, f) in
  (fold_left (fun c t => fst (x_remove_tract c t)) gone cs1, f1).

Fixpoint x_check (cs : cstore) (f : fault) (ts : list (tract * Z)) : cstore * fault * list (tract * Z) :=
  match ts with
  | [] => (cs, f, [])
  | tv :: rest =>
      let '(cs1, f1, r) := x_probe cs f (fst tv) in
      let '(cs2, f2, m) := x_check cs1 f1 rest in
      let miss := match r with inr _ => true | inl cur => (cur <? snd tv)%Z end in
      (cs2, f2, if miss then tv :: m else m)
  end.

(* AddDisk (never faulted here): resolveConflicts opens, reads and closes both copies of every conflict
   (a successful Close syncs), then deletes the loser(s) *)
Definition x_add_disk (cs : cstore) (pd : N) : cstore * Z :=
  let '(s', e) := add_disk (vs cs) pd in
  if (e =? E_OK)%Z then
    let cfl := match free_slot (vs cs) with
               | Some i => conflicts_of (vs cs) i pd (tids_of (files_of (vs cs) pd))
               | None => [] end in
    let d' := fold_left (fun d c => let '(t, _, _, pd1, pd2) := c in
                                    filter (fun e => negb (key_eqb pd1 t e) && negb (key_eqb pd2 t e)) d)
                        cfl (dirty cs) in
    (prune (mkc s' d'), e)
  else (cs, e).

(* power loss: every unsynced update is gone, the process restarts with no disk attached *)
Definition restore (s : store) (e : N * N * option file) : store :=
  match snd e with
  | Some fl => put_file s (fst (fst e)) (snd (fst e)) fl
  | None => del_file s (fst (fst e)) (snd (fst e))
  end.
Definition power_loss (cs : cstore) : cstore := mkc (restart (fold_left restore (dirty cs) (vs cs))) [].

(* one operation of the alphabet of Store/Model.v with fault [f] armed *)
Definition x_step (cs : cstore) (f : fault) (o : op) : cstore * res :=
  match o with
  | Create t d off orc => let '(cs', _, e) := x_create cs f t d off orc in (cs', RErr e)
  | Write t v d off => let '(cs', _, e) := x_do_write cs f t v d off in (cs', RErr e)
  | Read t v len off => let '(cs', _, (e, b)) := x_read cs f t v len off in (cs', RRead e b)
  | Stat t v => let '(cs', _, (e, sz, st)) := x_stat cs f t v in (cs', RStat e sz st)
  | SetVersion t v c => let '(cs', _, (e, fv)) := x_set_version cs f t v c in (cs', RSetV e fv)
  | PullTract t srcs v orc => let '(cs', _, e) := x_pull_all cs f t srcs v orc E_OK in (cs', RErr e)
  | GCTracts old gone => (fst (x_gc cs f old gone), RUnit)
  | Check ts => let '(cs', _, m) := x_check cs f ts in (cs', RCheck m)
  | Restart => (with_vs cs (restart (vs cs)), RUnit)
  | AddDisk pd => let '(cs', e) := x_add_disk cs pd in (cs', RErr e)
  | RemoveDisk pd => let '(s', e) := remove_disk (vs cs) pd in (with_vs cs s', RErr e)
  | SetAlloc pd stop => let '(s', e) := set_alloc (vs cs) pd stop in (with_vs cs s', RErr e)
  end.

(* histories of the double: operations with any fault position, and power losses *)
Inductive xop := XOp (f : fault) (o : op) | XPowerLoss.
Definition xstep (cs : cstore) (x : xop) : cstore :=
  match x with XOp f o => fst (x_step cs f o) | XPowerLoss => power_loss cs end.
Definition xrun (cs : cstore) (xs : list xop) : cstore := fold_left xstep xs cs.
