(* Store/CrashProofs.v — facts about the disk-call-level model with faults and power loss (Store/Crash.v). *)
From Coq Require Import List NArith ZArith Bool Lia.
From BLB Require Import Gen.Consts Store.Bytes Store.MapProofs Store.Model Store.Proofs Store.WF Store.Conflict
     Store.Crash.
Import ListNotations.
Open Scope N_scope.

Lemma fail_IO : is_fail E_IO.
Proof. split; unfold E_IO, st_IO; ecodes; discriminate. Qed.

(* ---------- dirty bookkeeping ---------- *)
Lemma d_find_clear : forall cs pd t, d_find pd t (dirty (d_clear cs pd t)) = None.
Proof.
  intros. unfold d_find, d_clear. simpl.
  assert (H : filter (key_eqb pd t) (filter (fun e => negb (key_eqb pd t e)) (dirty cs)) = []).
  { induction (dirty cs) as [|e l IH]; simpl; [reflexivity|].
    destruct (key_eqb pd t e) eqn:K; simpl; [exact IH|]. now rewrite K. }
  now rewrite H.
Qed.

Lemma d_find_none_all : forall pd t l, d_find pd t l = None -> forall e, In e l -> key_eqb pd t e = false.
Proof.
  intros pd t l H e Hin. unfold d_find in H.
  destruct (key_eqb pd t e) eqn:K; [|reflexivity].
  assert (In e (filter (key_eqb pd t) l)) by (apply filter_In; auto).
  destruct (filter (key_eqb pd t) l); [contradiction|discriminate].
Qed.

Lemma copy_restore_other : forall s e pd t,
    key_eqb pd t e = false -> copy (restore s e) pd t = copy s pd t.
Proof.
  intros s [[p t0] img] pd t K. unfold key_eqb in K. simpl in K. unfold restore. simpl.
  destruct img as [fl|].
  - rewrite copy_put_file. rewrite (N.eqb_sym pd p), (N.eqb_sym t t0), K. reflexivity.
  - rewrite copy_del_file. rewrite (N.eqb_sym pd p), (N.eqb_sym t t0), K. reflexivity.
Qed.

(* a file with nothing pending is not touched by a power loss *)
Lemma power_loss_keeps_synced : forall cs pd t,
    d_find pd t (dirty cs) = None -> copy (vs (power_loss cs)) pd t = copy (vs cs) pd t.
Proof.
  intros cs pd t H. unfold power_loss. simpl.
  change (copy (restart (fold_left restore (dirty cs) (vs cs))) pd t)
    with (copy (fold_left restore (dirty cs) (vs cs)) pd t).
  pose proof (d_find_none_all pd t _ H) as A. clear H.
  revert A. generalize (vs cs). induction (dirty cs) as [|e l IH]; intros s A; simpl; [reflexivity|].
  rewrite IH by (intros; apply A; now right).
  apply copy_restore_other. apply A. now left.
Qed.

(* ---------- an acknowledged bump is on stable storage ---------- *)
Lemma x_open_existing_served : forall cs f t pd fl,
    open_existing (vs cs) t = Op_ok pd fl ->
    x_open_existing cs f t =
    (if fst (tick f) then (cs, snd (tick f), None, E_IO) else (cs, snd (tick f), Some pd, E_OK)).
Proof.
  intros cs f t pd fl H. apply open_existing_ok in H. destruct H as (slot & st & L & D & C).
  unfold x_open_existing, x_open. rewrite L, D. destruct (tick f) as [hit f'] eqn:T. simpl.
  destruct hit.
  - assert (X : (E_IO =? E_OK)%Z = false) by (apply Z.eqb_neq; apply fail_IO). now rewrite X.
  - rewrite C. reflexivity.
Qed.

(* a result tuple claiming E_OK where the computation produced an error code *)
Ltac absurd_res H :=
  exfalso; inversion H;
  try match goal with
      | X : _ = E_OK |- _ =>
          revert X; ecodes; unfold E_IO, st_IO; try (match goal with |- context [mgr ?s] => destruct (mgr s) end);
          discriminate
      end.

Theorem acked_bump_synced : forall cs f t v cond cs' f' rv pd fl,
    open_existing (vs cs) t = Op_ok pd fl ->
    x_set_version cs f t v cond = (cs', f', (E_OK, rv)) ->
    d_find pd t (dirty cs') = None /\
    exists c', copy (vs cs') pd t = Some (mkfile (Some c') (f_data fl)) /\ (v <= c')%Z /\
               (f_ver fl = Some c' \/ (f_ver fl = Some (c' - 1)%Z /\ c' = v)).
Proof.
  intros cs f t v cond cs' f' rv pd fl HO H.
  pose proof HO as HO'. apply open_existing_ok in HO'. destruct HO' as (slot & st & L & D & C).
  unfold x_set_version in H.
  destruct (v <=? 1)%Z; [absurd_res H|].
  rewrite (x_open_existing_served cs f t pd fl HO) in H.
  destruct (tick f) as [hit f1] eqn:T. simpl in H.
  set (stale := match cond with
                | Some c => match match lookup (vs cs) t with Some (_, st0) => Some st0 | None => None end with
                            | Some st0 => negb (stamp_eqb c st0) | None => true end
                | None => false end) in H.
  destruct hit; simpl in H; [destruct stale; simpl in H; absurd_res H|].
  destruct stale.
  { unfold x_close_if, x_close in H. destruct (tick f1) as [h2 f2]. destruct h2; absurd_res H. }
  unfold getver in H. rewrite C in H.
  assert (XIO : (E_IO =? E_OK)%Z = false) by (apply Z.eqb_neq; apply fail_IO).
  destruct (f_ver fl) as [cur|] eqn:V.
  - destruct (v <=? cur)%Z eqn:L1.
    + (* already there: the close (fsync) must have succeeded *)
      unfold x_close_if, x_close in H. destruct (tick f1) as [h2 f2]. destruct h2; simpl in H; [absurd_res H|].
      pose proof (f_equal (fun x => fst (fst x)) H) as E; simpl in E; subst cs'.
      split; [apply d_find_clear|].
      exists cur. apply Z.leb_le in L1. simpl. rewrite C. destruct fl as [fv fd]. simpl in *. subst fv. auto.
    + destruct (cur + 1 =? v)%Z eqn:L2.
      * apply Z.eqb_eq in L2. unfold x_setxattr in H. destruct (tick f1) as [h2 f2]. destruct h2.
        -- unfold x_close_if, x_close in H. destruct (tick f2) as [h3 f3].
           destruct h3; rewrite XIO in H; absurd_res H.
        -- rewrite C in H. unfold x_close_if, x_close in H. destruct (tick f2) as [h3 f3].
           destruct h3; simpl in H; [absurd_res H|].
           pose proof (f_equal (fun x => fst (fst x)) H) as E; simpl in E; subst cs'.
           split; [apply d_find_clear|].
           exists (cur + 1)%Z. rewrite L2. split; [|split; [lia|right; split; [f_equal; lia|reflexivity]]].
           simpl. unfold d_mark. destruct (d_find pd t (dirty cs)); simpl;
             rewrite copy_put_file, !N.eqb_refl; reflexivity.
      * unfold x_close_if, x_close in H. destruct (tick f1) as [h2 f2].
        assert (X : (E_VersionMismatch =? E_OK)%Z = false) by (ecodes; reflexivity).
        destruct h2; rewrite X in H; absurd_res H.
  - unfold x_close_if, x_close in H. destruct (tick f1) as [h2 f2].
    assert (X : (E_nover (vs cs) =? E_OK)%Z = false) by (apply Z.eqb_neq; apply fail_nover).
    destruct h2; rewrite X in H; absurd_res H.
Qed.

(* ---------- with no fault armed the visible state is exactly the sequential model ---------- *)
Lemma eqb_ok_id : forall e, (if (e =? E_OK)%Z then E_OK else e) = e.
Proof. intros. destruct (e =? E_OK)%Z eqn:X; [apply Z.eqb_eq in X; congruence|reflexivity]. Qed.

Lemma vs_d_mark : forall cs pd t, vs (d_mark cs pd t) = vs cs.
Proof. intros. unfold d_mark. now destruct (d_find pd t (dirty cs)). Qed.

Lemma vs_d_mark_put : forall cs pd t fl, vs (d_clear (with_vs (d_mark cs pd t) (put_file (vs cs) pd t fl)) pd t) = put_file (vs cs) pd t fl.
Proof. reflexivity. Qed.

Lemma x_close_if_none : forall cs pd t err,
    x_close_if cs None (Some pd) t err = (d_clear cs pd t, None, err).
Proof. intros. unfold x_close_if, x_close. simpl. now rewrite eqb_ok_id. Qed.

Lemma x_open_existing_none : forall cs t,
    x_open_existing cs None t =
    match open_existing (vs cs) t with
    | Op_ok pd _ => (cs, None, Some pd, E_OK)
    | Op_err e => (cs, None, None, e)
    end.
Proof.
  intros. unfold x_open_existing, open_existing, x_open, copy.
  destruct (lookup (vs cs) t) as [[slot st]|]; [|reflexivity].
  destruct (disk_of (vs cs) slot) as [pd|]; [|reflexivity]. simpl.
  destruct (get t (files_of (vs cs) pd)); [reflexivity|].
  assert (X : (E_NoSuchTract =? E_OK)%Z = false) by (ecodes; reflexivity). now rewrite X.
Qed.

Lemma getver_open : forall cs t pd fl,
    open_existing (vs cs) t = Op_ok pd fl ->
    getver cs pd t = match f_ver fl with Some v => inl v | None => inr (E_nover (vs cs)) end.
Proof.
  intros cs t pd fl H. apply open_existing_ok in H. destruct H as (_ & _ & _ & _ & C).
  unfold getver. now rewrite C.
Qed.

Lemma x_do_write_none : forall cs t v d off,
    exists cs', x_do_write cs None t v d off = (cs', None, snd (do_write (vs cs) t v d off)) /\
                vs cs' = fst (do_write (vs cs) t v d off).
Proof.
  intros. unfold x_do_write, do_write, open_version.
  set (cs0 := with_vs cs (bump_stamp (vs cs) t)).
  rewrite (x_open_existing_none cs0 t). change (vs cs0) with (bump_stamp (vs cs) t).
  destruct (open_existing (bump_stamp (vs cs) t) t) as [pd fl|e] eqn:O; [|eexists; split; reflexivity].
  rewrite (getver_open cs0 t pd fl O).
  pose proof O as O'. apply open_existing_ok in O'. destruct O' as (_ & _ & _ & _ & C).
  destruct (f_ver fl) as [cur|] eqn:V.
  - destruct (v =? cur)%Z.
    + assert (X : (E_OK =? E_OK)%Z = true) by reflexivity. rewrite X.
      unfold x_write. simpl. change (vs cs0) with (bump_stamp (vs cs) t). rewrite C.
      eexists. split; [reflexivity|]. simpl. now rewrite V.
    + assert (X : (E_VersionMismatch =? E_OK)%Z = false) by (ecodes; reflexivity). rewrite X.
      rewrite x_close_if_none. eexists. split; reflexivity.
  - assert (X : (E_nover (vs cs0) =? E_OK)%Z = false) by (apply Z.eqb_neq; apply fail_nover). rewrite X.
    rewrite x_close_if_none. eexists. split; reflexivity.
Qed.

Lemma x_read_none : forall cs t v len off,
    exists cs', x_read cs None t v len off = (cs', None, read (vs cs) t v len off) /\ vs cs' = vs cs.
Proof.
  intros. unfold x_read, read, open_version. rewrite x_open_existing_none.
  destruct (open_existing (vs cs) t) as [pd fl|e] eqn:O; [|eexists; split; reflexivity].
  rewrite (getver_open cs t pd fl O).
  pose proof O as O'. apply open_existing_ok in O'. destruct O' as (_ & _ & _ & _ & C). rewrite C.
  rewrite x_close_if_none.
  destruct (f_ver fl) as [cur|] eqn:V.
  - destruct (v =? cur)%Z.
    + assert (X : (E_OK =? E_OK)%Z = true) by reflexivity. rewrite X. eexists. split; reflexivity.
    + assert (X : (E_VersionMismatch =? E_OK)%Z = false) by (ecodes; reflexivity). rewrite X.
      eexists. split; reflexivity.
  - assert (X : (E_nover (vs cs) =? E_OK)%Z = false) by (apply Z.eqb_neq; apply fail_nover). rewrite X.
    eexists. split; reflexivity.
Qed.

Lemma x_stat_none : forall cs t v,
    exists cs', x_stat cs None t v = (cs', None, stat (vs cs) t v) /\ vs cs' = vs cs.
Proof.
  intros. unfold x_stat, stat, open_version.
  destruct (lookup (vs cs) t) as [[slot st]|] eqn:L; [|eexists; split; reflexivity].
  rewrite x_open_existing_none.
  destruct (open_existing (vs cs) t) as [pd fl|e] eqn:O; [|eexists; split; reflexivity].
  rewrite (getver_open cs t pd fl O).
  pose proof O as O'. apply open_existing_ok in O'. destruct O' as (_ & _ & _ & _ & C). rewrite C.
  rewrite x_close_if_none.
  destruct (f_ver fl) as [cur|] eqn:V.
  - destruct (v =? cur)%Z.
    + assert (X : (E_OK =? E_OK)%Z = true) by reflexivity. rewrite X. eexists. split; reflexivity.
    + assert (X : (E_VersionMismatch =? E_OK)%Z = false) by (ecodes; reflexivity). rewrite X.
      eexists. split; reflexivity.
  - assert (X : (E_nover (vs cs) =? E_OK)%Z = false) by (apply Z.eqb_neq; apply fail_nover). rewrite X.
    eexists. split; reflexivity.
Qed.

Lemma x_set_version_none : forall cs t v c,
    exists cs', x_set_version cs None t v c = (cs', None, snd (set_version (vs cs) t v c)) /\
                vs cs' = fst (set_version (vs cs) t v c).
Proof.
  intros. unfold x_set_version, set_version, open_version.
  destruct (v <=? 1)%Z; [eexists; split; reflexivity|].
  rewrite x_open_existing_none.
  match goal with |- context [if ?b then (vs cs, (E_StampChanged, _)) else _] => destruct b end.
  - destruct (open_existing (vs cs) t) as [pd fl|e]; eexists; split; reflexivity.
  - destruct (open_existing (vs cs) t) as [pd fl|e] eqn:O; [|eexists; split; reflexivity].
    rewrite (getver_open cs t pd fl O).
    pose proof O as O'. apply open_existing_ok in O'. destruct O' as (_ & _ & _ & _ & C).
    destruct (f_ver fl) as [cur|] eqn:V.
    + destruct (v <=? cur)%Z; [rewrite x_close_if_none; eexists; split; reflexivity|].
      destruct (cur + 1 =? v)%Z.
      * unfold x_setxattr. simpl. rewrite C. eexists. split; [reflexivity|]. reflexivity.
      * rewrite x_close_if_none. eexists. split; reflexivity.
    + rewrite x_close_if_none. eexists. split; reflexivity.
Qed.

Lemma put_file_put_file : forall s pd t f g, put_file (put_file s pd t f) pd t g = put_file s pd t g.
Proof.
  intros. unfold put_file, set_files, files_of. simpl. rewrite get_put_eq, !put_put. reflexivity.
Qed.

Lemma x_remove_tract_none : forall cs t,
    vs (fst (x_remove_tract cs t)) = fst (remove_tract (vs cs) t) /\
    snd (x_remove_tract cs t) = snd (remove_tract (vs cs) t).
Proof. intros. unfold x_remove_tract. now destruct (remove_tract (vs cs) t). Qed.

Lemma x_pick_none : forall s orc, x_pick s None orc = pick s orc.
Proof. intros. unfold x_pick. now destruct (pick s orc). Qed.

Lemma x_do_create_none : forall cs t ver d off orc,
    exists cs', x_do_create cs None t ver d off orc = (cs', None, snd (do_create (vs cs) t ver d off orc)) /\
                vs cs' = fst (do_create (vs cs) t ver d off orc).
Proof.
  intros. unfold x_do_create, do_create. rewrite x_pick_none.
  destruct (lookup (vs cs) t) as [[? ?]|]; [eexists; split; reflexivity|].
  destruct (pick (vs cs) orc) as [[slot pd]|e]; [|eexists; split; reflexivity].
  unfold copy. cbn [tick].
  destruct (get t (files_of (vs cs) pd)) as [fl|] eqn:C; eexists; split; reflexivity.
Qed.

Lemma x_create_none : forall cs t d off orc,
    exists cs', x_create cs None t d off orc = (cs', None, snd (create (vs cs) t d off orc)) /\
                vs cs' = fst (create (vs cs) t d off orc).
Proof.
  intros. unfold x_create, create.
  destruct (x_do_create_none cs t (initial_version t) d off orc) as (cs1 & E & V). rewrite E.
  destruct (do_create (vs cs) t (initial_version t) d off orc) as [s1 e]. simpl in *.
  destruct (e =? E_AlreadyExists)%Z; [|eexists; split; [reflexivity|exact V]].
  destruct (x_do_write_none cs1 t (initial_version t) d off) as (cs2 & E2 & V2). rewrite E2.
  rewrite V in *. exists cs2. split; [reflexivity|exact V2].
Qed.

Lemma x_pull_pre_none : forall cs t v,
    exists cs', x_pull_pre cs None t v = (cs', None, snd (pull_pre (vs cs) t v)) /\
                vs cs' = fst (pull_pre (vs cs) t v).
Proof.
  intros. unfold x_pull_pre, pull_pre, open_existing.
  destruct (lookup (vs cs) t) as [[slot st]|]; [|eexists; split; reflexivity].
  destruct (disk_of (vs cs) slot) as [pd|].
  2:{ assert (X : (E_PANIC =? E_PANIC)%Z = true) by reflexivity. rewrite X. eexists. split; reflexivity. }
  unfold x_open. cbn [tick].
  assert (RM : forall c0, vs c0 = vs cs ->
               exists cs', (let '(cs3, e3) := x_remove_tract c0 t in
                            (cs3, @None nat, if (e3 =? E_OK)%Z then None else Some e3)) =
                           (cs', None, snd (let '(s', e') := remove_tract (vs cs) t in
                                            (s', if (e' =? E_OK)%Z then None else Some e'))) /\
                           vs cs' = fst (let '(s', e') := remove_tract (vs cs) t in
                                         (s', if (e' =? E_OK)%Z then None else Some e'))).
  { intros c0 Hc. destruct (x_remove_tract_none c0 t) as [A B]. rewrite Hc in A, B.
    destruct (x_remove_tract c0 t) as [c3 e3]. destruct (remove_tract (vs cs) t) as [s' e']. simpl in *.
    subst. eexists. split; reflexivity. }
  unfold getver, copy.
  destruct (get t (files_of (vs cs) pd)) as [fl|] eqn:C.
  - change (E_OK =? E_OK)%Z with true. cbv beta iota. rewrite C.
    destruct (f_ver fl) as [cur|].
    + rewrite x_close_if_none. change (E_OK =? E_OK)%Z with true. cbn [andb].
      destruct (v <? cur)%Z; [eexists; split; reflexivity|]. apply RM. reflexivity.
    + rewrite x_close_if_none. apply RM. reflexivity.
  - change (E_NoSuchTract =? E_OK)%Z with false. change (E_NoSuchTract =? E_PANIC)%Z with false.
    cbv beta iota. cbn [x_close_if]. apply RM. reflexivity.
Qed.

Lemma x_pull_once_none : forall cs t r v orc,
    exists cs', x_pull_once cs None t r v orc = (cs', None, snd (pull_once (vs cs) t r v orc)) /\
                vs cs' = fst (pull_once (vs cs) t r v orc).
Proof.
  intros cs t [re data] v orc. unfold x_pull_once, pull_once.
  destruct (x_pull_pre_none cs t v) as (cs1 & E & V). rewrite E.
  destruct (pull_pre (vs cs) t v) as [s1 [e|]]; simpl in *; [exists cs1; auto|].
  destruct (negb (re =? E_OK)%Z && negb (re =? E_EOF)%Z); [exists cs1; auto|].
  destruct (x_do_create_none cs1 t v data 0 orc) as (cs2 & E2 & V2). rewrite E2. rewrite V in *.
  destruct (do_create s1 t v data 0 orc) as [s2 ce]. simpl in *.
  destruct (ce =? E_OK)%Z; [exists cs2; auto|].
  destruct (x_remove_tract_none cs2 t) as [A _]. rewrite V2 in A.
  eexists. split; [reflexivity|exact A].
Qed.

Lemma x_pull_all_none : forall srcs cs t v orc last,
    exists cs', x_pull_all cs None t srcs v orc last = (cs', None, snd (pull_all (vs cs) t srcs v orc last)) /\
                vs cs' = fst (pull_all (vs cs) t srcs v orc last).
Proof.
  induction srcs as [|r rest IH]; intros; simpl; [exists cs; auto|].
  destruct (x_pull_once_none cs t r v orc) as (cs1 & E & V). rewrite E.
  destruct (pull_once (vs cs) t r v orc) as [s1 e]. simpl in *.
  destruct (e =? E_OK)%Z; [exists cs1; auto|].
  destruct (IH cs1 t v orc e) as (cs2 & E2 & V2). rewrite V in *. exists cs2. auto.
Qed.

(* open + getVersion + close without a fault: the sequential model's open_version *)
Lemma x_probe_none : forall cs t,
    exists cs', x_probe cs None t =
                (cs', None, match open_version (vs cs) t with V_ok _ _ c => inl c | V_err e => inr e end) /\
                vs cs' = vs cs.
Proof.
  intros. unfold x_probe, open_version. rewrite x_open_existing_none.
  destruct (open_existing (vs cs) t) as [pd fl|e] eqn:O; [|eexists; split; reflexivity].
  rewrite (getver_open cs t pd fl O). rewrite x_close_if_none.
  destruct (f_ver fl) as [cur|].
  - change (E_OK =? E_OK)%Z with true. eexists. split; reflexivity.
  - assert (X : (E_nover (vs cs) =? E_OK)%Z = false) by (apply Z.eqb_neq; apply fail_nover). rewrite X.
    eexists. split; reflexivity.
Qed.

Lemma x_maybe_gc_none : forall cs tv,
    exists cs', x_maybe_gc (@pair cstore fault cs None) tv = (@pair cstore fault cs' None) /\ vs cs' = maybe_gc (vs cs) tv.
Proof.
  intros cs tv. unfold x_maybe_gc, maybe_gc.
  destruct (x_probe_none cs (fst tv)) as (cs1 & E & V). rewrite E.
  destruct (open_version (vs cs) (fst tv)) as [pd fl c|e]; [|exists cs1; auto].
  destruct (snd tv <? c)%Z; [exists cs1; auto|].
  destruct (x_remove_tract_none cs1 (fst tv)) as [A _]. rewrite V in A. eexists. split; [reflexivity|exact A].
Qed.

Lemma x_gc_none : forall cs old gone,
    exists cs', x_gc cs None old gone = (cs', None) /\ vs cs' = gc_tracts (vs cs) old gone.
Proof.
  intros. unfold x_gc, gc_tracts.
  assert (H1 : forall l c, exists c', fold_left x_maybe_gc l (@pair cstore fault c None) = (@pair cstore fault c' None) /\
                                      vs c' = fold_left maybe_gc l (vs c)).
  { induction l as [|x l IH]; intros c; cbn [fold_left]; [exists c; auto|].
    destruct (x_maybe_gc_none c x) as (c1 & E & V). rewrite E.
    destruct (IH c1) as (c2 & E2 & V2). rewrite V in V2. exists c2. auto. }
  destruct (H1 old cs) as (c1 & E & V). rewrite E, <- V.
  assert (H2 : forall l c, vs (fold_left (fun c0 t => fst (x_remove_tract c0 t)) l c) =
                           fold_left (fun s t => fst (remove_tract s t)) l (vs c)).
  { induction l as [|x l IH]; intros c; cbn [fold_left]; [reflexivity|].
    rewrite IH. now destruct (x_remove_tract_none c x) as [-> _]. }
  eexists. split; [reflexivity|apply H2].
Qed.

Lemma x_check_none : forall ts cs,
    exists cs', x_check cs None ts = (cs', None, check (vs cs) ts) /\ vs cs' = vs cs.
Proof.
  induction ts as [|tv rest IH]; intros cs; simpl; [exists cs; auto|].
  destruct (x_probe_none cs (fst tv)) as (cs1 & E & V). rewrite E.
  destruct (IH cs1) as (cs2 & E2 & V2). rewrite E2. rewrite V in *.
  exists cs2. split; [|exact V2].
  destruct (open_version (vs cs) (fst tv)) as [pd fl c|e]; [destruct (c <? snd tv)%Z|]; reflexivity.
Qed.

Lemma add_disk_fail_same_x : forall s pd, snd (add_disk s pd) <> E_OK -> s = fst (add_disk s pd).
Proof.
  intros s pd H. unfold add_disk in *. destruct (slot_of s pd); [reflexivity|].
  destruct (free_slot s); [|reflexivity]. destruct (dangling s _); [reflexivity|]. simpl in H. congruence.
Qed.

Lemma x_add_disk_vs : forall cs pd,
    vs (fst (x_add_disk cs pd)) = fst (add_disk (vs cs) pd) /\ snd (x_add_disk cs pd) = snd (add_disk (vs cs) pd).
Proof.
  intros. unfold x_add_disk. pose proof (add_disk_fail_same_x (vs cs) pd) as F.
  destruct (add_disk (vs cs) pd) as [s' e]. simpl in *.
  destruct (e =? E_OK)%Z eqn:X; simpl; [auto|].
  apply Z.eqb_neq in X. split; [now apply F|reflexivity].
Qed.

(* an operation issued with no fault: result and visible state are those of Store/Model.v's [step] *)
Theorem x_step_nofault : forall cs o,
    vs (fst (x_step cs None o)) = fst (step (vs cs) o) /\ snd (x_step cs None o) = snd (step (vs cs) o).
Proof.
  intros cs o. destruct o; simpl.
  - destruct (x_create_none cs t data off orc) as (c & E & V). rewrite E.
    destruct (create (vs cs) t data off orc). simpl in *. auto.
  - destruct (x_do_write_none cs t v data off) as (c & E & V). rewrite E.
    destruct (do_write (vs cs) t v data off). simpl in *. auto.
  - destruct (x_read_none cs t v len off) as (c & E & V). rewrite E.
    destruct (read (vs cs) t v len off). simpl. auto.
  - destruct (x_stat_none cs t v) as (c & E & V). rewrite E.
    destruct (stat (vs cs) t v) as [[? ?] ?]. simpl. auto.
  - destruct (x_set_version_none cs t v cond) as (c & E & V). rewrite E.
    destruct (set_version (vs cs) t v cond) as [? [? ?]]. simpl in *. auto.
  - unfold pull_tract. destruct (x_pull_all_none srcs cs t v orc E_OK) as (c & E & V). rewrite E.
    destruct (pull_all (vs cs) t srcs v orc E_OK). simpl in *. auto.
  - destruct (x_gc_none cs old gone) as (c & E & V). rewrite E. simpl. auto.
  - destruct (x_check_none ts cs) as (c & E & V). rewrite E. simpl. auto.
  - auto.
  - destruct (x_add_disk_vs cs pd) as [A B]. destruct (x_add_disk cs pd). destruct (add_disk (vs cs) pd).
    simpl in *. subst. auto.
  - destruct (remove_disk (vs cs) pd). auto.
  - destruct (set_alloc (vs cs) pd stop). auto.
Qed.
