(* Meta/CuratorInv.v — structural invariants of the curator model that hold on every reachable state, for ALL
   command sequences: the partition table only gains entries and every blob lives in an existing partition
   (so the Fatalf of PutBlob is unreachable). Used by C10 (no_crash_on_api_commands) and C11. *)
From Coq Require Import List Arith NArith Bool Lia ZifyN ZifyNat ZifyBool.
From BLB Require Import Gen.Consts Meta.AMap Meta.Curator Meta.CuratorFacts.
Import ListNotations.
Open Scope N_scope.

Definition has {V} (k : N) (m : amap V) : Prop := aget k m <> None.

Definition parts_ok (d : dstate) : Prop :=
  forall id, has id (d_blobs d) -> has (blob_part id) (d_parts d).

(* shape of one step: partitions only gained, every new blob key lies in an existing partition *)
Definition step_shape (d d' : dstate) : Prop :=
  (forall p, has p (d_parts d) -> has p (d_parts d')) /\
  (forall id, has id (d_blobs d') -> has id (d_blobs d) \/ has (blob_part id) (d_parts d')).

Lemma step_shape_refl : forall d, step_shape d d.
Proof. intros; split; auto. Qed.

Lemma step_shape_trans : forall a b c, step_shape a b -> step_shape b c -> step_shape a c.
Proof.
  intros a b c [A1 A2] [B1 B2]. split; [auto|].
  intros id H. destruct (B2 id H) as [H1|H1]; [|auto]. destruct (A2 id H1); auto.
Qed.

Lemma step_shape_parts_ok : forall d d', step_shape d d' -> parts_ok d -> parts_ok d'.
Proof. intros d d' [A1 A2] P id H. destruct (A2 id H); auto. Qed.

Lemma has_aput : forall {V} k k2 (v : V) m, has k2 (aput k v m) <-> k2 = k \/ has k2 m.
Proof.
  intros. unfold has. rewrite aget_aput. destruct (k2 =? k) eqn:E.
  - apply N.eqb_eq in E. split; [auto|intros _; discriminate].
  - apply N.eqb_neq in E. split; [auto|intros [?|?]; [contradiction|auto]].
Qed.

Lemma has_adel : forall {V} k k2 (m : amap V), has k2 (adel k m) -> has k2 m.
Proof. intros V k k2 m. unfold has. rewrite aget_adel. destruct (k2 =? k); [congruence|auto]. Qed.

Lemma live_blob_has : forall d id b, live_blob d id = Some b -> has id (d_blobs d).
Proof. unfold live_blob, has; intros. destruct (aget id (d_blobs d)); [discriminate|discriminate H]. Qed.

Lemma put_blob_shape : forall d id b d', put_blob d id b = Some d' -> step_shape d d'.
Proof.
  unfold put_blob; intros. destruct (aget (blob_part id) (d_parts d)) eqn:E; [|discriminate]. inv H.
  split; cbn; [auto|]. intros id2 H. apply has_aput in H. destruct H as [->|H]; [right|left; exact H].
  unfold has. rewrite E. discriminate.
Qed.

Lemma same_parts_blobs_shape : forall d d', d_parts d' = d_parts d ->
  (forall id, has id (d_blobs d') -> has id (d_blobs d)) -> step_shape d d'.
Proof. intros d d' E H. split; [rewrite E; auto|auto]. Qed.

Lemma add_partition_shape : forall d p, step_shape d (fst (add_partition d p)).
Proof.
  intros. unfold add_partition. destruct (aget p (d_parts d)); cbn; [apply step_shape_refl|].
  split; cbn; [|auto]. intros q H. apply has_aput. auto.
Qed.

Lemma fold_shape : forall {A} (f : dstate -> A -> dstate) l d,
  (forall d x, step_shape d (f d x)) -> step_shape d (fold_left f l d).
Proof.
  induction l; intros; cbn; [apply step_shape_refl|].
  eapply step_shape_trans; [apply H|apply IHl; auto].
Qed.

Lemma finish_one_shape : forall d id, step_shape d (finish_one d id).
Proof.
  intros. apply same_parts_blobs_shape; [reflexivity|]. cbn. intros id2 H. eapply has_adel; eauto.
Qed.

Lemma update_one_shape : forall d u, step_shape d (update_one d u).
Proof.
  intros d [bid [m a]]. unfold update_one. destruct (live_blob d bid) eqn:E; [|apply step_shape_refl].
  apply same_parts_blobs_shape; [reflexivity|]. cbn. intros id H. apply has_aput in H.
  destruct H as [->|H]; [eapply live_blob_has; eauto|exact H].
Qed.

Lemma first_part_has : forall f ps k p, first_part f ps = Some (k, p) -> has k ps.
Proof.
  induction ps as [|[k' p'] r IH]; cbn; intros; [discriminate|].
  unfold has. cbn. destruct (f p'); [inv H; rewrite N.eqb_refl; discriminate|].
  destruct (k =? k'); [discriminate|]. eapply IH; eauto.
Qed.

(* the working copies of PutRSChunk only ever hold blobs that are live in the database *)
Lemma commit_loop_keys : forall d cid cls es upd upd',
  commit_loop d cid cls upd es = CROk upd' ->
  (forall k, has k upd -> has k (d_blobs d)) -> forall k, has k upd' -> has k (d_blobs d).
Proof.
  induction es as [|e es IH]; intros upd upd' H Hk; cbn [commit_loop] in H; [inv H; auto|].
  destruct (commit_one d cid cls upd e) as [upd1| |] eqn:E; try discriminate.
  eapply IH; eauto. intros k H1.
  unfold commit_one in E.
  destruct (aget (et_blob e) upd) eqn:E0.
  - repeat break_hyp E; inv E. apply has_aput in H1. destruct H1 as [->|H1]; [|auto].
    apply Hk. unfold has. rewrite E0. discriminate.
  - destruct (live_blob d (et_blob e)) eqn:E1; [|discriminate].
    repeat break_hyp E; inv E. apply has_aput in H1. destruct H1 as [->|H1]; [|auto].
    eapply live_blob_has; eauto.
Qed.

Lemma fold_aput_has : forall (upd : amap blob) (m : amap blob) k,
  has k (fold_left (fun acc kv => aput (fst kv) (build_blob (snd kv)) acc) upd m) ->
  has k m \/ has k upd.
Proof.
  induction upd as [|[k1 b1] upd IH]; intros m k H; cbn [fold_left] in H; [auto|].
  apply IH in H. destruct H as [H|H].
  - cbn [fst snd] in H. apply has_aput in H. destruct H as [->|H]; [right|auto].
    unfold has. cbn. rewrite N.eqb_refl. discriminate.
  - right. unfold has in *. cbn. destruct (k =? k1); [discriminate|exact H].
Qed.

Lemma apply_mut_shape : forall d c d' r, apply_mut d c = Some (d', r) -> step_shape d d'.
Proof.
  intros d c d' r H. destruct c; cbn [apply_mut] in H.
  - inv H; apply step_shape_refl.
  - inv H. break_goal; apply same_parts_blobs_shape; auto.
  - pose proof (add_partition_shape d p). destruct (add_partition d p). inv H. exact H0.
  - inv H. apply fold_shape. intros; apply add_partition_shape.
  - unfold do_create in H. repeat break_hyp H; try (inv H; apply step_shape_refl).
    inv H. eapply step_shape_trans; [|eapply put_blob_shape; exact Heqo0].
    split; cbn; [|auto]. intros q Hq. apply has_aput. auto.
  - unfold do_extend in H. repeat break_hyp H; inv H; try apply step_shape_refl. eapply put_blob_shape; eauto.
  - unfold do_delete in H. repeat break_hyp H; inv H; try apply step_shape_refl. eapply put_blob_shape; eauto.
  - unfold do_undelete in H. repeat break_hyp H; inv H; try apply step_shape_refl. eapply put_blob_shape; eauto.
  - unfold do_finish in H. inv H. apply fold_shape. intros; apply finish_one_shape.
  - unfold do_setmeta in H. repeat break_hyp H; inv H; try apply step_shape_refl. eapply put_blob_shape; eauto.
  - unfold do_change in H. repeat break_hyp H; inv H; try apply step_shape_refl.
    apply same_parts_blobs_shape; [reflexivity|]. cbn. intros id Hh. apply has_aput in Hh.
    destruct Hh as [->|Hh]; [eapply live_blob_has; eauto|exact Hh].
  - inv H. apply fold_shape. intros; apply update_one_shape.
  - unfold do_allocrs in H. repeat break_hyp H; inv H; try apply step_shape_refl.
    split; cbn; [|auto]. intros q Hq. apply has_aput. auto.
  - unfold do_commit, do_commit_unchecked in H. repeat break_hyp H; inv H; try apply step_shape_refl.
    apply same_parts_blobs_shape; [reflexivity|]. cbn. intros id Hh.
    apply fold_aput_has in Hh. destruct Hh as [Hh|Hh]; [exact Hh|].
    eapply commit_loop_keys; eauto. intros k Hk. exfalso. apply Hk. reflexivity.
  - unfold do_rshosts in H. repeat break_hyp H; inv H; try apply step_shape_refl.
    apply same_parts_blobs_shape; auto.
  - unfold do_updatesc in H. repeat break_hyp H; inv H; try apply step_shape_refl. eapply put_blob_shape; eauto.
  - inv H; apply step_shape_refl.
  - inv H; apply step_shape_refl.
Qed.

Lemma dapply_shape : forall d i c d' r, dapply d i c = Some (d', r) -> step_shape d d'.
Proof.
  intros d i c d' r H. unfold dapply in H. destruct (i <=? d_index d); [inv H; apply step_shape_refl|].
  assert (S0 : step_shape d (set_index d i)) by (apply same_parts_blobs_shape; auto).
  destruct c;
    try (destruct (d_ro (set_index d i)); [inv H; exact S0|];
         eapply step_shape_trans; [exact S0|eapply apply_mut_shape; exact H]);
    try (inv H; apply step_shape_refl).
  inv H. split; cbn; auto.
Qed.

Lemma parts_ok_init : parts_ok d_init.
Proof. intros id H. exfalso. apply H. reflexivity. Qed.

Lemma dapply_all_parts_ok : forall cs d d' r, dapply_all d cs = Some (d', r) -> parts_ok d -> parts_ok d'.
Proof.
  induction cs as [|[i c] cs IH]; intros d d' r H P; cbn [dapply_all] in H; [inv H; exact P|].
  destruct (dapply d i c) as [[d1 res]|] eqn:E; [|discriminate].
  destruct (dapply_all d1 cs) as [[d2 rs]|] eqn:E2; [|discriminate]. inv H.
  eapply IH; eauto. eapply step_shape_parts_ok; eauto. eapply dapply_shape; eauto.
Qed.

(* ---------- no crash ---------- *)

(* what the service's own code paths guarantee about a command, relative to the state it is applied to
   (DESIGN.md B.1): ChangeTract names an index GetTracts returned (tract lists only grow), storage classes are the
   enum's, VerifyChecksum carries the checksum this history computed at that index *)
Definition submittable_now (s : state) (c : cmd) : Prop :=
  match c with
  | CChangeTract bid idx _ _ => forall b, live_blob (fst s) bid = Some b -> idx < N.of_nat (length (b_tracts b))
  | CCommitRS _ cls _ _ => known_class cls = true
  | CUpdateSC _ cls => known_class cls = true
  | CVerify ix ck => v_ckidx (snd s) = ix -> v_ck (snd s) = ck
  | _ => True
  end.

Lemma put_blob_some : forall d id b, has (blob_part id) (d_parts d) -> put_blob d id b <> None.
Proof. unfold put_blob, has; intros. destruct (aget (blob_part id) (d_parts d)); [discriminate|contradiction]. Qed.

Lemma commit_loop_no_crash : forall d cid cls es upd, known_class cls = true -> commit_loop d cid cls upd es <> CRCrash.
Proof.
  induction es as [|e es IH]; intros upd Hk; cbn [commit_loop]; [discriminate|].
  destruct (commit_one d cid cls upd e) eqn:E; try discriminate; [apply IH; auto|].
  unfold commit_one in E. rewrite Hk in E. cbn [negb] in E. repeat break_hyp E; discriminate.
Qed.

(* NextBlobKey is a uint32 *)
Definition parts_wf (d : dstate) : Prop := Forall (fun kv : N * part => p_nextblob (snd kv) < two32) (d_parts d).

Lemma Forall_aput : forall {V} (P : N * V -> Prop) k v m, P (k, v) -> Forall P m -> Forall P (aput k v m).
Proof.
  induction m as [|[k' v'] r IH]; intros Hp Hm; cbn [aput]; [constructor; auto|].
  destruct (k <? k'); [constructor; auto|].
  destruct (k =? k'); [constructor; [auto|eapply Forall_inv_tail; eauto]|].
  constructor; [eapply Forall_inv; eauto|apply IH; auto; eapply Forall_inv_tail; eauto].
Qed.

Lemma first_part_In : forall f ps k p, first_part f ps = Some (k, p) -> In (k, p) ps.
Proof.
  induction ps as [|[k' p'] r IH]; cbn; intros; [discriminate|].
  destruct (f p'); [inv H; now left|right; eauto].
Qed.

Lemma put_blob_parts : forall d id b d', put_blob d id b = Some d' -> d_parts d' = d_parts d.
Proof. unfold put_blob; intros. break_hyp H; [inv H; reflexivity|discriminate]. Qed.

Lemma add_partition_wf : forall d p, parts_wf d -> parts_wf (fst (add_partition d p)).
Proof.
  intros. unfold add_partition. destruct (aget p (d_parts d)); cbn; [auto|].
  apply Forall_aput; auto. cbn. unfold two32. lia.
Qed.

Lemma fold_wf : forall {A} (f : dstate -> A -> dstate) l d,
  (forall d x, parts_wf d -> parts_wf (f d x)) -> parts_wf d -> parts_wf (fold_left f l d).
Proof. induction l; intros; cbn; auto. Qed.

Lemma u32_lt : forall x, u32 x < two32.
Proof. intros. unfold u32. apply N.mod_lt. unfold two32. lia. Qed.

Lemma apply_mut_wf : forall d c d' r, apply_mut d c = Some (d', r) -> parts_wf d -> parts_wf d'.
Proof.
  intros d c d' r H W. destruct c; cbn [apply_mut] in H.
  - inv H; auto.
  - inv H. break_goal; auto.
  - pose proof (add_partition_wf d p W). destruct (add_partition d p). inv H. exact H0.
  - inv H. apply fold_wf; auto. intros; apply add_partition_wf; auto.
  - unfold do_create in H. repeat break_hyp H; try (inv H; exact W).
    inv H. unfold parts_wf. rewrite (put_blob_parts _ _ _ _ Heqo0). cbn. apply Forall_aput; auto. cbn. apply u32_lt.
  - unfold do_extend in H. repeat break_hyp H; inv H; auto. unfold parts_wf. erewrite put_blob_parts; eauto.
  - unfold do_delete in H. repeat break_hyp H; inv H; auto. unfold parts_wf. erewrite put_blob_parts; eauto.
  - unfold do_undelete in H. repeat break_hyp H; inv H; auto. unfold parts_wf. erewrite put_blob_parts; eauto.
  - unfold do_finish in H. inv H. apply fold_wf; auto.
  - unfold do_setmeta in H. repeat break_hyp H; inv H; auto. unfold parts_wf. erewrite put_blob_parts; eauto.
  - unfold do_change in H. repeat break_hyp H; inv H; auto.
  - inv H. apply fold_wf; auto. intros d0 [b [m a]] W0. unfold update_one. break_goal; auto.
  - unfold do_allocrs in H. repeat break_hyp H; inv H; auto.
    unfold parts_wf. cbn. apply Forall_aput; auto. cbn.
    apply first_part_In in Heqo. unfold parts_wf in W. rewrite Forall_forall in W. apply (W _ Heqo).
  - unfold do_commit, do_commit_unchecked in H. repeat break_hyp H; inv H; auto.
  - unfold do_rshosts in H. repeat break_hyp H; inv H; auto.
  - unfold do_updatesc in H. repeat break_hyp H; inv H; auto. unfold parts_wf. erewrite put_blob_parts; eauto.
  - inv H; auto.
  - inv H; auto.
Qed.

Lemma dapply_wf : forall d i c d' r, dapply d i c = Some (d', r) -> parts_wf d -> parts_wf d'.
Proof.
  intros d i c d' r H W. unfold dapply in H. destruct (i <=? d_index d); [inv H; auto|].
  destruct c;
    try (destruct (d_ro (set_index d i)); [inv H; exact W|]; eapply apply_mut_wf; [exact H|exact W]);
    try (inv H; exact W).
Qed.

Lemma dapply_all_wf : forall cs d d' r, dapply_all d cs = Some (d', r) -> parts_wf d -> parts_wf d'.
Proof.
  induction cs as [|[i c] cs IH]; intros d d' r H P; cbn [dapply_all] in H; [inv H; exact P|].
  destruct (dapply d i c) as [[d1 res]|] eqn:E; [|discriminate].
  destruct (dapply_all d1 cs) as [[d2 rs]|] eqn:E2; [|discriminate]. inv H.
  eapply IH; eauto. eapply dapply_wf; eauto.
Qed.

Lemma apply_mut_no_crash : forall d v c, parts_ok d -> parts_wf d -> submittable_now (d, v) c -> apply_mut d c <> None.
Proof.
  intros d v c P W S. destruct c; cbn [apply_mut submittable_now fst snd] in *; try discriminate.
  - destruct (add_partition d p); discriminate.
  - unfold do_create. repeat break_goal; try discriminate.
    exfalso. revert Heqo0. apply put_blob_some. cbn. apply has_aput. left.
    unfold blob_part. apply first_part_In in Heqo. unfold parts_wf in W. rewrite Forall_forall in W.
    specialize (W _ Heqo). cbn in W. unfold two32 in *.
    rewrite N.div_add_l by lia. rewrite N.div_small by lia. lia.
  - unfold do_extend. repeat break_goal; try discriminate.
    exfalso. revert Heqo0. apply put_blob_some. apply P. eapply live_blob_has; eauto.
  - unfold do_delete. repeat break_goal; try discriminate.
    exfalso. revert Heqo0. apply put_blob_some. apply P. eapply live_blob_has; eauto.
  - unfold do_undelete. repeat break_goal; try discriminate.
    exfalso. revert Heqo0. apply put_blob_some. apply P. unfold has. rewrite Heqo. discriminate.
  - unfold do_setmeta. repeat break_goal; try discriminate.
    exfalso. revert Heqo0. apply put_blob_some. apply P. eapply live_blob_has; eauto.
  - unfold do_change. repeat break_goal; try discriminate.
    exfalso. specialize (S _ eq_refl). apply nth_error_None in Heqo0. lia.
  - unfold do_allocrs. repeat break_goal; discriminate.
  - unfold do_commit, do_commit_unchecked. repeat break_goal; try discriminate.
    exfalso. eapply commit_loop_no_crash; eauto.
  - unfold do_rshosts. repeat break_goal; discriminate.
  - unfold do_updatesc. rewrite S. cbn [negb andb]. repeat break_goal; try discriminate.
    exfalso. revert Heqo0. apply put_blob_some. apply P. eapply live_blob_has; eauto.
Qed.

Lemma no_crash_lemma : forall s i c,
  parts_ok (fst s) -> parts_wf (fst s) -> submittable_now s c -> apply s i c <> None.
Proof.
  intros [d v] i c P W S. cbn [fst] in *. unfold apply.
  destruct (i <=? d_index d); [discriminate|].
  assert (P1 : parts_ok (set_index d i)) by exact P.
  assert (W1 : parts_wf (set_index d i)) by exact W.
  destruct c;
    try (destruct (d_ro (set_index d i)); [discriminate|];
         match goal with |- context [apply_mut ?a ?b] =>
           pose proof (apply_mut_no_crash a v b P1 W1) as Hn; destruct (apply_mut a b) as [[? ?]|] end;
         [discriminate|exfalso; apply Hn; [exact S|reflexivity]]);
    try discriminate.
  cbn [submittable_now snd] in S.
  destruct (v_ckidx v =? idx) eqn:E; cbn [andb]; [|discriminate].
  apply N.eqb_eq in E. rewrite (S E), N.eqb_refl. discriminate.
Qed.

Lemma reachable_ok : forall cs s r, apply_all s_init cs = Some (s, r) -> parts_ok (fst s) /\ parts_wf (fst s).
Proof.
  intros cs s r H. apply apply_all_dapply_all_inv in H.
  split; [eapply dapply_all_parts_ok; eauto using parts_ok_init|eapply dapply_all_wf; eauto; constructor].
Qed.
