(* Meta/Master.v — executable model of the master's replicated state machine
   (internal/master/durable/{fsm.go,state.go,commands.go}).

   State = the gob-encoded struct: partition table (index = partition id, slot 0 reserved), the two id counters,
   the read-only flag.  Volatile handler fields: last checksum and its index.  There is no index tag and no
   skip rule: raft hands the master exactly the entries after the snapshot it restored.

   Two restore functions:
     [restore_merge]  the code as it is: gob decodes INTO the live struct; zero-valued fields of the snapshot are
                      not transmitted, so the live value survives (finding F7);
     [restore_fresh]  the repaired code: decode into a fresh State and replace.
   The state checksum is modelled exactly (CRC-32C of little-endian uint64 fields, Lib/CRC.v). *)
From Coq Require Import List Arith NArith Bool.
From BLB Require Import Gen.Consts Lib.CRC.
Import ListNotations.
Open Scope N_scope.

Record mstate := mkM { m_parts : list N; m_nextcid : N; m_nexttsid : N; m_ro : bool }.
Record mvol := mkMV { mv_ck : N; mv_ckidx : N }.

Definition m_init : mstate := mkM [0] 1 1 false.
Definition mv_init : mvol := mkMV 0 18446744073709551615.

Inductive mcmd :=
| MRegCurator
| MRegTS
| MNewPart (cid : N)
| MCkReq
| MCkVerify (idx ck : N)
| MSetRO (b : bool).

Definition crc_u64 (crc x : N) : N := crc_update crc (le64 x).

(* (fold, not Fixpoint: the guard checker would unfold the CRC) *)
Definition crc_parts (crc : N) (i : N) (ps : list N) : N :=
  fst (fold_left (fun (a : N * N) (c : N) => (crc_u64 (crc_u64 (fst a) (snd a)) c, snd a + 1)) ps (crc, i)).

(* State.checksum *)
Definition m_checksum (s : mstate) : N :=
  let c1 := crc_u64 0 (m_nextcid s) in
  let c2 := crc_u64 c1 (m_nexttsid s) in
  let c3 := crc_u64 c2 (N.of_nat (length (m_parts s))) in
  let c4 := crc_parts c3 0 (m_parts s) in
  if m_ro s then crc_u64 c4 1 else c4.

Definition u32m (x : N) : N := x mod 4294967296.

(* StateHandler.Apply *)
Definition mapply (sv : mstate * mvol) (idx : N) (c : mcmd) : option ((mstate * mvol) * list N) :=
  let '(s, v) := sv in
  match c with
  | MSetRO b => Some ((mkM (m_parts s) (m_nextcid s) (m_nexttsid s) b, v), [1; e_NoError])
  | MCkReq => let ck := m_checksum s in Some ((s, mkMV ck idx), [5; idx; ck])
  | MCkVerify i ck => if (mv_ckidx v =? i) && negb (mv_ck v =? ck) then None else Some (sv, [0])
  | _ =>
    if m_ro s then Some (sv, [1; e_ReadOnlyMode]) else
    match c with
    | MRegCurator => Some ((mkM (m_parts s) (u32m (m_nextcid s + 1)) (m_nexttsid s) (m_ro s), v), [2; m_nextcid s])
    | MRegTS => Some ((mkM (m_parts s) (m_nextcid s) (u32m (m_nexttsid s + 1)) (m_ro s), v), [3; m_nexttsid s])
    | MNewPart cid =>
      if (cid =? 0) || (m_nextcid s <=? cid) then Some (sv, [4; 0; e_BadCuratorID]) else
      if c_MaxPartitionID <=? N.of_nat (length (m_parts s)) then Some (sv, [4; 0; e_ExceedNewPartitionQuota]) else
      Some ((mkM (m_parts s ++ [cid]) (m_nextcid s) (m_nexttsid s) (m_ro s), v),
            [4; N.of_nat (length (m_parts s)); e_NoError])
    | _ => Some (sv, [0])
    end
  end.

Definition msnapshot (sv : mstate * mvol) : mstate := fst sv.

(* gob decoding of [snap] into the live struct [s] *)
Definition restore_merge (sv : mstate * mvol) (snap : mstate) : mstate * mvol :=
  let s := fst sv in
  (mkM (match m_parts snap with [] => m_parts s | ps => ps end)
       (if m_nextcid snap =? 0 then m_nextcid s else m_nextcid snap)
       (if m_nexttsid snap =? 0 then m_nexttsid s else m_nexttsid snap)
       (if m_ro snap then true else m_ro s),
   snd sv).

(* the repaired restore: decode into a fresh State, then replace *)
Definition restore_fresh (sv : mstate * mvol) (snap : mstate) : mstate * mvol := (snap, snd sv).

Fixpoint mapply_all (sv : mstate * mvol) (cs : list (N * mcmd)) : option ((mstate * mvol) * list (list N)) :=
  match cs with
  | [] => Some (sv, [])
  | (i, c) :: r =>
    match mapply sv i c with
    | None => None
    | Some (sv', res) =>
      match mapply_all sv' r with
      | None => None
      | Some (sv'', rs) => Some (sv'', res :: rs)
      end
    end
  end.
