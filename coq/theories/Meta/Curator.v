(* Meta/Curator.v — executable model of the curator's durable state machine
   (internal/curator/durable/{fsm.go,fsm_snapshot.go}, durable/state/state.go, state/fb/extra.go,
   storageclass/storageclass.go), at the logical level of the bolt buckets:

     metadata : curator id, read-only flag, txn_index, known tractserver ids
     partition: id -> (NextBlobKey, NextRsChunkKey)
     blob     : id -> packed meta, second-granularity times, tract list
     rschunk  : id -> hosts, data-piece layouts

   Every branch of the Go code (error returns, skip rule, read-only gate) is transcribed.  What is stored is
   what the flatbuffer accessors give back: 8-bit packed storage/hint/repl, times in uint32 seconds, host ids
   masked to 20 bits in the first three slots with the zero-terminated length rule of HostsLength.
   [None] from [apply] = the process dies (log.Fatalf or a nil dereference).

   Model guards (documented in notes/C10.md; outside them the model is not claimed faithful):
   numbers are non-negative; flatbuffer "field present" bits are derived from the stored value
   (a field is present iff it was built non-zero), which is exact as long as in-place mutation never writes
   a zero (versions < 2^32-1, tractserver ids in 1..2^20-1, times within uint32 seconds);
   ChangeTract with Index = TractsLength reads past the tract vector and is [None] in the model.

   FinishDelete carries the cutoff proposed as the repair of finding F18; cutoff 0 is the behaviour of the
   current code (and of old log entries). *)
From Coq Require Import List Arith NArith Bool.
From BLB Require Import Gen.Consts Meta.AMap.
Import ListNotations.
Open Scope N_scope.

Definition two8 : N := 256.
Definition two20 : N := 1048576.
Definition two30 : N := 1073741824.
Definition two32 : N := 4294967296.
Definition two48 : N := 281474976710656.
Definition two64 : N := 18446744073709551616.
Definition nano : N := 1000000000.

Definition mask20 (x : N) : N := x mod two20.
Definition u8 (x : N) : N := x mod two8.
Definition u32 (x : N) : N := x mod two32.
Definition ns_to_sec (n : N) : N := u32 (n / nano).   (* uint32(n / 1e9) *)

(* ---------- records ---------- *)

Definition chunkid := (N * N)%type.   (* partition (uint32), id (48 bits) *)

Record tract := mkTract {
  t_hosts : list N;
  t_version : N;
  t_rs1 : option chunkid;   (* Rs63Chunk  *)
  t_rs2 : option chunkid;   (* Rs83Chunk  *)
  t_rs3 : option chunkid;   (* Rs103Chunk *)
  t_rs4 : option chunkid    (* Rs125Chunk *)
}.

Record blob := mkBlob {
  b_storage : N; b_hint : N; b_repl : N;
  b_deleted : N; b_mtime : N; b_atime : N; b_expires : N;    (* seconds *)
  b_tracts : list tract
}.

Record part := mkPart { p_nextblob : N; p_nextrs : N }.

Record rsc_tract := mkRT { rt_blob : N; rt_idx : N; rt_len : N; rt_off : N }.

Record chunk := mkChunk { c_hosts : list N; c_data : list (list rsc_tract) }.

Record dstate := mkD {
  d_cid : N;
  d_ro : bool;
  d_index : N;
  d_tsids : list N;
  d_parts : amap part;
  d_blobs : amap blob;
  d_chunks : amap chunk
}.

(* volatile handler fields: last computed checksum and the index it was computed at *)
Record vstate := mkV { v_ck : N; v_ckidx : N }.

Definition state := (dstate * vstate)%type.

Definition v_init : vstate := mkV 0 (two64 - 1).
Definition d_init : dstate := mkD 0 false 0 [] [] [] [].
Definition s_init : state := (d_init, v_init).

Definition set_cid (d : dstate) x := mkD x (d_ro d) (d_index d) (d_tsids d) (d_parts d) (d_blobs d) (d_chunks d).
Definition set_ro (d : dstate) x := mkD (d_cid d) x (d_index d) (d_tsids d) (d_parts d) (d_blobs d) (d_chunks d).
Definition set_index (d : dstate) x := mkD (d_cid d) (d_ro d) x (d_tsids d) (d_parts d) (d_blobs d) (d_chunks d).
Definition set_tsids (d : dstate) x := mkD (d_cid d) (d_ro d) (d_index d) x (d_parts d) (d_blobs d) (d_chunks d).
Definition set_parts (d : dstate) x := mkD (d_cid d) (d_ro d) (d_index d) (d_tsids d) x (d_blobs d) (d_chunks d).
Definition set_blobs (d : dstate) x := mkD (d_cid d) (d_ro d) (d_index d) (d_tsids d) (d_parts d) x (d_chunks d).
Definition set_chunks (d : dstate) x := mkD (d_cid d) (d_ro d) (d_index d) (d_tsids d) (d_parts d) (d_blobs d) x.

(* ---------- flatbuffer packing (fb/extra.go, fb/builders.go) ---------- *)

(* what HostsList gives back after TractFSetupHosts packed [hs] *)
Definition norm_hosts (hs : list N) : list N :=
  match hs with
  | [] => []
  | h0 :: r0 =>
    if mask20 h0 =? 0 then [] else
    match r0 with
    | [] => [mask20 h0]
    | h1 :: r1 =>
      if mask20 h1 =? 0 then [mask20 h0] else
      match r1 with
      | [] => [mask20 h0; mask20 h1]
      | h2 :: r2 =>
        if mask20 h2 =? 0 then [mask20 h0; mask20 h1]
        else mask20 h0 :: mask20 h1 :: mask20 h2 :: map u32 r2
      end
    end
  end.

Definition cid_norm (c : chunkid) : chunkid := (u32 (fst c), snd c mod two48).

Definition build_tract (t : tract) : tract :=
  mkTract (norm_hosts (t_hosts t)) (u32 (t_version t))
          (option_map cid_norm (t_rs1 t)) (option_map cid_norm (t_rs2 t))
          (option_map cid_norm (t_rs3 t)) (option_map cid_norm (t_rs4 t)).

Definition build_blob (b : blob) : blob :=
  mkBlob (u8 (b_storage b)) (u8 (b_hint b)) (u8 (b_repl b))
         (b_deleted b) (b_mtime b) (b_atime b) (b_expires b)
         (map build_tract (b_tracts b)).

Definition chunk_key (c : chunkid) : N := u32 (fst c) * two48 + snd c mod two48.
Definition blob_part (id : N) : N := id / two32.

(* core.RSChunkID.IsValid *)
Definition cid_valid (c : chunkid) : bool :=
  negb (N.land (fst c) c_MaxPartitionID =? 0) && (fst c / two30 =? c_RSPartition)
  && negb (snd c =? 0) && (snd c <=? c_MaxRSChunkKey).

(* storageclass: class ids 1..4 own one pointer each; 0 is REPLICATED *)
Definition is_rs_class (c : N) : bool :=
  (c =? c_ClassRS63) || (c =? c_ClassRS83) || (c =? c_ClassRS103) || (c =? c_ClassRS125).
Definition known_class (c : N) : bool := (c =? c_ClassREPLICATED) || is_rs_class c.

Definition rs_get (c : N) (t : tract) : option chunkid :=
  if c =? c_ClassRS63 then t_rs1 t else if c =? c_ClassRS83 then t_rs2 t
  else if c =? c_ClassRS103 then t_rs3 t else if c =? c_ClassRS125 then t_rs4 t else None.

Definition rs_set (c : N) (v : option chunkid) (t : tract) : tract :=
  if c =? c_ClassRS63 then mkTract (t_hosts t) (t_version t) v (t_rs2 t) (t_rs3 t) (t_rs4 t)
  else if c =? c_ClassRS83 then mkTract (t_hosts t) (t_version t) (t_rs1 t) v (t_rs3 t) (t_rs4 t)
  else if c =? c_ClassRS103 then mkTract (t_hosts t) (t_version t) (t_rs1 t) (t_rs2 t) v (t_rs4 t)
  else if c =? c_ClassRS125 then mkTract (t_hosts t) (t_version t) (t_rs1 t) (t_rs2 t) (t_rs3 t) v
  else t.

Definition rs_classes : list N := [c_ClassRS63; c_ClassRS83; c_ClassRS103; c_ClassRS125].
Definition tract_pointers (t : tract) : list chunkid :=
  concat (map (fun c => match rs_get c t with Some x => [x] | None => [] end) rs_classes).

(* Class.Has *)
Definition class_has (c : N) (t : tract) : bool :=
  if c =? c_ClassREPLICATED then negb (length (t_hosts t) =? 0)%nat
  else match rs_get c t with Some _ => true | None => false end.

(* clear every class except [keep] *)
Definition clear_others (keep : N) (t : tract) : tract :=
  let t1 := if keep =? c_ClassREPLICATED then t
            else mkTract [] (t_version t) (t_rs1 t) (t_rs2 t) (t_rs3 t) (t_rs4 t) in
  fold_left (fun acc c => if c =? keep then acc else rs_set c None acc) rs_classes t1.

(* ---------- Txn helpers (state.go) ---------- *)

Definition live_blob (d : dstate) (id : N) : option blob :=
  match aget id (d_blobs d) with
  | Some b => if b_deleted b =? 0 then Some b else None
  | None => None
  end.

Definition all_hosts (b : blob) : list N := concat (map t_hosts (b_tracts b)).

(* Txn.PutBlob: Fatalf when the partition is unknown; rebuilds the flatbuffer; remembers the hosts.
   The hosts remembered are those of the struct (before packing). *)
Definition put_blob (d : dstate) (id : N) (b : blob) : option dstate :=
  match aget (blob_part id) (d_parts d) with
  | None => None
  | Some _ =>
    Some (set_tsids (set_blobs d (aput id (build_blob b) (d_blobs d)))
                    (set_add_all (map u32 (all_hosts b)) (d_tsids d)))
  end.

Definition set_deleted (b : blob) x := mkBlob (b_storage b) (b_hint b) (b_repl b) x (b_mtime b) (b_atime b) (b_expires b) (b_tracts b).
Definition set_tracts (b : blob) x := mkBlob (b_storage b) (b_hint b) (b_repl b) (b_deleted b) (b_mtime b) (b_atime b) (b_expires b) x.
Definition set_times (b : blob) m a := mkBlob (b_storage b) (b_hint b) (b_repl b) (b_deleted b) m a (b_expires b) (b_tracts b).

Fixpoint list_set {A} (n : nat) (x : A) (l : list A) : list A :=
  match l, n with
  | [], _ => []
  | _ :: r, O => x :: r
  | y :: r, S n' => y :: list_set n' x r
  end.

(* removeTractFromRSChunk: splice the first listing of (blob, idx) out of the chunk *)
Definition rt_is (bid idx : N) (r : rsc_tract) : bool := (rt_blob r =? bid) && (rt_idx r =? idx).

Fixpoint remove_first {A} (f : A -> bool) (l : list A) : option (list A) :=
  match l with
  | [] => None
  | x :: r => if f x then Some r else option_map (cons x) (remove_first f r)
  end.

Fixpoint remove_from_data (bid idx : N) (data : list (list rsc_tract)) : option (list (list rsc_tract)) :=
  match data with
  | [] => None
  | p :: r =>
    match remove_first (rt_is bid idx) p with
    | Some p' => Some (p' :: r)
    | None => option_map (cons p) (remove_from_data bid idx r)
    end
  end.

Definition remove_tract_from_chunk (chunks : amap chunk) (cid : chunkid) (bid idx : N) : amap chunk :=
  match aget (chunk_key cid) chunks with
  | None => chunks
  | Some c =>
    match remove_from_data bid idx (c_data c) with
    | None => chunks
    | Some data' => aput (chunk_key cid) (mkChunk (c_hosts c) data') chunks
    end
  end.

(* removeTractsFromRSChunks: every tract, every RS class whose pointer is a valid chunk id *)
Fixpoint remove_tracts_from_chunks (chunks : amap chunk) (bid : N) (k : N) (ts : list tract) : amap chunk :=
  match ts with
  | [] => chunks
  | t :: r =>
    let chunks' := fold_left (fun acc cid => if cid_valid cid then remove_tract_from_chunk acc cid bid k else acc)
                             (tract_pointers t) chunks in
    remove_tracts_from_chunks chunks' bid (k + 1) r
  end.

Definition finish_one (d : dstate) (id : N) : dstate :=
  let chunks' := match aget id (d_blobs d) with
                 | Some b => remove_tracts_from_chunks (d_chunks d) id 0 (b_tracts b)
                 | None => d_chunks d
                 end in
  set_blobs (set_chunks d chunks') (adel id (d_blobs d)).

(* the scan condition of gcMetadataLoop, re-evaluated at apply time by the repaired command *)
Definition gc_eligible (b : blob) (cutoff : N) : bool :=
  (negb (b_deleted b =? 0) && (b_deleted b * nano <? cutoff))
  || (negb (b_expires b =? 0) && (b_expires b * nano <? cutoff)).

(* ---------- commands ---------- *)

Record enc_tract := mkET { et_blob : N; et_idx : N; et_off : N; et_len : N; et_newver : N }.

Inductive cmd :=
| CSetRO (b : bool)
| CSetReg (id : N)
| CAddPart (p : N)
| CSyncParts (ps : list N)
| CCreate (repl now exp hint : N)
| CExtend (id first : N) (hosts : list (list N))
| CDelete (id when : N)
| CUndelete (id : N)
| CFinishDelete (cutoff : N) (ids : list N)
| CSetMeta (id mtime atime exp hint : N)          (* 0 = "zero value, leave alone" *)
| CChangeTract (bid idx ver : N) (hosts : list N)
| CUpdateTimes (ups : list (N * (N * N)))
| CAllocRS (n : N)
| CCommitRS (cid : chunkid) (cls : N) (hosts : list N) (data : list (list enc_tract))
| CUpdateRSHosts (cid : chunkid) (hosts : list N)
| CUpdateSC (id cls : N)
| CChecksum (sblob : option N) (srs : option N) (n : N) (oracle : N)   (* oracle = the CRC the code computed *)
| CVerify (idx ck : N).

(* result lines: tag first (the Go result type), then its fields *)
Definition r_nil : list N := [0].
Definition r_err (e : N) : list N := [1; e].

Definition add_partition (d : dstate) (p : N) : dstate * N :=
  match aget p (d_parts d) with
  | Some _ => (d, e_AlreadyExists)
  | None => (set_parts d (aput p (mkPart 1 1) (d_parts d)), e_NoError)
  end.

Fixpoint first_part (f : part -> bool) (ps : amap part) : option (N * part) :=
  match ps with
  | [] => None
  | (k, p) :: r => if f p then Some (k, p) else first_part f r
  end.

Definition do_create (d : dstate) (repl now exp hint : N) : option (dstate * list N) :=
  match first_part (fun p => negb (p_nextblob p =? c_MaxBlobKey)) (d_parts d) with
  | None => Some (d, [5; 0; e_GenBlobID])
  | Some (pid, p) =>
    if pid =? 0 then Some (d, [5; 0; e_GenBlobID]) else
    let key := p_nextblob p in
    let d1 := set_parts d (aput pid (mkPart (u32 (key + 1)) (p_nextrs p)) (d_parts d)) in
    let id := pid * two32 + key in
    let b := mkBlob 0 hint repl 0 (ns_to_sec now) (ns_to_sec now) (ns_to_sec exp) [] in
    match put_blob d1 id b with
    | None => None
    | Some d2 => Some (d2, [5; id; e_NoError])
    end
  end.

Definition do_extend (d : dstate) (id first : N) (hosts : list (list N)) : option (dstate * list N) :=
  match live_blob d id with
  | None => Some (d, [6; e_NoSuchBlob; 0])
  | Some b =>
    if negb (first =? N.of_nat (length (b_tracts b))) then Some (d, [6; e_ExtendConflict; 0]) else
    if negb (forallb (fun h => N.of_nat (length h) =? b_repl b) hosts) then Some (d, [6; e_InvalidArgument; 0]) else
    let ts := b_tracts b ++ map (fun h => mkTract h 1 None None None None) hosts in
    match put_blob d id (set_tracts b ts) with
    | None => None
    | Some d' => Some (d', [6; e_NoError; N.of_nat (length ts)])
    end
  end.

Definition do_delete (d : dstate) (id when : N) : option (dstate * list N) :=
  match live_blob d id with
  | None => Some (d, [7; e_NoSuchBlob])
  | Some b =>
    match put_blob d id (set_deleted b (ns_to_sec when)) with
    | None => None
    | Some d' => Some (d', [7; e_NoError])
    end
  end.

Definition do_undelete (d : dstate) (id : N) : option (dstate * list N) :=
  match aget id (d_blobs d) with
  | None => Some (d, [8; e_NoSuchBlob])
  | Some b =>
    match put_blob d id (set_deleted b 0) with
    | None => None
    | Some d' => Some (d', [8; e_NoError])
    end
  end.

Definition finish_filter (d : dstate) (cutoff : N) (ids : list N) : list N :=
  if cutoff =? 0 then ids
  else filter (fun id => match aget id (d_blobs d) with Some b => gc_eligible b cutoff | None => false end) ids.

Definition do_finish (d : dstate) (cutoff : N) (ids : list N) : option (dstate * list N) :=
  Some (fold_left finish_one (finish_filter d cutoff ids) d, r_err e_NoError).

Definition do_setmeta (d : dstate) (id m a e h : N) : option (dstate * list N) :=
  match live_blob d id with
  | None => Some (d, r_err e_NoSuchBlob)
  | Some b =>
    let b' := mkBlob (b_storage b) (if h =? 0 then b_hint b else h) (b_repl b) (b_deleted b)
                     (if m =? 0 then b_mtime b else ns_to_sec m)
                     (if a =? 0 then b_atime b else ns_to_sec a)
                     (if e =? 0 then b_expires b else ns_to_sec e)
                     (b_tracts b) in
    match put_blob d id b' with
    | None => None
    | Some d' => Some (d', r_err e_NoError)
    end
  end.

Definition do_change (d : dstate) (bid idx ver : N) (hosts : list N) : option (dstate * list N) :=
  match live_blob d bid with
  | None => Some (d, r_err e_NoSuchBlob)
  | Some b =>
    let len := N.of_nat (length (b_tracts b)) in
    if len <? idx then Some (d, r_err e_NoSuchTract) else
    match nth_error (b_tracts b) (N.to_nat idx) with
    | None => None                       (* Index = TractsLength: reads past the vector *)
    | Some t =>
      if negb (length (t_hosts t) =? length hosts)%nat then Some (d, r_err e_InvalidArgument) else
      if negb (t_version t + 1 =? ver) then Some (d, r_err e_ConflictingState) else
      (* in-place mutation fails when the field was built with its default value *)
      if (t_version t =? 0) || (length (t_hosts t) =? 0)%nat then Some (d, r_err e_ConflictingState) else
      let t' := mkTract (norm_hosts hosts) (u32 ver) (t_rs1 t) (t_rs2 t) (t_rs3 t) (t_rs4 t) in
      let b' := set_tracts b (list_set (N.to_nat idx) t' (b_tracts b)) in
      Some (set_tsids (set_blobs d (aput bid b' (d_blobs d))) (set_add_all (map u32 hosts) (d_tsids d)),
            r_err e_NoError)
    end
  end.

Definition update_one (d : dstate) (u : N * (N * N)) : dstate :=
  let '(bid, (m, a)) := u in
  match live_blob d bid with
  | None => d
  | Some b =>
    let m' := if negb (m =? 0) && (b_mtime b * nano <? m) && negb (b_mtime b =? 0) then ns_to_sec m else b_mtime b in
    let a' := if negb (a =? 0) && (b_atime b * nano <? a) && negb (b_atime b =? 0) then ns_to_sec a else b_atime b in
    set_blobs d (aput bid (set_times b m' a') (d_blobs d))
  end.

(* core.PartitionID(core.RSPartition<<30) | partition.ID  (kept behind a name: tactics choke on N.lor of a big literal) *)
Definition rs_partition_id (pid : N) : N := N.lor (c_RSPartition * two30) pid.

Definition do_allocrs (d : dstate) (n : N) : option (dstate * list N) :=
  match first_part (fun p => (p_nextrs p + n) mod two64 <=? c_MaxRSChunkKey) (d_parts d) with
  | None => Some (d, [9; e_GenBlobID; 0; 0])
  | Some (pid, p) =>
    if pid =? 0 then Some (d, [9; e_GenBlobID; 0; 0]) else
    let key := p_nextrs p in
    Some (set_parts d (aput pid (mkPart (p_nextblob p) ((key + n) mod two64)) (d_parts d)),
          [9; e_NoError; rs_partition_id pid; key])
  end.

(* PutRSChunk: the loop over the layout with its working copies of the touched blobs *)
Inductive commit_res := CROk (upd : amap blob) | CRErr (e : N) | CRCrash.

Definition commit_one (d : dstate) (cid : chunkid) (cls : N) (upd : amap blob) (e : enc_tract) : commit_res :=
  let ob := match aget (et_blob e) upd with
            | Some b => Some b
            | None => live_blob d (et_blob e)
            end in
  match ob with
  | None => CRErr e_NoSuchBlob
  | Some b =>
    match nth_error (b_tracts b) (N.to_nat (et_idx e)) with
    | None => CRErr e_NoSuchTract
    | Some t =>
      if negb (known_class cls) then CRCrash else
      if cls =? c_ClassREPLICATED then CRErr e_InvalidArgument else
      match rs_get cls t with
      | Some _ => CRErr e_ConflictingState
      | None =>
        let t' := rs_set cls (Some cid) t in
        let t'' := mkTract (t_hosts t') (et_newver e) (t_rs1 t') (t_rs2 t') (t_rs3 t') (t_rs4 t') in
        CROk (aput (et_blob e) (set_tracts b (list_set (N.to_nat (et_idx e)) t'' (b_tracts b))) upd)
      end
    end
  end.

Fixpoint commit_loop (d : dstate) (cid : chunkid) (cls : N) (upd : amap blob) (es : list enc_tract) : commit_res :=
  match es with
  | [] => CROk upd
  | e :: r =>
    match commit_one d cid cls upd e with
    | CROk upd' => commit_loop d cid cls upd' r
    | x => x
    end
  end.

(* CommitRSChunkCommand.apply (repair of finding F6, commit defd77a): before PutRSChunk, every entry with
   NewVersion >= 2 must name a live blob's existing tract whose stored version is NewVersion-1 (GetTracts of that one
   tract: ErrNoSuchBlob / ErrNoSuchTract / else ErrConflictingState); entries with NewVersion < 2 are not checked *)
Fixpoint commit_precheck (d : dstate) (es : list enc_tract) : option N :=
  match es with
  | [] => None
  | e :: r =>
    if et_newver e <? 2 then commit_precheck d r else
    match live_blob d (et_blob e) with
    | None => Some e_NoSuchBlob
    | Some b =>
      match nth_error (b_tracts b) (N.to_nat (et_idx e)) with
      | None => Some e_NoSuchTract
      | Some t => if t_version t + 1 =? et_newver e then commit_precheck d r else Some e_ConflictingState
      end
    end
  end.

(* PutRSChunk alone: the command as it was before the repair (kept for the refutation witness of F6) *)
Definition do_commit_unchecked (d : dstate) (cid : chunkid) (cls : N) (hosts : list N) (data : list (list enc_tract))
  : option (dstate * list N) :=
  match aget (chunk_key cid) (d_chunks d) with
  | Some _ => Some (d, r_err e_ConflictingState)
  | None =>
    match commit_loop d cid cls [] (concat data) with
    | CRCrash => None
    | CRErr e => Some (d, r_err e)
    | CROk upd =>
      let ch := mkChunk (map u32 hosts)
                        (map (map (fun e => mkRT (et_blob e) (et_idx e) (u32 (et_len e)) (u32 (et_off e)))) data) in
      let blobs' := fold_left (fun acc kv => aput (fst kv) (build_blob (snd kv)) acc) upd (d_blobs d) in
      Some (set_tsids (set_blobs (set_chunks d (aput (chunk_key cid) ch (d_chunks d))) blobs')
                      (set_add_all (map u32 hosts) (d_tsids d)),
            r_err e_NoError)
    end
  end.

Definition do_commit (d : dstate) (cid : chunkid) (cls : N) (hosts : list N) (data : list (list enc_tract))
  : option (dstate * list N) :=
  match commit_precheck d (concat data) with
  | Some e => Some (d, r_err e)
  | None => do_commit_unchecked d cid cls hosts data
  end.

Definition do_rshosts (d : dstate) (cid : chunkid) (hosts : list N) : option (dstate * list N) :=
  match aget (chunk_key cid) (d_chunks d) with
  | None => Some (d, r_err e_InvalidArgument)
  | Some c =>
    if negb (length (c_hosts c) =? length hosts)%nat then Some (d, r_err e_InvalidArgument) else
    Some (set_tsids (set_chunks d (aput (chunk_key cid) (mkChunk (map u32 hosts) (c_data c)) (d_chunks d)))
                    (set_add_all (map u32 hosts) (d_tsids d)),
          r_err e_NoError)
  end.

Definition do_updatesc (d : dstate) (id cls : N) : option (dstate * list N) :=
  match live_blob d id with
  | None => Some (d, r_err e_NoSuchBlob)
  | Some b =>
    (* an unknown class gives a nil Class: the first Has call dereferences it *)
    if negb (known_class cls) && negb (length (b_tracts b) =? 0)%nat then None else
    if negb (forallb (class_has cls) (b_tracts b)) then Some (d, r_err e_InvalidArgument) else
    let b' := mkBlob cls (b_hint b) (b_repl b) (b_deleted b) (b_mtime b) (b_atime b) (b_expires b)
                     (map (clear_others cls) (b_tracts b)) in
    match put_blob d id b' with
    | None => None
    | Some d' => Some (d', r_err e_NoError)
    end
  end.

(* the mutating commands, applied inside a write transaction that is not in read-only mode *)
Definition apply_mut (d : dstate) (c : cmd) : option (dstate * list N) :=
  match c with
  | CSetReg id =>
    let d' := if d_cid d =? 0 then set_cid d (u32 id) else d in
    Some (d', [2; d_cid d'])
  | CAddPart p => let '(d', e) := add_partition d p in Some (d', [3; e])
  | CSyncParts ps => Some (fold_left (fun acc p => fst (add_partition acc p)) ps d, [4; e_NoError])
  | CCreate repl now exp hint => do_create d repl now exp hint
  | CExtend id first hosts => do_extend d id first hosts
  | CDelete id when => do_delete d id when
  | CUndelete id => do_undelete d id
  | CFinishDelete cutoff ids => do_finish d cutoff ids
  | CSetMeta id m a e h => do_setmeta d id m a e h
  | CChangeTract bid idx ver hosts => do_change d bid idx ver hosts
  | CUpdateTimes ups => Some (fold_left update_one ups d, r_err e_NoError)
  | CAllocRS n => do_allocrs d n
  | CCommitRS cid cls hosts data => do_commit d cid cls hosts data
  | CUpdateRSHosts cid hosts => do_rshosts d cid hosts
  | CUpdateSC id cls => do_updatesc d id cls
  | CSetRO _ | CChecksum _ _ _ _ | CVerify _ _ => Some (d, r_nil)   (* handled by [apply] *)
  end.

(* checksumPartialBucket: position after n entries starting at the first key >= start *)
Definition next_pos {V} (m : amap V) (start : option N) (n : N) : option N :=
  let ks := map fst m in
  let from := match start with None => ks | Some s => filter (fun k => s <=? k) ks end in
  nth_error from (N.to_nat n).

Definition opt_line (o : option N) : list N := match o with Some x => [1; x] | None => [0; 0] end.

(* StateHandler.Apply *)
Definition apply (s : state) (idx : N) (c : cmd) : option (state * list N) :=
  let '(d, v) := s in
  if idx <=? d_index d then Some (s, r_nil) else
  match c with
  | CChecksum sb sr n ock =>
    Some ((d, mkV ock idx),
          10 :: opt_line (next_pos (d_blobs d) sb n) ++ opt_line (next_pos (d_chunks d) sr n) ++ [ock; idx])
  | CVerify i ck =>
    if (v_ckidx v =? i) && negb (v_ck v =? ck) then None else Some (s, r_nil)
  | CSetRO b => Some ((set_ro (set_index d idx) b, v), r_err e_NoError)
  | _ =>
    let d1 := set_index d idx in
    if d_ro d1 then Some ((d1, v), r_err e_ReadOnlyMode)
    else match apply_mut d1 c with
         | Some (d2, r) => Some ((d2, v), r)
         | None => None
         end
  end.

(* Snapshot = consistent dump of the database, which contains its own index; SnapshotRestore *)
Definition snapshot (s : state) : dstate := fst s.
Definition restore (s : state) (snap : dstate) : state :=
  if d_index snap <=? d_index (fst s) then s else (snap, snd s).
(* process restart: the database survives, the handler's volatile fields do not *)
Definition restart (s : state) : state := (fst s, v_init).

(* indexed command sequences *)
Fixpoint apply_all (s : state) (cs : list (N * cmd)) : option (state * list (list N)) :=
  match cs with
  | [] => Some (s, [])
  | (i, c) :: r =>
    match apply s i c with
    | None => None
    | Some (s', res) =>
      match apply_all s' r with
      | None => None
      | Some (s'', rs) => Some (s'', res :: rs)
      end
    end
  end.
