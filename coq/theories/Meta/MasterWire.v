(* Meta/MasterWire.v — wire format of the master model.
   op lines
     [201..206; raft index; args]   one Apply             (201 RegisterCurator, 202 RegisterTractserver,
                                                           203 NewPartition cid, 204 ChecksumRequest,
                                                           205 ChecksumVerify idx ck, 206 SetReadOnlyMode b)
     [211]                          snapshot into the register        (obs: dump of the snapshot)
     [212; observed dump]           SnapshotRestore of the register; the harness writes "777 1", the model answers
                                    777 1 iff the observed state is the snapshot's state (repaired restore),
                                    777 7 if it is what gob-decoding into the live struct gives (finding F7),
                                    777 8 for anything else; it continues from the observed state
     [214]                          switch to a fresh replica         (obs: dump)
   observation of a command: result line ++ dump;  [-3] = the process died. *)
From Coq Require Import List NArith ZArith Bool.
From BLB Require Import Gen.Consts Meta.Master Meta.CuratorWire.
Import ListNotations.
Open Scope N_scope.

Definition mdump (s : mstate) : list N :=
  N.of_nat (length (m_parts s)) :: m_parts s ++ [m_nextcid s; m_nexttsid s; if m_ro s then 1 else 0].

Definition mundump (l : list N) : option mstate :=
  match take_counted l with
  | Some (ps, [a; b; r]) => Some (mkM ps a b (negb (r =? 0)))
  | _ => None
  end.

Definition decode_mcmd (op : N) (a : list N) : option mcmd :=
  match op, a with
  | 201, [] => Some MRegCurator
  | 202, [] => Some MRegTS
  | 203, [cid] => Some (MNewPart cid)
  | 204, [] => Some MCkReq
  | 205, [i; ck] => Some (MCkVerify i ck)
  | 206, [b] => Some (MSetRO (negb (b =? 0)))
  | _, _ => None
  end.

Record mwstate := mkMW { mw_cur : mstate * mvol; mw_snap : mstate; mw_dead : bool }.
Definition mw_init : mwstate := mkMW (m_init, mv_init) m_init false.

Fixpoint list_eqb (a b : list N) : bool :=
  match a, b with
  | [], [] => true
  | x :: r, y :: s => (x =? y) && list_eqb r s
  | _, _ => false
  end.

Definition mstep_wire (w : mwstate) (line : list Z) : mwstate * list Z :=
  if mw_dead w then (w, dead_line) else
  match zs_to_ns line with
  | None => (w, bad_line)
  | Some [211] => (mkMW (mw_cur w) (msnapshot (mw_cur w)) false, nz (mdump (msnapshot (mw_cur w))))
  | Some (212 :: obs) =>
    match mundump obs with
    | None => (w, bad_line)
    | Some seen =>
      let want := restore_fresh (mw_cur w) (mw_snap w) in
      let code := if list_eqb (mdump (fst want)) obs then 1%Z
                  else if list_eqb (mdump (fst (restore_merge (mw_cur w) (mw_snap w)))) obs then 7%Z
                  else 8%Z in
      (mkMW (seen, snd (mw_cur w)) (mw_snap w) false, [777%Z; code])
    end
  | Some [214] => (mkMW (m_init, mv_init) (mw_snap w) false, nz (mdump m_init))
  | Some (op :: idx :: args) =>
    match decode_mcmd op args with
    | None => (w, bad_line)
    | Some c =>
      match mapply (mw_cur w) idx c with
      | None => (mkMW (mw_cur w) (mw_snap w) true, dead_line)
      | Some (s, r) => (mkMW s (mw_snap w) false, nz (r ++ mdump (fst s)))
      end
    end
  | Some _ => (w, bad_line)
  end.

Fixpoint mrun_from (w : mwstate) (ops : list (list Z)) : list (list Z) :=
  match ops with
  | [] => []
  | l :: r => let '(w', o) := mstep_wire w l in o :: mrun_from w' r
  end.

Definition mrun_case (ops : list (list Z)) : list (list Z) := mrun_from mw_init ops.

(* a case is a curator case or a master case: decided by its first op code *)
Definition is_master_case (ops : list (list Z)) : bool :=
  match ops with
  | (op :: _) :: _ => (200 <=? op)%Z
  | _ => false
  end.

Definition run_any_case (ops : list (list Z)) : list (list Z) :=
  if is_master_case ops then mrun_case ops else curator_run_case ops.
