(* Meta/CuratorFacts.v — basic facts about the curator model shared by the C10 and C11 proofs:
   the durable projection of Apply, what each command does to the index, the partition table and the blob map. *)
From Coq Require Import List Arith NArith Bool Lia ZifyN ZifyNat ZifyBool.
From BLB Require Import Gen.Consts Meta.AMap Meta.Curator.
Import ListNotations.
Open Scope N_scope.

Ltac break_hyp H :=
  match type of H with
  | context [match ?x with _ => _ end] => destruct x eqn:?
  | context [if ?x then _ else _] => destruct x eqn:?
  end.
Ltac break_goal :=
  match goal with
  | |- context [match ?x with _ => _ end] => destruct x eqn:?
  | |- context [if ?x then _ else _] => destruct x eqn:?
  end.
Ltac inv H := first [discriminate H | injection H; clear H; intros; subst].

(* commands that go through a write transaction *)
Definition is_write (c : cmd) : bool :=
  match c with CChecksum _ _ _ _ | CVerify _ _ => false | _ => true end.

(* durable projection of Apply: what happens to the database and what is returned, the handler's volatile
   checksum fields left out (VerifyChecksum then never dies) *)
Definition dapply (d : dstate) (idx : N) (c : cmd) : option (dstate * list N) :=
  if idx <=? d_index d then Some (d, r_nil) else
  match c with
  | CChecksum sb sr n ock =>
    Some (d, 10 :: opt_line (next_pos (d_blobs d) sb n) ++ opt_line (next_pos (d_chunks d) sr n) ++ [ock; idx])
  | CVerify _ _ => Some (d, r_nil)
  | CSetRO b => Some (set_ro (set_index d idx) b, r_err e_NoError)
  | _ =>
    let d1 := set_index d idx in
    if d_ro d1 then Some (d1, r_err e_ReadOnlyMode) else apply_mut d1 c
  end.

Lemma apply_dapply : forall d v i c s' r,
  apply (d, v) i c = Some (s', r) -> dapply d i c = Some (fst s', r).
Proof.
  intros d v i c s' r H. unfold apply in H. unfold dapply.
  destruct (i <=? d_index d); [inv H; reflexivity|].
  destruct c; cbn [is_write] in *;
    try (destruct (d_ro (set_index d i)); [inv H; reflexivity|];
         match type of H with context [apply_mut ?a ?b] => destruct (apply_mut a b) as [[d2 r2]|] end;
         [inv H; reflexivity|discriminate]);
    try (inv H; reflexivity).
  destruct ((v_ckidx v =? idx) && negb (v_ck v =? ck)); [discriminate|inv H; reflexivity].
Qed.

(* the only way Apply dies where its durable projection does not: a VerifyChecksum that disagrees *)
Lemma dapply_apply : forall d v i c d' r,
  dapply d i c = Some (d', r) ->
  (forall ix ck, c = CVerify ix ck -> d_index d < i -> v_ckidx v = ix -> v_ck v = ck) ->
  exists v', apply (d, v) i c = Some ((d', v'), r).
Proof.
  intros d v i c d' r H Hv. unfold dapply in H. unfold apply.
  destruct (i <=? d_index d) eqn:E; [inv H; eauto|].
  destruct c;
    try (destruct (d_ro (set_index d i)); [inv H; eauto|]; rewrite H; eauto);
    try (inv H; eauto; fail).
  inv H.
  destruct (v_ckidx v =? idx) eqn:E1; cbn [andb]; [|eauto].
  apply N.eqb_eq in E1. rewrite (Hv idx ck eq_refl ltac:(lia) E1), N.eqb_refl. cbn. eauto.
Qed.

(* ---------- the index ---------- *)

Lemma put_blob_index : forall d id b d', put_blob d id b = Some d' -> d_index d' = d_index d.
Proof. unfold put_blob; intros. break_hyp H; [inv H; reflexivity|discriminate]. Qed.

Lemma fold_index : forall {A} (f : dstate -> A -> dstate) l d,
  (forall d x, d_index (f d x) = d_index d) -> d_index (fold_left f l d) = d_index d.
Proof. induction l; intros; cbn; [reflexivity|]. rewrite IHl; auto. Qed.

Lemma add_partition_index : forall d p, d_index (fst (add_partition d p)) = d_index d.
Proof. unfold add_partition; intros; break_goal; reflexivity. Qed.

Lemma finish_one_index : forall d id, d_index (finish_one d id) = d_index d.
Proof. reflexivity. Qed.

Lemma update_one_index : forall d u, d_index (update_one d u) = d_index d.
Proof. unfold update_one; intros. destruct u as [b [m a]]. break_goal; reflexivity. Qed.

Lemma apply_mut_index : forall d c d' r, apply_mut d c = Some (d', r) -> d_index d' = d_index d.
Proof.
  intros d c d' r H. destruct c; cbn [apply_mut] in H.
  - inv H; reflexivity.
  - inv H. break_goal; reflexivity.
  - pose proof (add_partition_index d p). destruct (add_partition d p). inv H. exact H0.
  - inv H. apply fold_index. intros; apply add_partition_index.
  - unfold do_create in H. repeat break_hyp H; inv H; try reflexivity.
    apply put_blob_index in Heqo0. rewrite Heqo0. reflexivity.
  - unfold do_extend in H. repeat break_hyp H; inv H; try reflexivity. eapply put_blob_index; eauto.
  - unfold do_delete in H. repeat break_hyp H; inv H; try reflexivity. eapply put_blob_index; eauto.
  - unfold do_undelete in H. repeat break_hyp H; inv H; try reflexivity. eapply put_blob_index; eauto.
  - unfold do_finish in H. inv H. apply fold_index. intros; apply finish_one_index.
  - unfold do_setmeta in H. repeat break_hyp H; inv H; try reflexivity. eapply put_blob_index; eauto.
  - unfold do_change in H. repeat break_hyp H; inv H; reflexivity.
  - inv H. apply fold_index. intros; apply update_one_index.
  - unfold do_allocrs in H. repeat break_hyp H; inv H; reflexivity.
  - unfold do_commit, do_commit_unchecked in H. repeat break_hyp H; inv H; reflexivity.
  - unfold do_rshosts in H. repeat break_hyp H; inv H; reflexivity.
  - unfold do_updatesc in H. repeat break_hyp H; inv H; try reflexivity. eapply put_blob_index; eauto.
  - inv H; reflexivity.
  - inv H; reflexivity.
Qed.

(* what Apply does to txn_index *)
Lemma dapply_index : forall d i c d' r,
  dapply d i c = Some (d', r) ->
  d_index d' = if (d_index d <? i) && is_write c then i else d_index d.
Proof.
  intros d i c d' r H. unfold dapply in H.
  destruct (i <=? d_index d) eqn:E.
  - inv H. destruct (d_index d' <? i) eqn:E2; [lia|reflexivity].
  - assert (E2 : d_index d <? i = true) by lia. rewrite E2. cbn [andb].
    destruct c; cbn [is_write];
      try (destruct (d_ro (set_index d i)); [inv H; reflexivity|]; apply apply_mut_index in H; exact H);
      try (inv H; reflexivity).
Qed.

(* checksum commands never touch the database *)
Lemma dapply_nonwrite : forall d i c d' r, is_write c = false -> dapply d i c = Some (d', r) -> d' = d.
Proof.
  intros d i c d' r Hw H. unfold dapply in H. destruct (i <=? d_index d); [inv H; reflexivity|].
  destruct c; try discriminate; inv H; reflexivity.
Qed.

Lemma dapply_skip : forall d i c, i <= d_index d -> dapply d i c = Some (d, r_nil).
Proof. intros. unfold dapply. destruct (i <=? d_index d) eqn:E; [reflexivity|lia]. Qed.

(* durable runs *)
Fixpoint dapply_all (d : dstate) (cs : list (N * cmd)) : option (dstate * list (list N)) :=
  match cs with
  | [] => Some (d, [])
  | (i, c) :: r =>
    match dapply d i c with
    | None => None
    | Some (d', res) =>
      match dapply_all d' r with
      | None => None
      | Some (d'', rs) => Some (d'', res :: rs)
      end
    end
  end.

Lemma dapply_all_app : forall a b d d2 r,
  dapply_all d (a ++ b) = Some (d2, r) ->
  exists d1 r1 r2, dapply_all d a = Some (d1, r1) /\ dapply_all d1 b = Some (d2, r2) /\ r = r1 ++ r2
                   /\ length r1 = length a.
Proof.
  induction a as [|[i c] a IH]; intros b d d2 r H; cbn [dapply_all app] in *.
  - exists d, [], r. auto.
  - destruct (dapply d i c) as [[d' res]|]; [|discriminate].
    destruct (dapply_all d' (a ++ b)) as [[d'' rs]|] eqn:E; [|discriminate]. inv H.
    destruct (IH _ _ _ _ E) as (d1 & r1 & r2 & H1 & H2 & H3 & H4).
    rewrite H1. exists d1, (res :: r1), r2. subst. cbn. auto.
Qed.

Lemma dapply_all_app_intro : forall a b d d1 d2 r1 r2,
  dapply_all d a = Some (d1, r1) -> dapply_all d1 b = Some (d2, r2) ->
  dapply_all d (a ++ b) = Some (d2, r1 ++ r2).
Proof.
  induction a as [|[i c] a IH]; intros b d d1 d2 r1 r2 H1 H2; cbn [dapply_all app] in *.
  - inv H1. exact H2.
  - destruct (dapply d i c) as [[d' res]|]; [|discriminate].
    destruct (dapply_all d' a) as [[d'' rs]|] eqn:E; [|discriminate]. inv H1.
    rewrite (IH _ _ _ _ _ _ E H2). reflexivity.
Qed.

Lemma dapply_all_index_mono : forall cs d d' r, dapply_all d cs = Some (d', r) -> d_index d <= d_index d'.
Proof.
  induction cs as [|[i c] cs IH]; intros d d' r H; cbn [apply_all dapply_all] in H.
  - inv H. lia.
  - destruct (dapply d i c) as [[d1 res]|] eqn:E; [|discriminate].
    destruct (dapply_all d1 cs) as [[d2 rs]|] eqn:E2; [|discriminate]. inv H.
    apply IH in E2. apply dapply_index in E. destruct ((d_index d <? i) && is_write c) eqn:E3; lia.
Qed.

Lemma apply_all_dapply_all_inv : forall cs d v s' r,
  apply_all (d, v) cs = Some (s', r) -> dapply_all d cs = Some (fst s', r).
Proof.
  induction cs as [|[i c] cs IH]; intros d v s' r H; cbn [apply_all dapply_all] in *; [inv H; reflexivity|].
  destruct (apply (d, v) i c) as [[[d1 v1] res]|] eqn:E; [|discriminate].
  destruct (apply_all (d1, v1) cs) as [[s2 rs]|] eqn:E2; [|discriminate]. inv H.
  apply apply_dapply in E. cbn in E. rewrite E. erewrite IH; eauto.
Qed.
