(* Meta/CuratorWire.v — wire format of the curator model: command decoding, canonical dump,
   and the per-case interpreter used by the C10 and C11 correspondence runs.

   op lines
     [opcode; raft index; args...]        one Apply(raft.Entry{Index, Cmd})        (opcodes 1..18)
     [101]  take a snapshot of the current replica into the register (obs: its index)
     [102]  SnapshotRestore the register onto the current replica     (obs: dump)
     [103]  restart the current replica (reopen the database)         (obs: dump)
     [104]  switch to a fresh replica (empty database)                (obs: dump)
   observation of a command: result line ++ full canonical dump; [-3] = the process died. *)
From Coq Require Import List NArith ZArith Bool.
From BLB Require Import Gen.Consts Meta.AMap Meta.Curator.
Import ListNotations.
Open Scope N_scope.

(* ---------- dump ---------- *)

Definition dump_ptr (o : option chunkid) : list N :=
  match o with Some (p, i) => [1; p; i] | None => [0; 0; 0] end.

Definition dump_tract (t : tract) : list N :=
  N.of_nat (length (t_hosts t)) :: t_hosts t ++ [t_version t]
  ++ dump_ptr (t_rs1 t) ++ dump_ptr (t_rs2 t) ++ dump_ptr (t_rs3 t) ++ dump_ptr (t_rs4 t).

Definition dump_blob (kv : N * blob) : list N :=
  let '(id, b) := kv in
  [id; b_storage b; b_hint b; b_repl b; b_deleted b; b_mtime b; b_atime b; b_expires b;
   N.of_nat (length (b_tracts b))] ++ concat (map dump_tract (b_tracts b)).

Definition dump_rt (r : rsc_tract) : list N := [rt_blob r; rt_idx r; rt_len r; rt_off r].

Definition dump_chunk (kv : N * chunk) : list N :=
  let '(k, c) := kv in
  [k / two48; k mod two48; N.of_nat (length (c_hosts c))] ++ c_hosts c
  ++ N.of_nat (length (c_data c))
  :: concat (map (fun p => N.of_nat (length p) :: concat (map dump_rt p)) (c_data c)).

Definition dump (d : dstate) : list N :=
  [d_cid d; if d_ro d then 1 else 0; d_index d; N.of_nat (length (d_tsids d))] ++ d_tsids d
  ++ N.of_nat (length (d_parts d)) :: concat (map (fun kv => [fst kv; p_nextblob (snd kv); p_nextrs (snd kv)]) (d_parts d))
  ++ N.of_nat (length (d_blobs d)) :: concat (map dump_blob (d_blobs d))
  ++ N.of_nat (length (d_chunks d)) :: concat (map dump_chunk (d_chunks d)).

(* ---------- decoding ---------- *)

Definition zs_to_ns (l : list Z) : option (list N) :=
  fold_right (fun z acc => match acc with
                           | None => None
                           | Some r => if (z <? 0)%Z then None else Some (Z.to_N z :: r)
                           end) (Some []) l.

Fixpoint take {A} (n : nat) (l : list A) : option (list A * list A) :=
  match n with
  | O => Some ([], l)
  | S n' => match l with
            | [] => None
            | x :: r => match take n' r with Some (a, b) => Some (x :: a, b) | None => None end
            end
  end.

(* a counted list: n x1..xn *)
Definition take_counted (l : list N) : option (list N * list N) :=
  match l with
  | [] => None
  | n :: r => take (N.to_nat n) r
  end.

Fixpoint take_lists (k : nat) (l : list N) : option (list (list N) * list N) :=
  match k with
  | O => Some ([], l)
  | S k' => match take_counted l with
            | None => None
            | Some (x, r) => match take_lists k' r with
                             | Some (xs, r') => Some (x :: xs, r')
                             | None => None
                             end
            end
  end.

Fixpoint triples (l : list N) : option (list (N * (N * N))) :=
  match l with
  | [] => Some []
  | a :: b :: c :: r => option_map (cons (a, (b, c))) (triples r)
  | _ => None
  end.

Fixpoint enc_tracts (k : nat) (l : list N) : option (list enc_tract * list N) :=
  match k with
  | O => Some ([], l)
  | S k' => match l with
            | a :: b :: c :: d :: e :: r =>
              match enc_tracts k' r with
              | Some (xs, r') => Some (mkET a b c d e :: xs, r')
              | None => None
              end
            | _ => None
            end
  end.

Fixpoint enc_data (k : nat) (l : list N) : option (list (list enc_tract) * list N) :=
  match k with
  | O => Some ([], l)
  | S k' => match l with
            | n :: r =>
              match enc_tracts (N.to_nat n) r with
              | Some (x, r') => match enc_data k' r' with
                                | Some (xs, r'') => Some (x :: xs, r'')
                                | None => None
                                end
              | None => None
              end
            | [] => None
            end
  end.

Definition opt_of (flag x : N) : option N := if flag =? 0 then None else Some x.

Definition decode_cmd (op : N) (a : list N) : option cmd :=
  match op, a with
  | 1, [b] => Some (CSetRO (negb (b =? 0)))
  | 2, [id] => Some (CSetReg id)
  | 3, [p] => Some (CAddPart p)
  | 4, _ => match take_counted a with Some (ps, []) => Some (CSyncParts ps) | _ => None end
  | 5, [repl; now; exp; hint] => Some (CCreate repl now exp hint)
  | 6, id :: first :: k :: r =>
    match take_lists (N.to_nat k) r with Some (hs, []) => Some (CExtend id first hs) | _ => None end
  | 7, [id; w] => Some (CDelete id w)
  | 8, [id] => Some (CUndelete id)
  | 9, cutoff :: r => match take_counted r with Some (ids, []) => Some (CFinishDelete cutoff ids) | _ => None end
  | 10, [id; m; at_; e; h] => Some (CSetMeta id m at_ e h)
  | 11, b :: i :: v :: r => match take_counted r with Some (hs, []) => Some (CChangeTract b i v hs) | _ => None end
  | 12, n :: r => if N.of_nat (length r) =? 3 * n then option_map CUpdateTimes (triples r) else None
  | 13, [n] => Some (CAllocRS n)
  | 14, p :: i :: cls :: r =>
    match take_counted r with
    | Some (hs, nd :: r') =>
      match enc_data (N.to_nat nd) r' with
      | Some (data, []) => Some (CCommitRS (p, i) cls hs data)
      | _ => None
      end
    | _ => None
    end
  | 15, p :: i :: r => match take_counted r with Some (hs, []) => Some (CUpdateRSHosts (p, i) hs) | _ => None end
  | 16, [id; cls] => Some (CUpdateSC id cls)
  | 17, [hb; sb; hr; rp; ri; n; ckhi; cklo] =>
    Some (CChecksum (opt_of hb sb) (opt_of hr (rp * two48 + ri)) n (ckhi * two32 + cklo))
  | 18, [i; ckhi; cklo] => Some (CVerify i (ckhi * two32 + cklo))
  | _, _ => None
  end.

(* positions in result lines that are rschunk keys are printed as (partition, id); 64-bit checksums as two halves *)
Definition wire_result (r : list N) : list N :=
  match r with
  | [10; hb; kb; hr; kr; ck; idx] => [10; hb; kb; hr; kr / two48; kr mod two48; ck / two32; ck mod two32; idx]
  | _ => r
  end.

(* ---------- per-case interpreter ---------- *)

Record wstate := mkW { w_cur : state; w_snap : dstate; w_dead : bool }.
Definition w_init : wstate := mkW s_init d_init false.

Definition nz (l : list N) : list Z := map Z.of_N l.
Definition dead_line : list Z := [(-3)%Z].
Definition bad_line : list Z := [(-1)%Z].

Definition step_wire (w : wstate) (line : list Z) : wstate * list Z :=
  if w_dead w then (w, dead_line) else
  match zs_to_ns line with
  | None => (w, bad_line)
  | Some [101] => (mkW (w_cur w) (snapshot (w_cur w)) false, nz [d_index (snapshot (w_cur w))])
  | Some [102] => let s := restore (w_cur w) (w_snap w) in (mkW s (w_snap w) false, nz (dump (fst s)))
  | Some [103] => let s := restart (w_cur w) in (mkW s (w_snap w) false, nz (dump (fst s)))
  | Some [104] => (mkW s_init (w_snap w) false, nz (dump d_init))
  | Some (op :: idx :: args) =>
    match decode_cmd op args with
    | None => (w, bad_line)
    | Some c =>
      match apply (w_cur w) idx c with
      | None => (mkW (w_cur w) (w_snap w) true, dead_line)
      | Some (s, r) => (mkW s (w_snap w) false, nz (wire_result r ++ dump (fst s)))
      end
    end
  | Some _ => (w, bad_line)
  end.

Fixpoint run_from (w : wstate) (ops : list (list Z)) : list (list Z) :=
  match ops with
  | [] => []
  | l :: r => let '(w', o) := step_wire w l in o :: run_from w' r
  end.

Definition curator_run_case (ops : list (list Z)) : list (list Z) := run_from w_init ops.
