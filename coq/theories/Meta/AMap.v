(* Meta/AMap.v — association lists keyed by N, kept in ascending key order by [aput]
   (the order bolt iterates a bucket whose keys are fixed-width big-endian numbers).
   The get/put/del equations hold for arbitrary lists; sortedness is only needed to match
   the iteration order of the implementation and is proved separately ([asorted]). *)
From Coq Require Import List NArith Bool Lia ZifyN ZifyBool.
Import ListNotations.
Open Scope N_scope.

Section AMap.
Context {V : Type}.
Definition amap := list (N * V).

Fixpoint aget (k : N) (m : amap) : option V :=
  match m with
  | [] => None
  | (k', v) :: r => if k =? k' then Some v else aget k r
  end.

Fixpoint aput (k : N) (v : V) (m : amap) : amap :=
  match m with
  | [] => [(k, v)]
  | (k', v') :: r =>
      if k <? k' then (k, v) :: m
      else if k =? k' then (k, v) :: r
      else (k', v') :: aput k v r
  end.

Fixpoint adel (k : N) (m : amap) : amap :=
  match m with
  | [] => []
  | (k', v') :: r => if k =? k' then adel k r else (k', v') :: adel k r
  end.

Lemma aget_aput_eq : forall k v m, aget k (aput k v m) = Some v.
Proof.
  induction m as [|[k' v'] r IH]; cbn [aput aget].
  - now rewrite N.eqb_refl.
  - destruct (k <? k') eqn:E1; cbn [aget].
    + now rewrite N.eqb_refl.
    + destruct (k =? k') eqn:E2; cbn [aget].
      * now rewrite N.eqb_refl.
      * now rewrite E2.
Qed.

Lemma aget_aput_ne : forall k k2 v m, k2 <> k -> aget k2 (aput k v m) = aget k2 m.
Proof.
  intros k k2 v m Hne. induction m as [|[k' v'] r IH]; cbn [aput aget].
  - destruct (k2 =? k) eqn:E; [apply N.eqb_eq in E; contradiction|reflexivity].
  - destruct (k <? k') eqn:E1; cbn [aget].
    + destruct (k2 =? k) eqn:E; [apply N.eqb_eq in E; contradiction|reflexivity].
    + destruct (k =? k') eqn:E2; cbn [aget].
      * apply N.eqb_eq in E2; subst k'.
        destruct (k2 =? k) eqn:E; [apply N.eqb_eq in E; contradiction|reflexivity].
      * destruct (k2 =? k'); [reflexivity|exact IH].
Qed.

Lemma aget_adel_eq : forall k m, aget k (adel k m) = None.
Proof.
  induction m as [|[k' v'] r IH]; cbn [adel aget]; [reflexivity|].
  destruct (k =? k') eqn:E; [exact IH|]. cbn [aget]. now rewrite E.
Qed.

Lemma aget_adel_ne : forall k k2 m, k2 <> k -> aget k2 (adel k m) = aget k2 m.
Proof.
  intros k k2 m Hne. induction m as [|[k' v'] r IH]; cbn [adel aget]; [reflexivity|].
  destruct (k =? k') eqn:E.
  - apply N.eqb_eq in E; subst k'.
    destruct (k2 =? k) eqn:E2; [apply N.eqb_eq in E2; contradiction|exact IH].
  - cbn [aget]. destruct (k2 =? k'); [reflexivity|exact IH].
Qed.

Lemma aget_aput : forall k k2 v m,
  aget k2 (aput k v m) = if k2 =? k then Some v else aget k2 m.
Proof.
  intros. destruct (k2 =? k) eqn:E.
  - apply N.eqb_eq in E; subst. apply aget_aput_eq.
  - apply N.eqb_neq in E. now apply aget_aput_ne.
Qed.

Lemma aget_adel : forall k k2 m,
  aget k2 (adel k m) = if k2 =? k then None else aget k2 m.
Proof.
  intros. destruct (k2 =? k) eqn:E.
  - apply N.eqb_eq in E; subst. apply aget_adel_eq.
  - apply N.eqb_neq in E. now apply aget_adel_ne.
Qed.

Lemma aget_In : forall k v m, aget k m = Some v -> In (k, v) m.
Proof.
  induction m as [|[k' v'] r IH]; cbn [aget]; [discriminate|].
  destruct (k =? k') eqn:E.
  - intros H; inversion H; subst. apply N.eqb_eq in E; subst. now left.
  - intros H. right. auto.
Qed.

(* keys strictly ascending *)
Fixpoint asorted (m : amap) : Prop :=
  match m with
  | [] => True
  | (k, _) :: r => (match r with [] => True | (k', _) :: _ => k < k' end) /\ asorted r
  end.

Lemma asorted_aput : forall k v m, asorted m -> asorted (aput k v m).
Proof.
  induction m as [|[k' v'] r IH]; cbn [aput asorted]; [auto|].
  intros [H1 H2].
  destruct (k <? k') eqn:E1.
  - cbn [asorted]. repeat split; auto. lia.
  - destruct (k =? k') eqn:E2.
    + apply N.eqb_eq in E2; subst. cbn [asorted]. auto.
    + cbn [asorted]. split; [|auto].
      destruct r as [|[k2 v2] r2]; cbn [aput].
      * lia.
      * destruct (k <? k2) eqn:E3; [lia|]. destruct (k =? k2) eqn:E4; [lia|]. exact H1.
Qed.

Lemma asorted_adel : forall k m, asorted m -> asorted (adel k m).
Proof.
  induction m as [|[k' v'] r IH]; cbn [adel asorted]; [auto|].
  intros [H1 H2]. destruct (k =? k') eqn:E; [auto|].
  cbn [asorted]. split; [|auto].
  clear IH. revert H1 H2. induction r as [|[k2 v2] r2 IH2]; cbn [adel]; [auto|].
  intros H1 H2. destruct (k =? k2) eqn:E2.
  - cbn [asorted] in H2. destruct H2 as [H3 H4].
    apply IH2; [|exact H4]. destruct r2 as [|[k3 v3] r3]; [exact I|lia].
  - exact H1.
Qed.

End AMap.
Arguments amap : clear implicits.

(* ordered duplicate-free list of numbers (the known-tractserver bitmap seen as a set) *)
Fixpoint set_ins (x : N) (s : list N) : list N :=
  match s with
  | [] => [x]
  | y :: r => if x <? y then x :: s else if x =? y then s else y :: set_ins x r
  end.

Definition set_add_all (xs : list N) (s : list N) : list N := fold_left (fun acc x => set_ins x acc) xs s.

Lemma set_ins_In : forall x y s, In y (set_ins x s) <-> y = x \/ In y s.
Proof.
  induction s as [|z r IH]; cbn [set_ins In].
  - intuition.
  - destruct (x <? z) eqn:E1; cbn [In]; [intuition|].
    destruct (x =? z) eqn:E2; cbn [In].
    + apply N.eqb_eq in E2; subst. intuition.
    + rewrite IH. intuition.
Qed.

Lemma set_add_all_In : forall xs y s, In y (set_add_all xs s) <-> In y xs \/ In y s.
Proof.
  unfold set_add_all. induction xs as [|x r IH]; intros; cbn [fold_left In].
  - intuition.
  - rewrite IH, set_ins_In. intuition.
Qed.
