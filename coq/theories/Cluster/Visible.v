(* Cluster/Visible.v — the containment invariants along admissible schedules, and visibility of acknowledged writes. *)
From Coq Require Import List ZArith Bool Lia.
From BLB Require Import Gen.Consts Cluster.Model Cluster.Proofs Cluster.Frame Cluster.Inv Cluster.Window
     Cluster.Attempts Cluster.Sched Cluster.Order Cluster.Contain.
Import ListNotations.
Open Scope Z_scope.

Lemma tget_in : forall A (m : list (tkt * A)) k v, tget m k = Some v -> In (k, v) m.
Proof.
  induction m as [|[k' v'] m IH]; intros k v H; cbn in H; [discriminate|].
  destruct (tk_eqb k k') eqn:E; [apply tk_eqb_eq in E; inversion H; subst; left; auto | right; auto].
Qed.

Lemma zmem_in : forall x l, zmem x l = true -> In x l.
Proof. intros x l H. unfold zmem in H. apply existsb_exists in H as (y & I & E). apply Z.eqb_eq in E. now subst. Qed.
Lemma in_zmem : forall x l, In x l -> zmem x l = true.
Proof. intros x l H. unfold zmem. apply existsb_exists. exists x. split; auto. apply Z.eqb_refl. Qed.

Lemma find_pent_st : forall pool rp w e, find_pent pool rp w = Some e -> p_st e = w.
Proof.
  induction pool as [|a l IH]; intros rp w e H; [discriminate H|]. unfold find_pent in H; fold find_pent in H.
  destruct (rpc_eqb (p_rpc a) rp && (p_st a =? w)) eqn:E; [|eapply IH; eauto].
  inversion H; subst. apply andb_true_iff in E as [_ E]. apply Z.eqb_eq in E. exact E.
Qed.

Lemma hv_use : forall st tk dv H x r0, hv_ok st = true -> tget (s_dtr st) tk = Some (dv, H) -> In x H ->
  rget (s_reps st) (x, tk) = Some r0 -> dv <= r_ver r0.
Proof.
  intros st tk dv H x r0 HV E I G. unfold hv_ok in HV. rewrite forallb_forall in HV.
  specialize (HV _ (tget_in _ _ _ _ E)). cbn in HV. rewrite forallb_forall in HV. specialize (HV _ I). rewrite G in HV. now apply Z.leb_le in HV.
Qed.

Lemma ps_use : forall st e dv H, ps_ok st = true -> In e (s_pool st) -> k_kind (p_rpc e) = K_SetVersion ->
  tget (s_dtr st) (rtk (p_rpc e)) = Some (dv, H) -> k_ver (p_rpc e) = dv + 1 -> In (k_ts (p_rpc e)) H.
Proof.
  intros st e dv H PS I K E V. unfold ps_ok in PS. rewrite forallb_forall in PS. specialize (PS _ I).
  rewrite K, Z.eqb_refl in PS. unfold rtk in E. rewrite E in PS. rewrite V, Z.eqb_refl in PS. cbn in PS. now apply zmem_in.
Qed.

(* the lower window as a proposition *)
Definition lwp (st : state) : Prop :=
  (forall tk dv H x r0, tget (s_dtr st) tk = Some (dv, H) -> In x H -> rget (s_reps st) (x, tk) = Some r0 -> dv <= r_ver r0) /\
  (forall e dv H, In e (s_pool st) -> k_kind (p_rpc e) = K_SetVersion ->
     tget (s_dtr st) (rtk (p_rpc e)) = Some (dv, H) -> k_ver (p_rpc e) = dv + 1 -> In (k_ts (p_rpc e)) H).

Lemma lw_ok_lwp : forall st, lw_ok st = true -> lwp st.
Proof.
  intros st LW. apply andb_true_iff in LW as [HV PS]. split.
  - intros tk dv H x r0 E I G. eapply hv_use; eauto.
  - intros e dv H I K E V. eapply ps_use; eauto.
Qed.

Lemma side_of : forall st e mode,
  lwp st -> In e (s_pool st) ->
  (if k_kind (p_rpc e) =? K_Create then (mode =? 4) || negb (durable st (tkey (k_blob (p_rpc e)) (k_tract (p_rpc e)))) else true) = true ->
  (if k_kind (p_rpc e) =? K_PullTract then (mode =? 4) || negb (stale_pull st (p_rpc e)) else true) = true ->
  (mode =? 4) = false -> side_ok st e.
Proof.
  intros st e mode [HV PS] Ie C P M. rewrite M in C, P. cbn in C, P. split; [|split].
  - intros K. rewrite K, Z.eqb_refl in C. apply negb_true_iff in C. unfold durable in C. unfold rtk.
    destruct (tget (s_dtr st) _); [discriminate | reflexivity].
  - intros K. rewrite K, Z.eqb_refl in P. now apply negb_true_iff in P.
  - intros K dv H E. split.
    + intros V. eapply PS; eauto.
    + intros r0 I G. eapply HV; eauto.
Qed.

Definition G (st : state) : Prop := Inv2 st /\ att_ok st /\ ord_ok st /\ acked_ok st /\ tr_ok st /\ cinv st.

Lemma cinv_machU : forall st st', Inv2 st -> Inv2 st' -> ops_uniq st -> tr_ok st -> cinv st -> machU st st' ->
  cinv st' /\ tr_ok st'.
Proof.
  intros st st' I2 [[D' _] _] U T C M. destruct (M T U) as (T' & _ & M'). split; auto. eapply cinv_mach; eauto.
Qed.

Lemma mode_ok_cases : forall L mode, mode_ok L mode = true -> 1 <= mode <= 5.
Proof.
  intros L mode H. unfold mode_ok in H. destruct (L <=? 1).
  - apply orb_true_iff in H as [H|H]; apply Z.eqb_eq in H; lia.
  - apply andb_true_iff in H as [H1 H2]. apply Z.leb_le in H1, H2. lia.
Qed.

Lemma ops_uniq_same : forall st st', s_ops st' = s_ops st -> ops_uniq st -> ops_uniq st'.
Proof. intros st st' E U. unfold ops_uniq in *. now rewrite E. Qed.

Lemma cinv_step_exec : forall L st mode r,
  ok_ev L st (7 :: mode :: r) = true -> lwp st -> G st ->
  cinv (fst (step_exec st mode r)) /\ tr_ok (fst (step_exec st mode r)).
Proof.
  intros L st mode r OK LW (I2 & A & OO & AK & T & C).
  pose proof (inv2_step_exec st mode r I2) as I2F.
  pose proof OO as (U & _).
  unfold step_exec in *. cbn [ok_ev] in OK. change (7 =? 3) with false in OK. change (7 =? 4) with false in OK. change (7 =? 7) with true in OK. cbv iota in OK.
  destruct (parse_rpc r) as [[rp r1]|]; [|split; assumption].
  destruct r1 as [|nh r2]; [split; assumption|].
  destruct (take nh r2) as [place r3].
  destruct (find_pent (s_pool st) rp 0) as [e|] eqn:F; [|split; assumption].
  pose proof (find_pent_eq _ _ _ _ F) as ERP. pose proof (find_pent_st _ _ _ _ F) as EST. apply find_pent_in in F.
  apply andb_true_iff in OK as [OK OKP]. apply andb_true_iff in OK as [OKM OKC].
  set (hint := place ++ [-1] ++ match r3 with nd :: r4 => fst (take nd r4) | [] => [] end) in *.
  assert (SD0 : (mode =? 4) = false -> side_ok st e) by (intro M4; rewrite <- ERP in OKC, OKP; exact (side_of st e mode LW F OKC OKP M4)).
  destruct (mode =? 4) eqn:M4.
  { cbn [fst] in *. apply (cinv_machU st); auto.
    apply (machU_trans _ (resume st e false hint)); [apply machU_resume; intro Y; discriminate Y | apply machU_flush]. }
  destruct (mode =? 6) eqn:M6.
  { exfalso. apply Z.eqb_eq in M6. pose proof (mode_ok_cases _ _ OKM). lia. }
  destruct (k_kind rp =? K_FixVersion) eqn:KF.
  { cbn [fst] in *. apply Z.eqb_eq in KF.
    set (e2 := set_pent e 1 [] [] (mode =? 2) (negb (mode =? 5))) in *.
    set (sa := set_pool st (pool_update (s_pool st) e2)) in *.
    set (sb := set_nsynth sa (s_nsynth st + 1)) in *.
    apply (cinv_machU st); auto.
    assert (TB : tr_ok sb) by (apply (tr_ok_upd st st); auto; repeat split).
    assert (MB : mach st sb).
    { apply mach_basic; try reflexivity. intros e' I Ce. cbn in I. apply in_pool_update in I as [I|I].
      - subst e'. assert (KE : k_kind (p_rpc e2) = K_FixVersion) by (cbn; rewrite ERP; exact KF).
        destruct Ce as [[Ce|Ce]|[Ce|Ce]]; rewrite KE in Ce; discriminate Ce.
      - exists e'. split; auto using same4_refl. }
    apply (machU_trans _ sb); [intros _ _; split; [exact TB|]; split; [exact U | exact MB]|].
    eapply machU_trans; [|apply machU_flush]. apply machU_of; [|apply keeps_start_task].
    destruct T as (T0 & T1 & T2). apply machT_start_task.
    - cbn. apply T1. exact F.
    - intros _ x Ix Id. cbn in Ix, Id. unfold pool_update in Ix. apply in_map_iff in Ix as (y & Ey & Iy).
      destruct (p_id y =? p_id e2) eqn:Q; subst x; [cbn; rewrite ERP; exact KF|]. apply Z.eqb_neq in Q. cbn in Q. contradiction. }
  destruct (exec_rpc st e place) as [[st1 res] tr] eqn:X1.
  specialize (SD0 eq_refl). rename SD0 into SD.
  destruct (mode =? 3) eqn:M3.
  { (* executed twice: the reply of the first execution is the one that travels *)
    destruct (exec_rpc st1 e place) as [[st1b res2] tr2] eqn:X2. cbn [fst] in *.
    destruct (cinv_exec_upd2 st e place st1 res tr st1b res2 tr2 (3 =? 2) (negb (3 =? 5)) I2 OO T C F EST SD X1 X2) as [C2 T2].
    apply Z.eqb_eq in M3. subst mode.
    pose proof I2 as [I W].
    destruct (inv_exec _ _ _ _ _ _ I X1) as (E1 & P1 & TB1).
    assert (J1 : Inv2 st1) by (split; [exact (evolves_inv _ _ E1 I) | exact (win_exec _ _ _ _ _ _ I2 F X1)]).
    assert (F1 : In e (s_pool st1)) by (rewrite P1; exact F).
    destruct (inv_exec _ _ _ _ _ _ (proj1 J1) X2) as (E2 & P2 & TB2).
    assert (J1b : Inv2 st1b) by (split; [exact (evolves_inv _ _ E2 (proj1 J1)) | exact (win_exec _ _ _ _ _ _ J1 F1 X2)]).
    set (st2 := set_pool st1b (pool_update (s_pool st1b) (set_pent e 2 res tr (3 =? 2) (negb (3 =? 5))))) in *.
    assert (J2 : Inv2 st2).
    { split; [apply inv_pool_update; [exact (proj1 J1b) | rewrite P2; exact F1 |] | apply win_pool_update; [exact (proj2 J1b) | rewrite P2; exact F1]].
      intros x Hx. destruct J1 as [[D1 _] _]. eapply bound_advances; [apply evolves_advances; exact E2 | exact D1 | apply (TB1 _ Hx)]. }
    assert (U2 : ops_uniq st2).
    { destruct (exec_misc _ _ _ _ _ _ X1) as (_ & O1 & _). destruct (exec_misc _ _ _ _ _ _ X2) as (_ & O2 & _).
      apply (ops_uniq_same st); auto. cbn. congruence. }
    apply (cinv_machU st2); auto. apply machU_flush. }
  cbn [fst] in *.
  destruct (cinv_exec_upd st e place st1 res tr (mode =? 2) (negb (mode =? 5)) I2 OO T C F EST SD X1) as [C2 T2].
  pose proof I2 as [I W].
  destruct (inv_exec _ _ _ _ _ _ I X1) as (E1 & P1 & TB1).
  assert (J1 : Inv2 st1) by (split; [exact (evolves_inv _ _ E1 I) | exact (win_exec _ _ _ _ _ _ I2 F X1)]).
  set (st2 := set_pool st1 (pool_update (s_pool st1) (set_pent e 2 res tr (mode =? 2) (negb (mode =? 5))))) in *.
  assert (J2 : Inv2 st2).
  { split; [apply inv_pool_update; [exact (proj1 J1) | rewrite P1; exact F | exact TB1] | apply win_pool_update; [exact (proj2 J1) | rewrite P1; exact F]]. }
  assert (U2 : ops_uniq st2).
  { destruct (exec_misc _ _ _ _ _ _ X1) as (_ & O1 & _). apply (ops_uniq_same st); auto. }
  apply (cinv_machU st2); auto. apply machU_flush.
Qed.

(* ---------- client events ---------- *)
Lemma op_of_client_app : forall ops o c o', op_of_client ops c = Some o' -> op_of_client (ops ++ [o]) c = Some o'.
Proof.
  unfold op_of_client. induction ops as [|a l IH]; intros o c o' H; cbn in *; [discriminate|].
  destruct (o_cli a =? c); [exact H | apply IH; exact H].
Qed.

Lemma cinv_add_op : forall st o,
  op_of_client (s_ops st) (o_cli o) = None -> o_succ o = [] -> o_acked o = [] ->
  (forall e, In e (s_pool st) -> wkind (p_rpc e) -> k_cli (p_rpc e) = o_cli o -> 0 < k_len (p_rpc e) -> False) ->
  cinv st -> cinv (set_ops st (s_ops st ++ [o])).
Proof.
  intros st o IDLE S0 A0 NW (V1 & S & Q & QA & K0 & PA & AD).
  set (st' := set_ops st (s_ops st ++ [o])).
  assert (NOACC : forall tk h v, 0 < snd (segl o (snd tk)) -> ~ acc st' o tk h v).
  { intros tk h v Ln [X|(e & I & _ & W & Cc & _ & _ & _ & _ & Le)].
    - unfold acc_succ in X. rewrite S0 in X. discriminate X.
    - apply (NW e I W Cc). lia. }
  assert (NOAX : forall tk, ~ ackx st' o tk).
  { intros tk [X|(e & I & Kd & Cc & _)]; [rewrite A0 in X; discriminate X|].
    destruct (PA _ I Kd) as (o' & OC & _). rewrite Cc in OC. cbn in OC. congruence. }
  assert (OLD : forall o', In o' (s_ops st') -> o' = o \/ In o' (s_ops st)).
  { intros o' I. cbn in I. apply in_app_or in I as [I|[I|[]]]; auto. }
  split; [exact V1|]. split; [|split; [|split; [|split; [exact K0|split; [|exact AD]]]]].
  - intros o' tk h v [I Kd] Bl Ln AC. destruct (OLD _ I) as [E|I0]; [subst o'; exfalso; exact (NOACC _ _ _ Ln AC)|].
    exact (S o' tk h v (conj I0 Kd) Bl Ln AC).
  - intros cli tk v Hk dv H g r oo VX L E G Cu OK.
    destruct oo as [o'|]; [|exact (Q cli tk v Hk dv H g r None VX L E G Cu I)].
    destruct OK as ([I Kd] & Cc & Bl & Ln). destruct (OLD _ I) as [E0|I0].
    + subst o'. destruct (Q cli tk v Hk dv H g r None VX L E G Cu Logic.I) as [X|(h & Ih & _ & St)]; [destruct X|].
      right. exists h. split; auto. split; [exact (NOACC _ _ _ Ln) | exact St].
    + exact (Q cli tk v Hk dv H g r (Some o') VX L E G Cu (conj (conj I0 Kd) (conj Cc (conj Bl Ln)))).
  - intros o' tk [I Kd] Bl AX. destruct (OLD _ I) as [E|I0]; [subst o'; exfalso; exact (NOAX _ AX)|].
    exact (QA o' tk (conj I0 Kd) Bl AX).
  - intros e I Kd. destruct (PA _ I Kd) as (o' & OC & Rest). exists o'. split; [|exact Rest]. cbn. now apply op_of_client_app.
Qed.

(* a client sends a request: a parked entry without evidence *)
Lemma cinv_add_entry : forall st enew,
  p_st enew = 0 -> p_tr enew = [] ->
  (k_kind (p_rpc enew) = K_AckExtend ->
     exists o, op_of_client (s_ops st) (k_cli (p_rpc enew)) = Some o /\ o_kind o = 3 /\ o_blob o = k_blob (p_rpc enew) /\ strictP o (p_rpc enew)) ->
  cinv st -> cinv (set_pool st (s_pool st ++ [enew])).
Proof.
  intros st enew Pz Tz PAN (V1 & S & Q & QA & K0 & PA & AD).
  set (st' := set_pool st (s_pool st ++ [enew])).
  assert (INP : forall e, In e (s_pool st') -> e = enew \/ In e (s_pool st)).
  { intros e I. cbn in I. apply in_app_or in I as [I|[I|[]]]; auto. }
  assert (ACC : forall o tk h v, acc st' o tk h v -> acc st o tk h v).
  { intros o tk h v [X|(e & I & OKr & Rest)]; [left; exact X|]. destruct (INP _ I) as [E|I0]; [subst e; destruct OKr; lia|]. right. exists e. split; auto. }
  assert (VK : forall cli tk v Hk, vkx st' cli tk v Hk -> vkx st cli tk v Hk).
  { intros cli tk v Hk [[X|(e & x & I & Kd & Cc & Ix & Rest)]|X]; [left; left; exact X | | right; exact X].
    destruct (INP _ I) as [E|I0]; [subst e; rewrite Tz in Ix; destruct Ix|]. left. right. exists e, x. auto. }
  assert (AX : forall o tk, ackx st' o tk -> ackx st o tk).
  { intros o tk [X|(e & I & Kd & Cc & [OK1 OK2] & T)]; [left; exact X|]. destruct (INP _ I) as [E|I0]; [subst e; lia|]. right. exists e. repeat split; auto. }
  split; [exact V1|]. split; [|split; [|split; [|split; [|split; [|exact AD]]]]].
  - intros o tk h v WO Bl Ln AC. exact (S o tk h v WO Bl Ln (ACC _ _ _ _ AC)).
  - intros cli tk v Hk dv H g r oo VX L E G Cu OK.
    destruct (Q cli tk v Hk dv H g r oo (VK _ _ _ _ VX) L E G Cu OK) as [X|(h & Ih & N & St)]; [left; exact X|].
    right. exists h. split; auto. split; [|exact St]. destruct oo; cbn in *; auto.
  - intros o tk WO Bl A. exact (QA o tk WO Bl (AX _ _ A)).
  - intros cli tk v Hk X L. apply (K0 cli tk v Hk); auto.
    destruct X as [X|(e & x & I & Kd & Cc & Ix & Rest)]; [left; exact X|].
    destruct (INP _ I) as [E|I0]; [subst e; rewrite Tz in Ix; destruct Ix|]. right. exists e, x. auto.
  - intros e I Kd. destruct (INP _ I) as [E|I0]; [|exact (PA _ I0 Kd)]. subst e.
    destruct (PAN Kd) as (o & OC & Ko & Bo & St). exists o. auto.
Qed.

(* ---------- the end of an operation ---------- *)
Lemma TL_pos : 0 < TL.
Proof. unfold TL. reflexivity. Qed.

Lemma seg_in_tracts : forall off len j, 0 < snd (seg_of off len j) -> In j (tracts_of off len).
Proof.
  intros off len j H. unfold seg_of in H. cbn in H. pose proof TL_pos as P.
  assert (L1 : off < (j + 1) * TL) by lia. assert (L2 : j * TL < off + len) by lia. assert (L3 : 0 < len) by lia.
  unfold tracts_of. destruct (len <=? 0) eqn:E; [apply Z.leb_le in E; lia|].
  assert (A : off / TL <= j).
  { assert (off / TL < j + 1); [|lia]. apply Z.div_lt_upper_bound; lia. }
  assert (B : j <= (off + len - 1) / TL) by (apply Z.div_le_lower_bound; lia).
  apply in_map_iff. exists (Z.to_nat (j - off / TL)). split; [lia|]. apply in_seq. lia.
Qed.

Lemma uniq_id : forall ops a b, NoDup (map o_id ops) -> In a ops -> In b ops -> o_id a = o_id b -> a = b.
Proof.
  induction ops as [|x l IH]; intros a b ND Ia Ib E; [destruct Ia|].
  cbn in ND. inversion ND; subst. destruct Ia as [Ia|Ia]; destruct Ib as [Ib|Ib]; subst; auto.
  - exfalso. apply H1. rewrite E. now apply in_map.
  - exfalso. apply H1. rewrite <- E. now apply in_map.
Qed.

Lemma op_of_client_del : forall ops id c o', op_of_client ops c = Some o' -> o_id o' <> id ->
  op_of_client (del_op ops id) c = Some o'.
Proof.
  unfold op_of_client, del_op. induction ops as [|a l IH]; intros id c o' H N; cbn in *; [discriminate|].
  destruct (o_cli a =? c) eqn:C.
  - inversion H; subst a. destruct (o_id o' =? id) eqn:Q; [apply Z.eqb_eq in Q; contradiction|]. cbn. rewrite C. reflexivity.
  - destruct (negb (o_id a =? id)); cbn; [rewrite C|]; apply IH; auto.
Qed.

Lemma cinv_del_op : forall st o, In o (s_ops st) -> ops_uniq st -> client_busy st (o_cli o) = false ->
  cinv st -> cinv (set_ops st (del_op (s_ops st) (o_id o))).
Proof.
  intros st o Io [UI UC] NB (V1 & S & Q & QA & K0 & PA & AD).
  assert (SUB : forall o', In o' (del_op (s_ops st) (o_id o)) -> In o' (s_ops st)).
  { intros o' I. unfold del_op in I. apply filter_In in I as [I _]. exact I. }
  split; [exact V1|]. split; [|split; [|split; [|split; [exact K0|split; [|exact AD]]]]].
  - intros o' tk h v [I Kd] Bl Ln AC. exact (S o' tk h v (conj (SUB _ I) Kd) Bl Ln AC).
  - intros cli tk v Hk dv H g r oo VX L E G Cu OK.
    assert (OK0 : oo_ok st cli tk oo) by (destruct oo; cbn in *; auto; destruct OK as ([I Kd] & R); split; auto; split; auto).
    exact (Q cli tk v Hk dv H g r oo VX L E G Cu OK0).
  - intros o' tk [I Kd] Bl AX. exact (QA o' tk (conj (SUB _ I) Kd) Bl AX).
  - intros e I Kd. destruct (PA _ I Kd) as (o' & OC & Rest). exists o'. split; [|exact Rest]. cbn [s_ops set_ops].
    apply op_of_client_del; auto. intro E.
    assert (o' = o) by (eapply uniq_id; eauto; eapply op_of_client_in; eauto). subst o'.
    unfold client_busy in NB. assert (X : existsb (fun e0 => (k_cli (p_rpc e0) =? o_cli o) && sync_kind (k_kind (p_rpc e0))) (s_pool st) = true); [|congruence].
    apply existsb_exists. exists e. split; auto. rewrite (op_of_client_cli _ _ _ OC), Z.eqb_refl, Kd. reflexivity.
Qed.

Lemma ack_covers : forall st o, cinv st -> wop st o -> ack_allowed st o = true ->
  forall j, 0 < snd (segl o j) ->
  exists dv H, tget (s_dtr st) (o_blob o, j) = Some (dv, H) /\
    forall g r, rget (s_reps st) (g, (o_blob o, j)) = Some r -> curv dv H g r -> In (orec o j) (r_app r).
Proof.
  intros st o (V1 & S & Q & QA & K0 & PA & AD) WO AA j Ln.
  unfold ack_allowed in AA. rewrite forallb_forall in AA. specialize (AA j (seg_in_tracts _ _ _ Ln)).
  fold (segl o j) in AA. destruct (segl o j) as [toff tlen] eqn:SG.
  apply existsb_exists in AA as (ke & Ik & AA).
  apply andb_true_iff in AA as [AA DA]. apply andb_true_iff in AA as [AA ALL]. apply andb_true_iff in AA as [AA NE].
  apply andb_true_iff in AA as [CL TKE]. apply Z.eqb_eq in CL. apply tk_eqb_eq in TKE.
  set (tk := tkey (o_blob o) j) in *.
  assert (LN : 0 < snd (segl o (snd tk))) by (unfold tk, tkey; cbn [snd]; rewrite SG; exact Ln).
  apply orb_true_iff in DA as [DA|DA].
  - (* an entry from GetTracts all of whose hosts accepted *)
    assert (VX : vk st (o_cli o) tk (ke_ver ke) (ke_hosts ke)) by (left; exists ke; repeat split; auto).
    assert (NEH : ke_hosts ke <> []).
    { intro X. rewrite X in NE. discriminate NE. }
    destruct (K0 _ _ _ _ VX (or_intror NEH)) as (dv & H & E). exists dv, H. split; [exact E|].
    intros g r G Cu.
    destruct (Q (o_cli o) tk (ke_ver ke) (ke_hosts ke) dv H g r (Some o) (or_introl VX) (or_intror NEH) E G Cu) as [X|(h & Ih & N & _)].
    + cbn. auto.
    + exact X.
    + exfalso. apply N. left. unfold acc_succ. cbn [snd tk tkey]. rewrite SG. cbn [fst snd].
      rewrite forallb_forall in ALL. exact (ALL _ Ih).
  - (* the tract was made durable by this write's AckExtend *)
    destruct (QA o tk WO eq_refl (or_introl DA)) as (dv & H & E & X). exists dv, H. split; [exact E|].
    intros g r G Cu. exact (X LN g r G Cu).
Qed.

(* ---------- one event ---------- *)
Lemma tr_ok_issue : forall st r o, tr_ok st -> tr_ok (issue st r o).
Proof.
  intros st r o (T0 & T1 & T2). split; [cbn; lia|]. split.
  - intros e I. cbn in I. cbn [s_next issue set_next set_pool]. apply in_app_or in I as [I|[I|[]]]; [specialize (T1 _ I); lia | subst e; cbn; lia].
  - intros t I. cbn in I. destruct (T2 _ I) as [L F]. split; [cbn; lia|].
    intros NZ e Ie Id. cbn in Ie. apply in_app_or in Ie as [Ie|[Ie|[]]]; [eauto|]. subst e. cbn in Id. lia.
Qed.

Lemma strict_of_bool : forall st rp o, op_of_client (s_ops st) (k_cli rp) = Some o -> ackext_strict st rp = true -> strictP o rp.
Proof.
  intros st rp o OC H. unfold ackext_strict in H. rewrite OC in H. apply andb_true_iff in H as [CS FA]. split; [exact CS|].
  intros idx ver hs h Ix Ln Ih. rewrite forallb_forall in FA. specialize (FA _ Ix). cbv beta iota in FA.
  unfold segl in *. destruct (seg_of (o_off o) (o_len o) idx) as [toff tlen]. cbn [fst snd] in *.
  apply orb_true_iff in FA as [FA|FA]; [apply Z.leb_le in FA; lia|].
  rewrite forallb_forall in FA. apply in_map_iff in Ih as ([h' kn] & Eh & Ih). cbn in Eh. subst h'. exact (FA _ Ih).
Qed.

Lemma keeps_change_tract : forall st term b t v h, keeps st (fst (change_tract st term b t v h)).
Proof. intros. apply keeps_of_still_ops; [apply still_change_tract | apply ops_change_tract]. Qed.

Theorem ct_step : forall L st ev, ok_ev L st ev = true -> lwp st -> G st ->
  cinv (fst (step st ev)) /\ tr_ok (fst (step st ev)).
Proof.
  intros L st ev OK0 LW0 G0.
  assert (NE : hd 0 ev <> 17).
  { destruct ev as [|c a]; [cbn; lia|]. cbn. intro X. subst c. cbn in OK0. discriminate OK0. }
  pose proof (inv2_step st ev NE (proj1 G0)) as I2F.
  unfold step in *.
  assert (OK : ok_ev L (set_out st []) ev = true) by exact OK0.
  assert (LW : lwp (set_out st [])) by exact LW0.
  assert (GS : G (set_out st [])) by exact G0. clear OK0 LW0 G0.
  set (s := set_out st []) in *. clearbody s.
  pose proof GS as (I2 & A & OO & AK & T & C). pose proof OO as (U & _ & _ & O4 & _).
  destruct ev as [|c a]; [split; assumption|]. unfold ok_ev in OK.
  destruct (c =? 1) eqn:C1. { destruct a; split; assumption. }
  destruct (c =? 2) eqn:C2. { destruct a as [|x [|y [|z a]]]; try (split; assumption). destruct (zget (s_blobs s) x); split; assumption. }
  destruct (c =? 3) eqn:C3.
  { destruct a as [|x1 [|x2 [|x3 [|x4 [|x5 [|x6 [|x7 a]]]]]]]; try (split; assumption). cbn [fst].
    repeat (apply andb_true_iff in OK as [OK ?]). apply negb_true_iff in OK.
    destruct (find_op (s_ops s) x1) eqn:FO; [discriminate|]. destruct (op_of_client (s_ops s) x2) eqn:OC; [discriminate|].
    pose proof (existsb_kind3_false _ OK) as NW.
    split; [|exact T].
    apply (cinv_add_op s {| o_id := x1; o_kind := 3; o_cli := x2; o_blob := x3; o_off := x4; o_len := x5; o_wid := x6;
                            o_succ := []; o_acked := []; o_reads := [] |}); auto.
    intros e Ie W _ Ln. destruct (O4 _ Ie W Ln) as (o' & Io' & Ko' & _). exact (NW _ Io' Ko'). }
  destruct (c =? 4) eqn:C4.
  { destruct a as [|x1 [|x2 [|x3 [|x4 [|x5 [|x6 a]]]]]]; try (split; assumption). cbn [fst].
    apply andb_true_iff in OK as [OK1 OK2].
    destruct (op_of_client (s_ops s) x2) eqn:OC; [discriminate|].
    split; [|exact T].
    apply (cinv_add_op s {| o_id := x1; o_kind := 4; o_cli := x2; o_blob := x3; o_off := x4; o_len := x5; o_wid := 0;
                            o_succ := []; o_acked := []; o_reads := [] |}); auto.
    intros e Ie W Cc Ln. destruct (O4 _ Ie W Ln) as (o' & Io' & _ & _ & Co'). cbn in Cc.
    apply (op_of_client_none _ _ OC). rewrite <- Cc, <- Co'. now apply in_map. }
  destruct (c =? 5) eqn:C5.
  { destruct a as [|x1 [|x2 [|x3 [|x4 [|x5 a]]]]]; try (split; assumption). destruct (take x5 a) as [bad rest]. cbn [fst] in *.
    apply (cinv_machU s); auto.
    eapply machU_trans; [|apply machU_flush]. apply machU_of; [|apply keeps_start_task].
    destruct T as (T0 & _). apply machT_start_task; [cbn; lia | intro X; cbn in X; contradiction]. }
  destruct (c =? 6) eqn:C6.
  { destruct a as [|x1 [|x2 [|x3 [|x4 [|x5 [|x6 [|x7 a]]]]]]]; try (split; assumption). cbn [fst] in *.
    apply (cinv_machU s); auto.
    eapply machU_trans; [|apply machU_flush]. apply machU_of; [|apply keeps_start_task].
    destruct T as (T0 & _). apply machT_start_task; [cbn; lia | intro X; cbn in X; contradiction]. }
  destruct (c =? 7) eqn:C7.
  { destruct a as [|mode rest]; [split; assumption|]. apply Z.eqb_eq in C7. subst c. apply (cinv_step_exec L); auto. }
  destruct (c =? 8) eqn:C8.
  { destruct a as [|lose r]; [split; assumption|]. unfold step_reply in *.
    destruct (parse_rpc r) as [[rp r1]|]; [|split; assumption].
    destruct (find_pent (s_pool s) rp 2) as [e|] eqn:F; [|split; assumption]. cbn [fst] in *.
    pose proof (find_pent_st _ _ _ _ F) as EST. apply find_pent_in in F.
    apply (cinv_machU s); auto.
    eapply machU_trans; [apply machU_resume; intros _; split; [exact F | exact EST] | apply machU_flush]. }
  destruct (c =? 9) eqn:C9.
  { destruct a as [|ts [|y a]]; try (split; assumption). unfold step_restart in *. cbn [fst] in *.
    apply (cinv_machU s); auto. apply machU_fold_victims. }
  destruct (c =? 10) eqn:C10. { destruct a; split; assumption. }
  destruct (c =? 11) eqn:C11. { destruct a as [|ts [|y a]]; split; assumption. }
  destruct (c =? 12) eqn:C12.
  { destruct a as [|x1 [|x2 [|x3 [|x4 [|x5 a]]]]]; try (split; assumption). unfold step_probe in *.
    destruct (tget (s_dtr s) (tkey x1 x2)) as [[ver hosts]|]; [|split; assumption].
    destruct ((x3 =? 1) && (x4 =? 0)); [split; assumption|].
    match goal with |- context [change_tract ?a ?b ?c ?d ?e ?f] =>
      pose proof (machT_change_tract a b c d e f) as MC; pose proof (keeps_change_tract a b c d e f) as KC;
      destruct (change_tract a b c d e f) as [s1 cc] end.
    cbn [fst] in *. apply (cinv_machU s); auto. apply machU_of; auto. }
  destruct (c =? 13) eqn:C13.
  { unfold step_issue in *. destruct (parse_rpc a) as [[rp r1]|]; [|split; assumption].
    destruct (issue_allowed s rp) eqn:IA; [|split; assumption]. cbn [fst] in *.
    apply andb_true_iff in OK as [OKW OKA].
    split; [|apply tr_ok_issue; exact T].
    apply (cinv_add_entry s {| p_id := s_next s; p_rpc := rp; p_st := 0; p_res := []; p_tr := []; p_lose := false; p_auto := true; p_owner := 0 |}); auto.
    cbn. intros Kd. rewrite Kd in *. cbn in OKA.
    unfold issue_allowed in IA. rewrite Kd in IA. cbn in IA. apply andb_true_iff in IA as [_ IA].
    unfold ackext_allowed in IA. destruct (op_of_client (s_ops s) (k_cli rp)) as [o|] eqn:OC; [|discriminate].
    apply andb_true_iff in IA as [IA _]. apply andb_true_iff in IA as [IK IB]. apply Z.eqb_eq in IK, IB.
    exists o. repeat split; auto; eapply strict_of_bool; eauto. }
  destruct (c =? 14) eqn:C14.
  { destruct a as [|x1 [|x2 [|x3 a]]]; try (split; assumption). unfold step_finclient in *.
    destruct (find_op (s_ops s) x1) as [o|] eqn:FO; [|split; assumption].
    apply find_op_some in FO as [IO ID]. apply negb_true_iff in OK. subst x1.
    pose proof (cinv_del_op s o IO U OK C) as C1'.
    set (s1 := set_ops s (del_op (s_ops s) (o_id o))) in *.
    assert (T1' : tr_ok s1) by exact T.
    destruct (existsb _ (s_pool s)); [split; assumption|].
    destruct (o_kind o =? 3) eqn:K3.
    2: { repeat match goal with |- context [match ?x with _ => _ end] => destruct x eqn:?
                            | |- context [if ?x then _ else _] => destruct x eqn:? end; split; assumption. }
    destruct ((x3 =? cl_NoError) && (x2 =? o_len o)); [|split; assumption].
    destruct (ack_allowed s o) eqn:AA; [|split; assumption]. cbn [fst].
    split; [|exact T1']. apply Z.eqb_eq in K3.
    pose proof (ack_covers s o C (conj IO K3) AA) as COV.
    destruct C1' as (V1 & S1 & Q1 & QA1 & K01 & PA1 & AD1).
    split; [|split; [exact S1|split; [exact Q1|split; [exact QA1|split; [exact K01|split; [exact PA1|]]]]]].
    - intros b wid W j dv H g r IA E G Cu Ln. cbn [s_acked set_acked] in IA. destruct IA as [IA|IA]; [|exact (V1 b wid W j dv H g r IA E G Cu Ln)].
      inversion IA; subst b wid W. destruct (COV j Ln) as (dv0 & H0 & E0 & X). cbn in E, G.
      unfold tkey in *. rewrite E in E0. inversion E0; subst dv0 H0. exact (X g r G Cu).
    - intros b wid W j IA Ln. cbn [s_acked set_acked] in IA. destruct IA as [IA|IA]; [|exact (AD1 b wid W j IA Ln)].
      inversion IA; subst b wid W. destruct (COV j Ln) as (dv0 & H0 & E0 & _). exists dv0, H0. exact E0. }
  destruct (c =? 15) eqn:C15. { destruct a as [|op [|y a]]; try (split; assumption). destruct (zget (s_fin s) op); split; assumption. }
  destruct (c =? 16) eqn:C16.
  { unfold step_rpcdone. repeat match goal with |- context [match ?x with _ => _ end] => destruct x eqn:? end; split; assumption. }
  destruct (c =? 17) eqn:C17. { discriminate. }
  split; assumption.
Qed.

(* ---------- along a schedule ---------- *)
Theorem G_step : forall L st ev, ok_ev L st ev = true -> lwp st -> G st -> G (fst (step st ev)).
Proof.
  intros L st ev OK LW GS. pose proof GS as (I2 & A & OO & AK & T & C).
  assert (NE : hd 0 ev <> 17).
  { destruct ev as [|c a]; [cbn; lia|]. cbn. intro X. subst c. cbn in OK. discriminate OK. }
  destruct (ct_step L st ev OK LW GS) as [C' T'].
  split; [apply inv2_step; auto|]. split; [apply att_step; auto|]. split; [eapply ord_step; eauto|].
  split; [apply acked_ok_step; auto|]. split; auto.
Qed.

Lemma G_init : G init_state.
Proof.
  split; [exact inv2_init|]. split; [exact att_init|]. split; [exact ord_init|].
  split; [intros x I; destruct I|]. split.
  - split; [cbn; lia|]. split; intros x I; destruct I.
  - split; [|split; [|split; [|split; [|split; [|split]]]]].
    + intros b wid W j dv H g r I. destruct I.
    + intros o tk h v [I _]. destruct I.
    + intros cli tk v Hk dv H g r oo _ _ E. cbn in E. discriminate E.
    + intros o tk [I _]. destruct I.
    + intros cli tk v Hk [(ke & I & _)|(e & x & I & _)]; destruct I.
    + intros e I. destruct I.
    + intros b wid W j I. destruct I.
Qed.

Theorem G_run : forall L evs st, ok_run L st evs = true -> lw_run st evs = true -> G st -> G (run_state st evs).
Proof.
  induction evs as [|ev evs IH]; intros st OK LW GS; [exact GS|].
  cbn in OK, LW. apply andb_true_iff in OK as [OK1 OK2]. apply andb_true_iff in LW as [LW1 LW2].
  cbn [run_state]. apply IH; auto. eapply G_step; eauto. now apply lw_ok_lwp.
Qed.

(* ---------- visibility ---------- *)
Lemma is_acked_in : forall st b wid, is_acked st b wid = true -> exists W, In (b, wid, W) (s_acked st).
Proof.
  intros st b wid H. unfold is_acked in H. apply existsb_exists in H as ([[b' w'] W] & I & E).
  apply andb_true_iff in E as [E1 E2]. apply Z.eqb_eq in E1, E2. subst. exists W. exact I.
Qed.

Theorem vis_of_G : forall st b j h p, G st -> 0 <= p < TL -> vis_ok st b j h p = true.
Proof.
  intros st b j h p (I2 & A & OO & AK & T & C) P. unfold vis_ok.
  destruct (tget (s_dtr st) (tkey b j)) as [[dv hosts]|] eqn:E; [|reflexivity].
  destruct (negb (zmem h hosts)) eqn:ZM; [reflexivity|]. apply negb_false_iff in ZM. apply zmem_in in ZM.
  destruct (rget (s_reps st) (h, tkey b j)) as [r|] eqn:G0; [|reflexivity].
  destruct (negb (r_ver r =? dv)) eqn:VV; [reflexivity|]. apply negb_false_iff in VV. apply Z.eqb_eq in VV.
  unfold expected_byte. destruct (newest_cover (s_att st) b (j * TL + p)) as [wid|] eqn:NC.
  - destruct (is_acked st b wid) eqn:IA; [|reflexivity]. apply Z.eqb_eq.
    destruct (is_acked_in _ _ _ IA) as (W & IW). pose proof (AK _ IW) as IT.
    destruct (newest_cover_in _ _ _ _ NC) as (W0 & I0 & C0).
    pose proof OO as (U & AS & O1 & _).
    destruct (att_wid_unique _ _ _ _ _ _ AS IT I0) as [_ EW]. subst W0.
    assert (Ln : 0 < snd (seg_of (w_off W) (w_len W) j)).
    { unfold covers in C0. apply andb_true_iff in C0 as [C1 C2]. apply Z.leb_le in C1. apply Z.ltb_lt in C2.
      unfold seg_of. cbn. lia. }
    destruct C as (V1 & _). unfold tkey in *.
    assert (IR : In (rec_in wid W j) (r_app r)) by (eapply V1; eauto; left; auto).
    eapply shows_newest; eauto.
  - apply Z.eqb_eq. apply byte_at_zero. intros wr I. destruct (covers wr p) eqn:CV; auto. exfalso.
    destruct A as (_ & _ & A3). unfold tkey in G0. destruct (A3 _ _ _ _ _ G0 I) as (W & IA & S).
    apply (newest_cover_some _ _ _ _ (j * TL + p) IA); auto.
    unfold covers in *. apply andb_true_iff in CV as [C1 C2]. apply Z.leb_le in C1. apply Z.ltb_lt in C2.
    pose proof (seg_covers _ _ _ p _ _ S (conj C1 C2)) as [L1 L2].
    apply andb_true_iff. split; [apply Z.leb_le | apply Z.ltb_lt]; lia.
Qed.

Theorem acked_visible : forall L evs, ok_run L init_state evs = true -> lw_run init_state evs = true ->
  forall b j h p, 0 <= p < TL -> vis_ok (run_state init_state evs) b j h p = true.
Proof. intros L evs OK LW b j h p P. apply vis_of_G; auto. eapply G_run; eauto. apply G_init. Qed.
