(* Cluster/Crash.v — level 5 of the schedule alphabet: level 4 plus a tractserver crash in the middle of PullTract.
   The containment invariants are those of Cand.v (over candidate copies); provenance and the lower window come from
   Prov.v and Lower.v. *)
From Coq Require Import List ZArith Bool Lia.
From BLB Require Import Gen.Consts Cluster.Model Cluster.Proofs Cluster.Frame Cluster.Inv Cluster.Window
     Cluster.Attempts Cluster.Sched Cluster.Order Cluster.Contain Cluster.Visible Cluster.Lower Cluster.Prov Cluster.Cand.
Import ListNotations.
Open Scope Z_scope.

(* ---------- the boolean side condition of the crash ---------- *)
Lemma rpc_eqb_eq : forall a b, rpc_eqb a b = true -> a = b.
Proof. intros a b H. unfold rpc_eqb in H. apply rpc_line_inj. now apply list_eqb_eq. Qed.

Lemma owns_own : forall st op r, owns_b st op r = true -> own_rpc st op r.
Proof.
  intros st op r H. unfold owns_b in H. apply existsb_exists in H as (e & I & X). apply andb_true_iff in X as [X1 X2].
  apply Z.eqb_eq in X1. apply rpc_eqb_eq in X2. exists e. auto.
Qed.

Lemma pull_ok_refl : forall st tk v g, pull_ok st tk v g -> pull_ok_b st tk v g = true.
Proof.
  intros st tk v g (e & I & K & [O1 O2] & A & B & C). unfold pull_ok_b. apply existsb_exists. exists e. split; auto.
  unfold rtk in B. rewrite K, O1, O2, A, B, C, !Z.eqb_refl, tk_eqb_refl. reflexivity.
Qed.

Lemma counted_refl : forall st tk v g, counted st tk v g -> counted_b st tk v g = true.
Proof.
  intros st tk v g (t & I & A & B & C & D & F). unfold counted_b. apply existsb_exists. exists t. split; auto.
  unfold ttk in A. rewrite A, B, C, !Z.eqb_refl, tk_eqb_refl, (in_zmem _ _ D). cbn.
  destruct (owns_b st (t_op t) (pl_rpc t g)) eqn:Q; auto. exfalso. apply F. now apply owns_own.
Qed.

Lemma crash_safe_ncand : forall st r dv H, crash_safe st r = true -> tget (s_dtr st) (rtk r) = Some (dv, H) -> k_ver r = dv + 1 ->
  ~ cand st (rtk r) dv H (k_ts r).
Proof.
  intros st r dv H CS E V. unfold crash_safe in CS. unfold rtk in *. rewrite E in CS.
  apply andb_true_iff in CS as [CS C3]. apply andb_true_iff in CS as [C1 C2].
  apply negb_true_iff in C1, C2, C3. intros [X|[X|X]].
  - apply in_zmem in X. congruence.
  - apply pull_ok_refl in X. rewrite V in C2. congruence.
  - apply counted_refl in X. rewrite V in C3. congruence.
Qed.

(* ---------- client events ---------- *)
Lemma cinv5_add_op : forall st o,
  op_of_client (s_ops st) (o_cli o) = None -> o_succ o = [] -> o_acked o = [] ->
  (forall e, In e (s_pool st) -> wkind (p_rpc e) -> k_cli (p_rpc e) = o_cli o -> 0 < k_len (p_rpc e) -> False) ->
  cinv5 st -> cinv5 (set_ops st (s_ops st ++ [o])).
Proof.
  intros st o IDLE S0 A0 NW (V1 & S & Q & QA & K0 & PA & AD).
  set (st' := set_ops st (s_ops st ++ [o])).
  assert (NOACC : forall tk h v, 0 < snd (segl o (snd tk)) -> ~ acc st' o tk h v).
  { intros tk h v Ln [X|(e & I & _ & W & Cc & _ & _ & _ & _ & Le)].
    - unfold acc_succ in X. rewrite S0 in X. discriminate X.
    - apply (NW e I W Cc). lia. }
  assert (NOAX : forall tk, ~ ackx st' o tk).
  { intros tk [X|(e & I & Kd & Cc & _)]; [rewrite A0 in X; discriminate X|].
    destruct (PA _ I Kd) as (o' & OC & _). rewrite Cc in OC. cbn in OC. congruence. }
  assert (OLD : forall o', In o' (s_ops st') -> o' = o \/ In o' (s_ops st)).
  { intros o' I. cbn in I. apply in_app_or in I as [I|[I|[]]]; auto. }
  split; [exact V1|]. split; [|split; [|split; [|split; [exact K0|split; [|exact AD]]]]].
  - intros o' tk h v [I Kd] Bl Ln AC. destruct (OLD _ I) as [E|I0]; [subst o'; exfalso; exact (NOACC _ _ _ Ln AC)|].
    exact (S o' tk h v (conj I0 Kd) Bl Ln AC).
  - intros cli tk v Hk dv H g r oo VX L E G Cu OK.
    destruct oo as [o'|]; [|exact (Q cli tk v Hk dv H g r None VX L E G Cu I)].
    destruct OK as ([I Kd] & Cc & Bl & Ln). destruct (OLD _ I) as [E0|I0].
    + subst o'. destruct (Q cli tk v Hk dv H g r None VX L E G Cu Logic.I) as [X|(h & Ih & _ & St)]; [destruct X|].
      right. exists h. split; auto. split; [exact (NOACC _ _ _ Ln) | exact St].
    + exact (Q cli tk v Hk dv H g r (Some o') VX L E G Cu (conj (conj I0 Kd) (conj Cc (conj Bl Ln)))).
  - intros o' tk [I Kd] Bl AX. destruct (OLD _ I) as [E|I0]; [subst o'; exfalso; exact (NOAX _ AX)|].
    exact (QA o' tk (conj I0 Kd) Bl AX).
  - intros e I Kd. destruct (PA _ I Kd) as (o' & OC & Rest). exists o'. split; [|exact Rest]. cbn. now apply op_of_client_app.
Qed.


Lemma cinv5_add_entry : forall st enew,
  p_st enew = 0 -> p_tr enew = [] ->
  (k_kind (p_rpc enew) = K_AckExtend ->
     exists o, op_of_client (s_ops st) (k_cli (p_rpc enew)) = Some o /\ o_kind o = 3 /\ o_blob o = k_blob (p_rpc enew) /\ strictP o (p_rpc enew)) ->
  cinv5 st -> cinv5 (set_pool st (s_pool st ++ [enew])).
Proof.
  intros st enew Pz Tz PAN (V1 & S & Q & QA & K0 & PA & AD).
  set (st' := set_pool st (s_pool st ++ [enew])).
  assert (INP : forall e, In e (s_pool st') -> e = enew \/ In e (s_pool st)).
  { intros e I. cbn in I. apply in_app_or in I as [I|[I|[]]]; auto. }
  assert (ACC : forall o tk h v, acc st' o tk h v -> acc st o tk h v).
  { intros o tk h v [X|(e & I & OKr & Rest)]; [left; exact X|]. destruct (INP _ I) as [E|I0]; [subst e; destruct OKr; lia|]. right. exists e. split; auto. }
  assert (VK : forall cli tk v Hk, vkx st' cli tk v Hk -> vkx st cli tk v Hk).
  { intros cli tk v Hk [[X|(e & x & I & Kd & Cc & Ix & Rest)]|X]; [left; left; exact X | | right; exact X].
    destruct (INP _ I) as [E|I0]; [subst e; rewrite Tz in Ix; destruct Ix|]. left. right. exists e, x. auto. }
  assert (AX : forall o tk, ackx st' o tk -> ackx st o tk).
  { intros o tk [X|(e & I & Kd & Cc & [OK1 OK2] & T)]; [left; exact X|]. destruct (INP _ I) as [E|I0]; [subst e; lia|]. right. exists e. repeat split; auto. }
  assert (CUB : forall tk dv H g r, cur5 st' tk dv H g r -> cur5 st tk dv H g r).
  { intros tk dv H g r [X|[V [X|[(e & I & K & [O1 O2] & Rest)|(t & It & A & B & C & D & F)]]]]; [left; exact X | right; split; auto; left; exact X | |].
    - destruct (INP _ I) as [E|I0]; [subst e; lia|]. right. split; auto. right. left. exists e. repeat split; auto; tauto.
    - right. split; auto. right. right. exists t. repeat split; auto. intros (e & Ie & Rest). apply F. exists e. split; [cbn; apply in_or_app; auto | auto]. }
  split; [intros b wid W j dv H g r IA E G Cu Ln; exact (V1 b wid W j dv H g r IA E G (CUB _ _ _ _ _ Cu) Ln)|]. split; [|split; [|split; [|split; [|split; [|exact AD]]]]].
  - intros o tk h v WO Bl Ln AC. exact (S o tk h v WO Bl Ln (ACC _ _ _ _ AC)).
  - intros cli tk v Hk dv H g r oo VX L E G Cu OK.
    destruct (Q cli tk v Hk dv H g r oo (VK _ _ _ _ VX) L E G (CUB _ _ _ _ _ Cu) OK) as [X|(h & Ih & N & St)]; [left; exact X|].
    right. exists h. split; auto. split; [|exact St]. destruct oo; cbn in *; auto.
  - intros o tk WO Bl A. destruct (QA o tk WO Bl (AX _ _ A)) as (dv & H & E & X). exists dv, H. split; [exact E|].
    intros Ln g r G Cu. exact (X Ln g r G (CUB _ _ _ _ _ Cu)).
  - intros cli tk v Hk X L. apply (K0 cli tk v Hk); auto.
    destruct X as [X|(e & x & I & Kd & Cc & Ix & Rest)]; [left; exact X|].
    destruct (INP _ I) as [E|I0]; [subst e; rewrite Tz in Ix; destruct Ix|]. right. exists e, x. auto.
  - intros e I Kd. destruct (INP _ I) as [E|I0]; [|exact (PA _ I0 Kd)]. subst e.
    destruct (PAN Kd) as (o & OC & Ko & Bo & St). exists o. auto.
Qed.


Lemma cinv5_del_op : forall st o, In o (s_ops st) -> ops_uniq st -> client_busy st (o_cli o) = false ->
  cinv5 st -> cinv5 (set_ops st (del_op (s_ops st) (o_id o))).
Proof.
  intros st o Io [UI UC] NB (V1 & S & Q & QA & K0 & PA & AD).
  assert (SUB : forall o', In o' (del_op (s_ops st) (o_id o)) -> In o' (s_ops st)).
  { intros o' I. unfold del_op in I. apply filter_In in I as [I _]. exact I. }
  split; [exact V1|]. split; [|split; [|split; [|split; [exact K0|split; [|exact AD]]]]].
  - intros o' tk h v [I Kd] Bl Ln AC. exact (S o' tk h v (conj (SUB _ I) Kd) Bl Ln AC).
  - intros cli tk v Hk dv H g r oo VX L E G Cu OK.
    assert (OK0 : oo_ok st cli tk oo) by (destruct oo; cbn in *; auto; destruct OK as ([I Kd] & R); split; auto; split; auto).
    exact (Q cli tk v Hk dv H g r oo VX L E G Cu OK0).
  - intros o' tk [I Kd] Bl AX. exact (QA o' tk (conj (SUB _ I) Kd) Bl AX).
  - intros e I Kd. destruct (PA _ I Kd) as (o' & OC & Rest). exists o'. split; [|exact Rest]. cbn [s_ops set_ops].
    apply op_of_client_del; auto. intro E.
    assert (o' = o) by (eapply uniq_id; eauto; eapply op_of_client_in; eauto). subst o'.
    unfold client_busy in NB. assert (X : existsb (fun e0 => (k_cli (p_rpc e0) =? o_cli o) && sync_kind (k_kind (p_rpc e0))) (s_pool st) = true); [|congruence].
    apply existsb_exists. exists e. split; auto. rewrite (op_of_client_cli _ _ _ OC), Z.eqb_refl, Kd. reflexivity.
Qed.

Lemma ack_covers5 : forall st o, cinv5 st -> wop st o -> ack_allowed st o = true ->
  forall j, 0 < snd (segl o j) ->
  exists dv H, tget (s_dtr st) (o_blob o, j) = Some (dv, H) /\
    forall g r, rget (s_reps st) (g, (o_blob o, j)) = Some r -> cur5 st (o_blob o, j) dv H g r -> In (orec o j) (r_app r).
Proof.
  intros st o (V1 & S & Q & QA & K0 & PA & AD) WO AA j Ln.
  unfold ack_allowed in AA. rewrite forallb_forall in AA. specialize (AA j (seg_in_tracts _ _ _ Ln)).
  fold (segl o j) in AA. destruct (segl o j) as [toff tlen] eqn:SG.
  apply existsb_exists in AA as (ke & Ik & AA).
  apply andb_true_iff in AA as [AA DA]. apply andb_true_iff in AA as [AA ALL]. apply andb_true_iff in AA as [AA NE].
  apply andb_true_iff in AA as [CL TKE]. apply Z.eqb_eq in CL. apply tk_eqb_eq in TKE.
  set (tk := tkey (o_blob o) j) in *.
  assert (LN : 0 < snd (segl o (snd tk))) by (unfold tk, tkey; cbn [snd]; rewrite SG; exact Ln).
  apply orb_true_iff in DA as [DA|DA].
  - (* an entry from GetTracts all of whose hosts accepted *)
    assert (VX : vk st (o_cli o) tk (ke_ver ke) (ke_hosts ke)) by (left; exists ke; repeat split; auto).
    assert (NEH : ke_hosts ke <> []).
    { intro X. rewrite X in NE. discriminate NE. }
    destruct (K0 _ _ _ _ VX (or_intror NEH)) as (dv & H & E). exists dv, H. split; [exact E|].
    intros g r G Cu.
    destruct (Q (o_cli o) tk (ke_ver ke) (ke_hosts ke) dv H g r (Some o) (or_introl VX) (or_intror NEH) E G Cu) as [X|(h & Ih & N & _)].
    + cbn. auto.
    + exact X.
    + exfalso. apply N. left. unfold acc_succ. cbn [snd tk tkey]. rewrite SG. cbn [fst snd].
      rewrite forallb_forall in ALL. exact (ALL _ Ih).
  - (* the tract was made durable by this write's AckExtend *)
    destruct (QA o tk WO eq_refl (or_introl DA)) as (dv & H & E & X). exists dv, H. split; [exact E|].
    intros g r G Cu. exact (X LN g r G Cu).
Qed.


(* ---------- the level-5 bundle ---------- *)
Definition G5 (st : state) : Prop :=
  Inv2 st /\ att_ok st /\ ord_ok st /\ acked_ok st /\ tr_ok st /\ cinv5 st /\ low st /\ prov st.

Lemma G5_B5 : forall st, G5 st -> B5 st.
Proof. intros st (I2 & _ & (U & _) & _ & T & _ & L & P). split; [exact I2|]. split; [exact T|]. split; [exact U|]. split; [exact L | exact P]. Qed.

Lemma unit5 : forall st st', Inv2 st -> tr_ok st -> ops_uniq st -> cinv5 st -> machU st st' -> cb st st' -> Inv2 st' -> cinv5 st'.
Proof. intros st st' I2 T U C M CB [[D' _] _]. destruct (M T U) as (_ & _ & M'). eapply cinv5_mach; eauto. Qed.

(* the crash itself *)
Lemma crash_exec5 : forall st hint e rp,
  G5 st -> In e (s_pool st) -> p_rpc e = rp -> p_st e = 0 -> k_kind rp = K_PullTract -> stale_pull st rp = false -> crash_safe st rp = true ->
  let reps' := if k_ts rp =? aux_nth rp 0
               then pull_crash (s_reps st) (s_nts st) (k_ts rp) (tkey (k_blob rp) (k_tract rp)) (k_ver rp) (tl (k_aux rp))
               else s_reps st in
  let st1 := set_reps st reps' in
  let st2 := flush 8 (resume st1 e false hint) hint in
  let victims := filter (fun x => (p_st x =? 0) && (k_ts (p_rpc x) =? k_ts rp)) (s_pool st2) in
  let st3 := fold_left (fun s x => flush 8 (resume s x false []) []) victims st2 in
  B5 st3 /\ cinv5 st3.
Proof.
  intros st hint e rp GS Ie ERP EST KP NST CSF reps' st1 st2 victims st3.
  pose proof GS as (I2 & A & OO & AK & T & C & L & Pr). pose proof OO as (U & _). pose proof I2 as [I W].
  destruct W as (U1 & U2 & U3). assert (W' : win_ok st) by (split; [exact U1|split; [exact U2|exact U3]]).
  subst rp. destruct (U2 _ Ie (or_intror KP)) as (dv & H & E & Lv).
  set (x := k_ts (p_rpc e)) in *. set (tk := tkey (k_blob (p_rpc e)) (k_tract (p_rpc e))) in *. unfold rtk in E. fold tk in E.
  assert (NS : ~ (k_ver (p_rpc e) <= dv /\ pre_pull (s_reps st) x tk (k_ver (p_rpc e)))).
  { intros [L1 L2]. unfold stale_pull in NST. fold tk x in NST. rewrite E in NST.
    apply andb_false_iff in NST as [NST|NST]; [apply Z.leb_gt in NST; lia|].
    destruct L2 as [L2|(r0 & L2 & L3)]; rewrite L2 in NST; [discriminate|]. apply Z.leb_gt in NST. lia. }
  assert (NC : k_ver (p_rpc e) = dv + 1 -> ~ cand st tk dv H x).
  { intro V. apply (crash_safe_ncand st (p_rpc e) dv H CSF); auto. }
  assert (I1 : Inv st1) by (apply (inv_quiet st); [apply quiet_set_reps | exact I]).
  assert (W1 : win_ok st1).
  { split; [|split; [exact U2|exact U3]]. intros k r' Hk. cbn [s_reps set_reps st1] in Hk. unfold reps' in Hk.
    destruct (x =? aux_nth (p_rpc e) 0); [|exact (U1 _ _ Hk)].
    destruct (pull_crash_vrel _ _ _ _ _ _ _ _ Hk) as [(r0 & G0 & E0)|[Ek Ev]].
    - rewrite E0. exact (U1 _ _ G0).
    - subst k. rewrite Ev. cbn [snd]. apply durb_bound1. apply U2; auto. right. exact KP. }
  assert (J1 : Inv2 st1) by (split; auto).
  assert (L1 : low st1).
  { unfold st1, reps'. destruct (x =? aux_nth (p_rpc e) 0); [|apply low_same_reps; auto].
    destruct (pull_crash_spec (tl (k_aux (p_rpc e))) (s_reps st) (s_nts st) x tk (k_ver (p_rpc e))) as [OTH CASES].
    apply (onekey_low st _ (x, tk) I2 L); [exact OTH|]. intros r1 G1.
    destruct CASES as [SAME|[PRE RES]].
    - left. exists r1. rewrite <- SAME. split; auto. lia.
    - destruct RES as [RES|RES]; [congruence|]. rewrite RES in G1. inversion G1; subst r1. cbn.
      destruct PRE as [PRE|(r0 & G0 & L0)]; [|left; exists r0; auto].
      right. split; auto. cbn [snd]. rewrite E.
      assert (dv < k_ver (p_rpc e)) by (destruct (Z_le_gt_dec (k_ver (p_rpc e)) dv); [exfalso; apply NS; split; auto; left; exact PRE | lia]).
      destruct I as [[_ D2] _]. destruct tk as [b i]. destruct (D2 _ _ _ _ E) as [L1' _]. lia. }
  assert (C1 : cinv5 st1).
  { unfold st1, reps'. destruct (x =? aux_nth (p_rpc e) 0); [|apply cinv5_same_reps; exact C].
    apply (exec_crash5 st x tk (k_ver (p_rpc e)) (tl (k_aux (p_rpc e))) dv H); auto. apply I. }
  assert (P1 : prov st1) by (apply (prov_same st); auto).
  assert (B1 : B5 st1) by (split; [exact J1|]; split; [exact T|]; split; [exact U|]; split; auto).
  assert (PD : false = true -> In e (s_pool st1) /\ p_st e = 2) by (intro Y; discriminate Y).
  assert (TBe : tr_bound st1 (k_blob (p_rpc e)) (p_tr e)) by (intros y Hy; destruct I1 as [_ (_ & _ & K3)]; now apply (K3 e)).
  assert (HSe : hstale st1 e) by (apply hstale_in; [apply L | exact Ie]).
  destruct (resume5 st1 e false hint B1 TBe HSe PD) as [B2a C2a].
  destruct (flush5 8 _ hint B2a) as [B2 C2]. fold st2 in B2, C2.
  assert (B3 : B5 st3 /\ cb st2 st3).
  { apply victims5; auto.
    - apply victims_bound. destruct B2 as ([I2' _] & _). exact I2'.
    - intros y Iy. apply filter_In in Iy as [Iy _]. destruct B2 as (_ & (_ & T1' & _) & _ & L2 & _). split; [apply hstale_in; auto; apply L2 | auto]. }
  destruct B3 as [B3 C3]. split; [exact B3|].
  assert (CB : cb st1 st3) by (eapply cb_trans; [exact C2a|]; eapply cb_trans; [exact C2 | exact C3]).
  assert (MU : machU st1 st3).
  { eapply machU_trans; [apply (machU_resume st1 e false hint PD)|]. eapply machU_trans; [apply machU_flush | apply machU_fold_victims]. }
  apply (unit5 st1 st3); auto. apply B3.
Qed.

(* ---------- one executed request at level <= 4, over candidate copies ---------- *)
Lemma prov_upd : forall st1 e stt res tr lose auto, In e (s_pool st1) -> prov st1 ->
  prov (set_pool st1 (pool_update (s_pool st1) (set_pent e stt res tr lose auto))).
Proof.
  intros st1 e stt res tr lose auto Ie. apply prov_sub; try reflexivity.
  - intros e' I _. cbn in I. apply in_pool_update in I as [I|I]; [subst e'; exists e; auto | exists e'; auto].
  - intros t It Ph. exists t. auto.
Qed.

Lemma c5_step_exec : forall L st mode r,
  ok_ev L st (7 :: mode :: r) = true -> G5 st -> B5 (fst (step_exec st mode r)) /\ cinv5 (fst (step_exec st mode r)).
Proof.
  intros L st mode r OK GS. pose proof GS as (I2 & A & OO & AK & T & C & LW & Pr). pose proof OO as (U & _).
  pose proof (G5_B5 _ GS) as B0.
  unfold step_exec. cbn [ok_ev] in OK. change (7 =? 3) with false in OK. change (7 =? 4) with false in OK.
  change ((7 =? 5) || (7 =? 6)) with false in OK. change (7 =? 7) with true in OK. cbv iota in OK.
  destruct (parse_rpc r) as [[rp r1]|]; [|split; assumption].
  destruct r1 as [|nh r2]; [split; assumption|].
  destruct (take nh r2) as [place r3].
  destruct (find_pent (s_pool st) rp 0) as [e|] eqn:F; [|split; assumption].
  pose proof (find_pent_eq _ _ _ _ F) as ERP. pose proof (find_pent_st _ _ _ _ F) as EST. apply find_pent_in in F.
  apply andb_true_iff in OK as [OK OKP]. apply andb_true_iff in OK as [OKM OKC].
  set (hint := place ++ [-1] ++ match r3 with nd :: r4 => fst (take nd r4) | [] => [] end).
  assert (TBe : tr_bound st (k_blob (p_rpc e)) (p_tr e)) by (intros x Hx; destruct I2 as [[_ (_ & _ & K3)] _]; now apply K3).
  assert (HSe : hstale st e) by (apply hstale_in; auto; apply LW).
  assert (SD0 : (mode =? 4) = false -> side_ok st e).
  { intro M4. rewrite <- ERP in OKC, OKP. exact (side_of st e mode (low_lwp _ LW) F OKC OKP M4). }
  destruct (mode =? 4) eqn:M4.
  { cbn [fst].
    assert (PD : false = true -> In e (s_pool st) /\ p_st e = 2) by (intro Y; discriminate Y).
    destruct (resume5 st e false hint B0 TBe HSe PD) as [B1 C1]. destruct (flush5 8 _ hint B1) as [B2 C2]. split; [exact B2|].
    apply (unit5 st); auto; [|eapply cb_trans; eauto | apply B2].
    eapply machU_trans; [apply (machU_resume st e false hint PD) | apply machU_flush]. }
  destruct (mode =? 6) eqn:M6.
  { exfalso. apply Z.eqb_eq in M6. pose proof (mode_ok_cases _ _ OKM). lia. }
  destruct (k_kind rp =? K_FixVersion) eqn:KF.
  { cbn [fst]. apply Z.eqb_eq in KF.
    set (e2 := set_pent e 1 [] [] (mode =? 2) (negb (mode =? 5))).
    set (sa := set_pool st (pool_update (s_pool st) e2)).
    set (sb := set_nsynth sa (s_nsynth st + 1)).
    assert (KE : k_kind (p_rpc e) <> K_PullTract) by (rewrite ERP, KF; discriminate).
    assert (Ja : Inv2 sa) by (split; [apply inv_pool_update; auto using tr_bound_nil; apply I2 | apply win_pool_update; auto; apply I2]).
    assert (Jb : Inv2 sb) by exact Ja.
    assert (La : low sa) by (apply low_upd; auto; intro Y; discriminate Y).
    assert (Lb : low sb) by (apply (low_nsynth sa); exact La).
    assert (Tb : tr_ok sb) by (apply (tr_ok_upd st st); auto; repeat split).
    assert (Ub : ops_uniq sb) by exact U.
    assert (Pb : prov sb) by (apply (prov_same sa); auto; apply prov_upd; auto).
    assert (MB : mach st sb).
    { apply mach_basic; try reflexivity. intros e' I Ce. cbn in I. apply in_pool_update in I as [I|I].
      - subst e'. assert (KE2 : k_kind (p_rpc e2) = K_FixVersion) by (cbn; rewrite ERP; exact KF).
        destruct Ce as [[Ce|Ce]|[Ce|Ce]]; rewrite KE2 in Ce; discriminate Ce.
      - exists e'. split; auto using same4_refl. }
    assert (CBb : cb st sb).
    { apply cb_of_cs; try reflexivity. apply (cs_trans st sa); [apply cs_upd_nopull; auto; apply LW | apply cs_same; reflexivity]. }
    assert (Cb : cinv5 sb) by (apply (cinv5_mach st sb I2 (proj1 (proj1 Jb)) C MB CBb)).
    set (t := new_task (- (s_nsynth st + 1)) 6 (s_gen st) (s_term st) (k_blob rp) (k_tract rp) [] (k_ver rp) (aux_nth rp 0) (p_id e)).
    assert (RL : t_rpc t < s_next sb) by (cbn; destruct T as (_ & T1 & _); apply T1; exact F).
    assert (RF : t_rpc t <> 0 -> forall x, In x (s_pool sb) -> p_id x = t_rpc t -> k_kind (p_rpc x) = K_FixVersion).
    { intros _ x Ix Id. cbn in Ix, Id. unfold pool_update in Ix. apply in_map_iff in Ix as (y & Ey & Iy).
      destruct (p_id y =? p_id e2) eqn:Q; subst x; [cbn; rewrite ERP; exact KF|]. apply Z.eqb_neq in Q. cbn in Q. contradiction. }
    assert (FRESH : ~ In (t_op t) (map t_op (s_tasks sb))).
    { destruct LW as (_ & _ & _ & _ & _ & _ & (_ & _ & O3 & O4 & _) & _). intro X. apply in_map_iff in X as (y & Ey & Iy). destruct (O3 _ Iy) as [_ Bq]. cbn in Ey. lia. }
    assert (Ls : low (start_task sb t)).
    { destruct LW as (_ & _ & _ & _ & _ & _ & (_ & _ & _ & O4 & _) & _). apply low_start_task; auto; cbn; lia. }
    assert (Js : Inv2 (start_task sb t)).
    { eapply inv2_calm; [apply calm_start_task; apply new_task_phase | | exact Jb].
      apply (inv_quiet sb); [apply quiet_start_task | exact (proj1 Jb)]. }
    destruct (machU_of _ _ (machT_start_task sb t RL RF) (keeps_start_task sb t) Tb Ub) as (Ts & Us & Ms).
    assert (Ps : prov (start_task sb t)) by (apply prov_start_task; auto).
    assert (CBs : cb sb (start_task sb t)).
    { apply cb_of_cs; [exact (proj1 (proj2 (proj2 (calm_start_task sb t (new_task_phase _ _ _ _ _ _ _ _ _ _))))) | exact (quiet_dtr _ _ (quiet_start_task sb t)) |].
      apply cs_start_task; auto. apply Lb. }
    assert (Cs : cinv5 (start_task sb t)) by (apply (cinv5_mach sb _ Jb (proj1 (proj1 Js)) Cb Ms CBs)).
    assert (Bs : B5 (start_task sb t)) by (split; [exact Js|]; split; [exact Ts|]; split; [exact Us|]; split; auto).
    destruct (flush5 8 _ hint Bs) as [B3 C3]. split; [exact B3|].
    apply (unit5 (start_task sb t)); auto; [apply machU_flush | apply B3]. }
  destruct (exec_rpc st e place) as [[st1 res] tr] eqn:X1.
  specialize (SD0 eq_refl).
  pose proof I2 as [I W].
  destruct (inv_exec _ _ _ _ _ _ I X1) as (E1 & P1 & TB1).
  assert (J1 : Inv2 st1) by (split; [exact (evolves_inv _ _ E1 I) | exact (win_exec _ _ _ _ _ _ I2 F X1)]).
  assert (F1 : In e (s_pool st1)) by (rewrite P1; exact F).
  destruct (exec_low st e place st1 res tr I2 LW F SD0 X1) as (L1 & PB & (FP & FT & FN & FS)).
  assert (Pr1 : prov st1) by (eapply prov_exec; eauto; apply B5_W; exact B0).
  pose proof LW as (R1q & HVq & PSq & Eq & PEq & IDq & OWq & TKq).
  destruct (mode =? 3) eqn:M3.
  { destruct (exec_rpc st1 e place) as [[st1b res2] tr2] eqn:X2. cbn [fst].
    assert (PXF : forall s1, exec_rpc st e place = (s1, res, tr) -> lPX s1).
    { intros s1 Y. rewrite X1 in Y. inversion Y; subst s1. apply Pr1. }
    destruct (cinv5_exec_upd2 st e place st1 res tr st1b res2 tr2 (mode =? 2) (negb (mode =? 5)) I2 OO T C (proj1 Pr) PXF PEq IDq F EST SD0 X1 X2) as [C2 T2].
    pose proof (side_ok_again _ _ _ _ _ _ X1 SD0) as SD1.
    destruct (exec_low st1 e place st1b res2 tr2 J1 L1 F1 SD1 X2) as (L1b & _ & (FP2 & FT2 & FN2 & FS2)).
    destruct (inv_exec _ _ _ _ _ _ (proj1 J1) X2) as (E2 & P2 & TB2).
    assert (J1b : Inv2 st1b) by (split; [exact (evolves_inv _ _ E2 (proj1 J1)) | exact (win_exec _ _ _ _ _ _ J1 F1 X2)]).
    assert (Pr1b : prov st1b) by (eapply prov_exec; eauto; split; [apply J1 | apply J1]).
    set (st2 := set_pool st1b (pool_update (s_pool st1b) (set_pent e 2 res tr (mode =? 2) (negb (mode =? 5))))) in *.
    assert (F1b : In e (s_pool st1b)) by (rewrite P2; exact F1).
    assert (J2 : Inv2 st2).
    { split; [apply inv_pool_update; [exact (proj1 J1b) | exact F1b |] | apply win_pool_update; [exact (proj2 J1b) | exact F1b]].
      intros x Hx. destruct J1 as [[D1 _] _]. eapply bound_advances; [apply evolves_advances; exact E2 | exact D1 | apply (TB1 _ Hx)]. }
    assert (U2 : ops_uniq st2).
    { destruct (exec_misc _ _ _ _ _ _ X1) as (_ & O1 & _). destruct (exec_misc _ _ _ _ _ _ X2) as (_ & O2 & _).
      apply (ops_uniq_same st); auto. cbn. congruence. }
    assert (L2 : low st2).
    { apply low_upd; [exact L1b | exact F1b | intros _]. intros Ce OKc. specialize (PB Ce OKc). eapply post_b_again; eauto. }
    assert (P2' : prov st2) by (apply prov_upd; auto).
    assert (B2 : B5 st2) by (split; [exact J2|]; split; [exact T2|]; split; [exact U2|]; split; auto).
    destruct (flush5 8 _ hint B2) as [B3 C3]. split; [exact B3|].
    apply (unit5 st2); auto; [apply machU_flush | apply B3]. }
  cbn [fst].
  destruct (cinv5_exec_upd st e place st1 res tr (mode =? 2) (negb (mode =? 5)) I2 OO T C (proj1 Pr) PEq IDq F EST SD0 X1) as [C2 T2].
  set (st2 := set_pool st1 (pool_update (s_pool st1) (set_pent e 2 res tr (mode =? 2) (negb (mode =? 5))))) in *.
  assert (J2 : Inv2 st2).
  { split; [apply inv_pool_update; [exact (proj1 J1) | exact F1 | exact TB1] | apply win_pool_update; [exact (proj2 J1) | exact F1]]. }
  assert (U2 : ops_uniq st2).
  { destruct (exec_misc _ _ _ _ _ _ X1) as (_ & O1 & _). apply (ops_uniq_same st); auto. }
  assert (L2 : low st2) by (apply low_upd; [exact L1 | exact F1 | intros _; exact PB]).
  assert (P2' : prov st2) by (apply prov_upd; auto).
  assert (B2 : B5 st2) by (split; [exact J2|]; split; [exact T2|]; split; [exact U2|]; split; auto).
  destruct (flush5 8 _ hint B2) as [B3 C3]. split; [exact B3|].
  apply (unit5 st2); auto; [apply machU_flush | apply B3].
Qed.

(* ---------- one event at level <= 4, over candidate copies ---------- *)
Definition R5 (st : state) : Prop := tr_ok st /\ low st /\ prov st /\ cinv5 st.

Lemma B5_R5 : forall st, B5 st -> cinv5 st -> R5 st.
Proof. intros st (_ & T & _ & L & P) C. split; [exact T|]. split; [exact L|]. split; [exact P | exact C]. Qed.

Theorem c5_step : forall L st ev, ok_ev L st ev = true -> G5 st -> R5 (fst (step st ev)).
Proof.
  intros L st ev OK0 G0'.
  assert (NE : hd 0 ev <> 17).
  { destruct ev as [|c a]; [cbn; lia|]. cbn. intro X. subst c. cbn in OK0. discriminate OK0. }
  pose proof (inv2_step st ev NE (proj1 G0')) as I2F.
  unfold step in *.
  assert (OK : ok_ev L (set_out st []) ev = true) by exact OK0.
  assert (GS : G5 (set_out st [])) by exact G0'. clear OK0 G0'.
  set (s := set_out st []) in *. clearbody s.
  pose proof GS as (I2 & A & OO & AK & T & C & LW & Pr). pose proof OO as (U & _ & _ & O4 & _).
  pose proof (G5_B5 _ GS) as B0.
  assert (R0 : R5 s) by (split; [exact T|]; split; [exact LW|]; split; [exact Pr | exact C]).
  destruct ev as [|c a]; [exact R0|]. unfold ok_ev in OK.
  destruct (c =? 1) eqn:C1. { destruct a; exact R0. }
  destruct (c =? 2) eqn:C2. { destruct a as [|x [|y [|z a]]]; try exact R0. destruct (zget (s_blobs s) x); exact R0. }
  destruct (c =? 3) eqn:C3.
  { destruct a as [|x1 [|x2 [|x3 [|x4 [|x5 [|x6 [|x7 a]]]]]]]; try exact R0. cbn [fst].
    repeat (apply andb_true_iff in OK as [OK ?]). apply negb_true_iff in OK.
    destruct (find_op (s_ops s) x1) eqn:FO; [discriminate|]. destruct (op_of_client (s_ops s) x2) eqn:OC; [discriminate|].
    pose proof (existsb_kind3_false _ OK) as NW.
    split; [exact T|]. split; [exact LW|]. split; [exact Pr|].
    apply (cinv5_add_op s {| o_id := x1; o_kind := 3; o_cli := x2; o_blob := x3; o_off := x4; o_len := x5; o_wid := x6;
                             o_succ := []; o_acked := []; o_reads := [] |}); auto.
    intros e Ie W _ Ln. destruct (O4 _ Ie W Ln) as (o' & Io' & Ko' & _). exact (NW _ Io' Ko'). }
  destruct (c =? 4) eqn:C4.
  { destruct a as [|x1 [|x2 [|x3 [|x4 [|x5 [|x6 a]]]]]]; try exact R0. cbn [fst].
    apply andb_true_iff in OK as [OK1 OK2].
    destruct (op_of_client (s_ops s) x2) eqn:OC; [discriminate|].
    split; [exact T|]. split; [exact LW|]. split; [exact Pr|].
    apply (cinv5_add_op s {| o_id := x1; o_kind := 4; o_cli := x2; o_blob := x3; o_off := x4; o_len := x5; o_wid := 0;
                             o_succ := []; o_acked := []; o_reads := [] |}); auto.
    intros e Ie W Cc Ln. destruct (O4 _ Ie W Ln) as (o' & Io' & _ & _ & Co'). cbn in Cc.
    apply (op_of_client_none _ _ OC). rewrite <- Cc, <- Co'. now apply in_map. }
  assert (START : forall op kind blob tract bad cliver badts,
            (0 <? op) && match find_task (s_tasks s) op with None => true | Some _ => false end = true ->
            R5 (flush 8 (start_task s (new_task op kind (s_gen s) (s_term s) blob tract bad cliver badts 0)) [])).
  { intros op kind blob tract bad cliver badts FR. apply andb_true_iff in FR as [F1 F2]. apply Z.ltb_lt in F1.
    destruct (find_task (s_tasks s) op) eqn:FT; [discriminate|].
    set (t := new_task op kind (s_gen s) (s_term s) blob tract bad cliver badts 0).
    assert (RL : t_rpc t < s_next s) by (cbn; destruct T as (T0 & _); lia).
    assert (RF : t_rpc t <> 0 -> forall x, In x (s_pool s) -> p_id x = t_rpc t -> k_kind (p_rpc x) = K_FixVersion) by (intro X; cbn in X; contradiction).
    assert (FRESH : ~ In (t_op t) (map t_op (s_tasks s))) by (now apply find_task_notin).
    assert (Ls : low (start_task s t)).
    { pose proof LW as (_ & _ & _ & _ & _ & _ & (_ & _ & _ & O4' & _) & _). apply low_start_task; auto; cbn; try lia. }
    assert (Js : Inv2 (start_task s t)).
    { eapply inv2_calm; [apply calm_start_task; apply new_task_phase | | exact I2]. apply (inv_quiet s); [apply quiet_start_task | exact (proj1 I2)]. }
    destruct (machU_of _ _ (machT_start_task s t RL RF) (keeps_start_task s t) T U) as (Ts & Us & Ms).
    assert (Ps : prov (start_task s t)) by (apply prov_start_task; auto).
    assert (CBs : cb s (start_task s t)).
    { apply cb_of_cs; [exact (proj1 (proj2 (proj2 (calm_start_task s t (new_task_phase _ _ _ _ _ _ _ _ _ _))))) | exact (quiet_dtr _ _ (quiet_start_task s t)) |].
      apply cs_start_task; auto. apply LW. }
    assert (Cs : cinv5 (start_task s t)) by (apply (cinv5_mach s _ I2 (proj1 (proj1 Js)) C Ms CBs)).
    assert (Bs : B5 (start_task s t)) by (split; [exact Js|]; split; [exact Ts|]; split; [exact Us|]; split; auto).
    destruct (flush5 8 _ [] Bs) as [B3 CF3]. apply B5_R5; [exact B3|].
    apply (unit5 (start_task s t) _ Js Ts Us Cs); [apply machU_flush | exact CF3 | apply B3]. }
  destruct (c =? 5) eqn:C5.
  { cbn [orb] in OK. destruct a as [|x1 [|x2 [|x3 [|x4 [|x5 a]]]]]; try exact R0. destruct (take x5 a) as [bad rest]. cbn [fst]. apply START. exact OK. }
  destruct (c =? 6) eqn:C6.
  { cbn [orb] in OK. destruct a as [|x1 [|x2 [|x3 [|x4 [|x5 [|x6 [|x7 a]]]]]]]; try exact R0. cbn [fst]. apply START. exact OK. }
  cbn [orb] in OK.
  destruct (c =? 7) eqn:C7.
  { destruct a as [|mode rest]; [exact R0|]. apply Z.eqb_eq in C7. subst c.
    destruct (c5_step_exec L s mode rest OK GS) as [B1 C1']. now apply B5_R5. }
  destruct (c =? 8) eqn:C8.
  { destruct a as [|lose r]; [exact R0|]. unfold step_reply in *.
    destruct (parse_rpc r) as [[rp r1]|]; [|exact R0].
    destruct (find_pent (s_pool s) rp 2) as [e|] eqn:F; [|exact R0]. cbn [fst] in *.
    pose proof (find_pent_st _ _ _ _ F) as EST. apply find_pent_in in F.
    match goal with |- R5 (flush 8 (resume s e ?d ?h) ?h) => set (dd := d); set (hh := h) end.
    assert (PD : dd = true -> In e (s_pool s) /\ p_st e = 2) by (intros _; auto).
    assert (TBe : tr_bound s (k_blob (p_rpc e)) (p_tr e)) by (intros x Hx; destruct I2 as [[_ (_ & _ & K3)] _]; now apply K3).
    destruct (resume5 s e dd hh B0 TBe (hstale_in _ _ (proj1 (proj2 (proj2 (proj2 (proj2 (proj2 LW)))))) F) PD) as [B1 C1'].
    destruct (flush5 8 _ hh B1) as [B2 C2']. apply B5_R5; [exact B2|].
    apply (unit5 s _ I2 T U C); [|eapply cb_trans; eauto | apply B2].
    eapply machU_trans; [apply (machU_resume s e dd hh PD) | apply machU_flush]. }
  destruct (c =? 9) eqn:C9.
  { destruct a as [|ts [|y a]]; try exact R0. unfold step_restart in *. cbn [fst] in *.
    match goal with |- R5 (fold_left _ ?v s) => set (victims := v) end.
    destruct (victims5 victims s B0) as [B1 C1'].
    - apply victims_bound. exact (proj1 I2).
    - intros x Ix. apply filter_In in Ix as [Ix _]. split; [apply hstale_in; auto; apply LW | destruct T as (_ & T1 & _); auto].
    - apply B5_R5; [exact B1|]. apply (unit5 s _ I2 T U C); [apply machU_fold_victims | exact C1' | apply B1]. }
  destruct (c =? 10) eqn:C10. { destruct a; exact R0. }
  destruct (c =? 11) eqn:C11. { destruct a as [|ts [|y a]]; exact R0. }
  destruct (c =? 12) eqn:C12.
  { destruct a as [|x1 [|x2 [|x3 [|x4 [|x5 a]]]]]; try exact R0. unfold step_probe.
    destruct (tget (s_dtr s) (tkey x1 x2)) as [[ver hosts]|] eqn:Et; [|exact R0].
    destruct ((x3 =? 1) && (x4 =? 0)) eqn:PR; [exact R0|].
    pose proof (probe_nochange s x1 x2 ver hosts x3 x4 PR Et) as NC.
    destruct (change_tract s (s_term s - x4) x1 x2 (ver + x3) hosts) as [s1 cc]. cbn [fst] in *. subst s1. exact R0. }
  destruct (c =? 13) eqn:C13.
  { unfold step_issue. destruct (parse_rpc a) as [[rp r1]|]; [|exact R0].
    destruct (issue_allowed s rp) eqn:IA; [|exact R0]. cbn [fst].
    apply andb_true_iff in OK as [OKW OKA].
    assert (CK : client_kind (k_kind rp) = true) by (unfold issue_allowed in IA; apply andb_true_iff in IA as [IA _]; apply andb_true_iff in IA as [_ CK]; exact CK).
    assert (NS : k_kind rp <> K_SetVersion) by (intro X; rewrite X in CK; discriminate CK).
    assert (NP : k_kind rp <> K_PullTract) by (intro X; rewrite X in CK; discriminate CK).
    split; [apply tr_ok_issue; exact T|]. split; [apply low_issue_client; auto|]. split.
    - apply (prov_sub s); try reflexivity; auto.
      + intros e' I K. cbn in I. apply in_app_or in I as [I|[I|[]]]; [exists e'; auto | subst e'; cbn in K; contradiction].
      + intros t It Ph. exists t. auto.
    - apply (cinv5_add_entry s {| p_id := s_next s; p_rpc := rp; p_st := 0; p_res := []; p_tr := []; p_lose := false; p_auto := true; p_owner := 0 |}); auto.
      cbn. intros Kd. rewrite Kd in *. cbn in OKA.
      unfold issue_allowed in IA. rewrite Kd in IA. cbn in IA. apply andb_true_iff in IA as [_ IA].
      unfold ackext_allowed in IA. destruct (op_of_client (s_ops s) (k_cli rp)) as [o|] eqn:OC; [|discriminate].
      apply andb_true_iff in IA as [IA _]. apply andb_true_iff in IA as [IK IB]. apply Z.eqb_eq in IK, IB.
      exists o. repeat split; auto; eapply strict_of_bool; eauto. }
  destruct (c =? 14) eqn:C14.
  { destruct a as [|x1 [|x2 [|x3 a]]]; try exact R0. unfold step_finclient in *.
    destruct (find_op (s_ops s) x1) as [o|] eqn:FO; [|exact R0].
    apply find_op_some in FO as [IO ID]. apply negb_true_iff in OK. subst x1.
    pose proof (cinv5_del_op s o IO U OK C) as C1'.
    set (s1 := set_ops s (del_op (s_ops s) (o_id o))) in *.
    assert (R1 : R5 s1) by (split; [exact T|]; split; [exact LW|]; split; [exact Pr | exact C1']).
    destruct (existsb _ (s_pool s)); [exact R1|].
    destruct (o_kind o =? 3) eqn:K3.
    2: { repeat match goal with |- context [match ?x with _ => _ end] => destruct x eqn:?
                            | |- context [if ?x then _ else _] => destruct x eqn:? end; exact R1. }
    destruct ((x3 =? cl_NoError) && (x2 =? o_len o)); [|exact R1].
    destruct (ack_allowed s o) eqn:AA; [|exact R1]. cbn [fst].
    split; [exact T|]. split; [exact LW|]. split; [exact Pr|]. apply Z.eqb_eq in K3.
    pose proof (ack_covers5 s o C (conj IO K3) AA) as COV.
    destruct C1' as (V1 & S1 & Q1 & QA1 & K01 & PA1 & AD1).
    split; [|split; [exact S1|split; [exact Q1|split; [exact QA1|split; [exact K01|split; [exact PA1|]]]]]].
    - intros b wid W j dv H g r IA E G Cu Ln. cbn [s_acked set_acked] in IA. destruct IA as [IA|IA]; [|exact (V1 b wid W j dv H g r IA E G Cu Ln)].
      inversion IA; subst b wid W. destruct (COV j Ln) as (dv0 & H0 & E0 & X). cbn in E, G.
      unfold tkey in *. rewrite E in E0. inversion E0; subst dv0 H0. exact (X g r G Cu).
    - intros b wid W j IA Ln. cbn [s_acked set_acked] in IA. destruct IA as [IA|IA]; [|exact (AD1 b wid W j IA Ln)].
      inversion IA; subst b wid W. destruct (COV j Ln) as (dv0 & H0 & E0 & _). exists dv0, H0. exact E0. }
  destruct (c =? 15) eqn:C15. { destruct a as [|op [|y a]]; try exact R0. destruct (zget (s_fin s) op); exact R0. }
  destruct (c =? 16) eqn:C16.
  { unfold step_rpcdone. repeat match goal with |- context [match ?x with _ => _ end] => destruct x eqn:? end; exact R0. }
  destruct (c =? 17) eqn:C17. { discriminate. }
  exact R0.
Qed.

(* ---------- the crash event ---------- *)
Lemma crash_step : forall st ev, crash_ev st ev = true -> G5 st -> R5 (fst (step st ev)) /\ ord_ok (fst (step st ev)).
Proof.
  intros st ev CE GS. unfold crash_ev in CE.
  destruct ev as [|c [|mode r]]; try discriminate CE.
  apply andb_true_iff in CE as [CE CE2]. apply andb_true_iff in CE as [C7 M6]. apply Z.eqb_eq in C7, M6. subst c mode.
  unfold step. change (7 =? 1) with false. change (7 =? 2) with false. change (7 =? 3) with false. change (7 =? 4) with false.
  change (7 =? 5) with false. change (7 =? 6) with false. change (7 =? 7) with true. cbv iota.
  assert (GS' : G5 (set_out st [])) by exact GS.
  assert (CE' : match parse_rpc r with
                | Some (rp, _) => match find_pent (s_pool (set_out st [])) rp 0 with
                                  | Some _ => (k_kind rp =? K_PullTract) && negb (stale_pull (set_out st []) rp) && crash_safe (set_out st []) rp
                                  | None => false end
                | None => false end = true) by exact CE2.
  clear GS CE2. set (s := set_out st []) in *. clearbody s.
  pose proof GS' as (I2 & A & OO & AK & T & C & LW & Pr).
  split; [|apply ord_step_exec; auto].
  assert (R0 : R5 s) by (split; [exact T|]; split; [exact LW|]; split; [exact Pr | exact C]).
  unfold step_exec.
  destruct (parse_rpc r) as [[rp r1]|]; [|discriminate CE'].
  destruct (find_pent (s_pool s) rp 0) as [e|] eqn:F; [|discriminate CE'].
  destruct r1 as [|nh r2]; [exact R0|].
  destruct (take nh r2) as [place r3].
  pose proof (find_pent_eq _ _ _ _ F) as ERP. pose proof (find_pent_st _ _ _ _ F) as EST. apply find_pent_in in F.
  apply andb_true_iff in CE' as [CE1 CSF]. apply andb_true_iff in CE1 as [KP NST]. apply Z.eqb_eq in KP. apply negb_true_iff in NST.
  change (6 =? 4) with false. change (6 =? 6) with true. cbv iota.
  rewrite KP. change (negb (K_PullTract =? K_PullTract)) with false. cbv iota. cbn [fst].
  destruct (crash_exec5 s (place ++ [-1] ++ match r3 with nd :: r4 => fst (take nd r4) | [] => [] end) e rp GS' F ERP EST KP NST CSF) as [B3 C3].
  apply B5_R5; [exact B3 | exact C3].
Qed.

(* ---------- along a schedule of level 5 ---------- *)
Theorem G5_step : forall st ev, ok_ev5 st ev = true -> G5 st -> G5 (fst (step st ev)).
Proof.
  intros st ev OK GS. pose proof GS as (I2 & A & OO & AK & T & C & LW & Pr).
  unfold ok_ev5 in OK. destruct (ok_ev 4 st ev) eqn:O4.
  - assert (NE : hd 0 ev <> 17).
    { destruct ev as [|c a]; [cbn; lia|]. cbn. intro X. subst c. cbn in O4. discriminate O4. }
    destruct (c5_step 4 st ev O4 GS) as (T' & L' & P' & C').
    split; [apply inv2_step; auto|]. split; [apply att_step; auto|]. split; [eapply ord_step; eauto|].
    split; [apply acked_ok_step; auto|]. split; [exact T'|]. split; [exact C'|]. split; [exact L' | exact P'].
  - cbn [orb] in OK. destruct (crash_step st ev OK GS) as [(T' & L' & P' & C') OO'].
    assert (NE : hd 0 ev <> 17).
    { unfold crash_ev in OK. destruct ev as [|c [|m r]]; try discriminate OK. apply andb_true_iff in OK as [OK _]. apply andb_true_iff in OK as [OK _].
      apply Z.eqb_eq in OK. subst c. cbn. lia. }
    split; [apply inv2_step; auto|]. split; [apply att_step; auto|]. split; [exact OO'|].
    split; [apply acked_ok_step; auto|]. split; [exact T'|]. split; [exact C'|]. split; [exact L' | exact P'].
Qed.

Lemma G5_init : G5 init_state.
Proof.
  split; [exact inv2_init|]. split; [exact att_init|]. split; [exact ord_init|].
  split; [intros x I; destruct I|]. split; [split; [cbn; lia|]; split; intros x I; destruct I|]. split; [|split; [exact low_init|]].
  - split; [|split; [|split; [|split; [|split; [|split]]]]].
    + intros b wid W j dv H g r I. destruct I.
    + intros o tk h v [I _]. destruct I.
    + intros cli tk v Hk dv H g r oo _ _ E. cbn in E. discriminate E.
    + intros o tk [I _]. destruct I.
    + intros cli tk v Hk [(ke & I & _)|(e & x & I & _)]; destruct I.
    + intros e I. destruct I.
    + intros b wid W j I. destruct I.
  - split; [intros e I; destruct I | intros t I; destruct I].
Qed.

Theorem G5_run : forall evs st, ok_run5 st evs = true -> G5 st -> G5 (run_state st evs).
Proof.
  induction evs as [|ev evs IH]; intros st OK GS; [exact GS|].
  cbn in OK. apply andb_true_iff in OK as [OK1 OK2]. cbn [run_state]. apply IH; auto. now apply G5_step.
Qed.

(* ---------- visibility ---------- *)
Theorem vis_of_G5 : forall st b j h p, G5 st -> 0 <= p < TL -> vis_ok st b j h p = true.
Proof.
  intros st b j h p (I2 & A & OO & AK & T & C & _ & _) P. unfold vis_ok.
  destruct (tget (s_dtr st) (tkey b j)) as [[dv hosts]|] eqn:E; [|reflexivity].
  destruct (negb (zmem h hosts)) eqn:ZM; [reflexivity|]. apply negb_false_iff in ZM. apply zmem_in in ZM.
  destruct (rget (s_reps st) (h, tkey b j)) as [r|] eqn:G0; [|reflexivity].
  destruct (negb (r_ver r =? dv)) eqn:VV; [reflexivity|]. apply negb_false_iff in VV. apply Z.eqb_eq in VV.
  unfold expected_byte. destruct (newest_cover (s_att st) b (j * TL + p)) as [wid|] eqn:NC.
  - destruct (is_acked st b wid) eqn:IA; [|reflexivity]. apply Z.eqb_eq.
    destruct (is_acked_in _ _ _ IA) as (W & IW). pose proof (AK _ IW) as IT.
    destruct (newest_cover_in _ _ _ _ NC) as (W0 & I0 & C0).
    pose proof OO as (U & AS & O1 & _).
    destruct (att_wid_unique _ _ _ _ _ _ AS IT I0) as [_ EW]. subst W0.
    assert (Ln : 0 < snd (seg_of (w_off W) (w_len W) j)).
    { unfold covers in C0. apply andb_true_iff in C0 as [C1 C2]. apply Z.leb_le in C1. apply Z.ltb_lt in C2.
      unfold seg_of. cbn. lia. }
    destruct C as (V1 & _). unfold tkey in *.
    assert (IR : In (rec_in wid W j) (r_app r)) by (eapply V1; eauto; left; auto).
    eapply shows_newest; eauto.
  - apply Z.eqb_eq. apply byte_at_zero. intros wr I. destruct (covers wr p) eqn:CV; auto. exfalso.
    destruct A as (_ & _ & A3). unfold tkey in G0. destruct (A3 _ _ _ _ _ G0 I) as (W & IA & S).
    apply (newest_cover_some _ _ _ _ (j * TL + p) IA); auto.
    unfold covers in *. apply andb_true_iff in CV as [C1 C2]. apply Z.leb_le in C1. apply Z.ltb_lt in C2.
    pose proof (seg_covers _ _ _ p _ _ S (conj C1 C2)) as [L1 L2].
    apply andb_true_iff. split; [apply Z.leb_le | apply Z.ltb_lt]; lia.
Qed.

Theorem acked_visible_run5 : forall evs, ok_run5 init_state evs = true ->
  forall b j h p, 0 <= p < TL -> vis_ok (run_state init_state evs) b j h p = true.
Proof. intros evs OK b j h p P. apply vis_of_G5; auto. apply G5_run; auto. apply G5_init. Qed.

(* level 5 contains the levels below *)
Lemma ok_ev_mono : forall L L' st ev, L <= L' -> ok_ev L st ev = true -> ok_ev L' st ev = true.
Proof.
  intros L L' st ev LE H. unfold ok_ev in *. destruct ev as [|c a]; auto.
  destruct (c =? 3); auto. destruct (c =? 4); auto. destruct ((c =? 5) || (c =? 6)); auto.
  destruct (c =? 7).
  { destruct a as [|mode r]; auto. destruct (parse_rpc r) as [[rp r1]|]; auto. destruct (find_pent (s_pool st) rp 0); auto.
    apply andb_true_iff in H as [H H3]. apply andb_true_iff in H as [H1 H2]. rewrite (mode_ok_mono L L' mode LE H1), H2, H3. reflexivity. }
  destruct (c =? 8).
  { destruct a as [|lose r]; auto. apply orb_true_iff in H as [H|H]; [apply Z.leb_le in H; apply orb_true_iff; left; apply Z.leb_le; lia | rewrite H; apply orb_true_r]. }
  destruct (c =? 9). { apply Z.leb_le in H. apply Z.leb_le. lia. }
  destruct (c =? 10). { apply Z.leb_le in H. apply Z.leb_le. lia. }
  exact H.
Qed.

Lemma ok_run_5 : forall L evs st, L <= 4 -> ok_run L st evs = true -> ok_run5 st evs = true.
Proof.
  induction evs as [|ev evs IH]; intros st LE H; auto. cbn in H. apply andb_true_iff in H as [H1 H2]. cbn.
  unfold ok_ev5. rewrite (ok_ev_mono L 4 st ev LE H1). cbn. now apply IH.
Qed.
