(* Cluster/Reader.v — the reader clause beyond the lookup instant: a location entry obtained from GetTracts stays good.
   While a host named by the entry holds its copy at exactly the entry's version (the only case in which a Read through
   the entry is answered, Store.Read checks the version with ==), that copy holds every write acknowledged before the
   lookup; otherwise the Read is refused (no such tract / version mismatch) and the client looks up again. *)
From Coq Require Import List ZArith Bool Lia.
From BLB Require Import Gen.Consts Cluster.Model Cluster.Proofs Cluster.Frame Cluster.Inv Cluster.Window
     Cluster.Attempts Cluster.Sched Cluster.Order Cluster.Contain Cluster.Visible Cluster.Lower Cluster.Prov Cluster.Cand Cluster.Crash.
Import ListNotations.
Open Scope Z_scope.

(* ---------- the writes acknowledged before a lookup ---------- *)
Definition lastn {A} (n : nat) (l : list A) : list A := skipn (length l - n) l.

Lemma lastn_cons : forall A (x : A) l n, (n <= length l)%nat -> lastn n (x :: l) = lastn n l.
Proof. intros A x l n H. unfold lastn. cbn [length]. rewrite Nat.sub_succ_l by exact H. reflexivity. Qed.
Lemma lastn_all : forall A (l : list A), lastn (length l) l = l.
Proof. intros. unfold lastn. rewrite Nat.sub_diag. reflexivity. Qed.
Lemma lastn_in : forall A (x : A) n l, In x (lastn n l) -> In x l.
Proof. intros A x n l H. unfold lastn in H. rewrite <- (firstn_skipn (length l - n) l). apply in_or_app. right. exact H. Qed.

Definition before (st : state) (n : Z) : list (Z * Z * wrec) := lastn (Z.to_nat n) (s_acked st).

(* ---------- location entries with the number of acknowledgements their lookup saw ---------- *)
Definition eacks (e : pent) : Z := hd 0 (tl (p_res e)).
Definition ent (st : state) (cli : Z) (tk : tkt) (v : Z) (Hk : list Z) (n : Z) : Prop :=
  (exists ke, In ke (s_know st) /\ ke_cli ke = cli /\ ke_tk ke = tk /\ ke_ver ke = v /\ ke_hosts ke = Hk /\ ke_durable ke = true /\ ke_acks ke = n) \/
  (exists e x, In e (s_pool st) /\ k_kind (p_rpc e) = K_GetTracts /\ k_cli (p_rpc e) = cli /\ In x (p_tr e) /\
               tk = tkey (k_blob (p_rpc e)) (fst (fst x)) /\ v = snd (fst x) /\ Hk = map fst (snd x) /\ n = eacks e).

Lemma ent_vk : forall st cli tk v Hk n, ent st cli tk v Hk n -> vk st cli tk v Hk.
Proof.
  intros st cli tk v Hk n [(ke & I & A & B & C & D & E & _)|(e & x & I & K & C & Ix & A & B & D & _)].
  - left. exists ke. auto 10.
  - right. exists e, x. auto 10.
Qed.

Definition rRD (st : state) : Prop :=
  forall cli tk v Hk n, ent st cli tk v Hk n -> (1 <= v \/ Hk <> []) ->
    0 <= n <= Z.of_nat (length (s_acked st)) /\
    forall h, In h Hk -> forall r, rget (s_reps st) (h, tk) = Some r ->
      v <= r_ver r /\
      (r_ver r = v -> forall wid W, In (fst tk, wid, W) (before st n) -> 0 < snd (seg_of (w_off W) (w_len W) (snd tk)) ->
                      In (rec_in wid W (snd tk)) (r_app r)).

(* entries only disappear *)
Definition es (st st' : state) : Prop := forall cli tk v Hk n, ent st' cli tk v Hk n -> ent st cli tk v Hk n.

Lemma es_refl : forall st, es st st.
Proof. intros st cli tk v Hk n X. exact X. Qed.
Lemma es_trans : forall a b c, es a b -> es b c -> es a c.
Proof. intros a b c H1 H2 cli tk v Hk n X. apply H1, H2, X. Qed.

Lemma rRD_es : forall st st', s_reps st' = s_reps st -> s_acked st' = s_acked st -> es st st' -> rRD st -> rRD st'.
Proof.
  intros st st' R A E RD cli tk v Hk n X L. destruct (RD cli tk v Hk n (E _ _ _ _ _ X) L) as [B F].
  unfold before. rewrite A, R. split; auto.
Qed.

Lemma es_basic : forall st st', s_know st' = s_know st ->
  (forall e', In e' (s_pool st') -> k_kind (p_rpc e') = K_GetTracts ->
     exists e, In e (s_pool st) /\ p_rpc e = p_rpc e' /\ p_res e = p_res e' /\ p_tr e = p_tr e') -> es st st'.
Proof.
  intros st st' K P cli tk v Hk n [(ke & I & Rest)|(e' & x & I & Kd & Rest)].
  - left. exists ke. rewrite K in I. auto.
  - right. destruct (P _ I Kd) as (e & Ie & R1 & R2 & R3). exists e, x. unfold eacks in *. rewrite R1, R2, R3. auto.
Qed.

(* ---------- entries through the task machinery and reply delivery ---------- *)
Lemma es_sub : forall st st', s_know st' = s_know st -> (forall e', In e' (s_pool st') -> k_kind (p_rpc e') = K_GetTracts -> In e' (s_pool st)) -> es st st'.
Proof. intros st st' K P. apply es_basic; auto. intros e' I Kd. exists e'. auto. Qed.

Lemma es_issue_cur : forall st r o, k_kind r <> K_GetTracts -> es st (issue_cur st r o).
Proof.
  intros st r o N. apply es_sub; try reflexivity. intros e' I K. cbn in I. apply in_app_or in I as [I|[I|[]]]; auto. subst e'. cbn in K. contradiction.
Qed.
Lemma es_fold_issue : forall (f : Z -> rpc) o l st, (forall h, k_kind (f h) <> K_GetTracts) -> es st (fold_left (fun s h => issue_cur s (f h) o) l st).
Proof. induction l; intros st N; cbn [fold_left]; [apply es_refl|]. eapply es_trans; [apply es_issue_cur; apply N | apply IHl; exact N]. Qed.

Lemma es_finish_task : forall st t err, tr_ok st -> In t (s_tasks st) -> es st (finish_task st t err).
Proof.
  intros st t err (T0 & T1 & T2) It. apply es_basic; [unfold finish_task; brk; reflexivity|].
  intros e' I K. unfold finish_task in I. destruct (t_rpc t =? 0) eqn:Z0; cbn in I.
  - apply in_map_iff in I as (y & Ey & Iy). exists y. subst e'. split; auto. destruct (p_owner y =? t_op t); auto.
  - apply Z.eqb_neq in Z0. apply in_map_iff in I as (y1 & Ey1 & Iy1). apply in_map_iff in Iy1 as (y & Ey & Iy). exists y. split; auto. subst e' y1.
    assert (G1 : forall z, p_id (if p_owner z =? t_op t then {| p_id := p_id z; p_rpc := p_rpc z; p_st := p_st z; p_res := p_res z; p_tr := p_tr z; p_lose := p_lose z; p_auto := p_auto z; p_owner := 0 |} else z) = p_id z) by (intro z; destruct (p_owner z =? t_op t); reflexivity).
    destruct (p_owner y =? t_op t) eqn:Q; cbn in *.
    + destruct (p_id y =? t_rpc t) eqn:Q2; cbn in *; auto. apply Z.eqb_eq in Q2. destruct (T2 _ It) as [_ FX]. rewrite (FX Z0 _ Iy Q2) in K. discriminate K.
    + destruct (p_id y =? t_rpc t) eqn:Q2; cbn in *; auto. apply Z.eqb_eq in Q2. destruct (T2 _ It) as [_ FX]. rewrite (FX Z0 _ Iy Q2) in K. discriminate K.
Qed.

Lemma es_same : forall st st', s_know st' = s_know st -> s_pool st' = s_pool st -> es st st'.
Proof. intros st st' K P. apply es_sub; auto. intros e I _. rewrite P in I. exact I. Qed.

Lemma es_fold_upd : forall (f : Z -> rpc) o l st v, (forall h, k_kind (f h) <> K_GetTracts) ->
  es st (fold_left (fun s h => issue_cur s (f h) o) l (set_tasks st v)).
Proof. intros f o l st v N. apply (es_trans st (set_tasks st v)); [apply es_same; reflexivity | now apply es_fold_issue]. Qed.

Lemma es_activate : forall st t, tr_ok st -> In t (s_tasks st) -> es st (activate st t).
Proof.
  intros st t T It. unfold activate.
  assert (FIN : forall err, es st (finish_task st t err)) by (intro; now apply es_finish_task).
  destruct (zget (s_blobs st) (t_blob t)) as [[repl nt]|]; [|apply FIN].
  destruct (nt <=? t_tract t); [apply FIN|].
  destruct (tget (s_dtr st) (tkey (t_blob t) (t_tract t))) as [[dv hosts]|]; [|apply FIN].
  destruct (t_kind t =? 5).
  - destruct (_ =? 0); [apply FIN|]. destruct (_ =? _); [apply FIN|]. destruct (negb _); [apply FIN|].
    apply es_fold_upd; intros h Y; discriminate Y.
  - destruct (negb _); [apply FIN|]. destruct (negb _); [apply FIN|]. destruct (negb _); [apply FIN|].
    apply es_fold_upd; intros h Y; discriminate Y.
Qed.

Lemma es_wake : forall n st, tr_ok st -> es st (wake n st).
Proof.
  induction n; intros st T; [apply es_refl|]. unfold wake; fold wake.
  destruct (find _ (s_tasks st)) as [t|] eqn:F; [|apply es_refl]. apply find_some in F as [It _].
  apply (es_trans st (activate st t)); [now apply es_activate | apply IHn; exact (proj1 (machT_activate st t It T))].
Qed.

Lemma es_start_task : forall st t, tr_ok st ->
  t_rpc t < s_next st -> (t_rpc t <> 0 -> forall e, In e (s_pool st) -> p_id e = t_rpc t -> k_kind (p_rpc e) = K_FixVersion) ->
  es st (start_task st t).
Proof.
  intros st t T RL RF. unfold start_task. set (st1 := set_tasks st (s_tasks st ++ [t])).
  assert (T1 : tr_ok st1).
  { destruct T as (T0 & T1 & T2). split; [exact T0|]. split; [exact T1|]. intros x Ix. cbn in Ix. apply in_app_or in Ix as [Ix|[Ix|[]]]; [exact (T2 _ Ix)|]. subst x. auto. }
  assert (It : In t (s_tasks st1)) by (cbn; apply in_or_app; right; left; reflexivity).
  destruct (_ && _); (apply (es_trans st st1); [apply es_same; reflexivity|]); [now apply es_finish_task | now apply es_wake].
Qed.

Lemma es_task_reply : forall st op err hint, tr_ok st -> es st (task_reply st op err hint).
Proof.
  intros st op err hint0 T. unfold task_reply.
  destruct (find_task (s_tasks st) op) as [t|] eqn:F; [|apply es_refl]. apply find_task_in in F.
  assert (FINW : forall err0, es st (wake 8 (finish_task st t err0))).
  { intro err0. apply (es_trans st (finish_task st t err0)); [now apply es_finish_task | apply es_wake; exact (proj1 (machT_finish_task st t err0 F T))]. }
  destruct (negb _); [apply FINW|].
  destruct (1 <? t_wait t); [apply es_same; reflexivity|].
  destruct (_ && _).
  { destruct (_ || _); [apply FINW|]. destruct (negb _); [apply FINW|].
    apply es_fold_upd; intros h Y; discriminate Y. }
  match goal with |- context [change_tract ?a ?b ?c ?d ?e ?f] =>
    pose proof (tasks_change_tract a b c d e f) as TC; pose proof (machT_change_tract a b c d e f T) as [T1 _];
    assert (PC : s_pool (fst (change_tract a b c d e f)) = s_pool st /\ s_know (fst (change_tract a b c d e f)) = s_know st) by (unfold change_tract; brk; split; reflexivity);
    destruct (change_tract a b c d e f) as [st1 ee] end.
  cbn [fst] in *. destruct PC as [PC KC].
  apply (es_trans st st1); [apply es_same; auto|].
  apply (es_trans st1 (finish_task st1 t ee)); [apply es_finish_task; auto; rewrite TC; exact F|].
  apply es_wake. apply (machT_finish_task st1 t ee); auto. rewrite TC. exact F.
Qed.

Lemma es_resume : forall st e d h, tr_ok st -> (d = true -> In e (s_pool st)) -> es st (resume st e d h).
Proof.
  intros st e d h T PD. unfold resume. set (st1 := set_pool st (pool_remove (s_pool st) (p_id e))).
  assert (E1 : es st st1).
  { apply es_sub; try reflexivity. intros x Ix _. cbn in Ix. unfold pool_remove in Ix. apply filter_In in Ix as [Ix _]. exact Ix. }
  assert (T1 : tr_ok st1) by now apply tr_ok_remove.
  destruct (k_cli (p_rpc e) <? 0).
  - destruct (p_owner e =? 0); [exact E1|]. apply (es_trans st st1); [exact E1 | now apply es_task_reply].
  - set (st2 := if k_kind (p_rpc e) =? K_FixVersion then set_done st1 _ else st1).
    assert (F2 : s_know st2 = s_know st /\ forall x, In x (s_pool st2) -> In x (s_pool st)).
    { unfold st2. destruct (_ =? _); split; try reflexivity; intros x Ix; cbn in Ix; unfold pool_remove in Ix; apply filter_In in Ix as [Ix _]; exact Ix. }
    destruct F2 as [K2 P2].
    assert (E2 : es st st2) by (apply es_sub; auto).
    destruct d; [|exact E2]. specialize (PD eq_refl).
    (* what the client learns *)
    unfold client_learns. destruct (p_res e) as [|cls payload] eqn:RES; [exact E2|].
    destruct (k_kind (p_rpc e) =? K_GetTracts) eqn:KG.
    { destruct (negb (cls =? cl_NoError)); [exact E2|]. apply Z.eqb_eq in KG.
      intros cli tk v Hk n [(ke & I & A & B & C & D & F & G)|(e' & x & I & Rest)].
      - cbn in I. apply in_app_or in I as [I|I].
        + apply in_map_iff in I as (x & Ex & Ix). subst ke. destruct x as [[idx ver] hs]. cbn in A, B, C, D, G.
          right. exists e, (idx, ver, hs). unfold eacks. rewrite RES. cbn. subst. auto 10.
        + left. exists ke. rewrite K2 in I. auto 10.
      - right. exists e', x. cbn in I. auto. }
    destruct (k_kind (p_rpc e) =? K_ExtendBlob).
    { destruct (negb (cls =? cl_NoError)); [exact E2|].
      intros cli tk v Hk n [(ke & I & A & B & C & D & F & G)|(e' & x & I & Rest)].
      - cbn in I. apply in_app_or in I as [I|I].
        + apply in_map_iff in I as (x & Ex & Ix). subst ke. destruct x as [[idx ver] hs]. cbn in F. discriminate F.
        + left. exists ke. rewrite K2 in I. auto 10.
      - right. exists e', x. cbn in I. auto. }
    destruct (op_of_client (s_ops st2) (k_cli (p_rpc e))); [|exact E2].
    repeat match goal with |- context [if ?c then _ else _] => destruct c end; try exact E2;
      (apply (es_trans st st2); [exact E2 | apply es_same; reflexivity]).
Qed.

Lemma es_flush : forall n st h, tr_ok st -> ops_uniq st -> es st (flush n st h).
Proof.
  induction n; intros st h T U; [apply es_refl|]. unfold flush; fold flush.
  destruct (find _ (s_pool st)) as [e|] eqn:F; [|apply es_refl].
  apply find_some in F as [Ie Pe]. apply andb_true_iff in Pe as [Pe _]. apply Z.eqb_eq in Pe.
  assert (PD : negb (p_lose e) = true -> In e (s_pool st) /\ p_st e = 2) by (intros _; auto).
  destruct (machU_resume st e (negb (p_lose e)) h PD T U) as (T' & U' & _).
  apply (es_trans st (resume st e (negb (p_lose e)) h)); [apply es_resume; auto | apply IHn; auto].
Qed.

Lemma es_fold_victims : forall victims s, tr_ok s -> ops_uniq s ->
  es s (fold_left (fun s x => flush 8 (resume s x false []) []) victims s).
Proof.
  induction victims as [|v l IH]; intros s T U; cbn [fold_left]; [apply es_refl|].
  assert (PD : false = true -> In v (s_pool s) /\ p_st v = 2) by (intro Y; discriminate Y).
  destruct (machU_resume s v false [] PD T U) as (T1 & U1 & _).
  destruct (machU_flush 8 (resume s v false []) [] T1 U1) as (T2 & U2 & _).
  apply (es_trans s (flush 8 (resume s v false []) [])); [|now apply IH].
  apply (es_trans s (resume s v false [])); [apply es_resume; auto; intro Y; discriminate Y | now apply es_flush].
Qed.

(* ---------- replica steps ---------- *)
Definition keepv (st : state) (reps1 : list (rkey * replica)) : Prop :=
  forall k r1, rget reps1 k = Some r1 ->
    (exists r, rget (s_reps st) k = Some r /\ r_ver r <= r_ver r1 /\ (r_ver r = r_ver r1 -> incl (r_app r) (r_app r1))) \/
    match tget (s_dtr st) (snd k) with Some (dv, _) => dv + 1 <= r_ver r1 | None => rget (s_reps st) k = None end.

Lemma keepv_same : forall st reps1, (forall k, rget reps1 k = rget (s_reps st) k) -> keepv st reps1.
Proof. intros st reps1 X k r1 G. left. exists r1. rewrite <- X. split; auto. split; [lia | intros _; apply incl_refl]. Qed.

Lemma keepv_onekey : forall st reps1 k0, (forall k, k <> k0 -> rget reps1 k = rget (s_reps st) k) ->
  (forall r1, rget reps1 k0 = Some r1 ->
     (exists r, rget (s_reps st) k0 = Some r /\ r_ver r <= r_ver r1 /\ (r_ver r = r_ver r1 -> incl (r_app r) (r_app r1))) \/
     match tget (s_dtr st) (snd k0) with Some (dv, _) => dv + 1 <= r_ver r1 | None => rget (s_reps st) k0 = None end) ->
  keepv st reps1.
Proof.
  intros st reps1 k0 OTH K0 k r1 G. destruct (rkey_dec k k0) as [E|N]; [subst k; auto|].
  left. exists r1. rewrite <- OTH by exact N. split; auto. split; [lia | intros _; apply incl_refl].
Qed.

Lemma rRD_keepv : forall st reps1, know_ok st -> cK0 st -> keepv st reps1 -> rRD st -> rRD (set_reps st reps1).
Proof.
  intros st reps1 KO K0 KV RD cli tk v Hk n X L. destruct (RD cli tk v Hk n X L) as [B F]. split; [exact B|].
  intros h Ih r1 G1. cbn [s_reps set_reps] in G1.
  destruct (K0 _ _ _ _ (ent_vk _ _ _ _ _ _ X) L) as (dv & H & E).
  pose proof (vk_bound _ _ _ _ _ KO (ent_vk _ _ _ _ _ _ X)) as Bd. unfold bound in Bd. rewrite E in Bd.
  destruct (KV _ _ G1) as [(r & G & L1 & INC)|NEW].
  - destruct (F h Ih r G) as [L2 C]. split; [lia|]. intros V wid W Iw Ln. apply INC; [lia|]. apply C; auto. lia.
  - cbn [snd] in NEW. rewrite E in NEW. split; [lia|]. intro V. lia.
Qed.

Lemma exec_keepv : forall st e oracle st1 res tr, Inv2 st -> In e (s_pool st) -> side_ok st e ->
  exec_rpc st e oracle = (st1, res, tr) -> keepv st (s_reps st1).
Proof.
  intros st e oracle st1 res tr I2 Ie (SC & SP & _) X. pose proof I2 as [[Ds Ks] W]. unfold exec_rpc in X.
  set (x := k_ts (p_rpc e)) in *. set (tk := tkey (k_blob (p_rpc e)) (k_tract (p_rpc e))) in *.
  assert (SAME : keepv st (s_reps st)) by (apply keepv_same; auto).
  destruct (k_kind (p_rpc e) =? K_Write) eqn:K1.
  { destruct (ts_write _ _ _ _ _ _ _) as [reps c] eqn:Wr. inversion X; subst. cbn [s_reps set_reps].
    apply ts_write_spec in Wr as [[N Eq]|(Eq & r0 & G & V & Rq)]; subst; [exact SAME|].
    apply (keepv_onekey st _ (x, tk)); [intros k N; now apply rget_rset_other|].
    intros r1 G1. rewrite rget_rset_same in G1. inversion G1; subst. left. exists r0. split; auto. cbn. split; [lia | intros _; apply app_write_incl]. }
  destruct (k_kind (p_rpc e) =? K_Create) eqn:K2.
  { apply Z.eqb_eq in K2. destruct (ts_create _ _ _ _ _ _ _) as [reps c] eqn:Cr. inversion X; subst. cbn [s_reps set_reps].
    unfold ts_create in Cr. destruct (negb (x =? aux_nth (p_rpc e) 0)); [inversion Cr; subst; exact SAME|].
    destruct (rget (s_reps st) (x, tk)) as [r0|] eqn:G.
    - apply ts_write_spec in Cr as [[N Eq]|(Eq & r0' & G' & V & Rq)]; subst; [exact SAME|].
      apply (keepv_onekey st _ (x, tk)); [intros k N; now apply rget_rset_other|].
      intros r1 G1. rewrite rget_rset_same in G1. inversion G1; subst. left. exists r0'. split; auto. cbn. split; [lia | intros _; apply app_write_incl].
    - inversion Cr; subst. apply (keepv_onekey st _ (x, tk)); [intros k N; now apply rget_rset_other|].
      intros r1 G1. right. cbn [snd]. specialize (SC K2). unfold rtk in SC. fold tk in SC. rewrite SC. exact G. }
  destruct (k_kind (p_rpc e) =? K_Read) eqn:K3.
  { destruct (ts_read _ _ _ _ _ _) as [[c n] runs]. inversion X; subst. exact SAME. }
  destruct (k_kind (p_rpc e) =? K_SetVersion) eqn:K4.
  { destruct (ts_setversion _ _ _ _ _) as [reps c] eqn:Sv. inversion X; subst. cbn [s_reps set_reps].
    apply ts_setversion_spec in Sv as [Eq|(r0 & G & V & Eq)]; subst; [exact SAME|].
    apply (keepv_onekey st _ (x, tk)); [intros k N; now apply rget_rset_other|].
    intros r1 G1. rewrite rget_rset_same in G1. inversion G1; subst. left. exists r0. split; auto. cbn. split; [lia | intro; lia]. }
  destruct (k_kind (p_rpc e) =? K_PullTract) eqn:K5.
  { apply Z.eqb_eq in K5. destruct W as (U1 & U2 & U3). destruct (U2 _ Ie (or_intror K5)) as (dv & H & Et & Lv).
    unfold rtk in Et. fold tk in Et.
    destruct (ts_pull _ _ _ _ _ _ _) as [reps c] eqn:Pl. inversion X; subst. cbn [s_reps set_reps].
    unfold ts_pull in Pl. fold x tk in Pl. destruct (negb (x =? aux_nth (p_rpc e) 0)); [inversion Pl; subst; exact SAME|].
    apply pull_loop_spec2 in Pl as (OTH & CASES & _).
    apply (keepv_onekey st _ (x, tk)); [exact OTH|]. intros r1 G1.
    assert (BEYOND : pre_pull (s_reps st) x tk (k_ver (p_rpc e)) -> dv + 1 <= k_ver (p_rpc e)).
    { intros PRE. specialize (SP K5). unfold stale_pull in SP. fold tk x in SP. rewrite Et in SP.
      destruct (Z_le_gt_dec (k_ver (p_rpc e)) dv) as [LE|GT]; [|lia]. exfalso.
      apply andb_false_iff in SP as [SP|SP]; [apply Z.leb_gt in SP; lia|].
      destruct PRE as [PRE|(r0 & G0 & L0)]; rewrite ?PRE in SP; [discriminate SP|]. rewrite G0 in SP. apply Z.leb_gt in SP. lia. }
    destruct CASES as [[SM|[_ NONE]]|(_ & PRE & src & s & _ & _ & _ & _ & R)].
    - left. exists r1. rewrite <- SM. split; auto. split; [lia | intros _; apply incl_refl].
    - congruence.
    - right. cbn [snd]. rewrite Et. rewrite R in G1. inversion G1; subst r1. cbn. auto. }
  destruct (k_kind (p_rpc e) =? K_StatBlob) eqn:K6.
  { destruct (zget (s_blobs st) (k_blob (p_rpc e))) as [[a b]|]; inversion X; subst; exact SAME. }
  destruct (k_kind (p_rpc e) =? K_GetTracts) eqn:K7.
  { destruct (exec_gettracts st (p_rpc e)) as [res0 trs]. inversion X; subst. exact SAME. }
  destruct (k_kind (p_rpc e) =? K_ExtendBlob) eqn:K8.
  { destruct (exec_extend st (p_rpc e) oracle) as [res0 trs]. inversion X; subst. exact SAME. }
  destruct (k_kind (p_rpc e) =? K_AckExtend) eqn:K9.
  { destruct (ack_extend st (k_blob (p_rpc e)) (decode_tracts false (k_aux (p_rpc e)))) as [st' c] eqn:AE. inversion X; subst.
    pose proof (ack_extend_dtr st (k_blob (p_rpc e)) (decode_tracts false (k_aux (p_rpc e))) Ds) as (A0 & _). rewrite AE in A0. cbn in A0.
    apply keepv_same. intro k. now rewrite A0. }
  destruct (k_kind (p_rpc e) =? K_ReportBadTS); inversion X; subst; exact SAME.
Qed.

Lemma exec_fields2 : forall st e oracle st' res tr, exec_rpc st e oracle = (st', res, tr) ->
  s_know st' = s_know st /\ s_acked st' = s_acked st.
Proof.
  intros st e oracle st' res tr H. unfold exec_rpc in H.
  repeat match type of H with
         | context [let '(_, _) := ?x in _] => destruct x eqn:?
         | context [match ?x with _ => _ end] => destruct x eqn:?
         | context [if ?x then _ else _] => destruct x eqn:?
         end; inversion H; subst; try (split; reflexivity).
  match goal with A : ack_extend _ _ _ = (_, _) |- _ => unfold ack_extend in A; brkH A; inversion A; subst; split; reflexivity end.
Qed.

Lemma rRD_exec : forall st e oracle st1 res tr, Inv2 st -> cK0 st -> In e (s_pool st) -> side_ok st e ->
  exec_rpc st e oracle = (st1, res, tr) -> rRD st -> rRD st1.
Proof.
  intros st e oracle st1 res tr I2 K0 Ie SD X RD.
  pose proof (exec_keepv _ _ _ _ _ _ I2 Ie SD X) as KV. destruct (exec_misc _ _ _ _ _ _ X) as (_ & _ & P). destruct (exec_fields2 _ _ _ _ _ _ X) as [K A].
  pose proof (rRD_keepv st (s_reps st1) (proj2 (proj1 I2)) K0 KV RD) as R1.
  apply (rRD_es (set_reps st (s_reps st1))); auto. apply es_same; auto.
Qed.

(* the reply of an executed GetTracts: what its entries promise *)
Definition post_r (st1 : state) (e : pent) (res : list Z) (tr : list (Z * Z * list (Z * Z))) : Prop :=
  k_kind (p_rpc e) = K_GetTracts -> forall x, In x tr -> (1 <= snd (fst x) \/ map fst (snd x) <> []) ->
  let tk := tkey (k_blob (p_rpc e)) (fst (fst x)) in let v := snd (fst x) in let n := hd 0 (tl res) in
  0 <= n <= Z.of_nat (length (s_acked st1)) /\
  forall h, In h (map fst (snd x)) -> forall r, rget (s_reps st1) (h, tk) = Some r ->
    v <= r_ver r /\
    (r_ver r = v -> forall wid W, In (fst tk, wid, W) (before st1 n) -> 0 < snd (seg_of (w_off W) (w_len W) (snd tk)) ->
                    In (rec_in wid W (snd tk)) (r_app r)).

Lemma rRD_upd : forall st1 e stt res tr lose auto, In e (s_pool st1) -> post_r st1 e res tr -> rRD st1 ->
  rRD (set_pool st1 (pool_update (s_pool st1) (set_pent e stt res tr lose auto))).
Proof.
  intros st1 e stt res tr lose auto Ie PR RD cli tk v Hk n [(ke & I & Rest)|(e' & x & I & Kd & Cc & Ix & T & V & Hh & N)] L.
  - apply (RD cli tk v Hk n); auto. left. exists ke. auto.
  - cbn in I. apply in_pool_update in I as [I|I].
    + subst e'. cbn in Kd, Cc, Ix, T, V, Hh. unfold eacks in N. cbn in N. subst tk v Hk n. exact (PR Kd x Ix L).
    + apply (RD cli tk v Hk n); auto. right. exists e', x. auto 10.
Qed.

Lemma gettracts_post_r : forall st e res tr, dur_ok st -> lHV st -> cV15 st ->
  exec_gettracts st (p_rpc e) = (res, tr) -> post_r st e res tr.
Proof.
  intros st e res tr D HV V1 X _ x Ix L. cbn zeta. unfold exec_gettracts in X.
  destruct (zget (s_blobs st) (k_blob (p_rpc e))) as [[repl nt]|]; [|inversion X; subst; destruct Ix].
  destruct (_ || _); [inversion X; subst; destruct Ix|].
  destruct (_ =? _); [inversion X; subst; destruct Ix|].
  destruct (nt <=? _); [inversion X; subst; destruct Ix|].
  inversion X; subst res tr. cbn [tl hd].
  unfold tracts_of_range in Ix. apply in_map_iff in Ix as (i & Ex & _).
  destruct (tget (s_dtr st) (tkey (k_blob (p_rpc e)) (nth 0 (k_aux (p_rpc e)) 0 + Z.of_nat i))) as [[dv hs]|] eqn:G.
  2: { subst x. cbn in L. destruct L as [L|L]; [lia | contradiction]. }
  subst x. cbn [fst snd] in *. split; [lia|].
  intros h Ih r Gr. rewrite map_map in Ih. cbn in Ih. rewrite map_id in Ih. apply sorted_in in Ih.
  pose proof (HV _ _ _ _ G Ih) as B. unfold bumpedk in B. rewrite Gr in B. split; [exact B|].
  intros Vr wid W Iw Ln. unfold before in Iw. rewrite Nat2Z.id, lastn_all in Iw.
  unfold tkey in *. eapply V1; eauto. left. auto.
Qed.

Lemma es_add_parked : forall st enew, p_tr enew = [] -> es st (set_pool st (s_pool st ++ [enew])).
Proof.
  intros st enew Tz cli tk v Hk n [(ke & I & Rest)|(e & x & I & Kd & Cc & Ix & Rest)]; [left; exists ke; auto|].
  cbn in I. apply in_app_or in I as [I|[I|[]]]; [right; exists e, x; auto 10 | subst e; rewrite Tz in Ix; destruct Ix].
Qed.

(* ---------- one event ---------- *)
Lemma rRD_unit : forall st st', tr_ok st -> ops_uniq st -> machU st st' -> es st st' -> rRD st -> rRD st'.
Proof. intros st st' T U M E RD. destruct (M T U) as (_ & _ & (R & A & _)). eapply rRD_es; eauto. Qed.

Lemma machU_resume_flush : forall st e d h, (d = true -> In e (s_pool st) /\ p_st e = 2) -> machU st (flush 8 (resume st e d h) h).
Proof. intros st e d h PD. apply (machU_trans st (resume st e d h)); [now apply machU_resume | apply machU_flush]. Qed.

Lemma es_resume_flush : forall st e d h, tr_ok st -> ops_uniq st -> (d = true -> In e (s_pool st) /\ p_st e = 2) -> es st (flush 8 (resume st e d h) h).
Proof.
  intros st e d h T U PD. destruct (machU_resume st e d h PD T U) as (T1 & U1 & _).
  apply (es_trans st (resume st e d h)); [apply es_resume; auto; intro Y; apply PD; exact Y | now apply es_flush].
Qed.

Lemma not_gettracts_post : forall st e res tr, k_kind (p_rpc e) <> K_GetTracts -> post_r st e res tr.
Proof. intros st e res tr N K. contradiction. Qed.

Lemma exec_gettracts_kind : forall st e oracle st1 res tr, k_kind (p_rpc e) = K_GetTracts -> exec_rpc st e oracle = (st1, res, tr) ->
  st1 = st /\ exec_gettracts st (p_rpc e) = (res, tr).
Proof.
  intros st e oracle st1 res tr K X. unfold exec_rpc in X. rewrite K in X. cbn in X.
  destruct (exec_gettracts st (p_rpc e)) as [r0 t0]. inversion X; subst. auto.
Qed.

Lemma rRD_step_exec : forall L st mode r,
  ok_ev L st (7 :: mode :: r) = true -> G5 st -> rRD st -> rRD (fst (step_exec st mode r)).
Proof.
  intros L st mode r OK GS RD. pose proof GS as (I2 & A & OO & AK & T & C & LW & Pr). pose proof OO as (U & _).
  pose proof C as (V15 & _ & _ & _ & K0 & _).
  unfold step_exec. cbn [ok_ev] in OK. change (7 =? 3) with false in OK. change (7 =? 4) with false in OK.
  change ((7 =? 5) || (7 =? 6)) with false in OK. change (7 =? 7) with true in OK. cbv iota in OK.
  destruct (parse_rpc r) as [[rp r1]|]; [|exact RD].
  destruct r1 as [|nh r2]; [exact RD|].
  destruct (take nh r2) as [place r3].
  destruct (find_pent (s_pool st) rp 0) as [e|] eqn:F; [|exact RD].
  pose proof (find_pent_eq _ _ _ _ F) as ERP. pose proof (find_pent_st _ _ _ _ F) as EST. apply find_pent_in in F.
  apply andb_true_iff in OK as [OK OKP]. apply andb_true_iff in OK as [OKM OKC].
  set (hint := place ++ [-1] ++ match r3 with nd :: r4 => fst (take nd r4) | [] => [] end).
  assert (SD0 : (mode =? 4) = false -> side_ok st e).
  { intro M4. rewrite <- ERP in OKC, OKP. exact (side_of st e mode (low_lwp _ LW) F OKC OKP M4). }
  destruct (mode =? 4) eqn:M4.
  { cbn [fst]. assert (PD : false = true -> In e (s_pool st) /\ p_st e = 2) by (intro Y; discriminate Y).
    apply (rRD_unit st); auto; [now apply machU_resume_flush | now apply es_resume_flush]. }
  destruct (mode =? 6) eqn:M6.
  { exfalso. apply Z.eqb_eq in M6. pose proof (mode_ok_cases _ _ OKM). lia. }
  destruct (k_kind rp =? K_FixVersion) eqn:KF.
  { cbn [fst]. apply Z.eqb_eq in KF.
    set (e2 := set_pent e 1 [] [] (mode =? 2) (negb (mode =? 5))).
    set (sa := set_pool st (pool_update (s_pool st) e2)).
    set (sb := set_nsynth sa (s_nsynth st + 1)).
    assert (Rb : rRD sb).
    { apply (rRD_upd st e 1 [] [] (mode =? 2) (negb (mode =? 5)) F); auto. apply not_gettracts_post. rewrite ERP, KF. discriminate. }
    assert (Tb : tr_ok sb) by (apply (tr_ok_upd st st); auto; repeat split).
    assert (Ub : ops_uniq sb) by exact U.
    set (t := new_task (- (s_nsynth st + 1)) 6 (s_gen st) (s_term st) (k_blob rp) (k_tract rp) [] (k_ver rp) (aux_nth rp 0) (p_id e)).
    assert (RL : t_rpc t < s_next sb) by (cbn; destruct T as (_ & T1 & _); apply T1; exact F).
    assert (RF : t_rpc t <> 0 -> forall x, In x (s_pool sb) -> p_id x = t_rpc t -> k_kind (p_rpc x) = K_FixVersion).
    { intros _ x Ix Id. cbn in Ix, Id. unfold pool_update in Ix. apply in_map_iff in Ix as (y & Ey & Iy).
      destruct (p_id y =? p_id e2) eqn:Q; subst x; [cbn; rewrite ERP; exact KF|]. apply Z.eqb_neq in Q. cbn in Q. contradiction. }
    destruct (machU_of _ _ (machT_start_task sb t RL RF) (keeps_start_task sb t) Tb Ub) as (Ts & Us & _).
    assert (Rs : rRD (start_task sb t)).
    { apply (rRD_unit sb); auto; [apply machU_of; [now apply machT_start_task | apply keeps_start_task] | now apply es_start_task]. }
    apply (rRD_unit (start_task sb t)); auto; [apply machU_flush | now apply es_flush]. }
  destruct (exec_rpc st e place) as [[st1 res] tr] eqn:X1.
  specialize (SD0 eq_refl).
  pose proof I2 as [I W].
  destruct (inv_exec _ _ _ _ _ _ I X1) as (E1 & P1 & TB1).
  assert (J1 : Inv2 st1) by (split; [exact (evolves_inv _ _ E1 I) | exact (win_exec _ _ _ _ _ _ I2 F X1)]).
  assert (F1 : In e (s_pool st1)) by (rewrite P1; exact F).
  assert (FEa : fields_eq st st1).
  { destruct (exec_misc _ _ _ _ _ _ X1) as (_ & Oa & _). destruct (exec_low st e place st1 res tr I2 LW F SD0 X1) as (_ & _ & (FP & FT & FN & FS)). repeat split; auto. }
  assert (R1 : rRD st1) by (exact (rRD_exec st e place st1 res tr I2 K0 F SD0 X1 RD)).
  assert (PR1 : post_r st1 e res tr).
  { destruct (Z.eq_dec (k_kind (p_rpc e)) K_GetTracts) as [KG|NKG]; [|now apply not_gettracts_post].
    destruct (exec_gettracts_kind _ _ _ _ _ _ KG X1) as [EQ GT]. subst st1. eapply gettracts_post_r; eauto; [apply I | apply LW]. }
  destruct (mode =? 3) eqn:M3.
  { destruct (exec_rpc st1 e place) as [[st1b res2] tr2] eqn:X2. cbn [fst].
    pose proof (side_ok_again _ _ _ _ _ _ X1 SD0) as SD1.
    assert (K01 : cK0 st1).
    { destruct (exec_summary5 _ _ _ _ _ _ I2 U C (proj1 Pr) (proj1 (proj2 (proj2 (proj2 (proj2 LW))))) F EST SD0 X1) as ((_ & _ & _ & _ & K & _) & _). exact K. }
    assert (R1b : rRD st1b) by (exact (rRD_exec st1 e place st1b res2 tr2 J1 K01 F1 SD1 X2 R1)).
    assert (PR1b : post_r st1b e res tr).
    { destruct (Z.eq_dec (k_kind (p_rpc e)) K_GetTracts) as [KG|NKG]; [|now apply not_gettracts_post].
      destruct (exec_gettracts_kind _ _ _ _ _ _ KG X1) as [EQ GT]. subst st1.
      destruct (exec_gettracts_kind _ _ _ _ _ _ KG X2) as [EQ2 _]. subst st1b. exact PR1. }
    destruct (inv_exec _ _ _ _ _ _ (proj1 J1) X2) as (E2 & P2 & TB2).
    assert (F1b : In e (s_pool st1b)) by (rewrite P2; exact F1).
    set (st2 := set_pool st1b (pool_update (s_pool st1b) (set_pent e 2 res tr (mode =? 2) (negb (mode =? 5))))).
    assert (R2 : rRD st2) by (apply rRD_upd; auto).
    assert (T2 : tr_ok st2).
    { apply (tr_ok_upd st st1b); auto. destruct FEa as (A1 & A2 & A3 & A4). destruct (exec_misc _ _ _ _ _ _ X2) as (_ & O2 & _).
      destruct (exec_low st1 e place st1b res2 tr2 J1) as (_ & _ & (FP2 & FT2 & FN2 & FS2)); auto.
      { destruct (exec_low st e place st1 res tr I2 LW F SD0 X1) as (L1 & _). exact L1. }
      repeat split; congruence. }
    assert (U2 : ops_uniq st2).
    { destruct (exec_misc _ _ _ _ _ _ X1) as (_ & O1 & _). destruct (exec_misc _ _ _ _ _ _ X2) as (_ & O2 & _).
      apply (ops_uniq_same st); auto. cbn. congruence. }
    apply (rRD_unit st2); auto; [apply machU_flush | now apply es_flush]. }
  cbn [fst].
  set (st2 := set_pool st1 (pool_update (s_pool st1) (set_pent e 2 res tr (mode =? 2) (negb (mode =? 5))))).
  assert (R2 : rRD st2) by (apply rRD_upd; auto).
  assert (T2 : tr_ok st2) by (eapply tr_ok_upd; eauto).
  assert (U2 : ops_uniq st2).
  { destruct (exec_misc _ _ _ _ _ _ X1) as (_ & O1 & _). apply (ops_uniq_same st); auto. }
  apply (rRD_unit st2); auto; [apply machU_flush | now apply es_flush].
Qed.

Lemma rRD_crash : forall st hint e rp,
  G5 st -> rRD st -> In e (s_pool st) -> p_rpc e = rp -> k_kind rp = K_PullTract -> stale_pull st rp = false ->
  let reps' := if k_ts rp =? aux_nth rp 0
               then pull_crash (s_reps st) (s_nts st) (k_ts rp) (tkey (k_blob rp) (k_tract rp)) (k_ver rp) (tl (k_aux rp))
               else s_reps st in
  let st1 := set_reps st reps' in
  let st2 := flush 8 (resume st1 e false hint) hint in
  let victims := filter (fun x => (p_st x =? 0) && (k_ts (p_rpc x) =? k_ts rp)) (s_pool st2) in
  rRD (fold_left (fun s x => flush 8 (resume s x false []) []) victims st2).
Proof.
  intros st hint e rp GS RD Ie ERP KP NST reps' st1 st2 victims.
  pose proof GS as (I2 & A & OO & AK & T & C & L & Pr). pose proof OO as (U & _). pose proof C as (_ & _ & _ & _ & K0 & _).
  pose proof I2 as [[Ds Ks] (U1 & U2 & U3)]. subst rp.
  destruct (U2 _ Ie (or_intror KP)) as (dv & H & E & Lv).
  set (x := k_ts (p_rpc e)) in *. set (tk := tkey (k_blob (p_rpc e)) (k_tract (p_rpc e))) in *. unfold rtk in E. fold tk in E.
  assert (KV : keepv st reps').
  { unfold reps'. destruct (x =? aux_nth (p_rpc e) 0); [|apply keepv_same; auto].
    destruct (pull_crash_spec (tl (k_aux (p_rpc e))) (s_reps st) (s_nts st) x tk (k_ver (p_rpc e))) as [OTH CASES].
    apply (keepv_onekey st _ (x, tk)); [exact OTH|]. intros r1 G1.
    destruct CASES as [SAME|[PRE RES]].
    - left. exists r1. rewrite <- SAME. split; auto. split; [lia | intros _; apply incl_refl].
    - destruct RES as [RES|RES]; [congruence|]. rewrite RES in G1. inversion G1; subst r1. right. cbn [snd]. rewrite E. cbn.
      unfold stale_pull in NST. fold tk x in NST. rewrite E in NST.
      destruct (Z_le_gt_dec (k_ver (p_rpc e)) dv) as [LE|GT]; [|lia]. exfalso.
      apply andb_false_iff in NST as [NST|NST]; [apply Z.leb_gt in NST; lia|].
      destruct PRE as [PRE|(r0 & G0 & L0)]; rewrite ?PRE in NST; [discriminate NST|]. rewrite G0 in NST. apply Z.leb_gt in NST. lia. }
  assert (R1 : rRD st1) by (apply rRD_keepv; auto).
  assert (T1 : tr_ok st1) by exact T. assert (U1' : ops_uniq st1) by exact U.
  assert (PD : false = true -> In e (s_pool st1) /\ p_st e = 2) by (intro Y; discriminate Y).
  destruct (machU_resume_flush st1 e false hint PD T1 U1') as (T2 & U2' & _).
  assert (R2 : rRD st2) by (apply (rRD_unit st1); auto; [now apply machU_resume_flush | now apply es_resume_flush]).
  apply (rRD_unit st2); auto; [apply machU_fold_victims | now apply es_fold_victims].
Qed.

Lemma rRD_ack : forall st st' x, s_reps st' = s_reps st -> s_know st' = s_know st -> s_pool st' = s_pool st ->
  s_acked st' = x :: s_acked st -> rRD st -> rRD st'.
Proof.
  intros st st' x R K P A RD cli tk v Hk n X L.
  assert (X0 : ent st cli tk v Hk n) by (unfold ent in *; rewrite K, P in X; exact X).
  destruct (RD cli tk v Hk n X0 L) as [[B1 B2] F]. split; [rewrite A; cbn [length]; lia|].
  intros h Ih r G. rewrite R in G. destruct (F h Ih r G) as [L1 CT]. split; [exact L1|].
  intros V wid W Iw Ln. apply CT; auto. unfold before in *. rewrite A in Iw. rewrite lastn_cons in Iw; [exact Iw|]. lia.
Qed.

Theorem rRD_step : forall st ev, ok_ev5 st ev = true -> G5 st -> rRD st -> rRD (fst (step st ev)).
Proof.
  intros st ev OK5 G0' RD0. unfold ok_ev5 in OK5. destruct (ok_ev 4 st ev) eqn:OK0.
  2: { (* the crash *)
    cbn [orb] in OK5. unfold crash_ev in OK5. destruct ev as [|c [|mode r]]; try discriminate OK5.
    apply andb_true_iff in OK5 as [CE CE2]. apply andb_true_iff in CE as [C7 M6]. apply Z.eqb_eq in C7, M6. subst c mode.
    unfold step. change (7 =? 1) with false. change (7 =? 2) with false. change (7 =? 3) with false. change (7 =? 4) with false.
    change (7 =? 5) with false. change (7 =? 6) with false. change (7 =? 7) with true. cbv iota.
    assert (GS' : G5 (set_out st [])) by exact G0'. assert (RD' : rRD (set_out st [])) by exact RD0.
    assert (CE' : match parse_rpc r with
                  | Some (rp, _) => match find_pent (s_pool (set_out st [])) rp 0 with
                                    | Some _ => (k_kind rp =? K_PullTract) && negb (stale_pull (set_out st []) rp) && crash_safe (set_out st []) rp
                                    | None => false end
                  | None => false end = true) by exact CE2.
    clear G0' RD0 CE2. set (s := set_out st []) in *. clearbody s. unfold step_exec.
    destruct (parse_rpc r) as [[rp r1]|]; [|discriminate CE'].
    destruct (find_pent (s_pool s) rp 0) as [e|] eqn:F; [|discriminate CE'].
    destruct r1 as [|nh r2]; [exact RD'|]. destruct (take nh r2) as [place r3].
    pose proof (find_pent_eq _ _ _ _ F) as ERP. apply find_pent_in in F.
    apply andb_true_iff in CE' as [CE1 _]. apply andb_true_iff in CE1 as [KP NST]. apply Z.eqb_eq in KP. apply negb_true_iff in NST.
    change (6 =? 4) with false. change (6 =? 6) with true. cbv iota.
    rewrite KP. change (negb (K_PullTract =? K_PullTract)) with false. cbv iota. cbn [fst].
    exact (rRD_crash s (place ++ [-1] ++ match r3 with nd :: r4 => fst (take nd r4) | [] => [] end) e rp GS' RD' F ERP KP NST). }
  clear OK5. unfold step.
  assert (OK : ok_ev 4 (set_out st []) ev = true) by exact OK0.
  assert (GS : G5 (set_out st [])) by exact G0'. assert (RD : rRD (set_out st [])) by exact RD0. clear OK0 G0' RD0.
  set (s := set_out st []) in *. clearbody s.
  pose proof GS as (I2 & A & OO & AK & T & C & LW & Pr). pose proof OO as (U & _).
  destruct ev as [|c a]; [exact RD|]. unfold ok_ev in OK.
  destruct (c =? 1) eqn:C1. { destruct a; exact RD. }
  destruct (c =? 2) eqn:C2. { destruct a as [|x [|y [|z a]]]; try exact RD. destruct (zget (s_blobs s) x); exact RD. }
  destruct (c =? 3) eqn:C3. { destruct a as [|x1 [|x2 [|x3 [|x4 [|x5 [|x6 [|x7 a]]]]]]]; exact RD. }
  destruct (c =? 4) eqn:C4. { destruct a as [|x1 [|x2 [|x3 [|x4 [|x5 [|x6 a]]]]]]; exact RD. }
  assert (START : forall op kind blob tract bad cliver badts,
            rRD (flush 8 (start_task s (new_task op kind (s_gen s) (s_term s) blob tract bad cliver badts 0)) [])).
  { intros op kind blob tract bad cliver badts.
    set (t := new_task op kind (s_gen s) (s_term s) blob tract bad cliver badts 0).
    assert (RL : t_rpc t < s_next s) by (cbn; destruct T as (T0 & _); lia).
    assert (RF : t_rpc t <> 0 -> forall x, In x (s_pool s) -> p_id x = t_rpc t -> k_kind (p_rpc x) = K_FixVersion) by (intro X; cbn in X; contradiction).
    destruct (machU_of _ _ (machT_start_task s t RL RF) (keeps_start_task s t) T U) as (Ts & Us & _).
    assert (Rs : rRD (start_task s t)).
    { apply (rRD_unit s); auto; [apply machU_of; [now apply machT_start_task | apply keeps_start_task] | now apply es_start_task]. }
    apply (rRD_unit (start_task s t)); auto; [apply machU_flush | now apply es_flush]. }
  destruct (c =? 5) eqn:C5.
  { destruct a as [|x1 [|x2 [|x3 [|x4 [|x5 a]]]]]; try exact RD. destruct (take x5 a) as [bad rest]. cbn [fst]. apply START. }
  destruct (c =? 6) eqn:C6.
  { destruct a as [|x1 [|x2 [|x3 [|x4 [|x5 [|x6 [|x7 a]]]]]]]; try exact RD. cbn [fst]. apply START. }
  cbn [orb] in OK.
  destruct (c =? 7) eqn:C7.
  { destruct a as [|mode rest]; [exact RD|]. apply Z.eqb_eq in C7. subst c. apply (rRD_step_exec 4); auto. }
  destruct (c =? 8) eqn:C8.
  { destruct a as [|lose r]; [exact RD|]. unfold step_reply.
    destruct (parse_rpc r) as [[rp r1]|]; [|exact RD].
    destruct (find_pent (s_pool s) rp 2) as [e|] eqn:F; [|exact RD]. cbn [fst].
    pose proof (find_pent_st _ _ _ _ F) as EST. apply find_pent_in in F.
    match goal with |- rRD (flush 8 (resume s e ?d ?h) ?h) => set (dd := d); set (hh := h) end.
    assert (PD : dd = true -> In e (s_pool s) /\ p_st e = 2) by (intros _; auto).
    apply (rRD_unit s); auto; [now apply machU_resume_flush | now apply es_resume_flush]. }
  destruct (c =? 9) eqn:C9.
  { destruct a as [|ts [|y a]]; try exact RD. unfold step_restart. cbn [fst].
    apply (rRD_unit s); auto; [apply machU_fold_victims | now apply es_fold_victims]. }
  destruct (c =? 10) eqn:C10. { destruct a; exact RD. }
  destruct (c =? 11) eqn:C11. { destruct a as [|ts [|y a]]; exact RD. }
  destruct (c =? 12) eqn:C12.
  { destruct a as [|x1 [|x2 [|x3 [|x4 [|x5 a]]]]]; try exact RD. unfold step_probe.
    destruct (tget (s_dtr s) (tkey x1 x2)) as [[ver hosts]|] eqn:Et; [|exact RD].
    destruct ((x3 =? 1) && (x4 =? 0)) eqn:PR; [exact RD|].
    pose proof (probe_nochange s x1 x2 ver hosts x3 x4 PR Et) as NC.
    destruct (change_tract s (s_term s - x4) x1 x2 (ver + x3) hosts) as [s1 cc]. cbn [fst] in *. subst s1. exact RD. }
  destruct (c =? 13) eqn:C13.
  { unfold step_issue. destruct (parse_rpc a) as [[rp r1]|]; [|exact RD].
    destruct (issue_allowed s rp) eqn:IA; [|exact RD]. cbn [fst].
    apply (rRD_es s); try reflexivity; auto.
    apply (es_add_parked s {| p_id := s_next s; p_rpc := rp; p_st := 0; p_res := []; p_tr := []; p_lose := false; p_auto := true; p_owner := 0 |}). reflexivity. }
  destruct (c =? 14) eqn:C14.
  { destruct a as [|x1 [|x2 [|x3 a]]]; try exact RD. unfold step_finclient.
    destruct (find_op (s_ops s) x1) as [o|] eqn:FO; [|exact RD].
    set (s1 := set_ops s (del_op (s_ops s) x1)).
    assert (R1 : rRD s1) by exact RD.
    destruct (existsb _ (s_pool s)); [exact R1|].
    destruct (o_kind o =? 3) eqn:K3.
    2: { repeat match goal with |- context [match ?x with _ => _ end] => destruct x eqn:?
                            | |- context [if ?x then _ else _] => destruct x eqn:? end; exact R1. }
    destruct ((x3 =? cl_NoError) && (x2 =? o_len o)); [|exact R1].
    destruct (ack_allowed s o); [|exact R1]. cbn [fst].
    eapply (rRD_ack s1); try reflexivity. exact R1. }
  destruct (c =? 15) eqn:C15. { destruct a as [|op [|y a]]; try exact RD. destruct (zget (s_fin s) op); exact RD. }
  destruct (c =? 16) eqn:C16.
  { unfold step_rpcdone. repeat match goal with |- context [match ?x with _ => _ end] => destruct x eqn:? end; exact RD. }
  destruct (c =? 17) eqn:C17. { discriminate. }
  exact RD.
Qed.

(* ---------- along a schedule of level 5 ---------- *)
Lemma rRD_init : rRD init_state.
Proof. intros cli tk v Hk n [(ke & I & _)|(e & x & I & _)]; destruct I. Qed.

Theorem GR_run : forall evs st, ok_run5 st evs = true -> G5 st -> rRD st -> G5 (run_state st evs) /\ rRD (run_state st evs).
Proof.
  induction evs as [|ev evs IH]; intros st OK GS RD; [split; assumption|].
  cbn in OK. apply andb_true_iff in OK as [OK1 OK2]. cbn [run_state]. apply IH; auto; [now apply G5_step | now apply rRD_step].
Qed.

Lemma byte_at_ge : forall l wr p, sorted_app l -> In wr l -> covers wr p = true -> w_id wr <= byte_at l p.
Proof.
  induction l as [|a l IH]; intros wr p S I C; [destruct I|].
  cbn. inversion S as [|? ? S' F]; subst. destruct (covers a p) eqn:CA.
  - destruct I as [I|I]; [subst; lia|]. rewrite Forall_forall in F. exact (F _ I).
  - destruct I as [I|I]; [subst; congruence|]. apply IH; auto.
Qed.

(* a read through a location entry obtained from GetTracts, at any later time *)
Theorem stale_location_read : forall evs, ok_run5 init_state evs = true ->
  let st := run_state init_state evs in
  forall ke h len off c n runs,
    In ke (s_know st) -> ke_durable ke = true -> In h (ke_hosts ke) ->
    ts_read (s_reps st) h (ke_tk ke) (ke_ver ke) len off = (c, n, runs) ->
    (c = cl_ErrNoSuchTract \/ c = cl_ErrVersionMismatch) \/
    ((c = cl_NoError \/ c = cl_ErrEOF) /\
     exists r, rget (s_reps st) (h, ke_tk ke) = Some r /\ r_ver r = ke_ver ke /\
       runs = render (r_app r) off (Z.min (off + len) (app_len (r_app r))) /\
       forall wid W p, In (fst (ke_tk ke), wid, W) (before st (ke_acks ke)) -> 0 <= p < TL ->
         covers W (snd (ke_tk ke) * TL + p) = true ->
         wid <= byte_at (r_app r) p /\
         (newest_cover (s_att st) (fst (ke_tk ke)) (snd (ke_tk ke) * TL + p) = Some wid -> byte_at (r_app r) p = wid)).
Proof.
  intros evs OK st ke h len off c n runs Ik Dk Ih RT.
  destruct (GR_run evs init_state OK G5_init rRD_init) as [GS RD]. fold st in GS, RD.
  pose proof GS as (I2 & A & OO & AK & T & C & LW & Pr).
  unfold ts_read in RT. destruct (rget (s_reps st) (h, ke_tk ke)) as [r|] eqn:G; [|inversion RT; subst; left; left; reflexivity].
  destruct (negb (r_ver r =? ke_ver ke)) eqn:V; [inversion RT; subst; left; right; reflexivity|].
  apply negb_false_iff in V. apply Z.eqb_eq in V. right. split.
  { inversion RT; subst. destruct (_ =? len); auto. }
  exists r. split; auto. split; auto. split; [inversion RT; reflexivity|].
  intros wid W p Iw P CV.
  assert (X : ent st (ke_cli ke) (ke_tk ke) (ke_ver ke) (ke_hosts ke) (ke_acks ke)) by (left; exists ke; auto 10).
  assert (NE : 1 <= ke_ver ke \/ ke_hosts ke <> []) by (right; intro Y; rewrite Y in Ih; destruct Ih).
  destruct (RD _ _ _ _ _ X NE) as [_ F]. destruct (F h Ih r G) as [_ CT].
  destruct (ke_tk ke) as [b j] eqn:TK. cbn [fst snd] in *.
  assert (Ln : 0 < snd (seg_of (w_off W) (w_len W) j)).
  { unfold covers in CV. apply andb_true_iff in CV as [C1 C2]. apply Z.leb_le in C1. apply Z.ltb_lt in C2. unfold seg_of. cbn. lia. }
  pose proof (CT V wid W Iw Ln) as IR.
  pose proof OO as (_ & AS & O1 & _).
  split.
  - change wid with (w_id (rec_in wid W j)). apply byte_at_ge; [eapply O1; eauto | exact IR|].
    unfold rec_in, covers. cbn. destruct (seg_of (w_off W) (w_len W) j) as [wo wl] eqn:S. cbn.
    unfold covers in CV. apply andb_true_iff in CV as [C1 C2]. apply Z.leb_le in C1. apply Z.ltb_lt in C2.
    pose proof (proj1 (seg_covers_iff _ _ _ p _ _ P S) (conj C1 C2)) as [L1 L2].
    apply andb_true_iff. split; [apply Z.leb_le | apply Z.ltb_lt]; lia.
  - intros NC. eapply shows_newest; eauto. apply AK. eapply lastn_in. exact Iw.
Qed.

(* host_version_window with presence made conditional *)
Theorem version_window : forall evs, ok_run5 init_state evs = true ->
  let st := run_state init_state evs in
  forall tk dv H h r, tget (s_dtr st) tk = Some (dv, H) -> In h H -> rget (s_reps st) (h, tk) = Some r -> dv <= r_ver r <= dv + 1.
Proof.
  intros evs OK st tk dv H h r E I G. destruct (G5_run evs init_state OK G5_init) as ([_ (U1 & _)] & _ & _ & _ & _ & _ & LW & _). fold st in U1, LW.
  split.
  - destruct LW as (_ & HV & _). specialize (HV _ _ _ _ E I). unfold bumpedk in HV. rewrite G in HV. exact HV.
  - specialize (U1 _ _ G). unfold bound1 in U1. cbn in U1. rewrite E in U1. exact U1.
Qed.
