(* Cluster/Inv.v — reachable-state invariants of the Cluster model.
   dur_ok : shape of the durable state (tract records only below the blob's tract count, versions >= 1).
   know_ok: every version a client can name was durable: location entries delivered to clients, tract lists
            sitting in undelivered replies, and pending client Write RPCs all carry a version that is at
            most the tract's durable version (at most 1 while the tract is not durable yet).
   Consequence (bumped_is_frozen): a replica whose version exceeds the durable version rejects every
   client write that can still arrive. *)
From Coq Require Import List ZArith Bool Lia.
From BLB Require Import Gen.Consts Cluster.Model Cluster.Proofs Cluster.Frame.
Import ListNotations.
Open Scope Z_scope.

Arguments flush : simpl never.
Arguments wake : simpl never.
Arguments start_task : simpl never.
Arguments resume : simpl never.
Arguments exec_rpc : simpl never.
Arguments task_reply : simpl never.
Arguments activate : simpl never.
Arguments finish_task : simpl never.

Definition dur_ok (st : state) : Prop :=
  (forall b repl nt, zget (s_blobs st) b = Some (repl, nt) -> 0 <= nt) /\
  (forall b i dv hs, tget (s_dtr st) (b, i) = Some (dv, hs) ->
     1 <= dv /\ exists repl nt, zget (s_blobs st) b = Some (repl, nt) /\ 0 <= i < nt).

Definition bound (st : state) (tk : tkt) (v : Z) : Prop :=
  match tget (s_dtr st) tk with Some (dv, _) => v <= dv | None => v <= 1 end.

Definition know_ok (st : state) : Prop :=
  (forall ke, In ke (s_know st) -> bound st (ke_tk ke) (ke_ver ke)) /\
  (forall e, In e (s_pool st) -> k_kind (p_rpc e) = K_Write ->
             bound st (tkey (k_blob (p_rpc e)) (k_tract (p_rpc e))) (k_ver (p_rpc e))) /\
  (forall e x, In e (s_pool st) -> In x (p_tr e) ->
               bound st (tkey (k_blob (p_rpc e)) (fst (fst x))) (snd (fst x))).

Definition Inv (st : state) : Prop := dur_ok st /\ know_ok st.

Definition dgrow (st st' : state) : Prop :=
  forall tk dv hs, tget (s_dtr st) tk = Some (dv, hs) ->
                   exists dv' hs', tget (s_dtr st') tk = Some (dv', hs') /\ dv <= dv'.

Lemma dgrow_refl : forall st, dgrow st st.
Proof. intros st tk dv hs H. exists dv, hs. split; auto; lia. Qed.

Lemma dgrow_trans : forall a b c, dgrow a b -> dgrow b c -> dgrow a c.
Proof.
  intros a b c H1 H2 tk dv hs H. destruct (H1 _ _ _ H) as (dv1 & hs1 & G1 & L1).
  destruct (H2 _ _ _ G1) as (dv2 & hs2 & G2 & L2). exists dv2, hs2. split; auto; lia.
Qed.

Lemma bound_mono : forall st st' tk v, dgrow st st' -> dur_ok st' -> bound st tk v -> bound st' tk v.
Proof.
  intros st st' tk v G D B. unfold bound in *.
  destruct (tget (s_dtr st) tk) as [[dv hs]|] eqn:E.
  - destruct (G _ _ _ E) as (dv' & hs' & E' & L). rewrite E'. lia.
  - destruct (tget (s_dtr st') tk) as [[dv' hs']|] eqn:E'; auto.
    destruct tk as [b i]. destruct D as [_ D]. destruct (D _ _ _ _ E') as [L _]. lia.
Qed.

(* how a pool may change without endangering know_ok: entries keep their rpc and tract list, disappear,
   or are new entries that are not client Writes and carry no tract list *)
Definition pool_sub (p p' : list pent) : Prop :=
  forall e', In e' p' ->
    (exists e, In e p /\ p_rpc e = p_rpc e' /\ p_tr e = p_tr e') \/
    (k_kind (p_rpc e') <> K_Write /\ p_tr e' = []).

Lemma pool_sub_refl : forall p, pool_sub p p.
Proof. intros p e H. left. exists e. auto. Qed.

Lemma pool_sub_trans : forall a b c, pool_sub a b -> pool_sub b c -> pool_sub a c.
Proof.
  intros a b c H1 H2 e3 H3. destruct (H2 _ H3) as [(e2 & I2 & R2 & T2)|N]; [|right; exact N].
  destruct (H1 _ I2) as [(e1 & I1 & R1 & T1)|[N1 N2]].
  - left. exists e1. repeat split; auto; congruence.
  - right. split; congruence.
Qed.

Definition evolves (st st' : state) : Prop :=
  (dur_ok st -> dur_ok st' /\ dgrow st st') /\ s_know st' = s_know st /\ pool_sub (s_pool st) (s_pool st').

Lemma evolves_refl : forall st, evolves st st.
Proof. intros st. split; [|split]; auto using pool_sub_refl. intros D; split; auto using dgrow_refl. Qed.

Lemma evolves_trans : forall a b c, evolves a b -> evolves b c -> evolves a c.
Proof.
  intros a b c (D1 & K1 & P1) (D2 & K2 & P2). split; [|split].
  - intro Da. destruct (D1 Da) as [Db G1]. destruct (D2 Db) as [Dc G2]. split; auto. eapply dgrow_trans; eauto.
  - congruence.
  - eapply pool_sub_trans; eauto.
Qed.

Lemma evolves_inv : forall st st', evolves st st' -> Inv st -> Inv st'.
Proof.
  intros st st' (D & K & P) [Ds (K1 & K2 & K3)]. destruct (D Ds) as [Ds' G]. split; auto.
  split; [|split].
  - intros ke Hke. rewrite K in Hke. eapply bound_mono; eauto.
  - intros e' He' Kind. destruct (P _ He') as [(e & I & R & T)|[N _]]; [|contradiction].
    rewrite <- R in *. eapply bound_mono; eauto.
  - intros e' x He' Hx. destruct (P _ He') as [(e & I & R & T)|[_ N]].
    + rewrite <- R. rewrite <- T in Hx. eapply bound_mono; eauto.
    + rewrite N in Hx. destruct Hx.
Qed.

(* quiet: durable state, knowledge unchanged; pool changes harmlessly *)
Definition quiet (st st' : state) : Prop :=
  s_blobs st' = s_blobs st /\ s_dtr st' = s_dtr st /\ s_know st' = s_know st /\ pool_sub (s_pool st) (s_pool st').

Lemma quiet_refl : forall st, quiet st st.
Proof. intros; repeat split; auto using pool_sub_refl. Qed.

Lemma quiet_trans : forall a b c, quiet a b -> quiet b c -> quiet a c.
Proof.
  intros a b c (A1 & A2 & A3 & A4) (B1 & B2 & B3 & B4). repeat split; try congruence.
  eapply pool_sub_trans; eauto.
Qed.

Lemma quiet_evolves : forall st st', quiet st st' -> evolves st st'.
Proof.
  intros st st' (B & D & K & P). split; [|split]; auto.
  intros [D1 D2]. split.
  - split.
    + intros b repl nt H. rewrite B in H. eauto.
    + intros b i dv hs H. rewrite D in H. rewrite B. eauto.
  - intros tk dv hs H. rewrite D. exists dv, hs. split; auto; lia.
Qed.

(* ---------- the task machinery is quiet ---------- *)
Lemma quiet_issue_cur : forall st r o, k_kind r <> K_Write -> quiet st (issue_cur st r o).
Proof.
  intros st r o N. repeat split; auto. intros e' H. cbn in H. apply in_app_or in H as [H|[H|[]]].
  - left. exists e'. auto.
  - right. subst e'. cbn. auto.
Qed.

Lemma quiet_fold_issue : forall (f : Z -> rpc) o l st,
  (forall h, k_kind (f h) <> K_Write) -> quiet st (fold_left (fun s h => issue_cur s (f h) o) l st).
Proof.
  induction l; intros; cbn; [apply quiet_refl|].
  eapply quiet_trans; [apply quiet_issue_cur; auto | apply IHl; auto].
Qed.

Lemma pool_sub_map : forall (g : pent -> pent) p,
  (forall e, p_rpc (g e) = p_rpc e /\ p_tr (g e) = p_tr e) -> pool_sub p (map g p).
Proof.
  intros g p H e' He'. apply in_map_iff in He' as (e & Eq & I). left. exists e. destruct (H e) as [A B]. subst e'. auto.
Qed.

Lemma quiet_finish_task : forall st t err, quiet st (finish_task st t err).
Proof.
  intros. unfold finish_task.
  set (g1 := fun e : pent => if p_owner e =? t_op t
                             then {| p_id := p_id e; p_rpc := p_rpc e; p_st := p_st e; p_res := p_res e; p_tr := p_tr e;
                                     p_lose := p_lose e; p_auto := p_auto e; p_owner := 0 |} else e).
  set (g2 := fun e : pent => if p_id e =? t_rpc t
                             then {| p_id := p_id e; p_rpc := p_rpc e; p_st := 2; p_res := [err]; p_tr := p_tr e;
                                     p_lose := p_lose e; p_auto := p_auto e; p_owner := p_owner e |} else e).
  assert (G1 : forall e, p_rpc (g1 e) = p_rpc e /\ p_tr (g1 e) = p_tr e) by (intro e; unfold g1; destruct (p_owner e =? t_op t); auto).
  assert (G2 : forall e, p_rpc (g2 e) = p_rpc e /\ p_tr (g2 e) = p_tr e) by (intro e; unfold g2; destruct (p_id e =? t_rpc t); auto).
  destruct (t_rpc t =? 0); cbn; repeat split; auto.
  - apply pool_sub_map; auto.
  - eapply pool_sub_trans; [apply (pool_sub_map g1); auto | apply (pool_sub_map g2); auto].
Qed.

Lemma setversion_not_write : forall g h b t v, k_kind (mk_setversion g h b t v) <> K_Write.
Proof. intros; cbn; discriminate. Qed.
Lemma pull_not_write : forall g h b t v f, k_kind (mk_pull g h b t v f) <> K_Write.
Proof. intros; cbn; discriminate. Qed.

Lemma quiet_set_tasks : forall st v, quiet st (set_tasks st v).
Proof. intros; repeat split; auto using pool_sub_refl. Qed.

Lemma quiet_activate : forall st t, quiet st (activate st t).
Proof.
  intros. unfold activate.
  repeat match goal with
         | |- context [match ?x with _ => _ end] => destruct x eqn:?
         | |- context [if ?x then _ else _] => destruct x eqn:?
         end; try apply quiet_finish_task;
    (eapply quiet_trans; [apply quiet_set_tasks | apply quiet_fold_issue; intro; apply setversion_not_write]).
Qed.

Lemma quiet_wake : forall n st, quiet st (wake n st).
Proof.
  induction n; intros; [apply quiet_refl|]. unfold wake; fold wake.
  destruct (find _ (s_tasks st)); [|apply quiet_refl].
  eapply quiet_trans; [apply quiet_activate | apply IHn].
Qed.

Lemma quiet_start_task : forall st t, quiet st (start_task st t).
Proof.
  intros. unfold start_task. destruct (_ && _).
  - eapply quiet_trans; [apply quiet_set_tasks | apply quiet_finish_task].
  - eapply quiet_trans; [apply quiet_set_tasks | apply quiet_wake].
Qed.

(* ---------- durable commands ---------- *)
Lemma tget_pair_neq : forall A (m : list (tkt * A)) k v k', k' <> k -> tget (tset m k v) k' = tget m k'.
Proof. intros. now apply tget_tset_other. Qed.

Lemma change_tract_cases : forall st term b t v h st' c,
  change_tract st term b t v h = (st', c) ->
  st' = st \/
  (exists dv hs, tget (s_dtr st) (b, t) = Some (dv, hs) /\ v = dv + 1 /\
                 st' = set_dtr st (tset (s_dtr st) (b, t) (v, h))).
Proof.
  intros st term b t v h st' c H. unfold change_tract, tkey in H.
  destruct (negb (term =? s_term st)); [inversion H; auto|].
  destruct (zget (s_blobs st) b) as [[repl nt]|]; [|inversion H; auto].
  destruct (nt <? t); [inversion H; auto|].
  destruct (tget (s_dtr st) (b, t)) as [[dv hs]|]; [|inversion H; auto].
  destruct (negb (Z.of_nat (length hs) =? Z.of_nat (length h))); [inversion H; auto|].
  destruct (negb (dv + 1 =? v)) eqn:V; [inversion H; auto|].
  apply negb_false_iff in V. apply Z.eqb_eq in V. inversion H; subst. right. exists dv, hs. auto.
Qed.

Lemma evolves_set_dtr_bump : forall st b t dv hs h,
  tget (s_dtr st) (b, t) = Some (dv, hs) ->
  evolves st (set_dtr st (tset (s_dtr st) (b, t) (dv + 1, h))).
Proof.
  intros st b t dv hs h G. split; [|split]; cbn; auto using pool_sub_refl.
  intros [D1 D2]. split.
  - split; [exact D1|]. intros b' i dv' hs' H. cbn [s_dtr set_dtr s_blobs] in *.
    destruct (Z.eq_dec b' b) as [Eb|Nb]; [destruct (Z.eq_dec i t) as [Ei|Ni]|].
    + subst. rewrite tget_tset_same in H. inversion H; subst.
      destruct (D2 _ _ _ _ G) as [L X]. split; [lia|exact X].
    + rewrite tget_tset_other in H by (intro X; inversion X; contradiction). eauto.
    + rewrite tget_tset_other in H by (intro X; inversion X; contradiction). eauto.
  - intros tk dv' hs' H. cbn [s_dtr set_dtr]. destruct tk as [b' i].
    destruct (Z.eq_dec b' b) as [Eb|Nb]; [destruct (Z.eq_dec i t) as [Ei|Ni]|].
    + subst. rewrite G in H. inversion H; subst. rewrite tget_tset_same. exists (dv' + 1), h. split; auto; lia.
    + rewrite tget_tset_other by (intro X; inversion X; contradiction). exists dv', hs'; split; auto; lia.
    + rewrite tget_tset_other by (intro X; inversion X; contradiction). exists dv', hs'; split; auto; lia.
Qed.

Lemma evolves_change_tract : forall st term b t v h, evolves st (fst (change_tract st term b t v h)).
Proof.
  intros. destruct (change_tract st term b t v h) as [st' c] eqn:C. cbn [fst].
  apply change_tract_cases in C as [E|(dv & hs & G & V & E)]; subst.
  - apply evolves_refl.
  - eapply evolves_set_dtr_bump; eauto.
Qed.

Definition ext_fold (blob : Z) (trs : list (Z * Z * list (Z * Z))) (m0 : list (tkt * (Z * list Z))) (n : Z) :=
  fold_left (fun '(m, i) '(_, _, hs) => (tset m (tkey blob i) (1, map fst hs), i + 1)) trs (m0, n).

Lemma ext_fold_keep : forall blob trs m0 n k,
  (forall i, k = (blob, i) -> i < n) -> tget (fst (ext_fold blob trs m0 n)) k = tget m0 k.
Proof.
  induction trs as [|[[idx ver] hs] trs IH]; intros m0 n k H; cbn; auto.
  unfold ext_fold in IH. rewrite IH.
  - apply tget_tset_other. unfold tkey. intro X. specialize (H n X). lia.
  - intros i X. specialize (H i X). lia.
Qed.

Lemma ext_fold_spec : forall blob trs m0 n k v,
  tget (fst (ext_fold blob trs m0 n)) k = Some v ->
  tget m0 k = Some v \/
  (exists i hs, k = (blob, i) /\ n <= i < n + Z.of_nat (length trs) /\ v = (1, hs)).
Proof.
  induction trs as [|[[idx ver] hs] trs IH]; intros m0 n k v H; cbn in H; auto.
  unfold ext_fold in IH. apply IH in H as [H|(i & hs' & E & R & V)].
  - destruct (tk_eqb k (tkey blob n)) eqn:E.
    + apply tk_eqb_eq in E. subst k. rewrite tget_tset_same in H. inversion H; subst.
      right. exists n, (map fst hs). unfold tkey. repeat split; auto; try lia. cbn [length]. lia.
    + rewrite tget_tset_other in H; auto. intro X; subst k. rewrite tk_eqb_refl in E. discriminate.
  - right. exists i, hs'. repeat split; auto; try lia. cbn [length]. lia.
Qed.

Lemma zget_zset_other : forall A (m : list (Z * A)) k v k', k' <> k -> zget (zset m k v) k' = zget m k'.
Proof.
  intros A m k v k' H. unfold zset. cbn. destruct (k' =? k) eqn:E. { apply Z.eqb_eq in E; contradiction. }
  induction m as [|[k0 v0] m IH]; cbn; auto.
  destruct (k =? k0) eqn:E0.
  - apply Z.eqb_eq in E0; subst. destruct (k' =? k0) eqn:E1; [apply Z.eqb_eq in E1; contradiction|]. exact IH.
  - cbn. destruct (k' =? k0); auto.
Qed.

Lemma evolves_ack_extend : forall st blob trs, evolves st (fst (ack_extend st blob trs)).
Proof.
  intros. unfold ack_extend.
  destruct trs as [|[[first ver0] hs0] trs0]; [apply evolves_refl|].
  remember ((first, ver0, hs0) :: trs0) as trs eqn:T. clear T trs0.
  destruct (20 <? Z.of_nat (length trs)); [apply evolves_refl|].
  destruct (zget (s_blobs st) blob) as [[repl nt]|] eqn:B; [|apply evolves_refl].
  destruct (negb (first =? nt)); [apply evolves_refl|].
  destruct (negb (forallb _ trs)); [apply evolves_refl|].
  cbn [fst]. fold (ext_fold blob trs (s_dtr st) nt).
  split; [|split]; cbn; auto using pool_sub_refl.
  intros [D1 D2]. split.
  - split.
    + intros b r n H. cbn [s_blobs set_blobs set_dtr] in H. destruct (Z.eq_dec b blob) as [E|N].
      * subst. rewrite zget_zset_same in H. inversion H; subst. specialize (D1 _ _ _ B). lia.
      * rewrite zget_zset_other in H by auto. eauto.
    + intros b i dv hs H. cbn [s_dtr s_blobs set_blobs set_dtr] in *.
      apply ext_fold_spec in H as [H|(j & hs' & E & R & V)].
      * destruct (D2 _ _ _ _ H) as (L & r0 & n0 & G & I). split; auto.
        destruct (Z.eq_dec b blob) as [E|N].
        -- subst. rewrite B in G. inversion G; subst. rewrite zget_zset_same. exists r0, (n0 + Z.of_nat (length trs)). split; auto. lia.
        -- rewrite zget_zset_other by auto. eauto.
      * inversion E; subst. inversion V; subst. split; [lia|]. rewrite zget_zset_same.
        exists repl, (nt + Z.of_nat (length trs)). split; auto. specialize (D1 _ _ _ B). lia.
  - intros tk dv hs H. cbn [s_dtr set_blobs set_dtr]. rewrite ext_fold_keep.
    + exists dv, hs. split; auto; lia.
    + intros i E. subst tk. destruct (D2 _ _ _ _ H) as (_ & r0 & n0 & G & I). rewrite B in G. inversion G; subst. lia.
Qed.

(* ---------- replies reaching tasks ---------- *)
Lemma evolves_task_reply : forall st op err hint, evolves st (task_reply st op err hint).
Proof.
  intros. unfold task_reply.
  destruct (find_task (s_tasks st) op) as [t|]; [|apply evolves_refl].
  destruct (negb (err =? cl_NoError)).
  { apply quiet_evolves. eapply quiet_trans; [apply quiet_finish_task | apply quiet_wake]. }
  destruct (1 <? t_wait t). { apply quiet_evolves, quiet_set_tasks. }
  destruct ((t_kind t =? 5) && (t_phase t =? 1)).
  - apply quiet_evolves.
    repeat match goal with
           | |- context [if ?x then _ else _] => destruct x eqn:?
           end; try (eapply quiet_trans; [apply quiet_finish_task | apply quiet_wake]).
    eapply quiet_trans; [apply quiet_set_tasks | apply quiet_fold_issue; intro; apply pull_not_write].
  - match goal with |- context [change_tract ?a ?b ?c ?d ?e ?f] =>
      pose proof (evolves_change_tract a b c d e f) as H; destruct (change_tract a b c d e f) as [st1 e1] end.
    cbn [fst] in H. eapply evolves_trans; [exact H|].
    apply quiet_evolves. eapply quiet_trans; [apply quiet_finish_task | apply quiet_wake].
Qed.

(* the durable state only grows, whatever happens *)
Definition advances (st st' : state) : Prop := dur_ok st -> dur_ok st' /\ dgrow st st'.

Lemma advances_refl : forall st, advances st st.
Proof. intros st D. split; auto using dgrow_refl. Qed.

Lemma advances_trans : forall a b c, advances a b -> advances b c -> advances a c.
Proof.
  intros a b c H1 H2 Da. destruct (H1 Da) as [Db G1]. destruct (H2 Db) as [Dc G2]. split; auto. eapply dgrow_trans; eauto.
Qed.

Lemma evolves_advances : forall st st', evolves st st' -> advances st st'.
Proof. intros st st' (D & _). exact D. Qed.

Lemma same_dur_advances : forall st st', s_blobs st' = s_blobs st -> s_dtr st' = s_dtr st -> advances st st'.
Proof.
  intros st st' B D [D1 D2]. split.
  - split.
    + intros b repl nt H. rewrite B in H. eauto.
    + intros b i dv hs H. rewrite D in H. rewrite B. eauto.
  - intros tk dv hs H. rewrite D. exists dv, hs. split; auto; lia.
Qed.

Lemma bound_advances : forall st st' tk v, advances st st' -> dur_ok st -> bound st tk v -> bound st' tk v.
Proof. intros st st' tk v A D B. destruct (A D) as [D' G]. eapply bound_mono; eauto. Qed.

Definition tr_bound (st : state) (blob : Z) (tr : list (Z * Z * list (Z * Z))) : Prop :=
  forall x, In x tr -> bound st (tkey blob (fst (fst x))) (snd (fst x)).

(* what a client learns from a delivered reply keeps the invariant, provided the reply's tract list is bounded *)
Lemma inv_client_learns : forall st r res tr,
  Inv st -> tr_bound st (k_blob r) tr -> Inv (client_learns st r res tr).
Proof.
  intros st r res tr I TB. pose proof I as [D (K1 & K2 & K3)]. unfold client_learns.
  assert (ADD : forall dur acks, Inv (set_know st (map (mk_kent (k_cli r) (k_blob r) dur acks) tr ++ s_know st))).
  { intros dur acks. split; [exact D|]. split; [|split]; [|exact K2|exact K3].
    intros ke H. cbn [s_know set_know] in H. apply in_app_or in H as [H|H]; [|exact (K1 _ H)].
    apply in_map_iff in H as ([[idx ver] hs] & E & I0). subst ke. exact (TB _ I0). }
  assert (OPS : forall v, Inv (set_ops st v)) by (intro v; exact I).
  destruct res as [|cls payload]; [exact I|].
  repeat match goal with
         | |- context [match ?x with _ => _ end] => destruct x eqn:?
         | |- context [if ?x then _ else _] => destruct x eqn:?
         end; try apply ADD; try apply OPS; exact I.
Qed.

Lemma adv_client_learns : forall st r res tr, advances st (client_learns st r res tr).
Proof.
  intros. apply same_dur_advances; unfold client_learns;
    repeat match goal with
           | |- context [match ?x with _ => _ end] => destruct x eqn:?
           | |- context [if ?x then _ else _] => destruct x eqn:?
           end; reflexivity.
Qed.

Lemma pool_remove_sub : forall p id, pool_sub p (pool_remove p id).
Proof. intros p id e H. unfold pool_remove in H. apply filter_In in H as [H _]. left. exists e. auto. Qed.

Lemma inv_resume : forall st e d h,
  Inv st -> tr_bound st (k_blob (p_rpc e)) (p_tr e) ->
  Inv (resume st e d h) /\ advances st (resume st e d h).
Proof.
  intros st e d h I TB. unfold resume.
  set (st1 := set_pool st (pool_remove (s_pool st) (p_id e))).
  assert (Q1 : quiet st st1) by (repeat split; auto; apply pool_remove_sub).
  assert (I1 : Inv st1) by (eapply evolves_inv; [apply quiet_evolves; exact Q1 | exact I]).
  assert (A1 : advances st st1) by (apply evolves_advances, quiet_evolves, Q1).
  destruct (k_cli (p_rpc e) <? 0).
  - destruct (p_owner e =? 0); [split; auto|].
    split; [eapply evolves_inv; [apply evolves_task_reply | exact I1]|].
    eapply advances_trans; [exact A1 | apply evolves_advances, evolves_task_reply].
  - set (st2 := if k_kind (p_rpc e) =? K_FixVersion then set_done st1 _ else st1).
    assert (Q2 : quiet st1 st2) by (unfold st2; destruct (k_kind (p_rpc e) =? K_FixVersion); repeat split; auto using pool_sub_refl).
    assert (I2 : Inv st2) by (eapply evolves_inv; [apply quiet_evolves; exact Q2 | exact I1]).
    assert (A2 : advances st st2) by (eapply advances_trans; [exact A1 | apply evolves_advances, quiet_evolves, Q2]).
    destruct d; [|split; auto].
    split.
    + apply inv_client_learns; auto. intros x Hx. destruct I as [D _]. eapply bound_advances; eauto.
    + eapply advances_trans; [exact A2 | apply adv_client_learns].
Qed.

Lemma inv_flush : forall n st h, Inv st -> Inv (flush n st h) /\ advances st (flush n st h).
Proof.
  induction n; intros st h I; [split; auto using advances_refl|].
  unfold flush; fold flush.
  destruct (find _ (s_pool st)) as [e|] eqn:F; [|split; auto using advances_refl].
  apply find_some in F as [F _].
  assert (TB : tr_bound st (k_blob (p_rpc e)) (p_tr e)).
  { intros x Hx. destruct I as [_ (_ & _ & K3)]. now apply K3. }
  destruct (inv_resume st e (negb (p_lose e)) h I TB) as [I' A'].
  destruct (IHn _ h I') as [I'' A'']. split; auto. eapply advances_trans; eauto.
Qed.

(* ---------- executing an RPC ---------- *)
Lemma quiet_set_reps : forall st v, quiet st (set_reps st v).
Proof. intros; repeat split; auto using pool_sub_refl. Qed.

Lemma tr_bound_nil : forall st b, tr_bound st b [].
Proof. intros st b x H. destruct H. Qed.

Lemma tr_bound_range : forall st gen blob start stop,
  tr_bound st blob (tracts_of_range st gen blob start stop).
Proof.
  intros st gen blob start stop x H. unfold tracts_of_range in H.
  apply in_map_iff in H as (i & E & _). subst x. unfold bound.
  destruct (tget (s_dtr st) (tkey blob (start + Z.of_nat i))) as [[dv hs]|] eqn:G; cbn; rewrite G; lia.
Qed.

Lemma inv_exec : forall st e oracle st' res tr,
  Inv st -> exec_rpc st e oracle = (st', res, tr) ->
  evolves st st' /\ s_pool st' = s_pool st /\ tr_bound st' (k_blob (p_rpc e)) tr.
Proof.
  intros st e oracle st' res tr I H. unfold exec_rpc in H.
  destruct (k_kind (p_rpc e) =? K_Write).
  { destruct (ts_write _ _ _ _ _ _ _) as [reps c]. inversion H; subst. split; [apply quiet_evolves, quiet_set_reps|]. split; auto using tr_bound_nil. }
  destruct (k_kind (p_rpc e) =? K_Create).
  { destruct (ts_create _ _ _ _ _ _ _) as [reps c]. inversion H; subst. split; [apply quiet_evolves, quiet_set_reps|]. split; auto using tr_bound_nil. }
  destruct (k_kind (p_rpc e) =? K_Read).
  { destruct (ts_read _ _ _ _ _ _) as [[c n] runs]. inversion H; subst. split; [apply evolves_refl|]. split; auto using tr_bound_nil. }
  destruct (k_kind (p_rpc e) =? K_SetVersion).
  { destruct (ts_setversion _ _ _ _ _) as [reps c]. inversion H; subst. split; [apply quiet_evolves, quiet_set_reps|]. split; auto using tr_bound_nil. }
  destruct (k_kind (p_rpc e) =? K_PullTract).
  { destruct (ts_pull _ _ _ _ _ _ _) as [reps c]. inversion H; subst. split; [apply quiet_evolves, quiet_set_reps|]. split; auto using tr_bound_nil. }
  destruct (k_kind (p_rpc e) =? K_StatBlob).
  { destruct (zget (s_blobs st) (k_blob (p_rpc e))) as [[a b]|]; inversion H; subst; (split; [apply evolves_refl|]; split; auto using tr_bound_nil). }
  destruct (k_kind (p_rpc e) =? K_GetTracts).
  { destruct (exec_gettracts st (p_rpc e)) as [r0 t0] eqn:G. inversion H; subst. split; [apply evolves_refl|]. split; auto.
    unfold exec_gettracts in G.
    destruct (zget (s_blobs st') (k_blob (p_rpc e))) as [[a b]|]; [|inversion G; apply tr_bound_nil].
    repeat match type of G with context [if ?x then _ else _] => destruct x end; inversion G; try apply tr_bound_nil.
    apply tr_bound_range. }
  destruct (k_kind (p_rpc e) =? K_ExtendBlob).
  { destruct (exec_extend st (p_rpc e) oracle) as [r0 t0] eqn:G. inversion H; subst. split; [apply evolves_refl|]. split; auto.
    unfold exec_extend in G.
    destruct (zget (s_blobs st') (k_blob (p_rpc e))) as [[repl nt]|]; [|inversion G; apply tr_bound_nil].
    destruct (_ <=? 0); [inversion G; apply tr_bound_nil|].
    destruct (20 <? _); [inversion G; apply tr_bound_nil|].
    destruct (_ <? repl); [inversion G; apply tr_bound_nil|].
    match type of G with (if ?c then _ else _) = _ => destruct c eqn:OK end; [|inversion G; apply tr_bound_nil].
    inversion G; subst. apply andb_true_iff in OK as [OK _]. apply andb_true_iff in OK as [_ OK].
    intros x Hx. rewrite forallb_forall in OK. specialize (OK _ Hx). destruct x as [[idx ver] hs]. cbn.
    apply andb_true_iff in OK as [OK _]. apply andb_true_iff in OK as [OK _]. apply andb_true_iff in OK as [OK _].
    apply andb_true_iff in OK as [OK _]. apply Z.eqb_eq in OK. subst ver.
    unfold bound. destruct (tget (s_dtr st') (tkey (k_blob (p_rpc e)) idx)) as [[dv hs']|] eqn:G2; [|lia].
    destruct I as [[_ D2] _]. unfold tkey in G2. destruct (D2 _ _ _ _ G2). lia. }
  destruct (k_kind (p_rpc e) =? K_AckExtend).
  { pose proof (evolves_ack_extend st (k_blob (p_rpc e)) (decode_tracts false (k_aux (p_rpc e)))) as EV.
    assert (PL : s_pool (fst (ack_extend st (k_blob (p_rpc e)) (decode_tracts false (k_aux (p_rpc e))))) = s_pool st).
    { unfold ack_extend. repeat match goal with
                                | |- context [match ?x with _ => _ end] => destruct x eqn:?
                                | |- context [if ?x then _ else _] => destruct x eqn:?
                                end; reflexivity. }
    destruct (ack_extend _ _ _) as [s1 c]. inversion H; subst. cbn [fst] in *. split; auto. split; auto using tr_bound_nil. }
  destruct (k_kind (p_rpc e) =? K_ReportBadTS); inversion H; subst; (split; [apply evolves_refl|]; split; auto using tr_bound_nil).
Qed.

Lemma find_pent_in : forall pool rp w e, find_pent pool rp w = Some e -> In e pool.
Proof.
  induction pool as [|x pool IH]; intros rp w e H; cbn [find_pent] in H; [discriminate|].
  destruct (rpc_eqb (p_rpc x) rp && (p_st x =? w)); [inversion H; subst; left; auto | right; eauto].
Qed.

Lemma inv_pool_update : forall st e stt res tr lose auto,
  Inv st -> In e (s_pool st) -> tr_bound st (k_blob (p_rpc e)) tr ->
  Inv (set_pool st (pool_update (s_pool st) (set_pent e stt res tr lose auto))).
Proof.
  intros st e stt res tr lose auto [D (K1 & K2 & K3)] IN TB. split; [exact D|]. split; [exact K1|]. split.
  - intros e' H Kd. cbn [s_pool set_pool] in H. unfold pool_update in H. apply in_map_iff in H as (x & E & Ix).
    destruct (p_id x =? p_id (set_pent e stt res tr lose auto)); subst e'; [cbn; apply (K2 _ IN); exact Kd | apply (K2 _ Ix); exact Kd].
  - intros e' y H Hy. cbn [s_pool set_pool] in H. unfold pool_update in H. apply in_map_iff in H as (x & E & Ix).
    destruct (p_id x =? p_id (set_pent e stt res tr lose auto)); subst e'; [cbn in *; apply (TB _ Hy) | apply (K3 _ _ Ix Hy)].
Qed.

Lemma inv_fold_victims : forall victims s,
  Inv s -> (forall x, In x victims -> tr_bound s (k_blob (p_rpc x)) (p_tr x)) ->
  Inv (fold_left (fun s x => flush 8 (resume s x false []) []) victims s) /\
  advances s (fold_left (fun s x => flush 8 (resume s x false []) []) victims s).
Proof.
  induction victims as [|v victims IH]; intros s I H; cbn [fold_left]; [split; auto using advances_refl|].
  destruct (inv_resume s v false [] I (H v (or_introl eq_refl))) as [I1 A1].
  destruct (inv_flush 8 _ [] I1) as [I2 A2].
  assert (A : advances s (flush 8 (resume s v false []) [])) by (eapply advances_trans; eauto).
  destruct (IH _ I2) as [I3 A3].
  - intros x Hx y Hy. destruct I as [D _]. eapply bound_advances; eauto. apply (H x (or_intror Hx) y Hy).
  - split; auto. eapply advances_trans; eauto.
Qed.

Lemma victims_bound : forall st f, Inv st ->
  forall x, In x (filter f (s_pool st)) -> tr_bound st (k_blob (p_rpc x)) (p_tr x).
Proof. intros st f [_ (_ & _ & K3)] x H y Hy. apply filter_In in H as [H _]. now apply K3. Qed.

Lemma inv_quiet : forall st st', quiet st st' -> Inv st -> Inv st'.
Proof. intros. eapply evolves_inv; [apply quiet_evolves|]; eauto. Qed.

Lemma inv_step_exec : forall st mode r, Inv st -> Inv (fst (step_exec st mode r)).
Proof.
  intros st mode r I. unfold step_exec.
  destruct (parse_rpc r) as [[rp r1]|]; [|exact I].
  destruct r1 as [|nh r2]; [exact I|].
  destruct (take nh r2) as [place r3].
  destruct (find_pent (s_pool st) rp 0) as [e|] eqn:F; [|exact I].
  apply find_pent_in in F.
  assert (TB : tr_bound st (k_blob (p_rpc e)) (p_tr e)) by (intros x Hx; destruct I as [_ (_ & _ & K3)]; now apply K3).
  destruct (mode =? 4).
  { cbn [fst]. destruct (inv_resume st e false (place ++ [-1] ++ match r3 with nd :: r4 => fst (take nd r4) | [] => [] end) I TB) as [I1 _].
    apply inv_flush. exact I1. }
  destruct (mode =? 6).
  { destruct (negb (k_kind rp =? K_PullTract)); [exact I|]. cbn [fst].
    match goal with |- context [set_reps st ?x] => set (st1 := set_reps st x) end.
    assert (I1 : Inv st1) by (apply (inv_quiet st); [apply quiet_set_reps | exact I]).
    destruct (inv_resume st1 e false (place ++ [-1] ++ match r3 with nd :: r4 => fst (take nd r4) | [] => [] end) I1 TB) as [I2 _].
    destruct (inv_flush 8 _ (place ++ [-1] ++ match r3 with nd :: r4 => fst (take nd r4) | [] => [] end) I2) as [I3 _].
    apply inv_fold_victims; [exact I3 | apply victims_bound; exact I3]. }
  destruct (k_kind rp =? K_FixVersion).
  { cbn [fst]. apply inv_flush.
    apply (inv_quiet (set_nsynth (set_pool st (pool_update (s_pool st) (set_pent e 1 [] [] (mode =? 2) (negb (mode =? 5))))) (s_nsynth st + 1))).
    - apply quiet_start_task.
    - apply (inv_quiet (set_pool st (pool_update (s_pool st) (set_pent e 1 [] [] (mode =? 2) (negb (mode =? 5)))))).
      + repeat split; auto using pool_sub_refl.
      + apply inv_pool_update; auto using tr_bound_nil. }
  destruct (exec_rpc st e place) as [[st1 res] tr] eqn:X1.
  destruct (inv_exec _ _ _ _ _ _ I X1) as (E1 & P1 & T1).
  assert (I1 : Inv st1) by (eapply evolves_inv; eauto).
  destruct (mode =? 3).
  - destruct (exec_rpc st1 e place) as [[st1b res2] tr2] eqn:X2. cbn [fst].
    destruct (inv_exec _ _ _ _ _ _ I1 X2) as (E2 & P2 & T2).
    assert (I2 : Inv st1b) by (eapply evolves_inv; eauto).
    apply inv_flush. apply inv_pool_update; auto.
    + rewrite P2, P1. exact F.
    + intros x Hx. destruct I1 as [D1 _]. eapply bound_advances; [apply evolves_advances; exact E2 | exact D1 | apply (T1 _ Hx)].
  - cbn [fst]. apply inv_flush. apply inv_pool_update; auto. rewrite P1. exact F.
Qed.

Lemma inv_step_reply : forall st lose r, Inv st -> Inv (fst (step_reply st lose r)).
Proof.
  intros st lose r I. unfold step_reply.
  destruct (parse_rpc r) as [[rp r1]|]; [|exact I].
  destruct (find_pent (s_pool st) rp 2) as [e|] eqn:F; [|exact I].
  apply find_pent_in in F. cbn [fst]. apply inv_flush.
  apply inv_resume; auto. intros x Hx. destruct I as [_ (_ & _ & K3)]. now apply K3.
Qed.

Lemma inv_step_issue : forall st r, Inv st -> Inv (fst (step_issue st r)).
Proof.
  intros st r I. unfold step_issue.
  destruct (parse_rpc r) as [[rp r1]|]; [|exact I].
  destruct (issue_allowed st rp) eqn:A; [|exact I]. cbn [fst].
  destruct I as [D (K1 & K2 & K3)]. split; [exact D|]. split; [exact K1|]. split.
  - intros e H Kd. cbn in H. apply in_app_or in H as [H|[H|[]]]; [now apply K2|]. subst e. cbn in *.
    unfold issue_allowed in A. apply andb_true_iff in A as [_ A].
    assert (TS : is_ts_kind (k_kind rp) = true) by (rewrite Kd; reflexivity). rewrite TS in A.
    apply andb_true_iff in A as [A _]. apply existsb_exists in A as (ke & Ike & C).
    apply andb_true_iff in C as [C _]. apply andb_true_iff in C as [C V]. apply andb_true_iff in C as [_ T].
    apply tk_eqb_eq in T. assert (CK : (k_kind rp =? K_Create) = false) by (rewrite Kd; reflexivity). rewrite CK in V.
    apply Z.eqb_eq in V. rewrite <- T, <- V. now apply K1.
  - intros e x H Hx. cbn in H. apply in_app_or in H as [H|[H|[]]]; [now apply (K3 e)|]. subst e. cbn in Hx. destruct Hx.
Qed.

Lemma inv_new_blob : forall st blob repl, Inv st -> zget (s_blobs st) blob = None ->
  Inv (set_blobs st (zset (s_blobs st) blob (repl, 0))).
Proof.
  intros st blob repl [[D1 D2] K] N. split; [|exact K]. split.
  - intros b r n H. cbn [s_blobs set_blobs] in H. destruct (Z.eq_dec b blob) as [E|NE].
    + subst. rewrite zget_zset_same in H. inversion H. lia.
    + rewrite zget_zset_other in H by auto. eauto.
  - intros b i dv hs H. cbn [s_dtr set_blobs s_blobs] in *. destruct (D2 _ _ _ _ H) as (L & r0 & n0 & G & R). split; auto.
    destruct (Z.eq_dec b blob) as [E|NE]; [subst; rewrite N in G; discriminate|].
    rewrite zget_zset_other by auto. eauto.
Qed.

Theorem inv_step : forall st ev, Inv st -> Inv (fst (step st ev)).
Proof.
  intros st ev I0. unfold step.
  assert (I : Inv (set_out st [])) by exact I0. clear I0. set (s := set_out st []) in *. clearbody s.
  destruct ev as [|c a]; [exact I|].
  destruct (c =? 1). { destruct a; exact I. }
  destruct (c =? 2).
  { destruct a as [|x [|y [|z a]]]; try exact I. destruct (zget (s_blobs s) x) eqn:G; [exact I|]. cbn [fst]. now apply inv_new_blob. }
  destruct (c =? 3). { destruct a as [|x1 [|x2 [|x3 [|x4 [|x5 [|x6 [|x7 a]]]]]]]; exact I. }
  destruct (c =? 4). { destruct a as [|x1 [|x2 [|x3 [|x4 [|x5 [|x6 a]]]]]]; exact I. }
  destruct (c =? 5).
  { destruct a as [|x1 [|x2 [|x3 [|x4 [|x5 a]]]]]; try exact I.
    destruct (take x5 a) as [bad rest]. cbn [fst]. apply inv_flush. eapply inv_quiet; [apply quiet_start_task | exact I]. }
  destruct (c =? 6).
  { destruct a as [|x1 [|x2 [|x3 [|x4 [|x5 [|x6 [|x7 a]]]]]]]; try exact I.
    cbn [fst]. apply inv_flush. eapply inv_quiet; [apply quiet_start_task | exact I]. }
  destruct (c =? 7). { destruct a as [|mode rest]; [exact I|]. now apply inv_step_exec. }
  destruct (c =? 8). { destruct a as [|lose r]; [exact I|]. now apply inv_step_reply. }
  destruct (c =? 9).
  { destruct a as [|ts [|y a]]; try exact I. unfold step_restart. cbn [fst].
    apply inv_fold_victims; [exact I | apply victims_bound; exact I]. }
  destruct (c =? 10). { destruct a; exact I. }
  destruct (c =? 11). { destruct a as [|ts [|y a]]; exact I. }
  destruct (c =? 12).
  { destruct a as [|x1 [|x2 [|x3 [|x4 [|x5 a]]]]]; try exact I. unfold step_probe.
    destruct (tget (s_dtr s) (tkey x1 x2)) as [[ver hosts]|]; [|exact I].
    destruct ((x3 =? 1) && (x4 =? 0)); [exact I|].
    match goal with |- context [change_tract ?a ?b ?c ?d ?e ?f] =>
      pose proof (evolves_change_tract a b c d e f) as H; destruct (change_tract a b c d e f) end.
    cbn [fst] in *. eapply evolves_inv; eauto. }
  destruct (c =? 13). { now apply inv_step_issue. }
  destruct (c =? 14).
  { destruct a as [|x1 [|x2 [|x3 a]]]; try exact I. unfold step_finclient.
    repeat match goal with
           | |- context [match ?x with _ => _ end] => destruct x eqn:?
           | |- context [if ?x then _ else _] => destruct x eqn:?
           end; exact I. }
  destruct (c =? 15). { destruct a as [|op [|y a]]; try exact I. destruct (zget (s_fin s) op); exact I. }
  destruct (c =? 16).
  { unfold step_rpcdone. repeat match goal with
                                | |- context [match ?x with _ => _ end] => destruct x eqn:?
                                end; exact I. }
  destruct (c =? 17).
  { unfold step_inject. destruct (parse_rpc a) as [[rp r1]|]; [|exact I].
    destruct ((k_cli rp <? 0) && ((k_kind rp =? K_SetVersion) || (k_kind rp =? K_PullTract))) eqn:A; [|exact I].
    cbn [fst]. apply andb_true_iff in A as [_ A].
    assert (NW : k_kind rp <> K_Write).
    { intro X. rewrite X in A. cbn in A. discriminate. }
    destruct I as [D (K1 & K2 & K3)]. split; [exact D|]. split; [exact K1|]. split.
    - intros e H Kd. cbn in H. apply in_app_or in H as [H|[H|[]]]; [now apply K2|]. subst e. cbn in Kd. contradiction.
    - intros e x H Hx. cbn in H. apply in_app_or in H as [H|[H|[]]]; [now apply (K3 e)|]. subst e. cbn in Hx. destruct Hx. }
  exact I.
Qed.

Lemma inv_init : Inv init_state.
Proof.
  split; [split|split; [|split]]; cbn; intros; try discriminate; try contradiction.
Qed.

Theorem inv_reachable : forall evs st, Inv st -> Inv (run_state st evs).
Proof. induction evs; intros st I; cbn; auto. apply IHevs. now apply inv_step. Qed.

(* ---------- bumped_is_frozen ---------- *)
(* In every reachable state: a pending client Write names a version that is at most the tract's durable
   version, so a replica that is ahead of the durable version (bumped by a repair that has not committed yet)
   rejects it and nothing changes; the same for a Create that finds such a replica. *)
Theorem bumped_is_frozen_reachable :
  forall evs e r dv hs,
    let st := run_state init_state evs in
    In e (s_pool st) ->
    let tk := tkey (k_blob (p_rpc e)) (k_tract (p_rpc e)) in
    rget (s_reps st) (k_ts (p_rpc e), tk) = Some r ->
    tget (s_dtr st) tk = Some (dv, hs) -> dv < r_ver r ->
    (k_kind (p_rpc e) = K_Write ->
       ts_write (s_reps st) (k_ts (p_rpc e)) tk (k_ver (p_rpc e)) (k_wid (p_rpc e)) (k_off (p_rpc e)) (k_len (p_rpc e))
       = (s_reps st, cl_ErrVersionMismatch)) /\
    (k_kind (p_rpc e) = K_Create ->
       forall tsid, fst (ts_create (s_reps st) (k_ts (p_rpc e)) tsid tk (k_wid (p_rpc e)) (k_off (p_rpc e)) (k_len (p_rpc e)))
                    = s_reps st).
Proof.
  intros evs e r dv hs st IN tk G D L.
  pose proof (inv_reachable evs init_state inv_init) as [[_ D2] (_ & K2 & _)]. fold st in D2, K2.
  split.
  - intro Kd. apply ts_write_wrong_version with (r := r); auto.
    specialize (K2 _ IN Kd). unfold bound in K2. fold tk in K2. rewrite D in K2. lia.
  - intros _ tsid. unfold ts_create. destruct (negb (k_ts (p_rpc e) =? tsid)); [reflexivity|].
    rewrite G. rewrite (ts_write_wrong_version _ _ _ 1 _ _ _ r G); [reflexivity|].
    unfold tk, tkey in D. destruct (D2 _ _ _ _ D). lia.
Qed.

(* ---------- durable records only move forward ---------- *)
Lemma quiet_advances : forall st st', quiet st st' -> advances st st'.
Proof. intros. now apply evolves_advances, quiet_evolves. Qed.

Lemma adv_step_exec : forall st mode r, Inv st -> advances st (fst (step_exec st mode r)).
Proof.
  intros st mode r I. unfold step_exec.
  destruct (parse_rpc r) as [[rp r1]|]; [|apply advances_refl].
  destruct r1 as [|nh r2]; [apply advances_refl|].
  destruct (take nh r2) as [place r3].
  destruct (find_pent (s_pool st) rp 0) as [e|] eqn:F; [|apply advances_refl].
  apply find_pent_in in F.
  assert (TB : tr_bound st (k_blob (p_rpc e)) (p_tr e)) by (intros x Hx; destruct I as [_ (_ & _ & K3)]; now apply K3).
  set (hint := place ++ [-1] ++ match r3 with nd :: r4 => fst (take nd r4) | [] => [] end).
  destruct (mode =? 4).
  { cbn [fst]. destruct (inv_resume st e false hint I TB) as [I1 A1].
    destruct (inv_flush 8 _ hint I1) as [_ A2]. eapply advances_trans; eauto. }
  destruct (mode =? 6).
  { destruct (negb (k_kind rp =? K_PullTract)); [apply advances_refl|]. cbn [fst].
    match goal with |- context [set_reps st ?x] => set (st1 := set_reps st x) end.
    assert (Q1 : quiet st st1) by apply quiet_set_reps.
    assert (I1 : Inv st1) by (apply (inv_quiet st); auto).
    destruct (inv_resume st1 e false hint I1 TB) as [I2 A2].
    destruct (inv_flush 8 _ hint I2) as [I3 A3].
    destruct (inv_fold_victims (filter (fun x => (p_st x =? 0) && (k_ts (p_rpc x) =? k_ts rp)) (s_pool (flush 8 (resume st1 e false hint) hint)))
                               _ I3 (victims_bound _ _ I3)) as [_ A4].
    eapply advances_trans; [apply quiet_advances; exact Q1|].
    eapply advances_trans; [exact A2|]. eapply advances_trans; [exact A3|exact A4]. }
  destruct (k_kind rp =? K_FixVersion).
  { cbn [fst].
    set (sa := set_pool st (pool_update (s_pool st) (set_pent e 1 [] [] (mode =? 2) (negb (mode =? 5))))).
    assert (Ia : Inv sa) by (apply inv_pool_update; auto using tr_bound_nil).
    assert (Aa : advances st sa) by (apply same_dur_advances; reflexivity).
    set (sb := set_nsynth sa (s_nsynth st + 1)).
    assert (Qb : quiet sa sb) by (repeat split; auto using pool_sub_refl).
    set (sc := start_task sb _).
    assert (Qc : quiet sb sc) by apply quiet_start_task.
    assert (Ic : Inv sc) by (apply (inv_quiet sb); auto; apply (inv_quiet sa); auto).
    destruct (inv_flush 8 sc hint Ic) as [_ Ad].
    eapply advances_trans; [exact Aa|]. eapply advances_trans; [apply quiet_advances; exact Qb|].
    eapply advances_trans; [apply quiet_advances; exact Qc|exact Ad]. }
  destruct (exec_rpc st e place) as [[st1 res] tr] eqn:X1.
  destruct (inv_exec _ _ _ _ _ _ I X1) as (E1 & P1 & T1).
  assert (I1 : Inv st1) by (eapply evolves_inv; eauto).
  destruct (mode =? 3).
  - destruct (exec_rpc st1 e place) as [[st1b res2] tr2] eqn:X2. cbn [fst].
    destruct (inv_exec _ _ _ _ _ _ I1 X2) as (E2 & P2 & T2).
    assert (I2 : Inv st1b) by (eapply evolves_inv; eauto).
    set (sa := set_pool st1b _).
    assert (Ia : Inv sa).
    { apply inv_pool_update; auto. { rewrite P2, P1. exact F. }
      intros x Hx. destruct I1 as [D1 _]. eapply bound_advances; [apply evolves_advances; exact E2 | exact D1 | apply (T1 _ Hx)]. }
    destruct (inv_flush 8 sa hint Ia) as [_ Af].
    eapply advances_trans; [apply evolves_advances; exact E1|].
    eapply advances_trans; [apply evolves_advances; exact E2|].
    eapply advances_trans; [|exact Af]. apply same_dur_advances; reflexivity.
  - cbn [fst]. set (sa := set_pool st1 _).
    assert (Ia : Inv sa) by (apply inv_pool_update; auto; rewrite P1; exact F).
    destruct (inv_flush 8 sa hint Ia) as [_ Af].
    eapply advances_trans; [apply evolves_advances; exact E1|].
    eapply advances_trans; [|exact Af]. apply same_dur_advances; reflexivity.
Qed.

Theorem adv_step : forall st ev, Inv st -> advances st (fst (step st ev)).
Proof.
  intros st ev I0. unfold step.
  assert (I : Inv (set_out st [])) by exact I0.
  assert (A0 : advances st (set_out st [])) by (apply same_dur_advances; reflexivity).
  eapply advances_trans; [exact A0|]. clear A0 I0. set (s := set_out st []) in *. clearbody s.
  assert (SAME : forall s', s_blobs s' = s_blobs s -> s_dtr s' = s_dtr s -> advances s s') by (intros; now apply same_dur_advances).
  destruct ev as [|c a]; [apply advances_refl|].
  destruct (c =? 1). { destruct a; apply SAME; reflexivity. }
  destruct (c =? 2).
  { destruct a as [|x [|y [|z a]]]; try apply advances_refl. destruct (zget (s_blobs s) x) eqn:G; [apply advances_refl|]. cbn [fst].
    intros D. pose proof (inv_new_blob s x y I G) as [D' _]. split; auto. intros tk dv hs H. exists dv, hs. split; auto; lia. }
  destruct (c =? 3). { destruct a as [|x1 [|x2 [|x3 [|x4 [|x5 [|x6 [|x7 a]]]]]]]; apply SAME; reflexivity. }
  destruct (c =? 4). { destruct a as [|x1 [|x2 [|x3 [|x4 [|x5 [|x6 a]]]]]]; apply SAME; reflexivity. }
  destruct (c =? 5).
  { destruct a as [|x1 [|x2 [|x3 [|x4 [|x5 a]]]]]; try apply advances_refl.
    destruct (take x5 a) as [bad rest]. cbn [fst].
    set (sc := start_task s _). assert (Qc : quiet s sc) by apply quiet_start_task.
    assert (Ic : Inv sc) by (apply (inv_quiet s); auto). destruct (inv_flush 8 sc [] Ic) as [_ Af].
    eapply advances_trans; [apply quiet_advances; exact Qc|exact Af]. }
  destruct (c =? 6).
  { destruct a as [|x1 [|x2 [|x3 [|x4 [|x5 [|x6 [|x7 a]]]]]]]; try apply advances_refl. cbn [fst].
    set (sc := start_task s _). assert (Qc : quiet s sc) by apply quiet_start_task.
    assert (Ic : Inv sc) by (apply (inv_quiet s); auto). destruct (inv_flush 8 sc [] Ic) as [_ Af].
    eapply advances_trans; [apply quiet_advances; exact Qc|exact Af]. }
  destruct (c =? 7). { destruct a as [|mode rest]; [apply advances_refl|]. now apply adv_step_exec. }
  destruct (c =? 8).
  { destruct a as [|lose r]; [apply advances_refl|]. unfold step_reply.
    destruct (parse_rpc r) as [[rp r1]|]; [|apply advances_refl].
    destruct (find_pent (s_pool s) rp 2) as [e|] eqn:F; [|apply advances_refl].
    apply find_pent_in in F. cbn [fst].
    assert (TB : tr_bound s (k_blob (p_rpc e)) (p_tr e)) by (intros x Hx; destruct I as [_ (_ & _ & K3)]; now apply K3).
    match goal with |- context [resume s e ?d ?h] => destruct (inv_resume s e d h I TB) as [I1 A1]; destruct (inv_flush 8 _ h I1) as [_ A2] end.
    eapply advances_trans; eauto. }
  destruct (c =? 9).
  { destruct a as [|ts [|y a]]; try apply advances_refl. unfold step_restart. cbn [fst].
    apply inv_fold_victims; [exact I | apply victims_bound; exact I]. }
  destruct (c =? 10). { destruct a; apply SAME; reflexivity. }
  destruct (c =? 11). { destruct a as [|ts [|y a]]; apply SAME; reflexivity. }
  destruct (c =? 12).
  { destruct a as [|x1 [|x2 [|x3 [|x4 [|x5 a]]]]]; try apply advances_refl. unfold step_probe.
    destruct (tget (s_dtr s) (tkey x1 x2)) as [[ver hosts]|]; [|apply advances_refl].
    destruct ((x3 =? 1) && (x4 =? 0)); [apply advances_refl|].
    match goal with |- context [change_tract ?a ?b ?c ?d ?e ?f] =>
      pose proof (evolves_change_tract a b c d e f) as H; destruct (change_tract a b c d e f) end.
    cbn [fst] in *. now apply evolves_advances. }
  destruct (c =? 13).
  { unfold step_issue. destruct (parse_rpc a) as [[rp r1]|]; [|apply advances_refl].
    destruct (issue_allowed s rp); apply SAME; reflexivity. }
  destruct (c =? 14).
  { destruct a as [|x1 [|x2 [|x3 a]]]; try apply advances_refl. unfold step_finclient.
    repeat match goal with
           | |- context [match ?x with _ => _ end] => destruct x eqn:?
           | |- context [if ?x then _ else _] => destruct x eqn:?
           end; apply SAME; reflexivity. }
  destruct (c =? 15). { destruct a as [|op [|y a]]; try apply advances_refl. destruct (zget (s_fin s) op); apply SAME; reflexivity. }
  destruct (c =? 16).
  { unfold step_rpcdone. repeat match goal with
                                | |- context [match ?x with _ => _ end] => destruct x eqn:?
                                end; apply SAME; reflexivity. }
  destruct (c =? 17).
  { unfold step_inject. destruct (parse_rpc a) as [[rp r1]|]; [|apply advances_refl].
    destruct ((k_cli rp <? 0) && _); apply SAME; reflexivity. }
  apply advances_refl.
Qed.

(* along every run, from every reachable state: a durable tract record never disappears and its version
   never decreases (each commit raises it by exactly one: commit_is_unique_per_version) *)
Theorem durable_monotone : forall evs2 evs1 tk dv hs,
  let st := run_state init_state evs1 in
  tget (s_dtr st) tk = Some (dv, hs) ->
  exists dv' hs', tget (s_dtr (run_state st evs2)) tk = Some (dv', hs') /\ dv <= dv'.
Proof.
  intros evs2 evs1 tk dv hs st. assert (I : Inv st) by (apply inv_reachable; exact inv_init).
  clearbody st. revert st I dv hs. induction evs2 as [|ev evs IH]; intros st I dv hs H; cbn.
  - exists dv, hs. split; auto; lia.
  - destruct I as [D K]. destruct (adv_step st ev (conj D K) D) as [D' G].
    destruct (G _ _ _ H) as (dv1 & hs1 & H1 & L1).
    destruct (IH _ (inv_step st ev (conj D K)) _ _ H1) as (dv2 & hs2 & H2 & L2).
    exists dv2, hs2. split; auto; lia.
Qed.
