(* Cluster/Proofs.v — lemmas about the shared Cluster model (Store level and durable level). *)
From Coq Require Import List ZArith Bool Lia.
From BLB Require Import Gen.Consts Cluster.Model.
Import ListNotations.
Open Scope Z_scope.

(* ---------- association lists ---------- *)
Lemma tk_eqb_refl : forall k, tk_eqb k k = true.
Proof. intros [a b]; unfold tk_eqb; cbn; now rewrite !Z.eqb_refl. Qed.

Lemma tk_eqb_eq : forall a b, tk_eqb a b = true <-> a = b.
Proof.
  intros [a1 a2] [b1 b2]; unfold tk_eqb; cbn; split.
  - intro H; apply andb_true_iff in H as [H1 H2]; apply Z.eqb_eq in H1, H2; now subst.
  - intro H; inversion H; subst; now rewrite !Z.eqb_refl.
Qed.

Lemma tk_eqb_neq : forall a b, a <> b -> tk_eqb a b = false.
Proof. intros a b H; destruct (tk_eqb a b) eqn:E; auto; apply tk_eqb_eq in E; contradiction. Qed.

Lemma rk_eqb_refl : forall k, rk_eqb k k = true.
Proof. intros [a b]; unfold rk_eqb; cbn; now rewrite Z.eqb_refl, tk_eqb_refl. Qed.

Lemma rk_eqb_eq : forall a b, rk_eqb a b = true <-> a = b.
Proof.
  intros [a1 a2] [b1 b2]; unfold rk_eqb; cbn; split.
  - intro H; apply andb_true_iff in H as [H1 H2]; apply Z.eqb_eq in H1; apply tk_eqb_eq in H2; now subst.
  - intro H; inversion H; subst; now rewrite Z.eqb_refl, tk_eqb_refl.
Qed.

Lemma tget_tdel_same : forall A (m : list (tkt * A)) k, tget (tdel m k) k = None.
Proof.
  induction m as [|[k' v] m IH]; intros k; cbn; auto.
  destruct (tk_eqb k k') eqn:E; auto. cbn. now rewrite E.
Qed.

Lemma tget_tdel_other : forall A (m : list (tkt * A)) k k', k' <> k -> tget (tdel m k) k' = tget m k'.
Proof.
  induction m as [|[k0 v] m IH]; intros k k' H; cbn; auto.
  destruct (tk_eqb k k0) eqn:E.
  - apply tk_eqb_eq in E; subst k0. rewrite (tk_eqb_neq k' k H). now apply IH.
  - cbn. destruct (tk_eqb k' k0); auto.
Qed.

Lemma tget_tset_same : forall A (m : list (tkt * A)) k v, tget (tset m k v) k = Some v.
Proof. intros; unfold tset; cbn; now rewrite tk_eqb_refl. Qed.

Lemma tget_tset_other : forall A (m : list (tkt * A)) k v k', k' <> k -> tget (tset m k v) k' = tget m k'.
Proof. intros; unfold tset; cbn; rewrite (tk_eqb_neq k' k H); now apply tget_tdel_other. Qed.

Lemma rk_eqb_neq : forall a b, a <> b -> rk_eqb a b = false.
Proof. intros a b H; destruct (rk_eqb a b) eqn:E; auto; apply rk_eqb_eq in E; contradiction. Qed.

Lemma rget_rdel_same : forall m k, rget (rdel m k) k = None.
Proof.
  induction m as [|[k' v] m IH]; intros k; cbn; auto.
  destruct (rk_eqb k k') eqn:E; auto. cbn. now rewrite E.
Qed.

Lemma rget_rdel_other : forall m k k', k' <> k -> rget (rdel m k) k' = rget m k'.
Proof.
  induction m as [|[k0 v] m IH]; intros k k' H; cbn; auto.
  destruct (rk_eqb k k0) eqn:E.
  - apply rk_eqb_eq in E; subst k0. rewrite (rk_eqb_neq k' k H). now apply IH.
  - cbn. destruct (rk_eqb k' k0); auto.
Qed.

Lemma rget_rset_same : forall m k v, rget (rset m k v) k = Some v.
Proof. intros; unfold rset; cbn; now rewrite rk_eqb_refl. Qed.

Lemma rget_rset_other : forall m k v k', k' <> k -> rget (rset m k v) k' = rget m k'.
Proof. intros; unfold rset; cbn; rewrite (rk_eqb_neq k' k H); now apply rget_rdel_other. Qed.

(* ---------- contents ---------- *)
Lemma byte_at_write_outside : forall app wid off len p,
  ~ (off <= p < off + len) -> byte_at (app_write app wid off len) p = byte_at app p.
Proof.
  intros app wid off len p H. unfold app_write.
  destruct (len <=? 0) eqn:E; auto. cbn. unfold covers; cbn.
  destruct (off <=? p) eqn:E1; destruct (p <? off + len) eqn:E2; cbn; auto.
  apply Z.leb_le in E1; apply Z.ltb_lt in E2; lia.
Qed.

Lemma byte_at_write_inside : forall app wid off len p,
  off <= p < off + len -> byte_at (app_write app wid off len) p = wid.
Proof.
  intros app wid off len p H. unfold app_write.
  destruct (len <=? 0) eqn:E. { apply Z.leb_le in E; lia. }
  cbn. unfold covers; cbn.
  assert ((off <=? p) = true) as -> by (apply Z.leb_le; lia).
  assert ((p <? off + len) = true) as -> by (apply Z.ltb_lt; lia). reflexivity.
Qed.

(* ---------- Store.doWrite / Create: a client write touches one replica, inside its own range ---------- *)
Lemma ts_write_frame : forall reps ts tk ver wid off len reps' c,
  ts_write reps ts tk ver wid off len = (reps', c) ->
  (forall k', k' <> (ts, tk) -> rget reps' k' = rget reps k') /\
  (rget reps (ts, tk) = None -> rget reps' (ts, tk) = None) /\
  (forall r, rget reps (ts, tk) = Some r ->
     exists r', rget reps' (ts, tk) = Some r' /\ r_ver r' = r_ver r /\
                (forall p, ~ (off <= p < off + len) -> byte_at (r_app r') p = byte_at (r_app r) p)).
Proof.
  intros reps ts tk ver wid off len reps' c H. unfold ts_write in H.
  destruct (rget reps (ts, tk)) as [r|] eqn:G.
  - destruct (r_ver r =? ver) eqn:V; inversion H; subst; clear H.
    + split; [|split].
      * intros k' Hk. now apply rget_rset_other.
      * intro X; discriminate.
      * intros r0 Hr0; inversion Hr0; subst r0. eexists; split; [apply rget_rset_same|]. cbn; split; auto.
        intros p Hp. now apply byte_at_write_outside.
    + split; [|split]; auto.
      * intro X; discriminate.
      * intros r0 Hr0. inversion Hr0; subst r0. exists r; auto.
  - inversion H; subst. split; [|split]; auto. intros r X; discriminate.
Qed.

(* a replica whose version differs from the one the request names rejects the write and is unchanged:
   the Store-level core of "a bumped replica is frozen" *)
Lemma ts_write_wrong_version : forall reps ts tk ver wid off len r,
  rget reps (ts, tk) = Some r -> r_ver r <> ver ->
  ts_write reps ts tk ver wid off len = (reps, cl_ErrVersionMismatch).
Proof.
  intros. unfold ts_write. rewrite H. destruct (r_ver r =? ver) eqn:E; auto. apply Z.eqb_eq in E; contradiction.
Qed.

Lemma ts_write_ok_inv : forall reps ts tk ver wid off len reps',
  ts_write reps ts tk ver wid off len = (reps', cl_NoError) ->
  exists r, rget reps (ts, tk) = Some r /\ r_ver r = ver /\
            rget reps' (ts, tk) = Some {| r_ver := ver; r_app := app_write (r_app r) wid off len |}.
Proof.
  intros reps ts tk ver wid off len reps' H. unfold ts_write in H.
  destruct (rget reps (ts, tk)) as [r|] eqn:G.
  - destruct (r_ver r =? ver) eqn:V.
    + inversion H; subst. apply Z.eqb_eq in V. exists r; repeat split; auto. rewrite rget_rset_same. now rewrite V.
    + exfalso. solve [inversion H].
  - exfalso. solve [inversion H].
Qed.

Lemma ts_create_frame : forall reps ts tsid tk wid off len reps' c,
  ts_create reps ts tsid tk wid off len = (reps', c) ->
  (forall k', k' <> (ts, tk) -> rget reps' k' = rget reps k') /\
  (forall r, rget reps (ts, tk) = Some r ->
     exists r', rget reps' (ts, tk) = Some r' /\ r_ver r' = r_ver r /\
                (forall p, ~ (off <= p < off + len) -> byte_at (r_app r') p = byte_at (r_app r) p)) /\
  (rget reps (ts, tk) = None ->
     forall r', rget reps' (ts, tk) = Some r' ->
                r_ver r' = 1 /\ forall p, ~ (off <= p < off + len) -> byte_at (r_app r') p = 0).
Proof.
  intros reps ts tsid tk wid off len reps' c H. unfold ts_create in H.
  destruct (negb (ts =? tsid)).
  - inversion H; subst. split; [|split]; auto.
    + intros r Hr; exists r; auto.
    + intros G r' Hr'; rewrite G in Hr'; discriminate.
  - destruct (rget reps (ts, tk)) as [r|] eqn:G.
    + destruct (ts_write_frame _ _ _ _ _ _ _ _ _ H) as (A & B & C). split; [|split]; auto.
      * intros r0 Hr0. inversion Hr0; subst r0. apply C. exact G.
      * intros X; discriminate.
    + inversion H; subst; clear H. split; [|split].
      * intros k' Hk; now apply rget_rset_other.
      * intros r X; discriminate.
      * intros _ r' Hr'. rewrite rget_rset_same in Hr'. inversion Hr'; subst; cbn. split; auto.
        intros p Hp. now rewrite byte_at_write_outside.
Qed.

(* ---------- SetVersion: only the version moves, never backwards, at most to the requested one ---------- *)
Definition setversion_post (reps reps' : list (rkey * replica)) (ts : Z) (tk : tkt) (nv c : Z) : Prop :=
  (forall k', k' <> (ts, tk) -> rget reps' k' = rget reps k') /\
  (rget reps (ts, tk) = None -> rget reps' (ts, tk) = None) /\
  (forall r, rget reps (ts, tk) = Some r ->
     exists r', rget reps' (ts, tk) = Some r' /\ r_app r' = r_app r /\
                r_ver r <= r_ver r' /\ (r_ver r' = r_ver r \/ (r_ver r' = nv /\ nv = r_ver r + 1)) /\
                (c = cl_NoError -> nv <= r_ver r')).

Lemma setversion_post_unchanged : forall reps ts tk nv c,
  (c = cl_NoError -> forall r, rget reps (ts, tk) = Some r -> nv <= r_ver r) ->
  setversion_post reps reps ts tk nv c.
Proof.
  intros reps ts tk nv c H. split; [|split].
  - auto.
  - auto.
  - intros r Hr. exists r. split; [exact Hr|]. split; [reflexivity|]. split; [lia|]. split; [now left|].
    intro Hc. now apply (H Hc).
Qed.

Lemma ts_setversion_frame : forall reps ts tsid tk nv reps' c,
  ts_setversion reps ts tsid tk nv = (reps', c) -> setversion_post reps reps' ts tk nv c.
Proof.
  intros reps ts tsid tk nv reps' c H. unfold ts_setversion in H.
  destruct (negb (ts =? tsid)).
  { inversion H; subst. apply setversion_post_unchanged. intro X; exfalso; solve [inversion X]. }
  destruct (nv <=? 1).
  { inversion H; subst. apply setversion_post_unchanged. intro X; exfalso; solve [inversion X]. }
  destruct (rget reps (ts, tk)) as [r|] eqn:G.
  - destruct (nv <=? r_ver r) eqn:E1.
    + inversion H; subst. apply setversion_post_unchanged. intros _ r0 Hr0. rewrite G in Hr0; inversion Hr0; subst.
      apply Z.leb_le in E1; lia.
    + destruct (r_ver r + 1 =? nv) eqn:E2; inversion H; subst; clear H.
      * apply Z.eqb_eq in E2. split; [|split].
        -- intros k' Hk; now apply rget_rset_other.
        -- intro X; rewrite G in X; discriminate.
        -- intros r0 Hr0; rewrite G in Hr0; inversion Hr0; subst r0.
           eexists; split; [apply rget_rset_same|]. cbn. repeat split; auto; lia.
      * apply setversion_post_unchanged. intro X; exfalso; solve [inversion X].
  - inversion H; subst. apply setversion_post_unchanged. intro X; exfalso; solve [inversion X].
Qed.

(* ---------- durable ChangeTract: old+1 rule and term rule ---------- *)
Lemma change_tract_ok_inv : forall st term blob tract ver hosts st',
  change_tract st term blob tract ver hosts = (st', cl_NoError) ->
  term = s_term st /\
  exists dv hs, tget (s_dtr st) (tkey blob tract) = Some (dv, hs) /\ ver = dv + 1 /\
                length hs = length hosts /\
                s_dtr st' = tset (s_dtr st) (tkey blob tract) (ver, hosts) /\ s_term st' = s_term st /\ s_reps st' = s_reps st.
Proof.
  intros st term blob tract ver hosts st' H. unfold change_tract in H.
  destruct (term =? s_term st) eqn:T; cbn in H; [|exfalso; solve [inversion H]].
  apply Z.eqb_eq in T. split; auto.
  destruct (zget (s_blobs st) blob) as [[repl nt]|]; [|exfalso; solve [inversion H]].
  destruct (nt <? tract); [exfalso; solve [inversion H]|].
  destruct (tget (s_dtr st) (tkey blob tract)) as [[dv hs]|]; [|exfalso; solve [inversion H]].
  destruct (Z.of_nat (length hs) =? Z.of_nat (length hosts)) eqn:L; cbn in H; [|exfalso; solve [inversion H]].
  destruct (dv + 1 =? ver) eqn:V; cbn in H; [|exfalso; solve [inversion H]].
  inversion H; subst; clear H. apply Z.eqb_eq in L, V. exists dv, hs. repeat split; auto; lia.
Qed.

Lemma zget_zset_same : forall A (m : list (Z * A)) k v, zget (zset m k v) k = Some v.
Proof. intros; unfold zset; cbn; now rewrite Z.eqb_refl. Qed.

(* after a commit at version v, no second commit at version v can succeed (whatever term and hosts) *)
Lemma commit_unique_per_version : forall st term blob tract ver hosts st' term2 hosts2 st2 c,
  change_tract st term blob tract ver hosts = (st', cl_NoError) ->
  change_tract st' term2 blob tract ver hosts2 = (st2, c) -> c <> cl_NoError.
Proof.
  intros st term blob tract ver hosts st' term2 hosts2 st2 c H1 H2 Hc; subst c.
  apply change_tract_ok_inv in H1 as (_ & dv & hs & G & V & _ & D & _).
  apply change_tract_ok_inv in H2 as (_ & dv2 & hs2 & G2 & V2 & _).
  rewrite D, tget_tset_same in G2. inversion G2; subst. lia.
Qed.

(* a commit proposed under a stale term is rejected and changes nothing *)
Lemma change_tract_stale_term : forall st term blob tract ver hosts,
  term <> s_term st -> change_tract st term blob tract ver hosts = (st, cl_ErrLeaderContinuityBroken).
Proof.
  intros. unfold change_tract. destruct (term =? s_term st) eqn:E; auto. apply Z.eqb_eq in E; contradiction.
Qed.
