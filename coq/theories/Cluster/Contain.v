(* Cluster/Contain.v — containment: under the schedule discipline of Sched.ok_ev (and the lower host version
   window as a hypothesis) every replica a reader can be sent to holds the record of every acknowledged write.
   Layering: V1 (acknowledged records are in current replicas), S (an accepted part is in the accepting copy while
   it keeps that version), Q (a current replica that lacks the part of the write in progress blocks every location
   entry its client may use for the acknowledgement), QA (AckExtend), K0, PA, TR. *)
From Coq Require Import List ZArith Bool Lia.
From BLB Require Import Gen.Consts Cluster.Model Cluster.Proofs Cluster.Frame Cluster.Inv Cluster.Window
     Cluster.Attempts Cluster.Sched Cluster.Order.
Import ListNotations.
Open Scope Z_scope.

(* ---------- vocabulary ---------- *)
(* a copy a reader may be sent to now or after the next commit *)
Definition curv (dv : Z) (H : list Z) (g : Z) (r : replica) : Prop := (In g H /\ r_ver r = dv) \/ r_ver r = dv + 1.

Definition segl (o : cop) (j : Z) : Z * Z := seg_of (o_off o) (o_len o) j.
Definition orec (o : cop) (j : Z) : wrec := mkw (o_wid o) (fst (segl o j)) (snd (segl o j)).

Arguments segl : simpl never.
Arguments orec : simpl never.

Definition okres (e : pent) : Prop := p_st e = 2 /\ hd 0 (p_res e) = cl_NoError.

(* evidence that host h accepted o's part of tract tk at version v: the client counted it, or the OK reply exists *)
Definition acc_succ (o : cop) (tk : tkt) (h v : Z) : Prop :=
  succ_mem (tk, h, v, fst (segl o (snd tk)), snd (segl o (snd tk))) (o_succ o) = true.
Definition acc_pool (st : state) (o : cop) (tk : tkt) (h v : Z) : Prop :=
  exists e, In e (s_pool st) /\ okres e /\ wkind (p_rpc e) /\ k_cli (p_rpc e) = o_cli o /\ rtk (p_rpc e) = tk /\
            k_ts (p_rpc e) = h /\ newver (p_rpc e) = v /\
            k_off (p_rpc e) = fst (segl o (snd tk)) /\ k_len (p_rpc e) = snd (segl o (snd tk)).
Definition acc (st : state) (o : cop) (tk : tkt) (h v : Z) : Prop := acc_succ o tk h v \/ acc_pool st o tk h v.

(* location entries from GetTracts: delivered to the client, or in a reply under way *)
Definition vk (st : state) (cli : Z) (tk : tkt) (v : Z) (Hk : list Z) : Prop :=
  (exists ke, In ke (s_know st) /\ ke_cli ke = cli /\ ke_tk ke = tk /\ ke_ver ke = v /\ ke_hosts ke = Hk /\ ke_durable ke = true) \/
  (exists e x, In e (s_pool st) /\ k_kind (p_rpc e) = K_GetTracts /\ k_cli (p_rpc e) = cli /\ In x (p_tr e) /\
               tk = tkey (k_blob (p_rpc e)) (fst (fst x)) /\ v = snd (fst x) /\ Hk = map fst (snd x)).
Definition vkx (st : state) (cli : Z) (tk : tkt) (v : Z) (Hk : list Z) : Prop :=
  vk st cli tk v Hk \/ tget (s_dtr st) tk = Some (v, Hk).

Definition ack_tks (r : rpc) : list tkt := map (fun '(idx, _, _) => tkey (k_blob r) idx) (decode_tracts false (k_aux r)).
Definition ackx (st : state) (o : cop) (tk : tkt) : Prop :=
  tmem tk (o_acked o) = true \/
  exists e, In e (s_pool st) /\ k_kind (p_rpc e) = K_AckExtend /\ k_cli (p_rpc e) = o_cli o /\ okres e /\ In tk (ack_tks (p_rpc e)).

Definition wop (st : state) (o : cop) : Prop := In o (s_ops st) /\ o_kind o = 3.
Definition oo_ok (st : state) (cli : Z) (tk : tkt) (oo : option cop) : Prop :=
  match oo with
  | None => True
  | Some o => wop st o /\ o_cli o = cli /\ o_blob o = fst tk /\ 0 < snd (segl o (snd tk))
  end.
Definition has (oo : option cop) (tk : tkt) (r : replica) : Prop :=
  match oo with None => False | Some o => In (orec o (snd tk)) (r_app r) end.
Definition nacc (st : state) (oo : option cop) (tk : tkt) (h v : Z) : Prop :=
  match oo with None => True | Some o => ~ acc st o tk h v end.
Definition stuck (st : state) (tk : tkt) (g : Z) (r : replica) (h v : Z) : Prop :=
  rget (s_reps st) (h, tk) = None \/
  (exists rh, rget (s_reps st) (h, tk) = Some rh /\ v < r_ver rh) \/
  (h = g /\ r_ver r = v).

(* ---------- the invariants ---------- *)
Definition cV1 (st : state) : Prop :=
  forall b wid W j dv H g r, In (b, wid, W) (s_acked st) -> tget (s_dtr st) (b, j) = Some (dv, H) ->
    rget (s_reps st) (g, (b, j)) = Some r -> curv dv H g r -> 0 < snd (seg_of (w_off W) (w_len W) j) ->
    In (rec_in wid W j) (r_app r).

Definition cS (st : state) : Prop :=
  forall o tk h v, wop st o -> fst tk = o_blob o -> 0 < snd (segl o (snd tk)) -> acc st o tk h v ->
    bound st tk v /\
    (tget (s_dtr st) tk = None -> rget (s_reps st) (h, tk) <> None) /\
    forall r, rget (s_reps st) (h, tk) = Some r -> v <= r_ver r /\ (r_ver r = v -> In (orec o (snd tk)) (r_app r)).

Definition cQ (st : state) : Prop :=
  forall cli tk v Hk dv H g r oo, vkx st cli tk v Hk -> (1 <= v \/ Hk <> []) -> tget (s_dtr st) tk = Some (dv, H) ->
    rget (s_reps st) (g, tk) = Some r -> curv dv H g r -> oo_ok st cli tk oo ->
    has oo tk r \/ exists h, In h Hk /\ nacc st oo tk h v /\ stuck st tk g r h v.

Definition cQA (st : state) : Prop :=
  forall o tk, wop st o -> fst tk = o_blob o -> ackx st o tk ->
    exists dv H, tget (s_dtr st) tk = Some (dv, H) /\
      (0 < snd (segl o (snd tk)) -> forall g r, rget (s_reps st) (g, tk) = Some r -> curv dv H g r -> In (orec o (snd tk)) (r_app r)).

Definition cK0 (st : state) : Prop :=
  forall cli tk v Hk, vk st cli tk v Hk -> 1 <= v \/ Hk <> [] -> exists dv H, tget (s_dtr st) tk = Some (dv, H).

(* an acknowledged write touches durable tracts only *)
Definition cAD (st : state) : Prop :=
  forall b wid W j, In (b, wid, W) (s_acked st) -> 0 < snd (seg_of (w_off W) (w_len W) j) -> exists dv H, tget (s_dtr st) (b, j) = Some (dv, H).

Definition strictP (o : cop) (r : rpc) : Prop :=
  consec (first_idx (decode_tracts false (k_aux r))) (decode_tracts false (k_aux r)) = true /\
  forall idx ver hs h, In (idx, ver, hs) (decode_tracts false (k_aux r)) -> 0 < snd (segl o idx) -> In h (map fst hs) ->
    succ_mem (tkey (k_blob r) idx, h, 1, fst (segl o idx), snd (segl o idx)) (o_succ o) = true.
Definition cPA (st : state) : Prop :=
  forall e, In e (s_pool st) -> k_kind (p_rpc e) = K_AckExtend ->
    exists o, op_of_client (s_ops st) (k_cli (p_rpc e)) = Some o /\ o_kind o = 3 /\ o_blob o = k_blob (p_rpc e) /\
              (p_st e = 0 -> strictP o (p_rpc e)).

Definition cinv (st : state) : Prop := cV1 st /\ cS st /\ cQ st /\ cQA st /\ cK0 st /\ cPA st /\ cAD st.

(* pool ids are below s_next; the RPC a task serves is a FixVersion *)
Definition tr_ok (st : state) : Prop :=
  1 <= s_next st /\
  (forall e, In e (s_pool st) -> p_id e < s_next st) /\
  (forall t, In t (s_tasks st) -> t_rpc t < s_next st /\
     (t_rpc t <> 0 -> forall e, In e (s_pool st) -> p_id e = t_rpc t -> k_kind (p_rpc e) = K_FixVersion)).

(* ---------- what the task machinery and reply delivery may do ---------- *)
Definition mach (st st' : state) : Prop :=
  s_reps st' = s_reps st /\ s_acked st' = s_acked st /\
  (forall tk dv H, tget (s_dtr st) tk = Some (dv, H) ->
     exists dv' H', tget (s_dtr st') tk = Some (dv', H') /\ dv <= dv' /\ (dv' = dv -> H' = H)) /\
  (forall tk dv' H', tget (s_dtr st') tk = Some (dv', H') -> exists dv H, tget (s_dtr st) tk = Some (dv, H)) /\
  (forall o', In o' (s_ops st') -> exists o, In o (s_ops st) /\ opsig o = opsig o' /\
     (forall tk h v, acc st' o' tk h v -> acc st o tk h v) /\ (forall tk, ackx st' o' tk -> ackx st o tk)) /\
  (forall cli o, op_of_client (s_ops st) cli = Some o -> exists o', op_of_client (s_ops st') cli = Some o' /\ opsig o' = opsig o /\
     (forall x, succ_mem x (o_succ o) = true -> succ_mem x (o_succ o') = true)) /\
  (forall cli tk v Hk, vk st' cli tk v Hk -> vk st cli tk v Hk) /\
  (forall e', In e' (s_pool st') -> k_kind (p_rpc e') = K_AckExtend ->
     exists e, In e (s_pool st) /\ p_rpc e = p_rpc e' /\ (p_st e' = 0 -> p_st e = 0)).

Definition machT (st st' : state) : Prop := tr_ok st -> tr_ok st' /\ mach st st'.

Lemma mach_refl : forall st, mach st st.
Proof.
  intros st. split; [reflexivity|]. split; [reflexivity|]. split; [|split; [|split; [|split; [|split]]]].
  - intros tk dv H E. exists dv, H. repeat split; auto; lia.
  - intros tk dv H E. exists dv, H. exact E.
  - intros o I. exists o. repeat split; auto.
  - intros cli o E. exists o. repeat split; auto.
  - auto.
  - intros e I K. exists e. auto.
Qed.

Lemma mach_trans : forall a b c, mach a b -> mach b c -> mach a c.
Proof.
  intros a b c (R1 & A1 & D1 & E1 & O1 & C1 & V1 & P1) (R2 & A2 & D2 & E2 & O2 & C2 & V2 & P2).
  split; [congruence|]. split; [congruence|]. split; [|split; [|split; [|split; [|split]]]].
  - intros tk dv H E. destruct (D1 _ _ _ E) as (dv1 & H1 & G1 & L1 & Q1). destruct (D2 _ _ _ G1) as (dv2 & H2 & G2 & L2 & Q2).
    exists dv2, H2. repeat split; auto; [lia|]. intro X. assert (dv1 = dv) by lia. assert (dv2 = dv1) by lia. rewrite Q2, Q1; auto.
  - intros tk dv H E. destruct (E2 _ _ _ E) as (dv1 & H1 & G1). eauto.
  - intros o3 I3. destruct (O2 _ I3) as (o2 & I2 & S2 & X2 & Y2). destruct (O1 _ I2) as (o1 & I1 & S1 & X1 & Y1).
    exists o1. repeat split; auto; congruence.
  - intros cli o1 E1'. destruct (C1 _ _ E1') as (o2 & F2 & S2 & G2). destruct (C2 _ _ F2) as (o3 & F3 & S3 & G3).
    exists o3. repeat split; auto; congruence.
  - auto.
  - intros e3 I3 K3. destruct (P2 _ I3 K3) as (e2 & I2 & R2' & Q2). rewrite <- R2' in K3.
    destruct (P1 _ I2 K3) as (e1 & I1 & R1' & Q1). exists e1. repeat split; auto; congruence.
Qed.

Lemma machT_refl : forall st, machT st st.
Proof. intros st T. split; auto using mach_refl. Qed.
Lemma machT_trans : forall a b c, machT a b -> machT b c -> machT a c.
Proof. intros a b c H1 H2 T. destruct (H1 T) as [Tb M1]. destruct (H2 Tb) as [Tc M2]. split; auto. eapply mach_trans; eauto. Qed.

(* ---------- the invariants survive the machinery ---------- *)
Lemma vk_bound : forall st cli tk v Hk, know_ok st -> vk st cli tk v Hk -> bound st tk v.
Proof.
  intros st cli tk v Hk (K1 & _ & K3) [(ke & I & _ & T & V & _)|(e & x & I & _ & _ & Ix & T & V & _)].
  - subst. now apply K1.
  - subst. exact (K3 _ _ I Ix).
Qed.

Lemma vkx_bound : forall st cli tk v Hk, know_ok st -> vkx st cli tk v Hk -> bound st tk v.
Proof.
  intros st cli tk v Hk K [V|V]; [eapply vk_bound; eauto|]. unfold bound. rewrite V. lia.
Qed.

Lemma acc_sig : forall st o o' tk h v, opsig o = opsig o' -> acc_pool st o tk h v -> acc_pool st o' tk h v.
Proof.
  intros st o o' tk h v S (e & I & OK & W & C & T & H & V & O & L).
  apply opsig_fields in S as (_ & _ & Sc & _ & So & Sl & _).
  exists e. unfold segl in *. rewrite <- So, <- Sl, <- Sc. destruct OK. repeat split; auto.
Qed.

Lemma segl_sig : forall o o' j, opsig o = opsig o' -> segl o j = segl o' j.
Proof. intros o o' j S. apply opsig_fields in S as (_ & _ & _ & _ & So & Sl & _). unfold segl. now rewrite So, Sl. Qed.
Lemma orec_sig : forall o o' j, opsig o = opsig o' -> orec o j = orec o' j.
Proof. intros o o' j S. unfold orec. rewrite (segl_sig _ _ j S). apply opsig_fields in S as (_ & _ & _ & _ & _ & _ & Sw). now rewrite Sw. Qed.

(* a copy that is current after the machinery ran was current before *)
Lemma cur_back : forall st st' tk dv H dv' H' g r,
  win_ok st -> mach st st' ->
  tget (s_dtr st) tk = Some (dv, H) -> tget (s_dtr st') tk = Some (dv', H') ->
  rget (s_reps st) (g, tk) = Some r -> curv dv' H' g r ->
  curv dv H g r /\ (dv' = dv /\ H' = H \/ dv' = dv + 1 /\ r_ver r = dv + 1 /\ In g H').
Proof.
  intros st st' tk dv H dv' H' g r (U1 & _) (_ & _ & D & _) E E' G C.
  destruct (D _ _ _ E) as (dv2 & H2 & E2 & L & Q). rewrite E' in E2. inversion E2; subst dv2 H2.
  specialize (U1 _ _ G). unfold bound1 in U1. cbn in U1. rewrite E in U1.
  destruct (Z.eq_dec dv' dv) as [X|X].
  - subst dv'. rewrite (Q eq_refl) in *. split; auto.
  - destruct C as [[I V]|V]; [|lia]. assert (X1 : dv' = dv + 1) by lia. rewrite X1 in V. split; [right; exact V|]. right. auto.
Qed.

Lemma oo_back : forall st st' cli tk oo', mach st st' -> oo_ok st' cli tk oo' ->
  exists oo, oo_ok st cli tk oo /\ (forall r, has oo tk r <-> has oo' tk r) /\
             (forall h v, nacc st oo tk h v -> nacc st' oo' tk h v).
Proof.
  intros st st' cli tk oo' (_ & _ & _ & _ & O & _) OK. destruct oo' as [o'|].
  - destruct OK as ([I K] & C & B & L). destruct (O _ I) as (o & Io & S & A & _).
    pose proof (opsig_fields _ _ S) as (_ & Sk & Sc & Sb & _).
    exists (Some o). split; [|split].
    + cbn. rewrite (segl_sig _ _ _ S). repeat split; auto; congruence.
    + intros r. cbn. rewrite (orec_sig _ _ _ S). tauto.
    + intros h v N X. apply N. now apply A.
  - exists None. repeat split; auto.
Qed.

Lemma cinv_mach : forall st st', Inv2 st -> dur_ok st' -> cinv st -> mach st st' -> cinv st'.
Proof.
  intros st st' [[Ds Ks] W] Ds' (V1 & S & Q & QA & K0 & PA & AD) M.
  pose proof M as (R & A & D & E & O & C & VK & P).
  assert (DG : dgrow st st').
  { intros tk dv H X. destruct (D _ _ _ X) as (dv' & H' & X' & L & _). eauto. }
  split; [|split; [|split; [|split; [|split; [|split]]]]].
  - (* V1 *)
    intros b wid W0 j dv' H' g r IA E' G Cu Ln. rewrite A in IA. rewrite R in G.
    destruct (E _ _ _ E') as (dv & H & E0).
    destruct (cur_back _ _ _ _ _ _ _ _ _ W M E0 E' G Cu) as [Cu0 _]. eapply V1; eauto.
  - (* S *)
    intros o' tk h v [I K] B Ln AC. destruct (O _ I) as (o & Io & Sg & AB & _).
    pose proof (opsig_fields _ _ Sg) as (_ & Sk & _ & Sb & _).
    assert (WO : wop st o) by (split; auto; congruence).
    rewrite <- (segl_sig _ _ _ Sg) in Ln. rewrite <- (orec_sig _ _ _ Sg).
    destruct (S o tk h v WO ltac:(congruence) Ln (AB _ _ _ AC)) as (Bd & Pr & Rp). split; [|split].
    + eapply bound_mono; eauto.
    + intros N. rewrite R. apply Pr. destruct (tget (s_dtr st) tk) as [[dv0 H0]|] eqn:E0; auto.
      destruct (D _ _ _ E0) as (dv' & H' & E' & _). congruence.
    + intros r G. rewrite R in G. auto.
  - (* Q *)
    intros cli tk v Hk dv' H' g r oo' VX V1' E' G Cu OK. rewrite R in G.
    destruct (E _ _ _ E') as (dv & H & E0).
    destruct (cur_back _ _ _ _ _ _ _ _ _ W M E0 E' G Cu) as [Cu0 CASE].
    destruct (oo_back _ _ _ _ _ M OK) as (oo & OK0 & HS & NA).
    assert (STK : forall h, stuck st tk g r h v -> stuck st' tk g r h v).
    { intros h X. unfold stuck. rewrite R. exact X. }
    destruct VX as [VX|VX].
    + (* a real entry: it was there before *)
      apply VK in VX. pose proof (vk_bound _ _ _ _ _ Ks VX) as Bd. unfold bound in Bd. rewrite E0 in Bd.
      destruct (Q cli tk v Hk dv H g r oo (or_introl VX) V1' E0 G Cu0 OK0) as [X|(h & Ih & N & St)].
      * left. now apply HS.
      * right. exists h. repeat split; auto.
    + (* the durable record itself *)
      rewrite E' in VX. inversion VX; subst v Hk. destruct CASE as [[X1 X2]|(X1 & X2 & X3)].
      * subst dv' H'. destruct (Q cli tk dv H dv H g r oo (or_intror E0) V1' E0 G Cu0 OK0) as [X|(h & Ih & N & St)].
        -- left. now apply HS.
        -- right. exists h. repeat split; auto.
      * (* just committed: nobody can have written at the new version *)
        subst dv'. destruct oo' as [o'|].
        -- right. exists g. split; [exact X3|]. split.
           ++ cbn. intro AC. destruct OK as ([I K] & Cc & B & Ln). destruct (O _ I) as (o & Io & Sg & AB & _).
              pose proof (opsig_fields _ _ Sg) as (_ & Sk & _ & Sb & _).
              assert (WO : wop st o) by (split; auto; congruence).
              rewrite <- (segl_sig _ _ _ Sg) in Ln.
              destruct (S o tk g (dv + 1) WO ltac:(congruence) Ln (AB _ _ _ AC)) as (Bd & _). unfold bound in Bd. rewrite E0 in Bd. lia.
           ++ right. right. auto.
        -- right. exists g. split; [exact X3|]. split; [exact I|]. right. right. auto.
  - (* QA *)
    intros o' tk [I K] B AX. destruct (O _ I) as (o & Io & Sg & _ & AXB).
    pose proof (opsig_fields _ _ Sg) as (_ & Sk & _ & Sb & _).
    assert (WO : wop st o) by (split; auto; congruence).
    destruct (QA o tk WO ltac:(congruence) (AXB _ AX)) as (dv & H & E0 & X).
    destruct (D _ _ _ E0) as (dv' & H' & E' & _). exists dv', H'. split; auto.
    intros Ln g r G Cu. rewrite R in G. rewrite <- (segl_sig _ _ _ Sg) in Ln. rewrite <- (orec_sig _ _ _ Sg).
    destruct (cur_back _ _ _ _ _ _ _ _ _ W M E0 E' G Cu) as [Cu0 _]. eauto.
  - (* K0 *)
    intros cli tk v Hk VX L. destruct (K0 _ _ _ _ (VK _ _ _ _ VX) L) as (dv & H & E0).
    destruct (D _ _ _ E0) as (dv' & H' & E' & _). eauto.
  - (* PA *)
    intros e' I K. destruct (P _ I K) as (e & Ie & Re & Pe). rewrite <- Re in *.
    destruct (PA _ Ie K) as (o & OC & Ko & Bo & St). destruct (C _ _ OC) as (o' & OC' & Sg & GR).
    pose proof (opsig_fields _ _ Sg) as (_ & Sk & _ & Sb & _).
    exists o'. split; [exact OC'|]. split; [congruence|]. split; [congruence|]. intro Pz.
    destruct (St (Pe Pz)) as [CS St']. clear St. rename St' into St. split; [exact CS|].
    intros idx ver hs h Ix Ln Ih. rewrite (segl_sig _ _ _ Sg) in *. apply GR. eapply St; eauto.
  - (* AD *)
    intros b wid W0 j IA Ln. rewrite A in IA. destruct (AD _ _ _ _ IA Ln) as (dv & H & E0).
    destruct (D _ _ _ E0) as (dv' & H' & E' & _). eauto.
Qed.

(* ---------- the machinery is a mach step ---------- *)
Definition cent (r : rpc) : Prop := wkind r \/ k_kind r = K_GetTracts \/ k_kind r = K_AckExtend.
Definition same4 (e e' : pent) : Prop := p_rpc e = p_rpc e' /\ p_st e = p_st e' /\ p_res e = p_res e' /\ p_tr e = p_tr e'.

Lemma mach_basic0 : forall st st',
  s_reps st' = s_reps st -> s_acked st' = s_acked st ->
  (forall tk dv H, tget (s_dtr st) tk = Some (dv, H) ->
     exists dv' H', tget (s_dtr st') tk = Some (dv', H') /\ dv <= dv' /\ (dv' = dv -> H' = H)) ->
  (forall tk dv' H', tget (s_dtr st') tk = Some (dv', H') -> exists dv H, tget (s_dtr st) tk = Some (dv, H)) ->
  s_ops st' = s_ops st ->
  (forall ke, In ke (s_know st') -> In ke (s_know st) \/ (ke_durable ke = true -> vk st (ke_cli ke) (ke_tk ke) (ke_ver ke) (ke_hosts ke))) ->
  (forall e', In e' (s_pool st') -> cent (p_rpc e') -> exists e, In e (s_pool st) /\ same4 e e') -> mach st st'.
Proof.
  intros st st' R A D1 D2 O K P. split; auto. split; auto. split; [exact D1|split; [exact D2|split; [|split; [|split]]]].
  - intros o I. rewrite O in I. exists o. split; auto. split; auto. split.
    + intros tk h v [X|(e' & I' & [OK1 OK2] & W & Rest)]; [left; exact X|]. right.
      destruct (P _ I' (or_introl W)) as (e & Ie & R1 & R2 & R3 & R4). exists e. unfold okres. rewrite R1, R2, R3. repeat split; auto; tauto.
    + intros tk [X|(e' & I' & Kd & C & [OK1 OK2] & T)]; [left; exact X|]. right.
      destruct (P _ I' (or_intror (or_intror Kd))) as (e & Ie & R1 & R2 & R3 & R4). exists e. unfold okres. rewrite R1, R2, R3. repeat split; auto.
  - intros cli o E. rewrite O. exists o. auto.
  - intros cli tk v Hk [(ke & Ik & X1 & X2 & X3 & X4 & X5)|(e' & x & I' & Kd & C & Ix & Rest)].
    { destruct (K _ Ik) as [Y|Y]; [left; exists ke; repeat split; auto|]. subst. exact (Y X5). }
    right.
    destruct (P _ I' (or_intror (or_introl Kd))) as (e & Ie & R1 & R2 & R3 & R4). exists e, x. rewrite R1, R4. auto.
  - intros e' I' Kd. destruct (P _ I' (or_intror (or_intror Kd))) as (e & Ie & R1 & R2 & R3 & R4). exists e. repeat split; auto. congruence.
Qed.

Lemma mach_basic : forall st st',
  s_reps st' = s_reps st -> s_acked st' = s_acked st -> s_dtr st' = s_dtr st -> s_ops st' = s_ops st -> s_know st' = s_know st ->
  (forall e', In e' (s_pool st') -> cent (p_rpc e') -> exists e, In e (s_pool st) /\ same4 e e') -> mach st st'.
Proof.
  intros st st' R A D O K P. apply mach_basic0; auto.
  - intros tk dv H E. exists dv, H. rewrite D. repeat split; auto; lia.
  - intros tk dv H E. rewrite D in E. eauto.
  - intros ke I. left. rewrite K in I. exact I.
Qed.

Lemma same4_refl : forall e, same4 e e.
Proof. intros; repeat split; auto. Qed.

Lemma setv_not_cent : forall g h b t v, ~ cent (mk_setversion g h b t v).
Proof. intros g h b t v [[K|K]|[K|K]]; cbn in K; discriminate. Qed.
Lemma pull_not_cent : forall g h b t v f, ~ cent (mk_pull g h b t v f).
Proof. intros g h b t v f [[K|K]|[K|K]]; cbn in K; discriminate. Qed.

Lemma machT_issue_cur : forall st r o, ~ cent r -> machT st (issue_cur st r o).
Proof.
  intros st r o N (T0 & T1 & T2). split.
  - split; [cbn; lia|]. split.
    + intros e I. cbn in I. cbn [s_next issue_cur issue set_out set_next set_pool]. apply in_app_or in I as [I|[I|[]]].
      * specialize (T1 _ I). lia.
      * subst e. cbn. lia.
    + intros t I. cbn in I. destruct (T2 _ I) as [L F]. split; [cbn; lia|].
      intros NZ e Ie Id. cbn in Ie. apply in_app_or in Ie as [Ie|[Ie|[]]]; [eauto|]. subst e. cbn in Id. lia.
  - apply mach_basic; try reflexivity. intros e' I C. cbn in I. apply in_app_or in I as [I|[I|[]]].
    + exists e'. split; auto using same4_refl.
    + subst e'. cbn in C. contradiction.
Qed.

Lemma machT_fold_issue : forall (f : Z -> rpc) o l st, (forall h, ~ cent (f h)) ->
  machT st (fold_left (fun s h => issue_cur s (f h) o) l st).
Proof.
  induction l; intros st N; cbn [fold_left]; [apply machT_refl|].
  eapply machT_trans; [apply machT_issue_cur; apply N | apply IHl; exact N].
Qed.

Lemma machT_set_tasks : forall st v, (forall t', In t' v -> exists t, In t (s_tasks st) /\ t_rpc t' = t_rpc t) ->
  machT st (set_tasks st v).
Proof.
  intros st v Hv (T0 & T1 & T2). split.
  - split; [exact T0|]. split; [exact T1|]. intros t' I. cbn in I. destruct (Hv _ I) as (t & It & E). rewrite E. exact (T2 _ It).
  - apply mach_basic; try reflexivity. intros e' I _. exists e'. split; auto using same4_refl.
Qed.

Lemma upd_task_rpc : forall ts t t', In t ts -> t_rpc t' = t_rpc t ->
  forall x, In x (upd_task ts t') -> exists y, In y ts /\ t_rpc x = t_rpc y.
Proof.
  intros ts t t' It E x Ix. unfold upd_task in Ix. apply in_map_iff in Ix as (y & Ey & Iy).
  destruct (t_op y =? t_op t'); subst x; [exists t | exists y]; auto.
Qed.

Lemma machT_finish_task : forall st t err, In t (s_tasks st) -> machT st (finish_task st t err).
Proof.
  intros st t err It T. pose proof T as (T0 & T1 & T2). unfold finish_task.
  set (g1 := fun e : pent => if p_owner e =? t_op t
                             then {| p_id := p_id e; p_rpc := p_rpc e; p_st := p_st e; p_res := p_res e; p_tr := p_tr e;
                                     p_lose := p_lose e; p_auto := p_auto e; p_owner := 0 |} else e).
  set (g2 := fun e : pent => if p_id e =? t_rpc t
                             then {| p_id := p_id e; p_rpc := p_rpc e; p_st := 2; p_res := [err]; p_tr := p_tr e;
                                     p_lose := p_lose e; p_auto := p_auto e; p_owner := p_owner e |} else e).
  assert (G1 : forall e, p_rpc (g1 e) = p_rpc e /\ p_id (g1 e) = p_id e /\ same4 e (g1 e)).
  { intro e; unfold g1; destruct (p_owner e =? t_op t); repeat split; auto. }
  assert (G2 : forall e, p_rpc (g2 e) = p_rpc e /\ p_id (g2 e) = p_id e /\ (p_id e <> t_rpc t -> g2 e = e)).
  { intro e; unfold g2; destruct (p_id e =? t_rpc t) eqn:X; repeat split; auto. intro N. apply Z.eqb_eq in X. contradiction. }
  set (s1 := set_tasks st (del_task (s_tasks st) (t_op t))).
  assert (TS : forall x, In x (s_tasks s1) -> In x (s_tasks st)).
  { intros x Ix. cbn in Ix. unfold del_task in Ix. apply filter_In in Ix as [Ix _]. exact Ix. }
  destruct (t_rpc t =? 0) eqn:Z0.
  - split.
    + split; [exact T0|]. split.
      * intros e I. cbn in I. apply in_map_iff in I as (y & Ey & Iy). subst e. destruct (G1 y) as (_ & Id & _). rewrite Id. cbn. now apply T1.
      * intros x Ix. cbn in Ix. apply TS in Ix. destruct (T2 _ Ix) as [L F]. split; [exact L|].
        intros NZ e I Id. cbn in I. apply in_map_iff in I as (y & Ey & Iy). subst e. destruct (G1 y) as (Rp & Idy & _). rewrite Rp. rewrite Idy in Id. eauto.
    + apply mach_basic; try reflexivity. intros e' I _. cbn in I. apply in_map_iff in I as (y & Ey & Iy). subst e'.
      exists y. split; [exact Iy|]. apply G1.
  - apply Z.eqb_neq in Z0. split.
    + split; [exact T0|]. split.
      * intros e I. cbn in I. apply in_map_iff in I as (y1 & Ey1 & Iy1). apply in_map_iff in Iy1 as (y & Ey & Iy). subst.
        destruct (G2 (g1 y)) as (_ & Id2 & _). destruct (G1 y) as (_ & Id1 & _). rewrite Id2, Id1. now apply T1.
      * intros x Ix. cbn in Ix. apply TS in Ix. destruct (T2 _ Ix) as [L F]. split; [exact L|].
        intros NZ e I Id. cbn in I. apply in_map_iff in I as (y1 & Ey1 & Iy1). apply in_map_iff in Iy1 as (y & Ey & Iy). subst.
        destruct (G2 (g1 y)) as (Rp2 & Id2 & _). destruct (G1 y) as (Rp1 & Id1 & _). rewrite Rp2, Rp1. rewrite Id2, Id1 in Id. eauto.
    + apply mach_basic; try reflexivity. intros e' I C. cbn in I. apply in_map_iff in I as (y1 & Ey1 & Iy1). apply in_map_iff in Iy1 as (y & Ey & Iy). subst.
      exists y. split; [exact Iy|]. destruct (G1 y) as (Rp1 & Id1 & S1). destruct (G2 (g1 y)) as (Rp2 & Id2 & Fx).
      destruct (Z.eq_dec (p_id (g1 y)) (t_rpc t)) as [X|X].
      * exfalso. rewrite Id1 in X. destruct (T2 _ It) as [_ F]. pose proof (F Z0 _ Iy X) as Kf. rewrite Rp2, Rp1 in C.
        destruct C as [[C|C]|[C|C]]; rewrite Kf in C; discriminate.
      * rewrite (Fx X). exact S1.
Qed.

Ltac fin_task := try (apply machT_finish_task; assumption).

Lemma machT_activate : forall st t, In t (s_tasks st) -> machT st (activate st t).
Proof.
  intros st t It. unfold activate.
  destruct (zget (s_blobs st) (t_blob t)) as [[repl nt]|]; fin_task.
  destruct (nt <=? t_tract t); fin_task.
  destruct (tget (s_dtr st) (tkey (t_blob t) (t_tract t))) as [[dv hosts]|]; fin_task.
  destruct (t_kind t =? 5).
  - destruct (Z.of_nat (length _) =? 0); fin_task. destruct (Z.of_nat (length _) =? Z.of_nat (length hosts)); fin_task.
    destruct (negb (subset _ _)); fin_task.
    eapply machT_trans; [apply machT_set_tasks | apply machT_fold_issue].
    + intros x Ix. eapply upd_task_rpc in Ix; [exact Ix | exact It | reflexivity].
    + intro h. apply setv_not_cent.
  - destruct (negb (zmem _ _)); fin_task. destruct (negb (t_cliver t =? dv)); fin_task. destruct (negb (subset _ _)); fin_task.
    eapply machT_trans; [apply machT_set_tasks | apply machT_fold_issue].
    + intros x Ix. eapply upd_task_rpc in Ix; [exact Ix | exact It | reflexivity].
    + intro h. apply setv_not_cent.
Qed.

Lemma machT_wake : forall n st, machT st (wake n st).
Proof.
  induction n; intros st; [apply machT_refl|]. unfold wake; fold wake.
  destruct (find _ (s_tasks st)) as [t|] eqn:F; [|apply machT_refl].
  apply find_some in F as [F _]. eapply machT_trans; [apply machT_activate; exact F | apply IHn].
Qed.

Lemma machT_start_task : forall st t,
  t_rpc t < s_next st -> (t_rpc t <> 0 -> forall e, In e (s_pool st) -> p_id e = t_rpc t -> k_kind (p_rpc e) = K_FixVersion) ->
  machT st (start_task st t).
Proof.
  intros st t L F. unfold start_task.
  set (st1 := set_tasks st (s_tasks st ++ [t])).
  assert (M1 : machT st st1).
  { intros (T0 & T1 & T2). split.
    - split; [exact T0|]. split; [exact T1|]. intros x Ix. cbn in Ix. apply in_app_or in Ix as [Ix|[Ix|[]]]; [exact (T2 _ Ix)|].
      subst x. split; auto.
    - apply mach_basic; try reflexivity. intros e' I _. exists e'. split; auto using same4_refl. }
  assert (It : In t (s_tasks st1)) by (cbn; apply in_or_app; right; left; reflexivity).
  destruct (_ && _).
  - eapply machT_trans; [exact M1 | apply machT_finish_task; exact It].
  - eapply machT_trans; [exact M1 | apply machT_wake].
Qed.

Lemma machT_change_tract : forall st term b t v h, machT st (fst (change_tract st term b t v h)).
Proof.
  intros st term b t v h T. destruct (change_tract st term b t v h) as [st' c] eqn:X. cbn [fst].
  destruct (change_tract_cases _ _ _ _ _ _ _ _ X) as [E|(dv & hs & G & V & E)]; subst st'.
  - split; auto using mach_refl.
  - split; [exact T|]. apply mach_basic0; try reflexivity.
    + intros tk dv0 H0 E0. cbn [s_dtr set_dtr]. destruct (tk_eqb tk (b, t)) eqn:K.
      * apply tk_eqb_eq in K. subst tk. rewrite tget_tset_same. rewrite G in E0. inversion E0; subst dv0 H0.
        exists v, h. split; auto. split; [lia|]. intro; lia.
      * rewrite tget_tset_other by (intro Y; subst tk; rewrite (proj2 (tk_eqb_eq _ _) eq_refl) in K; discriminate).
        exists dv0, H0. repeat split; auto; lia.
    + intros tk dv0 H0 E0. cbn [s_dtr set_dtr] in E0. destruct (tk_eqb tk (b, t)) eqn:K.
      * apply tk_eqb_eq in K. subst tk. eauto.
      * rewrite tget_tset_other in E0 by (intro Y; subst tk; rewrite (proj2 (tk_eqb_eq _ _) eq_refl) in K; discriminate). eauto.
    + intros ke I. left. exact I.
    + intros e' I _. exists e'. split; auto using same4_refl.
Qed.

Lemma find_task_in : forall ts op t, find_task ts op = Some t -> In t ts.
Proof.
  induction ts as [|a l IH]; intros op t H; cbn in H; [discriminate|].
  destruct (t_op a =? op); [inversion H; left; auto | right; eauto].
Qed.

Lemma tasks_change_tract : forall st term b t v h, s_tasks (fst (change_tract st term b t v h)) = s_tasks st.
Proof. intros; unfold change_tract; brk; reflexivity. Qed.

Lemma machT_task_reply : forall st op err hint, machT st (task_reply st op err hint).
Proof.
  intros st op err hint0. unfold task_reply.
  destruct (find_task (s_tasks st) op) as [t|] eqn:F; [|apply machT_refl]. apply find_task_in in F.
  destruct (negb (err =? cl_NoError)).
  { eapply machT_trans; [apply machT_finish_task; exact F | apply machT_wake]. }
  destruct (1 <? t_wait t).
  { apply machT_set_tasks. intros x Ix. eapply upd_task_rpc in Ix; [exact Ix | exact F | reflexivity]. }
  destruct ((t_kind t =? 5) && (t_phase t =? 1)).
  { destruct (_ || _). { eapply machT_trans; [apply machT_finish_task; exact F | apply machT_wake]. }
    destruct (negb _). { eapply machT_trans; [apply machT_finish_task; exact F | apply machT_wake]. }
    eapply machT_trans; [apply machT_set_tasks | apply machT_fold_issue].
    - intros x Ix. eapply upd_task_rpc in Ix; [exact Ix | exact F | reflexivity].
    - intro h. apply pull_not_cent. }
  match goal with |- context [change_tract ?a ?b ?c ?d ?e ?f] =>
    pose proof (machT_change_tract a b c d e f) as MC; pose proof (tasks_change_tract a b c d e f) as TC;
    destruct (change_tract a b c d e f) as [st1 ee] end.
  cbn [fst] in MC, TC. eapply machT_trans; [exact MC|]. eapply machT_trans; [apply machT_finish_task; rewrite TC; exact F | apply machT_wake].
Qed.

(* ---------- delivery of a reply to a client ---------- *)
Lemma acc_pool_sub : forall st st' o tk h v, (forall e', In e' (s_pool st') -> In e' (s_pool st)) ->
  acc_pool st' o tk h v -> acc_pool st o tk h v.
Proof. intros st st' o tk h v P (e & I & Rest). exists e. split; auto. Qed.

Lemma op_of_client_upd : forall ops on c o0, (forall x, In x ops -> o_id x = o_id on -> o_cli x = o_cli on) ->
  op_of_client ops c = Some o0 -> op_of_client (upd_op ops on) c = Some (if o_id o0 =? o_id on then on else o0).
Proof.
  induction ops as [|a l IH]; intros on c o0 U F; cbn in F; [discriminate|].
  cbn. destruct (o_id a =? o_id on) eqn:E.
  - apply Z.eqb_eq in E. rewrite (U a (or_introl eq_refl) E) in F. destruct (o_cli on =? c) eqn:C.
    + inversion F; subst o0. rewrite (proj2 (Z.eqb_eq _ _) E). reflexivity.
    + apply IH; auto. intros x Ix. apply U. right. exact Ix.
  - destruct (o_cli a =? c) eqn:C.
    + inversion F; subst o0. rewrite E. reflexivity.
    + apply IH; auto. intros x Ix. apply U. right. exact Ix.
Qed.

Lemma mach_upd : forall st s2 o succ' acked' reads',
  s_reps s2 = s_reps st -> s_acked s2 = s_acked st -> s_dtr s2 = s_dtr st -> s_ops s2 = s_ops st -> s_know s2 = s_know st ->
  (forall e', In e' (s_pool s2) -> In e' (s_pool st)) ->
  NoDup (map o_id (s_ops st)) -> In o (s_ops st) ->
  (forall x, succ_mem x (o_succ o) = true -> succ_mem x succ' = true) ->
  (forall tk h v, succ_mem (tk, h, v, fst (segl o (snd tk)), snd (segl o (snd tk))) succ' = true -> acc st o tk h v) ->
  (forall tk, tmem tk acked' = true -> ackx st o tk) ->
  mach st (set_ops s2 (upd_op (s_ops s2) (set_op_fields o succ' acked' reads'))).
Proof.
  intros st s2 o succ' acked' reads' R A D O K P ND Io GR AS AX.
  set (on := set_op_fields o succ' acked' reads').
  assert (SG : opsig on = opsig o) by reflexivity.
  split; [exact R|]. split; [exact A|]. split; [|split; [|split; [|split; [|split]]]].
  - intros tk dv H E. exists dv, H. cbn. rewrite D. repeat split; auto; lia.
  - intros tk dv H E. cbn in E. rewrite D in E. eauto.
  - intros o' I. cbn [s_ops set_ops] in I. rewrite O in I. unfold upd_op in I. apply in_map_iff in I as (x & Ex & Ix).
    destruct (o_id x =? o_id on) eqn:E.
    + subst o'. exists o. split; auto. split; auto. split.
      * intros tk h v [X|X].
        -- unfold acc_succ in X. rewrite (segl_sig _ _ _ SG) in X. apply AS. exact X.
        -- right. eapply acc_sig; [exact SG|]. eapply acc_pool_sub; [|exact X]. exact P.
      * intros tk [X|(e & I & Kd & C & OKr & T)]; [apply AX; exact X|]. right. exists e. repeat split; auto; try apply OKr.
    + subst o'. exists x. split; auto. split; auto. split.
      * intros tk h v [X|X]; [left; exact X|]. right. eapply acc_pool_sub; [|exact X]. exact P.
      * intros tk [X|(e & I & Rest)]; [left; exact X|]. right. exists e. split; auto.
  - intros cli o0 F. cbn [s_ops set_ops]. rewrite O.
    assert (U : forall x, In x (s_ops st) -> o_id x = o_id on -> o_cli x = o_cli on).
    { intros x Ix E. pose proof (uniq_sig _ ND x o Ix Io E) as S. apply opsig_fields in S. cbn. tauto. }
    rewrite (op_of_client_upd _ on _ _ U F). destruct (o_id o0 =? o_id on) eqn:E.
    + apply Z.eqb_eq in E. assert (o0 = o).
      { apply op_of_client_in in F. clear - ND F Io E. cbn in E. induction (s_ops st) as [|a l IH]; [destruct F|].
        cbn in ND. inversion ND; subst. destruct F as [F|F]; destruct Io as [Io|Io]; subst; auto.
        - exfalso. apply H1. rewrite E. now apply in_map.
        - exfalso. apply H1. rewrite <- E. now apply in_map. }
      subst o0. exists on. repeat split; auto.
    + exists o0. repeat split; auto.
  - intros cli tk v Hk [X|(e & x & I & Rest)]; [left; cbn in X; rewrite K in X; exact X|]. right. exists e, x. split; auto.
  - intros e' I Kd. exists e'. cbn in I. auto.
Qed.

Lemma tmem_app : forall x a b, tmem x (a ++ b) = true -> tmem x a = true \/ tmem x b = true.
Proof. intros x a b H. unfold tmem in *. rewrite existsb_app in H. now apply orb_true_iff in H. Qed.

Lemma tmem_in : forall x l, tmem x l = true -> In x l.
Proof. intros x l H. unfold tmem in H. apply existsb_exists in H as (y & I & E). apply tk_eqb_eq in E. now subst. Qed.

Lemma op_of_client_cli : forall ops cli o, op_of_client ops cli = Some o -> o_cli o = cli.
Proof. intros ops cli o H. unfold op_of_client in H. apply find_some in H as [_ H]. now apply Z.eqb_eq in H. Qed.

Lemma mach_learn : forall st s2 e,
  In e (s_pool st) -> p_st e = 2 -> NoDup (map o_id (s_ops st)) ->
  s_reps s2 = s_reps st -> s_acked s2 = s_acked st -> s_dtr s2 = s_dtr st -> s_ops s2 = s_ops st -> s_know s2 = s_know st ->
  (forall e', In e' (s_pool s2) -> In e' (s_pool st)) ->
  mach st (client_learns s2 (p_rpc e) (p_res e) (p_tr e)).
Proof.
  intros st s2 e Ie P2 ND R A D O K P. unfold client_learns.
  assert (M2 : mach st s2) by (apply mach_basic; auto; intros e' I _; exists e'; split; auto using same4_refl).
  assert (D1 : forall tk dv H, tget (s_dtr st) tk = Some (dv, H) ->
     exists dv' H', tget (s_dtr s2) tk = Some (dv', H') /\ dv <= dv' /\ (dv' = dv -> H' = H)).
  { intros tk dv H E. exists dv, H. rewrite D. repeat split; auto; lia. }
  assert (D2 : forall tk dv' H', tget (s_dtr s2) tk = Some (dv', H') -> exists dv H, tget (s_dtr st) tk = Some (dv, H)).
  { intros tk dv H E. rewrite D in E. eauto. }
  assert (PP : forall e', In e' (s_pool s2) -> cent (p_rpc e') -> exists e0, In e0 (s_pool st) /\ same4 e0 e').
  { intros e' I _. exists e'. split; auto using same4_refl. }
  destruct (p_res e) as [|cls payload] eqn:RES; [exact M2|].
  destruct (k_kind (p_rpc e) =? K_GetTracts) eqn:KG.
  { destruct (negb (cls =? cl_NoError)); [exact M2|]. apply Z.eqb_eq in KG.
    apply mach_basic0; auto. intros ke I. cbn in I. apply in_app_or in I as [I|I]; [|left; rewrite K in I; exact I].
    right. intros _. apply in_map_iff in I as (x & Ex & Ix). subst ke. destruct x as [[idx ver] hs]. cbn.
    right. exists e, (idx, ver, hs). repeat split; auto. }
  destruct (k_kind (p_rpc e) =? K_ExtendBlob) eqn:KE.
  { destruct (negb (cls =? cl_NoError)); [exact M2|].
    apply mach_basic0; auto. intros ke I. cbn in I. apply in_app_or in I as [I|I]; [|left; rewrite K in I; exact I].
    right. intros Y. apply in_map_iff in I as (x & Ex & Ix). subst ke. destruct x as [[idx ver] hs]. cbn in Y. discriminate. }
  destruct (op_of_client (s_ops s2) (k_cli (p_rpc e))) as [o|] eqn:F; [|exact M2]. rewrite O in F.
  pose proof (op_of_client_in _ _ _ F) as Io. pose proof (op_of_client_cli _ _ _ F) as Co.
  destruct (((k_kind (p_rpc e) =? K_Write) || (k_kind (p_rpc e) =? K_Create)) && (cls =? cl_NoError) &&
            ((k_wid (p_rpc e) =? o_wid o) || (k_len (p_rpc e) =? 0))) eqn:C1.
  { apply andb_true_iff in C1 as [C1 _]. apply andb_true_iff in C1 as [CK CC]. apply Z.eqb_eq in CC. subst cls.
    apply mach_upd; auto.
    - intros x X. unfold succ_mem in *. cbn [existsb]. rewrite X. apply orb_true_r.
    - intros tk h v X. unfold succ_mem in X. cbn [existsb] in X. apply orb_true_iff in X as [X|X]; [|left; exact X]. right.
      repeat (apply andb_true_iff in X as [X ?]).
      repeat match goal with Y : (_ =? _) = true |- _ => apply Z.eqb_eq in Y end.
      assert (TK : tk = tkey (k_blob (p_rpc e)) (k_tract (p_rpc e))). { destruct tk as [t1 t2]. unfold tkey in *. cbn [fst snd] in X, H3. now subst t1 t2. }
      exists e. split; [exact Ie|]. split; [split; [exact P2 | rewrite RES; reflexivity]|].
      split; [apply orb_true_iff in CK as [CK|CK]; apply Z.eqb_eq in CK; [left|right]; exact CK|].
      unfold rtk, newver. repeat split; auto; congruence.
    - intros tk X. left. exact X. }
  destruct ((k_kind (p_rpc e) =? K_AckExtend) && (cls =? cl_NoError)) eqn:C2.
  { apply andb_true_iff in C2 as [CK CC]. apply Z.eqb_eq in CC, CK. subst cls.
    apply mach_upd; auto.
    - intros tk h v X. left. exact X.
    - intros tk X. apply tmem_app in X as [X|X]; [|left; exact X]. right. apply tmem_in in X.
      exists e. repeat split; auto. rewrite RES. reflexivity. }
  destruct ((k_kind (p_rpc e) =? K_Read) && _) eqn:C3.
  { apply mach_upd; auto.
    - intros tk h v X. left. exact X.
    - intros tk X. left. exact X. }
  exact M2.
Qed.

Definition machU (st st' : state) : Prop := tr_ok st -> ops_uniq st -> tr_ok st' /\ ops_uniq st' /\ mach st st'.

Lemma machU_refl : forall st, machU st st.
Proof. intros st T U. auto using mach_refl. Qed.
Lemma machU_trans : forall a b c, machU a b -> machU b c -> machU a c.
Proof.
  intros a b c H1 H2 T U. destruct (H1 T U) as (Tb & Ub & M1). destruct (H2 Tb Ub) as (Tc & Uc & M2).
  split; [exact Tc|]. split; [exact Uc|]. eapply mach_trans; eauto.
Qed.
Lemma machU_of : forall st st', machT st st' -> keeps st st' -> machU st st'.
Proof. intros st st' M [_ K] T U. destruct (M T) as [T' M']. split; [exact T'|]. split; [|exact M']. exact (sigs_uniq _ _ (K U) U). Qed.

Lemma learn_fields : forall s r res tr,
  s_next (client_learns s r res tr) = s_next s /\ s_pool (client_learns s r res tr) = s_pool s /\
  s_tasks (client_learns s r res tr) = s_tasks s.
Proof. intros. unfold client_learns. brk; auto. Qed.

Lemma machU_resume : forall st e d h, (d = true -> In e (s_pool st) /\ p_st e = 2) -> machU st (resume st e d h).
Proof.
  intros st e d h Pd T U. split; [|split].
  2: { exact (sigs_uniq _ _ (proj2 (keeps_resume st e d h) U) U). }
  - (* tr_ok *)
    unfold resume. set (st1 := set_pool st (pool_remove (s_pool st) (p_id e))).
    assert (T1 : tr_ok st1).
    { destruct T as (T0 & T1 & T2). split; [exact T0|]. split.
      - intros x Ix. cbn in Ix. unfold pool_remove in Ix. apply filter_In in Ix as [Ix _]. auto.
      - intros t It. destruct (T2 _ It) as [L F]. split; auto. intros NZ x Ix. cbn in Ix. unfold pool_remove in Ix. apply filter_In in Ix as [Ix _]. eauto. }
    destruct (k_cli (p_rpc e) <? 0).
    + destruct (p_owner e =? 0); [exact T1|]. exact (proj1 (machT_task_reply _ _ _ _ T1)).
    + set (st2 := if k_kind (p_rpc e) =? K_FixVersion then set_done st1 _ else st1).
      assert (T2 : tr_ok st2) by (unfold st2; destruct (k_kind (p_rpc e) =? K_FixVersion); exact T1).
      destruct d; [|exact T2].
      destruct (learn_fields st2 (p_rpc e) (p_res e) (p_tr e)) as (N & P & K). destruct T2 as (A0 & A1 & A2).
      split; [rewrite N; exact A0|]. split.
      * intros x Ix. rewrite P in Ix. rewrite N. auto.
      * intros t It. rewrite K in It. rewrite N, P. auto.
  - (* mach *)
    unfold resume. set (st1 := set_pool st (pool_remove (s_pool st) (p_id e))).
    assert (SUB : forall e', In e' (s_pool st1) -> In e' (s_pool st)).
    { intros x Ix. cbn in Ix. unfold pool_remove in Ix. apply filter_In in Ix as [Ix _]. exact Ix. }
    assert (M1 : machT st st1).
    { intros _. split.
      - destruct T as (T0 & T1 & T2). split; [exact T0|]. split; [intros x Ix; apply T1; auto|].
        intros t It. destruct (T2 _ It) as [L F]. split; auto.
      - apply mach_basic; try reflexivity. intros e' I _. exists e'. split; auto using same4_refl. }
    destruct (k_cli (p_rpc e) <? 0).
    + destruct (p_owner e =? 0); [exact (proj2 (M1 T))|]. exact (proj2 (machT_trans _ _ _ M1 (machT_task_reply _ _ _ _) T)).
    + set (st2 := if k_kind (p_rpc e) =? K_FixVersion then set_done st1 _ else st1).
      assert (F2 : s_reps st2 = s_reps st /\ s_acked st2 = s_acked st /\ s_dtr st2 = s_dtr st /\ s_ops st2 = s_ops st /\
                   s_know st2 = s_know st /\ s_pool st2 = s_pool st1).
      { unfold st2; destruct (k_kind (p_rpc e) =? K_FixVersion); repeat split. }
      destruct F2 as (F1 & F2 & F3 & F4 & F5 & F6).
      destruct d.
      * destruct (Pd eq_refl) as [Ie P2]. apply mach_learn; auto; [apply U|]. intros x Ix. rewrite F6 in Ix. auto.
      * apply mach_basic; auto. intros e' I _. rewrite F6 in I. exists e'. split; auto using same4_refl.
Qed.

Lemma machU_flush : forall n st h, machU st (flush n st h).
Proof.
  induction n; intros st h; [apply machU_refl|]. unfold flush; fold flush.
  destruct (find _ (s_pool st)) as [e|] eqn:F; [|apply machU_refl].
  apply find_some in F as [Ie Pe]. apply andb_true_iff in Pe as [Pe _]. apply Z.eqb_eq in Pe.
  eapply machU_trans; [apply machU_resume; intros _; split; [exact Ie | exact Pe] | apply IHn].
Qed.

Lemma machU_fold_victims : forall victims s,
  machU s (fold_left (fun s x => flush 8 (resume s x false []) []) victims s).
Proof.
  induction victims as [|x l IH]; intros s; cbn [fold_left]; [apply machU_refl|].
  eapply machU_trans; [|apply IH]. apply (machU_trans _ (resume s x false [])); [apply machU_resume; intro Y; discriminate Y | apply machU_flush].
Qed.

(* ---------- replica steps: everything but the replicas stays ---------- *)
Definition sbr (st st1 : state) : Prop :=
  s_dtr st1 = s_dtr st /\ s_pool st1 = s_pool st /\ s_ops st1 = s_ops st /\ s_know st1 = s_know st /\ s_acked st1 = s_acked st.

Lemma sbr_acc : forall st st1 o tk h v, sbr st st1 -> (acc st1 o tk h v <-> acc st o tk h v).
Proof. intros st st1 o tk h v (_ & P & _). unfold acc, acc_pool. rewrite P. tauto. Qed.
Lemma sbr_vkx : forall st st1 cli tk v Hk, sbr st st1 -> (vkx st1 cli tk v Hk <-> vkx st cli tk v Hk).
Proof. intros st st1 cli tk v Hk (D & P & _ & K & _). unfold vkx, vk. rewrite D, P, K. tauto. Qed.
Lemma sbr_ackx : forall st st1 o tk, sbr st st1 -> (ackx st1 o tk <-> ackx st o tk).
Proof. intros st st1 o tk (_ & P & _). unfold ackx. rewrite P. tauto. Qed.
Lemma sbr_oo : forall st st1 cli tk oo, sbr st st1 -> (oo_ok st1 cli tk oo <-> oo_ok st cli tk oo).
Proof. intros st st1 cli tk oo (_ & _ & O & _). destruct oo; cbn; [unfold wop; rewrite O|]; tauto. Qed.
Lemma sbr_nacc : forall st st1 oo tk h v, sbr st st1 -> (nacc st1 oo tk h v <-> nacc st oo tk h v).
Proof. intros st st1 oo tk h v B. destruct oo; cbn; [rewrite (sbr_acc _ _ _ _ _ _ B)|]; tauto. Qed.

Lemma has_incl : forall oo tk r r1, incl (r_app r) (r_app r1) -> has oo tk r -> has oo tk r1.
Proof. intros [o|] tk r r1 I H; cbn in *; auto. Qed.

(* the clauses that do not look at replicas *)
Lemma sbr_rest : forall st st1, sbr st st1 -> cinv st -> cK0 st1 /\ cPA st1 /\ cAD st1.
Proof.
  intros st st1 B (_ & _ & _ & _ & K0 & PA & AD). pose proof B as (D & P & O & K & A). split; [|split].
  - intros cli tk v Hk V L. unfold vk in V. rewrite K, P in V. rewrite D. eapply K0; eauto.
  - intros e I Kd. rewrite P in I. rewrite O. eauto.
  - intros b wid W j I L. rewrite A in I. rewrite D. eauto.
Qed.

(* 1. a copy gains records, versions stay; new copies only of tracts that are not durable *)
Lemma cinv_grows : forall st st1, sbr st st1 ->
  (forall k r, rget (s_reps st) k = Some r ->
     exists r1, rget (s_reps st1) k = Some r1 /\ r_ver r1 = r_ver r /\ incl (r_app r) (r_app r1)) ->
  (forall k r1, rget (s_reps st1) k = Some r1 -> rget (s_reps st) k = None -> tget (s_dtr st) (snd k) = None) ->
  cinv st -> cinv st1.
Proof.
  intros st st1 B G1 G2 C. pose proof C as (V1 & S & Q & QA & _). pose proof B as (D & P & O & K & A).
  destruct (sbr_rest _ _ B C) as (K0' & PA' & AD').
  assert (BACK : forall g tk dv H r1, tget (s_dtr st) tk = Some (dv, H) -> rget (s_reps st1) (g, tk) = Some r1 ->
            exists r, rget (s_reps st) (g, tk) = Some r /\ r_ver r1 = r_ver r /\ incl (r_app r) (r_app r1)).
  { intros g tk dv H r1 E G. destruct (rget (s_reps st) (g, tk)) as [r|] eqn:G0.
    - destruct (G1 _ _ G0) as (r1' & G' & V & I). rewrite G in G'. inversion G'; subst r1'. exists r. auto.
    - pose proof (G2 _ _ G G0) as N. cbn in N. congruence. }
  assert (STK : forall tk dv H g r r1 h v, tget (s_dtr st) tk = Some (dv, H) -> r_ver r1 = r_ver r ->
            stuck st tk g r h v -> stuck st1 tk g r1 h v).
  { intros tk dv H g r r1 h v E VV [X|[(rh & Gh & L)|[X1 X2]]].
    - left. destruct (rget (s_reps st1) (h, tk)) as [r'|] eqn:G'; auto. pose proof (G2 _ _ G' X) as N. cbn in N. congruence.
    - right. left. destruct (G1 _ _ Gh) as (rh1 & G' & V & _). exists rh1. split; auto. lia.
    - right. right. split; auto. congruence. }
  split; [|split; [|split; [|split; [|split; [|split]]]]]; auto.
  - intros b wid W j dv H g r1 IA E G Cu Ln. rewrite A in IA. rewrite D in E.
    destruct (BACK _ _ _ _ _ E G) as (r & G0 & V & I). apply I. eapply V1; eauto. unfold curv in *. rewrite <- V. exact Cu.
  - intros o tk h v WO Bl Ln AC. unfold wop in WO. rewrite O in WO. apply (sbr_acc _ _ _ _ _ _ B) in AC.
    destruct (S o tk h v WO Bl Ln AC) as (Bd & Pr & Rp). split; [|split].
    + unfold bound in *. rewrite D. exact Bd.
    + intros N. rewrite D in N. specialize (Pr N). destruct (rget (s_reps st) (h, tk)) as [r|] eqn:G0; [|congruence].
      destruct (G1 _ _ G0) as (r1 & G' & _). congruence.
    + intros r1 G. destruct (rget (s_reps st) (h, tk)) as [r|] eqn:G0.
      * destruct (G1 _ _ G0) as (r1' & G' & V & I). rewrite G in G'. inversion G'; subst r1'.
        destruct (Rp _ eq_refl) as [L X]. split; [lia|]. intros Y. apply I. apply X. lia.
      * exfalso. pose proof (G2 _ _ G G0) as N. cbn in N. exact (Pr N eq_refl).
  - intros cli tk v Hk dv H g r1 oo VX L E G Cu OK. rewrite D in E.
    apply (sbr_vkx _ _ _ _ _ _ B) in VX. apply (sbr_oo _ _ _ _ _ B) in OK.
    destruct (BACK _ _ _ _ _ E G) as (r & G0 & V & I).
    assert (Cu0 : curv dv H g r) by (unfold curv in *; rewrite <- V; exact Cu).
    destruct (Q cli tk v Hk dv H g r oo VX L E G0 Cu0 OK) as [X|(h & Ih & N & St)].
    + left. eapply has_incl; eauto.
    + right. exists h. split; auto. split; [apply (sbr_nacc _ _ _ _ _ _ B); exact N|]. eapply STK; eauto.
  - intros o tk WO Bl AX. unfold wop in WO. rewrite O in WO. apply (sbr_ackx _ _ _ _ B) in AX.
    destruct (QA o tk WO Bl AX) as (dv & H & E & X). exists dv, H. rewrite D. split; auto.
    intros Ln g r1 G Cu. destruct (BACK _ _ _ _ _ E G) as (r & G0 & V & I). apply I. eapply X; eauto.
    unfold curv in *. rewrite <- V. exact Cu.
Qed.

(* 2. the copy of one durable tract at one server changes (bumped, re-pulled, or removed) *)
Lemma cinv_onekey : forall st st1 x tk dv H, sbr st st1 -> know_ok st ->
  tget (s_dtr st) tk = Some (dv, H) ->
  (forall k, k <> (x, tk) -> rget (s_reps st1) k = rget (s_reps st) k) ->
  (forall r1, rget (s_reps st1) (x, tk) = Some r1 ->
     (exists r0, rget (s_reps st) (x, tk) = Some r0 /\ r_ver r0 <= r_ver r1 /\ (r_ver r0 = r_ver r1 -> r_app r1 = r_app r0)) \/
     r_ver r1 = dv + 1) ->
  (forall r1, rget (s_reps st1) (x, tk) = Some r1 -> curv dv H x r1 ->
     exists g0 r0, rget (s_reps st) (g0, tk) = Some r0 /\ curv dv H g0 r0 /\ r_app r1 = r_app r0 /\ (g0 = x \/ r_ver r0 = dv + 1)) ->
  cinv st -> cinv st1.
Proof.
  intros st st1 x tk dv H B KO E OTH M CB C. pose proof C as (V1 & S & Q & QA & _). pose proof B as (D & P & O & K & A).
  destruct (sbr_rest _ _ B C) as (K0' & PA' & AD').
  assert (OT : forall g tk', (g, tk') <> (x, tk) -> rget (s_reps st1) (g, tk') = rget (s_reps st) (g, tk')) by (intros; now apply OTH).
  assert (DEC : forall g tk', {(g, tk') = (x, tk)} + {(g, tk') <> (x, tk)}).
  { intros g [a b]. destruct tk as [c d]. destruct (Z.eq_dec g x); [|right; congruence].
    destruct (Z.eq_dec a c); [|right; congruence]. destruct (Z.eq_dec b d); [left; congruence | right; congruence]. }
  (* a witness of Q keeps blocking *)
  assert (STK : forall g r h v, v <= dv -> (g, tk) <> (x, tk) -> stuck st tk g r h v -> stuck st1 tk g r h v).
  { intros g r h v Lv NG St. destruct (DEC h tk) as [EQ|NE].
    - inversion EQ; subst h. destruct (rget (s_reps st1) (x, tk)) as [r1|] eqn:G1; [|left; exact G1].
      right. left. exists r1. split; auto. destruct (M _ eq_refl) as [(r0 & G0 & L1 & _)|L1]; [|lia].
      destruct St as [X|[(rh & Gh & L)|[X1 X2]]]; [congruence | rewrite G0 in Gh; inversion Gh; subst; lia | subst; contradiction].
    - destruct St as [X|[(rh & Gh & L)|[X1 X2]]].
      + left. rewrite OT; auto.
      + right. left. exists rh. rewrite OT; auto.
      + right. right. auto. }
  split; [|split; [|split; [|split; [|split; [|split]]]]]; auto.
  - (* V1 *)
    intros b wid W j dv' H' g r1 IA E' G Cu Ln. rewrite A in IA. rewrite D in E'.
    destruct (DEC g (b, j)) as [EQ|NE].
    + inversion EQ; subst g tk. rewrite E in E'. inversion E'; subst dv' H'.
      destruct (CB _ G Cu) as (g0 & r0 & G0 & C0 & AP & _). rewrite AP. eapply V1; eauto.
    + rewrite OT in G by exact NE. eapply V1; eauto.
  - (* S *)
    intros o tk' h v WO Bl Ln AC. unfold wop in WO. rewrite O in WO. apply (sbr_acc _ _ _ _ _ _ B) in AC.
    destruct (S o tk' h v WO Bl Ln AC) as (Bd & Pr & Rp). split; [|split].
    + unfold bound in *. rewrite D. exact Bd.
    + intros N. rewrite D in N. destruct (DEC h tk') as [EQ|NE]; [inversion EQ; subst; congruence|]. rewrite OT by exact NE. auto.
    + intros r1 G. destruct (DEC h tk') as [EQ|NE]; [|rewrite OT in G by exact NE; auto].
      inversion EQ; subst h tk'. unfold bound in Bd. rewrite E in Bd.
      destruct (M _ G) as [(r0 & G0 & L1 & AP)|L1]; [|split; lia].
      destruct (Rp _ G0) as [L2 X]. split; [lia|]. intros Y. rewrite AP by lia. apply X. lia.
  - (* Q *)
    intros cli tk' v Hk dv' H' g r1 oo VX L E' G Cu OK. rewrite D in E'.
    apply (sbr_vkx _ _ _ _ _ _ B) in VX. apply (sbr_oo _ _ _ _ _ B) in OK.
    destruct (DEC x tk') as [EQT|NET].
    2: { (* another tract *)
      assert (SAME : forall h, rget (s_reps st1) (h, tk') = rget (s_reps st) (h, tk')).
      { intros h. apply OT. intro X. inversion X; subst. contradiction. }
      rewrite SAME in G. destruct (Q cli tk' v Hk dv' H' g r1 oo VX L E' G Cu OK) as [X|(h & Ih & N & St)]; [left; exact X|].
      right. exists h. split; auto. split; [apply (sbr_nacc _ _ _ _ _ _ B); exact N|].
      unfold stuck in *. rewrite SAME. exact St. }
    inversion EQT; subst tk'. rewrite E in E'. inversion E'; subst dv' H'.
    pose proof (vkx_bound _ _ _ _ _ KO VX) as Bd. unfold bound in Bd. rewrite E in Bd.
    destruct (DEC g tk) as [EQ|NE].
    + inversion EQ; subst g. destruct (CB _ G Cu) as (g0 & r0 & G0 & C0 & AP & ORI).
      destruct (Q cli tk v Hk dv H g0 r0 oo VX L E G0 C0 OK) as [X|(h & Ih & N & St)].
      * left. destruct oo; cbn in *; auto. rewrite AP. exact X.
      * right. exists h. split; auto. split; [apply (sbr_nacc _ _ _ _ _ _ B); exact N|].
        destruct (DEC h tk) as [EQh|NEh].
        -- inversion EQh; subst h. right.
           destruct (M _ G) as [(rx & Gx & L1 & _)|L1]; [|left; exists r1; split; auto; lia].
           destruct St as [X|[(rh & Gh & Lh)|[X1 X2]]]; [congruence | left; exists r1; split; auto; rewrite Gx in Gh; inversion Gh; subst; lia |].
           destruct ORI as [ORI|ORI]; [|lia]. subst g0. rewrite Gx in G0. inversion G0; subst rx.
           destruct (Z.eq_dec (r_ver r1) v); [right; auto | left; exists r1; split; auto; lia].
        -- destruct St as [X|[(rh & Gh & Lh)|[X1 X2]]].
           ++ left. rewrite OT; auto.
           ++ right. left. exists rh. rewrite OT; auto.
           ++ (* the blocked host was the source itself *)
              subst h. destruct ORI as [ORI|ORI]; [subst g0; contradiction | lia].
    + rewrite OT in G by exact NE. destruct (Q cli tk v Hk dv H g r1 oo VX L E G Cu OK) as [X|(h & Ih & N & St)]; [left; exact X|].
      right. exists h. split; auto. split; [apply (sbr_nacc _ _ _ _ _ _ B); exact N|]. apply STK; auto.
  - (* QA *)
    intros o tk' WO Bl AX. unfold wop in WO. rewrite O in WO. apply (sbr_ackx _ _ _ _ B) in AX.
    destruct (QA o tk' WO Bl AX) as (dv' & H' & E' & X). exists dv', H'. rewrite D. split; auto.
    intros Ln g r1 G Cu. destruct (DEC g tk') as [EQ|NE].
    + inversion EQ; subst g tk'. rewrite E in E'. inversion E'; subst dv' H'.
      destruct (CB _ G Cu) as (g0 & r0 & G0 & C0 & AP & _). rewrite AP. eapply X; eauto.
    + rewrite OT in G by exact NE. eapply X; eauto.
Qed.

(* 3. the executed request's reply becomes evidence *)
Lemma in_pool_update : forall pool e2 e', In e' (pool_update pool e2) -> e' = e2 \/ In e' pool.
Proof.
  intros pool e2 e' I. unfold pool_update in I. apply in_map_iff in I as (y & Ey & Iy).
  destruct (p_id y =? p_id e2); subst e'; auto.
Qed.

Lemma cinv_upd : forall st1 e res tr lose auto,
  let e2 := set_pent e 2 res tr lose auto in
  let st2 := set_pool st1 (pool_update (s_pool st1) e2) in
  (wkind (p_rpc e) -> hd 0 res = cl_NoError -> 0 < k_len (p_rpc e) ->
     bound st1 (rtk (p_rpc e)) (newver (p_rpc e)) /\
     exists r, rget (s_reps st1) (k_ts (p_rpc e), rtk (p_rpc e)) = Some r /\ r_ver r = newver (p_rpc e) /\
               In (mkw (k_wid (p_rpc e)) (k_off (p_rpc e)) (k_len (p_rpc e))) (r_app r)) ->
  (forall o, wkind (p_rpc e) -> 0 < k_len (p_rpc e) -> wop st1 o -> o_cli o = k_cli (p_rpc e) -> o_wid o = k_wid (p_rpc e)) ->
  (k_kind (p_rpc e) = K_GetTracts -> forall x, In x tr -> (1 <= snd (fst x) \/ map fst (snd x) <> []) ->
     exists H, tget (s_dtr st1) (tkey (k_blob (p_rpc e)) (fst (fst x))) = Some (snd (fst x), H) /\ 1 <= snd (fst x) /\
               (forall h, In h H -> In h (map fst (snd x)))) ->
  (k_kind (p_rpc e) = K_AckExtend -> hd 0 res = cl_NoError -> forall o tk, wop st1 o -> o_cli o = k_cli (p_rpc e) ->
     In tk (ack_tks (p_rpc e)) ->
     exists dv H, tget (s_dtr st1) tk = Some (dv, H) /\
       (0 < snd (segl o (snd tk)) -> forall g r, rget (s_reps st1) (g, tk) = Some r -> curv dv H g r -> In (orec o (snd tk)) (r_app r))) ->
  In e (s_pool st1) -> cinv st1 -> cinv st2.
Proof.
  intros st1 e res tr lose auto e2 st2 PW PWID PG PX Ie1 (V1 & S & Q & QA & K0 & PA & AD).
  assert (INP : forall e', In e' (s_pool st2) -> e' = e2 \/ In e' (s_pool st1)) by (intros e' I; apply in_pool_update; exact I).
  (* new write evidence is backed by the copy *)
  assert (ACC : forall o tk h v, wop st1 o -> 0 < snd (segl o (snd tk)) -> acc st2 o tk h v ->
            acc st1 o tk h v \/
            (bound st1 tk v /\ exists r, rget (s_reps st1) (h, tk) = Some r /\ r_ver r = v /\ In (orec o (snd tk)) (r_app r))).
  { intros o tk h v WO Ln [X|(e' & I & [OK1 OK2] & W & Cc & T & Hh & Vv & Of & Le)]; [left; left; exact X|].
    destruct (INP _ I) as [X|X]; [|left; right; exists e'; repeat split; auto].
    subst e'. cbn in OK2, W, Cc, T, Hh, Vv, Of, Le. right.
    assert (LL : 0 < k_len (p_rpc e)) by lia.
    destruct (PW W OK2 LL) as (Bd & r & G & Vr & Ir). subst tk h v. split; [exact Bd|]. exists r. split; auto. split; auto.
    unfold orec. rewrite (PWID o W LL WO (eq_sym Cc)), <- Of, <- Le. exact Ir. }
  split; [|split; [|split; [|split; [|split; [|split]]]]].
  - exact V1.
  - (* S *)
    intros o tk h v WO Bl Ln AC. destruct (ACC o tk h v WO Ln AC) as [X|(Bd & r & G & Vr & Ir)]; [exact (S o tk h v WO Bl Ln X)|].
    split; [exact Bd|]. split; [cbn; congruence|]. intros r' G'. cbn in G'. rewrite G in G'. inversion G'; subst r'. split; [lia|auto].
  - (* Q *)
    intros cli tk v Hk dv H g r oo VX L E G Cu OK.
    assert (FROM : forall Hk0, (forall h, In h Hk0 -> In h Hk) -> vkx st1 cli tk v Hk0 -> (1 <= v \/ Hk0 <> []) ->
              has oo tk r \/ exists h, In h Hk /\ nacc st2 oo tk h v /\ stuck st2 tk g r h v).
    { intros Hk0 SUB VX0 L0. destruct (Q cli tk v Hk0 dv H g r oo VX0 L0 E G Cu OK) as [X|(h & Ih & N & St)]; [left; exact X|].
      destruct oo as [o|]; [|right; exists h; auto].
      destruct OK as (WO & Cc & Bl & Ln).
      (* does the new evidence speak about h at v? *)
      destruct (in_dec (fun a b : wrec => ltac:(decide equality; apply Z.eq_dec) : {a = b} + {a <> b}) (orec o (snd tk)) (r_app r)) as [HAS|NHAS]; [left; exact HAS|].
      right. exists h. split; [apply SUB; exact Ih|]. split; [|exact St].
      cbn. intro AC. destruct (ACC o tk h v WO Ln AC) as [X|(Bd & rh & Gh & Vh & Ih')]; [exact (N X)|].
      destruct St as [X|[(rh' & Gh' & Lh)|[X1 X2]]].
      - assert (Y : Some rh = None) by (rewrite <- Gh; exact X). discriminate Y.
      - assert (Y : Some rh = Some rh') by (rewrite <- Gh; exact Gh'). inversion Y; subst. lia.
      - subst h. assert (Y : Some rh = Some r) by (rewrite <- Gh; exact G). inversion Y; subst rh. contradiction. }
    destruct VX as [[(ke & Ik & X)|(e' & x & I & Kd & Cc & Ix & T & Vv & Hh)]|VX].
    + apply (FROM Hk); auto. left. left. exists ke. auto.
    + destruct (INP _ I) as [X|X].
      * subst e'. cbn in Kd, Cc, Ix, T, Vv, Hh. subst tk v Hk. destruct (PG Kd _ Ix L) as (H0 & E0 & L1 & SUB).
        cbn in E. rewrite E0 in E. inversion E; subst dv H0.
        apply (FROM H); auto. right. exact E0.
      * apply (FROM Hk); auto. left. right. exists e', x. repeat split; auto.
    + apply (FROM Hk); auto. right. exact VX.
  - (* QA *)
    intros o tk WO Bl [X|(e' & I & Kd & Cc & [OK1 OK2] & T)]; [exact (QA o tk WO Bl (or_introl X))|].
    destruct (INP _ I) as [X|X].
    + subst e'. cbn in Kd, Cc, OK2, T. exact (PX Kd OK2 o tk WO (eq_sym Cc) T).
    + apply (QA o tk WO Bl). right. exists e'. repeat split; auto.
  - (* K0 *)
    intros cli tk v Hk [X|(e' & x & I & Kd & Cc & Ix & T & Vv & Hh)] L; [exact (K0 cli tk v Hk (or_introl X) L)|].
    destruct (INP _ I) as [X|X].
    + subst e'. cbn in Kd, Cc, Ix, T, Vv, Hh. subst tk v Hk. destruct (PG Kd _ Ix L) as (H0 & E0 & _ & _). eauto.
    + apply (K0 cli tk v Hk); auto. right. exists e', x. repeat split; auto.
  - (* PA *)
    intros e' I Kd. destruct (INP _ I) as [X|X]; [|exact (PA _ X Kd)]. subst e'. cbn in Kd.
    destruct (PA _ Ie1 Kd) as (o & OC & Ko & Bo & _). exists o. split; [exact OC|]. split; [exact Ko|]. split; [exact Bo|]. cbn. intro Y; discriminate Y.
  - exact AD.
Qed.

(* ---------- what the tractserver operations do to the replica map ---------- *)
Lemma ts_write_spec : forall reps x tk v wid off len reps1 c,
  ts_write reps x tk v wid off len = (reps1, c) ->
  (c <> cl_NoError /\ reps1 = reps) \/
  (c = cl_NoError /\ exists r0, rget reps (x, tk) = Some r0 /\ r_ver r0 = v /\
     reps1 = rset reps (x, tk) {| r_ver := r_ver r0; r_app := app_write (r_app r0) wid off len |}).
Proof.
  intros reps x tk v wid off len reps1 c H. unfold ts_write in H.
  destruct (rget reps (x, tk)) as [r|] eqn:G.
  - destruct (r_ver r =? v) eqn:V; inversion H; subst.
    + right. split; auto. exists r. apply Z.eqb_eq in V. auto.
    + left. split; auto. intro X; discriminate X.
  - inversion H; subst. left. split; auto. intro X; discriminate X.
Qed.

Lemma app_write_incl : forall app wid off len, incl app (app_write app wid off len).
Proof. intros. unfold app_write. destruct (len <=? 0); [apply incl_refl | apply incl_tl, incl_refl]. Qed.
Lemma app_write_in : forall app wid off len, 0 < len -> In (mkw wid off len) (app_write app wid off len).
Proof. intros. unfold app_write. destruct (len <=? 0) eqn:E; [apply Z.leb_le in E; lia | left; reflexivity]. Qed.

Lemma rkey_dec : forall a b : rkey, {a = b} + {a <> b}.
Proof. intros [a [b c]] [d [e f]]. destruct (Z.eq_dec a d), (Z.eq_dec b e), (Z.eq_dec c f); subst; auto; right; congruence. Qed.

Lemma sbr_set_reps : forall st reps, sbr st (set_reps st reps).
Proof. intros; repeat split. Qed.

(* an accepted write: the copy grows *)
Lemma grows_rset : forall st k r0 app1,
  rget (s_reps st) k = Some r0 -> incl (r_app r0) app1 -> cinv st ->
  cinv (set_reps st (rset (s_reps st) k {| r_ver := r_ver r0; r_app := app1 |})).
Proof.
  intros st k r0 app1 G I C. apply (cinv_grows st); [apply sbr_set_reps | | | exact C].
  - intros k' r G'. cbn [s_reps set_reps]. destruct (rkey_dec k' k) as [E|N].
    + subst k'. rewrite rget_rset_same. rewrite G in G'. inversion G'; subst r. eexists. split; [reflexivity|]. split; auto.
    + rewrite rget_rset_other by exact N. exists r. split; auto. split; auto. apply incl_refl.
  - intros k' r1 G1 G0. cbn [s_reps set_reps] in G1. destruct (rkey_dec k' k) as [E|N]; [subst k'; congruence|].
    rewrite rget_rset_other in G1 by exact N. congruence.
Qed.

Lemma cinv_same_reps : forall st, cinv st -> cinv (set_reps st (s_reps st)).
Proof.
  intros st C. apply (cinv_grows st); [apply sbr_set_reps | | | exact C].
  - intros k r G. exists r. split; auto. split; auto. apply incl_refl.
  - intros k r1 G1 G0. cbn in G1. congruence.
Qed.

Definition post_w (st1 : state) (e : pent) (res : list Z) : Prop :=
  wkind (p_rpc e) -> hd 0 res = cl_NoError -> 0 < k_len (p_rpc e) ->
  bound st1 (rtk (p_rpc e)) (newver (p_rpc e)) /\
  exists r, rget (s_reps st1) (k_ts (p_rpc e), rtk (p_rpc e)) = Some r /\ r_ver r = newver (p_rpc e) /\
            In (mkw (k_wid (p_rpc e)) (k_off (p_rpc e)) (k_len (p_rpc e))) (r_app r).

Lemma exec_write : forall st e, k_kind (p_rpc e) = K_Write -> In e (s_pool st) -> know_ok st -> cinv st ->
  let '(reps, c) := ts_write (s_reps st) (k_ts (p_rpc e)) (rtk (p_rpc e)) (k_ver (p_rpc e)) (k_wid (p_rpc e)) (k_off (p_rpc e)) (k_len (p_rpc e)) in
  cinv (set_reps st reps) /\ post_w (set_reps st reps) e [c].
Proof.
  intros st e K Ie (_ & K2 & _) C.
  destruct (ts_write _ _ _ _ _ _ _) as [reps c] eqn:X.
  apply ts_write_spec in X as [[N E]|(E & r0 & G & V & R)]; subst.
  - split; [apply cinv_same_reps; exact C|]. intros _ Y. cbn in Y. contradiction.
  - split; [apply grows_rset; auto; apply app_write_incl|].
    intros _ _ Ln. assert (NV : newver (p_rpc e) = k_ver (p_rpc e)) by (unfold newver; rewrite K; reflexivity).
    rewrite NV. split; [exact (K2 _ Ie K)|]. eexists. cbn [s_reps set_reps]. rewrite rget_rset_same. split; [reflexivity|].
    split; [exact V|]. cbn. now apply app_write_in.
Qed.

Lemma exec_create : forall st e, k_kind (p_rpc e) = K_Create -> tget (s_dtr st) (rtk (p_rpc e)) = None -> cinv st ->
  let '(reps, c) := ts_create (s_reps st) (k_ts (p_rpc e)) (aux_nth (p_rpc e) 0) (rtk (p_rpc e)) (k_wid (p_rpc e)) (k_off (p_rpc e)) (k_len (p_rpc e)) in
  cinv (set_reps st reps) /\ post_w (set_reps st reps) e [c].
Proof.
  intros st e K ND C.
  assert (NV : newver (p_rpc e) = 1) by (unfold newver; rewrite K; reflexivity).
  assert (BD : forall reps, bound (set_reps st reps) (rtk (p_rpc e)) 1) by (intro; unfold bound; cbn; rewrite ND; lia).
  destruct (ts_create _ _ _ _ _ _ _) as [reps c] eqn:X. unfold ts_create in X.
  destruct (negb (k_ts (p_rpc e) =? aux_nth (p_rpc e) 0)).
  { inversion X; subst. split; [apply cinv_same_reps; exact C|]. intros _ Y. cbn in Y. discriminate Y. }
  destruct (rget (s_reps st) (k_ts (p_rpc e), rtk (p_rpc e))) as [r0|] eqn:G.
  - apply ts_write_spec in X as [[N E]|(E & r0' & G' & V & R)]; subst.
    + split; [apply cinv_same_reps; exact C|]. intros _ Y. cbn in Y. contradiction.
    + rewrite G in G'. inversion G'; subst r0'. split; [apply grows_rset; auto; apply app_write_incl|].
      intros _ _ Ln. rewrite NV. split; [apply BD|]. eexists. cbn [s_reps set_reps]. rewrite rget_rset_same. split; [reflexivity|].
      split; [exact V|]. cbn. now apply app_write_in.
  - inversion X; subst. split.
    + apply (cinv_grows st); [apply sbr_set_reps | | | exact C].
      * intros k' r G'. cbn [s_reps set_reps]. destruct (rkey_dec k' (k_ts (p_rpc e), rtk (p_rpc e))) as [E|N]; [subst k'; congruence|].
        rewrite rget_rset_other by exact N. exists r. split; auto. split; auto. apply incl_refl.
      * intros k' r1 G1 G0. cbn [s_reps set_reps] in G1. destruct (rkey_dec k' (k_ts (p_rpc e), rtk (p_rpc e))) as [E|N]; [subst k'; exact ND|].
        rewrite rget_rset_other in G1 by exact N. congruence.
    + intros _ _ Ln. rewrite NV. split; [apply BD|]. eexists. cbn [s_reps set_reps]. rewrite rget_rset_same. split; [reflexivity|].
      split; [reflexivity|]. cbn. now apply app_write_in.
Qed.

Lemma ts_setversion_spec : forall reps x tsid tk nv reps1 c,
  ts_setversion reps x tsid tk nv = (reps1, c) ->
  reps1 = reps \/
  exists r0, rget reps (x, tk) = Some r0 /\ r_ver r0 + 1 = nv /\ reps1 = rset reps (x, tk) {| r_ver := nv; r_app := r_app r0 |}.
Proof.
  intros reps x tsid tk nv reps1 c H. unfold ts_setversion in H.
  destruct (negb (x =? tsid)); [inversion H; auto|]. destruct (nv <=? 1); [inversion H; auto|].
  destruct (rget reps (x, tk)) as [r|] eqn:G; [|inversion H; auto].
  destruct (nv <=? r_ver r); [inversion H; auto|].
  destruct (r_ver r + 1 =? nv) eqn:V; inversion H; auto. right. exists r. apply Z.eqb_eq in V. auto.
Qed.

Lemma exec_setversion : forall st x tsid tk nv dv H,
  tget (s_dtr st) tk = Some (dv, H) -> nv <= dv + 1 -> (nv = dv + 1 -> In x H) ->
  (forall r0, In x H -> rget (s_reps st) (x, tk) = Some r0 -> dv <= r_ver r0) ->
  know_ok st -> cinv st ->
  cinv (set_reps st (fst (ts_setversion (s_reps st) x tsid tk nv))).
Proof.
  intros st x tsid tk nv dv H E L PS HV KO C.
  destruct (ts_setversion (s_reps st) x tsid tk nv) as [reps1 c] eqn:X. cbn [fst].
  apply ts_setversion_spec in X as [X|(r0 & G & V & X)]; subst reps1; [apply cinv_same_reps; exact C|].
  apply (cinv_onekey st _ x tk dv H); auto using sbr_set_reps.
  - intros k N. cbn [s_reps set_reps]. now apply rget_rset_other.
  - intros r1 G1. cbn [s_reps set_reps] in G1. rewrite rget_rset_same in G1. inversion G1; subst r1. cbn.
    left. exists r0. split; auto. split; [lia|]. intro; lia.
  - intros r1 G1 Cu. cbn [s_reps set_reps] in G1. rewrite rget_rset_same in G1. inversion G1; subst r1.
    exists x, r0. split; auto. split; [|split; auto]. unfold curv in *. cbn in Cu.
    destruct Cu as [[I V1]|V1].
    + exfalso. specialize (HV _ I G). lia.
    + left. split; [apply PS; lia | lia].
Qed.

(* PullTract: the local copy is untouched, removed, or replaced by the copy of a source at the requested version *)
Definition pulled (reps reps1 : list (rkey * replica)) (x : Z) (tk : tkt) (ver : Z) : Prop :=
  (forall k, k <> (x, tk) -> rget reps1 k = rget reps k) /\
  (rget reps1 (x, tk) = rget reps (x, tk) \/
   ((rget reps (x, tk) = None \/ exists r0, rget reps (x, tk) = Some r0 /\ r_ver r0 <= ver) /\
    (rget reps1 (x, tk) = None \/
     exists src s, rget reps (src, tk) = Some s /\ r_ver s = ver /\ rget reps1 (x, tk) = Some {| r_ver := ver; r_app := r_app s |}))).

Lemma pull_once_spec : forall reps nts x tk ver src reps1 c,
  pull_once reps nts x tk ver src = (reps1, c) -> pulled reps reps1 x tk ver.
Proof.
  intros reps nts x tk ver src reps1 c H. unfold pull_once in H.
  destruct (rget reps (x, tk)) as [r|] eqn:G.
  - destruct (ver <? r_ver r) eqn:LT.
    + inversion H; subst. split; auto.
    + apply Z.ltb_ge in LT.
      assert (PRE : rget reps (x, tk) = None \/ exists r0, rget reps (x, tk) = Some r0 /\ r_ver r0 <= ver) by (right; exists r; auto).
      assert (OTH : forall k, k <> (x, tk) -> rget (rdel reps (x, tk)) k = rget reps k) by (intros; now apply rget_rdel_other).
      destruct ((src <=? 0) || (nts <? src)).
      { inversion H; subst. split; auto. right. split; auto. left. apply rget_rdel_same. }
      destruct (rget (rdel reps (x, tk)) (src, tk)) as [s|] eqn:GS.
      * destruct (r_ver s =? ver) eqn:V; inversion H; subst.
        -- split; [intros k N; rewrite rget_rset_other by exact N; auto|]. right. split; auto. right.
           exists src, s. apply Z.eqb_eq in V. split; [|split; auto using rget_rset_same].
           destruct (rkey_dec (src, tk) (x, tk)) as [EQ|NE]; [rewrite EQ, rget_rdel_same in GS; discriminate|].
           rewrite <- GS. symmetry. now apply rget_rdel_other.
        -- split; auto. right. split; auto. left. apply rget_rdel_same.
      * inversion H; subst. split; auto. right. split; auto. left. apply rget_rdel_same.
  - assert (PRE : rget reps (x, tk) = None \/ exists r0, rget reps (x, tk) = Some r0 /\ r_ver r0 <= ver) by (left; auto).
    destruct ((src <=? 0) || (nts <? src)); [inversion H; subst; split; auto|].
    destruct (rget reps (src, tk)) as [s|] eqn:GS; [|inversion H; subst; split; auto].
    destruct (r_ver s =? ver) eqn:V; inversion H; subst; [|split; auto].
    split; [intros k N; rewrite rget_rset_other by exact N; auto|]. right. split; auto. right.
    exists src, s. apply Z.eqb_eq in V. split; auto. split; auto using rget_rset_same.
Qed.

Lemma pulled_trans : forall a b c x tk ver, pulled a b x tk ver -> pulled b c x tk ver -> pulled a c x tk ver.
Proof.
  intros a b c x tk ver [O1 K1] [O2 K2]. split; [intros k N; rewrite O2, O1; auto|].
  destruct K2 as [K2|[P2 R2]].
  - rewrite K2. destruct K1 as [K1|[P1 R1]]; [left; exact K1|]. right. split; auto.
  - assert (PA : rget a (x, tk) = None \/ exists r0, rget a (x, tk) = Some r0 /\ r_ver r0 <= ver).
    { destruct K1 as [K1|[P1 _]]; [rewrite <- K1; exact P2 | exact P1]. }
    right. split; auto. destruct R2 as [R2|(src & s & GS & V & R2)]; [left; exact R2|]. right.
    (* the source copy in b was already in a *)
    destruct (rkey_dec (src, tk) (x, tk)) as [EQ|NE].
    + inversion EQ; subst src. destruct K1 as [K1|[_ [R1|(src1 & s1 & GS1 & V1 & R1)]]].
      * exists x, s. rewrite <- K1. auto.
      * congruence.
      * rewrite R1 in GS. inversion GS; subst s. cbn in *. exists src1, s1. auto.
    + exists src, s. rewrite <- (O1 _ NE). auto.
Qed.

Lemma pull_loop_spec : forall srcs reps nts x tk ver last reps1 c,
  pull_loop reps nts x tk ver srcs last = (reps1, c) -> pulled reps reps1 x tk ver.
Proof.
  induction srcs as [|s l IH]; intros reps nts x tk ver last reps1 c H; cbn in H.
  - inversion H; subst. split; auto.
  - destruct (pull_once reps nts x tk ver s) as [reps' e] eqn:P. apply pull_once_spec in P.
    destruct (e =? cl_NoError); [inversion H; subst; exact P|]. eapply pulled_trans; [exact P | eapply IH; eauto].
Qed.

Lemma cinv_ext : forall st reps1, (forall k, rget reps1 k = rget (s_reps st) k) -> cinv st -> cinv (set_reps st reps1).
Proof.
  intros st reps1 X C. apply (cinv_grows st); [apply sbr_set_reps | | | exact C].
  - intros k r G. exists r. cbn. rewrite X. split; auto. split; auto. apply incl_refl.
  - intros k r1 G1 G0. cbn in G1. rewrite X in G1. congruence.
Qed.

Lemma exec_pull : forall st x tsid tk ver srcs dv H,
  tget (s_dtr st) tk = Some (dv, H) -> ver <= dv + 1 ->
  ~ (ver <= dv /\ (rget (s_reps st) (x, tk) = None \/ exists r0, rget (s_reps st) (x, tk) = Some r0 /\ r_ver r0 <= ver)) ->
  know_ok st -> cinv st ->
  cinv (set_reps st (fst (ts_pull (s_reps st) (s_nts st) x tsid tk ver srcs))).
Proof.
  intros st x tsid tk ver srcs dv H E L NS KO C. unfold ts_pull.
  destruct (negb (x =? tsid)); [apply cinv_same_reps; exact C|].
  destruct (pull_loop (s_reps st) (s_nts st) x tk ver srcs cl_NoError) as [reps1 c] eqn:X. cbn [fst].
  apply pull_loop_spec in X as [OTH [SAME|[PRE RES]]].
  - apply cinv_ext; auto. intros k. destruct (rkey_dec k (x, tk)) as [EQ|NE]; [subst k; exact SAME | now apply OTH].
  - assert (VV : ver = dv + 1) by (destruct (Z_le_gt_dec ver dv); [exfalso; apply NS; auto | lia]). subst ver.
    apply (cinv_onekey st _ x tk dv H); auto using sbr_set_reps.
    + intros r1 G1. cbn [s_reps set_reps] in G1. right. destruct RES as [RES|(src & s & GS & V & RES)]; [congruence|].
      rewrite RES in G1. inversion G1; subst r1. reflexivity.
    + intros r1 G1 Cu. cbn [s_reps set_reps] in G1. destruct RES as [RES|(src & s & GS & V & RES)]; [congruence|].
      rewrite RES in G1. inversion G1; subst r1. exists src, s. split; auto. split; [right; exact V|]. split; auto.
Qed.

(* ---------- GetTracts answers with the durable record ---------- *)
Lemma in_insert_sorted : forall x y l, y = x \/ In y l -> In y (insert_sorted x l).
Proof.
  induction l as [|a l IH]; intros [E|I]; cbn; auto; try contradiction.
  - destruct (x <? a); [left; auto|]. destruct (x =? a) eqn:Q; [apply Z.eqb_eq in Q; subst; left; auto|]. right. apply IH. auto.
  - destruct (x <? a); [right; exact I|]. destruct (x =? a) eqn:Q; [exact I|].
    destruct I as [I|I]; [left; exact I | right; apply IH; auto].
Qed.

Lemma in_sorted : forall h l, In h l -> In h (fold_right insert_sorted [] l).
Proof.
  induction l as [|a l IH]; intros I; [destruct I|]. cbn. apply in_insert_sorted. destruct I; auto.
Qed.

Definition post_g (st1 : state) (e : pent) (tr : list (Z * Z * list (Z * Z))) : Prop :=
  k_kind (p_rpc e) = K_GetTracts -> forall x, In x tr -> (1 <= snd (fst x) \/ map fst (snd x) <> []) ->
  exists H, tget (s_dtr st1) (tkey (k_blob (p_rpc e)) (fst (fst x))) = Some (snd (fst x), H) /\ 1 <= snd (fst x) /\
            (forall h, In h H -> In h (map fst (snd x))).

Lemma range_post : forall st gen blob start stop x, dur_ok st -> In x (tracts_of_range st gen blob start stop) ->
  (1 <= snd (fst x) \/ map fst (snd x) <> []) ->
  exists H, tget (s_dtr st) (tkey blob (fst (fst x))) = Some (snd (fst x), H) /\ 1 <= snd (fst x) /\
            (forall h, In h H -> In h (map fst (snd x))).
Proof.
  intros st gen blob start stop x [_ D2] I L. unfold tracts_of_range in I. apply in_map_iff in I as (i & Ex & _).
  destruct (tget (s_dtr st) (tkey blob (start + Z.of_nat i))) as [[dv hs]|] eqn:G.
  - subst x. cbn [fst snd]. exists hs. rewrite G. split; auto. split; [unfold tkey in G; destruct (D2 _ _ _ _ G); lia|].
    intros h Ih. rewrite map_map. cbn. rewrite map_id. now apply in_sorted.
  - subst x. cbn in L. destruct L as [L|L]; [lia | contradiction].
Qed.

Lemma gettracts_post : forall st e res tr, dur_ok st -> exec_gettracts st (p_rpc e) = (res, tr) -> post_g st e tr.
Proof.
  intros st e res tr D X _ x Ix L. unfold exec_gettracts in X.
  destruct (zget (s_blobs st) (k_blob (p_rpc e))) as [[repl nt]|]; [|inversion X; subst; destruct Ix].
  destruct (_ || _); [inversion X; subst; destruct Ix|].
  destruct (_ =? _); [inversion X; subst; destruct Ix|].
  destruct (nt <=? _); [inversion X; subst; destruct Ix|].
  inversion X; subst. eapply range_post; eauto.
Qed.

(* ---------- AckExtend: tracts become durable ---------- *)
Lemma wrec_dec : forall a b : wrec, {a = b} + {a <> b}.
Proof. decide equality; apply Z.eq_dec. Qed.

Lemma cinv_newdur : forall st st1,
  s_reps st1 = s_reps st -> s_pool st1 = s_pool st -> s_ops st1 = s_ops st -> s_know st1 = s_know st -> s_acked st1 = s_acked st ->
  (forall tk v, tget (s_dtr st) tk = Some v -> tget (s_dtr st1) tk = Some v) ->
  (forall tk dv H, tget (s_dtr st1) tk = Some (dv, H) -> tget (s_dtr st) tk = Some (dv, H) \/ (tget (s_dtr st) tk = None /\ dv = 1)) ->
  win_ok st -> cinv st -> cinv st1.
Proof.
  intros st st1 R P O K A DOLD DNEW (U1 & _) (V1 & S & Q & QA & K0 & PA & AD).
  assert (ACC : forall o tk h v, acc st1 o tk h v <-> acc st o tk h v) by (intros; unfold acc, acc_pool; rewrite P; tauto).
  assert (VK : forall cli tk v Hk, vk st1 cli tk v Hk <-> vk st cli tk v Hk) by (intros; unfold vk; rewrite P, K; tauto).
  assert (AX : forall o tk, ackx st1 o tk <-> ackx st o tk) by (intros; unfold ackx; rewrite P; tauto).
  assert (LOW : forall tk g r, tget (s_dtr st) tk = None -> rget (s_reps st) (g, tk) = Some r -> r_ver r <= 1).
  { intros tk g r N G. specialize (U1 _ _ G). unfold bound1 in U1. cbn in U1. rewrite N in U1. exact U1. }
  split; [|split; [|split; [|split; [|split; [|split]]]]].
  - intros b wid W j dv H g r IA E G Cu Ln. rewrite A in IA. rewrite R in G.
    destruct (DNEW _ _ _ E) as [E0|[E0 _]]; [eapply V1; eauto|]. destruct (AD _ _ _ _ IA Ln) as (dv0 & H0 & X). congruence.
  - intros o tk h v WO Bl Ln AC. unfold wop in WO. rewrite O in WO. apply ACC in AC.
    destruct (S o tk h v WO Bl Ln AC) as (Bd & Pr & Rp). split; [|split].
    + unfold bound in *. destruct (tget (s_dtr st1) tk) as [[dv H]|] eqn:E.
      * destruct (DNEW _ _ _ E) as [E0|[E0 X]]; rewrite E0 in Bd; lia.
      * destruct (tget (s_dtr st) tk) as [v0|] eqn:E0; auto. rewrite (DOLD _ _ E0) in E. discriminate.
    + intros N. rewrite R. apply Pr. destruct (tget (s_dtr st) tk) as [v0|] eqn:E0; auto. rewrite (DOLD _ _ E0) in N. discriminate.
    + rewrite R. exact Rp.
  - intros cli tk v Hk dv H g r oo VX L E G Cu OK. rewrite R in G.
    assert (OK0 : oo_ok st cli tk oo) by (destruct oo; cbn in *; [unfold wop in *; rewrite O in OK|]; tauto).
    assert (TR : (has oo tk r \/ exists h, In h Hk /\ nacc st oo tk h v /\ stuck st tk g r h v) ->
                 has oo tk r \/ exists h, In h Hk /\ nacc st1 oo tk h v /\ stuck st1 tk g r h v).
    { intros [X|(h & Ih & N & St)]; [left; exact X|]. right. exists h. split; auto. split.
      - destruct oo; cbn in *; auto. intro Y. apply N. now apply ACC.
      - unfold stuck. rewrite R. exact St. }
    destruct (DNEW _ _ _ E) as [E0|[E0 X]].
    + apply TR. apply (Q cli tk v Hk dv H g r oo); auto. destruct VX as [VX|VX]; [left; now apply VK|].
      right. rewrite E in VX. inversion VX; subst. exact E0.
    + subst dv. destruct VX as [VX|VX].
      * apply VK in VX. destruct (K0 _ _ _ _ VX L) as (dv0 & H0 & Y). congruence.
      * rewrite E in VX. inversion VX; subst v Hk.
        pose proof (LOW _ _ _ E0 G) as Lr.
        destruct Cu as [[Ig Vg]|Vg]; [|lia].
        destruct oo as [o|].
        -- destruct (in_dec wrec_dec (orec o (snd tk)) (r_app r)) as [HAS|NHAS]; [left; exact HAS|].
           right. exists g. split; auto. split; [|right; right; auto].
           cbn. intro AC. apply ACC in AC. destruct OK0 as (WO & Cc & Bl & Ln).
           destruct (S o tk g 1 WO (eq_sym Bl) Ln AC) as (_ & _ & Rp). destruct (Rp _ G) as [_ X]. auto.
        -- right. exists g. split; auto. split; [exact I|]. right. right. auto.
  - intros o tk WO Bl AXX. unfold wop in WO. rewrite O in WO. apply AX in AXX.
    destruct (QA o tk WO Bl AXX) as (dv & H & E0 & X). exists dv, H. split; [now apply DOLD|]. rewrite R. exact X.
  - intros cli tk v Hk V L. apply VK in V. destruct (K0 _ _ _ _ V L) as (dv & H & E0). exists dv, H. now apply DOLD.
  - intros e I Kd. rewrite P in I. rewrite O. eauto.
  - intros b wid W j I L. rewrite A in I. destruct (AD _ _ _ _ I L) as (dv & H & E0). exists dv, H. now apply DOLD.
Qed.

Lemma ext_fold_at : forall blob trs m0 n, consec n trs = true ->
  forall idx ver hs, In (idx, ver, hs) trs ->
  n <= idx /\ tget (fst (ext_fold blob trs m0 n)) (blob, idx) = Some (1, map fst hs).
Proof.
  induction trs as [|[[i0 v0] h0] l IH]; intros m0 n CS idx ver hs I; [destruct I|].
  cbn in CS. apply andb_true_iff in CS as [C0 CS]. apply Z.eqb_eq in C0. subst i0.
  change (ext_fold blob ((n, v0, h0) :: l) m0 n) with (ext_fold blob l (tset m0 (tkey blob n) (1, map fst h0)) (n + 1)).
  destruct I as [I|I].
  - inversion I; subst. split; [lia|]. rewrite (ext_fold_keep blob l _ (idx + 1) (blob, idx)).
    + apply tget_tset_same.
    + intros i X. inversion X; subst. lia.
  - destruct (IH (tset m0 (tkey blob n) (1, map fst h0)) (n + 1) CS _ _ _ I) as [L X]. split; [lia | exact X].
Qed.

Definition post_x (st1 : state) (e : pent) (res : list Z) : Prop :=
  k_kind (p_rpc e) = K_AckExtend -> hd 0 res = cl_NoError -> forall o tk, wop st1 o -> o_cli o = k_cli (p_rpc e) ->
  In tk (ack_tks (p_rpc e)) ->
  exists dv H, tget (s_dtr st1) tk = Some (dv, H) /\
    (0 < snd (segl o (snd tk)) -> forall g r, rget (s_reps st1) (g, tk) = Some r -> curv dv H g r -> In (orec o (snd tk)) (r_app r)).

Lemma uniq_cli : forall ops a b, NoDup (map o_cli ops) -> In a ops -> In b ops -> o_cli a = o_cli b -> a = b.
Proof.
  induction ops as [|x l IH]; intros a b ND Ia Ib E; [destruct Ia|].
  cbn in ND. inversion ND; subst. destruct Ia as [Ia|Ia]; destruct Ib as [Ib|Ib]; subst; auto.
  - exfalso. apply H1. rewrite E. now apply in_map.
  - exfalso. apply H1. rewrite <- E. now apply in_map.
Qed.

Lemma exec_ackextend : forall st e, k_kind (p_rpc e) = K_AckExtend -> In e (s_pool st) -> p_st e = 0 ->
  Inv2 st -> ops_uniq st -> cinv st ->
  let '(st1, c) := ack_extend st (k_blob (p_rpc e)) (decode_tracts false (k_aux (p_rpc e))) in
  cinv st1 /\ post_x st1 e [c].
Proof.
  intros st e Kd Ie Pz [[Ds Ks] W] [_ UC] C.
  destruct (ack_extend st (k_blob (p_rpc e)) (decode_tracts false (k_aux (p_rpc e)))) as [st1 c] eqn:X.
  unfold ack_extend in X. set (trs := decode_tracts false (k_aux (p_rpc e))) in *.
  assert (NOP : st1 = st -> (c <> cl_NoError \/ trs = []) -> cinv st1 /\ post_x st1 e [c]).
  { intros E1 E2. subst st1. split; auto. intros _ Y o tk _ _ It. cbn in Y. destruct E2 as [E2|E2]; [contradiction|].
    unfold ack_tks in It. fold trs in It. rewrite E2 in It. destruct It. }
  destruct trs as [|[[first ver0] hs0] trs0] eqn:TRS; [inversion X; subst; apply NOP; auto|].
  rewrite <- TRS in *. 
  destruct (20 <? Z.of_nat (length trs)); [inversion X; subst; apply NOP; auto; left; intro Y; discriminate Y|].
  destruct (zget (s_blobs st) (k_blob (p_rpc e))) as [[repl nt]|] eqn:B; [|inversion X; subst; apply NOP; auto; left; intro Y; discriminate Y].
  assert (FI : first_idx trs = first) by (rewrite TRS; reflexivity).
  rewrite TRS in X at 1.
  destruct (negb (first =? nt)) eqn:FN; [inversion X; subst; apply NOP; auto; left; intro Y; discriminate Y|].
  apply negb_false_iff in FN. apply Z.eqb_eq in FN. subst first.
  match type of X with context [negb (forallb ?f ?l)] => destruct (negb (forallb f l)) end;
    [inversion X; subst; apply NOP; auto; left; intro Y; discriminate Y|].
  fold (ext_fold (k_blob (p_rpc e)) trs (s_dtr st) nt) in X. inversion X; subst st1 c. clear X.
  set (dtr1 := fst (ext_fold (k_blob (p_rpc e)) trs (s_dtr st) nt)).
  (* what PA says about this request *)
  pose proof C as (_ & S & _ & _ & _ & PA & _).
  destruct (PA _ Ie Kd) as (o' & OC & Ko & Bo & ST0). destruct (ST0 Pz) as [CS ST]. fold trs in CS, ST. rewrite FI in CS.
  assert (NEWK : forall idx ver hs, In (idx, ver, hs) trs ->
            tget (s_dtr st) (k_blob (p_rpc e), idx) = None /\ tget dtr1 (k_blob (p_rpc e), idx) = Some (1, map fst hs)).
  { intros idx ver hs I. destruct (ext_fold_at (k_blob (p_rpc e)) trs (s_dtr st) nt CS _ _ _ I) as [L G]. split; auto.
    destruct (tget (s_dtr st) (k_blob (p_rpc e), idx)) as [[dv0 H0]|] eqn:E0; auto.
    destruct Ds as [_ D2]. destruct (D2 _ _ _ _ E0) as (_ & r0 & n0 & G0 & I0). rewrite B in G0. inversion G0; subst. lia. }
  assert (DOLD : forall tk v, tget (s_dtr st) tk = Some v -> tget dtr1 tk = Some v).
  { intros tk v E0. unfold dtr1. rewrite ext_fold_keep; auto. intros i Y. subst tk. destruct v as [dv0 H0].
    destruct Ds as [_ D2]. destruct (D2 _ _ _ _ E0) as (_ & r0 & n0 & G0 & I0). rewrite B in G0. inversion G0; subst. lia. }
  assert (DNEW : forall tk dv H, tget dtr1 tk = Some (dv, H) -> tget (s_dtr st) tk = Some (dv, H) \/ (tget (s_dtr st) tk = None /\ dv = 1)).
  { intros tk dv H E1. unfold dtr1 in E1. apply ext_fold_spec in E1 as [E1|(i & hs' & Ek & Rg & Ev)]; [left; exact E1|].
    inversion Ev; subst. right. split; auto.
    destruct (tget (s_dtr st) (k_blob (p_rpc e), i)) as [[dv0 H0]|] eqn:E0; auto.
    destruct Ds as [_ D2]. destruct (D2 _ _ _ _ E0) as (_ & r0 & n0 & G0 & I0). rewrite B in G0. inversion G0; subst. lia. }
  split.
  - apply (cinv_newdur st); auto.
  - intros _ _ o tk [Io Kk] Cc It. cbn [s_ops set_blobs set_dtr] in Io.
    unfold ack_tks in It. fold trs in It. apply in_map_iff in It as ([[idx ver] hs] & Et & Ix). subst tk.
    destruct (NEWK _ _ _ Ix) as [N0 N1]. exists 1, (map fst hs). cbn [s_dtr set_blobs set_dtr]. fold dtr1. split; [exact N1|].
    intros Ln g r G Cu. cbn [s_reps set_blobs set_dtr] in G. cbn [snd tkey] in *.
    assert (o = o') by (apply (uniq_cli (s_ops st)); auto; [eapply op_of_client_in; eauto | rewrite Cc; symmetry; eapply op_of_client_cli; eauto]).
    subst o'.
    assert (LOW : r_ver r <= 1).
    { destruct W as (U1 & _). specialize (U1 _ _ G). unfold bound1 in U1. cbn in U1. unfold tkey in U1. rewrite N0 in U1. exact U1. }
    destruct Cu as [[Ig Vg]|Vg]; [|lia].
    assert (AC : acc st o (tkey (k_blob (p_rpc e)) idx) g 1) by (left; unfold acc_succ; cbn [snd tkey]; eapply ST; eauto).
    destruct (S o (tkey (k_blob (p_rpc e)) idx) g 1 (conj Io Kk) (eq_sym Bo) Ln AC) as (_ & _ & Rp).
    destruct (Rp _ G) as [_ Y]. auto.
Qed.

(* ---------- one executed request ---------- *)
Definition side_ok (st : state) (e : pent) : Prop :=
  let r := p_rpc e in
  (k_kind r = K_Create -> tget (s_dtr st) (rtk r) = None) /\
  (k_kind r = K_PullTract -> stale_pull st r = false) /\
  (k_kind r = K_SetVersion -> forall dv H, tget (s_dtr st) (rtk r) = Some (dv, H) ->
     (k_ver r = dv + 1 -> In (k_ts r) H) /\
     (forall r0, In (k_ts r) H -> rget (s_reps st) (k_ts r, rtk r) = Some r0 -> dv <= r_ver r0)).

Definition fields_eq (st st1 : state) : Prop :=
  s_next st1 = s_next st /\ s_tasks st1 = s_tasks st /\ s_pool st1 = s_pool st /\ s_ops st1 = s_ops st.

Lemma ack_fields : forall st blob trs, fields_eq st (fst (ack_extend st blob trs)).
Proof. intros. unfold ack_extend. brk; repeat split. Qed.

Lemma exec_summary : forall st e oracle st1 res tr,
  Inv2 st -> ops_uniq st -> cinv st -> In e (s_pool st) -> p_st e = 0 -> side_ok st e ->
  exec_rpc st e oracle = (st1, res, tr) ->
  cinv st1 /\ post_w st1 e res /\ post_g st1 e tr /\ post_x st1 e res /\ fields_eq st st1.
Proof.
  intros st e oracle st1 res tr I2 U C Ie Pz (SC & SP & SV) X. pose proof I2 as [[Ds Ks] W]. unfold exec_rpc in X.
  assert (NW : forall K, k_kind (p_rpc e) = K -> K <> K_Write -> K <> K_Create -> forall s r0, post_w s e r0).
  { intros K EK N1 N2 s r0 [Y|Y]; congruence. }
  assert (NG : forall K, k_kind (p_rpc e) = K -> K <> K_GetTracts -> forall s t, post_g s e t) by (intros K EK N s t Y; congruence).
  assert (NX : forall K, k_kind (p_rpc e) = K -> K <> K_AckExtend -> forall s r0, post_x s e r0) by (intros K EK N s r0 Y; congruence).
  assert (FE : forall reps, fields_eq st (set_reps st reps)) by (intros; repeat split).
  assert (FS : fields_eq st st) by (repeat split).
  destruct (k_kind (p_rpc e) =? K_Write) eqn:K1.
  { apply Z.eqb_eq in K1. pose proof (exec_write st e K1 Ie Ks C) as EW. unfold rtk in EW.
    destruct (ts_write _ _ _ _ _ _ _) as [reps c]. inversion X; subst. destruct EW as [A B].
    split; [exact A|]. split; [exact B|]. split; [apply (NG _ K1); discriminate|]. split; [apply (NX _ K1); discriminate | apply FE]. }
  destruct (k_kind (p_rpc e) =? K_Create) eqn:K2.
  { apply Z.eqb_eq in K2. pose proof (exec_create st e K2 (SC K2) C) as EW. unfold rtk in EW.
    destruct (ts_create _ _ _ _ _ _ _) as [reps c]. inversion X; subst. destruct EW as [A B].
    split; [exact A|]. split; [exact B|]. split; [apply (NG _ K2); discriminate|]. split; [apply (NX _ K2); discriminate | apply FE]. }
  destruct (k_kind (p_rpc e) =? K_Read) eqn:K3.
  { apply Z.eqb_eq in K3. destruct (ts_read _ _ _ _ _ _) as [[c n] runs]. inversion X; subst.
    split; [exact C|]. split; [apply (NW _ K3); discriminate|]. split; [apply (NG _ K3); discriminate|]. split; [apply (NX _ K3); discriminate | apply FS]. }
  destruct (k_kind (p_rpc e) =? K_SetVersion) eqn:K4.
  { apply Z.eqb_eq in K4. destruct W as (U1 & U2 & U3). destruct (U2 _ Ie (or_introl K4)) as (dv & H & E & L).
    destruct (SV K4 _ _ E) as [PS HV].
    pose proof (exec_setversion st (k_ts (p_rpc e)) (aux_nth (p_rpc e) 0) _ (k_ver (p_rpc e)) dv H E L PS HV Ks C) as A.
    unfold rtk in A. destruct (ts_setversion _ _ _ _ _) as [reps c]. inversion X; subst. cbn [fst] in A.
    split; [exact A|]. split; [apply (NW _ K4); discriminate|]. split; [apply (NG _ K4); discriminate|]. split; [apply (NX _ K4); discriminate | apply FE]. }
  destruct (k_kind (p_rpc e) =? K_PullTract) eqn:K5.
  { apply Z.eqb_eq in K5. destruct W as (U1 & U2 & U3). destruct (U2 _ Ie (or_intror K5)) as (dv & H & E & L).
    assert (NS : ~ (k_ver (p_rpc e) <= dv /\ (rget (s_reps st) (k_ts (p_rpc e), rtk (p_rpc e)) = None \/
                    exists r0, rget (s_reps st) (k_ts (p_rpc e), rtk (p_rpc e)) = Some r0 /\ r_ver r0 <= k_ver (p_rpc e)))).
    { intros [L1 L2]. specialize (SP K5). unfold stale_pull in SP. unfold rtk in E, L2. rewrite E in SP.
      apply andb_false_iff in SP as [SP|SP]; [apply Z.leb_gt in SP; lia|].
      destruct L2 as [L2|(r0 & L2 & L3)]; rewrite L2 in SP; [discriminate|]. apply Z.leb_gt in SP. lia. }
    pose proof (exec_pull st (k_ts (p_rpc e)) (aux_nth (p_rpc e) 0) _ (k_ver (p_rpc e)) (tl (k_aux (p_rpc e))) dv H E L NS Ks C) as A.
    unfold rtk in A. destruct (ts_pull _ _ _ _ _ _ _) as [reps c]. inversion X; subst. cbn [fst] in A.
    split; [exact A|]. split; [apply (NW _ K5); discriminate|]. split; [apply (NG _ K5); discriminate|]. split; [apply (NX _ K5); discriminate | apply FE]. }
  destruct (k_kind (p_rpc e) =? K_StatBlob) eqn:K6.
  { apply Z.eqb_eq in K6. destruct (zget (s_blobs st) (k_blob (p_rpc e))) as [[a b]|]; inversion X; subst;
      (split; [exact C|]; split; [apply (NW _ K6); discriminate|]; split; [apply (NG _ K6); discriminate|]; split; [apply (NX _ K6); discriminate | apply FS]). }
  destruct (k_kind (p_rpc e) =? K_GetTracts) eqn:K7.
  { apply Z.eqb_eq in K7. destruct (exec_gettracts st (p_rpc e)) as [res0 trs] eqn:GT. inversion X; subst.
    split; [exact C|]. split; [apply (NW _ K7); discriminate|]. split; [eapply gettracts_post; eauto|]. split; [apply (NX _ K7); discriminate | apply FS]. }
  destruct (k_kind (p_rpc e) =? K_ExtendBlob) eqn:K8.
  { apply Z.eqb_eq in K8. destruct (exec_extend st (p_rpc e) oracle) as [res0 trs]. inversion X; subst.
    split; [exact C|]. split; [apply (NW _ K8); discriminate|]. split; [apply (NG _ K8); discriminate|]. split; [apply (NX _ K8); discriminate | apply FS]. }
  destruct (k_kind (p_rpc e) =? K_AckExtend) eqn:K9.
  { apply Z.eqb_eq in K9. pose proof (exec_ackextend st e K9 Ie Pz I2 U C) as A. pose proof (ack_fields st (k_blob (p_rpc e)) (decode_tracts false (k_aux (p_rpc e)))) as F.
    destruct (ack_extend _ _ _) as [st' c]. inversion X; subst. destruct A as [A B]. cbn [fst] in F.
    split; [exact A|]. split; [apply (NW _ K9); discriminate|]. split; [apply (NG _ K9); discriminate|]. split; [exact B | exact F]. }
  assert (KO : forall s r0, post_w s e r0).
  { intros s r0 [Y|Y]; rewrite Y in *; discriminate. }
  assert (KG : forall s t, post_g s e t) by (intros s t Y; rewrite Y in K7; discriminate).
  assert (KX : forall s r0, post_x s e r0) by (intros s r0 Y; rewrite Y in K9; discriminate).
  destruct (k_kind (p_rpc e) =? K_ReportBadTS); inversion X; subst; auto.
Qed.

Lemma tr_ok_upd : forall st st1 e stt res tr lose auto,
  tr_ok st -> fields_eq st st1 -> In e (s_pool st) ->
  tr_ok (set_pool st1 (pool_update (s_pool st1) (set_pent e stt res tr lose auto))).
Proof.
  intros st st1 e stt res tr lose auto (T0 & T1 & T2) (N & T & P & _) Ie.
  split; [cbn; rewrite N; exact T0|]. split.
  - intros x Ix. cbn in Ix. rewrite P in Ix. unfold pool_update in Ix. apply in_map_iff in Ix as (y & Ey & Iy).
    cbn [s_next set_pool]. rewrite N. destruct (p_id y =? _); subst x; cbn; auto.
  - intros t It. cbn [s_tasks set_pool] in It. rewrite T in It. destruct (T2 _ It) as [L F]. cbn [s_next set_pool]. rewrite N. split; auto.
    intros NZ x Ix Id. cbn in Ix. rewrite P in Ix. unfold pool_update in Ix. apply in_map_iff in Ix as (y & Ey & Iy).
    destruct (p_id y =? _) eqn:Q; subst x; cbn in *; [|eauto]. apply Z.eqb_eq in Q. apply (F NZ _ Ie). cbn in Q. congruence.
Qed.

Lemma cinv_exec_upd : forall st e oracle st1 res tr lose auto,
  Inv2 st -> ord_ok st -> tr_ok st -> cinv st -> In e (s_pool st) -> p_st e = 0 -> side_ok st e ->
  exec_rpc st e oracle = (st1, res, tr) ->
  cinv (set_pool st1 (pool_update (s_pool st1) (set_pent e 2 res tr lose auto))) /\
  tr_ok (set_pool st1 (pool_update (s_pool st1) (set_pent e 2 res tr lose auto))).
Proof.
  intros st e oracle st1 res tr lose auto I2 OO T C Ie Pz SD X. pose proof OO as (U & _ & _ & O4 & _).
  destruct (exec_summary _ _ _ _ _ _ I2 U C Ie Pz SD X) as (C1 & PW & PG & PX & FE).
  split; [|eapply tr_ok_upd; eauto].
  apply cinv_upd; auto; [|destruct FE as (_ & _ & FP & _); rewrite FP; exact Ie].
  intros o Wk Ln [Io Ko] Cc. destruct FE as (_ & _ & _ & FO). rewrite FO in Io.
  destruct (O4 _ Ie Wk Ln) as (o' & Io' & Ko' & Wo' & Co'). destruct U as [_ UC].
  assert (o = o') by (apply (uniq_cli (s_ops st)); auto; congruence). subst o'. exact Wo'.
Qed.

(* ---------- a request executed twice ---------- *)
Lemma ack_twice : forall st blob trs st1, ack_extend st blob trs = (st1, cl_NoError) -> dur_ok st ->
  fst (ack_extend st1 blob trs) = st1.
Proof.
  intros st blob trs st1 X [D1 _]. unfold ack_extend in *.
  destruct trs as [|[[first ver0] hs0] trs0]; [inversion X; subst; reflexivity|].
  set (trs := (first, ver0, hs0) :: trs0) in *.
  assert (LEN : 0 < Z.of_nat (length trs)) by (unfold trs; cbn [length]; lia). clearbody trs.
  destruct (20 <? Z.of_nat (length trs)) eqn:TB; [discriminate X|].
  destruct (zget (s_blobs st) blob) as [[repl nt]|] eqn:B; [|discriminate X].
  destruct (negb (first =? nt)) eqn:FN; [discriminate X|]. apply negb_false_iff in FN. apply Z.eqb_eq in FN. subst first.
  match type of X with context [negb (forallb ?f ?l)] => destruct (negb (forallb f l)); [discriminate X|] end.
  inversion X; subst st1. clear X.
  cbn [s_blobs set_blobs set_dtr]. rewrite zget_zset_same.
  destruct (negb (nt =? nt + Z.of_nat (length trs))) eqn:Q; [reflexivity|].
  apply negb_false_iff in Q. apply Z.eqb_eq in Q. lia.
Qed.

Lemma posts_again : forall st e oracle st1 res tr st1b res2 tr2, dur_ok st ->
  exec_rpc st e oracle = (st1, res, tr) -> exec_rpc st1 e oracle = (st1b, res2, tr2) ->
  post_w st1 e res -> post_g st1 e tr -> post_x st1 e res ->
  post_w st1b e res /\ post_g st1b e tr /\ post_x st1b e res.
Proof.
  intros st e oracle st1 res tr st1b res2 tr2 Ds X1 X2 PW PG PX.
  assert (SAME : st1b = st1 -> post_w st1b e res /\ post_g st1b e tr /\ post_x st1b e res) by (intro E; subst; auto).
  unfold exec_rpc in X2.
  assert (GROW : forall reps' ,
            (forall k r, rget (s_reps st1) k = Some r -> exists r', rget reps' k = Some r' /\ r_ver r' = r_ver r /\ incl (r_app r) (r_app r')) ->
            wkind (p_rpc e) -> post_w (set_reps st1 reps') e res /\ post_g (set_reps st1 reps') e tr /\ post_x (set_reps st1 reps') e res).
  { intros reps' G Wk. split; [|split].
    - intros _ OKc Ln. destruct (PW Wk OKc Ln) as (Bd & r & Gr & Vr & Ir). split; [exact Bd|].
      destruct (G _ _ Gr) as (r' & Gr' & Vr' & Ic). exists r'. split; [exact Gr'|]. split; [congruence | auto].
    - intros Kd. destruct Wk as [Wk|Wk]; rewrite Wk in Kd; discriminate Kd.
    - intros Kd. destruct Wk as [Wk|Wk]; rewrite Wk in Kd; discriminate Kd. }
  assert (RSET : forall k r0 app1, rget (s_reps st1) k = Some r0 -> incl (r_app r0) app1 ->
            forall k' r, rget (s_reps st1) k' = Some r ->
              exists r', rget (rset (s_reps st1) k {| r_ver := r_ver r0; r_app := app1 |}) k' = Some r' /\ r_ver r' = r_ver r /\ incl (r_app r) (r_app r')).
  { intros k r0 app1 G0 I k' r G. destruct (rkey_dec k' k) as [E|N].
    - subst k'. rewrite rget_rset_same. rewrite G0 in G. inversion G; subst r. eexists. split; [reflexivity|]. split; auto.
    - rewrite rget_rset_other by exact N. exists r. split; auto. split; auto. apply incl_refl. }
  assert (ID : forall k r, rget (s_reps st1) k = Some r -> exists r', rget (s_reps st1) k = Some r' /\ r_ver r' = r_ver r /\ incl (r_app r) (r_app r')).
  { intros k r G. exists r. split; auto. split; auto. apply incl_refl. }
  destruct (k_kind (p_rpc e) =? K_Write) eqn:K1.
  { apply Z.eqb_eq in K1. destruct (ts_write _ _ _ _ _ _ _) as [reps c] eqn:Wr. inversion X2; subst.
    apply ts_write_spec in Wr as [[N Eq]|(Eq & r0 & G & V & Rq)]; subst; apply GROW; auto; [left; exact K1 | | left; exact K1].
    apply RSET; auto. apply app_write_incl. }
  destruct (k_kind (p_rpc e) =? K_Create) eqn:K2.
  { apply Z.eqb_eq in K2. destruct (ts_create _ _ _ _ _ _ _) as [reps c] eqn:Cr. inversion X2; subst.
    unfold ts_create in Cr. destruct (negb (_ =? _)); [inversion Cr; subst; apply GROW; auto; right; exact K2|].
    destruct (rget (s_reps st1) _) as [r0|] eqn:G.
    - apply ts_write_spec in Cr as [[N Eq]|(Eq & r0' & G' & V & Rq)]; subst; apply GROW; auto; [right; exact K2 | | right; exact K2].
      apply RSET; auto. apply app_write_incl.
    - inversion Cr; subst. apply GROW; [|right; exact K2]. intros k' r Gk.
      destruct (rkey_dec k' (k_ts (p_rpc e), tkey (k_blob (p_rpc e)) (k_tract (p_rpc e)))) as [E|N]; [subst k'; congruence|].
      rewrite rget_rset_other by exact N. exists r. split; auto. split; auto. apply incl_refl. }
  assert (NW : forall s, post_w s e res) by (intros s [Y|Y]; rewrite Y in *; discriminate).
  destruct (k_kind (p_rpc e) =? K_Read) eqn:K3.
  { destruct (ts_read _ _ _ _ _ _) as [[c n] runs]. inversion X2; subst. auto. }
  assert (NGX : k_kind (p_rpc e) <> K_GetTracts -> k_kind (p_rpc e) <> K_AckExtend -> forall s, post_w s e res /\ post_g s e tr /\ post_x s e res).
  { intros N1 N2 s. split; [apply NW|]. split; intro Y; contradiction. }
  destruct (k_kind (p_rpc e) =? K_SetVersion) eqn:K4.
  { apply Z.eqb_eq in K4. destruct (ts_setversion _ _ _ _ _) as [reps c]. inversion X2; subst. apply NGX; rewrite K4; discriminate. }
  destruct (k_kind (p_rpc e) =? K_PullTract) eqn:K5.
  { apply Z.eqb_eq in K5. destruct (ts_pull _ _ _ _ _ _ _) as [reps c]. inversion X2; subst. apply NGX; rewrite K5; discriminate. }
  destruct (k_kind (p_rpc e) =? K_StatBlob) eqn:K6.
  { destruct (zget (s_blobs st1) (k_blob (p_rpc e))) as [[a b]|]; inversion X2; subst; auto. }
  destruct (k_kind (p_rpc e) =? K_GetTracts) eqn:K7.
  { destruct (exec_gettracts st1 (p_rpc e)) as [res0 trs]. inversion X2; subst. auto. }
  destruct (k_kind (p_rpc e) =? K_ExtendBlob) eqn:K8.
  { destruct (exec_extend st1 (p_rpc e) oracle) as [res0 trs]. inversion X2; subst. auto. }
  destruct (k_kind (p_rpc e) =? K_AckExtend) eqn:K9.
  { apply Z.eqb_eq in K9. destruct (ack_extend st1 (k_blob (p_rpc e)) (decode_tracts false (k_aux (p_rpc e)))) as [st' c] eqn:AE2.
    inversion X2; subst. clear X2.
    (* the first execution *)
    unfold exec_rpc in X1. rewrite K9 in X1. cbn in X1.
    destruct (ack_extend st (k_blob (p_rpc e)) (decode_tracts false (k_aux (p_rpc e)))) as [st'' c1] eqn:AE1. inversion X1; subst. clear X1.
    destruct (Z.eq_dec c1 cl_NoError) as [OKc|NOK].
    - subst c1. pose proof (ack_twice _ _ _ _ AE1 Ds) as TW. rewrite AE2 in TW. cbn in TW. apply SAME. exact TW.
    - split; [apply NW|]. split; [intro Y; rewrite K9 in Y; discriminate Y|]. intros _ Y. cbn in Y. contradiction. }
  destruct (k_kind (p_rpc e) =? K_ReportBadTS); inversion X2; subst; auto.
Qed.

Lemma side_ok_again : forall st e oracle st1 res tr, exec_rpc st e oracle = (st1, res, tr) -> side_ok st e -> side_ok st1 e.
Proof.
  intros st e oracle st1 res tr X (SC & SP & SV). unfold exec_rpc in X.
  set (x := k_ts (p_rpc e)) in *. set (tk := tkey (k_blob (p_rpc e)) (k_tract (p_rpc e))) in *.
  destruct (k_kind (p_rpc e) =? K_Write) eqn:K1.
  { apply Z.eqb_eq in K1. destruct (ts_write _ _ _ _ _ _ _) as [reps c]. inversion X; subst.
    split; [|split]; intro Y; rewrite K1 in Y; discriminate Y. }
  destruct (k_kind (p_rpc e) =? K_Create) eqn:K2.
  { apply Z.eqb_eq in K2. destruct (ts_create _ _ _ _ _ _ _) as [reps c]. inversion X; subst.
    split; [exact SC|]. split; intro Y; rewrite K2 in Y; discriminate Y. }
  destruct (k_kind (p_rpc e) =? K_Read) eqn:K3.
  { destruct (ts_read _ _ _ _ _ _) as [[c n] runs]. inversion X; subst. exact (conj SC (conj SP SV)). }
  destruct (k_kind (p_rpc e) =? K_SetVersion) eqn:K4.
  { apply Z.eqb_eq in K4. destruct (ts_setversion _ _ _ _ _) as [reps c] eqn:Sv. inversion X; subst.
    split; [intro Y; rewrite K4 in Y; discriminate Y|]. split; [intro Y; rewrite K4 in Y; discriminate Y|].
    intros _ dv H Et. cbn [s_dtr set_reps] in Et. destruct (SV K4 dv H Et) as [PS HV]. split; [exact PS|].
    intros r1 Ih G1. cbn [s_reps set_reps] in G1. unfold rtk in *. fold x tk in G1, HV.
    apply ts_setversion_spec in Sv as [Eq|(r0 & G & V & Eq)]; subst reps; [eapply HV; eauto|].
    rewrite rget_rset_same in G1. inversion G1; subst r1. cbn. specialize (HV _ Ih G). lia. }
  destruct (k_kind (p_rpc e) =? K_PullTract) eqn:K5.
  { apply Z.eqb_eq in K5. destruct (ts_pull _ _ _ _ _ _ _) as [reps c] eqn:Pl. inversion X; subst.
    split; [intro Y; rewrite K5 in Y; discriminate Y|]. split; [|intro Y; rewrite K5 in Y; discriminate Y].
    intros _. specialize (SP K5). unfold stale_pull in *. cbn [s_dtr s_reps set_reps]. fold x tk. fold x tk in SP.
    destruct (tget (s_dtr st) tk) as [[dv H]|]; [|reflexivity].
    destruct (k_ver (p_rpc e) <=? dv) eqn:LV; [|reflexivity]. cbn [andb] in *.
    unfold ts_pull in Pl. destruct (negb (x =? aux_nth (p_rpc e) 0)); [inversion Pl; subst; exact SP|].
    apply pull_loop_spec in Pl as [OTH [SAME|[PRE RES]]]; [rewrite SAME; exact SP|].
    exfalso. destruct PRE as [PRE|(r0 & G0 & L0)]; rewrite ?PRE in SP; [discriminate SP|]. rewrite G0 in SP. apply Z.leb_gt in SP. lia. }
  destruct (k_kind (p_rpc e) =? K_StatBlob) eqn:K6.
  { destruct (zget (s_blobs st) (k_blob (p_rpc e))) as [[a b]|]; inversion X; subst; exact (conj SC (conj SP SV)). }
  destruct (k_kind (p_rpc e) =? K_GetTracts) eqn:K7.
  { destruct (exec_gettracts st (p_rpc e)) as [res0 trs]. inversion X; subst. exact (conj SC (conj SP SV)). }
  destruct (k_kind (p_rpc e) =? K_ExtendBlob) eqn:K8.
  { destruct (exec_extend st (p_rpc e) oracle) as [res0 trs]. inversion X; subst. exact (conj SC (conj SP SV)). }
  assert (NK : side_ok st1 e).
  { split; [|split]; intro Y; rewrite Y in *; discriminate. }
  exact NK.
Qed.

Lemma cinv_exec_upd2 : forall st e oracle st1 res tr st1b res2 tr2 lose auto,
  Inv2 st -> ord_ok st -> tr_ok st -> cinv st -> In e (s_pool st) -> p_st e = 0 -> side_ok st e ->
  exec_rpc st e oracle = (st1, res, tr) -> exec_rpc st1 e oracle = (st1b, res2, tr2) ->
  cinv (set_pool st1b (pool_update (s_pool st1b) (set_pent e 2 res tr lose auto))) /\
  tr_ok (set_pool st1b (pool_update (s_pool st1b) (set_pent e 2 res tr lose auto))).
Proof.
  intros st e oracle st1 res tr st1b res2 tr2 lose auto I2 OO T C Ie Pz SD X1 X2. pose proof OO as (U & _ & _ & O4 & _).
  destruct (exec_summary _ _ _ _ _ _ I2 U C Ie Pz SD X1) as (C1 & PW & PG & PX & FE).
  pose proof I2 as [I W]. destruct (inv_exec _ _ _ _ _ _ I X1) as (E1 & P1 & TB1).
  assert (J1 : Inv2 st1) by (split; [exact (evolves_inv _ _ E1 I) | exact (win_exec _ _ _ _ _ _ I2 Ie X1)]).
  assert (U1 : ops_uniq st1) by (destruct FE as (_ & _ & _ & FO); unfold ops_uniq; rewrite FO; exact U).
  assert (Ie1 : In e (s_pool st1)) by (rewrite P1; exact Ie).
  pose proof (side_ok_again _ _ _ _ _ _ X1 SD) as SD1.
  destruct (exec_summary _ _ _ _ _ _ J1 U1 C1 Ie1 Pz SD1 X2) as (C2 & _ & _ & _ & FE2).
  destruct (posts_again _ _ _ _ _ _ _ _ _ (proj1 I) X1 X2 PW PG PX) as (PW2 & PG2 & PX2).
  assert (FEE : fields_eq st st1b).
  { destruct FE as (A1 & A2 & A3 & A4). destruct FE2 as (B1 & B2 & B3 & B4). repeat split; congruence. }
  split; [|eapply tr_ok_upd; eauto].
  apply cinv_upd; auto; [|destruct FEE as (_ & _ & FP & _); rewrite FP; exact Ie].
  intros o Wk Ln [Io Ko] Cc. destruct FEE as (_ & _ & _ & FO). rewrite FO in Io.
  destruct (O4 _ Ie Wk Ln) as (o' & Io' & Ko' & Wo' & Co'). destruct U as [_ UC].
  assert (o = o') by (apply (uniq_cli (s_ops st)); auto; congruence). subst o'. exact Wo'.
Qed.
