(* Cluster/Window.v — no replica of a durable tract is ever more than one version ahead of the durable
   record (upper half of host_version_window, DESIGN A.2 I1), for every schedule of the model that contains
   no injected curator-side probe RPC (event 17, which exists only to test the tractserver's own rules). *)
From Coq Require Import List ZArith Bool Lia.
From BLB Require Import Gen.Consts Cluster.Model Cluster.Proofs Cluster.Frame Cluster.Inv.
Import ListNotations.
Open Scope Z_scope.

Arguments flush : simpl never.
Arguments wake : simpl never.
Arguments start_task : simpl never.
Arguments resume : simpl never.
Arguments exec_rpc : simpl never.
Arguments task_reply : simpl never.
Arguments activate : simpl never.
Arguments finish_task : simpl never.

(* ---------- how executing an RPC can change replica versions ---------- *)
Definition vrel (reps reps' : list (rkey * replica)) (key : rkey) (v : Z) : Prop :=
  forall k r', rget reps' k = Some r' ->
    (exists r, rget reps k = Some r /\ r_ver r' = r_ver r) \/ (k = key /\ r_ver r' = v).

Lemma vrel_refl : forall reps key v, vrel reps reps key v.
Proof. intros reps key v k r' H. left. exists r'. auto. Qed.

Lemma vrel_trans : forall a b c key v, vrel a b key v -> vrel b c key v -> vrel a c key v.
Proof.
  intros a b c key v H1 H2 k r' H. destruct (H2 _ _ H) as [(r1 & G1 & E1)|N]; [|right; exact N].
  destruct (H1 _ _ G1) as [(r0 & G0 & E0)|[K V]]; [left; exists r0; split; auto; congruence|right; split; auto; congruence].
Qed.

Lemma vrel_same_except : forall reps reps' key v,
  same_except reps reps' key ->
  (forall r', rget reps' key = Some r' -> (exists r, rget reps key = Some r /\ r_ver r' = r_ver r) \/ r_ver r' = v) ->
  vrel reps reps' key v.
Proof.
  intros reps reps' key v S H k r' G. destruct (rk_eqb k key) eqn:E.
  - apply rk_eqb_eq in E. subst k. destruct (H _ G) as [X|X]; auto.
  - left. exists r'. split; auto. rewrite <- (S k); auto. intro X. subst. rewrite rk_eqb_refl in E. discriminate.
Qed.

Lemma ts_write_vrel : forall reps ts tk ver wid off len reps' c v,
  ts_write reps ts tk ver wid off len = (reps', c) -> vrel reps reps' (ts, tk) v.
Proof.
  intros. pose proof (ts_write_frame _ _ _ _ _ _ _ _ _ H) as (A & B & C).
  apply vrel_same_except; [exact A|]. intros r' G.
  destruct (rget reps (ts, tk)) as [r|] eqn:E.
  - destruct (C r eq_refl) as (r2 & G2 & V2 & _). rewrite G in G2. inversion G2; subst. left. exists r. auto.
  - rewrite (B eq_refl) in G. discriminate.
Qed.

Lemma ts_create_vrel : forall reps ts tsid tk wid off len reps' c,
  ts_create reps ts tsid tk wid off len = (reps', c) -> vrel reps reps' (ts, tk) 1.
Proof.
  intros. pose proof (ts_create_frame _ _ _ _ _ _ _ _ _ H) as (A & B & C).
  apply vrel_same_except; [exact A|]. intros r' G.
  destruct (rget reps (ts, tk)) as [r|] eqn:E.
  - destruct (B r eq_refl) as (r2 & G2 & V2 & _). rewrite G in G2. inversion G2; subst. left. exists r. auto.
  - right. destruct (C eq_refl r' G). auto.
Qed.

Lemma ts_setversion_vrel : forall reps ts tsid tk nv reps' c,
  ts_setversion reps ts tsid tk nv = (reps', c) -> vrel reps reps' (ts, tk) nv.
Proof.
  intros. pose proof (ts_setversion_frame _ _ _ _ _ _ _ H) as (A & B & C).
  apply vrel_same_except; [exact A|]. intros r' G.
  destruct (rget reps (ts, tk)) as [r|] eqn:E.
  - destruct (C r eq_refl) as (r2 & G2 & _ & _ & [V|[V _]] & _); rewrite G in G2; inversion G2; subst; [left; exists r; auto | right; auto].
  - rewrite (B eq_refl) in G. discriminate.
Qed.

Lemma pull_once_vrel : forall reps nts ts tk ver src reps' e,
  pull_once reps nts ts tk ver src = (reps', e) -> vrel reps reps' (ts, tk) ver.
Proof.
  intros reps nts ts tk ver src reps' e H.
  apply vrel_same_except; [eapply pull_once_frame; eauto|]. intros r' G. unfold pull_once in H.
  destruct (rget reps (ts, tk)) as [r|] eqn:E.
  - destruct (ver <? r_ver r).
    + inversion H; subst. left. exists r. rewrite E in G. inversion G; subst. auto.
    + destruct ((src <=? 0) || (nts <? src)). { inversion H; subst. rewrite rget_rdel_same in G. discriminate. }
      destruct (rget (rdel reps (ts, tk)) (src, tk)) as [s|].
      * destruct (r_ver s =? ver); inversion H; subst.
        -- rewrite rget_rset_same in G. inversion G; subst. right. reflexivity.
        -- rewrite rget_rdel_same in G. discriminate.
      * inversion H; subst. rewrite rget_rdel_same in G. discriminate.
  - destruct ((src <=? 0) || (nts <? src)). { inversion H; subst. rewrite E in G. discriminate. }
    destruct (rget reps (src, tk)) as [s|].
    + destruct (r_ver s =? ver); inversion H; subst.
      * rewrite rget_rset_same in G. inversion G; subst. right. reflexivity.
      * rewrite E in G. discriminate.
    + inversion H; subst. rewrite E in G. discriminate.
Qed.

Lemma pull_loop_vrel : forall srcs reps nts ts tk ver last reps' e,
  pull_loop reps nts ts tk ver srcs last = (reps', e) -> vrel reps reps' (ts, tk) ver.
Proof.
  induction srcs as [|s srcs IH]; intros reps nts ts tk ver last reps' e H.
  - inversion H; subst. apply vrel_refl.
  - cbn in H. destruct (pull_once reps nts ts tk ver s) as [r1 e1] eqn:P. apply pull_once_vrel in P.
    destruct (e1 =? cl_NoError); [inversion H; subst; auto|]. eapply vrel_trans; eauto.
Qed.

Lemma pull_crash_vrel : forall srcs reps nts ts tk ver,
  vrel reps (pull_crash reps nts ts tk ver srcs) (ts, tk) ver.
Proof.
  induction srcs as [|s srcs IH]; intros reps nts ts tk ver; [apply vrel_refl|].
  cbn. destruct (pull_once reps nts ts tk ver s) as [r1 e1] eqn:P.
  pose proof (pull_once_frame _ _ _ _ _ _ _ _ P) as F. apply pull_once_vrel in P.
  destruct (e1 =? cl_NoError).
  - eapply vrel_trans; [exact P|]. apply vrel_same_except.
    + intros k' Hk. now apply rget_rset_other.
    + intros r' G. rewrite rget_rset_same in G. inversion G; subst. right. reflexivity.
  - eapply vrel_trans; eauto.
Qed.

(* the version a replica may newly get from an RPC *)
Definition newver (r : rpc) : Z := if k_kind r =? K_Create then 1 else k_ver r.

Lemma exec_vrel : forall st e oracle st' res tr,
  exec_rpc st e oracle = (st', res, tr) ->
  vrel (s_reps st) (s_reps st') (rpc_key_of (p_rpc e)) (newver (p_rpc e)) /\
  (k_kind (p_rpc e) <> K_Create -> k_kind (p_rpc e) <> K_SetVersion -> k_kind (p_rpc e) <> K_PullTract ->
     forall k r', rget (s_reps st') k = Some r' -> exists r, rget (s_reps st) k = Some r /\ r_ver r' = r_ver r).
Proof.
  intros st e oracle st' res tr H. unfold exec_rpc in H. unfold rpc_key_of, newver.
  destruct (k_kind (p_rpc e) =? K_Write) eqn:KW.
  { destruct (ts_write _ _ _ _ _ _ _) as [reps c] eqn:W. inversion H; subst; cbn [s_reps set_reps].
    split; [eapply ts_write_vrel; eauto|]. intros _ _ _ k r' G.
    pose proof (ts_write_vrel _ _ _ _ _ _ _ _ _ (-1) W k r' G) as [X|[_ X]]; auto.
    (* the second alternative cannot be told apart by the version alone; use the frame lemma instead *)
    pose proof (ts_write_frame _ _ _ _ _ _ _ _ _ W) as (A & B & C).
    destruct (rk_eqb k (k_ts (p_rpc e), tkey (k_blob (p_rpc e)) (k_tract (p_rpc e)))) eqn:E.
    - apply rk_eqb_eq in E. subst k. destruct (rget (s_reps st) _) as [r|] eqn:E2.
      + destruct (C r eq_refl) as (r2 & G2 & V2 & _). rewrite G in G2. inversion G2; subst. exists r. auto.
      + rewrite (B eq_refl) in G. discriminate.
    - exists r'. split; auto. rewrite <- (A k); auto. intro Y. subst. rewrite rk_eqb_refl in E. discriminate. }
  destruct (k_kind (p_rpc e) =? K_Create) eqn:KC.
  { destruct (ts_create _ _ _ _ _ _ _) as [reps c] eqn:W. inversion H; subst; cbn [s_reps set_reps].
    split; [eapply ts_create_vrel; eauto|]. intros N. apply Z.eqb_eq in KC. contradiction. }
  assert (SAME : s_reps st' = s_reps st ->
                 vrel (s_reps st) (s_reps st') (k_ts (p_rpc e), tkey (k_blob (p_rpc e)) (k_tract (p_rpc e))) (k_ver (p_rpc e)) /\
                 (k_kind (p_rpc e) <> K_Create -> k_kind (p_rpc e) <> K_SetVersion -> k_kind (p_rpc e) <> K_PullTract ->
                  forall k r', rget (s_reps st') k = Some r' -> exists r, rget (s_reps st) k = Some r /\ r_ver r' = r_ver r)).
  { intro E. rewrite E. split; [apply vrel_refl|]. intros _ _ _ k r' G. exists r'. auto. }
  destruct (k_kind (p_rpc e) =? K_Read).
  { destruct (ts_read _ _ _ _ _ _) as [[c n] runs]. inversion H; subst. apply SAME. reflexivity. }
  destruct (k_kind (p_rpc e) =? K_SetVersion) eqn:KS.
  { destruct (ts_setversion _ _ _ _ _) as [reps c] eqn:W. inversion H; subst; cbn [s_reps set_reps].
    split; [eapply ts_setversion_vrel; eauto|]. intros _ N. apply Z.eqb_eq in KS. contradiction. }
  destruct (k_kind (p_rpc e) =? K_PullTract) eqn:KP.
  { destruct (ts_pull _ _ _ _ _ _ _) as [reps c] eqn:W. inversion H; subst; cbn [s_reps set_reps].
    split.
    - unfold ts_pull in W. destruct (negb _); [inversion W; subst; apply vrel_refl | eapply pull_loop_vrel; eauto].
    - intros _ _ N. apply Z.eqb_eq in KP. contradiction. }
  apply SAME.
  destruct (k_kind (p_rpc e) =? K_StatBlob).
  { destruct (zget (s_blobs st) (k_blob (p_rpc e))) as [[a b]|]; inversion H; subst; reflexivity. }
  destruct (k_kind (p_rpc e) =? K_GetTracts). { destruct (exec_gettracts st (p_rpc e)). inversion H; subst; reflexivity. }
  destruct (k_kind (p_rpc e) =? K_ExtendBlob). { destruct (exec_extend st (p_rpc e) oracle). inversion H; subst; reflexivity. }
  destruct (k_kind (p_rpc e) =? K_AckExtend).
  { pose proof (reps_ack_extend st (k_blob (p_rpc e)) (decode_tracts false (k_aux (p_rpc e)))) as R.
    destruct (ack_extend _ _ _) as [s1 c]. inversion H; subst. exact R. }
  destruct (k_kind (p_rpc e) =? K_ReportBadTS); inversion H; subst; reflexivity.
Qed.

(* ---------- the invariant ---------- *)
Definition bound1 (st : state) (tk : tkt) (v : Z) : Prop :=
  match tget (s_dtr st) tk with Some (dv, _) => v <= dv + 1 | None => v <= 1 end.
Definition durb (st : state) (tk : tkt) (v : Z) : Prop :=
  exists dv hs, tget (s_dtr st) tk = Some (dv, hs) /\ v <= dv + 1.
Definition is_cur_ts (r : rpc) : Prop := k_kind r = K_SetVersion \/ k_kind r = K_PullTract.
Definition rtk (r : rpc) : tkt := tkey (k_blob r) (k_tract r).
Definition ttk (t : task) : tkt := tkey (t_blob t) (t_tract t).

Definition win_ok (st : state) : Prop :=
  (forall k r, rget (s_reps st) k = Some r -> bound1 st (snd k) (r_ver r)) /\
  (forall e, In e (s_pool st) -> is_cur_ts (p_rpc e) -> durb st (rtk (p_rpc e)) (k_ver (p_rpc e))) /\
  (forall t, In t (s_tasks st) -> 0 < t_phase t -> durb st (ttk t) (t_dv t + 1)).

Lemma durb_mono : forall st st' tk v, dgrow st st' -> durb st tk v -> durb st' tk v.
Proof. intros st st' tk v G (dv & hs & H & L). destruct (G _ _ _ H) as (dv' & hs' & H' & L'). exists dv', hs'. split; auto; lia. Qed.

Lemma bound1_mono : forall st st' tk v, dgrow st st' -> dur_ok st' -> bound1 st tk v -> bound1 st' tk v.
Proof.
  intros st st' tk v G D B. unfold bound1 in *.
  destruct (tget (s_dtr st) tk) as [[dv hs]|] eqn:E.
  - destruct (G _ _ _ E) as (dv' & hs' & E' & L). rewrite E'. lia.
  - destruct (tget (s_dtr st') tk) as [[dv' hs']|] eqn:E'; auto.
    destruct tk as [b i]. destruct D as [_ D]. destruct (D _ _ _ _ E') as [L _]. lia.
Qed.

Lemma durb_bound1 : forall st tk v, durb st tk v -> bound1 st tk v.
Proof. intros st tk v (dv & hs & H & L). unfold bound1. rewrite H. exact L. Qed.

Definition pool_ok2 (st st' : state) : Prop :=
  forall e', In e' (s_pool st') -> is_cur_ts (p_rpc e') ->
    (exists e, In e (s_pool st) /\ p_rpc e = p_rpc e') \/ durb st' (rtk (p_rpc e')) (k_ver (p_rpc e')).
Definition tasks_ok2 (st st' : state) : Prop :=
  forall t', In t' (s_tasks st') -> 0 < t_phase t' ->
    (exists t, In t (s_tasks st) /\ 0 < t_phase t /\ ttk t = ttk t' /\ t_dv t = t_dv t') \/ durb st' (ttk t') (t_dv t' + 1).

Definition step2 (st st' : state) : Prop :=
  dur_ok st -> dur_ok st' /\ dgrow st st' /\ s_reps st' = s_reps st /\ pool_ok2 st st' /\ tasks_ok2 st st'.

Lemma step2_refl : forall st, step2 st st.
Proof.
  intros st D. split; auto. split; [apply dgrow_refl|]. split; auto. split.
  - intros e H _. left. exists e. auto.
  - intros t H P. left. exists t. auto.
Qed.

Lemma step2_trans : forall a b c, step2 a b -> step2 b c -> step2 a c.
Proof.
  intros a b c H1 H2 Da. destruct (H1 Da) as (Db & G1 & R1 & P1 & T1). destruct (H2 Db) as (Dc & G2 & R2 & P2 & T2).
  split; auto. split; [eapply dgrow_trans; eauto|]. split; [congruence|]. split.
  - intros e3 I3 K3. destruct (P2 _ I3 K3) as [(e2 & I2 & E2)|N]; [|right; exact N].
    rewrite <- E2 in *. destruct (P1 _ I2 K3) as [(e1 & I1 & E1)|N]; [left; exists e1; auto|].
    right. eapply durb_mono; eauto.
  - intros t3 I3 Ph3. destruct (T2 _ I3 Ph3) as [(t2 & I2 & Ph2 & K2 & V2)|N]; [|right; exact N].
    destruct (T1 _ I2 Ph2) as [(t1 & I1 & Ph1 & K1 & V1)|N].
    + left. exists t1. repeat split; auto; congruence.
    + right. rewrite <- K2, <- V2. eapply durb_mono; eauto.
Qed.

Lemma step2_win : forall st st', step2 st st' -> dur_ok st -> win_ok st -> win_ok st'.
Proof.
  intros st st' S D (U1 & U2 & U3). destruct (S D) as (D' & G & R & P & T). split; [|split].
  - intros k r H. rewrite R in H. eapply bound1_mono; eauto.
  - intros e' I K. destruct (P _ I K) as [(e & Ie & E)|N]; auto. rewrite <- E in *. eapply durb_mono; eauto.
  - intros t' I Ph. destruct (T _ I Ph) as [(t & It & Pt & Kt & Vt)|N]; auto. rewrite <- Kt, <- Vt. eapply durb_mono; eauto.
Qed.

(* functions that leave durable state and replicas alone *)
Definition calm (st st' : state) : Prop :=
  s_blobs st' = s_blobs st /\ s_dtr st' = s_dtr st /\ s_reps st' = s_reps st /\ pool_ok2 st st' /\ tasks_ok2 st st'.

Lemma calm_step2 : forall st st', calm st st' -> step2 st st'.
Proof.
  intros st st' (B & Dt & R & P & T) D. split; [|split; [|split; [|split]]]; auto.
  - destruct D as [D1 D2]. split.
    + intros b repl nt H. rewrite B in H. eauto.
    + intros b i dv hs H. rewrite Dt in H. rewrite B. eauto.
  - intros tk dv hs H. rewrite Dt. exists dv, hs. split; auto; lia.
Qed.

Lemma durb_same_dtr : forall st st' tk v, s_dtr st' = s_dtr st -> durb st tk v -> durb st' tk v.
Proof. intros st st' tk v E (dv & hs & H & L). exists dv, hs. rewrite E. auto. Qed.

Lemma calm_issue_cur : forall st r o, (is_cur_ts r -> durb st (rtk r) (k_ver r)) -> calm st (issue_cur st r o).
Proof.
  intros st r o H. repeat split; auto.
  - intros e' I K. cbn in I. apply in_app_or in I as [I|[I|[]]].
    + left. exists e'. auto.
    + subst e'. cbn in *. right. apply H in K. destruct K as (dv & hs & G & L). exists dv, hs. auto.
  - intros t I P. left. exists t. auto.
Qed.

Lemma calm_trans : forall a b c, calm a b -> calm b c -> calm a c.
Proof.
  intros a b c (B1 & D1 & R1 & P1 & T1) (B2 & D2 & R2 & P2 & T2). repeat split; try congruence.
  - intros e3 I3 K3. destruct (P2 _ I3 K3) as [(e2 & I2 & E2)|N].
    + rewrite <- E2 in *. destruct (P1 _ I2 K3) as [(e1 & I1 & E1)|N]; [left; exists e1; auto|].
      right. eapply durb_same_dtr; eauto.
    + right. exact N.
  - intros t3 I3 Ph3. destruct (T2 _ I3 Ph3) as [(t2 & I2 & Ph2 & K2 & V2)|N]; [|right; exact N].
    destruct (T1 _ I2 Ph2) as [(t1 & I1 & Ph1 & K1 & V1)|N].
    + left. exists t1. repeat split; auto; congruence.
    + right. rewrite <- K2, <- V2. eapply durb_same_dtr; eauto.
Qed.

Lemma calm_refl : forall st, calm st st.
Proof.
  intros st. repeat split; auto.
  - intros e H _. left. exists e. auto.
  - intros t H P. left. exists t. auto.
Qed.

Lemma calm_fold_issue : forall (f : Z -> rpc) o l st,
  (forall h, is_cur_ts (f h) -> durb st (rtk (f h)) (k_ver (f h))) ->
  calm st (fold_left (fun s h => issue_cur s (f h) o) l st).
Proof.
  induction l; intros st H; cbn; [apply calm_refl|].
  eapply calm_trans; [apply calm_issue_cur; auto|]. apply IHl. intros h K. specialize (H h K).
  destruct H as (dv & hs & G & L). exists dv, hs. auto.
Qed.

Lemma calm_finish_task : forall st t err, calm st (finish_task st t err).
Proof.
  intros. unfold finish_task.
  assert (TS : forall s0, tasks_ok2 st (set_tasks s0 (del_task (s_tasks st) (t_op t)))).
  { intros s0 t' I P. cbn in I. unfold del_task in I. apply filter_In in I as [I _]. left. exists t'. auto. }
  destruct (t_rpc t =? 0); cbn; repeat split; auto.
  - intros e' I K. cbn in I. apply in_map_iff in I as (x & E & Ix). left. exists x. split; auto.
    subst e'. destruct (p_owner x =? t_op t); reflexivity.
  - intros t' I P. cbn in I. unfold del_task in I. apply filter_In in I as [I _]. left. exists t'. auto.
  - intros e' I K. cbn in I. apply in_map_iff in I as (x & E & Ix). apply in_map_iff in Ix as (y & E2 & Iy).
    left. exists y. split; auto. subst e' x.
    destruct (p_owner y =? t_op t); cbn; destruct (_ =? t_rpc t); reflexivity.
  - intros t' I P. cbn in I. unfold del_task in I. apply filter_In in I as [I _]. left. exists t'. auto.
Qed.

Lemma calm_upd_task : forall st t',
  (0 < t_phase t' -> (exists t, In t (s_tasks st) /\ 0 < t_phase t /\ ttk t = ttk t' /\ t_dv t = t_dv t') \/ durb st (ttk t') (t_dv t' + 1)) ->
  calm st (set_tasks st (upd_task (s_tasks st) t')).
Proof.
  intros st t' H. repeat split; auto.
  - intros e I _. left. exists e. auto.
  - intros x I P. cbn in I. unfold upd_task in I. apply in_map_iff in I as (y & E & Iy).
    destruct (t_op y =? t_op t'); subst x; [apply H; exact P | left; exists y; auto].
Qed.

Lemma calm_activate : forall st t, calm st (activate st t).
Proof.
  intros. unfold activate.
  destruct (zget (s_blobs st) (t_blob t)) as [[repl nt]|]; [|apply calm_finish_task].
  destruct (nt <=? t_tract t); [apply calm_finish_task|].
  destruct (tget (s_dtr st) (tkey (t_blob t) (t_tract t))) as [[dv hosts]|] eqn:G; [|apply calm_finish_task].
  assert (DB : durb st (tkey (t_blob t) (t_tract t)) (dv + 1)) by (exists dv, hosts; split; auto; lia).
  destruct (t_kind t =? 5).
  - repeat match goal with |- context [if ?x then _ else _] => destruct x eqn:? end; try apply calm_finish_task.
    match goal with |- calm st (fold_left _ _ ?s1) => apply (calm_trans st s1) end; [apply calm_upd_task; intros _; right; unfold ttk; cbn; exact DB|].
    apply calm_fold_issue. intros h _. unfold rtk; cbn. exact DB.
  - repeat match goal with |- context [if ?x then _ else _] => destruct x eqn:? end; try apply calm_finish_task.
    match goal with |- calm st (fold_left _ _ ?s1) => apply (calm_trans st s1) end; [apply calm_upd_task; intros _; right; unfold ttk; cbn; exact DB|].
    apply calm_fold_issue. intros h _. unfold rtk; cbn. exact DB.
Qed.

Lemma calm_wake : forall n st, calm st (wake n st).
Proof.
  induction n; intros; [apply calm_refl|]. unfold wake; fold wake.
  destruct (find _ (s_tasks st)); [|apply calm_refl].
  eapply calm_trans; [apply calm_activate | apply IHn].
Qed.

Lemma calm_add_task : forall st t, t_phase t = 0 -> calm st (set_tasks st (s_tasks st ++ [t])).
Proof.
  intros st t P. repeat split; auto.
  - intros e I _. left. exists e. auto.
  - intros x I Px. cbn in I. apply in_app_or in I as [I|[I|[]]]; [left; exists x; auto|]. subst x. lia.
Qed.

Lemma calm_start_task : forall st t, t_phase t = 0 -> calm st (start_task st t).
Proof.
  intros st t P. unfold start_task. destruct (_ && _).
  - apply (calm_trans st (set_tasks st (s_tasks st ++ [t]))); [apply calm_add_task; auto | apply calm_finish_task].
  - apply (calm_trans st (set_tasks st (s_tasks st ++ [t]))); [apply calm_add_task; auto | apply calm_wake].
Qed.

Lemma step2_change_tract : forall st term b t v h, step2 st (fst (change_tract st term b t v h)).
Proof.
  intros. destruct (change_tract st term b t v h) as [st' c] eqn:C. cbn [fst].
  pose proof (evolves_change_tract st term b t v h) as EV. rewrite C in EV. cbn [fst] in EV.
  intros D. destruct EV as (EV & _). destruct (EV D) as [D' G]. split; auto. split; auto.
  apply change_tract_cases in C as [E|(dv & hs & G2 & V & E)]; subst; (split; [reflexivity|]); split.
  - intros e I _. left. exists e. auto.
  - intros x I P. left. exists x. auto.
  - intros e I _. left. exists e. auto.
  - intros x I P. left. exists x. auto.
Qed.

Lemma step2_task_reply : forall st op err hint, win_ok st -> step2 st (task_reply st op err hint).
Proof.
  intros st op err hint (U1 & U2 & U3). unfold task_reply.
  destruct (find_task (s_tasks st) op) as [t|] eqn:FT; [|apply step2_refl].
  assert (IT : In t (s_tasks st)).
  { clear - FT. induction (s_tasks st) as [|x l IH]; cbn in FT; [discriminate|].
    destruct (t_op x =? op); [inversion FT; left; auto | right; auto]. }
  destruct (negb (err =? cl_NoError)).
  { apply calm_step2. eapply calm_trans; [apply calm_finish_task | apply calm_wake]. }
  destruct (1 <? t_wait t) eqn:TW.
  { apply calm_step2. apply calm_upd_task. intros P. cbn in *. left. exists t. auto. }
  destruct ((t_kind t =? 5) && (t_phase t =? 1)) eqn:PH.
  - apply calm_step2.
    repeat match goal with |- context [if ?x then _ else _] => destruct x eqn:? end;
      try (eapply calm_trans; [apply calm_finish_task | apply calm_wake]).
    apply andb_true_iff in PH as [_ PH]. apply Z.eqb_eq in PH.
    assert (DB : durb st (ttk t) (t_dv t + 1)) by (apply U3; auto; lia).
    match goal with |- calm st (fold_left _ _ ?s1) => apply (calm_trans st s1) end; [apply calm_upd_task; intros _; left; exists t; cbn; repeat split; auto; lia|].
    apply calm_fold_issue. intros h _. unfold rtk; cbn. exact DB.
  - match goal with |- context [change_tract ?a ?b ?c ?d ?e ?f] =>
      pose proof (step2_change_tract a b c d e f) as H; destruct (change_tract a b c d e f) as [st1 e1] end.
    cbn [fst] in H. eapply step2_trans; [exact H|].
    apply calm_step2. eapply calm_trans; [apply calm_finish_task | apply calm_wake].
Qed.

Lemma calm_same : forall st st',
  s_blobs st' = s_blobs st -> s_dtr st' = s_dtr st -> s_reps st' = s_reps st ->
  s_pool st' = s_pool st -> s_tasks st' = s_tasks st -> calm st st'.
Proof.
  intros st st' B D R P T. repeat split; auto.
  - intros e I _. rewrite P in I. left. exists e. auto.
  - intros t I Ph. rewrite T in I. left. exists t. auto.
Qed.

Lemma calm_client_learns : forall st r res tr, calm st (client_learns st r res tr).
Proof.
  intros. apply calm_same; unfold client_learns;
    repeat match goal with
           | |- context [match ?x with _ => _ end] => destruct x eqn:?
           | |- context [if ?x then _ else _] => destruct x eqn:?
           end; reflexivity.
Qed.

Lemma calm_pool_remove : forall st id, calm st (set_pool st (pool_remove (s_pool st) id)).
Proof.
  intros. repeat split; auto.
  - intros e I _. cbn in I. unfold pool_remove in I. apply filter_In in I as [I _]. left. exists e. auto.
  - intros t I P. left. exists t. auto.
Qed.

Definition Inv2 (st : state) : Prop := Inv st /\ win_ok st.

Lemma inv2_step2 : forall st st', step2 st st' -> Inv st' -> Inv2 st -> Inv2 st'.
Proof. intros st st' S I' [[D K] W]. split; auto. eapply step2_win; eauto. Qed.

Lemma step2_resume : forall st e d h, win_ok st -> step2 st (resume st e d h).
Proof.
  intros st e d h W. unfold resume.
  set (st1 := set_pool st (pool_remove (s_pool st) (p_id e))).
  assert (C1 : calm st st1) by apply calm_pool_remove.
  intros D.
  assert (W1 : win_ok st1) by (eapply step2_win; [apply calm_step2; exact C1 | exact D | exact W]).
  revert D. apply (step2_trans st st1); [apply calm_step2; exact C1|].
  destruct (k_cli (p_rpc e) <? 0).
  - destruct (p_owner e =? 0); [apply step2_refl | now apply step2_task_reply].
  - set (st2 := if k_kind (p_rpc e) =? K_FixVersion then set_done st1 _ else st1).
    assert (C2 : calm st1 st2) by (unfold st2; destruct (k_kind (p_rpc e) =? K_FixVersion); [apply calm_same; reflexivity | apply calm_refl]).
    apply (step2_trans st1 st2); [apply calm_step2; exact C2|].
    destruct d; [apply calm_step2, calm_client_learns | apply step2_refl].
Qed.

Lemma inv2_resume : forall st e d h,
  Inv2 st -> tr_bound st (k_blob (p_rpc e)) (p_tr e) -> Inv2 (resume st e d h).
Proof.
  intros st e d h [I W] TB. destruct (inv_resume st e d h I TB) as [I' _].
  eapply inv2_step2; [apply step2_resume; exact W | exact I' | split; auto].
Qed.

Lemma inv2_flush : forall n st h, Inv2 st -> Inv2 (flush n st h).
Proof.
  induction n; intros st h I2; [exact I2|].
  unfold flush; fold flush.
  destruct (find _ (s_pool st)) as [e|] eqn:F; [|exact I2].
  apply find_some in F as [F _]. apply IHn. apply inv2_resume; auto.
  intros x Hx. destruct I2 as [[_ (_ & _ & K3)] _]. now apply K3.
Qed.

Lemma inv2_fold_victims : forall victims s,
  Inv2 s -> (forall x, In x victims -> tr_bound s (k_blob (p_rpc x)) (p_tr x)) ->
  Inv2 (fold_left (fun s x => flush 8 (resume s x false []) []) victims s).
Proof.
  induction victims as [|v victims IH]; intros s I2 H; cbn [fold_left]; [exact I2|].
  pose proof (inv2_resume s v false [] I2 (H v (or_introl eq_refl))) as I3.
  pose proof (inv2_flush 8 _ [] I3) as I4.
  apply IH; auto.
  intros x Hx y Hy. destruct I2 as [I W]. pose proof I as [D _].
  destruct (inv_resume s v false [] I (H v (or_introl eq_refl))) as [I1 A1].
  destruct (inv_flush 8 _ [] I1) as [_ A2].
  apply (bound_advances s); [apply (advances_trans s (resume s v false [])); auto | exact D | apply (H x (or_intror Hx) y Hy)].
Qed.

Lemma exec_tasks : forall st e oracle st' res tr, exec_rpc st e oracle = (st', res, tr) -> s_tasks st' = s_tasks st.
Proof.
  intros st e oracle st' res tr H. unfold exec_rpc in H.
  repeat match type of H with
         | context [let '(_, _) := ?x in _] => destruct x eqn:?
         | context [match ?x with _ => _ end] => destruct x eqn:?
         | context [if ?x then _ else _] => destruct x eqn:?
         end; inversion H; subst; try reflexivity;
  match goal with
  | A : ack_extend _ _ _ = (_, _) |- _ =>
      unfold ack_extend in A;
      repeat match type of A with
             | context [match ?x with _ => _ end] => destruct x eqn:?
             | context [if ?x then _ else _] => destruct x eqn:?
             end; inversion A; subst; reflexivity
  end.
Qed.

Lemma win_exec : forall st e oracle st' res tr,
  Inv2 st -> In e (s_pool st) -> exec_rpc st e oracle = (st', res, tr) -> win_ok st'.
Proof.
  intros st e oracle st' res tr [I (U1 & U2 & U3)] IN X.
  destruct (inv_exec _ _ _ _ _ _ I X) as (EV & P & _).
  pose proof (exec_tasks _ _ _ _ _ _ X) as T.
  pose proof I as [D _]. destruct EV as (EV & _). destruct (EV D) as [D' G].
  destruct (exec_vrel _ _ _ _ _ _ X) as [V VO].
  split; [|split].
  - intros k r' H. destruct (V _ _ H) as [(r & Gr & E)|[Ek Ev]].
    + rewrite E. eapply bound1_mono; eauto.
    + subst k. unfold rpc_key_of in *. cbn [snd].
      destruct (Z.eq_dec (k_kind (p_rpc e)) K_Create) as [KC|KC].
      * rewrite Ev. unfold newver. rewrite KC. cbn.
        unfold bound1. destruct (tget (s_dtr st') _) as [[dv hs]|] eqn:GG; [|lia].
        destruct D' as [_ D2]. unfold tkey in GG. destruct (D2 _ _ _ _ GG). lia.
      * assert (NV : newver (p_rpc e) = k_ver (p_rpc e)).
        { unfold newver. destruct (k_kind (p_rpc e) =? K_Create) eqn:Q; auto. apply Z.eqb_eq in Q. contradiction. }
        destruct (Z.eq_dec (k_kind (p_rpc e)) K_SetVersion) as [KS|KS];
          [|destruct (Z.eq_dec (k_kind (p_rpc e)) K_PullTract) as [KP|KP]].
        -- rewrite Ev, NV. apply durb_bound1. eapply durb_mono; eauto. apply U2; auto. left; auto.
        -- rewrite Ev, NV. apply durb_bound1. eapply durb_mono; eauto. apply U2; auto. right; auto.
        -- destruct (VO KC KS KP _ _ H) as (r & Gr & E). rewrite E. eapply bound1_mono; eauto. apply (U1 _ _ Gr).
  - intros e' I' K. rewrite P in I'. eapply durb_mono; eauto.
  - intros t I' Ph. rewrite T in I'. eapply durb_mono; eauto.
Qed.

Lemma win_pool_update : forall st e stt res tr lose auto,
  win_ok st -> In e (s_pool st) ->
  win_ok (set_pool st (pool_update (s_pool st) (set_pent e stt res tr lose auto))).
Proof.
  intros st e stt res tr lose auto (U1 & U2 & U3) IN. split; [exact U1|]. split; [|exact U3].
  intros e' H K. cbn [s_pool set_pool] in H. unfold pool_update in H. apply in_map_iff in H as (x & E & Ix).
  destruct (p_id x =? p_id (set_pent e stt res tr lose auto)); subst e'; [cbn in *; now apply U2 | now apply U2].
Qed.

Lemma rpc_line_inj : forall a b, rpc_line a = rpc_line b -> a = b.
Proof.
  intros [a1 a2 a3 a4 a5 a6 a7 a8 a9 a10 a11] [b1 b2 b3 b4 b5 b6 b7 b8 b9 b10 b11] H.
  unfold rpc_line in H. cbn in H. injection H. intros. subst. reflexivity.
Qed.

Lemma find_pent_eq : forall pool rp w e, find_pent pool rp w = Some e -> p_rpc e = rp.
Proof. intros. apply rpc_line_inj. eapply find_pent_rpc; eauto. Qed.

Lemma inv2_calm : forall st st', calm st st' -> Inv st' -> Inv2 st -> Inv2 st'.
Proof. intros. eapply inv2_step2; eauto. now apply calm_step2. Qed.

Lemma new_task_phase : forall a b c d e f g h i j, t_phase (new_task a b c d e f g h i j) = 0.
Proof. reflexivity. Qed.

Lemma inv2_step_exec : forall st mode r, Inv2 st -> Inv2 (fst (step_exec st mode r)).
Proof.
  intros st mode r I2. pose proof I2 as [I W]. pose proof (inv_step_exec st mode r I) as IR.
  split; [exact IR|]. clear IR. unfold step_exec.
  destruct (parse_rpc r) as [[rp r1]|]; [|exact W].
  destruct r1 as [|nh r2]; [exact W|].
  destruct (take nh r2) as [place r3].
  destruct (find_pent (s_pool st) rp 0) as [e|] eqn:F; [|exact W].
  pose proof (find_pent_eq _ _ _ _ F) as ERP. apply find_pent_in in F.
  assert (TB : tr_bound st (k_blob (p_rpc e)) (p_tr e)) by (intros x Hx; destruct I as [_ (_ & _ & K3)]; now apply K3).
  set (hint := place ++ [-1] ++ match r3 with nd :: r4 => fst (take nd r4) | [] => [] end).
  destruct (mode =? 4).
  { cbn [fst]. apply inv2_flush. now apply inv2_resume. }
  destruct (mode =? 6).
  { destruct (negb (k_kind rp =? K_PullTract)) eqn:KP; [exact W|]. cbn [fst].
    apply negb_false_iff in KP. apply Z.eqb_eq in KP.
    match goal with |- context [set_reps st ?x] => set (reps' := x); set (st1 := set_reps st reps') end.
    assert (I1 : Inv st1) by (apply (inv_quiet st); [apply quiet_set_reps | exact I]).
    assert (W1 : win_ok st1).
    { destruct W as (U1 & U2 & U3). split; [|split; [exact U2|exact U3]].
      intros k r' H. cbn [s_reps set_reps st1] in H. unfold reps' in H.
      destruct (k_ts rp =? aux_nth rp 0); [|exact (U1 _ _ H)].
      destruct (pull_crash_vrel _ _ _ _ _ _ _ _ H) as [(r0 & G0 & E0)|[Ek Ev]].
      - rewrite E0. exact (U1 _ _ G0).
      - subst k. rewrite Ev. cbn [snd]. apply durb_bound1. rewrite <- ERP. apply U2; auto. right. rewrite ERP. exact KP. }
    assert (TB1 : tr_bound st1 (k_blob (p_rpc e)) (p_tr e)) by exact TB.
    pose proof (inv2_resume st1 e false hint (conj I1 W1) TB1) as J2.
    pose proof (inv2_flush 8 _ hint J2) as J3.
    apply inv2_fold_victims; [exact J3 | apply victims_bound; exact (proj1 J3)]. }
  destruct (k_kind rp =? K_FixVersion).
  { cbn [fst].
    set (sa := set_pool st (pool_update (s_pool st) (set_pent e 1 [] [] (mode =? 2) (negb (mode =? 5))))).
    assert (Ja : Inv2 sa) by (split; [apply inv_pool_update; auto using tr_bound_nil | apply win_pool_update; auto]).
    set (sb := set_nsynth sa (s_nsynth st + 1)).
    assert (Jb : Inv2 sb) by exact Ja.
    apply inv2_flush. eapply inv2_calm; [apply calm_start_task; apply new_task_phase | | exact Jb].
    apply (inv_quiet sb); [apply quiet_start_task | exact (proj1 Jb)]. }
  destruct (exec_rpc st e place) as [[st1 res] tr] eqn:X1.
  destruct (inv_exec _ _ _ _ _ _ I X1) as (E1 & P1 & T1).
  assert (J1 : Inv2 st1) by (split; [eapply evolves_inv; eauto | eapply win_exec; eauto]).
  destruct (mode =? 3).
  - destruct (exec_rpc st1 e place) as [[st1b res2] tr2] eqn:X2. cbn [fst].
    destruct (inv_exec _ _ _ _ _ _ (proj1 J1) X2) as (E2 & P2 & T2).
    assert (F1 : In e (s_pool st1)) by (rewrite P1; exact F).
    assert (J2 : Inv2 st1b) by (split; [eapply evolves_inv; [exact E2|exact (proj1 J1)] | eapply win_exec; eauto]).
    apply inv2_flush. split.
    + apply inv_pool_update; [exact (proj1 J2) | rewrite P2; exact F1 |].
      intros x Hx. destruct J1 as [[D1 _] _]. eapply bound_advances; [apply evolves_advances; exact E2 | exact D1 | apply (T1 _ Hx)].
    + apply win_pool_update; [exact (proj2 J2) | rewrite P2; exact F1].
  - cbn [fst]. apply inv2_flush. split.
    + apply inv_pool_update; [exact (proj1 J1) | rewrite P1; exact F | exact T1].
    + apply win_pool_update; [exact (proj2 J1) | rewrite P1; exact F].
Qed.

Lemma client_kind_not_cur : forall r, client_kind (k_kind r) = true -> ~ is_cur_ts r.
Proof.
  intros r H [K|K]; rewrite K in H; cbn in H; discriminate.
Qed.

(* one event that is not an injected probe keeps the combined invariant *)
Theorem inv2_step : forall st ev, hd 0 ev <> 17 -> Inv2 st -> Inv2 (fst (step st ev)).
Proof.
  intros st ev NI J0. pose proof (inv_step st ev (proj1 J0)) as IS. split; [exact IS|]. clear IS.
  unfold step.
  assert (J : Inv2 (set_out st [])) by exact J0. clear J0. set (s := set_out st []) in *. clearbody s.
  pose proof J as [I W].
  destruct ev as [|c a]; [exact W|]. cbn [hd] in NI.
  destruct (c =? 1). { destruct a; exact W. }
  destruct (c =? 2). { destruct a as [|x [|y [|z a]]]; try exact W. destruct (zget (s_blobs s) x); exact W. }
  destruct (c =? 3). { destruct a as [|x1 [|x2 [|x3 [|x4 [|x5 [|x6 [|x7 a]]]]]]]; exact W. }
  destruct (c =? 4). { destruct a as [|x1 [|x2 [|x3 [|x4 [|x5 [|x6 a]]]]]]; exact W. }
  destruct (c =? 5).
  { destruct a as [|x1 [|x2 [|x3 [|x4 [|x5 a]]]]]; try exact W.
    destruct (take x5 a) as [bad rest]. cbn [fst]. apply inv2_flush.
    eapply inv2_calm; [apply calm_start_task; apply new_task_phase | | exact J].
    apply (inv_quiet s); [apply quiet_start_task | exact I]. }
  destruct (c =? 6).
  { destruct a as [|x1 [|x2 [|x3 [|x4 [|x5 [|x6 [|x7 a]]]]]]]; try exact W. cbn [fst]. apply inv2_flush.
    eapply inv2_calm; [apply calm_start_task; apply new_task_phase | | exact J].
    apply (inv_quiet s); [apply quiet_start_task | exact I]. }
  destruct (c =? 7). { destruct a as [|mode rest]; [exact W|]. now apply inv2_step_exec. }
  destruct (c =? 8).
  { destruct a as [|lose r]; [exact W|]. unfold step_reply.
    destruct (parse_rpc r) as [[rp r1]|]; [|exact W].
    destruct (find_pent (s_pool s) rp 2) as [e|] eqn:F; [|exact W].
    apply find_pent_in in F. cbn [fst]. apply inv2_flush. apply inv2_resume; auto.
    intros x Hx. destruct I as [_ (_ & _ & K3)]. now apply K3. }
  destruct (c =? 9).
  { destruct a as [|ts [|y a]]; try exact W. unfold step_restart. cbn [fst].
    apply inv2_fold_victims; [exact J | apply victims_bound; exact I]. }
  destruct (c =? 10). { destruct a; exact W. }
  destruct (c =? 11). { destruct a as [|ts [|y a]]; exact W. }
  destruct (c =? 12).
  { destruct a as [|x1 [|x2 [|x3 [|x4 [|x5 a]]]]]; try exact W. unfold step_probe.
    destruct (tget (s_dtr s) (tkey x1 x2)) as [[ver hosts]|]; [|exact W].
    destruct ((x3 =? 1) && (x4 =? 0)); [exact W|].
    match goal with |- context [change_tract ?a ?b ?c ?d ?e ?f] =>
      pose proof (step2_change_tract a b c d e f) as H; destruct (change_tract a b c d e f) end.
    cbn [fst] in *. eapply step2_win; [exact H | exact (proj1 I) | exact W]. }
  destruct (c =? 13).
  { unfold step_issue. destruct (parse_rpc a) as [[rp r1]|]; [|exact W].
    destruct (issue_allowed s rp) eqn:A; [|exact W]. cbn [fst].
    destruct W as (U1 & U2 & U3). split; [exact U1|]. split; [|exact U3].
    intros e H K. cbn in H. apply in_app_or in H as [H|[H|[]]]; [now apply U2|]. subst e. cbn in K.
    exfalso. unfold issue_allowed in A. apply andb_true_iff in A as [A _]. apply andb_true_iff in A as [_ A].
    exact (client_kind_not_cur rp A K). }
  destruct (c =? 14).
  { destruct a as [|x1 [|x2 [|x3 a]]]; try exact W. unfold step_finclient.
    repeat match goal with
           | |- context [match ?x with _ => _ end] => destruct x eqn:?
           | |- context [if ?x then _ else _] => destruct x eqn:?
           end; exact W. }
  destruct (c =? 15). { destruct a as [|op [|y a]]; try exact W. destruct (zget (s_fin s) op); exact W. }
  destruct (c =? 16).
  { unfold step_rpcdone. repeat match goal with
                                | |- context [match ?x with _ => _ end] => destruct x eqn:?
                                end; exact W. }
  destruct (c =? 17) eqn:C17. { apply Z.eqb_eq in C17. contradiction. }
  exact W.
Qed.

Lemma inv2_init : Inv2 init_state.
Proof.
  split; [exact inv_init|]. split; [|split]; cbn; intros; try discriminate; try contradiction.
Qed.

Definition no_inject (evs : list (list Z)) : Prop := forall ev, In ev evs -> hd 0 ev <> 17.

Theorem inv2_reachable : forall evs st, no_inject evs -> Inv2 st -> Inv2 (run_state st evs).
Proof.
  induction evs as [|ev evs IH]; intros st NI J; cbn; auto.
  apply IH; [intros x Hx; apply NI; right; exact Hx|]. apply inv2_step; auto. apply NI. left. reflexivity.
Qed.

(* host_version_window, upper half: no replica of a durable tract is more than one version ahead of the
   durable record; a replica of a tract that is not durable yet is at version 1 at most *)
Theorem replica_at_most_one_ahead : forall evs ts tk r,
  no_inject evs ->
  let st := run_state init_state evs in
  rget (s_reps st) (ts, tk) = Some r ->
  match tget (s_dtr st) tk with Some (dv, _) => r_ver r <= dv + 1 | None => r_ver r <= 1 end.
Proof.
  intros evs ts tk r NI st G. pose proof (inv2_reachable evs init_state NI inv2_init) as [_ (U1 & _)].
  exact (U1 _ _ G).
Qed.
