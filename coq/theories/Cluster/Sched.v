(* Cluster/Sched.v — the schedules the visibility theorems of C01 quantify over, as a decidable predicate.
   ok_ev L st ev = true  iff  event ev is admissible in state st at ladder level L:
     L = 1  no lost or duplicated replies, no failed requests, no restart, no crash, no leader change
            (re-replication, fixVersion, delayed replies, stale caches, probes of ChangeTract allowed);
     L = 2  + lost replies, requests executed twice, requests failed without executing;
     L = 3  + tractserver restart;
     L = 4  + leader change.
   At every level:
     - the single-writer discipline of the property (one write at a time, started with a fresh, larger write id,
       non-empty, an operation ends only after all its data RPCs came back, one operation per client at a time);
     - what the real client does and the model's V_ISSUE leaves open: a Write is justified by a location entry
       obtained from GetTracts; a Create reaches a tractserver only while its tract is not durable yet; an
       AckExtend names the consecutive tracts ExtendBlob handed out and hosts that all accepted the creating
       write's part of the tract;
     - a curator task is started under a fresh positive id;
     - no injected probe RPC (event 17);
     - the F21 carve-out: no SUPERSEDED PullTract takes effect, i.e. no PullTract whose requested version is
       already committed (<= the durable version) executes at a server whose copy is absent or at a version
       <= the requested one (the only case in which pullTractOnce touches the local copy);
     - no crash in the middle of PullTract (open case, see notes/C01.md). *)
From Coq Require Import List ZArith Bool Lia.
From BLB Require Import Gen.Consts Cluster.Model.
Import ListNotations.
Open Scope Z_scope.

Definition hosts_of (st : state) (tk : tkt) : list Z :=
  match tget (s_dtr st) tk with Some (_, hs) => hs | None => [] end.
Definition durable (st : state) (tk : tkt) : bool :=
  match tget (s_dtr st) tk with Some _ => true | None => false end.

Definition data_kind (k : Z) : bool := (k =? K_Write) || (k =? K_Create) || (k =? K_Read).

Definition pending_data (st : state) (cli : Z) : bool :=
  existsb (fun e => (k_cli (p_rpc e) =? cli) && data_kind (k_kind (p_rpc e))) (s_pool st).

Definition write_in_progress (st : state) : bool := existsb (fun o => o_kind o =? 3) (s_ops st).

(* a Write must rest on an entry that came from GetTracts *)
Definition write_justified (st : state) (r : rpc) : bool :=
  existsb (fun ke => (ke_cli ke =? k_cli r) && tk_eqb (ke_tk ke) (tkey (k_blob r) (k_tract r)) &&
                     (ke_ver ke =? k_ver r) && zmem (k_ts r) (ke_addr ke) && ke_durable ke) (s_know st).

(* the tract list of an AckExtend is the consecutive run ExtendBlob handed out *)
Fixpoint consec (n : Z) (trs : list (Z * Z * list (Z * Z))) : bool :=
  match trs with
  | [] => true
  | (idx, _, _) :: l => (idx =? n) && consec (n + 1) l
  end.
Definition first_idx (trs : list (Z * Z * list (Z * Z))) : Z := match trs with (f, _, _) :: _ => f | [] => 0 end.

(* every host named by an AckExtend accepted the creating write's part of the tract (if it has one) *)
Definition ackext_strict (st : state) (r : rpc) : bool :=
  match op_of_client (s_ops st) (k_cli r) with
  | None => false
  | Some o =>
      consec (first_idx (decode_tracts false (k_aux r))) (decode_tracts false (k_aux r)) &&
      forallb (fun '(idx, _, hs) =>
                 let '(toff, tlen) := seg_of (o_off o) (o_len o) idx in
                 (tlen <=? 0) ||
                 forallb (fun '(h, _) => succ_mem (tkey (k_blob r) idx, h, 1, toff, tlen) (o_succ o)) hs)
              (decode_tracts false (k_aux r))
  end.

(* an RPC of the client still under way, other than the two the client sends without waiting (FixVersion, ReportBadTS) *)
Definition sync_kind (k : Z) : bool := negb ((k =? K_FixVersion) || (k =? K_ReportBadTS)).
Definition client_busy (st : state) (cli : Z) : bool :=
  existsb (fun e => (k_cli (p_rpc e) =? cli) && sync_kind (k_kind (p_rpc e))) (s_pool st).

(* a superseded pull (its version is committed already) that would touch the local copy *)
Definition stale_pull (st : state) (r : rpc) : bool :=
  let tk := tkey (k_blob r) (k_tract r) in
  match tget (s_dtr st) tk with
  | None => false
  | Some (dv, _) =>
      (k_ver r <=? dv) &&
      match rget (s_reps st) (k_ts r, tk) with
      | None => true
      | Some rp => r_ver rp <=? k_ver r
      end
  end.

Definition mode_ok (L mode : Z) : bool :=
  if L <=? 1 then (mode =? 1) || (mode =? 5) else (1 <=? mode) && (mode <=? 5).

Definition ok_ev (L : Z) (st : state) (ev : list Z) : bool :=
  match ev with
  | [] => true
  | c :: a =>
      if c =? 3 then
        match a with
        | [op; cli; blob; off; len; wid] =>
            negb (write_in_progress st) &&
            match find_op (s_ops st) op with None => true | Some _ => false end &&
            match op_of_client (s_ops st) cli with None => true | Some _ => false end &&
            forallb (fun '(_, w, _) => w <? wid) (s_att st) && (0 <? wid) && (0 <=? off) && (0 <? len) && (0 <=? cli)
        | _ => true
        end
      else if c =? 4 then
        match a with
        | [op; cli; blob; off; len] =>
            match find_op (s_ops st) op with None => true | Some _ => false end &&
            match op_of_client (s_ops st) cli with None => true | Some _ => false end
        | _ => true
        end
      else if (c =? 5) || (c =? 6) then
        match a with
        | op :: _ => (0 <? op) && match find_task (s_tasks st) op with None => true | Some _ => false end
        | [] => true
        end
      else if c =? 7 then
        match a with
        | mode :: r =>
            match parse_rpc r with
            | None => true
            | Some (rp, _) =>
                match find_pent (s_pool st) rp 0 with
                | None => true
                | Some e =>
                    mode_ok L mode &&
                    (if k_kind rp =? K_Create then (mode =? 4) || negb (durable st (tkey (k_blob rp) (k_tract rp))) else true) &&
                    (if k_kind rp =? K_PullTract then (mode =? 4) || negb (stale_pull st rp) else true)
                end
            end
        | [] => true
        end
      else if c =? 8 then
        match a with lose :: _ => (2 <=? L) || (lose =? 0) | [] => true end
      else if c =? 9 then 3 <=? L
      else if c =? 10 then 4 <=? L
      else if c =? 13 then
        match parse_rpc a with
        | None => true
        | Some (rp, _) =>
            if issue_allowed st rp then
              (if k_kind rp =? K_Write then write_justified st rp else true) &&
              (if k_kind rp =? K_AckExtend then ackext_strict st rp else true)
            else true
        end
      else if c =? 14 then
        match a with
        | op :: _ => match find_op (s_ops st) op with Some o => negb (client_busy st (o_cli o)) | None => true end
        | [] => true
        end
      else if c =? 17 then false
      else true
  end.

Fixpoint ok_run (L : Z) (st : state) (evs : list (list Z)) : bool :=
  match evs with
  | [] => true
  | ev :: r => ok_ev L st ev && ok_run L (fst (step st ev)) r
  end.

Lemma mode_ok_mono : forall L L' m, L <= L' -> mode_ok L m = true -> mode_ok L' m = true.
Proof.
  intros L L' m H. unfold mode_ok.
  destruct (L <=? 1) eqn:A; destruct (L' <=? 1) eqn:A'; auto.
  - intro M. apply orb_true_iff in M as [M|M]; apply Z.eqb_eq in M; subst; reflexivity.
  - apply Z.leb_gt in A. apply Z.leb_le in A'. lia.
Qed.

Lemma busy_pending : forall st cli, client_busy st cli = false -> pending_data st cli = false.
Proof.
  intros st cli H. unfold client_busy, pending_data in *. induction (s_pool st) as [|e l IH]; cbn in *; auto.
  apply orb_false_iff in H as [H1 H2]. rewrite (IH H2), orb_false_r.
  destruct (k_cli (p_rpc e) =? cli); auto. cbn in *. unfold sync_kind in H1. unfold data_kind.
  destruct (k_kind (p_rpc e) =? K_Write) eqn:A; [apply Z.eqb_eq in A; rewrite A in H1; discriminate|].
  destruct (k_kind (p_rpc e) =? K_Create) eqn:B; [apply Z.eqb_eq in B; rewrite B in H1; discriminate|].
  destruct (k_kind (p_rpc e) =? K_Read) eqn:C; [apply Z.eqb_eq in C; rewrite C in H1; discriminate|]. reflexivity.
Qed.

(* lower half of the host version window as a state check: no durable host holds a copy older than the
   durable version (interim hypothesis of the visibility theorems; see notes) *)
Definition hv_ok (st : state) : bool :=
  forallb (fun '(tk, (dv, hs)) =>
             forallb (fun h => match rget (s_reps st) (h, tk) with None => true | Some r => dv <=? r_ver r end) hs)
          (s_dtr st).

(* a SetVersion to the version after the durable one is addressed to a durable host *)
Definition ps_ok (st : state) : bool :=
  forallb (fun e => if k_kind (p_rpc e) =? K_SetVersion then
                      match tget (s_dtr st) (tkey (k_blob (p_rpc e)) (k_tract (p_rpc e))) with
                      | Some (dv, H) => negb (k_ver (p_rpc e) =? dv + 1) || zmem (k_ts (p_rpc e)) H
                      | None => true
                      end else true) (s_pool st).

Definition lw_ok (st : state) : bool := hv_ok st && ps_ok st.

Fixpoint lw_run (st : state) (evs : list (list Z)) : bool :=
  lw_ok st && match evs with [] => true | ev :: r => lw_run (fst (step st ev)) r end.

(* ------------------------------------------------------------------ level 5: a crash in the middle of PullTract *)
(* The crash leaves an empty copy that already carries the pulled version.  It is admissible when the target is
   not a durable host and nobody counts it as pulled at that version: no completed pull to it whose reply is still
   under way, and no task that has consumed such a reply (a task counts the server as pulled once it is in t_new
   and the task no longer owns a PullTract for it).  Levels 1-4 (ok_ev, ok_run) are unchanged; level 5 is
   ok_ev5 = ok_ev 4 or an admissible crash event. *)
Definition pl_rpc (t : task) (n : Z) : rpc := mk_pull (t_gen t) n (t_blob t) (t_tract t) (t_dv t + 1) (t_ok t).
Definition owns_b (st : state) (op : Z) (r : rpc) : bool :=
  existsb (fun e => (p_owner e =? op) && rpc_eqb (p_rpc e) r) (s_pool st).
Definition pull_ok_b (st : state) (tk : tkt) (v g : Z) : bool :=
  existsb (fun e => (k_kind (p_rpc e) =? K_PullTract) && (p_st e =? 2) && (hd 0 (p_res e) =? cl_NoError) &&
                    (k_ts (p_rpc e) =? g) && tk_eqb (tkey (k_blob (p_rpc e)) (k_tract (p_rpc e))) tk && (k_ver (p_rpc e) =? v)) (s_pool st).
Definition counted_b (st : state) (tk : tkt) (v g : Z) : bool :=
  existsb (fun t => tk_eqb (tkey (t_blob t) (t_tract t)) tk && (t_dv t + 1 =? v) && (t_phase t =? 2) && zmem g (t_new t) &&
                    negb (owns_b st (t_op t) (pl_rpc t g))) (s_tasks st).
Definition crash_safe (st : state) (r : rpc) : bool :=
  let tk := tkey (k_blob r) (k_tract r) in
  match tget (s_dtr st) tk with
  | Some (_, H) => negb (zmem (k_ts r) H) && negb (pull_ok_b st tk (k_ver r) (k_ts r)) && negb (counted_b st tk (k_ver r) (k_ts r))
  | None => true
  end.
Definition crash_ev (st : state) (ev : list Z) : bool :=
  match ev with
  | c :: mode :: r =>
      (c =? 7) && (mode =? 6) &&
      match parse_rpc r with
      | Some (rp, _) =>
          match find_pent (s_pool st) rp 0 with
          | Some _ => (k_kind rp =? K_PullTract) && negb (stale_pull st rp) && crash_safe st rp
          | None => false
          end
      | None => false
      end
  | _ => false
  end.
Definition ok_ev5 (st : state) (ev : list Z) : bool := ok_ev 4 st ev || crash_ev st ev.
Fixpoint ok_run5 (st : state) (evs : list (list Z)) : bool :=
  match evs with
  | [] => true
  | ev :: r => ok_ev5 st ev && ok_run5 (fst (step st ev)) r
  end.
