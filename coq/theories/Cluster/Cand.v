(* Cluster/Cand.v — the containment invariants over candidate copies (Prov.cur5): a copy one version ahead is
   current only if it is a durable host or a completed pull put it there.  Same structure as Contain.v; the replica
   steps now include a crash in the middle of PullTract, which leaves an empty copy that is not a candidate. *)
From Coq Require Import List ZArith Bool Lia.
From BLB Require Import Gen.Consts Cluster.Model Cluster.Proofs Cluster.Frame Cluster.Inv Cluster.Window
     Cluster.Attempts Cluster.Sched Cluster.Order Cluster.Contain Cluster.Visible Cluster.Lower Cluster.Prov.
Import ListNotations.
Open Scope Z_scope.

Definition cV15 (st : state) : Prop :=
  forall b wid W j dv H g r, In (b, wid, W) (s_acked st) -> tget (s_dtr st) (b, j) = Some (dv, H) ->
    rget (s_reps st) (g, (b, j)) = Some r -> cur5 st (b, j) dv H g r -> 0 < snd (seg_of (w_off W) (w_len W) j) ->
    In (rec_in wid W j) (r_app r).

Definition cQ5 (st : state) : Prop :=
  forall cli tk v Hk dv H g r oo, vkx st cli tk v Hk -> (1 <= v \/ Hk <> []) -> tget (s_dtr st) tk = Some (dv, H) ->
    rget (s_reps st) (g, tk) = Some r -> cur5 st tk dv H g r -> oo_ok st cli tk oo ->
    has oo tk r \/ exists h, In h Hk /\ nacc st oo tk h v /\ stuck st tk g r h v.

Definition cQA5 (st : state) : Prop :=
  forall o tk, wop st o -> fst tk = o_blob o -> ackx st o tk ->
    exists dv H, tget (s_dtr st) tk = Some (dv, H) /\
      (0 < snd (segl o (snd tk)) -> forall g r, rget (s_reps st) (g, tk) = Some r -> cur5 st tk dv H g r -> In (orec o (snd tk)) (r_app r)).

Definition cinv5 (st : state) : Prop := cV15 st /\ cS st /\ cQ5 st /\ cQA5 st /\ cK0 st /\ cPA st /\ cAD st.

Lemma cur_back5 : forall st st' tk dv H dv' H' g r,
  win_ok st -> mach st st' -> cb st st' ->
  tget (s_dtr st) tk = Some (dv, H) -> tget (s_dtr st') tk = Some (dv', H') ->
  rget (s_reps st) (g, tk) = Some r -> cur5 st' tk dv' H' g r ->
  cur5 st tk dv H g r /\ (dv' = dv /\ H' = H \/ dv' = dv + 1 /\ r_ver r = dv + 1 /\ In g H').
Proof.
  intros st st' tk dv H dv' H' g r Wn M (_ & _ & CB) E E' G Cu.
  destruct (cur_back _ _ _ _ _ _ _ _ _ Wn M E E' G (cur5_curv _ _ _ _ _ _ Cu)) as [_ CASE]. split; [|exact CASE].
  destruct Wn as (U1 & _). specialize (U1 _ _ G). unfold bound1 in U1. cbn in U1. rewrite E in U1.
  eapply CB; eauto.
Qed.

Lemma cinv5_mach : forall st st', Inv2 st -> dur_ok st' -> cinv5 st -> mach st st' -> cb st st' -> cinv5 st'.
Proof.
  intros st st' [[Ds Ks] W] Ds' (V1 & S & Q & QA & K0 & PA & AD) M CB.
  pose proof M as (R & A & D & E & O & C & VK & P).
  assert (DG : dgrow st st').
  { intros tk dv H X. destruct (D _ _ _ X) as (dv' & H' & X' & L & _). eauto. }
  split; [|split; [|split; [|split; [|split; [|split]]]]].
  - (* V1 *)
    intros b wid W0 j dv' H' g r IA E' G Cu Ln. rewrite A in IA. rewrite R in G.
    destruct (E _ _ _ E') as (dv & H & E0).
    destruct (cur_back5 _ _ _ _ _ _ _ _ _ W M CB E0 E' G Cu) as [Cu0 _]. eapply V1; eauto.
  - (* S *)
    intros o' tk h v [I K] B Ln AC. destruct (O _ I) as (o & Io & Sg & AB & _).
    pose proof (opsig_fields _ _ Sg) as (_ & Sk & _ & Sb & _).
    assert (WO : wop st o) by (split; auto; congruence).
    rewrite <- (segl_sig _ _ _ Sg) in Ln. rewrite <- (orec_sig _ _ _ Sg).
    destruct (S o tk h v WO ltac:(congruence) Ln (AB _ _ _ AC)) as (Bd & Pr & Rp). split; [|split].
    + eapply bound_mono; eauto.
    + intros N. rewrite R. apply Pr. destruct (tget (s_dtr st) tk) as [[dv0 H0]|] eqn:E0; auto.
      destruct (D _ _ _ E0) as (dv' & H' & E' & _). congruence.
    + intros r G. rewrite R in G. auto.
  - (* Q *)
    intros cli tk v Hk dv' H' g r oo' VX V1' E' G Cu OK. rewrite R in G.
    destruct (E _ _ _ E') as (dv & H & E0).
    destruct (cur_back5 _ _ _ _ _ _ _ _ _ W M CB E0 E' G Cu) as [Cu0 CASE].
    destruct (oo_back _ _ _ _ _ M OK) as (oo & OK0 & HS & NA).
    assert (STK : forall h, stuck st tk g r h v -> stuck st' tk g r h v).
    { intros h X. unfold stuck. rewrite R. exact X. }
    destruct VX as [VX|VX].
    + (* a real entry: it was there before *)
      apply VK in VX. pose proof (vk_bound _ _ _ _ _ Ks VX) as Bd. unfold bound in Bd. rewrite E0 in Bd.
      destruct (Q cli tk v Hk dv H g r oo (or_introl VX) V1' E0 G Cu0 OK0) as [X|(h & Ih & N & St)].
      * left. now apply HS.
      * right. exists h. repeat split; auto.
    + (* the durable record itself *)
      rewrite E' in VX. inversion VX; subst v Hk. destruct CASE as [[X1 X2]|(X1 & X2 & X3)].
      * subst dv' H'. destruct (Q cli tk dv H dv H g r oo (or_intror E0) V1' E0 G Cu0 OK0) as [X|(h & Ih & N & St)].
        -- left. now apply HS.
        -- right. exists h. repeat split; auto.
      * (* just committed: nobody can have written at the new version *)
        subst dv'. destruct oo' as [o'|].
        -- right. exists g. split; [exact X3|]. split.
           ++ cbn. intro AC. destruct OK as ([I K] & Cc & B & Ln). destruct (O _ I) as (o & Io & Sg & AB & _).
              pose proof (opsig_fields _ _ Sg) as (_ & Sk & _ & Sb & _).
              assert (WO : wop st o) by (split; auto; congruence).
              rewrite <- (segl_sig _ _ _ Sg) in Ln.
              destruct (S o tk g (dv + 1) WO ltac:(congruence) Ln (AB _ _ _ AC)) as (Bd & _). unfold bound in Bd. rewrite E0 in Bd. lia.
           ++ right. right. auto.
        -- right. exists g. split; [exact X3|]. split; [exact I|]. right. right. auto.
  - (* QA *)
    intros o' tk [I K] B AX. destruct (O _ I) as (o & Io & Sg & _ & AXB).
    pose proof (opsig_fields _ _ Sg) as (_ & Sk & _ & Sb & _).
    assert (WO : wop st o) by (split; auto; congruence).
    destruct (QA o tk WO ltac:(congruence) (AXB _ AX)) as (dv & H & E0 & X).
    destruct (D _ _ _ E0) as (dv' & H' & E' & _). exists dv', H'. split; auto.
    intros Ln g r G Cu. rewrite R in G. rewrite <- (segl_sig _ _ _ Sg) in Ln. rewrite <- (orec_sig _ _ _ Sg).
    destruct (cur_back5 _ _ _ _ _ _ _ _ _ W M CB E0 E' G Cu) as [Cu0 _]. eauto.
  - (* K0 *)
    intros cli tk v Hk VX L. destruct (K0 _ _ _ _ (VK _ _ _ _ VX) L) as (dv & H & E0).
    destruct (D _ _ _ E0) as (dv' & H' & E' & _). eauto.
  - (* PA *)
    intros e' I K. destruct (P _ I K) as (e & Ie & Re & Pe). rewrite <- Re in *.
    destruct (PA _ Ie K) as (o & OC & Ko & Bo & St). destruct (C _ _ OC) as (o' & OC' & Sg & GR).
    pose proof (opsig_fields _ _ Sg) as (_ & Sk & _ & Sb & _).
    exists o'. split; [exact OC'|]. split; [congruence|]. split; [congruence|]. intro Pz.
    destruct (St (Pe Pz)) as [CS St']. clear St. rename St' into St. split; [exact CS|].
    intros idx ver hs h Ix Ln Ih. rewrite (segl_sig _ _ _ Sg) in *. apply GR. eapply St; eauto.
  - (* AD *)
    intros b wid W0 j IA Ln. rewrite A in IA. destruct (AD _ _ _ _ IA Ln) as (dv & H & E0).
    destruct (D _ _ _ E0) as (dv' & H' & E' & _). eauto.
Qed.

(* ---------- replica steps ---------- *)
Definition sbr5 (st st1 : state) : Prop := sbr st st1 /\ s_tasks st1 = s_tasks st.

Lemma sbr5_set_reps : forall st reps, sbr5 st (set_reps st reps).
Proof. intros; split; [apply sbr_set_reps | reflexivity]. Qed.

Lemma sbr5_pulled : forall st st1 tk v g, sbr5 st st1 -> (pulled_to st1 tk v g <-> pulled_to st tk v g).
Proof.
  intros st st1 tk v g [(_ & P & _) T]. unfold pulled_to, pull_ok, counted, own_rpc. rewrite P, T. tauto.
Qed.

Lemma cur5_tr : forall st st1 tk dv H g r r1, sbr5 st st1 -> r_ver r1 = r_ver r ->
  cur5 st1 tk dv H g r1 -> cur5 st tk dv H g r.
Proof.
  intros st st1 tk dv H g r r1 B V [[I X]|[X [I|P]]].
  - left. split; auto. congruence.
  - right. split; [congruence|]. left. exact I.
  - right. split; [congruence|]. right. now apply (sbr5_pulled _ _ _ _ _ B).
Qed.

Lemma cur5_tr2 : forall st st1 tk dv H g r r1, sbr5 st st1 -> r_ver r1 = r_ver r ->
  cur5 st tk dv H g r -> cur5 st1 tk dv H g r1.
Proof.
  intros st st1 tk dv H g r r1 B V [[I X]|[X [I|P]]].
  - left. split; auto. congruence.
  - right. split; [congruence|]. left. exact I.
  - right. split; [congruence|]. right. now apply (sbr5_pulled _ _ _ _ _ B).
Qed.

Lemma sbr_rest5 : forall st st1, sbr st st1 -> cinv5 st -> cK0 st1 /\ cPA st1 /\ cAD st1.
Proof.
  intros st st1 B (_ & _ & _ & _ & K0 & PA & AD). pose proof B as (D & P & O & K & A). split; [|split].
  - intros cli tk v Hk V L. unfold vk in V. rewrite K, P in V. rewrite D. eapply K0; eauto.
  - intros e I Kd. rewrite P in I. rewrite O. eauto.
  - intros b wid W j I L. rewrite A in I. rewrite D. eauto.
Qed.

(* 1. a copy gains records, versions stay; new copies only of tracts that are not durable *)
Lemma cinv5_grows : forall st st1, sbr5 st st1 ->
  (forall k r, rget (s_reps st) k = Some r ->
     exists r1, rget (s_reps st1) k = Some r1 /\ r_ver r1 = r_ver r /\ incl (r_app r) (r_app r1)) ->
  (forall k r1, rget (s_reps st1) k = Some r1 -> rget (s_reps st) k = None -> tget (s_dtr st) (snd k) = None) ->
  cinv5 st -> cinv5 st1.
Proof.
  intros st st1 B5 G1 G2 C. pose proof (proj1 B5) as B. pose proof C as (V1 & S & Q & QA & _). pose proof B as (D & P & O & K & A).
  destruct (sbr_rest5 _ _ B C) as (K0' & PA' & AD').
  assert (BACK : forall g tk dv H r1, tget (s_dtr st) tk = Some (dv, H) -> rget (s_reps st1) (g, tk) = Some r1 ->
            exists r, rget (s_reps st) (g, tk) = Some r /\ r_ver r1 = r_ver r /\ incl (r_app r) (r_app r1)).
  { intros g tk dv H r1 E G. destruct (rget (s_reps st) (g, tk)) as [r|] eqn:G0.
    - destruct (G1 _ _ G0) as (r1' & G' & V & I). rewrite G in G'. inversion G'; subst r1'. exists r. auto.
    - pose proof (G2 _ _ G G0) as N. cbn in N. congruence. }
  assert (STK : forall tk dv H g r r1 h v, tget (s_dtr st) tk = Some (dv, H) -> r_ver r1 = r_ver r ->
            stuck st tk g r h v -> stuck st1 tk g r1 h v).
  { intros tk dv H g r r1 h v E VV [X|[(rh & Gh & L)|[X1 X2]]].
    - left. destruct (rget (s_reps st1) (h, tk)) as [r'|] eqn:G'; auto. pose proof (G2 _ _ G' X) as N. cbn in N. congruence.
    - right. left. destruct (G1 _ _ Gh) as (rh1 & G' & V & _). exists rh1. split; auto. lia.
    - right. right. split; auto. congruence. }
  split; [|split; [|split; [|split; [|split; [|split]]]]]; auto.
  - intros b wid W j dv H g r1 IA E G Cu Ln. rewrite A in IA. rewrite D in E.
    destruct (BACK _ _ _ _ _ E G) as (r & G0 & V & I). apply I. eapply V1; eauto. eapply cur5_tr; eauto.
  - intros o tk h v WO Bl Ln AC. unfold wop in WO. rewrite O in WO. apply (sbr_acc _ _ _ _ _ _ B) in AC.
    destruct (S o tk h v WO Bl Ln AC) as (Bd & Pr & Rp). split; [|split].
    + unfold bound in *. rewrite D. exact Bd.
    + intros N. rewrite D in N. specialize (Pr N). destruct (rget (s_reps st) (h, tk)) as [r|] eqn:G0; [|congruence].
      destruct (G1 _ _ G0) as (r1 & G' & _). congruence.
    + intros r1 G. destruct (rget (s_reps st) (h, tk)) as [r|] eqn:G0.
      * destruct (G1 _ _ G0) as (r1' & G' & V & I). rewrite G in G'. inversion G'; subst r1'.
        destruct (Rp _ eq_refl) as [L X]. split; [lia|]. intros Y. apply I. apply X. lia.
      * exfalso. pose proof (G2 _ _ G G0) as N. cbn in N. exact (Pr N eq_refl).
  - intros cli tk v Hk dv H g r1 oo VX L E G Cu OK. rewrite D in E.
    apply (sbr_vkx _ _ _ _ _ _ B) in VX. apply (sbr_oo _ _ _ _ _ B) in OK.
    destruct (BACK _ _ _ _ _ E G) as (r & G0 & V & I).
    assert (Cu0 : cur5 st tk dv H g r) by (eapply cur5_tr; eauto).
    destruct (Q cli tk v Hk dv H g r oo VX L E G0 Cu0 OK) as [X|(h & Ih & N & St)].
    + left. eapply has_incl; eauto.
    + right. exists h. split; auto. split; [apply (sbr_nacc _ _ _ _ _ _ B); exact N|]. eapply STK; eauto.
  - intros o tk WO Bl AX. unfold wop in WO. rewrite O in WO. apply (sbr_ackx _ _ _ _ B) in AX.
    destruct (QA o tk WO Bl AX) as (dv & H & E & X). exists dv, H. rewrite D. split; auto.
    intros Ln g r1 G Cu. destruct (BACK _ _ _ _ _ E G) as (r & G0 & V & I). apply I. eapply X; eauto.
    eapply cur5_tr; eauto.
Qed.

(* 2. the copy of one durable tract at one server changes (bumped, re-pulled, or removed) *)

(* 2. the copy of one durable tract at one server changes (bumped, re-pulled, or removed) *)
Lemma cinv5_onekey : forall st st1 x tk dv H, sbr5 st st1 -> know_ok st ->
  tget (s_dtr st) tk = Some (dv, H) ->
  (forall k, k <> (x, tk) -> rget (s_reps st1) k = rget (s_reps st) k) ->
  (forall r1, rget (s_reps st1) (x, tk) = Some r1 ->
     (exists r0, rget (s_reps st) (x, tk) = Some r0 /\ r_ver r0 <= r_ver r1 /\ (r_ver r0 = r_ver r1 -> r_app r1 = r_app r0)) \/
     r_ver r1 = dv + 1) ->
  (forall r1, rget (s_reps st1) (x, tk) = Some r1 -> cur5 st1 tk dv H x r1 ->
     exists g0 r0, rget (s_reps st) (g0, tk) = Some r0 /\ cur5 st tk dv H g0 r0 /\ r_app r1 = r_app r0 /\ (g0 = x \/ r_ver r0 = dv + 1)) ->
  cinv5 st -> cinv5 st1.
Proof.
  intros st st1 x tk dv H B5 KO E OTH M CB C. pose proof (proj1 B5) as B. pose proof C as (V1 & S & Q & QA & _). pose proof B as (D & P & O & K & A).
  destruct (sbr_rest5 _ _ B C) as (K0' & PA' & AD').
  assert (OT : forall g tk', (g, tk') <> (x, tk) -> rget (s_reps st1) (g, tk') = rget (s_reps st) (g, tk')) by (intros; now apply OTH).
  assert (DEC : forall g tk', {(g, tk') = (x, tk)} + {(g, tk') <> (x, tk)}).
  { intros g [a b]. destruct tk as [c d]. destruct (Z.eq_dec g x); [|right; congruence].
    destruct (Z.eq_dec a c); [|right; congruence]. destruct (Z.eq_dec b d); [left; congruence | right; congruence]. }
  (* a witness of Q keeps blocking *)
  assert (STK : forall g r h v, v <= dv -> (g, tk) <> (x, tk) -> stuck st tk g r h v -> stuck st1 tk g r h v).
  { intros g r h v Lv NG St. destruct (DEC h tk) as [EQ|NE].
    - inversion EQ; subst h. destruct (rget (s_reps st1) (x, tk)) as [r1|] eqn:G1; [|left; exact G1].
      right. left. exists r1. split; auto. destruct (M _ eq_refl) as [(r0 & G0 & L1 & _)|L1]; [|lia].
      destruct St as [X|[(rh & Gh & L)|[X1 X2]]]; [congruence | rewrite G0 in Gh; inversion Gh; subst; lia | subst; contradiction].
    - destruct St as [X|[(rh & Gh & L)|[X1 X2]]].
      + left. rewrite OT; auto.
      + right. left. exists rh. rewrite OT; auto.
      + right. right. auto. }
  split; [|split; [|split; [|split; [|split; [|split]]]]]; auto.
  - (* V1 *)
    intros b wid W j dv' H' g r1 IA E' G Cu Ln. rewrite A in IA. rewrite D in E'.
    pose proof (cur5_tr st st1 _ _ _ _ r1 r1 B5 eq_refl Cu) as Cu0.
    destruct (DEC g (b, j)) as [EQ|NE].
    + inversion EQ; subst g tk. rewrite E in E'. inversion E'; subst dv' H'.
      destruct (CB _ G Cu) as (g0 & r0 & G0 & C0 & AP & _). rewrite AP. eapply V1; eauto.
    + rewrite OT in G by exact NE. eapply V1; eauto.
  - (* S *)
    intros o tk' h v WO Bl Ln AC. unfold wop in WO. rewrite O in WO. apply (sbr_acc _ _ _ _ _ _ B) in AC.
    destruct (S o tk' h v WO Bl Ln AC) as (Bd & Pr & Rp). split; [|split].
    + unfold bound in *. rewrite D. exact Bd.
    + intros N. rewrite D in N. destruct (DEC h tk') as [EQ|NE]; [inversion EQ; subst; congruence|]. rewrite OT by exact NE. auto.
    + intros r1 G. destruct (DEC h tk') as [EQ|NE]; [|rewrite OT in G by exact NE; auto].
      inversion EQ; subst h tk'. unfold bound in Bd. rewrite E in Bd.
      destruct (M _ G) as [(r0 & G0 & L1 & AP)|L1]; [|split; lia].
      destruct (Rp _ G0) as [L2 X]. split; [lia|]. intros Y. rewrite AP by lia. apply X. lia.
  - (* Q *)
    intros cli tk' v Hk dv' H' g r1 oo VX L E' G Cu OK. rewrite D in E'.
    pose proof (cur5_tr st st1 _ _ _ _ r1 r1 B5 eq_refl Cu) as Cu0.
    apply (sbr_vkx _ _ _ _ _ _ B) in VX. apply (sbr_oo _ _ _ _ _ B) in OK.
    destruct (DEC x tk') as [EQT|NET].
    2: { (* another tract *)
      assert (SAME : forall h, rget (s_reps st1) (h, tk') = rget (s_reps st) (h, tk')).
      { intros h. apply OT. intro X. inversion X; subst. contradiction. }
      rewrite SAME in G. destruct (Q cli tk' v Hk dv' H' g r1 oo VX L E' G Cu0 OK) as [X|(h & Ih & N & St)]; [left; exact X|].
      right. exists h. split; auto. split; [apply (sbr_nacc _ _ _ _ _ _ B); exact N|].
      unfold stuck in *. rewrite SAME. exact St. }
    inversion EQT; subst tk'. rewrite E in E'. inversion E'; subst dv' H'.
    pose proof (vkx_bound _ _ _ _ _ KO VX) as Bd. unfold bound in Bd. rewrite E in Bd.
    destruct (DEC g tk) as [EQ|NE].
    + inversion EQ; subst g. destruct (CB _ G Cu) as (g0 & r0 & G0 & C0 & AP & ORI).
      destruct (Q cli tk v Hk dv H g0 r0 oo VX L E G0 C0 OK) as [X|(h & Ih & N & St)].
      * left. destruct oo; cbn in *; auto. rewrite AP. exact X.
      * right. exists h. split; auto. split; [apply (sbr_nacc _ _ _ _ _ _ B); exact N|].
        destruct (DEC h tk) as [EQh|NEh].
        -- inversion EQh; subst h. right.
           destruct (M _ G) as [(rx & Gx & L1 & _)|L1]; [|left; exists r1; split; auto; lia].
           destruct St as [X|[(rh & Gh & Lh)|[X1 X2]]]; [congruence | left; exists r1; split; auto; rewrite Gx in Gh; inversion Gh; subst; lia |].
           destruct ORI as [ORI|ORI]; [|lia]. subst g0. rewrite Gx in G0. inversion G0; subst rx.
           destruct (Z.eq_dec (r_ver r1) v); [right; auto | left; exists r1; split; auto; lia].
        -- destruct St as [X|[(rh & Gh & Lh)|[X1 X2]]].
           ++ left. rewrite OT; auto.
           ++ right. left. exists rh. rewrite OT; auto.
           ++ (* the blocked host was the source itself *)
              subst h. destruct ORI as [ORI|ORI]; [subst g0; contradiction | lia].
    + rewrite OT in G by exact NE. destruct (Q cli tk v Hk dv H g r1 oo VX L E G Cu0 OK) as [X|(h & Ih & N & St)]; [left; exact X|].
      right. exists h. split; auto. split; [apply (sbr_nacc _ _ _ _ _ _ B); exact N|]. apply STK; auto.
  - (* QA *)
    intros o tk' WO Bl AX. unfold wop in WO. rewrite O in WO. apply (sbr_ackx _ _ _ _ B) in AX.
    destruct (QA o tk' WO Bl AX) as (dv' & H' & E' & X). exists dv', H'. rewrite D. split; auto.
    intros Ln g r1 G Cu. pose proof (cur5_tr st st1 _ _ _ _ r1 r1 B5 eq_refl Cu) as Cu0. destruct (DEC g tk') as [EQ|NE].
    + inversion EQ; subst g tk'. rewrite E in E'. inversion E'; subst dv' H'.
      destruct (CB _ G Cu) as (g0 & r0 & G0 & C0 & AP & _). rewrite AP. eapply X; eauto.
    + rewrite OT in G by exact NE. eapply X; eauto.
Qed.


(* ---------- the executed request's reply becomes evidence ---------- *)
Lemma upd_pulled_back_gen : forall st1 e stt res tr lose auto tk v g, lID st1 -> In e (s_pool st1) ->
  pulled_to (set_pool st1 (pool_update (s_pool st1) (set_pent e stt res tr lose auto))) tk v g ->
  pulled_to st1 tk v g \/
  (k_kind (p_rpc e) = K_PullTract /\ hd 0 res = cl_NoError /\ k_ts (p_rpc e) = g /\ rtk (p_rpc e) = tk /\ k_ver (p_rpc e) = v).
Proof.
  intros st1 e stt res tr lose auto tk v g ID Ie. set (e2 := set_pent e stt res tr lose auto). set (st2 := set_pool st1 (pool_update (s_pool st1) e2)).
  set (f := fun y : pent => if p_id y =? p_id e2 then e2 else y).
  assert (FE : forall y, In y (s_pool st1) -> p_rpc (f y) = p_rpc y /\ p_owner (f y) = p_owner y).
  { intros y Iy. unfold f. destruct (p_id y =? p_id e2) eqn:Q; auto. apply Z.eqb_eq in Q. cbn in Q.
    assert (y = e) by (eapply uniq_pid; eauto). subst y. auto. }
  intros [(y & I & K & [O1 O2] & A & B & C)|(x & Ix & A & B & C & D & F)].
  - apply in_pool_update in I as [I|I].
    + subst y. cbn in K, O2, A, B, C. right. auto.
    + left. left. exists y. repeat split; auto.
  - left. right. exists x. repeat split; auto. intros (y & Iy & Oy & Ry). apply F. exists (f y). destruct (FE _ Iy) as [R1 R2].
    split; [cbn; unfold pool_update; apply in_map_iff; exists y; auto | split; congruence].
Qed.

Lemma upd_pulled_back : forall st1 e res tr lose auto tk v g, lID st1 -> In e (s_pool st1) ->
  pulled_to (set_pool st1 (pool_update (s_pool st1) (set_pent e 2 res tr lose auto))) tk v g ->
  pulled_to st1 tk v g \/
  (k_kind (p_rpc e) = K_PullTract /\ hd 0 res = cl_NoError /\ k_ts (p_rpc e) = g /\ rtk (p_rpc e) = tk /\ k_ver (p_rpc e) = v).
Proof. intros. eapply upd_pulled_back_gen; eauto. Qed.

Lemma cs_upd_nopull : forall st1 e stt res tr lose auto, lID st1 -> In e (s_pool st1) -> k_kind (p_rpc e) <> K_PullTract ->
  cs st1 (set_pool st1 (pool_update (s_pool st1) (set_pent e stt res tr lose auto))).
Proof.
  intros st1 e stt res tr lose auto ID Ie NP tk v g X. destruct (upd_pulled_back_gen _ _ _ _ _ _ _ _ _ _ ID Ie X) as [Y|(K & _)]; [exact Y | contradiction].
Qed.

Lemma cur5_upd_back : forall st1 e res tr lose auto tk dv H g r, lID st1 -> In e (s_pool st1) ->
  cur5 (set_pool st1 (pool_update (s_pool st1) (set_pent e 2 res tr lose auto))) tk dv H g r ->
  cur5 st1 tk dv H g r \/
  (r_ver r = dv + 1 /\ k_kind (p_rpc e) = K_PullTract /\ hd 0 res = cl_NoError /\ k_ts (p_rpc e) = g /\ rtk (p_rpc e) = tk /\ k_ver (p_rpc e) = dv + 1).
Proof.
  intros st1 e res tr lose auto tk dv H g r ID Ie [X|[V [X|X]]]; [left; left; exact X | left; right; split; auto; left; exact X|].
  destruct (upd_pulled_back _ _ _ _ _ _ _ _ _ ID Ie X) as [Y|Y]; [left; right; split; auto; right; exact Y | right; tauto].
Qed.

Lemma cinv5_upd_ev : forall st1 e res tr lose auto,
  let e2 := set_pent e 2 res tr lose auto in
  let st2 := set_pool st1 (pool_update (s_pool st1) e2) in
  (wkind (p_rpc e) -> hd 0 res = cl_NoError -> 0 < k_len (p_rpc e) ->
     bound st1 (rtk (p_rpc e)) (newver (p_rpc e)) /\
     exists r, rget (s_reps st1) (k_ts (p_rpc e), rtk (p_rpc e)) = Some r /\ r_ver r = newver (p_rpc e) /\
               In (mkw (k_wid (p_rpc e)) (k_off (p_rpc e)) (k_len (p_rpc e))) (r_app r)) ->
  (forall o, wkind (p_rpc e) -> 0 < k_len (p_rpc e) -> wop st1 o -> o_cli o = k_cli (p_rpc e) -> o_wid o = k_wid (p_rpc e)) ->
  (k_kind (p_rpc e) = K_GetTracts -> forall x, In x tr -> (1 <= snd (fst x) \/ map fst (snd x) <> []) ->
     exists H, tget (s_dtr st1) (tkey (k_blob (p_rpc e)) (fst (fst x))) = Some (snd (fst x), H) /\ 1 <= snd (fst x) /\
               (forall h, In h H -> In h (map fst (snd x)))) ->
  (k_kind (p_rpc e) = K_AckExtend -> hd 0 res = cl_NoError -> forall o tk, wop st1 o -> o_cli o = k_cli (p_rpc e) ->
     In tk (ack_tks (p_rpc e)) ->
     exists dv H, tget (s_dtr st1) tk = Some (dv, H) /\
       (0 < snd (segl o (snd tk)) -> forall g r, rget (s_reps st1) (g, tk) = Some r -> cur5 st1 tk dv H g r -> In (orec o (snd tk)) (r_app r))) ->
  k_kind (p_rpc e) <> K_PullTract -> lID st1 -> In e (s_pool st1) -> cinv5 st1 -> cinv5 st2.
Proof.
  intros st1 e res tr lose auto e2 st2 PW PWID PG PX NP ID Ie1 (V1 & S & Q & QA & K0 & PA & AD).
  assert (CUB : forall tk dv H g r, cur5 st2 tk dv H g r -> cur5 st1 tk dv H g r).
  { intros tk dv H g r Cu. destruct (cur5_upd_back _ _ _ _ _ _ _ _ _ _ _ ID Ie1 Cu) as [X|(_ & K & _)]; [exact X | contradiction]. }
  assert (INP : forall e', In e' (s_pool st2) -> e' = e2 \/ In e' (s_pool st1)) by (intros e' I; apply in_pool_update; exact I).
  (* new write evidence is backed by the copy *)
  assert (ACC : forall o tk h v, wop st1 o -> 0 < snd (segl o (snd tk)) -> acc st2 o tk h v ->
            acc st1 o tk h v \/
            (bound st1 tk v /\ exists r, rget (s_reps st1) (h, tk) = Some r /\ r_ver r = v /\ In (orec o (snd tk)) (r_app r))).
  { intros o tk h v WO Ln [X|(e' & I & [OK1 OK2] & W & Cc & T & Hh & Vv & Of & Le)]; [left; left; exact X|].
    destruct (INP _ I) as [X|X]; [|left; right; exists e'; repeat split; auto].
    subst e'. cbn in OK2, W, Cc, T, Hh, Vv, Of, Le. right.
    assert (LL : 0 < k_len (p_rpc e)) by lia.
    destruct (PW W OK2 LL) as (Bd & r & G & Vr & Ir). subst tk h v. split; [exact Bd|]. exists r. split; auto. split; auto.
    unfold orec. rewrite (PWID o W LL WO (eq_sym Cc)), <- Of, <- Le. exact Ir. }
  split; [|split; [|split; [|split; [|split; [|split]]]]].
  - intros b wid W j dv H g r IA E G Cu Ln. exact (V1 b wid W j dv H g r IA E G (CUB _ _ _ _ _ Cu) Ln).
  - (* S *)
    intros o tk h v WO Bl Ln AC. destruct (ACC o tk h v WO Ln AC) as [X|(Bd & r & G & Vr & Ir)]; [exact (S o tk h v WO Bl Ln X)|].
    split; [exact Bd|]. split; [cbn; congruence|]. intros r' G'. cbn in G'. rewrite G in G'. inversion G'; subst r'. split; [lia|auto].
  - (* Q *)
    intros cli tk v Hk dv H g r oo VX L E G Cu2 OK. pose proof (CUB _ _ _ _ _ Cu2) as Cu.
    assert (FROM : forall Hk0, (forall h, In h Hk0 -> In h Hk) -> vkx st1 cli tk v Hk0 -> (1 <= v \/ Hk0 <> []) ->
              has oo tk r \/ exists h, In h Hk /\ nacc st2 oo tk h v /\ stuck st2 tk g r h v).
    { intros Hk0 SUB VX0 L0. destruct (Q cli tk v Hk0 dv H g r oo VX0 L0 E G Cu OK) as [X|(h & Ih & N & St)]; [left; exact X|].
      destruct oo as [o|]; [|right; exists h; auto].
      destruct OK as (WO & Cc & Bl & Ln).
      (* does the new evidence speak about h at v? *)
      destruct (in_dec (fun a b : wrec => ltac:(decide equality; apply Z.eq_dec) : {a = b} + {a <> b}) (orec o (snd tk)) (r_app r)) as [HAS|NHAS]; [left; exact HAS|].
      right. exists h. split; [apply SUB; exact Ih|]. split; [|exact St].
      cbn. intro AC. destruct (ACC o tk h v WO Ln AC) as [X|(Bd & rh & Gh & Vh & Ih')]; [exact (N X)|].
      destruct St as [X|[(rh' & Gh' & Lh)|[X1 X2]]].
      - assert (Y : Some rh = None) by (rewrite <- Gh; exact X). discriminate Y.
      - assert (Y : Some rh = Some rh') by (rewrite <- Gh; exact Gh'). inversion Y; subst. lia.
      - subst h. assert (Y : Some rh = Some r) by (rewrite <- Gh; exact G). inversion Y; subst rh. contradiction. }
    destruct VX as [[(ke & Ik & X)|(e' & x & I & Kd & Cc & Ix & T & Vv & Hh)]|VX].
    + apply (FROM Hk); auto. left. left. exists ke. auto.
    + destruct (INP _ I) as [X|X].
      * subst e'. cbn in Kd, Cc, Ix, T, Vv, Hh. subst tk v Hk. destruct (PG Kd _ Ix L) as (H0 & E0 & L1 & SUB).
        cbn in E. rewrite E0 in E. inversion E; subst dv H0.
        apply (FROM H); auto. right. exact E0.
      * apply (FROM Hk); auto. left. right. exists e', x. repeat split; auto.
    + apply (FROM Hk); auto. right. exact VX.
  - (* QA *)
    intros o tk WO Bl AX.
    assert (QQ : exists dv H, tget (s_dtr st1) tk = Some (dv, H) /\
      (0 < snd (segl o (snd tk)) -> forall g r, rget (s_reps st1) (g, tk) = Some r -> cur5 st1 tk dv H g r -> In (orec o (snd tk)) (r_app r))).
    { destruct AX as [X|(e' & I & Kd & Cc & [OK1 OK2] & T)]; [exact (QA o tk WO Bl (or_introl X))|].
      destruct (INP _ I) as [X|X].
      + subst e'. cbn in Kd, Cc, OK2, T. exact (PX Kd OK2 o tk WO (eq_sym Cc) T).
      + apply (QA o tk WO Bl). right. exists e'. repeat split; auto. }
    destruct QQ as (dv & H & E & X). exists dv, H. split; [exact E|]. intros Ln g r G Cu. exact (X Ln g r G (CUB _ _ _ _ _ Cu)).
  - (* K0 *)
    intros cli tk v Hk [X|(e' & x & I & Kd & Cc & Ix & T & Vv & Hh)] L; [exact (K0 cli tk v Hk (or_introl X) L)|].
    destruct (INP _ I) as [X|X].
    + subst e'. cbn in Kd, Cc, Ix, T, Vv, Hh. subst tk v Hk. destruct (PG Kd _ Ix L) as (H0 & E0 & _ & _). eauto.
    + apply (K0 cli tk v Hk); auto. right. exists e', x. repeat split; auto.
  - (* PA *)
    intros e' I Kd. destruct (INP _ I) as [X|X]; [|exact (PA _ X Kd)]. subst e'. cbn in Kd.
    destruct (PA _ Ie1 Kd) as (o & OC & Ko & Bo & _). exists o. split; [exact OC|]. split; [exact Ko|]. split; [exact Bo|]. cbn. intro Y; discriminate Y.
  - exact AD.
Qed.


(* a completed pull: the new copy is a copy of a current copy *)
Definition post_p (st1 : state) (e : pent) (res : list Z) : Prop :=
  k_kind (p_rpc e) = K_PullTract -> hd 0 res = cl_NoError ->
  forall dv H, tget (s_dtr st1) (rtk (p_rpc e)) = Some (dv, H) -> k_ver (p_rpc e) = dv + 1 ->
  forall r1, rget (s_reps st1) (k_ts (p_rpc e), rtk (p_rpc e)) = Some r1 ->
  exists src s, rget (s_reps st1) (src, rtk (p_rpc e)) = Some s /\ cur5 st1 (rtk (p_rpc e)) dv H src s /\ r_ver s = dv + 1 /\
                r_app r1 = r_app s.

Lemma cinv5_upd_pull : forall st1 e res tr lose auto,
  let e2 := set_pent e 2 res tr lose auto in
  let st2 := set_pool st1 (pool_update (s_pool st1) e2) in
  k_kind (p_rpc e) = K_PullTract -> post_p st1 e res -> know_ok st1 -> lID st1 -> In e (s_pool st1) -> cinv5 st1 -> cinv5 st2.
Proof.
  intros st1 e res tr lose auto e2 st2 KP PP KO ID Ie1 (V1 & S & Q & QA & K0 & PA & AD).
  assert (INP : forall e', In e' (s_pool st2) -> e' = e2 \/ In e' (s_pool st1)) by (intros e' I; apply in_pool_update; exact I).
  assert (NK : forall K, K <> K_PullTract -> k_kind (p_rpc e2) <> K) by (intros K N Y; cbn in Y; congruence).
  assert (ACC : forall o tk h v, acc st2 o tk h v -> acc st1 o tk h v).
  { intros o tk h v [X|(e' & I & OKr & Wk & Rest)]; [left; exact X|]. destruct (INP _ I) as [X|X]; [|right; exists e'; auto].
    subst e'. exfalso. destruct Wk as [Wk|Wk]; [apply (NK K_Write); auto | apply (NK K_Create); auto]; discriminate. }
  assert (VKX : forall cli tk v Hk, vkx st2 cli tk v Hk -> vkx st1 cli tk v Hk).
  { intros cli tk v Hk [[X|(e' & x & I & Kd & Rest)]|X]; [left; left; exact X | | right; exact X].
    destruct (INP _ I) as [Y|Y]; [subst e'; exfalso; apply (NK K_GetTracts); auto; discriminate | left; right; exists e', x; auto]. }
  assert (AXX : forall o tk, ackx st2 o tk -> ackx st1 o tk).
  { intros o tk [X|(e' & I & Kd & Rest)]; [left; exact X|].
    destruct (INP _ I) as [Y|Y]; [subst e'; exfalso; apply (NK K_AckExtend); auto; discriminate | right; exists e'; auto]. }
  (* a copy that is current now: it was, or it is the pulled copy *)
  assert (GOOD : forall tk dv H g r, tget (s_dtr st1) tk = Some (dv, H) -> rget (s_reps st1) (g, tk) = Some r -> cur5 st2 tk dv H g r ->
            cur5 st1 tk dv H g r \/
            exists src s, rget (s_reps st1) (src, tk) = Some s /\ cur5 st1 tk dv H src s /\ r_ver s = dv + 1 /\ r_app r = r_app s).
  { intros tk dv H g r E G Cu. destruct (cur5_upd_back _ _ _ _ _ _ _ _ _ _ _ ID Ie1 Cu) as [X|(V & _ & OKc & Tg & Tk & Vv)]; [left; exact X|].
    right. subst g tk. destruct (PP KP OKc dv H E Vv r G) as (src & s & Gs & Cs & Vs & AP).
    exists src, s. auto. }
  split; [|split; [|split; [|split; [|split; [|split]]]]].
  - intros b wid W j dv H g r IA E G Cu Ln. destruct (GOOD _ _ _ _ _ E G Cu) as [X|(src & s & Gs & Cs & Vs & AP)]; [exact (V1 b wid W j dv H g r IA E G X Ln)|].
    rewrite AP. exact (V1 b wid W j dv H src s IA E Gs Cs Ln).
  - intros o tk h v WO Bl Ln AC. exact (S o tk h v WO Bl Ln (ACC _ _ _ _ AC)).
  - intros cli tk v Hk dv H g r oo VX L E G Cu OK. apply VKX in VX.
    assert (NA : forall h, nacc st1 oo tk h v -> nacc st2 oo tk h v) by (intros h N; destruct oo; cbn in *; auto).
    destruct (GOOD _ _ _ _ _ E G Cu) as [X|(src & s & Gs & Cs & Vs & AP)].
    + destruct (Q cli tk v Hk dv H g r oo VX L E G X OK) as [Y|(h & Ih & N & St)]; [left; exact Y | right; exists h; auto].
    + pose proof (vkx_bound _ _ _ _ _ KO VX) as Bd. unfold bound in Bd. change (s_dtr st2) with (s_dtr st1) in E. rewrite E in Bd.
      destruct (Q cli tk v Hk dv H src s oo VX L E Gs Cs OK) as [Y|(h & Ih & N & St)].
      * left. destruct oo; cbn in *; auto. rewrite AP. exact Y.
      * right. exists h. split; auto. split; [apply NA; exact N|].
        destruct St as [Y|[Y|[Y1 Y2]]]; [left; exact Y | right; left; exact Y | lia].
  - intros o tk WO Bl AX. destruct (QA o tk WO Bl (AXX _ _ AX)) as (dv & H & E & X). exists dv, H. split; [exact E|].
    intros Ln g r G Cu. destruct (GOOD _ _ _ _ _ E G Cu) as [Y|(src & s & Gs & Cs & Vs & AP)]; [exact (X Ln g r G Y)|].
    rewrite AP. exact (X Ln src s Gs Cs).
  - intros cli tk v Hk X L. apply (K0 cli tk v Hk); auto. destruct X as [X|(e' & x & I & Kd & Rest)]; [left; exact X|].
    destruct (INP _ I) as [Z1|Z1]; [subst e'; exfalso; apply (NK K_GetTracts); auto; discriminate | right; exists e', x; auto].
  - intros e' I Kd. destruct (INP _ I) as [X|X]; [|exact (PA _ X Kd)]. subst e'. exfalso. apply (NK K_AckExtend); auto. discriminate.
  - exact AD.
Qed.

(* ---------- PullTract with its sources, and the crash in the middle of it ---------- *)
Definition pre_pull (reps : list (rkey * replica)) (x : Z) (tk : tkt) (ver : Z) : Prop :=
  rget reps (x, tk) = None \/ exists r0, rget reps (x, tk) = Some r0 /\ r_ver r0 <= ver.

Definition pulled2 (reps reps1 : list (rkey * replica)) (x : Z) (tk : tkt) (ver : Z) (L : list Z) : Prop :=
  (forall k, k <> (x, tk) -> rget reps1 k = rget reps k) /\
  (rget reps1 (x, tk) = rget reps (x, tk) \/
   (pre_pull reps x tk ver /\
    (rget reps1 (x, tk) = None \/
     exists src s, In src L /\ src <> x /\ rget reps (src, tk) = Some s /\ r_ver s = ver /\
                   rget reps1 (x, tk) = Some {| r_ver := ver; r_app := r_app s |}))).

Lemma pull_once_cases : forall reps nts x tk ver src reps1 c,
  pull_once reps nts x tk ver src = (reps1, c) ->
  (forall k, k <> (x, tk) -> rget reps1 k = rget reps k) /\
  ((c <> cl_NoError /\ (rget reps1 (x, tk) = rget reps (x, tk) \/ (pre_pull reps x tk ver /\ rget reps1 (x, tk) = None))) \/
   (c = cl_NoError /\ pre_pull reps x tk ver /\ exists s, src <> x /\ rget reps (src, tk) = Some s /\ r_ver s = ver /\
                      rget reps1 (x, tk) = Some {| r_ver := ver; r_app := r_app s |})).
Proof.
  intros reps nts x tk ver src reps1 c H. unfold pull_once in H.
  assert (N1 : cl_ErrInvalidState <> cl_NoError) by (intro Y; discriminate Y).
  assert (N2 : cl_ErrRPC <> cl_NoError) by (intro Y; discriminate Y).
  assert (N3 : cl_ErrNoSuchTract <> cl_NoError) by (intro Y; discriminate Y).
  assert (N4 : cl_ErrVersionMismatch <> cl_NoError) by (intro Y; discriminate Y).
  destruct (rget reps (x, tk)) as [r|] eqn:G.
  - destruct (ver <? r_ver r) eqn:LT.
    + inversion H; subst. split; auto.
    + apply Z.ltb_ge in LT.
      assert (PRE : pre_pull reps x tk ver) by (right; exists r; auto).
      assert (OTH : forall k, k <> (x, tk) -> rget (rdel reps (x, tk)) k = rget reps k) by (intros; now apply rget_rdel_other).
      assert (DEL : rget (rdel reps (x, tk)) (x, tk) = None) by apply rget_rdel_same.
      destruct ((src <=? 0) || (nts <? src)); [inversion H; subst; split; auto|].
      destruct (rget (rdel reps (x, tk)) (src, tk)) as [s|] eqn:GS; [|inversion H; subst; split; auto].
      assert (SX : src <> x) by (intro Y; subst src; rewrite rget_rdel_same in GS; discriminate GS).
      assert (GS0 : rget reps (src, tk) = Some s) by (rewrite <- GS; symmetry; apply rget_rdel_other; congruence).
      destruct (r_ver s =? ver) eqn:V; inversion H; subst; [|split; auto].
      apply Z.eqb_eq in V. split; [intros k N; rewrite rget_rset_other by exact N; auto|]. right. split; auto. split; auto.
      exists s. repeat split; auto using rget_rset_same.
  - assert (PRE : pre_pull reps x tk ver) by (left; auto).
    destruct ((src <=? 0) || (nts <? src)); [inversion H; subst; split; auto|].
    destruct (rget reps (src, tk)) as [s|] eqn:GS; [|inversion H; subst; split; auto].
    assert (SX : src <> x) by (intro Y; subst src; congruence).
    destruct (r_ver s =? ver) eqn:V; inversion H; subst; [|split; auto].
    apply Z.eqb_eq in V. split; [intros k N; rewrite rget_rset_other by exact N; auto|]. right. split; auto. split; auto.
    exists s. repeat split; auto using rget_rset_same.
Qed.

Lemma pull_loop_spec2 : forall srcs reps nts x tk ver last reps1 c,
  pull_loop reps nts x tk ver srcs last = (reps1, c) ->
  (forall k, k <> (x, tk) -> rget reps1 k = rget reps k) /\
  ((rget reps1 (x, tk) = rget reps (x, tk) \/ (pre_pull reps x tk ver /\ rget reps1 (x, tk) = None)) \/
   (c = cl_NoError /\ pre_pull reps x tk ver /\ exists src s, In src srcs /\ src <> x /\ rget reps (src, tk) = Some s /\ r_ver s = ver /\
                      rget reps1 (x, tk) = Some {| r_ver := ver; r_app := r_app s |})) /\
  (c = cl_NoError -> srcs <> [] \/ last <> cl_NoError ->
     exists src s, In src srcs /\ src <> x /\ rget reps (src, tk) = Some s /\ r_ver s = ver /\ rget reps1 (x, tk) = Some {| r_ver := ver; r_app := r_app s |}).
Proof.
  induction srcs as [|s l IH]; intros reps nts x tk ver last reps1 c H; cbn in H.
  - inversion H; subst. split; auto. split; auto. intros Y [Z1|Z1]; contradiction.
  - destruct (pull_once reps nts x tk ver s) as [reps' e] eqn:P. apply pull_once_cases in P as [O K].
    destruct (e =? cl_NoError) eqn:Q.
    + apply Z.eqb_eq in Q. inversion H; subst. destruct K as [[N _]|(_ & PRE & s0 & SX & GS & V & R)]; [contradiction|].
      split; auto. split.
      * right. split; auto. split; auto. exists s, s0. split; [left; reflexivity | auto].
      * intros _ _. exists s, s0. split; [left; reflexivity | auto].
    + apply Z.eqb_neq in Q. destruct K as [[_ K]|[Y _]]; [|contradiction].
      destruct (IH _ _ _ _ _ _ _ _ H) as (O2 & K2 & OK2).
      assert (SRC : forall src s0, src <> x -> rget reps' (src, tk) = Some s0 -> rget reps (src, tk) = Some s0).
      { intros src s0 SX G. rewrite <- (O (src, tk)); auto. congruence. }
      assert (PREB : pre_pull reps' x tk ver -> pre_pull reps x tk ver).
      { intros PB. destruct K as [K|[PA _]]; [unfold pre_pull in *; rewrite <- K; exact PB | exact PA]. }
      split; [intros k N; rewrite O2, O; auto|]. split.
      * destruct K2 as [[K2|[PB K2]]|(Y & PB & src & s0 & I & SX & GS & V & R)].
        -- left. rewrite K2. destruct K as [K|[PA K]]; [left; exact K | right; split; auto].
        -- left. right. split; auto.
        -- right. split; auto. split; auto. exists src, s0. split; [right; exact I|]. split; auto.
      * intros Y _. destruct (OK2 Y (or_intror Q)) as (src & s0 & I & SX & GS & V & R).
        exists src, s0. split; [right; exact I|]. split; auto.
Qed.

Definition crashed (reps reps1 : list (rkey * replica)) (x : Z) (tk : tkt) (ver : Z) : Prop :=
  (forall k, k <> (x, tk) -> rget reps1 k = rget reps k) /\
  (rget reps1 (x, tk) = rget reps (x, tk) \/
   (pre_pull reps x tk ver /\ (rget reps1 (x, tk) = None \/ rget reps1 (x, tk) = Some {| r_ver := ver; r_app := [] |}))).

Lemma pull_crash_spec : forall srcs reps nts x tk ver, crashed reps (pull_crash reps nts x tk ver srcs) x tk ver.
Proof.
  induction srcs as [|s l IH]; intros reps nts x tk ver; cbn.
  - split; auto.
  - destruct (pull_once reps nts x tk ver s) as [reps' e] eqn:P. apply pull_once_cases in P as [O K].
    destruct (e =? cl_NoError) eqn:Q.
    + apply Z.eqb_eq in Q. destruct K as [[N _]|(_ & PRE & _)]; [contradiction|].
      split; [intros k N; rewrite rget_rset_other by exact N; auto|]. right. split; auto. right. apply rget_rset_same.
    + apply Z.eqb_neq in Q. destruct K as [[_ K]|[Y _]]; [|contradiction].
      destruct (IH reps' nts x tk ver) as [O2 K2]. split; [intros k N; rewrite O2, O; auto|].
      destruct K2 as [K2|[P2 R2]].
      * rewrite K2. destruct K as [K|[P1 R1]]; [left; exact K | right; split; auto].
      * right. split; [|exact R2]. destruct K as [K|[P1 _]]; [unfold pre_pull in *; rewrite <- K; exact P2 | exact P1].
Qed.

(* ---------- the tractserver operations ---------- *)
Lemma grows_rset5 : forall st k r0 app1,
  rget (s_reps st) k = Some r0 -> incl (r_app r0) app1 -> cinv5 st ->
  cinv5 (set_reps st (rset (s_reps st) k {| r_ver := r_ver r0; r_app := app1 |})).
Proof.
  intros st k r0 app1 G I C. apply (cinv5_grows st); [apply sbr5_set_reps | | | exact C].
  - intros k' r G'. cbn [s_reps set_reps]. destruct (rkey_dec k' k) as [E|N].
    + subst k'. rewrite rget_rset_same. rewrite G in G'. inversion G'; subst r. eexists. split; [reflexivity|]. split; auto.
    + rewrite rget_rset_other by exact N. exists r. split; auto. split; auto. apply incl_refl.
  - intros k' r1 G1 G0. cbn [s_reps set_reps] in G1. destruct (rkey_dec k' k) as [E|N]; [subst k'; congruence|].
    rewrite rget_rset_other in G1 by exact N. congruence.
Qed.

Lemma cinv5_same_reps : forall st, cinv5 st -> cinv5 (set_reps st (s_reps st)).
Proof.
  intros st C. apply (cinv5_grows st); [apply sbr5_set_reps | | | exact C].
  - intros k r G. exists r. split; auto. split; auto. apply incl_refl.
  - intros k r1 G1 G0. cbn in G1. congruence.
Qed.

Lemma exec_write5 : forall st e, k_kind (p_rpc e) = K_Write -> In e (s_pool st) -> know_ok st -> cinv5 st ->
  let '(reps, c) := ts_write (s_reps st) (k_ts (p_rpc e)) (rtk (p_rpc e)) (k_ver (p_rpc e)) (k_wid (p_rpc e)) (k_off (p_rpc e)) (k_len (p_rpc e)) in
  cinv5 (set_reps st reps) /\ post_w (set_reps st reps) e [c].
Proof.
  intros st e K Ie (_ & K2 & _) C.
  destruct (ts_write _ _ _ _ _ _ _) as [reps c] eqn:X.
  apply ts_write_spec in X as [[N E]|(E & r0 & G & V & R)]; subst.
  - split; [apply cinv5_same_reps; exact C|]. intros _ Y. cbn in Y. contradiction.
  - split; [apply grows_rset5; auto; apply app_write_incl|].
    intros _ _ Ln. assert (NV : newver (p_rpc e) = k_ver (p_rpc e)) by (unfold newver; rewrite K; reflexivity).
    rewrite NV. split; [exact (K2 _ Ie K)|]. eexists. cbn [s_reps set_reps]. rewrite rget_rset_same. split; [reflexivity|].
    split; [exact V|]. cbn. now apply app_write_in.
Qed.

Lemma exec_create5 : forall st e, k_kind (p_rpc e) = K_Create -> tget (s_dtr st) (rtk (p_rpc e)) = None -> cinv5 st ->
  let '(reps, c) := ts_create (s_reps st) (k_ts (p_rpc e)) (aux_nth (p_rpc e) 0) (rtk (p_rpc e)) (k_wid (p_rpc e)) (k_off (p_rpc e)) (k_len (p_rpc e)) in
  cinv5 (set_reps st reps) /\ post_w (set_reps st reps) e [c].
Proof.
  intros st e K ND C.
  assert (NV : newver (p_rpc e) = 1) by (unfold newver; rewrite K; reflexivity).
  assert (BD : forall reps, bound (set_reps st reps) (rtk (p_rpc e)) 1) by (intro; unfold bound; cbn; rewrite ND; lia).
  destruct (ts_create _ _ _ _ _ _ _) as [reps c] eqn:X. unfold ts_create in X.
  destruct (negb (k_ts (p_rpc e) =? aux_nth (p_rpc e) 0)).
  { inversion X; subst. split; [apply cinv5_same_reps; exact C|]. intros _ Y. cbn in Y. discriminate Y. }
  destruct (rget (s_reps st) (k_ts (p_rpc e), rtk (p_rpc e))) as [r0|] eqn:G.
  - apply ts_write_spec in X as [[N E]|(E & r0' & G' & V & R)]; subst.
    + split; [apply cinv5_same_reps; exact C|]. intros _ Y. cbn in Y. contradiction.
    + rewrite G in G'. inversion G'; subst r0'. split; [apply grows_rset5; auto; apply app_write_incl|].
      intros _ _ Ln. rewrite NV. split; [apply BD|]. eexists. cbn [s_reps set_reps]. rewrite rget_rset_same. split; [reflexivity|].
      split; [exact V|]. cbn. now apply app_write_in.
  - inversion X; subst. split.
    + apply (cinv5_grows st); [apply sbr5_set_reps | | | exact C].
      * intros k' r G'. cbn [s_reps set_reps]. destruct (rkey_dec k' (k_ts (p_rpc e), rtk (p_rpc e))) as [E|N]; [subst k'; congruence|].
        rewrite rget_rset_other by exact N. exists r. split; auto. split; auto. apply incl_refl.
      * intros k' r1 G1 G0. cbn [s_reps set_reps] in G1. destruct (rkey_dec k' (k_ts (p_rpc e), rtk (p_rpc e))) as [E|N]; [subst k'; exact ND|].
        rewrite rget_rset_other in G1 by exact N. congruence.
    + intros _ _ Ln. rewrite NV. split; [apply BD|]. eexists. cbn [s_reps set_reps]. rewrite rget_rset_same. split; [reflexivity|].
      split; [reflexivity|]. cbn. now apply app_write_in.
Qed.

Lemma exec_setversion5 : forall st x tsid tk nv dv H,
  tget (s_dtr st) tk = Some (dv, H) -> nv <= dv + 1 -> (nv = dv + 1 -> In x H) ->
  (forall r0, In x H -> rget (s_reps st) (x, tk) = Some r0 -> dv <= r_ver r0) ->
  know_ok st -> cinv5 st ->
  cinv5 (set_reps st (fst (ts_setversion (s_reps st) x tsid tk nv))).
Proof.
  intros st x tsid tk nv dv H E L PS HV KO C.
  destruct (ts_setversion (s_reps st) x tsid tk nv) as [reps1 c] eqn:X. cbn [fst].
  apply ts_setversion_spec in X as [X|(r0 & G & V & X)]; subst reps1; [apply cinv5_same_reps; exact C|].
  apply (cinv5_onekey st _ x tk dv H); auto using sbr5_set_reps.
  - intros k N. cbn [s_reps set_reps]. now apply rget_rset_other.
  - intros r1 G1. cbn [s_reps set_reps] in G1. rewrite rget_rset_same in G1. inversion G1; subst r1. cbn.
    left. exists r0. split; auto. split; [lia|]. intro; lia.
  - intros r1 G1 Cu. cbn [s_reps set_reps] in G1. rewrite rget_rset_same in G1. inversion G1; subst r1.
    exists x, r0. split; auto. split; [|split; auto]. cbn in Cu.
    destruct Cu as [[I V1]|[V1 _]].
    + exfalso. cbn in V1. specialize (HV _ I G). lia.
    + cbn in V1. left. split; [apply PS; lia | lia].
Qed.


Lemma cinv5_ext : forall st reps1, (forall k, rget reps1 k = rget (s_reps st) k) -> cinv5 st -> cinv5 (set_reps st reps1).
Proof.
  intros st reps1 X C. apply (cinv5_grows st); [apply sbr5_set_reps | | | exact C].
  - intros k r G. exists r. cbn. rewrite X. split; auto. split; auto. apply incl_refl.
  - intros k r1 G1 G0. cbn in G1. rewrite X in G1. congruence.
Qed.

Lemma exec_pull5 : forall st x tsid tk ver srcs dv H,
  tget (s_dtr st) tk = Some (dv, H) -> ver <= dv + 1 ->
  ~ (ver <= dv /\ pre_pull (s_reps st) x tk ver) ->
  (ver = dv + 1 -> forall src, In src srcs -> In src H) ->
  know_ok st -> cinv5 st ->
  let '(reps1, c) := ts_pull (s_reps st) (s_nts st) x tsid tk ver srcs in
  cinv5 (set_reps st reps1) /\
  (c = cl_NoError -> srcs <> [] -> x = tsid ->
     exists src s, In src srcs /\ src <> x /\ rget (s_reps st) (src, tk) = Some s /\ r_ver s = ver /\
                   rget reps1 (x, tk) = Some {| r_ver := ver; r_app := r_app s |} /\
                   (forall k, k <> (x, tk) -> rget reps1 k = rget (s_reps st) k)).
Proof.
  intros st x tsid tk ver srcs dv H E L NS PROV KO C. unfold ts_pull.
  destruct (negb (x =? tsid)) eqn:TS.
  { split; [apply cinv5_same_reps; exact C|]. intros _ _ Y. subst tsid. rewrite Z.eqb_refl in TS. discriminate TS. }
  destruct (pull_loop (s_reps st) (s_nts st) x tk ver srcs cl_NoError) as [reps1 c] eqn:X.
  apply pull_loop_spec2 in X as (OTH & CASES & OKC). split.
  - destruct CASES as [[SAME|[PRE NONE]]|(Y & PRE & src & s & I & SX & GS & V & R)].
    + apply cinv5_ext; auto. intros k. destruct (rkey_dec k (x, tk)) as [EQ|NE]; [subst k; exact SAME | now apply OTH].
    + assert (VV : ver = dv + 1) by (destruct (Z_le_gt_dec ver dv); [exfalso; apply NS; auto | lia]). rewrite VV in *. clear VV.
      apply (cinv5_onekey st _ x tk dv H); auto using sbr5_set_reps.
      * intros r1 G1. cbn [s_reps set_reps] in G1. congruence.
      * intros r1 G1. cbn [s_reps set_reps] in G1. congruence.
    + assert (VV : ver = dv + 1) by (destruct (Z_le_gt_dec ver dv); [exfalso; apply NS; auto | lia]). rewrite VV in *. clear VV.
      apply (cinv5_onekey st _ x tk dv H); auto using sbr5_set_reps.
      * intros r1 G1. cbn [s_reps set_reps] in G1. right. rewrite R in G1. inversion G1; subst r1. reflexivity.
      * intros r1 G1 Cu. cbn [s_reps set_reps] in G1. rewrite R in G1. inversion G1; subst r1.
        exists src, s. split; auto. split; [right; split; auto; left; apply PROV; auto|]. split; auto.
  - intros Y NE _. destruct (OKC Y (or_introl NE)) as (src & s & I & SX & GS & V & R). exists src, s. auto 10.
Qed.

Lemma exec_crash5 : forall st x tk ver srcs dv H,
  tget (s_dtr st) tk = Some (dv, H) -> ver <= dv + 1 ->
  ~ (ver <= dv /\ pre_pull (s_reps st) x tk ver) ->
  (ver = dv + 1 -> ~ cand st tk dv H x) ->
  know_ok st -> cinv5 st ->
  cinv5 (set_reps st (pull_crash (s_reps st) (s_nts st) x tk ver srcs)).
Proof.
  intros st x tk ver srcs dv H E L NS NC KO C.
  destruct (pull_crash_spec srcs (s_reps st) (s_nts st) x tk ver) as [OTH [SAME|[PRE RES]]].
  - apply cinv5_ext; auto. intros k. destruct (rkey_dec k (x, tk)) as [EQ|NE]; [subst k; exact SAME | now apply OTH].
  - assert (VV : ver = dv + 1) by (destruct (Z_le_gt_dec ver dv); [exfalso; apply NS; auto | lia]). specialize (NC VV). rewrite VV in *. clear VV.
    apply (cinv5_onekey st _ x tk dv H); auto using sbr5_set_reps.
    + intros r1 G1. cbn [s_reps set_reps] in G1. right. destruct RES as [RES|RES]; [congruence|]. rewrite RES in G1. inversion G1; subst r1. reflexivity.
    + intros r1 G1 Cu. cbn [s_reps set_reps] in G1. destruct RES as [RES|RES]; [congruence|]. rewrite RES in G1. inversion G1; subst r1.
      exfalso. destruct Cu as [[_ V]|[_ [I|P]]]; [cbn in V; lia | apply NC; left; exact I|].
      apply NC. right. apply (sbr5_pulled st (set_reps st (pull_crash (s_reps st) (s_nts st) x tk (dv + 1) srcs))); auto using sbr5_set_reps.
Qed.

(* ---------- AckExtend ---------- *)
Lemma cinv5_newdur : forall st st1,
  s_reps st1 = s_reps st -> s_tasks st1 = s_tasks st -> s_pool st1 = s_pool st -> s_ops st1 = s_ops st -> s_know st1 = s_know st -> s_acked st1 = s_acked st ->
  (forall tk v, tget (s_dtr st) tk = Some v -> tget (s_dtr st1) tk = Some v) ->
  (forall tk dv H, tget (s_dtr st1) tk = Some (dv, H) -> tget (s_dtr st) tk = Some (dv, H) \/ (tget (s_dtr st) tk = None /\ dv = 1)) ->
  win_ok st -> cinv5 st -> cinv5 st1.
Proof.
  intros st st1 R T P O K A DOLD DNEW (U1 & _) (V1 & S & Q & QA & K0 & PA & AD).
  assert (CUB : forall tk dv H g r, cur5 st1 tk dv H g r -> cur5 st tk dv H g r).
  { intros tk dv H g r [X|[V [X|X]]]; [left; exact X | right; split; auto; left; exact X|]. right. split; auto. right.
    unfold pulled_to, pull_ok, counted, own_rpc in *. rewrite P, T in X. exact X. }
  assert (ACC : forall o tk h v, acc st1 o tk h v <-> acc st o tk h v) by (intros; unfold acc, acc_pool; rewrite P; tauto).
  assert (VK : forall cli tk v Hk, vk st1 cli tk v Hk <-> vk st cli tk v Hk) by (intros; unfold vk; rewrite P, K; tauto).
  assert (AX : forall o tk, ackx st1 o tk <-> ackx st o tk) by (intros; unfold ackx; rewrite P; tauto).
  assert (LOW : forall tk g r, tget (s_dtr st) tk = None -> rget (s_reps st) (g, tk) = Some r -> r_ver r <= 1).
  { intros tk g r N G. specialize (U1 _ _ G). unfold bound1 in U1. cbn in U1. rewrite N in U1. exact U1. }
  split; [|split; [|split; [|split; [|split; [|split]]]]].
  - intros b wid W j dv H g r IA E G Cu Ln. rewrite A in IA. rewrite R in G. apply CUB in Cu.
    destruct (DNEW _ _ _ E) as [E0|[E0 _]]; [eapply V1; eauto|]. destruct (AD _ _ _ _ IA Ln) as (dv0 & H0 & X). congruence.
  - intros o tk h v WO Bl Ln AC. unfold wop in WO. rewrite O in WO. apply ACC in AC.
    destruct (S o tk h v WO Bl Ln AC) as (Bd & Pr & Rp). split; [|split].
    + unfold bound in *. destruct (tget (s_dtr st1) tk) as [[dv H]|] eqn:E.
      * destruct (DNEW _ _ _ E) as [E0|[E0 X]]; rewrite E0 in Bd; lia.
      * destruct (tget (s_dtr st) tk) as [v0|] eqn:E0; auto. rewrite (DOLD _ _ E0) in E. discriminate.
    + intros N. rewrite R. apply Pr. destruct (tget (s_dtr st) tk) as [v0|] eqn:E0; auto. rewrite (DOLD _ _ E0) in N. discriminate.
    + rewrite R. exact Rp.
  - intros cli tk v Hk dv H g r oo VX L E G Cu OK. rewrite R in G. apply CUB in Cu.
    assert (OK0 : oo_ok st cli tk oo) by (destruct oo; cbn in *; [unfold wop in *; rewrite O in OK|]; tauto).
    assert (TR : (has oo tk r \/ exists h, In h Hk /\ nacc st oo tk h v /\ stuck st tk g r h v) ->
                 has oo tk r \/ exists h, In h Hk /\ nacc st1 oo tk h v /\ stuck st1 tk g r h v).
    { intros [X|(h & Ih & N & St)]; [left; exact X|]. right. exists h. split; auto. split.
      - destruct oo; cbn in *; auto. intro Y. apply N. now apply ACC.
      - unfold stuck. rewrite R. exact St. }
    destruct (DNEW _ _ _ E) as [E0|[E0 X]].
    + apply TR. apply (Q cli tk v Hk dv H g r oo); auto. destruct VX as [VX|VX]; [left; now apply VK|].
      right. rewrite E in VX. inversion VX; subst. exact E0.
    + subst dv. destruct VX as [VX|VX].
      * apply VK in VX. destruct (K0 _ _ _ _ VX L) as (dv0 & H0 & Y). congruence.
      * rewrite E in VX. inversion VX; subst v Hk.
        pose proof (LOW _ _ _ E0 G) as Lr.
        destruct Cu as [[Ig Vg]|[Vg _]]; [|lia].
        destruct oo as [o|].
        -- destruct (in_dec wrec_dec (orec o (snd tk)) (r_app r)) as [HAS|NHAS]; [left; exact HAS|].
           right. exists g. split; auto. split; [|right; right; auto].
           cbn. intro AC. apply ACC in AC. destruct OK0 as (WO & Cc & Bl & Ln).
           destruct (S o tk g 1 WO (eq_sym Bl) Ln AC) as (_ & _ & Rp). destruct (Rp _ G) as [_ X]. auto.
        -- right. exists g. split; auto. split; [exact I|]. right. right. auto.
  - intros o tk WO Bl AXX. unfold wop in WO. rewrite O in WO. apply AX in AXX.
    destruct (QA o tk WO Bl AXX) as (dv & H & E0 & X). exists dv, H. split; [now apply DOLD|]. intros Ln g r G Cu. rewrite R in G. exact (X Ln g r G (CUB _ _ _ _ _ Cu)).
  - intros cli tk v Hk V L. apply VK in V. destruct (K0 _ _ _ _ V L) as (dv & H & E0). exists dv, H. now apply DOLD.
  - intros e I Kd. rewrite P in I. rewrite O. eauto.
  - intros b wid W j I L. rewrite A in I. destruct (AD _ _ _ _ I L) as (dv & H & E0). exists dv, H. now apply DOLD.
Qed.

Definition post_x5 (st1 : state) (e : pent) (res : list Z) : Prop :=
  k_kind (p_rpc e) = K_AckExtend -> hd 0 res = cl_NoError -> forall o tk, wop st1 o -> o_cli o = k_cli (p_rpc e) ->
  In tk (ack_tks (p_rpc e)) ->
  exists dv H, tget (s_dtr st1) tk = Some (dv, H) /\
    (0 < snd (segl o (snd tk)) -> forall g r, rget (s_reps st1) (g, tk) = Some r -> cur5 st1 tk dv H g r -> In (orec o (snd tk)) (r_app r)).

Lemma exec_ackextend5 : forall st e, k_kind (p_rpc e) = K_AckExtend -> In e (s_pool st) -> p_st e = 0 ->
  Inv2 st -> ops_uniq st -> cinv5 st ->
  let '(st1, c) := ack_extend st (k_blob (p_rpc e)) (decode_tracts false (k_aux (p_rpc e))) in
  cinv5 st1 /\ post_x5 st1 e [c].
Proof.
  intros st e Kd Ie Pz [[Ds Ks] W] [_ UC] C.
  destruct (ack_extend st (k_blob (p_rpc e)) (decode_tracts false (k_aux (p_rpc e)))) as [st1 c] eqn:X.
  unfold ack_extend in X. set (trs := decode_tracts false (k_aux (p_rpc e))) in *.
  assert (NOP : st1 = st -> (c <> cl_NoError \/ trs = []) -> cinv5 st1 /\ post_x5 st1 e [c]).
  { intros E1 E2. subst st1. split; auto. intros _ Y o tk _ _ It. cbn in Y. destruct E2 as [E2|E2]; [contradiction|].
    unfold ack_tks in It. fold trs in It. rewrite E2 in It. destruct It. }
  destruct trs as [|[[first ver0] hs0] trs0] eqn:TRS; [inversion X; subst; apply NOP; auto|].
  rewrite <- TRS in *. 
  destruct (20 <? Z.of_nat (length trs)); [inversion X; subst; apply NOP; auto; left; intro Y; discriminate Y|].
  destruct (zget (s_blobs st) (k_blob (p_rpc e))) as [[repl nt]|] eqn:B; [|inversion X; subst; apply NOP; auto; left; intro Y; discriminate Y].
  assert (FI : first_idx trs = first) by (rewrite TRS; reflexivity).
  rewrite TRS in X at 1.
  destruct (negb (first =? nt)) eqn:FN; [inversion X; subst; apply NOP; auto; left; intro Y; discriminate Y|].
  apply negb_false_iff in FN. apply Z.eqb_eq in FN. subst first.
  match type of X with context [negb (forallb ?f ?l)] => destruct (negb (forallb f l)) end;
    [inversion X; subst; apply NOP; auto; left; intro Y; discriminate Y|].
  fold (ext_fold (k_blob (p_rpc e)) trs (s_dtr st) nt) in X. inversion X; subst st1 c. clear X.
  set (dtr1 := fst (ext_fold (k_blob (p_rpc e)) trs (s_dtr st) nt)).
  (* what PA says about this request *)
  pose proof C as (_ & S & _ & _ & _ & PA & _).
  destruct (PA _ Ie Kd) as (o' & OC & Ko & Bo & ST0). destruct (ST0 Pz) as [CS ST]. fold trs in CS, ST. rewrite FI in CS.
  assert (NEWK : forall idx ver hs, In (idx, ver, hs) trs ->
            tget (s_dtr st) (k_blob (p_rpc e), idx) = None /\ tget dtr1 (k_blob (p_rpc e), idx) = Some (1, map fst hs)).
  { intros idx ver hs I. destruct (ext_fold_at (k_blob (p_rpc e)) trs (s_dtr st) nt CS _ _ _ I) as [L G]. split; auto.
    destruct (tget (s_dtr st) (k_blob (p_rpc e), idx)) as [[dv0 H0]|] eqn:E0; auto.
    destruct Ds as [_ D2]. destruct (D2 _ _ _ _ E0) as (_ & r0 & n0 & G0 & I0). rewrite B in G0. inversion G0; subst. lia. }
  assert (DOLD : forall tk v, tget (s_dtr st) tk = Some v -> tget dtr1 tk = Some v).
  { intros tk v E0. unfold dtr1. rewrite ext_fold_keep; auto. intros i Y. subst tk. destruct v as [dv0 H0].
    destruct Ds as [_ D2]. destruct (D2 _ _ _ _ E0) as (_ & r0 & n0 & G0 & I0). rewrite B in G0. inversion G0; subst. lia. }
  assert (DNEW : forall tk dv H, tget dtr1 tk = Some (dv, H) -> tget (s_dtr st) tk = Some (dv, H) \/ (tget (s_dtr st) tk = None /\ dv = 1)).
  { intros tk dv H E1. unfold dtr1 in E1. apply ext_fold_spec in E1 as [E1|(i & hs' & Ek & Rg & Ev)]; [left; exact E1|].
    inversion Ev; subst. right. split; auto.
    destruct (tget (s_dtr st) (k_blob (p_rpc e), i)) as [[dv0 H0]|] eqn:E0; auto.
    destruct Ds as [_ D2]. destruct (D2 _ _ _ _ E0) as (_ & r0 & n0 & G0 & I0). rewrite B in G0. inversion G0; subst. lia. }
  split.
  - apply (cinv5_newdur st); auto.
  - intros _ _ o tk [Io Kk] Cc It. cbn [s_ops set_blobs set_dtr] in Io.
    unfold ack_tks in It. fold trs in It. apply in_map_iff in It as ([[idx ver] hs] & Et & Ix). subst tk.
    destruct (NEWK _ _ _ Ix) as [N0 N1]. exists 1, (map fst hs). cbn [s_dtr set_blobs set_dtr]. fold dtr1. split; [exact N1|].
    intros Ln g r G Cu. cbn [s_reps set_blobs set_dtr] in G. cbn [snd tkey] in *.
    assert (o = o') by (apply (uniq_cli (s_ops st)); auto; [eapply op_of_client_in; eauto | rewrite Cc; symmetry; eapply op_of_client_cli; eauto]).
    subst o'.
    assert (LOW : r_ver r <= 1).
    { destruct W as (U1 & _). specialize (U1 _ _ G). unfold bound1 in U1. cbn in U1. unfold tkey in U1. rewrite N0 in U1. exact U1. }
    destruct Cu as [[Ig Vg]|[Vg _]]; [|lia].
    assert (AC : acc st o (tkey (k_blob (p_rpc e)) idx) g 1) by (left; unfold acc_succ; cbn [snd tkey]; eapply ST; eauto).
    destruct (S o (tkey (k_blob (p_rpc e)) idx) g 1 (conj Io Kk) (eq_sym Bo) Ln AC) as (_ & _ & Rp).
    destruct (Rp _ G) as [_ Y]. auto.
Qed.

(* ---------- one executed request ---------- *)
Lemma exec_summary5 : forall st e oracle st1 res tr,
  Inv2 st -> ops_uniq st -> cinv5 st -> lPX st -> lPE st -> In e (s_pool st) -> p_st e = 0 -> side_ok st e ->
  exec_rpc st e oracle = (st1, res, tr) ->
  cinv5 st1 /\ post_w st1 e res /\ post_g st1 e tr /\ post_x5 st1 e res /\ post_p st1 e res /\ fields_eq st st1.
Proof.
  intros st e oracle st1 res tr I2 U C PXI PEI Ie Pz (SC & SP & SV) X. pose proof I2 as [[Ds Ks] W]. unfold exec_rpc in X.
  assert (NW : forall K, k_kind (p_rpc e) = K -> K <> K_Write -> K <> K_Create -> forall s r0, post_w s e r0).
  { intros K EK N1 N2 s r0 [Y|Y]; congruence. }
  assert (NG : forall K, k_kind (p_rpc e) = K -> K <> K_GetTracts -> forall s t, post_g s e t) by (intros K EK N s t Y; congruence).
  assert (NX : forall K, k_kind (p_rpc e) = K -> K <> K_AckExtend -> forall s r0, post_x5 s e r0) by (intros K EK N s r0 Y; congruence).
  assert (NP : forall K, k_kind (p_rpc e) = K -> K <> K_PullTract -> forall s r0, post_p s e r0) by (intros K EK N s r0 Y; congruence).
  assert (FE : forall reps, fields_eq st (set_reps st reps)) by (intros; repeat split).
  assert (FS : fields_eq st st) by (repeat split).
  destruct (k_kind (p_rpc e) =? K_Write) eqn:K1.
  { apply Z.eqb_eq in K1. pose proof (exec_write5 st e K1 Ie Ks C) as EW. unfold rtk in EW.
    destruct (ts_write _ _ _ _ _ _ _) as [reps c]. inversion X; subst. destruct EW as [A B].
    split; [exact A|]. split; [exact B|]. split; [apply (NG _ K1); discriminate|]. split; [apply (NX _ K1); discriminate|]. split; [apply (NP _ K1); discriminate | apply FE]. }
  destruct (k_kind (p_rpc e) =? K_Create) eqn:K2.
  { apply Z.eqb_eq in K2. pose proof (exec_create5 st e K2 (SC K2) C) as EW. unfold rtk in EW.
    destruct (ts_create _ _ _ _ _ _ _) as [reps c]. inversion X; subst. destruct EW as [A B].
    split; [exact A|]. split; [exact B|]. split; [apply (NG _ K2); discriminate|]. split; [apply (NX _ K2); discriminate|]. split; [apply (NP _ K2); discriminate | apply FE]. }
  destruct (k_kind (p_rpc e) =? K_Read) eqn:K3.
  { apply Z.eqb_eq in K3. destruct (ts_read _ _ _ _ _ _) as [[c n] runs]. inversion X; subst.
    split; [exact C|]. split; [apply (NW _ K3); discriminate|]. split; [apply (NG _ K3); discriminate|]. split; [apply (NX _ K3); discriminate|]. split; [apply (NP _ K3); discriminate | apply FS]. }
  destruct (k_kind (p_rpc e) =? K_SetVersion) eqn:K4.
  { apply Z.eqb_eq in K4. destruct W as (U1 & U2 & U3). destruct (U2 _ Ie (or_introl K4)) as (dv & H & E & L).
    destruct (SV K4 _ _ E) as [PS HV].
    pose proof (exec_setversion5 st (k_ts (p_rpc e)) (aux_nth (p_rpc e) 0) _ (k_ver (p_rpc e)) dv H E L PS HV Ks C) as A.
    unfold rtk in A. destruct (ts_setversion _ _ _ _ _) as [reps c]. inversion X; subst. cbn [fst] in A.
    split; [exact A|]. split; [apply (NW _ K4); discriminate|]. split; [apply (NG _ K4); discriminate|]. split; [apply (NX _ K4); discriminate|]. split; [apply (NP _ K4); discriminate | apply FE]. }
  destruct (k_kind (p_rpc e) =? K_PullTract) eqn:K5.
  { apply Z.eqb_eq in K5. destruct W as (U1 & U2 & U3). destruct (U2 _ Ie (or_intror K5)) as (dv & H & E & L).
    assert (NS : ~ (k_ver (p_rpc e) <= dv /\ (rget (s_reps st) (k_ts (p_rpc e), rtk (p_rpc e)) = None \/
                    exists r0, rget (s_reps st) (k_ts (p_rpc e), rtk (p_rpc e)) = Some r0 /\ r_ver r0 <= k_ver (p_rpc e)))).
    { intros [L1 L2]. specialize (SP K5). unfold stale_pull in SP. unfold rtk in E, L2. rewrite E in SP.
      apply andb_false_iff in SP as [SP|SP]; [apply Z.leb_gt in SP; lia|].
      destruct L2 as [L2|(r0 & L2 & L3)]; rewrite L2 in SP; [discriminate|]. apply Z.leb_gt in SP. lia. }
    assert (NS2 : ~ (k_ver (p_rpc e) <= dv /\ pre_pull (s_reps st) (k_ts (p_rpc e)) (rtk (p_rpc e)) (k_ver (p_rpc e)))) by exact NS.
    assert (PROV : k_ver (p_rpc e) = dv + 1 -> forall src, In src (tl (k_aux (p_rpc e))) -> In src H) by (intros V src Is; eapply PXI; eauto).
    destruct (PEI _ Ie K5) as [NE AX].
    pose proof (exec_pull5 st (k_ts (p_rpc e)) (aux_nth (p_rpc e) 0) _ (k_ver (p_rpc e)) (tl (k_aux (p_rpc e))) dv H E L NS2 PROV Ks C) as A.
    unfold rtk in A. destruct (ts_pull _ _ _ _ _ _ _) as [reps c]. inversion X; subst. destruct A as [A B].
    split; [exact A|]. split; [apply (NW _ K5); discriminate|]. split; [apply (NG _ K5); discriminate|]. split; [apply (NX _ K5); discriminate|]. split; [|apply FE].
    intros _ OKc dv0 H0 E0 V0 r1 G1. cbn in OKc. cbn [s_dtr set_reps] in E0. rewrite E in E0. inversion E0; subst dv0 H0.
    destruct (B OKc NE (eq_sym AX)) as (src & s & Is & SX & GS & Vs & R & OTH).
    cbn [s_reps set_reps] in G1. unfold rtk in G1. rewrite R in G1. inversion G1; subst r1. cbn.
    exists src, s. cbn [s_reps set_reps]. split; [rewrite OTH; [exact GS | congruence]|]. split; [|split; [congruence | reflexivity]].
    right. split; [congruence|]. left. apply PROV; auto. }
  destruct (k_kind (p_rpc e) =? K_StatBlob) eqn:K6.
  { apply Z.eqb_eq in K6. destruct (zget (s_blobs st) (k_blob (p_rpc e))) as [[a b]|]; inversion X; subst;
      (split; [exact C|]; split; [apply (NW _ K6); discriminate|]; split; [apply (NG _ K6); discriminate|]; split; [apply (NX _ K6); discriminate|]; split; [apply (NP _ K6); discriminate | apply FS]). }
  destruct (k_kind (p_rpc e) =? K_GetTracts) eqn:K7.
  { apply Z.eqb_eq in K7. destruct (exec_gettracts st (p_rpc e)) as [res0 trs] eqn:GT. inversion X; subst.
    split; [exact C|]. split; [apply (NW _ K7); discriminate|]. split; [eapply gettracts_post; eauto|]. split; [apply (NX _ K7); discriminate|]. split; [apply (NP _ K7); discriminate | apply FS]. }
  destruct (k_kind (p_rpc e) =? K_ExtendBlob) eqn:K8.
  { apply Z.eqb_eq in K8. destruct (exec_extend st (p_rpc e) oracle) as [res0 trs]. inversion X; subst.
    split; [exact C|]. split; [apply (NW _ K8); discriminate|]. split; [apply (NG _ K8); discriminate|]. split; [apply (NX _ K8); discriminate|]. split; [apply (NP _ K8); discriminate | apply FS]. }
  destruct (k_kind (p_rpc e) =? K_AckExtend) eqn:K9.
  { apply Z.eqb_eq in K9. pose proof (exec_ackextend5 st e K9 Ie Pz I2 U C) as A. pose proof (ack_fields st (k_blob (p_rpc e)) (decode_tracts false (k_aux (p_rpc e)))) as F.
    destruct (ack_extend _ _ _) as [st' c]. inversion X; subst. destruct A as [A B]. cbn [fst] in F.
    split; [exact A|]. split; [apply (NW _ K9); discriminate|]. split; [apply (NG _ K9); discriminate|]. split; [exact B|]. split; [apply (NP _ K9); discriminate | exact F]. }
  assert (KO : forall s r0, post_w s e r0).
  { intros s r0 [Y|Y]; rewrite Y in *; discriminate. }
  assert (KG : forall s t, post_g s e t) by (intros s t Y; rewrite Y in K7; discriminate).
  assert (KX : forall s r0, post_x5 s e r0) by (intros s r0 Y; rewrite Y in K9; discriminate).
  assert (KP : forall s r0, post_p s e r0) by (intros s r0 Y; rewrite Y in K5; discriminate).
  destruct (k_kind (p_rpc e) =? K_ReportBadTS); inversion X; subst;
    (split; [exact C|]; split; [apply KO|]; split; [apply KG|]; split; [apply KX|]; split; [apply KP | apply FS]).
Qed.

(* ---------- a request executed twice ---------- *)
Lemma exec_kind_ack : forall st e oracle st1 res tr, k_kind (p_rpc e) = K_AckExtend -> exec_rpc st e oracle = (st1, res, tr) ->
  exists c, ack_extend st (k_blob (p_rpc e)) (decode_tracts false (k_aux (p_rpc e))) = (st1, c) /\ res = [c].
Proof.
  intros st e oracle st1 res tr K X. unfold exec_rpc in X. rewrite K in X. cbn in X.
  destruct (ack_extend st (k_blob (p_rpc e)) (decode_tracts false (k_aux (p_rpc e)))) as [s c]. inversion X; subst. exists c. auto.
Qed.

Lemma exec_kind_pull : forall st e oracle st1 res tr, k_kind (p_rpc e) = K_PullTract -> exec_rpc st e oracle = (st1, res, tr) ->
  exists reps c, ts_pull (s_reps st) (s_nts st) (k_ts (p_rpc e)) (aux_nth (p_rpc e) 0) (rtk (p_rpc e)) (k_ver (p_rpc e)) (tl (k_aux (p_rpc e))) = (reps, c) /\
                 st1 = set_reps st reps /\ res = [c].
Proof.
  intros st e oracle st1 res tr K X. unfold exec_rpc in X. rewrite K in X. cbn in X. unfold rtk.
  destruct (ts_pull _ _ _ _ _ _ _) as [reps c]. inversion X; subst. exists reps, c. auto.
Qed.

Lemma posts_again5 : forall st e oracle st1 res tr st1b res2 tr2, dur_ok st ->
  exec_rpc st e oracle = (st1, res, tr) -> exec_rpc st1 e oracle = (st1b, res2, tr2) ->
  (k_kind (p_rpc e) = K_PullTract -> forall dv H, tget (s_dtr st1) (rtk (p_rpc e)) = Some (dv, H) -> k_ver (p_rpc e) = dv + 1 ->
     forall src, In src (tl (k_aux (p_rpc e))) -> In src H) ->
  post_w st1 e res -> post_g st1 e tr -> post_x5 st1 e res -> post_p st1 e res ->
  post_w st1b e res /\ post_g st1b e tr /\ post_x5 st1b e res /\ post_p st1b e res.
Proof.
  intros st e oracle st1 res tr st1b res2 tr2 Ds X1 X2 PROV PW PG PX PP.
  destruct (Z.eq_dec (k_kind (p_rpc e)) K_AckExtend) as [KA|NKA].
  { split; [intros [Y|Y]; rewrite Y in KA; discriminate KA|]. split; [intro Y; rewrite Y in KA; discriminate KA|].
    split; [|intro Y; rewrite Y in KA; discriminate KA].
    destruct (exec_kind_ack _ _ _ _ _ _ KA X1) as (c1 & A1 & R1). destruct (exec_kind_ack _ _ _ _ _ _ KA X2) as (c2 & A2 & R2). subst res.
    intros _ OKc. cbn in OKc. subst c1. pose proof (ack_twice _ _ _ _ A1 Ds) as TW. rewrite A2 in TW. cbn in TW. subst st1b. exact (PX KA eq_refl). }
  assert (PXO : post_x st1 e res) by (intro Y; contradiction).
  destruct (posts_again _ _ _ _ _ _ _ _ _ Ds X1 X2 PW PG PXO) as (PW2 & PG2 & _).
  split; [exact PW2|]. split; [exact PG2|]. split; [intro Y; contradiction|].
  intros KP OKc dv H E V r1 G1.
  destruct (exec_kind_pull _ _ _ _ _ _ KP X2) as (reps & c & TP & S1 & _). subst st1b.
  cbn [s_dtr set_reps] in E. cbn [s_reps set_reps] in *.
  set (x := k_ts (p_rpc e)) in *. set (tk := rtk (p_rpc e)) in *.
  assert (KEEP : forall src s, rget (s_reps st1) (src, tk) = Some s -> cur5 st1 tk dv H src s -> (src <> x \/ rget reps (x, tk) = rget (s_reps st1) (x, tk)) ->
            (forall k, k <> (x, tk) -> rget reps k = rget (s_reps st1) k) ->
            rget reps (src, tk) = Some s /\ cur5 (set_reps st1 reps) tk dv H src s).
  { intros src s Gs Cs ALT OTH. split.
    - destruct (Z.eq_dec src x) as [EQ|NE]; [subst src; destruct ALT as [Y|Y]; [contradiction | congruence] | rewrite OTH; [exact Gs | congruence]].
    - apply (cur5_tr2 st1 (set_reps st1 reps) tk dv H src s s (sbr5_set_reps st1 reps) eq_refl Cs). }
  unfold ts_pull in TP. destruct (negb (x =? aux_nth (p_rpc e) 0)).
  { inversion TP; subst reps. destruct (PP KP OKc dv H E V r1 G1) as (src & s & Gs & Cs & Vs & AP).
    exists src, s. destruct (KEEP src s Gs Cs (or_intror eq_refl) (fun k _ => eq_refl)) as [A B]. auto. }
  apply pull_loop_spec2 in TP as (OTH & CASES & _).
  destruct CASES as [[SAME|[_ NONE]]|(_ & _ & src & s & Is & SX & GS & Vs & R)].
  - rewrite SAME in G1. destruct (PP KP OKc dv H E V r1 G1) as (src & s & Gs & Cs & Vs & AP).
    exists src, s. destruct (KEEP src s Gs Cs (or_intror SAME) OTH) as [A B]. auto.
  - congruence.
  - rewrite R in G1. inversion G1; subst r1. cbn. exists src, s.
    assert (Cs : cur5 st1 tk dv H src s) by (right; split; [congruence|]; left; eapply PROV; eauto).
    destruct (KEEP src s GS Cs (or_introl SX) OTH) as [A B]. split; [exact A|]. split; [exact B|]. split; [congruence | reflexivity].
Qed.

Lemma cinv5_finish_upd : forall st st1 e res tr lose auto,
  ord_ok st -> tr_ok st -> lID st -> In e (s_pool st) -> fields_eq st st1 -> know_ok st1 ->
  cinv5 st1 -> post_w st1 e res -> post_g st1 e tr -> post_x5 st1 e res -> post_p st1 e res ->
  cinv5 (set_pool st1 (pool_update (s_pool st1) (set_pent e 2 res tr lose auto))) /\
  tr_ok (set_pool st1 (pool_update (s_pool st1) (set_pent e 2 res tr lose auto))).
Proof.
  intros st st1 e res tr lose auto OO T ID Ie FE KO1 C1 PW PG PX PP. pose proof OO as (U & _ & _ & O4 & _).
  split; [|eapply tr_ok_upd; eauto].
  assert (ID1 : lID st1) by (destruct FE as (_ & _ & FP & _); unfold lID; rewrite FP; exact ID).
  assert (Ie1 : In e (s_pool st1)) by (destruct FE as (_ & _ & FP & _); rewrite FP; exact Ie).
  destruct (Z.eq_dec (k_kind (p_rpc e)) K_PullTract) as [KP|NKP].
  - apply cinv5_upd_pull; auto.
  - apply cinv5_upd_ev; auto.
    intros o Wk Ln [Io Ko] Cc. destruct FE as (_ & _ & _ & FO). rewrite FO in Io.
    destruct (O4 _ Ie Wk Ln) as (o' & Io' & Ko' & Wo' & Co'). destruct U as [_ UC].
    assert (o = o') by (apply (uniq_cli (s_ops st)); auto; congruence). subst o'. exact Wo'.
Qed.

Lemma cinv5_exec_upd : forall st e oracle st1 res tr lose auto,
  Inv2 st -> ord_ok st -> tr_ok st -> cinv5 st -> lPX st -> lPE st -> lID st -> In e (s_pool st) -> p_st e = 0 -> side_ok st e ->
  exec_rpc st e oracle = (st1, res, tr) ->
  cinv5 (set_pool st1 (pool_update (s_pool st1) (set_pent e 2 res tr lose auto))) /\
  tr_ok (set_pool st1 (pool_update (s_pool st1) (set_pent e 2 res tr lose auto))).
Proof.
  intros st e oracle st1 res tr lose auto I2 OO T C PXI PEI ID Ie Pz SD X. pose proof OO as (U & _).
  destruct (exec_summary5 _ _ _ _ _ _ I2 U C PXI PEI Ie Pz SD X) as (C1 & PW & PG & PX & PP & FE).
  pose proof I2 as [I W]. destruct (inv_exec _ _ _ _ _ _ I X) as (E1 & _ & _).
  pose proof (evolves_inv _ _ E1 I) as [_ KO1].
  eapply cinv5_finish_upd; eauto.
Qed.

Lemma cinv5_exec_upd2 : forall st e oracle st1 res tr st1b res2 tr2 lose auto,
  Inv2 st -> ord_ok st -> tr_ok st -> cinv5 st -> lPX st -> (forall s1, exec_rpc st e oracle = (s1, res, tr) -> lPX s1) ->
  lPE st -> lID st -> In e (s_pool st) -> p_st e = 0 -> side_ok st e ->
  exec_rpc st e oracle = (st1, res, tr) -> exec_rpc st1 e oracle = (st1b, res2, tr2) ->
  cinv5 (set_pool st1b (pool_update (s_pool st1b) (set_pent e 2 res tr lose auto))) /\
  tr_ok (set_pool st1b (pool_update (s_pool st1b) (set_pent e 2 res tr lose auto))).
Proof.
  intros st e oracle st1 res tr st1b res2 tr2 lose auto I2 OO T C PXI PXF PEI ID Ie Pz SD X1 X2. pose proof OO as (U & _).
  destruct (exec_summary5 _ _ _ _ _ _ I2 U C PXI PEI Ie Pz SD X1) as (C1 & PW & PG & PX & PP & FE).
  pose proof I2 as [I W]. destruct (inv_exec _ _ _ _ _ _ I X1) as (E1 & P1 & TB1).
  assert (J1 : Inv2 st1) by (split; [exact (evolves_inv _ _ E1 I) | exact (win_exec _ _ _ _ _ _ I2 Ie X1)]).
  assert (U1 : ops_uniq st1) by (destruct FE as (_ & _ & _ & FO); unfold ops_uniq; rewrite FO; exact U).
  assert (Ie1 : In e (s_pool st1)) by (rewrite P1; exact Ie).
  pose proof (side_ok_again _ _ _ _ _ _ X1 SD) as SD1.
  (* provenance and the shape of pull entries do not depend on replicas; the durable part changes only for AckExtend *)
  assert (PE1 : lPE st1) by (intros y Iy; rewrite P1 in Iy; exact (PEI _ Iy)).
  assert (PX1 : lPX st1) by (apply (PXF st1); exact X1).
  destruct (exec_summary5 _ _ _ _ _ _ J1 U1 C1 PX1 PE1 Ie1 Pz SD1 X2) as (C2 & _ & _ & _ & _ & FE2).
  destruct (posts_again5 _ _ _ _ _ _ _ _ _ (proj1 I) X1 X2 (fun K => PX1 _ Ie1 K) PW PG PX PP) as (PW2 & PG2 & PX2 & PP2).
  assert (FEE : fields_eq st st1b).
  { destruct FE as (A1 & A2 & A3 & A4). destruct FE2 as (B1 & B2 & B3 & B4). repeat split; congruence. }
  destruct (inv_exec _ _ _ _ _ _ (proj1 J1) X2) as (E2 & _ & _).
  pose proof (evolves_inv _ _ E2 (proj1 J1)) as [_ KO2].
  eapply cinv5_finish_upd; eauto.
Qed.
