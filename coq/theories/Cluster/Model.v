(* Cluster/Model.v — executable protocol model shared by C01, C04, C05, C14 (replicated tracts).

   One transition = one scheduling decision of the integrated harness (go/cluster): an RPC executed
   atomically at its callee, a reply delivered or lost, a tractserver restart, a leader change, a
   heartbeat, the start of a curator task or of a client operation.

   Transcribed statement by statement:
     tractserver  : Store.Create / Write / Read / SetVersion / PullTract (store.go, store_internal.go)
     durable state: ExtendBlob, ChangeTract (old+1 rule), GetTracts, Stat (state.go, fsm.go) and the
                    term-conditional proposal of handler.go (ProposeIfTerm)
     curator tasks: replicateTract (rereplicate.go), fixVersion (curator.go) as programs with a phase
                    and a set of outstanding RPCs, per-incarnation tract lock and address knowledge
   Clients are NOT transcribed: they are constrained nondeterministic actors.  Every RPC a client
   issues must be justified by a location entry delivered to it earlier (rule V_ISSUE), a write may
   be acknowledged only if every host of one delivered entry accepted it at the entry's version and
   the tract is known durable (rule V_ACK), and a read may only return bytes of delivered read
   replies (rule V_READ).  The harness feeds what the real client did; the model answers with a
   verdict.  Theorems therefore hold for every client obeying the three rules.

   Oracle inputs (never predicted, only validated): which servers placement picks, which RPC the
   schedule runs next, which replica a client asks. *)
From Coq Require Import List ZArith Bool Lia.
From BLB Require Import Gen.Consts.
Import ListNotations.
Open Scope Z_scope.

(* ------------------------------------------------------------------ contents *)
Record wrec := { w_id : Z; w_off : Z; w_len : Z }.

Definition covers (w : wrec) (p : Z) : bool := (w_off w <=? p) && (p <? w_off w + w_len w).

(* applied writes, newest first *)
Fixpoint byte_at (app : list wrec) (p : Z) : Z :=
  match app with
  | [] => 0
  | w :: r => if covers w p then w_id w else byte_at r p
  end.

Definition app_len (app : list wrec) : Z :=
  fold_right (fun w a => Z.max (w_off w + w_len w) a) 0 app.

Fixpoint insert_sorted (x : Z) (l : list Z) : list Z :=
  match l with
  | [] => [x]
  | y :: r => if x <? y then x :: l else if x =? y then l else y :: insert_sorted x r
  end.

Definition cuts (app : list wrec) (lo hi : Z) : list Z :=
  fold_right (fun w acc =>
                let a := w_off w in
                let b := w_off w + w_len w in
                let acc1 := if (lo <? a) && (a <? hi) then insert_sorted a acc else acc in
                if (lo <? b) && (b <? hi) then insert_sorted b acc1 else acc1) [] app.

Fixpoint segs (app : list wrec) (start : Z) (pts : list Z) (hi : Z) : list (Z * Z) :=
  match pts with
  | [] => [(hi - start, byte_at app start)]
  | p :: r => (p - start, byte_at app start) :: segs app p r hi
  end.

Fixpoint merge_runs (l : list (Z * Z)) : list (Z * Z) :=
  match l with
  | [] => []
  | (n, v) :: r =>
      if n <=? 0 then merge_runs r
      else match merge_runs r with
           | (m, u) :: r' => if v =? u then (n + m, v) :: r' else (n, v) :: (m, u) :: r'
           | [] => [(n, v)]
           end
  end.

(* run-length encoding of bytes [lo,hi) of a content *)
Definition render (app : list wrec) (lo hi : Z) : list (Z * Z) :=
  if hi <=? lo then [] else merge_runs (segs app lo (cuts app lo hi) hi).

Definition flat_runs (l : list (Z * Z)) : list Z :=
  Z.of_nat (length l) :: flat_map (fun '(n, v) => [n; v]) l.

(* ------------------------------------------------------------------ replicas, durable state *)
Record replica := { r_ver : Z; r_app : list wrec }.

Definition tkt := (Z * Z)%type.    (* tract key: (blob, tract index) *)
Definition tk_eqb (a b : tkt) : bool := (fst a =? fst b) && (snd a =? snd b).
Definition rkey := (Z * tkt)%type. (* (tractserver, tract key) *)
Definition rk_eqb (a b : rkey) : bool := (fst a =? fst b) && tk_eqb (snd a) (snd b).

Fixpoint rget (m : list (rkey * replica)) (k : rkey) : option replica :=
  match m with
  | [] => None
  | (k', v) :: r => if rk_eqb k k' then Some v else rget r k
  end.
Fixpoint rdel (m : list (rkey * replica)) (k : rkey) : list (rkey * replica) :=
  match m with
  | [] => []
  | (k', v) :: r => if rk_eqb k k' then rdel r k else (k', v) :: rdel r k
  end.
Definition rset (m : list (rkey * replica)) (k : rkey) (v : replica) := (k, v) :: rdel m k.

Fixpoint zget {A} (m : list (Z * A)) (k : Z) : option A :=
  match m with
  | [] => None
  | (k', v) :: r => if k =? k' then Some v else zget r k
  end.
Fixpoint zdel {A} (m : list (Z * A)) (k : Z) : list (Z * A) :=
  match m with
  | [] => []
  | (k', v) :: r => if k =? k' then zdel r k else (k', v) :: zdel r k
  end.
Definition zset {A} (m : list (Z * A)) (k : Z) (v : A) := (k, v) :: zdel m k.

Definition zmem (x : Z) (l : list Z) : bool := existsb (Z.eqb x) l.

Fixpoint tget {A} (m : list (tkt * A)) (k : tkt) : option A :=
  match m with
  | [] => None
  | (k', v) :: r => if tk_eqb k k' then Some v else tget r k
  end.
Fixpoint tdel {A} (m : list (tkt * A)) (k : tkt) : list (tkt * A) :=
  match m with
  | [] => []
  | (k', v) :: r => if tk_eqb k k' then tdel r k else (k', v) :: tdel r k
  end.
Definition tset {A} (m : list (tkt * A)) (k : tkt) (v : A) := (k, v) :: tdel m k.
Definition tmem (x : tkt) (l : list tkt) : bool := existsb (tk_eqb x) l.

Definition tkey (blob tract : Z) : tkt := (blob, tract).

(* ------------------------------------------------------------------ RPCs *)
Definition K_StatBlob := 2.   Definition K_GetTracts := 3.  Definition K_ExtendBlob := 4.
Definition K_AckExtend := 5.  Definition K_FixVersion := 6. Definition K_ReportBadTS := 7.
Definition K_Create := 9.     Definition K_Write := 10.     Definition K_Read := 11.
Definition K_StatTract := 12. Definition K_SetVersion := 13. Definition K_PullTract := 14.

Record rpc := { k_kind : Z; k_cli : Z; k_gen : Z; k_ts : Z; k_blob : Z; k_tract : Z;
                k_ver : Z; k_off : Z; k_len : Z; k_wid : Z; k_aux : list Z }.

Definition rpc_line (r : rpc) : list Z :=
  [k_kind r; k_cli r; k_gen r; k_ts r; k_blob r; k_tract r; k_ver r; k_off r; k_len r; k_wid r;
   Z.of_nat (length (k_aux r))] ++ k_aux r.

(* canonical key = the harness's: kind, client, gen, ts, blob, tract, version, off, len, wid, aux *)
Definition rpc_key (r : rpc) : list Z :=
  [k_kind r; k_cli r; k_gen r; k_ts r; k_blob r; k_tract r; k_ver r; k_off r; k_len r; k_wid r] ++ k_aux r.

Fixpoint list_eqb (a b : list Z) : bool :=
  match a, b with
  | [], [] => true
  | x :: a', y :: b' => (x =? y) && list_eqb a' b'
  | _, _ => false
  end.
Fixpoint list_ltb (a b : list Z) : bool :=
  match a, b with
  | [], [] => false
  | [], _ :: _ => true
  | _ :: _, [] => false
  | x :: a', y :: b' => if x <? y then true else if y <? x then false else list_ltb a' b'
  end.
Definition rpc_eqb (a b : rpc) : bool := list_eqb (rpc_line a) (rpc_line b).

Fixpoint ins_rpc (x : rpc) (l : list rpc) : list rpc :=
  match l with
  | [] => [x]
  | y :: r => if list_ltb (rpc_key x) (rpc_key y) then x :: l else y :: ins_rpc x r
  end.
Definition sort_rpcs (l : list rpc) : list rpc := fold_right ins_rpc [] l.

(* pool entry *)
Record pent := { p_id : Z; p_rpc : rpc; p_st : Z (* 0 parked, 1 callee running, 2 executed *);
                 p_res : list Z (* reply: class :: payload *);
                 p_tr : list (Z * Z * list (Z * Z)) (* tract list of a GetTracts/ExtendBlob reply: (index, version, (host, address known)s) *);
                 p_lose : bool; p_auto : bool;
                 p_owner : Z (* curator task waiting for the reply, 0 = nobody *) }.

(* ------------------------------------------------------------------ curator tasks *)
Record task := { t_op : Z; t_kind : Z (* 5 replicate, 6 fixVersion *); t_gen : Z; t_term : Z;
                 t_blob : Z; t_tract : Z;
                 t_phase : Z (* 0 waiting for the tract lock, 1 bumping, 2 pulling *);
                 t_dv : Z; t_ok : list Z; t_bad : list Z; t_new : list Z; t_wait : Z;
                 t_cliver : Z; t_badts : Z; t_rpc : Z (* pool id of the FixVersion RPC it serves, 0 = none *) }.

(* client knowledge: a location entry delivered to a client *)
Record kent := { ke_cli : Z; ke_tk : tkt; ke_ver : Z; ke_hosts : list Z; ke_addr : list Z (* hosts whose address the reply carried *);
                 ke_durable : bool (* from GetTracts (true) or from ExtendBlob (false) *); ke_acks : Z (* writes acknowledged when the lookup ran *) }.

(* client operation in progress *)
Record cop := { o_id : Z; o_kind : Z; o_cli : Z; o_blob : Z; o_off : Z; o_len : Z; o_wid : Z;
                o_succ : list (tkt * Z * Z * Z * Z) (* tk, ts, version, off, len of accepted writes *);
                o_acked : list tkt (* tracts whose AckExtend was delivered OK *);
                o_reads : list (tkt * Z * Z * list (Z * Z)) (* tk, off, len, data runs; newest first *) }.

Record state := {
  s_reps : list (rkey * replica);
  s_blobs : list (Z * (Z * Z));          (* blob -> (repl, number of tracts) *)
  s_dtr : list (tkt * (Z * list Z));     (* tract key -> (version, hosts) *)
  s_term : Z;
  s_gen : Z;
  s_known : list (Z * list Z);           (* incarnation -> tractservers it has heard from *)
  s_nts : Z;
  s_tasks : list task;
  s_pool : list pent;
  s_next : Z;
  s_know : list kent;
  s_ops : list cop;
  s_fin : list (Z * Z);                  (* finished tasks: op -> error, until their FINTASK line *)
  s_done : list (rpc * Z);               (* completed long RPCs: descriptor -> class seen by the caller *)
  s_out : list Z;                        (* pool ids of the curator RPCs issued during the current event *)
  s_acked : list (Z * Z * wrec);         (* ghost: acknowledged writes (blob, wid, range in blob), newest first *)
  s_att : list (Z * Z * wrec);           (* ghost: every write attempt started (blob, wid, range in blob), newest first *)
  s_nsynth : Z
}.

Definition init_state : state :=
  {| s_reps := []; s_blobs := []; s_dtr := []; s_term := 1; s_gen := 1; s_known := []; s_nts := 0;
     s_tasks := []; s_pool := []; s_next := 1; s_know := []; s_ops := []; s_fin := []; s_done := [];
     s_out := []; s_acked := []; s_att := []; s_nsynth := 0 |}.

(* setters *)
Definition set_reps st v := {| s_reps := v; s_blobs := s_blobs st; s_dtr := s_dtr st; s_term := s_term st; s_gen := s_gen st; s_known := s_known st; s_nts := s_nts st; s_tasks := s_tasks st; s_pool := s_pool st; s_next := s_next st; s_know := s_know st; s_ops := s_ops st; s_fin := s_fin st; s_done := s_done st; s_out := s_out st; s_acked := s_acked st; s_att := s_att st; s_nsynth := s_nsynth st |}.
Definition set_blobs st v := {| s_reps := s_reps st; s_blobs := v; s_dtr := s_dtr st; s_term := s_term st; s_gen := s_gen st; s_known := s_known st; s_nts := s_nts st; s_tasks := s_tasks st; s_pool := s_pool st; s_next := s_next st; s_know := s_know st; s_ops := s_ops st; s_fin := s_fin st; s_done := s_done st; s_out := s_out st; s_acked := s_acked st; s_att := s_att st; s_nsynth := s_nsynth st |}.
Definition set_dtr st v := {| s_reps := s_reps st; s_blobs := s_blobs st; s_dtr := v; s_term := s_term st; s_gen := s_gen st; s_known := s_known st; s_nts := s_nts st; s_tasks := s_tasks st; s_pool := s_pool st; s_next := s_next st; s_know := s_know st; s_ops := s_ops st; s_fin := s_fin st; s_done := s_done st; s_out := s_out st; s_acked := s_acked st; s_att := s_att st; s_nsynth := s_nsynth st |}.
Definition set_term_gen st t g k := {| s_reps := s_reps st; s_blobs := s_blobs st; s_dtr := s_dtr st; s_term := t; s_gen := g; s_known := k; s_nts := s_nts st; s_tasks := s_tasks st; s_pool := s_pool st; s_next := s_next st; s_know := s_know st; s_ops := s_ops st; s_fin := s_fin st; s_done := s_done st; s_out := s_out st; s_acked := s_acked st; s_att := s_att st; s_nsynth := s_nsynth st |}.
Definition set_nts st v := {| s_reps := s_reps st; s_blobs := s_blobs st; s_dtr := s_dtr st; s_term := s_term st; s_gen := s_gen st; s_known := s_known st; s_nts := v; s_tasks := s_tasks st; s_pool := s_pool st; s_next := s_next st; s_know := s_know st; s_ops := s_ops st; s_fin := s_fin st; s_done := s_done st; s_out := s_out st; s_acked := s_acked st; s_att := s_att st; s_nsynth := s_nsynth st |}.
Definition set_tasks st v := {| s_reps := s_reps st; s_blobs := s_blobs st; s_dtr := s_dtr st; s_term := s_term st; s_gen := s_gen st; s_known := s_known st; s_nts := s_nts st; s_tasks := v; s_pool := s_pool st; s_next := s_next st; s_know := s_know st; s_ops := s_ops st; s_fin := s_fin st; s_done := s_done st; s_out := s_out st; s_acked := s_acked st; s_att := s_att st; s_nsynth := s_nsynth st |}.
Definition set_pool st v := {| s_reps := s_reps st; s_blobs := s_blobs st; s_dtr := s_dtr st; s_term := s_term st; s_gen := s_gen st; s_known := s_known st; s_nts := s_nts st; s_tasks := s_tasks st; s_pool := v; s_next := s_next st; s_know := s_know st; s_ops := s_ops st; s_fin := s_fin st; s_done := s_done st; s_out := s_out st; s_acked := s_acked st; s_att := s_att st; s_nsynth := s_nsynth st |}.
Definition set_next st v := {| s_reps := s_reps st; s_blobs := s_blobs st; s_dtr := s_dtr st; s_term := s_term st; s_gen := s_gen st; s_known := s_known st; s_nts := s_nts st; s_tasks := s_tasks st; s_pool := s_pool st; s_next := v; s_know := s_know st; s_ops := s_ops st; s_fin := s_fin st; s_done := s_done st; s_out := s_out st; s_acked := s_acked st; s_att := s_att st; s_nsynth := s_nsynth st |}.
Definition set_know st v := {| s_reps := s_reps st; s_blobs := s_blobs st; s_dtr := s_dtr st; s_term := s_term st; s_gen := s_gen st; s_known := s_known st; s_nts := s_nts st; s_tasks := s_tasks st; s_pool := s_pool st; s_next := s_next st; s_know := v; s_ops := s_ops st; s_fin := s_fin st; s_done := s_done st; s_out := s_out st; s_acked := s_acked st; s_att := s_att st; s_nsynth := s_nsynth st |}.
Definition set_ops st v := {| s_reps := s_reps st; s_blobs := s_blobs st; s_dtr := s_dtr st; s_term := s_term st; s_gen := s_gen st; s_known := s_known st; s_nts := s_nts st; s_tasks := s_tasks st; s_pool := s_pool st; s_next := s_next st; s_know := s_know st; s_ops := v; s_fin := s_fin st; s_done := s_done st; s_out := s_out st; s_acked := s_acked st; s_att := s_att st; s_nsynth := s_nsynth st |}.
Definition set_fin st v := {| s_reps := s_reps st; s_blobs := s_blobs st; s_dtr := s_dtr st; s_term := s_term st; s_gen := s_gen st; s_known := s_known st; s_nts := s_nts st; s_tasks := s_tasks st; s_pool := s_pool st; s_next := s_next st; s_know := s_know st; s_ops := s_ops st; s_fin := v; s_done := s_done st; s_out := s_out st; s_acked := s_acked st; s_att := s_att st; s_nsynth := s_nsynth st |}.
Definition set_done st v := {| s_reps := s_reps st; s_blobs := s_blobs st; s_dtr := s_dtr st; s_term := s_term st; s_gen := s_gen st; s_known := s_known st; s_nts := s_nts st; s_tasks := s_tasks st; s_pool := s_pool st; s_next := s_next st; s_know := s_know st; s_ops := s_ops st; s_fin := s_fin st; s_done := v; s_out := s_out st; s_acked := s_acked st; s_att := s_att st; s_nsynth := s_nsynth st |}.
Definition set_out st v := {| s_reps := s_reps st; s_blobs := s_blobs st; s_dtr := s_dtr st; s_term := s_term st; s_gen := s_gen st; s_known := s_known st; s_nts := s_nts st; s_tasks := s_tasks st; s_pool := s_pool st; s_next := s_next st; s_know := s_know st; s_ops := s_ops st; s_fin := s_fin st; s_done := s_done st; s_out := v; s_acked := s_acked st; s_att := s_att st; s_nsynth := s_nsynth st |}.
Definition set_acked st v := {| s_reps := s_reps st; s_blobs := s_blobs st; s_dtr := s_dtr st; s_term := s_term st; s_gen := s_gen st; s_known := s_known st; s_nts := s_nts st; s_tasks := s_tasks st; s_pool := s_pool st; s_next := s_next st; s_know := s_know st; s_ops := s_ops st; s_fin := s_fin st; s_done := s_done st; s_out := s_out st; s_acked := v; s_att := s_att st; s_nsynth := s_nsynth st |}.
Definition set_att st v := {| s_reps := s_reps st; s_blobs := s_blobs st; s_dtr := s_dtr st; s_term := s_term st; s_gen := s_gen st; s_known := s_known st; s_nts := s_nts st; s_tasks := s_tasks st; s_pool := s_pool st; s_next := s_next st; s_know := s_know st; s_ops := s_ops st; s_fin := s_fin st; s_done := s_done st; s_out := s_out st; s_acked := s_acked st; s_att := v; s_nsynth := s_nsynth st |}.
Definition set_nsynth st v := {| s_reps := s_reps st; s_blobs := s_blobs st; s_dtr := s_dtr st; s_term := s_term st; s_gen := s_gen st; s_known := s_known st; s_nts := s_nts st; s_tasks := s_tasks st; s_pool := s_pool st; s_next := s_next st; s_know := s_know st; s_ops := s_ops st; s_fin := s_fin st; s_done := s_done st; s_out := s_out st; s_acked := s_acked st; s_att := s_att st; s_nsynth := v |}.

(* ------------------------------------------------------------------ tractserver (Store) *)
Definition mkw (wid off len : Z) : wrec := {| w_id := wid; w_off := off; w_len := len |}.

(* t.write(b, off): a zero-length write at offset 0 changes nothing *)
Definition app_write (app : list wrec) (wid off len : Z) : list wrec :=
  if len <=? 0 then app else mkw wid off len :: app.

(* Store.doWrite: openExisting; checkVersion (==); write *)
Definition ts_write (reps : list (rkey * replica)) (ts : Z) (tk : tkt) (ver wid off len : Z) : list (rkey * replica) * Z :=
  match rget reps (ts, tk) with
  | None => (reps, cl_ErrNoSuchTract)
  | Some r =>
      if r_ver r =? ver
      then (rset reps (ts, tk) {| r_ver := r_ver r; r_app := app_write (r_app r) wid off len |}, cl_NoError)
      else (reps, cl_ErrVersionMismatch)
  end.

(* TSSrvHandler.CreateTract + Store.Create: HasID; doCreate at version 1; ErrAlreadyExists => doWrite at version 1 *)
Definition ts_create (reps : list (rkey * replica)) (ts tsid : Z) (tk : tkt) (wid off len : Z) : list (rkey * replica) * Z :=
  if negb (ts =? tsid) then (reps, cl_ErrWrongTractserver)
  else match rget reps (ts, tk) with
       | None => (rset reps (ts, tk) {| r_ver := 1; r_app := app_write [] wid off len |}, cl_NoError)
       | Some _ => ts_write reps ts tk 1 wid off len
       end.

(* Store.Read: (class, number of bytes, runs) *)
Definition ts_read (reps : list (rkey * replica)) (ts : Z) (tk : tkt) (ver len off : Z) : Z * Z * list (Z * Z) :=
  match rget reps (ts, tk) with
  | None => (cl_ErrNoSuchTract, 0, [])
  | Some r =>
      if negb (r_ver r =? ver) then (cl_ErrVersionMismatch, 0, [])
      else let sz := app_len (r_app r) in
           let hi := Z.min (off + len) sz in
           let n := Z.max 0 (hi - off) in
           ((if n =? len then cl_NoError else cl_ErrEOF), n, render (r_app r) off hi)
  end.

(* TSCtlHandler.SetVersion + Store.SetVersion + bumpVersion *)
Definition ts_setversion (reps : list (rkey * replica)) (ts tsid : Z) (tk : tkt) (nv : Z) : list (rkey * replica) * Z :=
  if negb (ts =? tsid) then (reps, cl_ErrWrongTractserver)
  else if nv <=? 1 then (reps, cl_ErrBadVersion)
  else match rget reps (ts, tk) with
       | None => (reps, cl_ErrNoSuchTract)
       | Some r =>
           if nv <=? r_ver r then (reps, cl_NoError)
           else if r_ver r + 1 =? nv then (rset reps (ts, tk) {| r_ver := nv; r_app := r_app r |}, cl_NoError)
           else (reps, cl_ErrVersionMismatch)
       end.

(* Store.pullTractOnce from one source *)
Definition pull_once (reps : list (rkey * replica)) (nts ts : Z) (tk : tkt) (ver src : Z) : list (rkey * replica) * Z :=
  let '(reps1, stop) :=
    match rget reps (ts, tk) with
    | Some r => if ver <? r_ver r then (reps, true) else (rdel reps (ts, tk), false)
    | None => (reps, false)
    end in
  if stop then (reps, cl_ErrInvalidState)
  else if (src <=? 0) || (nts <? src) then (reps1, cl_ErrRPC)
  else match rget reps1 (src, tk) with
       | None => (reps1, cl_ErrNoSuchTract)
       | Some s => if r_ver s =? ver
                   then (rset reps1 (ts, tk) {| r_ver := ver; r_app := r_app s |}, cl_NoError)
                   else (reps1, cl_ErrVersionMismatch)
       end.

Fixpoint pull_loop (reps : list (rkey * replica)) (nts ts : Z) (tk : tkt) (ver : Z) (srcs : list Z) (last : Z) : list (rkey * replica) * Z :=
  match srcs with
  | [] => (reps, last)
  | s :: r => let '(reps', e) := pull_once reps nts ts tk ver s in
              if e =? cl_NoError then (reps', e) else pull_loop reps' nts ts tk ver r e
  end.

Definition ts_pull (reps : list (rkey * replica)) (nts ts tsid : Z) (tk : tkt) (ver : Z) (srcs : list Z) : list (rkey * replica) * Z :=
  if negb (ts =? tsid) then (reps, cl_ErrWrongTractserver)
  else pull_loop reps nts ts tk ver srcs cl_NoError.

(* a tractserver crash in the middle of PullTract: the first source that answers gets the pull as far as
   doCreate, which creates the local file and records its version BEFORE writing the data; the process
   dies at the data write, so an empty copy that already carries the version stays behind *)
Fixpoint pull_crash (reps : list (rkey * replica)) (nts ts : Z) (tk : tkt) (ver : Z) (srcs : list Z) : list (rkey * replica) :=
  match srcs with
  | [] => reps
  | s :: r => let '(reps', e) := pull_once reps nts ts tk ver s in
              if e =? cl_NoError then rset reps' (ts, tk) {| r_ver := ver; r_app := [] |}
              else pull_crash reps' nts ts tk ver r
  end.

Definition dump_replica (reps : list (rkey * replica)) (ts : Z) (tk : tkt) : list Z :=
  match rget reps (ts, tk) with
  | None => [0]
  | Some r => let sz := app_len (r_app r) in [1; r_ver r; sz] ++ flat_runs (render (r_app r) 0 sz)
  end.

(* ------------------------------------------------------------------ durable state *)
(* Txn.ChangeTract under ProposeIfTerm *)
Definition change_tract (st : state) (term blob tract ver : Z) (hosts : list Z) : state * Z :=
  if negb (term =? s_term st) then (st, cl_ErrLeaderContinuityBroken)
  else match zget (s_blobs st) blob with
       | None => (st, cl_ErrNoSuchBlob)
       | Some (_, nt) =>
           if nt <? tract then (st, cl_ErrNoSuchTract)
           else match tget (s_dtr st) (tkey blob tract) with
                | None => (st, cl_ErrNoSuchTract)
                | Some (dv, hs) =>
                    if negb (Z.of_nat (length hs) =? Z.of_nat (length hosts)) then (st, cl_ErrInvalidArgument)
                    else if negb (dv + 1 =? ver) then (st, cl_ErrConflictingState)
                    else (set_dtr st (tset (s_dtr st) (tkey blob tract) (ver, hosts)), cl_NoError)
                end
       end.

Definition known_of (st : state) (gen : Z) : list Z :=
  match zget (s_known st) gen with Some l => l | None => [] end.

(* ------------------------------------------------------------------ pool helpers *)
Definition issue (st : state) (r : rpc) (owner : Z) : state :=
  let e := {| p_id := s_next st; p_rpc := r; p_st := 0; p_res := []; p_tr := []; p_lose := false; p_auto := true; p_owner := owner |} in
  set_next (set_pool st (s_pool st ++ [e])) (s_next st + 1).

Definition issue_cur (st : state) (r : rpc) (owner : Z) : state :=
  let st1 := issue st r owner in set_out st1 (s_out st1 ++ [s_next st]).

Fixpoint find_pent (pool : list pent) (r : rpc) (st_wanted : Z) : option pent :=
  match pool with
  | [] => None
  | e :: rest => if rpc_eqb (p_rpc e) r && (p_st e =? st_wanted) then Some e else find_pent rest r st_wanted
  end.

Definition pool_remove (pool : list pent) (id : Z) : list pent := filter (fun e => negb (p_id e =? id)) pool.
Definition pool_update (pool : list pent) (e' : pent) : list pent :=
  map (fun e => if p_id e =? p_id e' then e' else e) pool.

Definition upd_task (ts : list task) (t' : task) : list task :=
  map (fun t => if t_op t =? t_op t' then t' else t) ts.
Definition del_task (ts : list task) (op : Z) : list task := filter (fun t => negb (t_op t =? op)) ts.
Fixpoint find_task (ts : list task) (op : Z) : option task :=
  match ts with [] => None | t :: r => if t_op t =? op then Some t else find_task r op end.

Definition mk_setversion (gen ts blob tract nv : Z) : rpc :=
  {| k_kind := K_SetVersion; k_cli := -1; k_gen := gen; k_ts := ts; k_blob := blob; k_tract := tract;
     k_ver := nv; k_off := 0; k_len := 0; k_wid := 0; k_aux := [ts; 0] |}.
Definition mk_pull (gen ts blob tract nv : Z) (from : list Z) : rpc :=
  {| k_kind := K_PullTract; k_cli := -1; k_gen := gen; k_ts := ts; k_blob := blob; k_tract := tract;
     k_ver := nv; k_off := 0; k_len := 0; k_wid := 0; k_aux := ts :: fold_right insert_sorted [] from |}.

(* a task holds the tract lock of its incarnation while its phase is 1 or 2 *)
Definition lock_held (ts : list task) (gen blob tract : Z) : bool :=
  existsb (fun t => (t_gen t =? gen) && (t_blob t =? blob) && (t_tract t =? tract) && (0 <? t_phase t)) ts.

Definition subset (a b : list Z) : bool := forallb (fun x => zmem x b) a.
Fixpoint distinct (l : list Z) : bool :=
  match l with [] => true | x :: r => negb (zmem x r) && distinct r end.

(* the task is over: record its result, free it, complete the FixVersion RPC it served *)
Definition finish_task (st : state) (t : task) (err : Z) : state :=
  let st1 := set_tasks st (del_task (s_tasks st) (t_op t)) in
  (* replies still outstanding lose their owner *)
  let st2 := set_pool st1 (map (fun e => if p_owner e =? t_op t
                                         then {| p_id := p_id e; p_rpc := p_rpc e; p_st := p_st e; p_res := p_res e; p_tr := p_tr e;
                                                 p_lose := p_lose e; p_auto := p_auto e; p_owner := 0 |}
                                         else e) (s_pool st1)) in
  if t_rpc t =? 0 then set_fin st2 (s_fin st2 ++ [(t_op t, err)])
  else (* the FixVersion RPC's callee returned *)
    set_pool st2 (map (fun e => if p_id e =? t_rpc t
                                then {| p_id := p_id e; p_rpc := p_rpc e; p_st := 2; p_res := [err]; p_tr := p_tr e;
                                        p_lose := p_lose e; p_auto := p_auto e; p_owner := p_owner e |}
                                else e) (s_pool st2)).

(* body of replicateTract / fixVersion once the tract lock is held: up to the fan-out of SetVersion *)
Definition activate (st : state) (t : task) : state :=
  let term := if t_kind t =? 5 then s_term st else t_term t in
  let known := known_of st (t_gen t) in
  match zget (s_blobs st) (t_blob t) with
  | None => finish_task st t cl_ErrNoSuchBlob
  | Some (_, nt) =>
      if nt <=? t_tract t then finish_task st t cl_ErrNoSuchTract
      else match tget (s_dtr st) (tkey (t_blob t) (t_tract t)) with
           | None => finish_task st t cl_ErrNoSuchTract
           | Some (dv, hosts) =>
               if t_kind t =? 5 then
                 let ok := filter (fun h => negb (zmem h (t_bad t))) hosts in
                 if Z.of_nat (length ok) =? 0 then finish_task st t cl_ErrAllocHost
                 else if Z.of_nat (length ok) =? Z.of_nat (length hosts) then finish_task st t cl_ErrInvalidArgument
                 else if negb (subset ok known) then finish_task st t cl_ErrHostNotExist
                 else
                   let t' := {| t_op := t_op t; t_kind := 5; t_gen := t_gen t; t_term := term; t_blob := t_blob t; t_tract := t_tract t;
                                t_phase := 1; t_dv := dv; t_ok := ok; t_bad := t_bad t; t_new := []; t_wait := Z.of_nat (length ok);
                                t_cliver := 0; t_badts := 0; t_rpc := t_rpc t |} in
                   let st1 := set_tasks st (upd_task (s_tasks st) t') in
                   fold_left (fun s h => issue_cur s (mk_setversion (t_gen t) h (t_blob t) (t_tract t) (dv + 1)) (t_op t)) ok st1
               else
                 if negb (zmem (t_badts t) hosts) then finish_task st t cl_ErrInvalidArgument
                 else if negb (t_cliver t =? dv) then finish_task st t cl_ErrInvalidArgument
                 else if negb (subset hosts known) then finish_task st t cl_ErrHostNotExist
                 else
                   let t' := {| t_op := t_op t; t_kind := 6; t_gen := t_gen t; t_term := term; t_blob := t_blob t; t_tract := t_tract t;
                                t_phase := 1; t_dv := dv; t_ok := hosts; t_bad := []; t_new := []; t_wait := Z.of_nat (length hosts);
                                t_cliver := t_cliver t; t_badts := t_badts t; t_rpc := t_rpc t |} in
                   let st1 := set_tasks st (upd_task (s_tasks st) t') in
                   fold_left (fun s h => issue_cur s (mk_setversion (t_gen t) h (t_blob t) (t_tract t) (dv + 1)) (t_op t)) hosts st1
           end
  end.

(* wake the first waiter of every free tract lock (one waiter per lock is all the harness creates) *)
Fixpoint wake (fuel : nat) (st : state) : state :=
  match fuel with
  | O => st
  | S f =>
      match find (fun t => (t_phase t =? 0) && negb (lock_held (s_tasks st) (t_gen t) (t_blob t) (t_tract t))) (s_tasks st) with
      | None => st
      | Some t => wake f (activate st t)
      end
  end.

(* start of a task: fixVersion reads the term and resolves the complained-about address first *)
Definition start_task (st : state) (t : task) : state :=
  let st1 := set_tasks st (s_tasks st ++ [t]) in
  if (t_kind t =? 6) && negb (zmem (t_badts t) (known_of st (t_gen t))) then finish_task st1 t cl_ErrHostNotExist
  else wake 8 st1.

(* oracle inputs travel as one list: placement choice, then -1, then the durable host order after the event *)
Fixpoint before_sep (l : list Z) : list Z :=
  match l with [] => [] | x :: r => if x =? -1 then [] else x :: before_sep r end.
Fixpoint after_sep (l : list Z) : list Z :=
  match l with [] => [] | x :: r => if x =? -1 then r else after_sep r end.
Definition is_perm (a b : list Z) : bool :=
  (Z.of_nat (length a) =? Z.of_nat (length b)) && subset a b && subset b a.

(* a reply (or an RPC error) reaches the task that waits for it; 'hint0' = oracle inputs *)
Definition task_reply (st : state) (op : Z) (err : Z) (hint0 : list Z) : state :=
  let hint := before_sep hint0 in
  match find_task (s_tasks st) op with
  | None => st
  | Some t =>
      if negb (err =? cl_NoError) then wake 8 (finish_task st t err)
      else if 1 <? t_wait t then
        set_tasks st (upd_task (s_tasks st)
          {| t_op := t_op t; t_kind := t_kind t; t_gen := t_gen t; t_term := t_term t; t_blob := t_blob t; t_tract := t_tract t;
             t_phase := t_phase t; t_dv := t_dv t; t_ok := t_ok t; t_bad := t_bad t; t_new := t_new t; t_wait := t_wait t - 1;
             t_cliver := t_cliver t; t_badts := t_badts t; t_rpc := t_rpc t |})
      else if (t_kind t =? 5) && (t_phase t =? 1) then
        (* all survivors bumped: allocateTS(len(bad), ok, bad), then the pulls *)
        let known := known_of st (t_gen t) in
        let cands := filter (fun h => negb (zmem h (t_ok t)) && negb (zmem h (t_bad t))) known in
        let need := Z.of_nat (length (t_bad t)) in
        if negb (subset (t_bad t) known) || (Z.of_nat (length cands) <? need) then wake 8 (finish_task st t cl_ErrAllocHost)
        else if negb ((Z.of_nat (length hint) =? need) && subset hint cands && distinct hint) then
          (* the implementation's choice is not an allowed one: flag it by finishing with an impossible code *)
          wake 8 (finish_task st t (-7))
        else
          let t' := {| t_op := t_op t; t_kind := 5; t_gen := t_gen t; t_term := t_term t; t_blob := t_blob t; t_tract := t_tract t;
                       t_phase := 2; t_dv := t_dv t; t_ok := t_ok t; t_bad := t_bad t; t_new := hint; t_wait := need;
                       t_cliver := 0; t_badts := 0; t_rpc := t_rpc t |} in
          let st1 := set_tasks st (upd_task (s_tasks st) t') in
          fold_left (fun s h => issue_cur s (mk_pull (t_gen t) h (t_blob t) (t_tract t) (t_dv t + 1) (t_ok t)) (t_op t)) hint st1
      else
        (* commit *)
        let hosts0 := if t_kind t =? 5 then t_ok t ++ t_new t else t_ok t in
        (* append(okIds, newIds...): the order of newIds is placement's; take it from the durable record if it is a permutation *)
        let hosts := if is_perm (after_sep hint0) hosts0 then after_sep hint0 else hosts0 in
        let '(st1, e) := change_tract st (t_term t) (t_blob t) (t_tract t) (t_dv t + 1) hosts in
        wake 8 (finish_task st1 t e)
  end.

(* ------------------------------------------------------------------ client bookkeeping *)
Fixpoint find_op (ops : list cop) (id : Z) : option cop :=
  match ops with [] => None | o :: r => if o_id o =? id then Some o else find_op r id end.
Definition upd_op (ops : list cop) (o' : cop) : list cop := map (fun o => if o_id o =? o_id o' then o' else o) ops.
Definition del_op (ops : list cop) (id : Z) : list cop := filter (fun o => negb (o_id o =? id)) ops.

(* the operation a client RPC belongs to: the client's only operation in progress *)
Definition op_of_client (ops : list cop) (cli : Z) : option cop := find (fun o => o_cli o =? cli) ops.

(* tract lists on the wire: ntr (idx ver nh (tsid known)* )*   [flags = true]
                            ntr (idx ver nh tsid* )*           [flags = false] *)
Fixpoint take_hosts (flags : bool) (n : nat) (l : list Z) : list (Z * Z) * list Z :=
  match n with
  | O => ([], l)
  | S n' => if flags then
              match l with
              | h :: kn :: r => let '(hs, r') := take_hosts flags n' r in ((h, kn) :: hs, r')
              | _ => ([], [])
              end
            else
              match l with
              | h :: r => let '(hs, r') := take_hosts flags n' r in ((h, 1) :: hs, r')
              | _ => ([], [])
              end
  end.
Fixpoint take_tracts (flags : bool) (n : nat) (l : list Z) : list (Z * Z * list (Z * Z)) :=
  match n with
  | O => []
  | S n' => match l with
            | idx :: ver :: nh :: r =>
                let '(hs, r') := take_hosts flags (Z.to_nat nh) r in (idx, ver, hs) :: take_tracts flags n' r'
            | _ => []
            end
  end.
Definition decode_tracts (flags : bool) (l : list Z) : list (Z * Z * list (Z * Z)) :=
  match l with n :: r => take_tracts flags (Z.to_nat n) r | [] => [] end.

Fixpoint pairs (l : list Z) : list (Z * Z) :=
  match l with a :: b :: r => (a, b) :: pairs r | _ => [] end.

Definition set_op_fields (o : cop) succ acked reads : cop :=
  {| o_id := o_id o; o_kind := o_kind o; o_cli := o_cli o; o_blob := o_blob o; o_off := o_off o; o_len := o_len o; o_wid := o_wid o;
     o_succ := succ; o_acked := acked; o_reads := reads |}.

(* delivery of a reply to a CLIENT: what the client learns *)
Definition mk_kent (cli blob : Z) (durable : bool) (acks : Z) (x : Z * Z * list (Z * Z)) : kent :=
  let '(idx, ver, hs) := x in
  {| ke_cli := cli; ke_tk := tkey blob idx; ke_ver := ver; ke_hosts := map fst hs;
     ke_addr := map fst (filter (fun '(_, kn) => negb (kn =? 0)) hs); ke_durable := durable; ke_acks := acks |}.

Definition client_learns (st : state) (r : rpc) (res : list Z) (tr : list (Z * Z * list (Z * Z))) : state :=
  match res with
  | [] => st
  | cls :: payload =>
      if k_kind r =? K_GetTracts then
        if negb (cls =? cl_NoError) then st
        else set_know st (map (mk_kent (k_cli r) (k_blob r) true (hd 0 payload)) tr ++ s_know st)
      else if k_kind r =? K_ExtendBlob then
        if negb (cls =? cl_NoError) then st
        else set_know st (map (mk_kent (k_cli r) (k_blob r) false 0) tr ++ s_know st)
      else match op_of_client (s_ops st) (k_cli r) with
           | None => st
           | Some o =>
               if ((k_kind r =? K_Write) || (k_kind r =? K_Create)) && (cls =? cl_NoError) && ((k_wid r =? o_wid o) || (k_len r =? 0)) then
                 let v := if k_kind r =? K_Create then 1 else k_ver r in
                 set_ops st (upd_op (s_ops st)
                   (set_op_fields o ((tkey (k_blob r) (k_tract r), k_ts r, v, k_off r, k_len r) :: o_succ o) (o_acked o) (o_reads o)))
               else if (k_kind r =? K_AckExtend) && (cls =? cl_NoError) then
                 set_ops st (upd_op (s_ops st)
                   (set_op_fields o (o_succ o)
                      (map (fun '(idx, _, _) => tkey (k_blob r) idx) (decode_tracts false (k_aux r)) ++ o_acked o) (o_reads o)))
               else if (k_kind r =? K_Read) && ((cls =? cl_NoError) || (cls =? cl_ErrEOF)) then
                 set_ops st (upd_op (s_ops st)
                   (set_op_fields o (o_succ o) (o_acked o)
                      ((tkey (k_blob r) (k_tract r), k_off r, k_len r, pairs (tl (tl payload))) :: o_reads o)))
               else st
           end
  end.

(* the caller of pool entry e is resumed with its reply (delivered) or with an RPC error *)
Definition resume (st : state) (e : pent) (delivered : bool) (hint : list Z) : state :=
  let st1 := set_pool st (pool_remove (s_pool st) (p_id e)) in
  let r := p_rpc e in
  if k_cli r <? 0 then
    let err := if delivered then hd cl_ErrRPC (p_res e) else cl_ErrRPC in
    if p_owner e =? 0 then st1 else task_reply st1 (p_owner e) err hint
  else
    let st2 := if k_kind r =? K_FixVersion
               then set_done st1 (s_done st1 ++ [(r, if delivered then hd cl_ErrRPC (p_res e) else cl_ErrRPC)])
               else st1 in
    if delivered then client_learns st2 r (p_res e) (p_tr e) else st2.

(* deliver every executed auto-send reply (a task that finishes may complete the FixVersion RPC it serves) *)
Fixpoint flush (fuel : nat) (st : state) (hint : list Z) : state :=
  match fuel with
  | O => st
  | S f =>
      match find (fun e => (p_st e =? 2) && p_auto e) (s_pool st) with
      | None => st
      | Some e => flush f (resume st e (negb (p_lose e)) hint) hint
      end
  end.

(* ------------------------------------------------------------------ executing an RPC at its callee *)
Definition aux_nth (r : rpc) (i : nat) : Z := nth i (k_aux r) 0.

(* Curator.ackExtend -> StateHandler.ExtendBlob -> ExtendBlobCommand.apply *)
Definition ack_extend (st : state) (blob : Z) (trs : list (Z * Z * list (Z * Z))) : state * Z :=
  match trs with
  | [] => (st, cl_NoError)
  | (first, _, _) :: _ =>
      if 20 <? Z.of_nat (length trs) then (st, cl_ErrTooBig)
      else match zget (s_blobs st) blob with
           | None => (st, cl_ErrNoSuchBlob)
           | Some (repl, nt) =>
               if negb (first =? nt) then (st, cl_ErrExtendConflict)
               else if negb (forallb (fun '(_, _, hs) => Z.of_nat (length hs) =? repl) trs) then (st, cl_ErrInvalidArgument)
               else
                 let dtr' := fst (fold_left (fun '(m, i) '(_, _, hs) => (tset m (tkey blob i) (1, map fst hs), i + 1)) trs (s_dtr st, nt)) in
                 (set_blobs (set_dtr st dtr') (zset (s_blobs st) blob (repl, nt + Z.of_nat (length trs))), cl_NoError)
           end
  end.

(* returns the new state and the reply (class :: payload); 'oracle' carries the ExtendBlob placement *)
Definition tracts_of_range (st : state) (gen blob start stop : Z) : list (Z * Z * list (Z * Z)) :=
  let known := known_of st gen in
  map (fun i => let idx := start + Z.of_nat i in
                match tget (s_dtr st) (tkey blob idx) with
                | Some (dv, hs) => (idx, dv, map (fun h => (h, if zmem h known then 1 else 0)) (fold_right insert_sorted [] hs))
                | None => (idx, 0, [])
                end) (seq 0 (Z.to_nat (stop - start))).

Definition enc_tr (trs : list (Z * Z * list (Z * Z))) : list Z :=
  Z.of_nat (length trs) ::
  flat_map (fun '(idx, ver, hs) => [idx; ver; Z.of_nat (length hs)] ++ flat_map (fun '(h, kn) => [h; kn]) hs) trs.

(* the part of exec_rpc that answers a curator-bound client RPC with a tract list *)
Definition exec_gettracts (st : state) (r : rpc) : list Z * list (Z * Z * list (Z * Z)) :=
  let start := nth 0 (k_aux r) 0 in let stop := nth 1 (k_aux r) 0 in
  match zget (s_blobs st) (k_blob r) with
  | None => ([cl_ErrNoSuchBlob], [])
  | Some (_, nt) =>
      if (start <? 0) || (stop <? start) then ([cl_ErrInvalidArgument], [])
      else if start =? stop then ([cl_NoError; Z.of_nat (length (s_acked st)); 0], [])
      else if nt <=? start then ([cl_ErrNoSuchTract], [])
      else let trs := tracts_of_range st (s_gen st) (k_blob r) start (Z.min stop nt) in
           (cl_NoError :: Z.of_nat (length (s_acked st)) :: enc_tr trs, trs)
  end.

(* Curator.extend: nothing durable; placement is an oracle input, validated *)
Definition exec_extend (st : state) (r : rpc) (oracle : list Z) : list Z * list (Z * Z * list (Z * Z)) :=
  match zget (s_blobs st) (k_blob r) with
  | None => ([cl_ErrNoSuchBlob], [])
  | Some (repl, nt) =>
      let want := nth 0 (k_aux r) 0 - nt in
      if want <=? 0 then ([cl_NoError; 0], [])
      else if 20 <? want then ([cl_ErrTooBig], [])
      else
        let known := known_of st (s_gen st) in
        if Z.of_nat (length known) <? repl then ([cl_ErrAllocHost], [])
        else
          let trs := decode_tracts true oracle in
          let okshape := (Z.of_nat (length trs) =? want) &&
                         forallb (fun '(idx, ver, hs) => (ver =? 1) && (Z.of_nat (length hs) =? repl) &&
                                                         subset (map fst hs) known && distinct (map fst hs) &&
                                                         forallb (fun '(_, kn) => kn =? 1) hs) trs &&
                         list_eqb (map (fun '(idx, _, _) => idx) trs) (map (fun i => nt + Z.of_nat i) (seq 0 (Z.to_nat want))) in
          if okshape then (cl_NoError :: oracle, trs) else ([-4], [])
  end.

(* returns the new state, the reply (class :: payload) and, for GetTracts/ExtendBlob, the tract list of the reply *)
Definition exec_rpc (st : state) (e : pent) (oracle : list Z) : state * list Z * list (Z * Z * list (Z * Z)) :=
  let r := p_rpc e in
  let tk := tkey (k_blob r) (k_tract r) in
  let k := k_kind r in
  if k =? K_Write then
    let '(reps, c) := ts_write (s_reps st) (k_ts r) tk (k_ver r) (k_wid r) (k_off r) (k_len r) in (set_reps st reps, [c], [])
  else if k =? K_Create then
    let '(reps, c) := ts_create (s_reps st) (k_ts r) (aux_nth r 0) tk (k_wid r) (k_off r) (k_len r) in (set_reps st reps, [c], [])
  else if k =? K_Read then
    let '(c, n, runs) := ts_read (s_reps st) (k_ts r) tk (k_ver r) (k_len r) (k_off r) in
    (st, (if (c =? cl_NoError) || (c =? cl_ErrEOF) then c :: n :: flat_runs runs else [c]), [])
  else if k =? K_SetVersion then
    let '(reps, c) := ts_setversion (s_reps st) (k_ts r) (aux_nth r 0) tk (k_ver r) in (set_reps st reps, [c], [])
  else if k =? K_PullTract then
    let '(reps, c) := ts_pull (s_reps st) (s_nts st) (k_ts r) (aux_nth r 0) tk (k_ver r) (tl (k_aux r)) in (set_reps st reps, [c], [])
  else if k =? K_StatBlob then
    match zget (s_blobs st) (k_blob r) with
    | Some (_, nt) => (st, [cl_NoError; nt], [])
    | None => (st, [cl_ErrNoSuchBlob], [])
    end
  else if k =? K_GetTracts then let '(res, trs) := exec_gettracts st r in (st, res, trs)
  else if k =? K_ExtendBlob then let '(res, trs) := exec_extend st r oracle in (st, res, trs)
  else if k =? K_AckExtend then
    let '(st', c) := ack_extend st (k_blob r) (decode_tracts false (k_aux r)) in (st', [c], [])
  else if k =? K_ReportBadTS then
    (st, [if zmem (aux_nth r 0) (known_of st (s_gen st)) then cl_NoError else cl_ErrHostNotExist], [])
  else (st, [-1], []).

Definition set_pent (e : pent) (stt : Z) (res : list Z) (tr : list (Z * Z * list (Z * Z))) (lose auto : bool) : pent :=
  {| p_id := p_id e; p_rpc := p_rpc e; p_st := stt; p_res := res; p_tr := tr; p_lose := lose; p_auto := auto; p_owner := p_owner e |}.

(* ------------------------------------------------------------------ wire decoding *)
Definition take (n : Z) (l : list Z) : list Z * list Z := (firstn (Z.to_nat n) l, skipn (Z.to_nat n) l).

Definition parse_rpc (l : list Z) : option (rpc * list Z) :=
  match l with
  | kind :: cli :: gen :: ts :: blob :: tract :: ver :: off :: len :: wid :: naux :: r =>
      let '(aux, rest) := take naux r in
      Some ({| k_kind := kind; k_cli := cli; k_gen := gen; k_ts := ts; k_blob := blob; k_tract := tract; k_ver := ver;
               k_off := off; k_len := len; k_wid := wid; k_aux := aux |}, rest)
  | _ => None
  end.

(* the curator RPCs issued during this event that are still under way at its end *)
Definition out_section (st : state) : list Z :=
  let l := sort_rpcs (map p_rpc (filter (fun e => zmem (p_id e) (s_out st)) (s_pool st))) in
  Z.of_nat (length l) :: flat_map rpc_line l.

Definition is_ts_kind (k : Z) : bool := (K_Create <=? k) && (k <=? K_PullTract).

(* ------------------------------------------------------------------ client rules (verdict codes) *)
Definition V_OK := 1.  Definition V_ISSUE := 2.  Definition V_ACK := 3.  Definition V_READ := 4.  Definition V_NOOP := 5.
Definition V_FIN := 6.

Definition TL := cl_TractLength.

Definition tracts_of (off len : Z) : list Z :=
  if len <=? 0 then [] else map (fun i => off / TL + Z.of_nat i) (seq 0 (Z.to_nat ((off + len - 1) / TL - off / TL + 1))).

Definition seg_of (off len j : Z) : Z * Z :=   (* (offset in tract, length) of the part of [off,off+len) in tract j *)
  let lo := Z.max off (j * TL) in let hi := Z.min (off + len) ((j + 1) * TL) in (lo - j * TL, hi - lo).

Definition succ_mem (x : tkt * Z * Z * Z * Z) (l : list (tkt * Z * Z * Z * Z)) : bool :=
  existsb (fun y => let '(a, b, c, d, e) := x in let '(a', b', c', d', e') := y in
                    tk_eqb a a' && (b =? b') && (c =? c') && (d =? d') && (e =? e')) l.

(* V_ISSUE: only clients issue (non-negative id) and only client RPC kinds; a data RPC names a (tract,
   version, host) of an entry delivered to that client; a Write or Create additionally carries the
   client's current write and exactly that write's part of the tract (or is an empty create of a hole
   tract); an AckExtend acknowledges exactly tract lists it was handed by ExtendBlob, after every
   named host accepted the create *)
Definition client_kind (k : Z) : bool :=
  ((K_StatBlob <=? k) && (k <=? K_ReportBadTS)) || ((K_Create <=? k) && (k <=? K_StatTract)).

Definition created_on (o : cop) (tk : tkt) (h : Z) : bool :=
  existsb (fun '(a, b, c, _, _) => tk_eqb a tk && (b =? h) && (c =? 1)) (o_succ o).

Definition ackext_allowed (st : state) (r : rpc) : bool :=
  match op_of_client (s_ops st) (k_cli r) with
  | None => false
  | Some o =>
      (o_kind o =? 3) && (o_blob o =? k_blob r) &&
      forallb (fun '(idx, ver, hs) =>
                 let tk := tkey (k_blob r) idx in
                 existsb (fun ke => (ke_cli ke =? k_cli r) && tk_eqb (ke_tk ke) tk && (ke_ver ke =? 1) &&
                                    negb (ke_durable ke) && list_eqb (ke_hosts ke) (map fst hs)) (s_know st) &&
                 forallb (fun '(h, _) => created_on o tk h) hs)
              (decode_tracts false (k_aux r))
  end.

Definition issue_allowed (st : state) (r : rpc) : bool :=
  (0 <=? k_cli r) && client_kind (k_kind r) &&
  (if is_ts_kind (k_kind r) then
    let v := if k_kind r =? K_Create then 1 else k_ver r in
    existsb (fun ke => (ke_cli ke =? k_cli r) && tk_eqb (ke_tk ke) (tkey (k_blob r) (k_tract r)) && (ke_ver ke =? v) &&
                       zmem (k_ts r) (ke_addr ke)) (s_know st) &&
    (if (k_kind r =? K_Write) || (k_kind r =? K_Create) then
       match op_of_client (s_ops st) (k_cli r) with
       | Some o => (o_kind o =? 3) && (o_blob o =? k_blob r) &&
                   ((k_len r =? 0) ||
                    ((o_wid o =? k_wid r) && (fst (seg_of (o_off o) (o_len o) (k_tract r)) =? k_off r) &&
                     (snd (seg_of (o_off o) (o_len o) (k_tract r)) =? k_len r)))
       | None => false
       end
     else true)
   else if k_kind r =? K_AckExtend then ackext_allowed st r
   else true).

(* V_ACK: every tract of the write has ONE delivered entry all of whose hosts accepted the write at the
   entry's version, and the tract is known durable (entry from GetTracts, or AckExtend delivered OK) *)
Definition ack_allowed (st : state) (o : cop) : bool :=
  forallb (fun j =>
             let tk := tkey (o_blob o) j in
             let '(toff, tlen) := seg_of (o_off o) (o_len o) j in
             existsb (fun ke => (ke_cli ke =? o_cli o) && tk_eqb (ke_tk ke) tk &&
                                negb (Z.of_nat (length (ke_hosts ke)) =? 0) &&
                                forallb (fun h => succ_mem (tk, h, ke_ver ke, toff, tlen) (o_succ o)) (ke_hosts ke) &&
                                (ke_durable ke || tmem tk (o_acked o))) (s_know st))
          (tracts_of (o_off o) (o_len o)).

Fixpoint clip (l : list (Z * Z)) (L : Z) : list (Z * Z) * Z :=
  match l with
  | [] => ([], L)
  | (n, v) :: r => if L <=? 0 then ([], 0)
                   else if n <=? L then let '(c, rem) := clip r (L - n) in ((n, v) :: c, rem)
                   else ([(L, v)], 0)
  end.

(* V_READ: the n returned bytes are, tract by tract, the bytes of the newest delivered read reply of
   this operation for that tract (same offset), zero padded *)
Definition read_expected (o : cop) (n : Z) : option (list (Z * Z)) :=
  fold_right (fun j acc =>
                match acc with
                | None => None
                | Some rest =>
                    let '(toff, tlen) := seg_of (o_off o) n j in
                    match find (fun '(tk, roff, _, _) => tk_eqb tk (tkey (o_blob o) j) && (roff =? toff)) (o_reads o) with
                    | None => None
                    | Some (_, _, _, runs) => let '(c, rem) := clip runs tlen in Some (c ++ [(rem, 0)] ++ rest)
                    end
                end) (Some []) (tracts_of (o_off o) n).

Fixpoint runs_eqb (a b : list (Z * Z)) : bool :=
  match a, b with
  | [], [] => true
  | (n, v) :: a', (m, u) :: b' => (n =? m) && (v =? u) && runs_eqb a' b'
  | _, _ => false
  end.

(* ------------------------------------------------------------------ one event *)
Definition new_task (op kind gen term blob tract : Z) (bad : list Z) (cliver badts rpcid : Z) : task :=
  {| t_op := op; t_kind := kind; t_gen := gen; t_term := term; t_blob := blob; t_tract := tract; t_phase := 0;
     t_dv := 0; t_ok := []; t_bad := bad; t_new := []; t_wait := 0; t_cliver := cliver; t_badts := badts; t_rpc := rpcid |}.

(* code 7: execute (or fail) a parked RPC *)
Definition step_exec (st : state) (mode : Z) (r : list Z) : state * list Z :=
  match parse_rpc r with
  | None => (st, [-1])
  | Some (rp, r1) =>
      match r1 with
      | nh :: r2 =>
          let '(place, r3) := take nh r2 in
          let dur := match r3 with nd :: r4 => fst (take nd r4) | [] => [] end in
          let hint := place ++ [-1] ++ dur in
          match find_pent (s_pool st) rp 0 with
          | None => (st, [-2])
          | Some e =>
              let dump s := if is_ts_kind (k_kind rp) then dump_replica (s_reps s) (k_ts rp) (tkey (k_blob rp) (k_tract rp)) else [] in
              if mode =? 4 then
                let st1 := flush 8 (resume st e false hint) hint in
                (st1, [0] ++ dump st1 ++ out_section st1)
              else if mode =? 6 then
                if negb (k_kind rp =? K_PullTract) then (st, [-5])
                else
                  let reps' := if k_ts rp =? aux_nth rp 0
                               then pull_crash (s_reps st) (s_nts st) (k_ts rp) (tkey (k_blob rp) (k_tract rp)) (k_ver rp) (tl (k_aux rp))
                               else s_reps st in
                  let st1 := set_reps st reps' in
                  (* the caller sees an RPC error; the server restarts: everything parked at it fails *)
                  let st2 := flush 8 (resume st1 e false hint) hint in
                  let victims := filter (fun x => (p_st x =? 0) && (k_ts (p_rpc x) =? k_ts rp)) (s_pool st2) in
                  let st3 := fold_left (fun s x => flush 8 (resume s x false []) []) victims st2 in
                  (st3, [1] ++ dump st3 ++ out_section st3)
              else if k_kind rp =? K_FixVersion then
                let sid := - (s_nsynth st + 1) in
                let st1 := set_nsynth (set_pool st (pool_update (s_pool st) (set_pent e 1 [] [] (mode =? 2) (negb (mode =? 5))))) (s_nsynth st + 1) in
                let st2 := start_task st1 (new_task sid 6 (s_gen st) (s_term st) (k_blob rp) (k_tract rp) [] (k_ver rp) (aux_nth rp 0) (p_id e)) in
                let res := match find (fun x => p_id x =? p_id e) (s_pool st2) with
                           | Some x => if p_st x =? 2 then 1 :: p_res x else [0]
                           | None => [0]
                           end in
                let st3 := flush 8 st2 hint in
                (st3, res ++ out_section st3)
              else
                let '(st1, res, tr) := exec_rpc st e place in
                let st1' := if mode =? 3 then fst (fst (exec_rpc st1 e place)) else st1 in
                let st2 := set_pool st1' (pool_update (s_pool st1') (set_pent e 2 res tr (mode =? 2) (negb (mode =? 5)))) in
                let st3 := flush 8 st2 hint in
                (st3, [1] ++ res ++ dump st3 ++ out_section st3)
          end
      | [] => (st, [-1])
      end
  end.

(* code 8: deliver (or drop) the reply of an executed RPC *)
Definition step_reply (st : state) (lose : Z) (r : list Z) : state * list Z :=
  match parse_rpc r with
  | None => (st, [-1])
  | Some (rp, r1) =>
      let hint := match r1 with
                  | nh :: r2 => let '(place, r3) := take nh r2 in
                                place ++ [-1] ++ match r3 with nd :: r4 => fst (take nd r4) | [] => [] end
                  | [] => []
                  end in
      match find_pent (s_pool st) rp 2 with
      | None => (st, [-2])
      | Some e => let st1 := flush 8 (resume st e (lose =? 0) hint) hint in (st1, out_section st1)
      end
  end.

Definition step_restart (st : state) (ts : Z) : state * list Z :=
  let victims := filter (fun e => (p_st e =? 0) && (k_ts (p_rpc e) =? ts)) (s_pool st) in
  let st1 := fold_left (fun s e => flush 8 (resume s e false []) []) victims st in
  (st1, out_section st1).

Definition step_probe (st : state) (blob tract dv dt : Z) : state * list Z :=
  match tget (s_dtr st) (tkey blob tract) with
  | None => (st, [-1])
  | Some (ver, hosts) =>
      if (dv =? 1) && (dt =? 0) then (st, [-1])
      else let '(st1, c) := change_tract st (s_term st - dt) blob tract (ver + dv) hosts in (st1, [c])
  end.

Definition step_issue (st : state) (r : list Z) : state * list Z :=
  match parse_rpc r with
  | None => (st, [-1])
  | Some (rp, _) => if issue_allowed st rp then (issue st rp 0, [777; V_OK]) else (st, [777; V_ISSUE])
  end.

Definition step_finclient (st : state) (op n cls : Z) (runs : list Z) : state * list Z :=
  match find_op (s_ops st) op with
  | None => (st, [777; V_NOOP])
  | Some o =>
      let st1 := set_ops st (del_op (s_ops st) op) in
      (* V_FIN: an operation returns only after every data RPC it issued has come back (single-writer order) *)
      if existsb (fun e => (k_cli (p_rpc e) =? o_cli o) &&
                           ((k_kind (p_rpc e) =? K_Write) || (k_kind (p_rpc e) =? K_Create) || (k_kind (p_rpc e) =? K_Read))) (s_pool st)
      then (st1, [777; V_FIN])
      else if o_kind o =? 3 then
        if (cls =? cl_NoError) && (n =? o_len o) then
          if ack_allowed st o
          then (set_acked st1 ((o_blob o, o_wid o, mkw (o_wid o) (o_off o) (o_len o)) :: s_acked st1), [777; V_OK])
          else (st1, [777; V_ACK])
        else (st1, [777; V_OK])
      else
        if (cls =? cl_NoError) || (cls =? cl_ErrEOF) then
          match read_expected o n with
          | None => (st1, [777; V_READ])
          | Some exp => if runs_eqb (merge_runs exp) (merge_runs (pairs (tl runs))) then (st1, [777; V_OK]) else (st1, [777; V_READ])
          end
        else (st1, [777; V_OK])
  end.

Fixpoint drop_done (l : list (rpc * Z)) (rp : rpc) : list (rpc * Z) :=
  match l with
  | [] => []
  | (x, c') :: l' => if rpc_eqb x rp then l' else (x, c') :: drop_done l' rp
  end.

Definition step_rpcdone (st : state) (r : list Z) : state * list Z :=
  match parse_rpc r with
  | None => (st, [-1])
  | Some (rp, _) =>
      match find (fun '(x, _) => rpc_eqb x rp) (s_done st) with
      | Some (_, c) => (set_done st (drop_done (s_done st) rp), [c])
      | None => (st, [-3])
      end
  end.

(* code 17: a curator-side RPC that no task owns (the harness probes the tractserver's version rules with
   requests that must be rejected); only SetVersion and PullTract, only from the curator side *)
Definition step_inject (st : state) (r : list Z) : state * list Z :=
  match parse_rpc r with
  | None => (st, [-1])
  | Some (rp, _) =>
      if (k_cli rp <? 0) && ((k_kind rp =? K_SetVersion) || (k_kind rp =? K_PullTract))
      then (issue st rp 0, []) else (st, [-1])
  end.

Definition step (st0 : state) (ev : list Z) : state * list Z :=
  let st := set_out st0 [] in
  match ev with
  | [] => (st, [-1])
  | c :: a =>
      if c =? 1 then
        match a with
        | nts :: _ => (set_term_gen (set_nts st nts) (s_term st) (s_gen st)
                         (zset (s_known st) (s_gen st) (map (fun i => Z.of_nat i + 1) (seq 0 (Z.to_nat nts)))), [])
        | _ => (st, [-1])
        end
      else if c =? 2 then
        match a with
        | [blob; repl] => match zget (s_blobs st) blob with
                          | Some _ => (st, [-1])     (* blob ids are fresh *)
                          | None => (set_blobs st (zset (s_blobs st) blob (repl, 0)), [])
                          end
        | _ => (st, [-1])
        end
      else if c =? 3 then
        match a with
        | [op; cli; blob; off; len; wid] =>
            (set_att (set_ops st (s_ops st ++ [{| o_id := op; o_kind := 3; o_cli := cli; o_blob := blob; o_off := off; o_len := len; o_wid := wid;
                                                  o_succ := []; o_acked := []; o_reads := [] |}]))
                     ((blob, wid, mkw wid off len) :: s_att st), [])
        | _ => (st, [-1])
        end
      else if c =? 4 then
        match a with
        | [op; cli; blob; off; len] =>
            (set_ops st (s_ops st ++ [{| o_id := op; o_kind := 4; o_cli := cli; o_blob := blob; o_off := off; o_len := len; o_wid := 0;
                                         o_succ := []; o_acked := []; o_reads := [] |}]), [])
        | _ => (st, [-1])
        end
      else if c =? 5 then
        match a with
        | op :: _ :: blob :: tract :: nbad :: r =>
            let '(bad, _) := take nbad r in
            let st1 := start_task st (new_task op 5 (s_gen st) (s_term st) blob tract bad 0 0 0) in
            let st2 := flush 8 st1 [] in
            (st2, out_section st2)
        | _ => (st, [-1])
        end
      else if c =? 6 then
        match a with
        | [op; _; blob; tract; ver; badts] =>
            let st1 := start_task st (new_task op 6 (s_gen st) (s_term st) blob tract [] ver badts 0) in
            let st2 := flush 8 st1 [] in
            (st2, out_section st2)
        | _ => (st, [-1])
        end
      else if c =? 7 then
        match a with mode :: r => step_exec st mode r | [] => (st, [-1]) end
      else if c =? 8 then
        match a with lose :: r => step_reply st lose r | [] => (st, [-1]) end
      else if c =? 9 then
        match a with [ts] => step_restart st ts | _ => (st, [-1]) end
      else if c =? 10 then
        match a with
        | [] => (set_term_gen st (s_term st + 1) (s_gen st + 1) (s_known st), [])
        | _ => (st, [-1])
        end
      else if c =? 11 then
        match a with
        | [ts] => let k := known_of st (s_gen st) in
                  (set_term_gen st (s_term st) (s_gen st) (zset (s_known st) (s_gen st) (if zmem ts k then k else k ++ [ts])), [])
        | _ => (st, [-1])
        end
      else if c =? 12 then
        match a with [blob; tract; dv; dt] => step_probe st blob tract dv dt | _ => (st, [-1]) end
      else if c =? 13 then step_issue st a
      else if c =? 14 then
        match a with op :: n :: cls :: runs => step_finclient st op n cls runs | _ => (st, [-1]) end
      else if c =? 15 then
        match a with
        | [op] => match zget (s_fin st) op with
                  | Some cc => (set_fin st (zdel (s_fin st) op), [cc])
                  | None => (st, [-3])
                  end
        | _ => (st, [-1])
        end
      else if c =? 16 then step_rpcdone st a
      else if c =? 17 then step_inject st a
      else (st, [-1])
  end.

(* ------------------------------------------------------------------ the C01 state predicate *)
(* the newest write attempt covering byte p of a blob *)
Fixpoint newest_cover (att : list (Z * Z * wrec)) (blob p : Z) : option Z :=
  match att with
  | [] => None
  | (b, wid, w) :: r => if (b =? blob) && covers w p then Some wid else newest_cover r blob p
  end.

Definition is_acked (st : state) (blob wid : Z) : bool :=
  existsb (fun '(b, w, _) => (b =? blob) && (w =? wid)) (s_acked st).

(* what byte p of the blob must read as: Some v if the property determines it (never written: 0;
   newest attempt covering it acknowledged: that write), None if a newer/unfinished attempt leaves it open *)
Definition expected_byte (st : state) (blob p : Z) : option Z :=
  match newest_cover (s_att st) blob p with
  | None => Some 0
  | Some wid => if is_acked st blob wid then Some wid else None
  end.

(* replica of tract (blob, tract) at server h, as a reader with a lookup made NOW would use it
   (durable host, at the durable version): does byte p (offset in the tract) read as the property demands? *)
Definition vis_ok (st : state) (blob tract h p : Z) : bool :=
  match tget (s_dtr st) (tkey blob tract) with
  | None => true
  | Some (dv, hosts) =>
      if negb (zmem h hosts) then true
      else match rget (s_reps st) (h, tkey blob tract) with
           | None => true
           | Some r =>
               if negb (r_ver r =? dv) then true
               else match expected_byte st blob (tract * TL + p) with
                    | None => true
                    | Some v => byte_at (r_app r) p =? v
                    end
           end
  end.

Fixpoint run (st : state) (evs : list (list Z)) : list (list Z) :=
  match evs with
  | [] => []
  | ev :: r => let '(st', o) := step st ev in o :: run st' r
  end.

Fixpoint run_state (st : state) (evs : list (list Z)) : state :=
  match evs with
  | [] => st
  | ev :: r => run_state (fst (step st ev)) r
  end.

Definition run_case (ops : list (list Z)) : list (list Z) := run init_state ops.

(* a run in which the model had no complaint: every client verdict is V_OK and no line was undecodable,
   referred to an RPC the model does not know, or asked for a result that does not exist *)
Definition line_ok (o : list Z) : bool :=
  match o with
  | [] => true
  | c :: r => if c =? 777 then hd 0 r =? 1 else 0 <=? c
  end.
Definition clean_run (evs : list (list Z)) : bool := forallb line_ok (run init_state evs).
