(* Cluster/Attempts.v — run-level confinement: in every reachable state every write record stored in any
   replica is exactly the part, lying in that replica's tract, of a write attempt that was started on that
   replica's blob.  Hence a byte no attempt ever covered reads as zero on every replica, whatever happened
   (failed writes, lost and duplicated replies, repairs, crashes, leader changes). *)
From Coq Require Import List ZArith Bool Lia.
From BLB Require Import Gen.Consts Cluster.Model Cluster.Proofs Cluster.Frame.
Import ListNotations.
Open Scope Z_scope.

Arguments flush : simpl never.
Arguments wake : simpl never.
Arguments start_task : simpl never.
Arguments resume : simpl never.
Arguments exec_rpc : simpl never.
Arguments task_reply : simpl never.
Arguments activate : simpl never.
Arguments finish_task : simpl never.

(* the invariant *)
Definition att_has (st : state) (blob wid : Z) (j : Z) (off len : Z) : Prop :=
  exists W, In (blob, wid, W) (s_att st) /\ seg_of (w_off W) (w_len W) j = (off, len).

Definition att_ok (st : state) : Prop :=
  (forall o, In o (s_ops st) -> o_kind o = 3 -> In (o_blob o, o_wid o, mkw (o_wid o) (o_off o) (o_len o)) (s_att st)) /\
  (forall e, In e (s_pool st) -> (k_kind (p_rpc e) = K_Write \/ k_kind (p_rpc e) = K_Create) -> 0 < k_len (p_rpc e) ->
             att_has st (k_blob (p_rpc e)) (k_wid (p_rpc e)) (k_tract (p_rpc e)) (k_off (p_rpc e)) (k_len (p_rpc e))) /\
  (forall ts b j r wr, rget (s_reps st) (ts, (b, j)) = Some r -> In wr (r_app r) ->
             att_has st b (w_id wr) j (w_off wr) (w_len wr)).

Lemma att_has_mono : forall st st' b w j off len,
  (forall x, In x (s_att st) -> In x (s_att st')) -> att_has st b w j off len -> att_has st' b w j off len.
Proof. intros st st' b w j off len H (W & I & S). exists W. auto. Qed.

(* ---------- replicas: where write records come from ---------- *)
(* every record of reps' exists in some replica of the same tract in reps *)
Definition contained (reps reps' : list (rkey * replica)) : Prop :=
  forall k r' wr, rget reps' k = Some r' -> In wr (r_app r') ->
    exists k0 r0, snd k0 = snd k /\ rget reps k0 = Some r0 /\ In wr (r_app r0).

Lemma contained_refl : forall reps, contained reps reps.
Proof. intros reps k r' wr G I. exists k, r'. auto. Qed.

Lemma contained_trans : forall a b c, contained a b -> contained b c -> contained a c.
Proof.
  intros a b c H1 H2 k r' wr G I. destruct (H2 _ _ _ G I) as (k1 & r1 & S1 & G1 & I1).
  destruct (H1 _ _ _ G1 I1) as (k0 & r0 & S0 & G0 & I0). exists k0, r0. repeat split; auto. congruence.
Qed.

Lemma contained_setversion : forall reps ts tsid tk nv reps' c,
  ts_setversion reps ts tsid tk nv = (reps', c) -> contained reps reps'.
Proof.
  intros. pose proof (ts_setversion_frame _ _ _ _ _ _ _ H) as (A & B & C). intros k r' wr G I.
  destruct (rk_eqb k (ts, tk)) eqn:E.
  - apply rk_eqb_eq in E. subst k. destruct (rget reps (ts, tk)) as [r|] eqn:G0.
    + destruct (C r eq_refl) as (r2 & G2 & AP & _). rewrite G in G2. inversion G2; subst. exists (ts, tk), r. rewrite <- AP. auto.
    + rewrite (B eq_refl) in G. discriminate.
  - exists k, r'. repeat split; auto. rewrite <- (A k); auto. intro X. subst. rewrite rk_eqb_refl in E. discriminate.
Qed.

Lemma contained_pull_once : forall reps nts ts tk ver src reps' e,
  pull_once reps nts ts tk ver src = (reps', e) -> contained reps reps'.
Proof.
  intros reps nts ts tk ver src reps' e H k r' wr G I.
  pose proof (pull_once_frame _ _ _ _ _ _ _ _ H) as FR.
  destruct (rk_eqb k (ts, tk)) eqn:E.
  2:{ exists k, r'. repeat split; auto. rewrite <- (FR k); auto. intro X. subst. rewrite rk_eqb_refl in E. discriminate. }
  apply rk_eqb_eq in E. subst k. unfold pull_once in H.
  destruct (rget reps (ts, tk)) as [r|] eqn:G0.
  - destruct (ver <? r_ver r).
    + inversion H; subst. exists (ts, tk), r'. auto.
    + destruct ((src <=? 0) || (nts <? src)). { inversion H; subst. rewrite rget_rdel_same in G. discriminate. }
      destruct (rget (rdel reps (ts, tk)) (src, tk)) as [s|] eqn:GS.
      * destruct (r_ver s =? ver); inversion H; subst.
        -- rewrite rget_rset_same in G. inversion G; subst. cbn in I.
           destruct (rk_eqb (src, tk) (ts, tk)) eqn:E2.
           ++ apply rk_eqb_eq in E2. inversion E2; subst. rewrite rget_rdel_same in GS. discriminate.
           ++ exists (src, tk), s. repeat split; auto. rewrite <- GS. symmetry. apply rget_rdel_other.
              intro X. rewrite X, rk_eqb_refl in E2. discriminate.
        -- rewrite rget_rdel_same in G. discriminate.
      * inversion H; subst. rewrite rget_rdel_same in G. discriminate.
  - destruct ((src <=? 0) || (nts <? src)). { inversion H; subst. rewrite G0 in G. discriminate. }
    destruct (rget reps (src, tk)) as [s|] eqn:GS.
    + destruct (r_ver s =? ver); inversion H; subst.
      * rewrite rget_rset_same in G. inversion G; subst. cbn in I. exists (src, tk), s. auto.
      * rewrite G0 in G. discriminate.
    + inversion H; subst. rewrite G0 in G. discriminate.
Qed.

Lemma contained_pull_loop : forall srcs reps nts ts tk ver last reps' e,
  pull_loop reps nts ts tk ver srcs last = (reps', e) -> contained reps reps'.
Proof.
  induction srcs as [|s srcs IH]; intros reps nts ts tk ver last reps' e H.
  - inversion H; subst. apply contained_refl.
  - cbn in H. destruct (pull_once reps nts ts tk ver s) as [r1 e1] eqn:P. apply contained_pull_once in P.
    destruct (e1 =? cl_NoError); [inversion H; subst; auto|]. eapply contained_trans; eauto.
Qed.

Lemma contained_pull_crash : forall srcs reps nts ts tk ver, contained reps (pull_crash reps nts ts tk ver srcs).
Proof.
  induction srcs as [|s srcs IH]; intros reps nts ts tk ver; [apply contained_refl|].
  cbn. destruct (pull_once reps nts ts tk ver s) as [r1 e1] eqn:P. apply contained_pull_once in P.
  destruct (e1 =? cl_NoError).
  - eapply contained_trans; [exact P|]. intros k r' wr G I.
    destruct (rk_eqb k (ts, tk)) eqn:E.
    + apply rk_eqb_eq in E. subst k. rewrite rget_rset_same in G. inversion G; subst. cbn in I. destruct I.
    + exists k, r'. repeat split; auto. rewrite <- G. symmetry. apply rget_rset_other. intro X. subst. rewrite rk_eqb_refl in E. discriminate.
  - eapply contained_trans; eauto.
Qed.

(* a client Write/Create adds at most its own record *)
Definition grown (reps reps' : list (rkey * replica)) (key : rkey) (nw : wrec) : Prop :=
  forall k r' wr, rget reps' k = Some r' -> In wr (r_app r') ->
    (exists r0, rget reps k = Some r0 /\ In wr (r_app r0)) \/ (k = key /\ 0 < w_len nw /\ wr = nw).

Lemma in_app_write : forall app wid off len wr,
  In wr (app_write app wid off len) -> In wr app \/ (0 < len /\ wr = mkw wid off len).
Proof.
  intros app wid off len wr H. unfold app_write in H. destruct (len <=? 0) eqn:E; auto.
  apply Z.leb_gt in E. destruct H as [H|H]; auto.
Qed.

Lemma grown_write : forall reps ts tk ver wid off len reps' c,
  ts_write reps ts tk ver wid off len = (reps', c) -> grown reps reps' (ts, tk) (mkw wid off len).
Proof.
  intros reps ts tk ver wid off len reps' c H k r' wr G I. unfold ts_write in H.
  destruct (rget reps (ts, tk)) as [r|] eqn:G0.
  - destruct (r_ver r =? ver); inversion H; subst.
    + destruct (rk_eqb k (ts, tk)) eqn:E.
      * apply rk_eqb_eq in E. subst k. rewrite rget_rset_same in G. inversion G; subst. cbn in I.
        apply in_app_write in I as [I|[L I]]; [left; exists r; auto | right; cbn; auto].
      * left. exists r'. split; auto. rewrite <- G. symmetry. apply rget_rset_other. intro X. subst. rewrite rk_eqb_refl in E. discriminate.
    + left. exists r'. auto.
  - inversion H; subst. left. exists r'. auto.
Qed.

Lemma grown_create : forall reps ts tsid tk wid off len reps' c,
  ts_create reps ts tsid tk wid off len = (reps', c) -> grown reps reps' (ts, tk) (mkw wid off len).
Proof.
  intros reps ts tsid tk wid off len reps' c H. unfold ts_create in H.
  destruct (negb (ts =? tsid)). { inversion H; subst. intros k r' wr G I. left. exists r'. auto. }
  destruct (rget reps (ts, tk)) as [r|] eqn:G0; [eapply grown_write; eauto|].
  inversion H; subst. intros k r' wr G I.
  destruct (rk_eqb k (ts, tk)) eqn:E.
  - apply rk_eqb_eq in E. subst k. rewrite rget_rset_same in G. inversion G; subst. cbn in I.
    apply in_app_write in I as [[]|[L I]]. right; cbn; auto.
  - left. exists r'. split; auto. rewrite <- G. symmetry. apply rget_rset_other. intro X. subst. rewrite rk_eqb_refl in E. discriminate.
Qed.

(* ---------- everything except RPC execution leaves attempts, replicas, write operations and client write RPCs alone ---------- *)
Definition wkind (r : rpc) : Prop := k_kind r = K_Write \/ k_kind r = K_Create.

Definition still (st st' : state) : Prop :=
  s_att st' = s_att st /\ s_reps st' = s_reps st /\
  (forall o', In o' (s_ops st') -> exists o, In o (s_ops st) /\ o_kind o = o_kind o' /\ o_blob o = o_blob o' /\
                                         o_wid o = o_wid o' /\ o_off o = o_off o' /\ o_len o = o_len o') /\
  (forall e', In e' (s_pool st') -> (exists e, In e (s_pool st) /\ p_rpc e = p_rpc e') \/ ~ wkind (p_rpc e')).

Lemma still_refl : forall st, still st st.
Proof.
  intros st. repeat split; auto.
  - intros o H. exists o. repeat split; auto.
  - intros e H. left. exists e. auto.
Qed.

Lemma still_trans : forall a b c, still a b -> still b c -> still a c.
Proof.
  intros a b c (A1 & R1 & O1 & P1) (A2 & R2 & O2 & P2). repeat split; try congruence.
  - intros o3 H3. destruct (O2 _ H3) as (o2 & I2 & E2). destruct (O1 _ I2) as (o1 & I1 & E1).
    exists o1. split; auto. destruct E1 as (? & ? & ? & ? & ?). destruct E2 as (? & ? & ? & ? & ?). repeat split; congruence.
  - intros e3 H3. destruct (P2 _ H3) as [(e2 & I2 & E2)|N]; [|right; exact N].
    destruct (P1 _ I2) as [(e1 & I1 & E1)|N]; [left; exists e1; split; auto; congruence|].
    right. rewrite <- E2. exact N.
Qed.

Lemma still_att_ok : forall st st', still st st' -> att_ok st -> att_ok st'.
Proof.
  intros st st' (A & R & O & P) (A1 & A2 & A3). split; [|split].
  - intros o' I K. destruct (O _ I) as (o & Io & E1 & E2 & E3 & E4 & E5). rewrite A.
    rewrite <- E2, <- E3, <- E4, <- E5. apply A1; auto. congruence.
  - intros e' I K L. destruct (P _ I) as [(e & Ie & E)|N]; [|contradiction].
    rewrite <- E in *. eapply att_has_mono; [|apply A2; eauto]. intros x Hx. rewrite A. exact Hx.
  - intros ts b j r wr G I. rewrite R in G. eapply att_has_mono; [|eapply A3; eauto]. intros x Hx. rewrite A. exact Hx.
Qed.

Lemma still_same : forall st st',
  s_att st' = s_att st -> s_reps st' = s_reps st -> s_ops st' = s_ops st -> s_pool st' = s_pool st -> still st st'.
Proof.
  intros st st' A R O P. repeat split; auto.
  - intros o H. rewrite O in H. exists o. repeat split; auto.
  - intros e H. rewrite P in H. left. exists e. auto.
Qed.

Lemma still_issue_cur : forall st r o, ~ wkind r -> still st (issue_cur st r o).
Proof.
  intros st r o N. repeat split; auto.
  - intros o' H. exists o'. repeat split; auto.
  - intros e' H. cbn in H. apply in_app_or in H as [H|[H|[]]]; [left; exists e'; auto | right; subst e'; exact N].
Qed.

Lemma still_fold_issue : forall (f : Z -> rpc) o l st,
  (forall h, ~ wkind (f h)) -> still st (fold_left (fun s h => issue_cur s (f h) o) l st).
Proof.
  induction l; intros; cbn; [apply still_refl|].
  eapply still_trans; [apply still_issue_cur; auto | apply IHl; auto].
Qed.

Lemma still_pool_map : forall st (g : pent -> pent),
  (forall e, p_rpc (g e) = p_rpc e) -> still st (set_pool st (map g (s_pool st))).
Proof.
  intros st g H. repeat split; auto.
  - intros o I. exists o. repeat split; auto.
  - intros e' I. cbn in I. apply in_map_iff in I as (e & E & Ie). left. exists e. split; auto. subst e'. symmetry. apply H.
Qed.

Lemma still_finish_task : forall st t err, still st (finish_task st t err).
Proof.
  intros. unfold finish_task.
  set (g1 := fun e : pent => if p_owner e =? t_op t
                             then {| p_id := p_id e; p_rpc := p_rpc e; p_st := p_st e; p_res := p_res e; p_tr := p_tr e;
                                     p_lose := p_lose e; p_auto := p_auto e; p_owner := 0 |} else e).
  set (g2 := fun e : pent => if p_id e =? t_rpc t
                             then {| p_id := p_id e; p_rpc := p_rpc e; p_st := 2; p_res := [err]; p_tr := p_tr e;
                                     p_lose := p_lose e; p_auto := p_auto e; p_owner := p_owner e |} else e).
  assert (G1 : forall e, p_rpc (g1 e) = p_rpc e) by (intro e; unfold g1; destruct (p_owner e =? t_op t); auto).
  assert (G2 : forall e, p_rpc (g2 e) = p_rpc e) by (intro e; unfold g2; destruct (p_id e =? t_rpc t); auto).
  set (s1 := set_tasks st (del_task (s_tasks st) (t_op t))).
  assert (S1 : still st s1) by (apply still_same; reflexivity).
  assert (S2 : still s1 (set_pool s1 (map g1 (s_pool s1)))) by (apply still_pool_map; auto).
  destruct (t_rpc t =? 0).
  - eapply still_trans; [exact S1|]. eapply still_trans; [exact S2|]. apply still_same; reflexivity.
  - eapply still_trans; [exact S1|]. eapply still_trans; [exact S2|].
    apply (still_pool_map (set_pool s1 (map g1 (s_pool s1))) g2). auto.
Qed.

Lemma setv_not_w : forall g h b t v, ~ wkind (mk_setversion g h b t v).
Proof. intros g h b t v [K|K]; cbn in K; discriminate. Qed.
Lemma pull_not_w : forall g h b t v f, ~ wkind (mk_pull g h b t v f).
Proof. intros g h b t v f [K|K]; cbn in K; discriminate. Qed.

Lemma still_set_tasks : forall st v, still st (set_tasks st v).
Proof. intros. apply still_same; reflexivity. Qed.

Lemma still_activate : forall st t, still st (activate st t).
Proof.
  intros. unfold activate.
  repeat match goal with
         | |- context [match ?x with _ => _ end] => destruct x eqn:?
         | |- context [if ?x then _ else _] => destruct x eqn:?
         end; try apply still_finish_task;
    (eapply still_trans; [apply still_set_tasks | apply still_fold_issue; intro; apply setv_not_w]).
Qed.

Lemma still_wake : forall n st, still st (wake n st).
Proof.
  induction n; intros; [apply still_refl|]. unfold wake; fold wake.
  destruct (find _ (s_tasks st)); [|apply still_refl].
  eapply still_trans; [apply still_activate | apply IHn].
Qed.

Lemma still_start_task : forall st t, still st (start_task st t).
Proof.
  intros. unfold start_task. destruct (_ && _).
  - eapply still_trans; [apply still_set_tasks | apply still_finish_task].
  - eapply still_trans; [apply still_set_tasks | apply still_wake].
Qed.

Lemma still_change_tract : forall st term b t v h, still st (fst (change_tract st term b t v h)).
Proof.
  intros. unfold change_tract.
  repeat match goal with
         | |- context [match ?x with _ => _ end] => destruct x eqn:?
         | |- context [if ?x then _ else _] => destruct x eqn:?
         end; cbn [fst]; try apply still_refl. apply still_same; reflexivity.
Qed.

Lemma still_task_reply : forall st op err hint, still st (task_reply st op err hint).
Proof.
  intros. unfold task_reply.
  destruct (find_task (s_tasks st) op) as [t|]; [|apply still_refl].
  destruct (negb (err =? cl_NoError)). { eapply still_trans; [apply still_finish_task | apply still_wake]. }
  destruct (1 <? t_wait t). { apply still_set_tasks. }
  destruct ((t_kind t =? 5) && (t_phase t =? 1)).
  - repeat match goal with |- context [if ?x then _ else _] => destruct x eqn:? end;
      try (eapply still_trans; [apply still_finish_task | apply still_wake]).
    eapply still_trans; [apply still_set_tasks | apply still_fold_issue; intro; apply pull_not_w].
  - match goal with |- context [change_tract ?a ?b ?c ?d ?e ?f] =>
      pose proof (still_change_tract a b c d e f) as H; destruct (change_tract a b c d e f) as [st1 e1] end.
    cbn [fst] in H. eapply still_trans; [exact H|]. eapply still_trans; [apply still_finish_task | apply still_wake].
Qed.

Lemma still_upd_op : forall st o succ acked reads, In o (s_ops st) ->
  still st (set_ops st (upd_op (s_ops st) (set_op_fields o succ acked reads))).
Proof.
  intros st o succ acked reads IN. repeat split; auto.
  - intros o' H. cbn in H. unfold upd_op in H. apply in_map_iff in H as (x & E & Ix).
    destruct (o_id x =? o_id (set_op_fields o succ acked reads)); subst o'; [exists o; cbn; repeat split; auto | exists x; repeat split; auto].
  - intros e H. left. exists e. auto.
Qed.

Lemma op_of_client_in : forall ops cli o, op_of_client ops cli = Some o -> In o ops.
Proof. intros ops cli o H. unfold op_of_client in H. apply find_some in H as [H _]. exact H. Qed.

Lemma still_client_learns : forall st r res tr, still st (client_learns st r res tr).
Proof.
  intros. unfold client_learns.
  destruct res as [|cls payload]; [apply still_refl|].
  destruct (k_kind r =? K_GetTracts). { destruct (negb _); [apply still_refl | apply still_same; reflexivity]. }
  destruct (k_kind r =? K_ExtendBlob). { destruct (negb _); [apply still_refl | apply still_same; reflexivity]. }
  destruct (op_of_client (s_ops st) (k_cli r)) as [o|] eqn:F; [|apply still_refl].
  apply op_of_client_in in F.
  repeat match goal with |- context [if ?x then _ else _] => destruct x eqn:? end;
    try apply still_refl; apply still_upd_op; exact F.
Qed.

Lemma still_resume : forall st e d h, still st (resume st e d h).
Proof.
  intros. unfold resume.
  set (st1 := set_pool st (pool_remove (s_pool st) (p_id e))).
  assert (S1 : still st st1).
  { repeat split; auto.
    - intros o H. exists o. repeat split; auto.
    - intros e' H. cbn in H. unfold pool_remove in H. apply filter_In in H as [H _]. left. exists e'. auto. }
  eapply still_trans; [exact S1|].
  destruct (k_cli (p_rpc e) <? 0).
  - destruct (p_owner e =? 0); [apply still_refl | apply still_task_reply].
  - set (st2 := if k_kind (p_rpc e) =? K_FixVersion then set_done st1 _ else st1).
    assert (S2 : still st1 st2) by (unfold st2; destruct (k_kind (p_rpc e) =? K_FixVersion); [apply still_same; reflexivity | apply still_refl]).
    eapply still_trans; [exact S2|]. destruct d; [apply still_client_learns | apply still_refl].
Qed.

Lemma still_flush : forall n st h, still st (flush n st h).
Proof.
  induction n; intros; [apply still_refl|]. unfold flush; fold flush.
  destruct (find _ (s_pool st)); [|apply still_refl].
  eapply still_trans; [apply still_resume | apply IHn].
Qed.

Lemma still_fold_victims : forall victims s,
  still s (fold_left (fun s x => flush 8 (resume s x false []) []) victims s).
Proof.
  induction victims; intros; cbn [fold_left]; [apply still_refl|].
  eapply still_trans; [eapply still_trans; [apply still_resume | apply still_flush] | apply IHvictims].
Qed.

(* ---------- executing an RPC ---------- *)
Lemma exec_misc : forall st e oracle st' res tr, exec_rpc st e oracle = (st', res, tr) ->
  s_att st' = s_att st /\ s_ops st' = s_ops st /\ s_pool st' = s_pool st.
Proof.
  intros st e oracle st' res tr H. unfold exec_rpc in H.
  repeat match type of H with
         | context [let '(_, _) := ?x in _] => destruct x eqn:?
         | context [match ?x with _ => _ end] => destruct x eqn:?
         | context [if ?x then _ else _] => destruct x eqn:?
         end; inversion H; subst; try (repeat split; reflexivity);
  match goal with
  | A : ack_extend _ _ _ = (_, _) |- _ =>
      unfold ack_extend in A;
      repeat match type of A with
             | context [match ?x with _ => _ end] => destruct x eqn:?
             | context [if ?x then _ else _] => destruct x eqn:?
             end; inversion A; subst; repeat split; reflexivity
  end.
Qed.

Lemma exec_records : forall st e oracle st' res tr, exec_rpc st e oracle = (st', res, tr) ->
  forall k r' wr, rget (s_reps st') k = Some r' -> In wr (r_app r') ->
    (exists k0 r0, snd k0 = snd k /\ rget (s_reps st) k0 = Some r0 /\ In wr (r_app r0)) \/
    (k = rpc_key_of (p_rpc e) /\ wkind (p_rpc e) /\ 0 < k_len (p_rpc e) /\
     wr = mkw (k_wid (p_rpc e)) (k_off (p_rpc e)) (k_len (p_rpc e))).
Proof.
  intros st e oracle st' res tr H k r' wr G I. unfold exec_rpc in H. unfold rpc_key_of, wkind.
  destruct (k_kind (p_rpc e) =? K_Write) eqn:KW.
  { destruct (ts_write _ _ _ _ _ _ _) as [reps c] eqn:W. inversion H; subst; cbn [s_reps set_reps] in G.
    destruct (grown_write _ _ _ _ _ _ _ _ _ W _ _ _ G I) as [(r0 & G0 & I0)|(K & L & E)].
    - left. exists k, r0. auto.
    - right. apply Z.eqb_eq in KW. cbn in L. auto. }
  destruct (k_kind (p_rpc e) =? K_Create) eqn:KC.
  { destruct (ts_create _ _ _ _ _ _ _) as [reps c] eqn:W. inversion H; subst; cbn [s_reps set_reps] in G.
    destruct (grown_create _ _ _ _ _ _ _ _ _ W _ _ _ G I) as [(r0 & G0 & I0)|(K & L & E)].
    - left. exists k, r0. auto.
    - right. apply Z.eqb_eq in KC. cbn in L. auto. }
  left.
  assert (SAME : s_reps st' = s_reps st -> exists k0 r0, snd k0 = snd k /\ rget (s_reps st) k0 = Some r0 /\ In wr (r_app r0)).
  { intro E. rewrite E in G. exists k, r'. auto. }
  destruct (k_kind (p_rpc e) =? K_Read).
  { destruct (ts_read _ _ _ _ _ _) as [[c n] runs]. inversion H; subst. apply SAME. reflexivity. }
  destruct (k_kind (p_rpc e) =? K_SetVersion).
  { destruct (ts_setversion _ _ _ _ _) as [reps c] eqn:W. inversion H; subst; cbn [s_reps set_reps] in G.
    exact (contained_setversion _ _ _ _ _ _ _ W _ _ _ G I). }
  destruct (k_kind (p_rpc e) =? K_PullTract).
  { destruct (ts_pull _ _ _ _ _ _ _) as [reps c] eqn:W. inversion H; subst; cbn [s_reps set_reps] in G.
    unfold ts_pull in W. destruct (negb _).
    - inversion W; subst. exists k, r'. auto.
    - exact (contained_pull_loop _ _ _ _ _ _ _ _ _ W _ _ _ G I). }
  apply SAME.
  destruct (k_kind (p_rpc e) =? K_StatBlob).
  { destruct (zget (s_blobs st) (k_blob (p_rpc e))) as [[a b]|]; inversion H; subst; reflexivity. }
  destruct (k_kind (p_rpc e) =? K_GetTracts). { destruct (exec_gettracts st (p_rpc e)). inversion H; subst; reflexivity. }
  destruct (k_kind (p_rpc e) =? K_ExtendBlob). { destruct (exec_extend st (p_rpc e) oracle). inversion H; subst; reflexivity. }
  destruct (k_kind (p_rpc e) =? K_AckExtend).
  { pose proof (reps_ack_extend st (k_blob (p_rpc e)) (decode_tracts false (k_aux (p_rpc e)))) as R.
    destruct (ack_extend _ _ _) as [s1 c]. inversion H; subst. exact R. }
  destruct (k_kind (p_rpc e) =? K_ReportBadTS); inversion H; subst; reflexivity.
Qed.

Lemma att_exec : forall st e oracle st' res tr,
  att_ok st -> In e (s_pool st) -> exec_rpc st e oracle = (st', res, tr) -> att_ok st'.
Proof.
  intros st e oracle st' res tr (A1 & A2 & A3) IN X.
  destruct (exec_misc _ _ _ _ _ _ X) as (EA & EO & EP).
  assert (MONO : forall b w j off len, att_has st b w j off len -> att_has st' b w j off len).
  { intros. eapply att_has_mono; [|eauto]. intros x Hx. rewrite EA. exact Hx. }
  split; [|split].
  - intros o I K. rewrite EO in I. rewrite EA. auto.
  - intros e' I K L. rewrite EP in I. apply MONO. auto.
  - intros ts b j r' wr G I. apply MONO.
    destruct (exec_records _ _ _ _ _ _ X _ _ _ G I) as [(k0 & r0 & S & G0 & I0)|(K & WK & L & E)].
    + destruct k0 as [ts0 [b0 j0]]. cbn in S. inversion S; subst. eapply A3; eauto.
    + subst wr. cbn. unfold rpc_key_of, tkey in K. inversion K; subst. apply A2; auto.
Qed.

Lemma att_pool_update : forall st e stt res tr lose auto,
  att_ok st -> In e (s_pool st) -> att_ok (set_pool st (pool_update (s_pool st) (set_pent e stt res tr lose auto))).
Proof.
  intros st e stt res tr lose auto A IN. eapply still_att_ok; [|exact A].
  repeat split; auto.
  - intros o H. exists o. repeat split; auto.
  - intros e' H. cbn in H. unfold pool_update in H. apply in_map_iff in H as (x & E & Ix).
    left. destruct (p_id x =? p_id (set_pent e stt res tr lose auto)); subst e'; [exists e; auto | exists x; auto].
Qed.

Lemma att_step_exec : forall st mode r, att_ok st -> att_ok (fst (step_exec st mode r)).
Proof.
  intros st mode r A. unfold step_exec.
  destruct (parse_rpc r) as [[rp r1]|]; [|exact A].
  destruct r1 as [|nh r2]; [exact A|].
  destruct (take nh r2) as [place r3].
  destruct (find_pent (s_pool st) rp 0) as [e|] eqn:F; [|exact A].
  assert (IN : In e (s_pool st)).
  { clear - F. induction (s_pool st) as [|x l IH]; cbn [find_pent] in F; [discriminate|].
    destruct (rpc_eqb (p_rpc x) rp && (p_st x =? 0)); [inversion F; left; auto | right; auto]. }
  destruct (mode =? 4).
  { cbn [fst]. eapply still_att_ok; [eapply still_trans; [apply still_resume | apply still_flush] | exact A]. }
  destruct (mode =? 6).
  { destruct (negb (k_kind rp =? K_PullTract)); [exact A|]. cbn [fst].
    match goal with |- context [set_reps st ?x] => set (reps' := x); set (st1 := set_reps st reps') end.
    assert (A1 : att_ok st1).
    { destruct A as (B1 & B2 & B3). split; [exact B1|]. split; [exact B2|].
      intros ts b j r' wr G I. cbn [s_reps set_reps st1] in G. unfold reps' in G.
      destruct (k_ts rp =? aux_nth rp 0); [|eapply B3; eauto].
      destruct (contained_pull_crash _ _ _ _ _ _ _ _ _ G I) as (k0 & r0 & S & G0 & I0).
      destruct k0 as [ts0 [b0 j0]]. cbn in S. inversion S; subst. eapply B3; eauto. }
    eapply still_att_ok; [|exact A1].
    eapply still_trans; [eapply still_trans; [apply still_resume | apply still_flush] | apply still_fold_victims]. }
  destruct (k_kind rp =? K_FixVersion).
  { cbn [fst].
    set (sa := set_pool st (pool_update (s_pool st) (set_pent e 1 [] [] (mode =? 2) (negb (mode =? 5))))).
    assert (Aa : att_ok sa) by (apply att_pool_update; auto).
    eapply still_att_ok; [|exact Aa].
    eapply still_trans; [apply (still_same sa (set_nsynth sa (s_nsynth st + 1))); reflexivity|].
    eapply still_trans; [apply still_start_task | apply still_flush]. }
  destruct (exec_rpc st e place) as [[st1 res] tr] eqn:X1.
  pose proof (att_exec _ _ _ _ _ _ A IN X1) as A1.
  destruct (exec_misc _ _ _ _ _ _ X1) as (_ & _ & P1).
  destruct (mode =? 3).
  - destruct (exec_rpc st1 e place) as [[st1b res2] tr2] eqn:X2. cbn [fst].
    assert (IN1 : In e (s_pool st1)) by (rewrite P1; exact IN).
    pose proof (att_exec _ _ _ _ _ _ A1 IN1 X2) as A2.
    destruct (exec_misc _ _ _ _ _ _ X2) as (_ & _ & P2).
    eapply still_att_ok; [apply still_flush|]. apply att_pool_update; auto. rewrite P2. exact IN1.
  - cbn [fst]. eapply still_att_ok; [apply still_flush|]. apply att_pool_update; auto. rewrite P1. exact IN.
Qed.

Theorem att_step : forall st ev, att_ok st -> att_ok (fst (step st ev)).
Proof.
  intros st ev A0. unfold step.
  assert (A : att_ok (set_out st [])) by exact A0. clear A0. set (s := set_out st []) in *. clearbody s.
  destruct ev as [|c a]; [exact A|].
  destruct (c =? 1). { destruct a; exact A. }
  destruct (c =? 2). { destruct a as [|x [|y [|z a]]]; try exact A. destruct (zget (s_blobs s) x); exact A. }
  destruct (c =? 3).
  { destruct a as [|x1 [|x2 [|x3 [|x4 [|x5 [|x6 [|x7 a]]]]]]]; try exact A. cbn [fst].
    destruct A as (A1 & A2 & A3).
    assert (MONO : forall b w j off len, att_has s b w j off len ->
                   att_has (set_att (set_ops s (s_ops s ++ [{| o_id := x1; o_kind := 3; o_cli := x2; o_blob := x3; o_off := x4; o_len := x5; o_wid := x6;
                                                                 o_succ := []; o_acked := []; o_reads := [] |}]))
                                    ((x3, x6, mkw x6 x4 x5) :: s_att s)) b w j off len).
    { intros b w j off len (W & I & S). exists W. split; auto. right. exact I. }
    split; [|split].
    - intros o I K. cbn in I. apply in_app_or in I as [I|[I|[]]]; [right; now apply A1|]. subst o. cbn. left. reflexivity.
    - intros e I K L. apply MONO. now apply A2.
    - intros ts b j r wr G I. apply MONO. eapply A3; eauto. }
  destruct (c =? 4).
  { destruct a as [|x1 [|x2 [|x3 [|x4 [|x5 [|x6 a]]]]]]; try exact A. cbn [fst].
    destruct A as (A1 & A2 & A3). split; [|split]; [|exact A2|exact A3].
    intros o I K. cbn in I. apply in_app_or in I as [I|[I|[]]]; [now apply A1|]. subst o. cbn in K. discriminate. }
  destruct (c =? 5).
  { destruct a as [|x1 [|x2 [|x3 [|x4 [|x5 a]]]]]; try exact A.
    destruct (take x5 a) as [bad rest]. cbn [fst].
    eapply still_att_ok; [eapply still_trans; [apply still_start_task | apply still_flush] | exact A]. }
  destruct (c =? 6).
  { destruct a as [|x1 [|x2 [|x3 [|x4 [|x5 [|x6 [|x7 a]]]]]]]; try exact A. cbn [fst].
    eapply still_att_ok; [eapply still_trans; [apply still_start_task | apply still_flush] | exact A]. }
  destruct (c =? 7). { destruct a as [|mode rest]; [exact A|]. now apply att_step_exec. }
  destruct (c =? 8).
  { destruct a as [|lose r]; [exact A|]. unfold step_reply.
    destruct (parse_rpc r) as [[rp r1]|]; [|exact A].
    destruct (find_pent (s_pool s) rp 2) as [e|]; [|exact A]. cbn [fst].
    eapply still_att_ok; [eapply still_trans; [apply still_resume | apply still_flush] | exact A]. }
  destruct (c =? 9).
  { destruct a as [|ts [|y a]]; try exact A. unfold step_restart. cbn [fst].
    eapply still_att_ok; [apply still_fold_victims | exact A]. }
  destruct (c =? 10). { destruct a; exact A. }
  destruct (c =? 11). { destruct a as [|ts [|y a]]; exact A. }
  destruct (c =? 12).
  { destruct a as [|x1 [|x2 [|x3 [|x4 [|x5 a]]]]]; try exact A. unfold step_probe.
    destruct (tget (s_dtr s) (tkey x1 x2)) as [[ver hosts]|]; [|exact A].
    destruct ((x3 =? 1) && (x4 =? 0)); [exact A|].
    match goal with |- context [change_tract ?a ?b ?c ?d ?e ?f] =>
      pose proof (still_change_tract a b c d e f) as H; destruct (change_tract a b c d e f) end.
    cbn [fst] in *. eapply still_att_ok; eauto. }
  destruct (c =? 13).
  { unfold step_issue. destruct (parse_rpc a) as [[rp r1]|]; [|exact A].
    destruct (issue_allowed s rp) eqn:IA; [|exact A]. cbn [fst].
    destruct A as (A1 & A2 & A3). split; [exact A1|]. split; [|exact A3].
    intros e H K L. cbn in H. apply in_app_or in H as [H|[H|[]]]; [now apply A2|]. subst e. cbn in K, L |- *.
    unfold issue_allowed in IA. apply andb_true_iff in IA as [_ IA].
    assert (TS : is_ts_kind (k_kind rp) = true) by (destruct K as [K|K]; rewrite K; reflexivity).
    rewrite TS in IA. apply andb_true_iff in IA as [_ IA].
    assert (WK : (k_kind rp =? K_Write) || (k_kind rp =? K_Create) = true) by (destruct K as [K|K]; rewrite K; reflexivity).
    rewrite WK in IA. destruct (op_of_client (s_ops s) (k_cli rp)) as [o|] eqn:OF; [|discriminate].
    apply op_of_client_in in OF.
    apply andb_true_iff in IA as [IA H3]. apply andb_true_iff in IA as [H1 H2].
    apply Z.eqb_eq in H1, H2. apply orb_true_iff in H3 as [H3|H3]. { apply Z.eqb_eq in H3. lia. }
    apply andb_true_iff in H3 as [H3 H6]. apply andb_true_iff in H3 as [H4 H5]. apply Z.eqb_eq in H4, H5, H6.
    exists (mkw (o_wid o) (o_off o) (o_len o)). split.
    - rewrite <- H2, <- H4. apply A1; auto.
    - cbn. destruct (seg_of (o_off o) (o_len o) (k_tract rp)); cbn in *; congruence. }
  destruct (c =? 14).
  { destruct a as [|x1 [|x2 [|x3 a]]]; try exact A. unfold step_finclient.
    destruct (find_op (s_ops s) x1) as [o|]; [|exact A].
    assert (DEL : att_ok (set_ops s (del_op (s_ops s) x1))).
    { eapply still_att_ok; [|exact A]. repeat split; auto.
      - intros o' H. cbn in H. unfold del_op in H. apply filter_In in H as [H _]. exists o'. repeat split; auto.
      - intros e H. left. exists e. auto. }
    repeat match goal with
           | |- context [match ?x with _ => _ end] => destruct x eqn:?
           | |- context [if ?x then _ else _] => destruct x eqn:?
           end; exact DEL. }
  destruct (c =? 15). { destruct a as [|op [|y a]]; try exact A. destruct (zget (s_fin s) op); exact A. }
  destruct (c =? 16).
  { unfold step_rpcdone. repeat match goal with
                                | |- context [match ?x with _ => _ end] => destruct x eqn:?
                                end; exact A. }
  destruct (c =? 17).
  { unfold step_inject. destruct (parse_rpc a) as [[rp r1]|]; [|exact A].
    destruct ((k_cli rp <? 0) && ((k_kind rp =? K_SetVersion) || (k_kind rp =? K_PullTract))) eqn:IA; [|exact A].
    cbn [fst]. apply andb_true_iff in IA as [_ IA].
    destruct A as (A1 & A2 & A3). split; [exact A1|]. split; [|exact A3].
    intros e H K L. cbn in H. apply in_app_or in H as [H|[H|[]]]; [now apply A2|]. subst e. cbn in K.
    exfalso. destruct K as [K|K]; rewrite K in IA; cbn in IA; discriminate. }
  exact A.
Qed.

Lemma att_init : att_ok init_state.
Proof. split; [|split]; cbn; intros; try contradiction; discriminate. Qed.

Theorem att_reachable : forall evs st, att_ok st -> att_ok (run_state st evs).
Proof. induction evs; intros st A; cbn; auto. apply IHevs. now apply att_step. Qed.

(* ---------- consequences ---------- *)
Lemma seg_covers : forall off len j p wo wl,
  seg_of off len j = (wo, wl) -> wo <= p < wo + wl -> off <= j * TL + p < off + len.
Proof. intros off len j p wo wl H C. unfold seg_of in H. inversion H; subst. lia. Qed.

Lemma newest_cover_some : forall att b wid W q,
  In (b, wid, W) att -> covers W q = true -> newest_cover att b q <> None.
Proof.
  induction att as [|[[b0 w0] W0] att IH]; intros b wid W q I C; [destruct I|].
  cbn. destruct I as [I|I].
  - inversion I; subst. rewrite Z.eqb_refl, C. cbn. discriminate.
  - destruct ((b0 =? b) && covers W0 q); [discriminate | eapply IH; eauto].
Qed.

Lemma byte_at_zero : forall app p, (forall wr, In wr app -> covers wr p = false) -> byte_at app p = 0.
Proof.
  induction app as [|w app IH]; intros p H; cbn; auto.
  rewrite (H w (or_introl eq_refl)). apply IH. intros wr I. apply H. right. exact I.
Qed.

(* every write record in any replica is the part, in that tract, of an attempt on that blob *)
Theorem records_are_attempt_parts : forall evs ts b j r wr,
  let st := run_state init_state evs in
  rget (s_reps st) (ts, (b, j)) = Some r -> In wr (r_app r) ->
  exists W, In (b, w_id wr, W) (s_att st) /\ seg_of (w_off W) (w_len W) j = (w_off wr, w_len wr).
Proof.
  intros evs ts b j r wr st G I. pose proof (att_reachable evs init_state att_init) as (_ & _ & A3).
  exact (A3 _ _ _ _ _ G I).
Qed.

(* a byte that no write attempt on the blob ever covered reads as zero on every replica of its tract *)
Theorem unwritten_reads_zero : forall evs ts b j r p,
  let st := run_state init_state evs in
  rget (s_reps st) (ts, (b, j)) = Some r ->
  newest_cover (s_att st) b (j * TL + p) = None ->
  byte_at (r_app r) p = 0.
Proof.
  intros evs ts b j r p st G N. apply byte_at_zero. intros wr I.
  destruct (covers wr p) eqn:C; auto. exfalso.
  destruct (records_are_attempt_parts evs ts b j r wr G I) as (W & IA & S). fold st in IA.
  apply (newest_cover_some _ _ _ _ (j * TL + p) IA); auto.
  unfold covers in *. apply andb_true_iff in C as [C1 C2]. apply Z.leb_le in C1. apply Z.ltb_lt in C2.
  pose proof (seg_covers _ _ _ p _ _ S (conj C1 C2)) as [L1 L2].
  apply andb_true_iff. split; [apply Z.leb_le | apply Z.ltb_lt]; lia.
Qed.
