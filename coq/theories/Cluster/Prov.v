(* Cluster/Prov.v — candidates and provenance, for schedules with a tractserver crash in the middle of PullTract.
   A copy one version ahead counts as a candidate host only if it is a durable host (bumped), or a completed pull
   put it there (the OK reply is under way, or the task has consumed it and counts the server as pulled).
   Provenance: a PullTract for the next version names durable hosts as sources. *)
From Coq Require Import List ZArith Bool Lia.
From BLB Require Import Gen.Consts Cluster.Model Cluster.Proofs Cluster.Frame Cluster.Inv Cluster.Window
     Cluster.Attempts Cluster.Sched Cluster.Order Cluster.Contain Cluster.Visible Cluster.Lower.
Import ListNotations.
Open Scope Z_scope.

(* ---------- candidates ---------- *)
Definition pull_ok (st : state) (tk : tkt) (v : Z) (g : Z) : Prop :=
  exists e, In e (s_pool st) /\ k_kind (p_rpc e) = K_PullTract /\ okres e /\
            k_ts (p_rpc e) = g /\ rtk (p_rpc e) = tk /\ k_ver (p_rpc e) = v.
Definition counted (st : state) (tk : tkt) (v : Z) (g : Z) : Prop :=
  exists t, In t (s_tasks st) /\ ttk t = tk /\ t_dv t + 1 = v /\ t_phase t = 2 /\ In g (t_new t) /\
            ~ own_rpc st (t_op t) (pl_of t g).
Definition pulled_to (st : state) (tk : tkt) (v : Z) (g : Z) : Prop := pull_ok st tk v g \/ counted st tk v g.
Definition cand (st : state) (tk : tkt) (dv : Z) (H : list Z) (g : Z) : Prop := In g H \/ pulled_to st tk (dv + 1) g.
Definition cur5 (st : state) (tk : tkt) (dv : Z) (H : list Z) (g : Z) (r : replica) : Prop :=
  (In g H /\ r_ver r = dv) \/ (r_ver r = dv + 1 /\ cand st tk dv H g).

Lemma cur5_curv : forall st tk dv H g r, cur5 st tk dv H g r -> curv dv H g r.
Proof. intros st tk dv H g r [X|[X _]]; [left; exact X | right; exact X]. Qed.

(* candidates only disappear *)
Definition cs (st st' : state) : Prop := forall tk v g, pulled_to st' tk v g -> pulled_to st tk v g.

Lemma cs_refl : forall st, cs st st.
Proof. intros st tk v g X. exact X. Qed.
Lemma cs_trans : forall a b c, cs a b -> cs b c -> cs a c.
Proof. intros a b c H1 H2 tk v g X. apply H1, H2, X. Qed.

(* current copies only disappear (same replicas) *)
Definition cb (st st' : state) : Prop :=
  s_reps st' = s_reps st /\ dgrow st st' /\
  forall tk dv H dv' H' g r, tget (s_dtr st) tk = Some (dv, H) -> tget (s_dtr st') tk = Some (dv', H') ->
    rget (s_reps st) (g, tk) = Some r -> r_ver r <= dv + 1 ->
    cur5 st' tk dv' H' g r -> cur5 st tk dv H g r.

Lemma dgrow_same : forall st st', s_dtr st' = s_dtr st -> dgrow st st'.
Proof. intros st st' D tk dv H E. exists dv, H. rewrite D. split; auto; lia. Qed.

Lemma cb_of_cs : forall st st', s_reps st' = s_reps st -> s_dtr st' = s_dtr st -> cs st st' -> cb st st'.
Proof.
  intros st st' R D C. split; [exact R|]. split; [now apply dgrow_same|]. intros tk dv H dv' H' g r E E' G L Cu. rewrite D, E in E'. inversion E'; subst dv' H'.
  destruct Cu as [X|[V [X|X]]]; [left; exact X | right; split; auto; left; exact X | right; split; auto; right; apply C; exact X].
Qed.

Lemma cb_refl : forall st, cb st st.
Proof. intros. apply cb_of_cs; auto using cs_refl. Qed.

Lemma cb_trans : forall a b c, cb a b -> cb b c -> cb a c.
Proof.
  intros a b c (R1 & G1 & H1) (R2 & G2 & H2). split; [congruence|]. split; [eapply dgrow_trans; eauto|].
  intros tk dv H dv' H' g r E E' G L Cu. destruct (G1 _ _ _ E) as (dv1 & Hb & Eb & L1).
  apply (H1 tk dv H dv1 Hb g r E Eb G L). apply (H2 tk dv1 Hb dv' H' g r Eb E'); auto; [rewrite R1; exact G | lia].
Qed.

(* ---------- provenance ---------- *)
Definition lPX (st : state) : Prop :=
  forall e, In e (s_pool st) -> k_kind (p_rpc e) = K_PullTract ->
  forall dv H, tget (s_dtr st) (rtk (p_rpc e)) = Some (dv, H) -> k_ver (p_rpc e) = dv + 1 ->
  forall src, In src (tl (k_aux (p_rpc e))) -> In src H.
Definition lTS (st : state) : Prop :=
  forall t, In t (s_tasks st) -> 0 < t_phase t ->
  forall dv H, tget (s_dtr st) (ttk t) = Some (dv, H) -> t_dv t = dv -> forall h, In h (t_ok t) -> In h H.
Definition prov (st : state) : Prop := lPX st /\ lTS st.

Definition W (st : state) : Prop := dur_ok st /\ win_ok st.
Lemma W_step2 : forall st st', step2 st st' -> W st -> W st'.
Proof. intros st st' S [D Wn]. destruct (S D) as (D' & _). split; auto. eapply step2_win; eauto. Qed.
Lemma W_calm : forall st st', calm st st' -> W st -> W st'.
Proof. intros. eapply W_step2; eauto. now apply calm_step2. Qed.

Lemma prov_sub : forall st st', s_dtr st' = s_dtr st ->
  (forall e', In e' (s_pool st') -> k_kind (p_rpc e') = K_PullTract -> exists e, In e (s_pool st) /\ p_rpc e = p_rpc e') ->
  (forall t', In t' (s_tasks st') -> 0 < t_phase t' ->
     exists t, In t (s_tasks st) /\ 0 < t_phase t /\ ttk t = ttk t' /\ t_dv t = t_dv t' /\ t_ok t = t_ok t') ->
  prov st -> prov st'.
Proof.
  intros st st' D P T [PX TS]. split.
  - intros e' I K dv H E V src Is. destruct (P _ I K) as (e & Ie & Re). rewrite <- Re in *. rewrite D in E. eapply PX; eauto.
  - intros t' I Ph dv H E V h Ih. destruct (T _ I Ph) as (t & It & Pt & A & B & C). rewrite <- A in E. rewrite <- C in Ih. rewrite D in E. eapply TS; eauto. congruence.
Qed.

Lemma prov_same : forall st st', s_dtr st' = s_dtr st -> s_pool st' = s_pool st -> s_tasks st' = s_tasks st -> prov st -> prov st'.
Proof.
  intros st st' D P T. apply prov_sub; auto.
  - intros e I _. rewrite P in I. exists e. auto.
  - intros t I Ph. rewrite T in I. exists t. auto.
Qed.

Lemma prov_fold_issue : forall (f : Z -> rpc) o l st, (forall h, k_kind (f h) <> K_PullTract) -> prov st ->
  prov (fold_left (fun s h => issue_cur s (f h) o) l st).
Proof.
  intros f o l st NP Pr. destruct (fold_issue_fields f o l st) as (FP & _ & FT & _ & FD & _).
  apply (prov_sub st); auto.
  - intros e' I K. rewrite FP in I. apply in_app_or in I as [I|I]; [exists e'; auto|].
    apply mkents_in in I as (_ & _ & _ & h & _ & Rh). rewrite Rh in K. exfalso. exact (NP h K).
  - intros t I Ph. rewrite FT in I. exists t. auto.
Qed.

Lemma prov_finish_task : forall st t err, prov st -> prov (finish_task st t err).
Proof.
  intros st t err. apply prov_sub.
  - unfold finish_task. brk; reflexivity.
  - intros e' I _. destruct (still_finish_task st t err) as (_ & _ & _ & _). 
    unfold finish_task in I.
    assert (X : exists e, In e (s_pool st) /\ p_rpc e = p_rpc e').
    { destruct (t_rpc t =? 0); cbn in I.
      - apply in_map_iff in I as (y & Ey & Iy). exists y. split; auto. subst e'. destruct (p_owner y =? t_op t); reflexivity.
      - apply in_map_iff in I as (y1 & Ey1 & Iy1). apply in_map_iff in Iy1 as (y & Ey & Iy). exists y. split; auto. subst e' y1.
        destruct (p_owner y =? t_op t); cbn; destruct (_ =? t_rpc t); reflexivity. }
    exact X.
  - intros t' I Ph. exists t'. split; auto. unfold finish_task in I.
    assert (X : In t' (del_task (s_tasks st) (t_op t))) by (destruct (t_rpc t =? 0); exact I).
    unfold del_task in X. apply filter_In in X as [X _]. exact X.
Qed.

Lemma sorted_in : forall h l, In h (fold_right insert_sorted [] l) -> In h l.
Proof.
  assert (A : forall x y l, In y (insert_sorted x l) -> y = x \/ In y l).
  { induction l as [|a l IH]; intros I; cbn in I.
    - destruct I as [I|[]]; auto.
    - destruct (x <? a); [destruct I as [I|I]; auto|]. destruct (x =? a); [auto|].
      destruct I as [I|I]; [right; left; exact I|]. destruct (IH I) as [X|X]; auto. right. right. exact X. }
  induction l as [|a l IH]; intros I; [destruct I|]. cbn in I. destruct (A _ _ _ I) as [X|X]; [left; auto | right; auto].
Qed.

Lemma prov_upd_task : forall st t t', In t (s_tasks st) -> t_op t' = t_op t ->
  (0 < t_phase t' -> 0 < t_phase t /\ ttk t = ttk t' /\ t_dv t = t_dv t' /\ t_ok t = t_ok t') ->
  prov st -> prov (set_tasks st (upd_task (s_tasks st) t')).
Proof.
  intros st t t' It OP SAME. apply prov_sub; try reflexivity.
  - intros e I _. exists e. auto.
  - intros x Ix Ph. cbn in Ix. apply upd_task_in in Ix as [[Ex _]|[Ix _]]; [|exists x; auto].
    subst x. destruct (SAME Ph) as (A & B & C & D). exists t. auto.
Qed.

(* a task that enters phase 1 with survivors taken from the durable record *)
Lemma prov_enter : forall st t t', In t (s_tasks st) -> t_op t' = t_op t -> ttk t' = ttk t ->
  (forall dv H, tget (s_dtr st) (ttk t) = Some (dv, H) -> t_dv t' = dv -> forall h, In h (t_ok t') -> In h H) ->
  prov st -> prov (set_tasks st (upd_task (s_tasks st) t')).
Proof.
  intros st t t' It OP TT OKH [PX TS]. split; [exact PX|].
  intros x Ix Ph dv H E V h Ih. cbn in Ix. apply upd_task_in in Ix as [[Ex _]|[Ix _]]; [|eapply TS; eauto].
  subst x. rewrite TT in E. eapply OKH; eauto.
Qed.

Lemma prov_activate : forall st t, In t (s_tasks st) -> prov st -> prov (activate st t).
Proof.
  intros st t It Pr. unfold activate.
  destruct (zget (s_blobs st) (t_blob t)) as [[repl nt]|]; [|now apply prov_finish_task].
  destruct (nt <=? t_tract t); [now apply prov_finish_task|].
  destruct (tget (s_dtr st) (tkey (t_blob t) (t_tract t))) as [[dv hosts]|] eqn:Et; [|now apply prov_finish_task].
  destruct (t_kind t =? 5).
  - destruct (_ =? 0); [now apply prov_finish_task|]. destruct (_ =? _); [now apply prov_finish_task|].
    destruct (negb _); [now apply prov_finish_task|].
    apply prov_fold_issue; [intros h Y; discriminate Y|]. apply (prov_enter st t); auto.
    intros dv0 Hq E0 _ h Ih. unfold ttk in E0. rewrite Et in E0. inversion E0; subst. cbn in Ih. apply filter_In in Ih as [Ih _]. exact Ih.
  - destruct (negb _); [now apply prov_finish_task|]. destruct (negb _); [now apply prov_finish_task|].
    destruct (negb _); [now apply prov_finish_task|].
    apply prov_fold_issue; [intros h Y; discriminate Y|]. apply (prov_enter st t); auto.
    intros dv0 Hq E0 _ h Ih. unfold ttk in E0. rewrite Et in E0. inversion E0; subst. exact Ih.
Qed.

Lemma prov_wake : forall n st, prov st -> prov (wake n st).
Proof.
  induction n; intros st Pr; [exact Pr|]. unfold wake; fold wake.
  destruct (find _ (s_tasks st)) as [t|] eqn:F; [|exact Pr]. apply find_some in F as [It _]. apply IHn. now apply prov_activate.
Qed.

Lemma prov_start_task : forall st t, t_phase t = 0 -> prov st -> prov (start_task st t).
Proof.
  intros st t Ph Pr. unfold start_task.
  assert (P1 : prov (set_tasks st (s_tasks st ++ [t]))).
  { apply (prov_sub st); try reflexivity; auto.
    - intros e I _. exists e. auto.
    - intros x Ix Px. cbn in Ix. apply in_app_or in Ix as [Ix|[Ix|[]]]; [exists x; auto | subst x; lia]. }
  destruct (_ && _); [now apply prov_finish_task | now apply prov_wake].
Qed.

Lemma prov_commit : forall st b tr v hosts dv hs, W st -> tget (s_dtr st) (b, tr) = Some (dv, hs) -> v = dv + 1 ->
  prov st -> prov (set_dtr st (tset (s_dtr st) (b, tr) (v, hosts))).
Proof.
  intros st b tr v hosts dv hs [_ (U1 & U2 & U3)] G V [PX TS]. subst v. split.
  - intros e I K dv' H' E' V' src Is. cbn [s_dtr set_dtr] in E'. destruct (tk_eqb (rtk (p_rpc e)) (b, tr)) eqn:Q.
    + apply tk_eqb_eq in Q. rewrite Q, tget_tset_same in E'. inversion E'; subst.
      destruct (U2 _ I (or_intror K)) as (dv0 & Hq & E0 & L0). rewrite Q, G in E0. inversion E0; subst. lia.
    + rewrite tget_tset_other in E' by (intro Y; rewrite Y, tk_eqb_refl in Q; discriminate). eapply PX; eauto.
  - intros t I Ph dv' H' E' V' h Ih. cbn [s_dtr set_dtr] in E'. destruct (tk_eqb (ttk t) (b, tr)) eqn:Q.
    + apply tk_eqb_eq in Q. rewrite Q, tget_tset_same in E'. inversion E'; subst.
      destruct (U3 _ I Ph) as (dv0 & Hq & E0 & L0). rewrite Q, G in E0. inversion E0; subst. lia.
    + rewrite tget_tset_other in E' by (intro Y; rewrite Y, tk_eqb_refl in Q; discriminate). eapply TS; eauto.
Qed.

Lemma prov_task_reply : forall st op err hint, W st -> prov st -> prov (task_reply st op err hint).
Proof.
  intros st op err hint0 Ws Pr. unfold task_reply.
  destruct (find_task (s_tasks st) op) as [t|] eqn:F; [|exact Pr]. apply find_task_in in F.
  destruct (negb _). { apply prov_wake. now apply prov_finish_task. }
  destruct (1 <? t_wait t). { apply (prov_upd_task st t); auto. }
  destruct ((t_kind t =? 5) && (t_phase t =? 1)) eqn:KP.
  { apply andb_true_iff in KP as [_ P1]. apply Z.eqb_eq in P1.
    destruct (_ || _). { apply prov_wake. now apply prov_finish_task. }
    destruct (negb _). { apply prov_wake. now apply prov_finish_task. }
    (* the pulls name the survivors as sources *)
    set (t' := {| t_op := t_op t; t_kind := 5; t_gen := t_gen t; t_term := t_term t; t_blob := t_blob t; t_tract := t_tract t;
                  t_phase := 2; t_dv := t_dv t; t_ok := t_ok t; t_bad := t_bad t; t_new := before_sep hint0;
                  t_wait := Z.of_nat (length (t_bad t)); t_cliver := 0; t_badts := 0; t_rpc := t_rpc t |}).
    assert (P1' : prov (set_tasks st (upd_task (s_tasks st) t'))).
    { apply (prov_upd_task st t); auto. intros _. repeat split; auto. lia. }
    destruct P1' as [PX1 TS1]. pose proof Pr as [PX TS].
    destruct (fold_issue_fields (fun h => mk_pull (t_gen t) h (t_blob t) (t_tract t) (t_dv t + 1) (t_ok t)) (t_op t) (before_sep hint0)
                (set_tasks st (upd_task (s_tasks st) t'))) as (FP & _ & FT & _ & FD & _).
    split.
    - intros e I K dv H E V src Is. rewrite FD in E. rewrite FP in I. apply in_app_or in I as [I|I]; [eapply PX1; eauto|].
      apply mkents_in in I as (_ & _ & _ & h & _ & Rh). rewrite Rh in *. cbn in E, V, Is. apply sorted_in in Is.
      eapply (TS t F); eauto; [lia | lia].
    - intros x Ix Ph dv H E V h Ih. rewrite FT in Ix. rewrite FD in E. eapply TS1; eauto. }
  match goal with |- context [change_tract ?a ?b ?c ?d ?e ?f] =>
    destruct (change_tract a b c d e f) as [st1 ee] eqn:CT end.
  apply prov_wake. apply prov_finish_task.
  destruct (change_tract_cases _ _ _ _ _ _ _ _ CT) as [E1|(dv & hs & G & V & E1)]; subst st1; [exact Pr|].
  eapply prov_commit; eauto.
Qed.

Lemma prov_resume : forall st e d h, W st -> prov st -> prov (resume st e d h).
Proof.
  intros st e d h Ws Pr. unfold resume.
  set (st1 := set_pool st (pool_remove (s_pool st) (p_id e))).
  assert (P1 : prov st1).
  { apply (prov_sub st); try reflexivity; auto.
    - intros x Ix _. cbn in Ix. unfold pool_remove in Ix. apply filter_In in Ix as [Ix _]. exists x. auto.
    - intros t It Ph. exists t. auto. }
  assert (W1 : W st1) by (eapply W_calm; [apply calm_pool_remove | exact Ws]).
  destruct (k_cli (p_rpc e) <? 0).
  - destruct (p_owner e =? 0); [exact P1 | now apply prov_task_reply].
  - set (st2 := if k_kind (p_rpc e) =? K_FixVersion then set_done st1 _ else st1).
    assert (P2 : prov st2) by (unfold st2; destruct (_ =? _); [apply (prov_same st1); auto | exact P1]).
    destruct d; [|exact P2].
    destruct (learn_fields st2 (p_rpc e) (p_res e) (p_tr e)) as (_ & A & B). destruct (learn_fields2 st2 (p_rpc e) (p_res e) (p_tr e)) as (_ & D & _).
    apply (prov_same st2); auto.
Qed.

Lemma W_resume : forall st e d h, W st -> W (resume st e d h).
Proof. intros st e d h Ws. eapply W_step2; [apply step2_resume; apply Ws | exact Ws]. Qed.

Lemma W_flush : forall n st h, W st -> W (flush n st h).
Proof.
  induction n; intros st h Ws; [exact Ws|]. unfold flush; fold flush. destruct (find _ _); [|exact Ws]. apply IHn. now apply W_resume.
Qed.

Lemma prov_flush : forall n st h, W st -> prov st -> prov (flush n st h).
Proof.
  induction n; intros st h Ws Pr; [exact Pr|]. unfold flush; fold flush. destruct (find _ _); [|exact Pr].
  apply IHn; [now apply W_resume | now apply prov_resume].
Qed.

Lemma prov_fold_victims : forall victims s, W s -> prov s ->
  W (fold_left (fun s x => flush 8 (resume s x false []) []) victims s) /\
  prov (fold_left (fun s x => flush 8 (resume s x false []) []) victims s).
Proof.
  induction victims as [|v l IH]; intros s Ws Pr; cbn [fold_left]; [split; assumption|].
  apply IH; [apply W_flush; now apply W_resume | apply prov_flush; [now apply W_resume | now apply prov_resume]].
Qed.

(* ---------- candidates through the machinery ---------- *)
Lemma cs_grow : forall st st' t', s_tasks st' = upd_task (s_tasks st) t' ->
  (forall e', In e' (s_pool st') -> In e' (s_pool st) \/ p_st e' = 0) ->
  (forall e, In e (s_pool st) -> In e (s_pool st')) ->
  (forall tk v g, t_phase t' = 2 -> ttk t' = tk -> t_dv t' + 1 = v -> In g (t_new t') -> ~ own_rpc st' (t_op t') (pl_of t' g) -> pulled_to st tk v g) ->
  cs st st'.
Proof.
  intros st st' t' FT NEW OLD HT tk v g [(e & I & K & [O1 O2] & Rest)|(x & Ix & A & B & C & D & F)].
  - destruct (NEW _ I) as [X|X]; [left; exists e; repeat split; auto; tauto | lia].
  - rewrite FT in Ix. apply upd_task_in in Ix as [[Ex _]|[Ix _]]; [subst x; eapply HT; eauto|].
    right. exists x. repeat split; auto. intros (e & Ie & Oe & Re). apply F. exists e. auto.
Qed.

Lemma cs_same : forall st st', s_pool st' = s_pool st -> s_tasks st' = s_tasks st -> cs st st'.
Proof.
  intros st st' P T tk v g [(e & I & Rest)|(x & Ix & A & B & C & D & F)].
  - left. exists e. rewrite P in I. auto.
  - right. exists x. rewrite T in Ix. repeat split; auto. intros (e & Ie & Rest). apply F. exists e. rewrite P. auto.
Qed.

Lemma cs_pool_map : forall st st' (g : pent -> pent) op,
  s_pool st' = map g (s_pool st) ->
  (forall x, In x (s_tasks st') -> In x (s_tasks st) /\ t_op x <> op) ->
  (forall e, In e (s_pool st) -> p_rpc (g e) = p_rpc e /\ (p_owner e <> op -> p_owner (g e) = p_owner e) /\
     (k_kind (p_rpc e) = K_PullTract -> p_st (g e) = p_st e /\ p_res (g e) = p_res e)) ->
  cs st st'.
Proof.
  intros st st' g op FP FT G tk v y [(e' & I & K & [O1 O2] & Rest)|(x & Ix & A & B & C & D & F)].
  - rewrite FP in I. apply in_map_iff in I as (e & Ee & Ie). subst e'. destruct (G _ Ie) as (Rp & _ & SS). rewrite Rp in *.
    destruct (SS K) as [S1 S2]. left. exists e. split; [exact Ie|]. split; [exact K|]. split; [split; congruence|]. exact Rest.
  - destruct (FT _ Ix) as [Ix0 NOP]. right. exists x. repeat split; auto. intros (e & Ie & Oe & Re). apply F.
    exists (g e). destruct (G _ Ie) as (Rp & Ow & _). split; [rewrite FP; now apply in_map|]. split; [rewrite Ow; [exact Oe | rewrite Oe; exact NOP] | congruence].
Qed.

Lemma cs_finish_task : forall st t err, tr_ok st -> In t (s_tasks st) -> NoDup (map t_op (s_tasks st)) -> cs st (finish_task st t err).
Proof.
  intros st t err (T0 & T1 & T2) It ND. unfold finish_task.
  set (g1 := fun e : pent => if p_owner e =? t_op t
                             then {| p_id := p_id e; p_rpc := p_rpc e; p_st := p_st e; p_res := p_res e; p_tr := p_tr e;
                                     p_lose := p_lose e; p_auto := p_auto e; p_owner := 0 |} else e).
  set (g2 := fun e : pent => if p_id e =? t_rpc t
                             then {| p_id := p_id e; p_rpc := p_rpc e; p_st := 2; p_res := [err]; p_tr := p_tr e;
                                     p_lose := p_lose e; p_auto := p_auto e; p_owner := p_owner e |} else e).
  assert (G1 : forall e, p_id (g1 e) = p_id e /\ p_rpc (g1 e) = p_rpc e /\ (p_owner e <> t_op t -> p_owner (g1 e) = p_owner e) /\
                         p_st (g1 e) = p_st e /\ p_res (g1 e) = p_res e).
  { intro e; unfold g1; destruct (p_owner e =? t_op t) eqn:Q; repeat split; auto. intro N. apply Z.eqb_eq in Q. contradiction. }
  assert (TS : forall x, In x (del_task (s_tasks st) (t_op t)) -> In x (s_tasks st) /\ t_op x <> t_op t).
  { intros x Ix. unfold del_task in Ix. apply filter_In in Ix as [Ix N]. split; auto. apply negb_true_iff in N. now apply Z.eqb_neq in N. }
  destruct (t_rpc t =? 0) eqn:Z0.
  - apply (cs_pool_map st _ g1 (t_op t)); auto.
    intros e Ie. destruct (G1 e) as (A & B & C & D & F). repeat split; auto.
  - apply Z.eqb_neq in Z0. apply (cs_pool_map st _ (fun e => g2 (g1 e)) (t_op t)); auto; [cbn; now rewrite map_map|].
    intros e Ie. destruct (G1 e) as (A & B & C & D & F). unfold g2. rewrite A.
    destruct (p_id e =? t_rpc t) eqn:Q; cbn; [|repeat split; auto].
    apply Z.eqb_eq in Q. destruct (T2 _ It) as [_ FX]. pose proof (FX Z0 _ Ie Q) as KF.
    split; [auto|]. split; [auto|]. intros Y. rewrite KF in Y. discriminate Y.
Qed.

Lemma cs_fold_upd : forall (f : Z -> rpc) o l st t',
  (forall tk v g, t_phase t' = 2 -> ttk t' = tk -> t_dv t' + 1 = v -> In g (t_new t') ->
     ~ own_rpc (fold_left (fun s h => issue_cur s (f h) o) l (set_tasks st (upd_task (s_tasks st) t'))) (t_op t') (pl_of t' g) -> pulled_to st tk v g) ->
  cs st (fold_left (fun s h => issue_cur s (f h) o) l (set_tasks st (upd_task (s_tasks st) t'))).
Proof.
  intros f o l st t' HT. destruct (fold_issue_fields f o l (set_tasks st (upd_task (s_tasks st) t'))) as (FP & _ & FT & _).
  apply (cs_grow st _ t'); auto.
  - intros e' I. rewrite FP in I. apply in_app_or in I as [I|I]; [left; exact I|]. apply mkents_in in I as (_ & _ & Z0 & _). right. exact Z0.
  - intros e I. rewrite FP. apply in_or_app. left. exact I.
Qed.

Lemma cs_activate : forall st t, tr_ok st -> In t (s_tasks st) -> NoDup (map t_op (s_tasks st)) -> cs st (activate st t).
Proof.
  intros st t T It ND. unfold activate.
  assert (FIN : forall err, cs st (finish_task st t err)) by (intro; now apply cs_finish_task).
  destruct (zget (s_blobs st) (t_blob t)) as [[repl nt]|]; [|apply FIN].
  destruct (nt <=? t_tract t); [apply FIN|].
  destruct (tget (s_dtr st) (tkey (t_blob t) (t_tract t))) as [[dv hosts]|]; [|apply FIN].
  destruct (t_kind t =? 5).
  - destruct (_ =? 0); [apply FIN|]. destruct (_ =? _); [apply FIN|]. destruct (negb _); [apply FIN|].
    apply cs_fold_upd. intros tk v g Ph. cbn in Ph. discriminate Ph.
  - destruct (negb _); [apply FIN|]. destruct (negb _); [apply FIN|]. destruct (negb _); [apply FIN|].
    apply cs_fold_upd. intros tk v g Ph. cbn in Ph. discriminate Ph.
Qed.

Definition tnd (st : state) : Prop := NoDup (map t_op (s_tasks st)).

Lemma tnd_finish_task : forall st t err, tnd st -> tnd (finish_task st t err).
Proof.
  intros st t err ND. unfold tnd, finish_task.
  assert (X : NoDup (map t_op (del_task (s_tasks st) (t_op t)))) by (unfold del_task; now apply nodup_filter_tasks).
  destruct (t_rpc t =? 0); exact X.
Qed.
Lemma tnd_fold_upd : forall (f : Z -> rpc) o l st t', tnd st -> tnd (fold_left (fun s h => issue_cur s (f h) o) l (set_tasks st (upd_task (s_tasks st) t'))).
Proof.
  intros f o l st t' ND. destruct (fold_issue_fields f o l (set_tasks st (upd_task (s_tasks st) t'))) as (_ & _ & FT & _).
  unfold tnd. rewrite FT. cbn. rewrite upd_task_ops. exact ND.
Qed.
Lemma tnd_activate : forall st t, tnd st -> tnd (activate st t).
Proof. intros st t ND. unfold activate. brk; try (now apply tnd_finish_task); now apply tnd_fold_upd. Qed.

Lemma cs_wake : forall n st, tr_ok st -> tnd st -> cs st (wake n st).
Proof.
  induction n; intros st T ND; [apply cs_refl|]. unfold wake; fold wake.
  destruct (find _ (s_tasks st)) as [t|] eqn:F; [|apply cs_refl]. apply find_some in F as [It _].
  apply (cs_trans st (activate st t)); [apply cs_activate; assumption|]. apply IHn; [exact (proj1 (machT_activate st t It T)) | now apply tnd_activate].
Qed.

Lemma tnd_wake : forall n st, tnd st -> tnd (wake n st).
Proof. induction n; intros st ND; [exact ND|]. unfold wake; fold wake. destruct (find _ _); [|exact ND]. apply IHn. now apply tnd_activate. Qed.

Lemma cs_start_task : forall st t, tr_ok st -> tnd st ->
  t_rpc t < s_next st -> (t_rpc t <> 0 -> forall e, In e (s_pool st) -> p_id e = t_rpc t -> k_kind (p_rpc e) = K_FixVersion) ->
  t_phase t = 0 -> ~ In (t_op t) (map t_op (s_tasks st)) -> cs st (start_task st t).
Proof.
  intros st t T ND RL RF Ph FR. unfold start_task.
  set (st1 := set_tasks st (s_tasks st ++ [t])).
  assert (C1 : cs st st1).
  { intros tk v g [(e & I & Rest)|(x & Ix & A & B & C & D & F)]; [left; exists e; auto|].
    cbn in Ix. apply in_app_or in Ix as [Ix|[Ix|[]]]; [right; exists x; repeat split; auto | subst x; lia]. }
  assert (T1 : tr_ok st1).
  { destruct T as (T0 & T1 & T2). split; [exact T0|]. split; [exact T1|]. intros x Ix. cbn in Ix. apply in_app_or in Ix as [Ix|[Ix|[]]]; [exact (T2 _ Ix)|]. subst x. auto. }
  assert (N1 : tnd st1) by (unfold tnd; cbn; rewrite map_app; cbn; apply nodup_app_one; auto).
  assert (It : In t (s_tasks st1)) by (cbn; apply in_or_app; right; left; reflexivity).
  destruct (_ && _); (apply (cs_trans st st1); [exact C1|]); [apply cs_finish_task; assumption | apply cs_wake; assumption].
Qed.

(* what a reply does at its task *)
Lemma cs_task_reply : forall st op err hint, tr_ok st -> tnd st -> cs st (task_reply st op err hint).
Proof.
  intros st op err hint0 T ND. unfold task_reply.
  destruct (find_task (s_tasks st) op) as [t|] eqn:F; [|apply cs_refl]. apply find_task_in in F.
  assert (FINW : forall err0, cs st (wake 8 (finish_task st t err0))).
  { intro err0. apply (cs_trans st (finish_task st t err0)); [apply cs_finish_task; assumption|]. apply cs_wake; [exact (proj1 (machT_finish_task st t err0 F T)) | now apply tnd_finish_task]. }
  destruct (negb _); [apply FINW|].
  destruct (1 <? t_wait t).
  { apply (cs_grow st _ {| t_op := t_op t; t_kind := t_kind t; t_gen := t_gen t; t_term := t_term t; t_blob := t_blob t; t_tract := t_tract t;
             t_phase := t_phase t; t_dv := t_dv t; t_ok := t_ok t; t_bad := t_bad t; t_new := t_new t; t_wait := t_wait t - 1;
             t_cliver := t_cliver t; t_badts := t_badts t; t_rpc := t_rpc t |}); auto.
    intros tk v g Ph TT V Ig NO. cbn in *. right. exists t. repeat split; auto. }
  destruct ((t_kind t =? 5) && (t_phase t =? 1)).
  { destruct (_ || _); [apply FINW|]. destruct (negb _); [apply FINW|].
    apply cs_fold_upd. intros tk v g _ _ _ Ig NO. cbn [t_new t_op] in *. exfalso. apply NO.
    match goal with |- own_rpc ?s _ _ => destruct (fold_issue_fields (fun h => mk_pull (t_gen t) h (t_blob t) (t_tract t) (t_dv t + 1) (t_ok t)) (t_op t) (before_sep hint0)
        (set_tasks st (upd_task (s_tasks st) {| t_op := t_op t; t_kind := 5; t_gen := t_gen t; t_term := t_term t; t_blob := t_blob t; t_tract := t_tract t;
                       t_phase := 2; t_dv := t_dv t; t_ok := t_ok t; t_bad := t_bad t; t_new := before_sep hint0; t_wait := Z.of_nat (length (t_bad t));
                       t_cliver := 0; t_badts := 0; t_rpc := t_rpc t |}))) as (FP & _) end.
    destruct (mkents_has (fun h => mk_pull (t_gen t) h (t_blob t) (t_tract t) (t_dv t + 1) (t_ok t)) (t_op t) (before_sep hint0) (s_next st) g Ig) as (e & Ie & Re & Oe).
    exists e. split; [rewrite FP; apply in_or_app; right; exact Ie|]. split; [exact Oe | exact Re]. }
  match goal with |- context [change_tract ?a ?b ?c ?d ?e ?f] =>
    pose proof (tasks_change_tract a b c d e f) as TC; pose proof (machT_change_tract a b c d e f T) as [T1 _];
    assert (PC : s_pool (fst (change_tract a b c d e f)) = s_pool st) by (unfold change_tract; brk; reflexivity);
    destruct (change_tract a b c d e f) as [st1 ee] end.
  cbn [fst] in *.
  eapply cs_trans; [apply (cs_same st st1); auto|].
  assert (N1 : tnd st1) by (unfold tnd; rewrite TC; exact ND).
  eapply cs_trans; [apply cs_finish_task; auto; rewrite TC; exact F|].
  apply cs_wake; [apply (machT_finish_task st1 t ee); auto; rewrite TC; exact F | now apply tnd_finish_task].
Qed.

Lemma rpc_dec : forall a b : rpc, {a = b} + {a <> b}.
Proof. decide equality; try apply Z.eq_dec; apply (list_eq_dec Z.eq_dec). Qed.

Lemma own_dec : forall st op r, own_rpc st op r \/ ~ own_rpc st op r.
Proof.
  intros st op r. unfold own_rpc. induction (s_pool st) as [|a l IH].
  - right. intros (e & I & _). destruct I.
  - destruct IH as [(e & I & X)|N]; [left; exists e; split; [right; exact I | exact X]|].
    destruct (Z.eq_dec (p_owner a) op) as [E1|N1]; [destruct (rpc_dec (p_rpc a) r) as [E2|N2]|].
    + left. exists a. split; [left; reflexivity | auto].
    + right. intros (e & [I|I] & O & R); [subst e; contradiction | apply N; exists e; auto].
    + right. intros (e & [I|I] & O & R); [subst e; contradiction | apply N; exists e; auto].
Qed.

Definition removed (st : state) (id : Z) : state := set_pool st (pool_remove (s_pool st) id).

Lemma removed_in : forall st id y, In y (s_pool (removed st id)) <-> In y (s_pool st) /\ p_id y <> id.
Proof.
  intros st id y. cbn. unfold pool_remove. rewrite filter_In. split; intros [I N]; split; auto.
  - apply negb_true_iff in N. now apply Z.eqb_neq in N.
  - apply negb_true_iff. now apply Z.eqb_neq.
Qed.

Lemma cs_remove0 : forall st id, (forall y, In y (s_pool st) -> p_id y = id -> p_owner y = 0) ->
  (forall t, In t (s_tasks st) -> t_op t <> 0) -> cs st (removed st id).
Proof.
  intros st id HO NZ tk v g [(y & I & Rest)|(x & Ix & A & B & C & D & F)].
  - left. exists y. split; auto. apply removed_in in I. tauto.
  - right. exists x. repeat split; auto. intros (y & Iy & Oy & Ry). apply F. exists y. split; [|auto]. apply removed_in. split; auto.
    intro X. specialize (HO _ Iy X). specialize (NZ _ Ix). congruence.
Qed.

Lemma cs_remove_ok : forall st e, lID st -> In e (s_pool st) -> okres e -> cs st (removed st (p_id e)).
Proof.
  intros st e ID Ie OKr tk v g [(y & I & Rest)|(x & Ix & A & B & C & D & F)].
  - left. exists y. split; auto. apply removed_in in I. tauto.
  - destruct (own_dec st (t_op x) (pl_of x g)) as [(y & Iy & Oy & Ry)|N]; [|right; exists x; repeat split; auto].
    destruct (Z.eq_dec (p_id y) (p_id e)) as [EQ|NE].
    + assert (y = e) by (eapply uniq_pid; eauto). subst y. left. exists e. rewrite Ry. cbn. repeat split; auto; try apply OKr.
    + exfalso. apply F. exists y. split; [apply removed_in; auto | auto].
Qed.

Lemma filter_map_comm : forall (p : pent -> bool) (g : pent -> pent) l, (forall e, p (g e) = p e) -> filter p (map g l) = map g (filter p l).
Proof. induction l as [|a l IH]; intros H; cbn; auto. rewrite H. destruct (p a); cbn; rewrite IH; auto. Qed.

Lemma finish_removed_fields : forall st id t err,
  s_pool (finish_task (removed st id) t err) = s_pool (removed (finish_task st t err) id) /\
  s_tasks (finish_task (removed st id) t err) = s_tasks (removed (finish_task st t err) id).
Proof.
  intros st id t err. unfold finish_task, removed. destruct (t_rpc t =? 0); cbn [s_pool s_tasks set_pool set_tasks set_fin]; split; auto;
    unfold pool_remove; rewrite ?filter_map_comm; auto; intros e;
    repeat match goal with |- context [if ?c then _ else _] => destruct c end; reflexivity.
Qed.

Lemma tr_ok_ext : forall st st', s_next st' = s_next st -> s_pool st' = s_pool st -> s_tasks st' = s_tasks st -> tr_ok st -> tr_ok st'.
Proof. intros st st' N P T (T0 & T1 & T2). unfold tr_ok. rewrite N, P, T. auto. Qed.

Lemma cs_resume : forall st e d h, tr_ok st -> low st -> hstale st e ->
  (d = true -> In e (s_pool st) /\ p_st e = 2) -> cs st (resume st e d h).
Proof.
  intros st e d h T L HS PD. pose proof L as (_ & _ & _ & _ & _ & ID & (O1 & O2 & O3 & O4 & O5) & _).
  assert (NZ : forall t, In t (s_tasks st) -> t_op t <> 0) by (intros t It; destruct (O3 _ It); auto).
  unfold resume. fold (removed st (p_id e)). set (st1 := removed st (p_id e)).
  assert (T1 : tr_ok st1) by now apply tr_ok_remove.
  assert (N1 : tnd st1) by exact O1.
  destruct (k_cli (p_rpc e) <? 0) eqn:KC.
  - destruct (p_owner e =? 0) eqn:OZ.
    + apply Z.eqb_eq in OZ. apply cs_remove0; auto. intros y Iy Ey. destruct (HS _ Iy Ey) as [_ [Z1|Z1]]; congruence.
    + apply Z.eqb_neq in OZ.
      set (err := if d then hd cl_ErrRPC (p_res e) else cl_ErrRPC).
      destruct (Z.eq_dec err cl_NoError) as [EOK|ENO].
      * (* an OK reply: the request was executed *)
        destruct d; [|discriminate EOK]. destruct (PD eq_refl) as [Ie P2].
        assert (OKR : okres e).
        { split; auto. unfold err in EOK. destruct (p_res e) as [|c r]; cbn in EOK |- *; [discriminate EOK | exact EOK]. }
        apply (cs_trans st st1); [now apply cs_remove_ok | now apply cs_task_reply].
      * (* an error: the task ends *)
        unfold task_reply. destruct (find_task (s_tasks st1) (p_owner e)) as [t|] eqn:F.
        2: { (* nobody waits: the entry's owner was cleared *)
             apply cs_remove0; auto. intros y Iy Ey. destruct (HS _ Iy Ey) as [_ [Z1|Z1]]; auto.
             exfalso. destruct (O2 _ Iy ltac:(congruence)) as (x & Ix & Ox).
             change (s_tasks st1) with (s_tasks st) in F. apply (find_task_none _ _ F x Ix). congruence. }
        change (s_tasks st1) with (s_tasks st) in F. pose proof (find_task_in _ _ _ F) as It. pose proof (find_task_op _ _ _ F) as OP.
        assert (NEb : negb (err =? cl_NoError) = true) by (apply negb_true_iff; now apply Z.eqb_neq).
        fold err. rewrite NEb.
        set (st0 := finish_task st t err).
        assert (C0 : cs st st0) by (apply cs_finish_task; auto).
        assert (C1 : cs st0 (removed st0 (p_id e))).
        { apply cs_remove0.
          - intros y Iy Ey. unfold st0, finish_task in Iy.
            assert (X : exists y0, In y0 (s_pool st) /\ p_id y0 = p_id y /\ (p_owner y = 0 \/ (p_owner y = p_owner y0 /\ p_owner y0 <> t_op t))).
            { destruct (t_rpc t =? 0); cbn in Iy.
              - apply in_map_iff in Iy as (y0 & E0 & I0). exists y0. split; auto. subst y. destruct (p_owner y0 =? t_op t) eqn:Q; cbn; auto.
                split; auto. right. split; auto. now apply Z.eqb_neq in Q.
              - apply in_map_iff in Iy as (y1 & E1 & I1). apply in_map_iff in I1 as (y0 & E0 & I0). exists y0. split; auto. subst y y1.
                destruct (p_owner y0 =? t_op t) eqn:Q; cbn; destruct (_ =? t_rpc t); cbn; auto; split; auto; right; split; auto; now apply Z.eqb_neq in Q. }
            destruct X as (y0 & I0 & E0 & [Z1|[Z1 Z2]]); auto.
            destruct (HS _ I0 ltac:(congruence)) as [_ [Z3|Z3]]; congruence.
          - intros x Ix. apply NZ. unfold st0, finish_task in Ix.
            assert (X : In x (del_task (s_tasks st) (t_op t))) by (destruct (t_rpc t =? 0); exact Ix).
            unfold del_task in X. apply filter_In in X. tauto. }
        destruct (finish_removed_fields st (p_id e) t err) as [FP FT]. fold st1 st0 in FP, FT.
        assert (C2 : cs (removed st0 (p_id e)) (finish_task st1 t err)) by (apply cs_same; auto).
        apply (cs_trans st (finish_task st1 t err)); [eapply cs_trans; [exact C0|]; eapply cs_trans; [exact C1 | exact C2]|].
        apply cs_wake; [apply (machT_finish_task st1 t err); auto | now apply tnd_finish_task].
  - (* a client's request: nobody owns it *)
    apply Z.ltb_ge in KC.
    assert (C1 : cs st st1).
    { apply cs_remove0; auto. intros y Iy Ey. destruct (HS _ Iy Ey) as [RY _].
      destruct (Z.eq_dec (p_owner y) 0) as [X|X]; auto. specialize (O5 _ Iy X). rewrite RY in O5. lia. }
    apply (cs_trans st st1); [exact C1|].
    set (st2 := if k_kind (p_rpc e) =? K_FixVersion then set_done st1 _ else st1).
    assert (F2 : s_pool st2 = s_pool st1 /\ s_tasks st2 = s_tasks st1) by (unfold st2; destruct (_ =? _); split; reflexivity).
    destruct F2 as [A B]. destruct d.
    + destruct (learn_fields st2 (p_rpc e) (p_res e) (p_tr e)) as (_ & P & K). apply cs_same; congruence.
    + apply cs_same; auto.
Qed.

(* ---------- current copies through the machinery ---------- *)
Lemma quiet_dtr : forall st st', quiet st st' -> s_dtr st' = s_dtr st.
Proof. intros st st' (_ & D & _). exact D. Qed.

Lemma cb_task_reply : forall st op err hint,
  W st -> tr_ok st -> lowx st op -> prov st ->
  (forall t, find_task (s_tasks st) op = Some t -> err = cl_NoError -> tk_okm st t) ->
  cb st (task_reply st op err hint).
Proof.
  intros st op err hint0 Ws T LX [PX TS] KM.
  pose proof LX as (_ & _ & _ & _ & _ & _ & (O1 & _) & _).
  pose proof (cs_task_reply st op err hint0 T O1) as CS.
  destruct (step2_task_reply st op err hint0 (proj2 Ws) (proj1 Ws)) as (_ & DG & RE & _).
  assert (SAMEDTR : s_dtr (task_reply st op err hint0) = s_dtr st -> cb st (task_reply st op err hint0)) by (intro D; apply cb_of_cs; auto).
  unfold task_reply in *.
  destruct (find_task (s_tasks st) op) as [t|] eqn:F; [|apply SAMEDTR; reflexivity].
  pose proof (find_task_in _ _ _ F) as It.
  assert (QF : forall s err0, s_dtr (wake 8 (finish_task s t err0)) = s_dtr s).
  { intros s err0. rewrite (quiet_dtr _ _ (quiet_wake 8 _)). apply (quiet_dtr _ _ (quiet_finish_task s t err0)). }
  destruct (negb (err =? cl_NoError)) eqn:NE; [apply SAMEDTR, QF|].
  apply negb_false_iff in NE. apply Z.eqb_eq in NE. destruct (KM _ eq_refl NE) as (PH & PK & P2 & P3).
  destruct (1 <? t_wait t) eqn:W1; [apply SAMEDTR; reflexivity|]. apply Z.ltb_ge in W1.
  destruct ((t_kind t =? 5) && (t_phase t =? 1)) eqn:KP.
  { destruct (_ || _); [apply SAMEDTR, QF|]. destruct (negb _); [apply SAMEDTR, QF|].
    apply SAMEDTR. apply (quiet_dtr _ _ (quiet_trans _ _ _ (quiet_set_tasks st _) (quiet_fold_issue _ _ _ _ (fun h => pull_not_write _ _ _ _ _ _)))). }
  set (hosts0 := if t_kind t =? 5 then t_ok t ++ t_new t else t_ok t) in *.
  set (hosts := if is_perm (after_sep hint0) hosts0 then after_sep hint0 else hosts0) in *.
  destruct (change_tract st (t_term t) (t_blob t) (t_tract t) (t_dv t + 1) hosts) as [st1 ee] eqn:CT.
  destruct (change_tract_cases _ _ _ _ _ _ _ _ CT) as [E1|(dv & hs & G & V & E1)]; subst st1; [apply SAMEDTR, QF|].
  assert (TD : t_dv t = dv) by lia.
  assert (NZ : nown st (t_op t) <= 0) by (destruct PH as [PH|PH]; [destruct (P2 PH) | destruct (P3 PH)]; lia).
  assert (HC : forall g, In g hosts -> In g hs \/ counted st (ttk t) (dv + 1) g).
  { intros g Ig. assert (Ig0 : In g hosts0) by (unfold hosts in Ig; destruct (is_perm (after_sep hint0) hosts0) eqn:PM; [eapply is_perm_in; eauto | exact Ig]).
    assert (PHP : 0 < t_phase t) by (destruct PH as [X|X]; rewrite X; lia).
    assert (OKH : forall h, In h (t_ok t) -> In h hs) by (intros h Ih; eapply (TS t It PHP dv hs); eauto).
    unfold hosts0 in Ig0. destruct (t_kind t =? 5) eqn:K5; [|left; auto].
    apply in_app_or in Ig0 as [Ig0|Ig0]; [left; auto|]. right.
    assert (P2' : t_phase t = 2) by (destruct PH as [X|X]; auto; rewrite X in KP; cbn in KP; discriminate KP).
    exists t. split; [exact It|]. split; [reflexivity|]. split; [lia|]. split; [exact P2'|]. split; [exact Ig0|]. intro O. eapply nown_zero; eauto. }
  split; [exact RE|]. split; [exact DG|].
  intros tk dv0 H0 dv' H' g r E E' Gr L Cu.
  rewrite QF in E'. cbn [s_dtr set_dtr] in E'.
  destruct (tk_eqb tk (t_blob t, t_tract t)) eqn:Q.
  - apply tk_eqb_eq in Q. subst tk. rewrite tget_tset_same in E'. inversion E'; subst dv' H'. rewrite G in E. inversion E; subst dv0 H0.
    destruct Cu as [[Ig V1]|[V1 _]]; [|lia]. right. split; [lia|]. destruct (HC _ Ig) as [X|X]; [left; exact X | right; right; exact X].
  - rewrite tget_tset_other in E' by (intro Y; subst tk; rewrite tk_eqb_refl in Q; discriminate). rewrite E in E'. inversion E'; subst dv' H'.
    destruct Cu as [X|[V1 [X|X]]]; [left; exact X | right; split; auto; left; exact X | right; split; auto; right; apply CS; exact X].
Qed.

Lemma km_after_remove : forall st e t, low st -> In e (s_pool st) -> okres e -> find_task (s_tasks st) (p_owner e) = Some t ->
  tk_okm (removed st (p_id e)) t.
Proof.
  intros st e t L Ie OKR F. pose proof L as (R1 & HV & PS & E & PE & ID & OW & TK).
  set (st1 := removed st (p_id e)).
  pose proof (find_task_in _ _ _ F) as It. pose proof (find_task_op _ _ _ F) as OP.
  destruct (TK _ It) as (P0 & P1 & PK & P2' & P3).
  assert (NOW : nown st1 (t_op t) = nown st (t_op t) - 1) by (rewrite OP; apply nown_remove; auto).
  assert (PHN : t_phase t <> 0).
  { intro Z0. specialize (P1 Z0). unfold owned in P1.
    assert (X : In e (filter (fun e0 => p_owner e0 =? t_op t) (s_pool st))) by (apply filter_In; split; auto; rewrite OP; apply Z.eqb_refl).
    rewrite P1 in X. destruct X. }
  assert (KEEP : forall r, own_rpc st (t_op t) r -> p_rpc e = r \/ own_rpc st1 (t_op t) r).
  { intros r (e' & Ie' & Oe' & Re'). destruct (Z.eq_dec (p_id e') (p_id e)) as [X|X].
    - left. assert (e' = e) by (eapply uniq_pid; eauto). subst e'. exact Re'.
    - right. exists e'. split; [|auto]. apply removed_in. auto. }
  split; [destruct P0 as [X|[X|X]]; [contradiction | auto | auto]|]. split; [intros K5; apply PK; auto; destruct P0 as [X|[X|X]]; lia|]. split.
  - intros Ph. destruct (P2' Ph) as [C X]. split; [lia|]. intros h0 Ih. destruct (X h0 Ih) as [B|O]; [left; exact B|].
    destruct (KEEP _ O) as [EQ|O1']; [|right; exact O1']. left.
    assert (B : bumpedk st (k_ts (p_rpc e)) (rtk (p_rpc e)) (k_ver (p_rpc e))) by (apply E; auto; left; rewrite EQ; reflexivity).
    rewrite EQ in B. exact B.
  - intros Ph. destruct (P3 Ph) as (C & X & Y). split; [lia|]. split; [exact X|]. intros n In'. destruct (Y n In') as [B|O]; [left; exact B|].
    destruct (KEEP _ O) as [EQ|O1']; [|right; exact O1']. left.
    assert (B : bumpedk st (k_ts (p_rpc e)) (rtk (p_rpc e)) (k_ver (p_rpc e))) by (apply E; auto; right; rewrite EQ; reflexivity).
    rewrite EQ in B. exact B.
Qed.

Lemma prov_removed : forall st id, prov st -> prov (removed st id).
Proof.
  intros st id. apply prov_sub; try reflexivity.
  - intros x Ix _. apply removed_in in Ix as [Ix _]. exists x. auto.
  - intros t It Ph. exists t. auto.
Qed.

Lemma cb_resume : forall st e d h, Inv2 st -> tr_ok st -> low st -> prov st -> hstale st e ->
  (d = true -> In e (s_pool st) /\ p_st e = 2) -> cb st (resume st e d h).
Proof.
  intros st e d h I2 T L Pr HS PD. pose proof I2 as [[Ds _] Wn].
  pose proof (cs_resume st e d h T L HS PD) as CS.
  destruct (step2_resume st e d h Wn Ds) as (_ & DG & RE & _).
  assert (SAMEDTR : s_dtr (resume st e d h) = s_dtr st -> cb st (resume st e d h)) by (intro D; apply cb_of_cs; auto).
  unfold resume in *. fold (removed st (p_id e)) in *. set (st1 := removed st (p_id e)) in *.
  destruct (k_cli (p_rpc e) <? 0) eqn:KC.
  - destruct (p_owner e =? 0) eqn:OZ; [apply SAMEDTR; reflexivity|]. apply Z.eqb_neq in OZ.
    set (err := if d then hd cl_ErrRPC (p_res e) else cl_ErrRPC) in *.
    destruct (Z.eq_dec err cl_NoError) as [EOK|ENO].
    + destruct d; [|discriminate EOK]. destruct (PD eq_refl) as [Ie P2].
      assert (OKR : okres e).
      { split; auto. unfold err in EOK. destruct (p_res e) as [|c r]; cbn in EOK |- *; [discriminate EOK | exact EOK]. }
      apply (cb_trans st st1).
      * apply cb_of_cs; try reflexivity. apply cs_remove_ok; auto. apply L.
      * apply cb_task_reply.
        -- eapply W_calm; [apply calm_pool_remove | split; auto].
        -- now apply tr_ok_remove.
        -- apply lowx_remove; auto. intros y Iy Ey. destruct (HS _ Iy Ey) as [_ X]. exact X.
        -- now apply prov_removed.
        -- intros t F _. change (s_tasks st1) with (s_tasks st) in F. now apply km_after_remove.
    + apply SAMEDTR. unfold task_reply. destruct (find_task (s_tasks st1) (p_owner e)) as [t|]; [|reflexivity].
      assert (NEb : negb (err =? cl_NoError) = true) by (apply negb_true_iff; now apply Z.eqb_neq). rewrite NEb.
      rewrite (quiet_dtr _ _ (quiet_wake 8 _)). apply (quiet_dtr _ _ (quiet_finish_task st1 t err)).
  - apply SAMEDTR.
    set (st2 := if k_kind (p_rpc e) =? K_FixVersion then set_done st1 _ else st1).
    assert (F2 : s_dtr st2 = s_dtr st) by (unfold st2; destruct (_ =? _); reflexivity).
    destruct d; [|exact F2]. destruct (learn_fields2 st2 (p_rpc e) (p_res e) (p_tr e)) as (_ & D & _). congruence.
Qed.

(* ---------- the bundle ---------- *)
Definition B5 (st : state) : Prop := Inv2 st /\ tr_ok st /\ ops_uniq st /\ low st /\ prov st.

Lemma B5_W : forall st, B5 st -> W st.
Proof. intros st ([[D _] Wn] & _). split; auto. Qed.

Lemma resume5 : forall st e d h, B5 st -> tr_bound st (k_blob (p_rpc e)) (p_tr e) -> hstale st e ->
  (d = true -> In e (s_pool st) /\ p_st e = 2) -> B5 (resume st e d h) /\ cb st (resume st e d h).
Proof.
  intros st e d h (I2 & T & U & L & Pr) TB HS PD.
  destruct (machU_resume st e d h PD T U) as (T' & U' & _).
  split; [|now apply cb_resume].
  split; [now apply inv2_resume|]. split; [exact T'|]. split; [exact U'|]. split; [now apply low_resume|].
  apply prov_resume; auto. destruct I2 as [[D _] Wn]. split; auto.
Qed.

Lemma flush5 : forall n st h, B5 st -> B5 (flush n st h) /\ cb st (flush n st h).
Proof.
  induction n; intros st h B; [split; [exact B | apply cb_refl]|]. unfold flush; fold flush.
  destruct (find _ (s_pool st)) as [e|] eqn:F; [|split; [exact B | apply cb_refl]].
  apply find_some in F as [Ie Pe]. apply andb_true_iff in Pe as [Pe _]. apply Z.eqb_eq in Pe.
  pose proof B as (I2 & _ & _ & L & _).
  destruct (resume5 st e (negb (p_lose e)) h B) as [B1 C1].
  - intros x Hx. destruct I2 as [[_ (_ & _ & K3)] _]. now apply K3.
  - apply hstale_in; auto. apply L.
  - intros _. auto.
  - destruct (IHn _ h B1) as [B2 C2]. split; [exact B2 | eapply cb_trans; eauto].
Qed.

Lemma victims5 : forall victims s, B5 s ->
  (forall x, In x victims -> tr_bound s (k_blob (p_rpc x)) (p_tr x)) ->
  (forall x, In x victims -> hstale s x /\ p_id x < s_next s) ->
  B5 (fold_left (fun s x => flush 8 (resume s x false []) []) victims s) /\
  cb s (fold_left (fun s x => flush 8 (resume s x false []) []) victims s).
Proof.
  induction victims as [|v l IH]; intros s B TB HS; cbn [fold_left]; [split; [exact B | apply cb_refl]|].
  assert (PD : false = true -> In v (s_pool s) /\ p_st v = 2) by (intro Y; discriminate Y).
  destruct (resume5 s v false [] B (TB v (or_introl eq_refl)) (proj1 (HS v (or_introl eq_refl))) PD) as [B1 C1].
  destruct (flush5 8 _ [] B1) as [B2 C2].
  assert (OM : omono s (flush 8 (resume s v false []) [])) by (eapply omono_trans; [apply omono_resume | apply omono_flush]).
  destruct (IH _ B2) as [B3 C3].
  - intros x Hx y Hy. destruct B as ([I Wn] & _). pose proof I as [D _].
    destruct (inv_resume s v false [] I (TB v (or_introl eq_refl))) as [I1 A1].
    destruct (inv_flush 8 _ [] I1) as [_ A2].
    apply (bound_advances s); [apply (advances_trans s (resume s v false [])); auto | exact D | apply (TB x (or_intror Hx) y Hy)].
  - intros x Hx. destruct (HS x (or_intror Hx)) as [H1 H2]. split; [eapply hstale_omono; eauto | destruct OM; lia].
  - split; [exact B3|]. eapply cb_trans; [exact C1|]. eapply cb_trans; [exact C2 | exact C3].
Qed.

(* ---------- provenance and executed requests ---------- *)
Lemma prov_newdur : forall st st1, W st -> s_pool st1 = s_pool st -> s_tasks st1 = s_tasks st ->
  (forall tk dv H, tget (s_dtr st1) tk = Some (dv, H) -> tget (s_dtr st) tk = Some (dv, H) \/ (tget (s_dtr st) tk = None /\ dv = 1)) ->
  prov st -> prov st1.
Proof.
  intros st st1 [_ (U1 & U2 & U3)] P T DNEW [PX TS]. split.
  - intros e I K dv H E V src Is. rewrite P in I. destruct (DNEW _ _ _ E) as [E0|[E0 _]]; [eapply PX; eauto|].
    destruct (U2 _ I (or_intror K)) as (dv0 & H0 & Y & _). congruence.
  - intros t I Ph dv H E V h Ih. rewrite T in I. destruct (DNEW _ _ _ E) as [E0|[E0 _]]; [eapply TS; eauto|].
    destruct (U3 _ I Ph) as (dv0 & H0 & Y & _). congruence.
Qed.

Lemma exec_dtr_cases : forall st e oracle st1 res tr, exec_rpc st e oracle = (st1, res, tr) ->
  s_dtr st1 = s_dtr st \/ st1 = fst (ack_extend st (k_blob (p_rpc e)) (decode_tracts false (k_aux (p_rpc e)))).
Proof.
  intros st e oracle st1 res tr H. unfold exec_rpc in H.
  repeat match type of H with
         | context [let '(_, _) := ?x in _] => destruct x eqn:?
         | context [match ?x with _ => _ end] => destruct x eqn:?
         | context [if ?x then _ else _] => destruct x eqn:?
         end; inversion H; subst; try (left; reflexivity).
  right. reflexivity.
Qed.

Lemma prov_exec : forall st e oracle st1 res tr, W st -> exec_rpc st e oracle = (st1, res, tr) -> prov st -> prov st1.
Proof.
  intros st e oracle st1 res tr Ws X Pr.
  destruct (exec_misc _ _ _ _ _ _ X) as (_ & _ & P). pose proof (exec_tasks _ _ _ _ _ _ X) as T.
  destruct (exec_dtr_cases _ _ _ _ _ _ X) as [D|E1].
  - apply (prov_same st); auto.
  - apply (prov_newdur st); auto. subst st1.
    destruct (ack_extend_dtr st (k_blob (p_rpc e)) (decode_tracts false (k_aux (p_rpc e))) (proj1 Ws)) as (_ & _ & DNEW). exact DNEW.
Qed.
