(* Cluster/Frame.v — which events can change replica data at all (frame lemmas over the whole model). *)
From Coq Require Import List ZArith Bool Lia.
From BLB Require Import Gen.Consts Cluster.Model Cluster.Proofs.
Import ListNotations.
Open Scope Z_scope.

(* the machinery around RPC execution never touches replicas *)
Ltac brk :=
  repeat match goal with
         | |- context [match ?x with _ => _ end] => destruct x eqn:?
         | |- context [if ?x then _ else _] => destruct x eqn:?
         end.

Ltac brkH H :=
  repeat match type of H with
         | context [match ?x with _ => _ end] => destruct x eqn:?
         | context [if ?x then _ else _] => destruct x eqn:?
         end.

Lemma reps_issue : forall st r o, s_reps (issue st r o) = s_reps st.
Proof. reflexivity. Qed.
Lemma reps_issue_cur : forall st r o, s_reps (issue_cur st r o) = s_reps st.
Proof. reflexivity. Qed.

Lemma reps_fold_issue : forall (f : Z -> rpc) o l st,
  s_reps (fold_left (fun s h => issue_cur s (f h) o) l st) = s_reps st.
Proof. induction l; intros; cbn; auto. rewrite IHl. reflexivity. Qed.

Lemma reps_finish_task : forall st t e, s_reps (finish_task st t e) = s_reps st.
Proof. intros; unfold finish_task; brk; reflexivity. Qed.

Lemma reps_activate : forall st t, s_reps (activate st t) = s_reps st.
Proof.
  intros; unfold activate; brk; try apply reps_finish_task;
    rewrite reps_fold_issue; reflexivity.
Qed.

Lemma reps_wake : forall n st, s_reps (wake n st) = s_reps st.
Proof. induction n; intros; cbn; auto. brk; auto. rewrite IHn. apply reps_activate. Qed.

Lemma reps_start_task : forall st t, s_reps (start_task st t) = s_reps st.
Proof. intros; unfold start_task; brk; [rewrite reps_finish_task | rewrite reps_wake]; reflexivity. Qed.

Lemma reps_change_tract : forall st term b t v h, s_reps (fst (change_tract st term b t v h)) = s_reps st.
Proof. intros; unfold change_tract; brk; reflexivity. Qed.

Lemma reps_task_reply : forall st op err hint, s_reps (task_reply st op err hint) = s_reps st.
Proof.
  intros; unfold task_reply.
  destruct (find_task (s_tasks st) op) as [t|]; auto.
  destruct (negb (err =? cl_NoError)). { rewrite reps_wake. apply reps_finish_task. }
  destruct (1 <? t_wait t). { reflexivity. }
  destruct ((t_kind t =? 5) && (t_phase t =? 1)).
  - brk; try (rewrite reps_wake; apply reps_finish_task). rewrite reps_fold_issue. reflexivity.
  - match goal with |- context [change_tract ?a ?b ?c ?d ?e ?f] =>
      pose proof (reps_change_tract a b c d e f) as H; destruct (change_tract a b c d e f) as [st1 e1] end.
    cbn in H. rewrite reps_wake, reps_finish_task. exact H.
Qed.

Lemma reps_client_learns : forall st r res tr, s_reps (client_learns st r res tr) = s_reps st.
Proof. intros; unfold client_learns; brk; reflexivity. Qed.

Lemma reps_resume : forall st e d h, s_reps (resume st e d h) = s_reps st.
Proof.
  intros; unfold resume; brk; try reflexivity;
    try (rewrite reps_task_reply; reflexivity); try (rewrite reps_client_learns; reflexivity).
Qed.

Lemma reps_flush : forall n st h, s_reps (flush n st h) = s_reps st.
Proof. induction n; intros; cbn; auto. brk; auto. rewrite IHn. apply reps_resume. Qed.

Lemma reps_ack_extend : forall st b trs, s_reps (fst (ack_extend st b trs)) = s_reps st.
Proof. intros; unfold ack_extend; brk; reflexivity. Qed.

(* what executing one RPC can do to replicas *)
Definition same_except (m m' : list (rkey * replica)) (k : rkey) : Prop :=
  forall k', k' <> k -> rget m' k' = rget m k'.

Lemma same_except_refl : forall m k, same_except m m k.
Proof. intros m k k' _. reflexivity. Qed.

Lemma same_except_trans : forall a b c k, same_except a b k -> same_except b c k -> same_except a c k.
Proof. intros a b c k H1 H2 k' Hk. rewrite (H2 k' Hk). now apply H1. Qed.

Lemma pull_once_frame : forall reps nts ts tk ver src reps' e,
  pull_once reps nts ts tk ver src = (reps', e) -> same_except reps reps' (ts, tk).
Proof.
  intros reps nts ts tk ver src reps' e H k' Hk. unfold pull_once in H.
  destruct (rget reps (ts, tk)) as [r|] eqn:G.
  - destruct (ver <? r_ver r).
    + inversion H; subst; reflexivity.
    + destruct ((src <=? 0) || (nts <? src)). { inversion H; subst. now apply rget_rdel_other. }
      destruct (rget (rdel reps (ts, tk)) (src, tk)) as [s|].
      * destruct (r_ver s =? ver); inversion H; subst.
        -- rewrite rget_rset_other by auto. now apply rget_rdel_other.
        -- now apply rget_rdel_other.
      * inversion H; subst. now apply rget_rdel_other.
  - destruct ((src <=? 0) || (nts <? src)). { inversion H; subst; reflexivity. }
    destruct (rget reps (src, tk)) as [s|].
    + destruct (r_ver s =? ver); inversion H; subst; auto. now apply rget_rset_other.
    + inversion H; subst; reflexivity.
Qed.

Lemma pull_loop_frame : forall srcs reps nts ts tk ver last reps' e,
  pull_loop reps nts ts tk ver srcs last = (reps', e) -> same_except reps reps' (ts, tk).
Proof.
  induction srcs as [|s srcs IH]; intros reps nts ts tk ver last reps' e H.
  - inversion H; subst. apply same_except_refl.
  - cbn in H. destruct (pull_once reps nts ts tk ver s) as [r1 e1] eqn:P.
    apply pull_once_frame in P.
    destruct (e1 =? cl_NoError).
    + inversion H; subst; auto.
    + eapply same_except_trans; eauto.
Qed.

Lemma ts_pull_frame : forall reps nts ts tsid tk ver srcs reps' e,
  ts_pull reps nts ts tsid tk ver srcs = (reps', e) -> same_except reps reps' (ts, tk).
Proof.
  intros. unfold ts_pull in H. destruct (negb (ts =? tsid)).
  - inversion H; subst. apply same_except_refl.
  - eapply pull_loop_frame; eauto.
Qed.

Lemma pull_crash_frame : forall srcs reps nts ts tk ver,
  same_except reps (pull_crash reps nts ts tk ver srcs) (ts, tk).
Proof.
  induction srcs as [|s srcs IH]; intros reps nts ts tk ver.
  - apply same_except_refl.
  - cbn. destruct (pull_once reps nts ts tk ver s) as [r1 e1] eqn:P. apply pull_once_frame in P.
    destruct (e1 =? cl_NoError).
    + intros k' Hk. rewrite rget_rset_other by auto. now apply P.
    + eapply same_except_trans; eauto.
Qed.

(* the replica an RPC addresses *)
Definition rpc_key_of (r : rpc) : rkey := (k_ts r, tkey (k_blob r) (k_tract r)).

Lemma exec_rpc_frame : forall st e oracle st' res tr,
  exec_rpc st e oracle = (st', res, tr) -> same_except (s_reps st) (s_reps st') (rpc_key_of (p_rpc e)).
Proof.
  intros st e oracle st' res tr H. unfold exec_rpc in H. unfold rpc_key_of.
  destruct (k_kind (p_rpc e) =? K_Write).
  { destruct (ts_write _ _ _ _ _ _ _) as [reps c] eqn:W. inversion H; subst; cbn.
    apply ts_write_frame in W as (A & _). exact A. }
  destruct (k_kind (p_rpc e) =? K_Create).
  { destruct (ts_create _ _ _ _ _ _ _) as [reps c] eqn:W. inversion H; subst; cbn.
    apply ts_create_frame in W as (A & _). exact A. }
  destruct (k_kind (p_rpc e) =? K_Read).
  { destruct (ts_read _ _ _ _ _ _) as [[c n] runs]. inversion H; subst. apply same_except_refl. }
  destruct (k_kind (p_rpc e) =? K_SetVersion).
  { destruct (ts_setversion _ _ _ _ _) as [reps c] eqn:W. inversion H; subst; cbn.
    apply ts_setversion_frame in W as (A & _). exact A. }
  destruct (k_kind (p_rpc e) =? K_PullTract).
  { destruct (ts_pull _ _ _ _ _ _ _) as [reps c] eqn:W. inversion H; subst; cbn.
    eapply ts_pull_frame; eauto. }
  destruct (k_kind (p_rpc e) =? K_StatBlob). { brkH H; inversion H; subst; apply same_except_refl. }
  destruct (k_kind (p_rpc e) =? K_GetTracts). { destruct (exec_gettracts st (p_rpc e)). inversion H; subst; apply same_except_refl. }
  destruct (k_kind (p_rpc e) =? K_ExtendBlob). { destruct (exec_extend st (p_rpc e) oracle). inversion H; subst; apply same_except_refl. }
  destruct (k_kind (p_rpc e) =? K_AckExtend).
  { pose proof (reps_ack_extend st (k_blob (p_rpc e)) (decode_tracts false (k_aux (p_rpc e)))) as R.
    destruct (ack_extend _ _ _) as [s1 c]. inversion H; subst. cbn in R. rewrite R. apply same_except_refl. }
  destruct (k_kind (p_rpc e) =? K_ReportBadTS); inversion H; subst; apply same_except_refl.
Qed.

(* ---------- the whole step function ---------- *)
Arguments flush : simpl never.
Arguments wake : simpl never.
Arguments start_task : simpl never.
Arguments resume : simpl never.
Arguments exec_rpc : simpl never.
Lemma reps_fold_resume : forall victims st,
  s_reps (fold_left (fun s e => flush 8 (resume s e false []) []) victims st) = s_reps st.
Proof. induction victims; intros; cbn; auto. rewrite IHvictims, reps_flush, reps_resume. reflexivity. Qed.

Lemma reps_step_reply : forall st lose r, s_reps (fst (step_reply st lose r)) = s_reps st.
Proof.
  intros; unfold step_reply. destruct (parse_rpc r) as [[rp r1]|]; auto.
  destruct (find_pent (s_pool st) rp 2); auto. cbn. rewrite reps_flush, reps_resume. reflexivity.
Qed.

Lemma reps_step_restart : forall st ts, s_reps (fst (step_restart st ts)) = s_reps st.
Proof. intros; unfold step_restart; cbn. apply reps_fold_resume. Qed.

Lemma reps_step_probe : forall st b t dv dt, s_reps (fst (step_probe st b t dv dt)) = s_reps st.
Proof.
  intros; unfold step_probe. destruct (tget (s_dtr st) (tkey b t)) as [[ver hosts]|]; auto.
  destruct ((dv =? 1) && (dt =? 0)); auto.
  match goal with |- context [change_tract ?a ?b ?c ?d ?e ?f] =>
    pose proof (reps_change_tract a b c d e f) as H; destruct (change_tract a b c d e f) end. exact H.
Qed.

Lemma reps_step_issue : forall st r, s_reps (fst (step_issue st r)) = s_reps st.
Proof. intros; unfold step_issue. destruct (parse_rpc r) as [[rp r1]|]; auto. destruct (issue_allowed st rp); reflexivity. Qed.

Lemma reps_step_finclient : forall st op n cls runs, s_reps (fst (step_finclient st op n cls runs)) = s_reps st.
Proof. intros; unfold step_finclient; brk; reflexivity. Qed.

Lemma reps_step_rpcdone : forall st r, s_reps (fst (step_rpcdone st r)) = s_reps st.
Proof. intros; unfold step_rpcdone; brk; reflexivity. Qed.

(* what a client Write/Create may do to the replica it addresses *)
Definition write_confined (reps reps' : list (rkey * replica)) (rp : rpc) : Prop :=
  let key := rpc_key_of rp in
  (forall r, rget reps key = Some r ->
     exists r', rget reps' key = Some r' /\ r_ver r' = r_ver r /\
                forall p, ~ (k_off rp <= p < k_off rp + k_len rp) -> byte_at (r_app r') p = byte_at (r_app r) p) /\
  (rget reps key = None ->
     forall r', rget reps' key = Some r' ->
       k_kind rp = K_Create /\ r_ver r' = 1 /\
       forall p, ~ (k_off rp <= p < k_off rp + k_len rp) -> byte_at (r_app r') p = 0).

Lemma exec_write_confined : forall st e oracle st' res tr,
  exec_rpc st e oracle = (st', res, tr) ->
  k_kind (p_rpc e) = K_Write \/ k_kind (p_rpc e) = K_Create ->
  write_confined (s_reps st) (s_reps st') (p_rpc e).
Proof.
  intros st e oracle st' res tr H K. unfold exec_rpc in H. unfold write_confined, rpc_key_of.
  destruct (k_kind (p_rpc e) =? K_Write) eqn:E1.
  - destruct (ts_write _ _ _ _ _ _ _) as [reps c] eqn:W. inversion H; subst; cbn.
    apply ts_write_frame in W as (_ & B & C). split; [exact C|].
    intros G r' Hr'. rewrite (B G) in Hr'. discriminate.
  - destruct K as [K|K]. { rewrite K in E1. discriminate. }
    destruct (k_kind (p_rpc e) =? K_Create) eqn:E2; [|rewrite K in E2; discriminate].
    destruct (ts_create _ _ _ _ _ _ _) as [reps c] eqn:W. inversion H; subst; cbn.
    apply ts_create_frame in W as (_ & B & C). split; [exact B|].
    intros G r' Hr'. destruct (C G r' Hr') as [V Z0]. auto.
Qed.

Lemma write_confined_refl : forall reps rp, write_confined reps reps rp.
Proof.
  intros reps rp. split.
  - intros r Hr. exists r; auto.
  - intros G r' Hr'. rewrite G in Hr'. discriminate.
Qed.

Lemma write_confined_trans : forall a b c rp,
  write_confined a b rp -> write_confined b c rp -> write_confined a c rp.
Proof.
  intros a b c rp [A1 A2] [B1 B2]. split.
  - intros r Hr. destruct (A1 r Hr) as (r1 & H1 & V1 & P1). destruct (B1 r1 H1) as (r2 & H2 & V2 & P2).
    exists r2. repeat split; auto; try congruence. intros p Hp. rewrite (P2 p Hp). now apply P1.
  - intros G r' Hr'. destruct (rget b (rpc_key_of rp)) as [r1|] eqn:Gb.
    + destruct (A2 G r1 eq_refl) as (K & V1 & Z1). destruct (B1 r1 eq_refl) as (r2 & H2 & V2 & P2).
      rewrite Hr' in H2; inversion H2; subst r2. repeat split; auto; try congruence.
      intros p Hp. rewrite (P2 p Hp). now apply Z1.
    + now apply (B2 eq_refl r' Hr').
Qed.

(* THE FRAME THEOREM: one scheduling decision changes replica data only if it executes an RPC, then only
   the replica that RPC addresses, and if the RPC is a client Write/Create only inside the RPC's range *)
Definition step_frame (st : state) (ev : list Z) : Prop :=
  let st' := fst (step st ev) in
  s_reps st' = s_reps st \/
  exists mode rest rp r1 e,
    ev = 7 :: mode :: rest /\ parse_rpc rest = Some (rp, r1) /\ find_pent (s_pool st) rp 0 = Some e /\ mode <> 4 /\
    same_except (s_reps st) (s_reps st') (rpc_key_of rp) /\
    (k_kind rp = K_Write \/ k_kind rp = K_Create -> write_confined (s_reps st) (s_reps st') rp).

Lemma list_eqb_eq : forall a b, list_eqb a b = true -> a = b.
Proof.
  induction a as [|x a IH]; destruct b as [|y b]; cbn; intros H; try discriminate; auto.
  apply andb_true_iff in H as [H1 H2]. apply Z.eqb_eq in H1. subst. f_equal. auto.
Qed.

Lemma find_pent_rpc : forall pool rp w e, find_pent pool rp w = Some e -> rpc_line (p_rpc e) = rpc_line rp.
Proof.
  induction pool as [|x pool IH]; intros rp w e H; cbn [find_pent] in H; [discriminate|].
  destruct (rpc_eqb (p_rpc x) rp && (p_st x =? w)) eqn:E.
  - inversion H; subst. apply andb_true_iff in E as [E _]. unfold rpc_eqb in E. apply list_eqb_eq. exact E.
  - eauto.
Qed.

Lemma rpc_line_inj_fields : forall a b, rpc_line a = rpc_line b ->
  k_kind a = k_kind b /\ k_ts a = k_ts b /\ k_blob a = k_blob b /\ k_tract a = k_tract b /\ k_off a = k_off b /\ k_len a = k_len b.
Proof. intros a b H. unfold rpc_line in H. cbn [app] in H. injection H. intros. repeat split; assumption. Qed.

Lemma step_exec_frame : forall st mode rest,
  s_reps (fst (step_exec st mode rest)) = s_reps st \/
  exists rp r1 e,
    parse_rpc rest = Some (rp, r1) /\ find_pent (s_pool st) rp 0 = Some e /\ mode <> 4 /\
    same_except (s_reps st) (s_reps (fst (step_exec st mode rest))) (rpc_key_of rp) /\
    (k_kind rp = K_Write \/ k_kind rp = K_Create -> write_confined (s_reps st) (s_reps (fst (step_exec st mode rest))) rp).
Proof.
  intros st mode rest. unfold step_exec.
  destruct (parse_rpc rest) as [[rp r1]|] eqn:P; [|left; reflexivity].
  destruct r1 as [|nh r2]; [left; reflexivity|].
  destruct (take nh r2) as [place r3].
  destruct (find_pent (s_pool st) rp 0) as [e|] eqn:F; [|left; reflexivity].
  destruct (mode =? 4) eqn:M4.
  { left. cbn. rewrite reps_flush, reps_resume. reflexivity. }
  destruct (mode =? 6) eqn:M6.
  { destruct (negb (k_kind rp =? K_PullTract)) eqn:KP; [left; reflexivity|].
    right. exists rp, (nh :: r2), e. split; [reflexivity|]. split; [exact F|]. split. { intro X; subst; discriminate. }
    cbn. rewrite reps_fold_resume, reps_flush, reps_resume. cbn. split.
    - destruct (k_ts rp =? aux_nth rp 0); [apply pull_crash_frame | apply same_except_refl].
    - intros [K|K]; apply negb_false_iff in KP; apply Z.eqb_eq in KP; rewrite KP in K; discriminate. }
  destruct (k_kind rp =? K_FixVersion).
  { left. cbn. rewrite reps_flush, reps_start_task. reflexivity. }
  right. exists rp, (nh :: r2), e. split; [reflexivity|]. split; [exact F|]. split. { intro X; subst; discriminate. }
  pose proof (find_pent_rpc _ _ _ _ F) as L. apply rpc_line_inj_fields in L as (LK & LT & LB & LR & LO & LL).
  assert (KEY : rpc_key_of (p_rpc e) = rpc_key_of rp) by (unfold rpc_key_of; congruence).
  destruct (exec_rpc st e place) as [[st1 res] tr] eqn:X1.
  pose proof (exec_rpc_frame _ _ _ _ _ _ X1) as F1.
  destruct (mode =? 3).
  - destruct (exec_rpc st1 e place) as [[st1b res2] tr2] eqn:X2. cbn.
    pose proof (exec_rpc_frame _ _ _ _ _ _ X2) as F2.
    rewrite reps_flush. cbn. rewrite <- KEY. split.
    + eapply same_except_trans; eauto.
    + intro K. assert (K' : k_kind (p_rpc e) = K_Write \/ k_kind (p_rpc e) = K_Create) by (rewrite LK; exact K).
      pose proof (exec_write_confined _ _ _ _ _ _ X1 K') as C1. pose proof (exec_write_confined _ _ _ _ _ _ X2 K') as C2.
      pose proof (write_confined_trans _ _ _ _ C1 C2) as C. unfold write_confined in *. rewrite KEY, LO, LL, LK in C. exact C.
  - cbn. rewrite reps_flush. cbn. rewrite <- KEY. split; [exact F1|].
    intro K. assert (K' : k_kind (p_rpc e) = K_Write \/ k_kind (p_rpc e) = K_Create) by (rewrite LK; exact K).
    pose proof (exec_write_confined _ _ _ _ _ _ X1 K') as C. unfold write_confined in *. rewrite KEY, LO, LL, LK in C. exact C.
Qed.

Theorem step_frame_holds : forall st ev, step_frame st ev.
Proof.
  intros st ev. unfold step_frame, step.
  destruct ev as [|c a]; [left; reflexivity|].
  destruct (c =? 1). { left. destruct a; reflexivity. }
  destruct (c =? 2). { left. destruct a as [|x [|y [|z a]]]; try reflexivity. destruct (zget (s_blobs (set_out st [])) x); reflexivity. }
  destruct (c =? 3). { left. destruct a as [|x1 [|x2 [|x3 [|x4 [|x5 [|x6 [|x7 a]]]]]]]; reflexivity. }
  destruct (c =? 4). { left. destruct a as [|x1 [|x2 [|x3 [|x4 [|x5 [|x6 a]]]]]]; reflexivity. }
  destruct (c =? 5).
  { left. destruct a as [|x1 [|x2 [|x3 [|x4 [|x5 a]]]]]; try reflexivity.
    destruct (take x5 a) as [bad rest]. cbn. rewrite reps_flush, reps_start_task. reflexivity. }
  destruct (c =? 6).
  { left. destruct a as [|x1 [|x2 [|x3 [|x4 [|x5 [|x6 [|x7 a]]]]]]]; try reflexivity.
    cbn. rewrite reps_flush, reps_start_task. reflexivity. }
  destruct (c =? 7) eqn:C7.
  { destruct a as [|mode rest]; [left; reflexivity|].
    apply Z.eqb_eq in C7; subst c.
    destruct (step_exec_frame (set_out st []) mode rest) as [H|(rp & r1 & e & P & F & M & S & W)].
    - left. exact H.
    - right. exists mode, rest, rp, r1, e.
      split; [reflexivity|]. split; [exact P|]. split; [exact F|]. split; [exact M|]. split; [exact S|exact W]. }
  destruct (c =? 8). { left. destruct a as [|lose r]; [reflexivity|]. exact (reps_step_reply (set_out st []) lose r). }
  destruct (c =? 9). { left. destruct a as [|ts [|y a]]; try reflexivity. exact (reps_step_restart (set_out st []) ts). }
  destruct (c =? 10). { left. destruct a; reflexivity. }
  destruct (c =? 11). { left. destruct a as [|ts [|y a]]; reflexivity. }
  destruct (c =? 12). { left. destruct a as [|x1 [|x2 [|x3 [|x4 [|x5 a]]]]]; try reflexivity. exact (reps_step_probe (set_out st []) x1 x2 x3 x4). }
  destruct (c =? 13). { left. exact (reps_step_issue (set_out st []) a). }
  destruct (c =? 14). { left. destruct a as [|x1 [|x2 [|x3 a]]]; try reflexivity. exact (reps_step_finclient (set_out st []) x1 x2 x3 a). }
  destruct (c =? 15). { left. destruct a as [|op [|y a]]; try reflexivity. destruct (zget (s_fin (set_out st [])) op); reflexivity. }
  destruct (c =? 16). { left. exact (reps_step_rpcdone (set_out st []) a). }
  destruct (c =? 17).
  { left. unfold step_inject. destruct (parse_rpc a) as [[rp r1]|]; [|reflexivity].
    destruct ((k_cli rp <? 0) && ((k_kind rp =? K_SetVersion) || (k_kind rp =? K_PullTract))); reflexivity. }
  left. reflexivity.
Qed.
