(* Cluster/Lower.v — the lower half of the host version window: under Sched.ok_ev every durable host that holds a
   copy holds it at least at the durable version, and a SetVersion to the next version goes to a durable host.
   This needs the bookkeeping of the curator tasks: which survivors were bumped, which pulls came back. *)
From Coq Require Import List ZArith Bool Lia.
From BLB Require Import Gen.Consts Cluster.Model Cluster.Proofs Cluster.Frame Cluster.Inv Cluster.Window
     Cluster.Attempts Cluster.Sched Cluster.Order Cluster.Contain Cluster.Visible.
Import ListNotations.
Open Scope Z_scope.

(* ---------- vocabulary ---------- *)
Definition bumpedk (st : state) (h : Z) (tk : tkt) (v : Z) : Prop :=
  match rget (s_reps st) (h, tk) with None => True | Some r => v <= r_ver r end.

Definition owned (st : state) (op : Z) : list pent := filter (fun e => p_owner e =? op) (s_pool st).
Definition nown (st : state) (op : Z) : Z := Z.of_nat (length (owned st op)).
Definition own_rpc (st : state) (op : Z) (r : rpc) : Prop := exists e, In e (s_pool st) /\ p_owner e = op /\ p_rpc e = r.

Definition sv_of (t : task) (h : Z) : rpc := mk_setversion (t_gen t) h (t_blob t) (t_tract t) (t_dv t + 1).
Definition pl_of (t : task) (n : Z) : rpc := mk_pull (t_gen t) n (t_blob t) (t_tract t) (t_dv t + 1) (t_ok t).

Definition tk_ok (st : state) (t : task) : Prop :=
  (t_phase t = 0 \/ t_phase t = 1 \/ t_phase t = 2) /\
  (t_phase t = 0 -> owned st (t_op t) = []) /\
  (t_kind t = 5 -> 0 < t_phase t -> t_ok t <> []) /\
  (t_phase t = 1 -> nown st (t_op t) <= t_wait t /\
     forall h, In h (t_ok t) -> bumpedk st h (ttk t) (t_dv t + 1) \/ own_rpc st (t_op t) (sv_of t h)) /\
  (t_phase t = 2 -> nown st (t_op t) <= t_wait t /\
     (forall h, In h (t_ok t) -> bumpedk st h (ttk t) (t_dv t + 1)) /\
     forall n, In n (t_new t) -> bumpedk st n (ttk t) (t_dv t + 1) \/ own_rpc st (t_op t) (pl_of t n)).

Definition lR1 (st : state) : Prop := forall k r, rget (s_reps st) k = Some r -> 1 <= r_ver r.
Definition lHV (st : state) : Prop := forall tk dv H h, tget (s_dtr st) tk = Some (dv, H) -> In h H -> bumpedk st h tk dv.
Definition lPS (st : state) : Prop :=
  forall e, In e (s_pool st) -> k_kind (p_rpc e) = K_SetVersion ->
  forall dv H, tget (s_dtr st) (rtk (p_rpc e)) = Some (dv, H) -> k_ver (p_rpc e) = dv + 1 -> In (k_ts (p_rpc e)) H.
Definition lE (st : state) : Prop :=
  forall e, In e (s_pool st) -> is_cur_ts (p_rpc e) -> okres e -> bumpedk st (k_ts (p_rpc e)) (rtk (p_rpc e)) (k_ver (p_rpc e)).
Definition lPE (st : state) : Prop :=
  forall e, In e (s_pool st) -> k_kind (p_rpc e) = K_PullTract -> tl (k_aux (p_rpc e)) <> [] /\ aux_nth (p_rpc e) 0 = k_ts (p_rpc e).
Definition lID (st : state) : Prop := NoDup (map p_id (s_pool st)).
Definition lOW (st : state) : Prop :=
  NoDup (map t_op (s_tasks st)) /\
  (forall e, In e (s_pool st) -> p_owner e <> 0 -> exists t, In t (s_tasks st) /\ t_op t = p_owner e) /\
  (forall t, In t (s_tasks st) -> t_op t <> 0 /\ - s_nsynth st <= t_op t) /\ 0 <= s_nsynth st /\
  (forall e, In e (s_pool st) -> p_owner e <> 0 -> k_cli (p_rpc e) < 0).
Definition lTK (st : state) : Prop := forall t, In t (s_tasks st) -> tk_ok st t.

Definition low (st : state) : Prop := lR1 st /\ lHV st /\ lPS st /\ lE st /\ lPE st /\ lID st /\ lOW st /\ lTK st.

(* ---------- replicas only move forward ---------- *)
Definition fwd (reps reps1 : list (rkey * replica)) : Prop :=
  forall k r, rget reps k = Some r -> rget reps1 k = None \/ exists r1, rget reps1 k = Some r1 /\ r_ver r <= r_ver r1.
Definition newok (st : state) (reps1 : list (rkey * replica)) : Prop :=
  forall k r1, rget reps1 k = Some r1 -> rget (s_reps st) k = None ->
    1 <= r_ver r1 /\ match tget (s_dtr st) (snd k) with Some (dv, _) => dv + 1 <= r_ver r1 | None => True end.

Lemma bumped_fwd : forall st reps1 h tk v dv H,
  fwd (s_reps st) reps1 -> newok st reps1 -> tget (s_dtr st) tk = Some (dv, H) -> v <= dv + 1 ->
  bumpedk st h tk v -> bumpedk (set_reps st reps1) h tk v.
Proof.
  intros st reps1 h tk v dv H F N E L B. unfold bumpedk in *. cbn [s_reps set_reps].
  destruct (rget reps1 (h, tk)) as [r1|] eqn:G1; auto.
  destruct (rget (s_reps st) (h, tk)) as [r|] eqn:G0.
  - destruct (F _ _ G0) as [X|(r1' & X & L1)]; [congruence|]. rewrite G1 in X. inversion X; subst. lia.
  - destruct (N _ _ G1 G0) as [_ X]. cbn in X. rewrite E in X. lia.
Qed.

Lemma own_rpc_same_pool : forall st st1 op r, s_pool st1 = s_pool st -> own_rpc st op r -> own_rpc st1 op r.
Proof. intros st st1 op r P (e & I & O & R). exists e. rewrite P. auto. Qed.

Lemma low_reps : forall st reps1, Inv2 st -> fwd (s_reps st) reps1 -> newok st reps1 ->
  (forall k r1, rget reps1 k = Some r1 -> 1 <= r_ver r1) ->
  low st -> low (set_reps st reps1).
Proof.
  intros st reps1 [_ (U1 & U2 & U3)] F N R1' (R1 & HV & PS & E & PE & ID & OW & TK).
  split; [exact R1'|]. split; [|split; [exact PS|split; [|split; [exact PE|split; [exact ID|split; [exact OW|]]]]]].
  - intros tk dv H h Et Ih. apply (bumped_fwd st reps1 h tk dv dv H F N Et); [lia | eapply HV; eauto].
  - intros e Ie Ce OKr. destruct (U2 _ Ie Ce) as (dv & H & Et & L). apply (bumped_fwd st reps1 _ _ _ dv H F N Et L). apply E; auto.
  - intros t It. destruct (TK _ It) as (P0 & P1 & PK & P2 & P3).
    assert (BF : 0 < t_phase t -> forall h, bumpedk st h (ttk t) (t_dv t + 1) -> bumpedk (set_reps st reps1) h (ttk t) (t_dv t + 1)).
    { intros Ph h B. destruct (U3 _ It Ph) as (dv & H & Et & L). exact (bumped_fwd st reps1 _ _ _ dv H F N Et L B). }
    split; [exact P0|]. split; [exact P1|]. split; [exact PK|]. split.
    + intros Ph. destruct (P2 Ph) as [C X]. split; [exact C|]. intros h Ih. destruct (X h Ih) as [B|O]; [left; apply BF; auto; lia | right; exact O].
    + intros Ph. destruct (P3 Ph) as (C & X & Y). split; [exact C|]. split.
      * intros h Ih. apply BF; auto; lia.
      * intros n In'. destruct (Y n In') as [B|O]; [left; apply BF; auto; lia | right; exact O].
Qed.

Lemma onekey_low : forall st reps1 k0, Inv2 st -> low st ->
  (forall k, k <> k0 -> rget reps1 k = rget (s_reps st) k) ->
  (forall r1, rget reps1 k0 = Some r1 ->
     (exists r0, rget (s_reps st) k0 = Some r0 /\ r_ver r0 <= r_ver r1) \/
     (rget (s_reps st) k0 = None /\ 1 <= r_ver r1 /\
      match tget (s_dtr st) (snd k0) with Some (dv, _) => dv + 1 <= r_ver r1 | None => True end)) ->
  low (set_reps st reps1).
Proof.
  intros st reps1 k0 I2 L OTH K0. pose proof L as (R1 & _).
  apply low_reps; auto.
  - intros k r G. destruct (rkey_dec k k0) as [E|N].
    + subst k. destruct (rget reps1 k0) as [r1|] eqn:G1; [|left; reflexivity]. right. exists r1. split; auto.
      destruct (K0 _ eq_refl) as [(r0 & G0 & L0)|(G0 & _)]; [|congruence]. rewrite G in G0. inversion G0; subst. exact L0.
    + right. exists r. rewrite OTH by exact N. split; auto. lia.
  - intros k r1 G1 G0. destruct (rkey_dec k k0) as [E|N].
    + subst k. destruct (K0 _ G1) as [(r0 & G0' & _)|(_ & A & B)]; [congruence|]. auto.
    + rewrite OTH in G1 by exact N. congruence.
  - intros k r1 G1. destruct (rkey_dec k k0) as [E|N].
    + subst k. destruct (K0 _ G1) as [(r0 & G0 & L0)|(_ & A & _)]; [|exact A]. specialize (R1 _ _ G0). lia.
    + rewrite OTH in G1 by exact N. eauto.
Qed.

Lemma low_same_reps : forall st reps1, Inv2 st -> low st -> (forall k, rget reps1 k = rget (s_reps st) k) -> low (set_reps st reps1).
Proof.
  intros st reps1 I2 L X. apply (onekey_low st reps1 (0, (0, 0))); auto.
  intros r1 G. left. exists r1. rewrite <- X. split; auto. lia.
Qed.

(* what a successful curator-side request leaves behind *)
Lemma pull_once_ok : forall reps nts x tk ver src reps1, pull_once reps nts x tk ver src = (reps1, cl_NoError) ->
  exists r1, rget reps1 (x, tk) = Some r1 /\ r_ver r1 = ver.
Proof.
  intros reps nts x tk ver src reps1 H. unfold pull_once in H.
  destruct (rget reps (x, tk)) as [r|].
  - destruct (ver <? r_ver r); [discriminate H|].
    destruct ((src <=? 0) || (nts <? src)); [discriminate H|].
    destruct (rget (rdel reps (x, tk)) (src, tk)) as [s|]; [|discriminate H].
    destruct (r_ver s =? ver); inversion H. eexists. rewrite rget_rset_same. split; reflexivity.
  - destruct ((src <=? 0) || (nts <? src)); [discriminate H|].
    destruct (rget reps (src, tk)) as [s|]; [|discriminate H].
    destruct (r_ver s =? ver); inversion H. eexists. rewrite rget_rset_same. split; reflexivity.
Qed.

Lemma pull_loop_ok : forall srcs reps nts x tk ver last reps1,
  pull_loop reps nts x tk ver srcs last = (reps1, cl_NoError) -> srcs <> [] \/ last <> cl_NoError ->
  exists r1, rget reps1 (x, tk) = Some r1 /\ r_ver r1 = ver.
Proof.
  induction srcs as [|s l IH]; intros reps nts x tk ver last reps1 H N; cbn in H.
  - inversion H; subst. destruct N as [N|N]; contradiction.
  - destruct (pull_once reps nts x tk ver s) as [reps' e] eqn:P. destruct (e =? cl_NoError) eqn:Q.
    + apply Z.eqb_eq in Q. subst e. inversion H; subst. eapply pull_once_ok; eauto.
    + apply Z.eqb_neq in Q. eapply IH; eauto.
Qed.

Definition lfields (st st1 : state) : Prop :=
  s_pool st1 = s_pool st /\ s_tasks st1 = s_tasks st /\ s_next st1 = s_next st /\ s_nsynth st1 = s_nsynth st.
Definition post_b (st1 : state) (e : pent) (res : list Z) : Prop :=
  is_cur_ts (p_rpc e) -> hd 0 res = cl_NoError -> bumpedk st1 (k_ts (p_rpc e)) (rtk (p_rpc e)) (k_ver (p_rpc e)).

Lemma low_dtr_ext : forall st st1, Inv2 st -> low st ->
  s_reps st1 = s_reps st -> lfields st st1 ->
  (forall tk v, tget (s_dtr st) tk = Some v -> tget (s_dtr st1) tk = Some v) ->
  (forall tk dv H, tget (s_dtr st1) tk = Some (dv, H) -> tget (s_dtr st) tk = Some (dv, H) \/ (tget (s_dtr st) tk = None /\ dv = 1)) ->
  low st1.
Proof.
  intros st st1 [_ (U1 & U2 & U3)] (R1 & HV & PS & E & PE & ID & OW & TK) R (P & T & N & S) DOLD DNEW.
  assert (BK : forall h tk v, bumpedk st h tk v -> bumpedk st1 h tk v) by (intros h tk v B; unfold bumpedk in *; rewrite R; exact B).
  assert (OR : forall op r, own_rpc st op r -> own_rpc st1 op r) by (intros; eapply own_rpc_same_pool; eauto).
  split; [intros k r G; rewrite R in G; eauto|]. split; [|split; [|split; [|split; [|split; [|split]]]]].
  - intros tk dv H h Et Ih. destruct (DNEW _ _ _ Et) as [E0|[E0 X]]; [apply BK; eapply HV; eauto|].
    subst dv. unfold bumpedk. rewrite R. destruct (rget (s_reps st) (h, tk)) as [r|] eqn:G; auto. eauto.
  - intros e Ie Kd dv H Et V. rewrite P in Ie. destruct (DNEW _ _ _ Et) as [E0|[E0 X]]; [eapply PS; eauto|].
    destruct (U2 _ Ie (or_introl Kd)) as (dv0 & H0 & Y & _). congruence.
  - intros e Ie Ce OKr. rewrite P in Ie. apply BK. auto.
  - intros e Ie Kd. rewrite P in Ie. auto.
  - unfold lID. rewrite P. exact ID.
  - destruct OW as (O1 & O2 & O3 & O4). unfold lOW. rewrite T, P, S. auto.
  - intros t It. rewrite T in It. destruct (TK _ It) as (P0 & P1 & PK & P2 & P3).
    assert (OWN : owned st1 (t_op t) = owned st (t_op t)) by (unfold owned; rewrite P; reflexivity).
    assert (NOW : nown st1 (t_op t) = nown st (t_op t)) by (unfold nown; rewrite OWN; reflexivity).
    split; [exact P0|]. split; [rewrite OWN; exact P1|]. split; [exact PK|]. rewrite NOW. split.
    + intros Ph. destruct (P2 Ph) as [C X]. split; [exact C|]. intros h Ih. destruct (X h Ih) as [B|O]; auto.
    + intros Ph. destruct (P3 Ph) as (C & X & Y). split; [exact C|]. split; [intros h Ih; auto|].
      intros n In'. destruct (Y n In') as [B|O]; auto.
Qed.

Lemma ack_extend_dtr : forall st blob trs, dur_ok st ->
  let st1 := fst (ack_extend st blob trs) in
  s_reps st1 = s_reps st /\
  (forall tk v, tget (s_dtr st) tk = Some v -> tget (s_dtr st1) tk = Some v) /\
  (forall tk dv H, tget (s_dtr st1) tk = Some (dv, H) -> tget (s_dtr st) tk = Some (dv, H) \/ (tget (s_dtr st) tk = None /\ dv = 1)).
Proof.
  intros st blob trs [_ D2]. unfold ack_extend.
  assert (SAME : s_reps st = s_reps st /\ (forall tk v, tget (s_dtr st) tk = Some v -> tget (s_dtr st) tk = Some v) /\
                 (forall tk dv H, tget (s_dtr st) tk = Some (dv, H) -> tget (s_dtr st) tk = Some (dv, H) \/ (tget (s_dtr st) tk = None /\ dv = 1))) by auto.
  destruct trs as [|[[first ver0] hs0] trs0]; [exact SAME|].
  remember ((first, ver0, hs0) :: trs0) as trs eqn:T. clear T trs0.
  destruct (20 <? Z.of_nat (length trs)); [exact SAME|].
  destruct (zget (s_blobs st) blob) as [[repl nt]|] eqn:B; [|exact SAME].
  destruct (negb (first =? nt)); [exact SAME|].
  destruct (negb (forallb _ trs)); [exact SAME|].
  cbn [fst]. fold (ext_fold blob trs (s_dtr st) nt). cbn [s_reps s_dtr set_blobs set_dtr]. split; [reflexivity|]. split.
  - intros tk v E0. rewrite ext_fold_keep; auto. intros i Y. subst tk. destruct v as [dv0 H0].
    destruct (D2 _ _ _ _ E0) as (_ & r0 & n0 & G0 & I0). rewrite B in G0. inversion G0; subst. lia.
  - intros tk dv H E1. apply ext_fold_spec in E1 as [E1|(i & hs' & Ek & Rg & Ev)]; [left; exact E1|].
    inversion Ev; subst. right. split; auto.
    destruct (tget (s_dtr st) (blob, i)) as [[dv0 H0]|] eqn:E0; auto.
    destruct (D2 _ _ _ _ E0) as (_ & r0 & n0 & G0 & I0). rewrite B in G0. inversion G0; subst. lia.
Qed.

Lemma exec_low : forall st e oracle st1 res tr,
  Inv2 st -> low st -> In e (s_pool st) -> side_ok st e ->
  exec_rpc st e oracle = (st1, res, tr) ->
  low st1 /\ post_b st1 e res /\ lfields st st1.
Proof.
  intros st e oracle st1 res tr I2 L Ie (SC & SP & _) X. pose proof I2 as [[Ds Ks] W]. pose proof L as (R1 & HV & PS & E & PE & ID & OW & TK).
  unfold exec_rpc in X.
  assert (NB : forall K, k_kind (p_rpc e) = K -> K <> K_SetVersion -> K <> K_PullTract -> forall s r0, post_b s e r0).
  { intros K EK N1 N2 s r0 [Y|Y]; congruence. }
  assert (FE : forall reps, lfields st (set_reps st reps)) by (intros; repeat split).
  assert (FS : lfields st st) by (repeat split).
  set (x := k_ts (p_rpc e)) in *. set (tk := tkey (k_blob (p_rpc e)) (k_tract (p_rpc e))) in *.
  destruct (k_kind (p_rpc e) =? K_Write) eqn:K1.
  { apply Z.eqb_eq in K1. destruct (ts_write _ _ _ _ _ _ _) as [reps c] eqn:Wr. inversion X; subst.
    split; [|split; [apply (NB _ K1); discriminate | apply FE]].
    apply ts_write_spec in Wr as [[N Eq]|(Eq & r0 & G & V & Rq)]; subst; [apply low_same_reps; auto|].
    apply (onekey_low st _ (x, tk) I2 L); [intros k N; now apply rget_rset_other|].
    intros r1 G1. rewrite rget_rset_same in G1. inversion G1; subst. left. exists r0. split; auto. cbn. lia. }
  destruct (k_kind (p_rpc e) =? K_Create) eqn:K2.
  { apply Z.eqb_eq in K2. destruct (ts_create _ _ _ _ _ _ _) as [reps c] eqn:Cr. inversion X; subst.
    split; [|split; [apply (NB _ K2); discriminate | apply FE]].
    unfold ts_create in Cr. destruct (negb (x =? aux_nth (p_rpc e) 0)); [inversion Cr; subst; apply low_same_reps; auto|].
    destruct (rget (s_reps st) (x, tk)) as [r0|] eqn:G.
    - apply ts_write_spec in Cr as [[N Eq]|(Eq & r0' & G' & V & Rq)]; subst; [apply low_same_reps; auto|].
      apply (onekey_low st _ (x, tk) I2 L); [intros k N; now apply rget_rset_other|].
      intros r1 G1. rewrite rget_rset_same in G1. inversion G1; subst. left. exists r0'. split; auto. cbn. lia.
    - inversion Cr; subst. apply (onekey_low st _ (x, tk) I2 L); [intros k N; now apply rget_rset_other|].
      intros r1 G1. rewrite rget_rset_same in G1. inversion G1; subst. right. split; auto. split; [cbn; lia|].
      cbn [snd]. specialize (SC K2). unfold rtk in SC. fold tk in SC. rewrite SC. exact I. }
  destruct (k_kind (p_rpc e) =? K_Read) eqn:K3.
  { apply Z.eqb_eq in K3. destruct (ts_read _ _ _ _ _ _) as [[c n] runs]. inversion X; subst.
    split; [exact L|]. split; [apply (NB _ K3); discriminate | apply FS]. }
  destruct (k_kind (p_rpc e) =? K_SetVersion) eqn:K4.
  { apply Z.eqb_eq in K4. destruct (ts_setversion _ _ _ _ _) as [reps c] eqn:Sv. inversion X; subst.
    pose proof (ts_setversion_frame _ _ _ _ _ _ _ Sv) as (F1 & F2 & F3).
    split; [|split; [|apply FE]].
    - apply ts_setversion_spec in Sv as [Eq|(r0 & G & V & Eq)]; subst; [apply low_same_reps; auto|].
      apply (onekey_low st _ (x, tk) I2 L); [intros k N; now apply rget_rset_other|].
      intros r1 G1. rewrite rget_rset_same in G1. inversion G1; subst. left. exists r0. split; auto. cbn. lia.
    - intros _ Hc. cbn in Hc. unfold bumpedk, rtk. fold x tk. cbn [s_reps set_reps].
      destruct (rget (s_reps st) (x, tk)) as [r0|] eqn:G; [|rewrite (F2 eq_refl); exact I].
      destruct (F3 _ eq_refl) as (r' & G' & _ & _ & _ & Y). rewrite G'. auto. }
  destruct (k_kind (p_rpc e) =? K_PullTract) eqn:K5.
  { apply Z.eqb_eq in K5. destruct W as (U1 & U2 & U3). destruct (U2 _ Ie (or_intror K5)) as (dv & H & Et & Lv).
    unfold rtk in Et. fold tk in Et. destruct (PE _ Ie K5) as [NE AX].
    destruct (ts_pull _ _ _ _ _ _ _) as [reps c] eqn:Pl. inversion X; subst.
    unfold ts_pull in Pl. fold x in AX. rewrite AX, Z.eqb_refl in Pl. cbn [negb] in Pl.
    pose proof (pull_loop_spec _ _ _ _ _ _ _ _ _ Pl) as [OTH CASES].
    split; [|split; [|apply FE]].
    - apply (onekey_low st _ (x, tk) I2 L); [exact OTH|]. intros r1 G1.
      destruct CASES as [SAME|[PRE RES]].
      + left. exists r1. rewrite <- SAME. split; auto. lia.
      + destruct RES as [RES|(src & s & GS & Vs & RES)]; [congruence|]. rewrite RES in G1. inversion G1; subst r1. cbn.
        destruct PRE as [PRE|(r0 & G0 & L0)]; [|left; exists r0; auto].
        right. split; auto. cbn [snd]. rewrite Et.
        assert (NS : dv < k_ver (p_rpc e)).
        { specialize (SP K5). unfold stale_pull in SP. fold tk x in SP. rewrite Et, PRE in SP.
          apply andb_false_iff in SP as [SP|SP]; [apply Z.leb_gt in SP; lia | discriminate SP]. }
        destruct Ds as [_ D2]. destruct tk as [b i]. destruct (D2 _ _ _ _ Et) as [L1 _]. lia.
    - intros _ Hc. cbn in Hc. subst c. unfold bumpedk, rtk. fold x tk. cbn [s_reps set_reps].
      destruct (pull_loop_ok _ _ _ _ _ _ _ _ Pl (or_introl NE)) as (r1 & G1 & V1). rewrite G1. lia. }
  destruct (k_kind (p_rpc e) =? K_StatBlob) eqn:K6.
  { apply Z.eqb_eq in K6. destruct (zget (s_blobs st) (k_blob (p_rpc e))) as [[a b]|]; inversion X; subst;
      (split; [exact L|]; split; [apply (NB _ K6); discriminate | apply FS]). }
  destruct (k_kind (p_rpc e) =? K_GetTracts) eqn:K7.
  { apply Z.eqb_eq in K7. destruct (exec_gettracts st (p_rpc e)) as [res0 trs]. inversion X; subst.
    split; [exact L|]. split; [apply (NB _ K7); discriminate | apply FS]. }
  destruct (k_kind (p_rpc e) =? K_ExtendBlob) eqn:K8.
  { apply Z.eqb_eq in K8. destruct (exec_extend st (p_rpc e) oracle) as [res0 trs]. inversion X; subst.
    split; [exact L|]. split; [apply (NB _ K8); discriminate | apply FS]. }
  destruct (k_kind (p_rpc e) =? K_AckExtend) eqn:K9.
  { apply Z.eqb_eq in K9. destruct (ack_extend st (k_blob (p_rpc e)) (decode_tracts false (k_aux (p_rpc e)))) as [st' c] eqn:AE.
    inversion X; subst. split; [|split; [apply (NB _ K9); discriminate|]].
    2: { pose proof (ack_fields st (k_blob (p_rpc e)) (decode_tracts false (k_aux (p_rpc e)))) as (A1 & A2 & A3 & _). rewrite AE in *. cbn [fst] in *.
         repeat split; auto. unfold ack_extend in AE. brkH AE; inversion AE; subst; reflexivity. }
    pose proof (ack_extend_dtr st (k_blob (p_rpc e)) (decode_tracts false (k_aux (p_rpc e))) Ds) as (A0 & A1' & A2').
    pose proof (ack_fields st (k_blob (p_rpc e)) (decode_tracts false (k_aux (p_rpc e)))) as (B1 & B2 & B3 & _).
    rewrite AE in *. cbn [fst] in *.
    apply (low_dtr_ext st); auto. repeat split; auto. unfold ack_extend in AE. brkH AE; inversion AE; subst; reflexivity. }
  assert (KB : forall s r0, post_b s e r0).
  { intros s r0 [Y|Y]; rewrite Y in *; discriminate. }
  destruct (k_kind (p_rpc e) =? K_ReportBadTS); inversion X; subst; auto.
Qed.

(* ---------- pool bookkeeping ---------- *)
Lemma uniq_pid : forall pool a b, NoDup (map p_id pool) -> In a pool -> In b pool -> p_id a = p_id b -> a = b.
Proof.
  induction pool as [|x l IH]; intros a b ND Ia Ib E; [destruct Ia|].
  cbn in ND. inversion ND; subst. destruct Ia as [Ia|Ia]; destruct Ib as [Ib|Ib]; subst; auto.
  - exfalso. apply H1. rewrite E. now apply in_map.
  - exfalso. apply H1. rewrite <- E. now apply in_map.
Qed.

Lemma filter_map_len : forall (g : pent -> bool) (f : pent -> pent) l, (forall y, In y l -> g (f y) = g y) ->
  length (filter g (map f l)) = length (filter g l).
Proof.
  induction l as [|a l IH]; intros H; cbn; auto. rewrite (H a (or_introl eq_refl)).
  destruct (g a); cbn; rewrite IH; auto; intros y Iy; apply H; right; exact Iy.
Qed.

Lemma low_upd : forall st1 e stt res tr lose auto, low st1 -> In e (s_pool st1) -> (stt = 2 -> post_b st1 e res) ->
  low (set_pool st1 (pool_update (s_pool st1) (set_pent e stt res tr lose auto))).
Proof.
  intros st1 e stt res tr lose auto (R1 & HV & PS & E & PE & ID & OW & TK) Ie PB.
  set (e2 := set_pent e stt res tr lose auto). set (st2 := set_pool st1 (pool_update (s_pool st1) e2)).
  set (f := fun y : pent => if p_id y =? p_id e2 then e2 else y).
  assert (FE : forall y, In y (s_pool st1) -> p_id (f y) = p_id y /\ p_rpc (f y) = p_rpc y /\ p_owner (f y) = p_owner y).
  { intros y Iy. unfold f. destruct (p_id y =? p_id e2) eqn:Q; auto. apply Z.eqb_eq in Q. cbn in Q.
    assert (y = e) by (eapply uniq_pid; eauto). subst y. auto. }
  assert (INP : forall e', In e' (s_pool st2) -> e' = e2 \/ In e' (s_pool st1)) by (intros e' I; apply in_pool_update; exact I).
  assert (OR : forall op r, own_rpc st1 op r -> own_rpc st2 op r).
  { intros op r (y & Iy & Oy & Ry). exists (f y). destruct (FE _ Iy) as (_ & A & B). split; [|split; congruence].
    cbn. unfold pool_update. apply in_map_iff. exists y. auto. }
  assert (OWN : forall op, length (owned st2 op) = length (owned st1 op)).
  { intros op. unfold owned. cbn [s_pool st2 set_pool]. unfold pool_update. fold f. apply filter_map_len.
    intros y Iy. destruct (FE _ Iy) as (_ & _ & B). now rewrite B. }
  split; [exact R1|]. split; [exact HV|]. split; [|split; [|split; [|split; [|split]]]].
  - intros e' I Kd. destruct (INP _ I) as [X|X]; [subst e'; exact (PS _ Ie Kd) | exact (PS _ X Kd)].
  - intros e' I Ce OKr. destruct (INP _ I) as [X|X]; [|exact (E _ X Ce OKr)]. subst e'. destruct OKr as [OK1 OK2]. cbn in OK1, OK2. exact (PB OK1 Ce OK2).
  - intros e' I Kd. destruct (INP _ I) as [X|X]; [subst e'; exact (PE _ Ie Kd) | exact (PE _ X Kd)].
  - unfold lID. cbn [s_pool st2 set_pool]. unfold pool_update. fold f. rewrite map_map.
    replace (map (fun y => p_id (f y)) (s_pool st1)) with (map p_id (s_pool st1)); [exact ID|].
    apply map_ext_in. intros y Iy. destruct (FE _ Iy) as (A & _). auto.
  - destruct OW as (O1 & O2 & O3 & O4 & O5). split; [exact O1|]. split; [|split; [exact O3 | split; [exact O4|]]].
    + intros e' I NZ. destruct (INP _ I) as [X|X]; [subst e'; exact (O2 _ Ie NZ) | exact (O2 _ X NZ)].
    + intros e' I NZ. destruct (INP _ I) as [X|X]; [subst e'; exact (O5 _ Ie NZ) | exact (O5 _ X NZ)].
  - intros t It. destruct (TK _ It) as (P0 & P1 & PK & P2 & P3).
    assert (NOW : nown st2 (t_op t) = nown st1 (t_op t)) by (unfold nown; now rewrite OWN).
    split; [exact P0|]. split.
    + intros Ph. specialize (P1 Ph). pose proof (OWN (t_op t)) as Y. rewrite P1 in Y. destruct (owned st2 (t_op t)); [reflexivity | discriminate Y].
    + split; [exact PK|]. rewrite NOW. split.
      * intros Ph. destruct (P2 Ph) as [C X]. split; [exact C|]. intros h Ih. destruct (X h Ih) as [B|O]; auto.
      * intros Ph. destruct (P3 Ph) as (C & X & Y). split; [exact C|]. split; [exact X|].
        intros n In'. destruct (Y n In') as [B|O]; auto.
Qed.

(* ---------- issuing a batch of requests ---------- *)
Fixpoint mkents (f : Z -> rpc) (o : Z) (n : Z) (l : list Z) : list pent :=
  match l with
  | [] => []
  | h :: r => {| p_id := n; p_rpc := f h; p_st := 0; p_res := []; p_tr := []; p_lose := false; p_auto := true; p_owner := o |}
              :: mkents f o (n + 1) r
  end.

Lemma fold_issue_fields : forall (f : Z -> rpc) o l st,
  let st' := fold_left (fun s h => issue_cur s (f h) o) l st in
  s_pool st' = s_pool st ++ mkents f o (s_next st) l /\ s_next st' = s_next st + Z.of_nat (length l) /\
  s_tasks st' = s_tasks st /\ s_reps st' = s_reps st /\ s_dtr st' = s_dtr st /\ s_nsynth st' = s_nsynth st.
Proof.
  induction l as [|h l IH]; intros st; cbn [fold_left].
  - cbn. rewrite app_nil_r. repeat split; lia.
  - destruct (IH (issue_cur st (f h) o)) as (A & B & C & D & E & F). cbn zeta. rewrite A, B, C, D, E, F.
    cbn [s_pool s_next s_tasks s_reps s_dtr s_nsynth issue_cur issue set_out set_next set_pool mkents length].
    rewrite <- app_assoc. cbn [app]. repeat split; auto. lia.
Qed.

Lemma mkents_in : forall f o l n e, In e (mkents f o n l) ->
  n <= p_id e < n + Z.of_nat (length l) /\ p_owner e = o /\ p_st e = 0 /\ exists h, In h l /\ p_rpc e = f h.
Proof.
  induction l as [|h l IH]; intros n e I; [destruct I|]. cbn [mkents length] in *. destruct I as [I|I].
  - subst e. cbn. split; [lia|]. split; [reflexivity|]. split; [reflexivity|]. exists h. split; [left; reflexivity | reflexivity].
  - destruct (IH _ _ I) as (A & B & C & h' & D & E). split; [lia|]. split; [exact B|]. split; [exact C|]. exists h'. split; [right; exact D | exact E].
Qed.

Lemma mkents_has : forall f o l n h, In h l -> exists e, In e (mkents f o n l) /\ p_rpc e = f h /\ p_owner e = o.
Proof.
  induction l as [|a l IH]; intros n h I; [destruct I|]. cbn [mkents]. destruct I as [I|I].
  - subst a. eexists. split; [left; reflexivity|]. auto.
  - destruct (IH (n + 1) h I) as (e & Ie & R & O). exists e. split; [right; exact Ie|]. auto.
Qed.

Lemma mkents_nodup : forall f o l n, NoDup (map p_id (mkents f o n l)).
Proof.
  induction l as [|h l IH]; intros n; cbn; constructor; auto.
  intro X. apply in_map_iff in X as (e & E & I). apply mkents_in in I as (A & _). lia.
Qed.

Lemma mkents_owned : forall f o l n op, length (filter (fun e => p_owner e =? op) (mkents f o n l)) = if o =? op then length l else O.
Proof.
  induction l as [|h l IH]; intros n op; [cbn; destruct (o =? op); reflexivity|].
  cbn [mkents filter p_owner]. destruct (o =? op) eqn:Q; cbn [length]; rewrite IH, Q; reflexivity.
Qed.

Lemma nodup_app_ids : forall (a b : list pent) n, NoDup (map p_id a) -> NoDup (map p_id b) ->
  (forall e, In e a -> p_id e < n) -> (forall e, In e b -> n <= p_id e) -> NoDup (map p_id (a ++ b)).
Proof.
  induction a as [|x a IH]; intros b n Na Nb La Lb; cbn; auto.
  cbn in Na. inversion Na; subst. constructor.
  - intro X. rewrite map_app in X. apply in_app_or in X as [X|X]; [contradiction|].
    apply in_map_iff in X as (e & E & I). specialize (Lb _ I). specialize (La x (or_introl eq_refl)). lia.
  - eapply IH; eauto. intros e I. apply La. right. exact I.
Qed.

Lemma upd_task_ops : forall ts t', map t_op (upd_task ts t') = map t_op ts.
Proof.
  intros. unfold upd_task. rewrite map_map. apply map_ext. intros a. destruct (t_op a =? t_op t') eqn:E; auto.
  apply Z.eqb_eq in E. auto.
Qed.

Lemma upd_task_in : forall ts t' x, In x (upd_task ts t') -> (x = t' /\ exists y, In y ts /\ t_op y = t_op t') \/ (In x ts /\ t_op x <> t_op t').
Proof.
  intros ts t' x I. unfold upd_task in I. apply in_map_iff in I as (y & E & Iy).
  destruct (t_op y =? t_op t') eqn:Q; subst x.
  - left. split; auto. exists y. apply Z.eqb_eq in Q. auto.
  - right. apply Z.eqb_neq in Q. auto.
Qed.

Definition lowx (st : state) (op : Z) : Prop :=
  lR1 st /\ lHV st /\ lPS st /\ lE st /\ lPE st /\ lID st /\ lOW st /\
  (forall t, In t (s_tasks st) -> t_op t <> op -> tk_ok st t).

Lemma low_lowx : forall st op, low st -> lowx st op.
Proof. intros st op (A & B & C & D & E & F & G & H). split; [exact A|]. split; [exact B|]. split; [exact C|]. split; [exact D|]. split; [exact E|]. split; [exact F|]. split; [exact G|]. intros t I _. auto. Qed.

Lemma tk_ok_frame : forall st st' t,
  (forall h tk v, bumpedk st h tk v -> bumpedk st' h tk v) ->
  length (owned st' (t_op t)) = length (owned st (t_op t)) ->
  (forall r, own_rpc st (t_op t) r -> own_rpc st' (t_op t) r) ->
  tk_ok st t -> tk_ok st' t.
Proof.
  intros st st' t BK LEN OR (P0 & P1 & PK & P2 & P3).
  assert (NOW : nown st' (t_op t) = nown st (t_op t)) by (unfold nown; now rewrite LEN).
  split; [exact P0|]. split.
  - intros Ph. specialize (P1 Ph). rewrite P1 in LEN. destruct (owned st' (t_op t)); [reflexivity | discriminate LEN].
  - split; [exact PK|]. rewrite NOW. split.
    + intros Ph. destruct (P2 Ph) as [C X]. split; [exact C|]. intros h Ih. destruct (X h Ih) as [B|O]; auto.
    + intros Ph. destruct (P3 Ph) as (C & X & Y). split; [exact C|]. split; [intros h Ih; auto|].
      intros n In'. destruct (Y n In') as [B|O]; auto.
Qed.

Lemma low_launch : forall st t t' (f : Z -> rpc) l,
  tr_ok st -> lowx st (t_op t) -> In t (s_tasks st) -> t_op t' = t_op t -> owned st (t_op t) = [] ->
  (forall h, In h l -> k_cli (f h) < 0 /\
     (k_kind (f h) = K_SetVersion -> forall dv H, tget (s_dtr st) (rtk (f h)) = Some (dv, H) -> k_ver (f h) = dv + 1 -> In (k_ts (f h)) H) /\
     (k_kind (f h) = K_PullTract -> tl (k_aux (f h)) <> [] /\ aux_nth (f h) 0 = k_ts (f h))) ->
  let st' := fold_left (fun s h => issue_cur s (f h) (t_op t)) l (set_tasks st (upd_task (s_tasks st) t')) in
  ((forall h, In h l -> own_rpc st' (t_op t) (f h)) -> nown st' (t_op t) = Z.of_nat (length l) ->
   (forall h tk v, bumpedk st h tk v -> bumpedk st' h tk v) -> tk_ok st' t') ->
  low st'.
Proof.
  intros st t t' f l (T0 & T1 & T2) (R1 & HV & PS & E & PE & ID & OW & TK) It OP OWN0 FOK st' TKN.
  destruct (fold_issue_fields f (t_op t) l (set_tasks st (upd_task (s_tasks st) t'))) as (FP & FN & FT & FR & FD & FS).
  fold st' in FP, FN, FT, FR, FD, FS. cbn [s_pool s_next s_tasks s_reps s_dtr s_nsynth set_tasks] in FP, FN, FT, FR, FD, FS.
  assert (BK : forall h tk v, bumpedk st h tk v -> bumpedk st' h tk v) by (intros h tk v B; unfold bumpedk in *; rewrite FR; exact B).
  assert (INP : forall e, In e (s_pool st') -> In e (s_pool st) \/ In e (mkents f (t_op t) (s_next st) l)) by (intros e I; rewrite FP in I; now apply in_app_or).
  assert (OLDP : forall e, In e (s_pool st) -> In e (s_pool st')) by (intros e I; rewrite FP; apply in_or_app; auto).
  assert (OWNL : forall op, length (owned st' op) = (length (owned st op) + if Z.eqb (t_op t) op then length l else O)%nat).
  { intros op. unfold owned. rewrite FP, filter_app, app_length, mkents_owned. reflexivity. }
  split; [intros k r G; rewrite FR in G; eauto|]. split; [|split; [|split; [|split; [|split; [|split]]]]].
  - intros tk dv H h Et Ih. rewrite FD in Et. apply BK. eapply HV; eauto.
  - intros e I Kd dv H Et V. rewrite FD in Et. destruct (INP _ I) as [X|X]; [eapply PS; eauto|].
    apply mkents_in in X as (_ & _ & _ & h & Ih & Rh). rewrite Rh in *. destruct (FOK _ Ih) as (_ & A & _). eapply A; eauto.
  - intros e I Ce OKr. destruct (INP _ I) as [X|X]; [apply BK; apply E; auto|].
    apply mkents_in in X as (_ & _ & Z0 & _). destruct OKr as [OK1 _]. lia.
  - intros e I Kd. destruct (INP _ I) as [X|X]; [auto|].
    apply mkents_in in X as (_ & _ & _ & h & Ih & Rh). rewrite Rh in *. destruct (FOK _ Ih) as (_ & _ & B). auto.
  - unfold lID. rewrite FP. apply (nodup_app_ids _ _ (s_next st)); auto using mkents_nodup.
    intros e I. apply mkents_in in I as (A & _). lia.
  - destruct OW as (O1 & O2 & O3 & O4 & O5). unfold lOW. rewrite FT, FS, upd_task_ops. split; [exact O1|]. split; [|split; [|split; [exact O4|]]].
    3: { intros e I NZ. destruct (INP _ I) as [X|X]; [exact (O5 _ X NZ)|]. apply mkents_in in X as (_ & _ & _ & h & Ih & Rh). rewrite Rh. destruct (FOK _ Ih) as (A & _). exact A. }
    + intros e I NZ. destruct (INP _ I) as [X|X].
      * destruct (O2 _ X NZ) as (y & Iy & Oy). 
        assert (IM : In (t_op y) (map t_op (upd_task (s_tasks st) t'))) by (rewrite upd_task_ops; now apply in_map).
        apply in_map_iff in IM as (y' & Ey & Iy'). exists y'. split; auto. congruence.
      * apply mkents_in in X as (_ & Oe & _). rewrite Oe.
        assert (IM : In (t_op t) (map t_op (upd_task (s_tasks st) t'))) by (rewrite upd_task_ops; now apply in_map).
        apply in_map_iff in IM as (y' & Ey & Iy'). exists y'. auto.
    + intros x Ix. apply upd_task_in in Ix as [[Ex (y & Iy & Oy)]|[Ix _]]; [|auto]. subst x. rewrite OP. destruct (O3 _ It). auto.
  - intros x Ix. rewrite FT in Ix. apply upd_task_in in Ix as [[Ex _]|[Ix NOP]].
    + subst x. apply TKN; auto.
      * intros h Ih. destruct (mkents_has f (t_op t) l (s_next st) h Ih) as (e & Ie & Re & Oe). exists e. split; [rewrite FP; apply in_or_app; auto | auto].
      * unfold nown. rewrite OWNL, OWN0, Z.eqb_refl. reflexivity.
    + rewrite OP in NOP. apply (tk_ok_frame st); auto.
      * rewrite OWNL. apply Z.eqb_neq in NOP. rewrite Z.eqb_sym in NOP. rewrite NOP. lia.
      * intros r (e & Ie & Oe & Re). exists e. auto.
Qed.

(* ---------- a task ends ---------- *)
Lemma nodup_filter_tasks : forall (p : task -> bool) ts, NoDup (map t_op ts) -> NoDup (map t_op (filter p ts)).
Proof.
  induction ts as [|a l IH]; intros ND; cbn; auto. cbn in ND. inversion ND; subst.
  destruct (p a); cbn; auto. constructor; auto. intro X. apply H1. apply in_map_iff in X as (y & E & I).
  apply filter_In in I as [I _]. rewrite <- E. now apply in_map.
Qed.

Lemma low_of_pool_map : forall st st' (g : pent -> pent) op,
  lowx st op -> op <> 0 ->
  s_reps st' = s_reps st -> s_dtr st' = s_dtr st -> s_nsynth st' = s_nsynth st ->
  s_tasks st' = del_task (s_tasks st) op -> s_pool st' = map g (s_pool st) ->
  (forall e, In e (s_pool st) -> p_id (g e) = p_id e /\ p_rpc (g e) = p_rpc e /\
     p_owner (g e) = (if p_owner e =? op then 0 else p_owner e) /\
     (is_cur_ts (p_rpc e) -> p_st (g e) = p_st e /\ p_res (g e) = p_res e)) ->
  low st'.
Proof.
  intros st st' g op (R1 & HV & PS & E & PE & ID & OW & TK) NZ FR FD FS FT FP G.
  assert (BK : forall h tk v, bumpedk st h tk v -> bumpedk st' h tk v) by (intros h tk v B; unfold bumpedk in *; rewrite FR; exact B).
  assert (INP : forall e', In e' (s_pool st') -> exists e, In e (s_pool st) /\ e' = g e).
  { intros e' I. rewrite FP in I. apply in_map_iff in I as (e & Ee & Ie). exists e. auto. }
  split; [intros k r Gk; rewrite FR in Gk; eauto|]. split; [|split; [|split; [|split; [|split; [|split]]]]].
  - intros tk dv H h Et Ih. rewrite FD in Et. apply BK. eapply HV; eauto.
  - intros e' I Kd dv H Et V. rewrite FD in Et. destruct (INP _ I) as (e & Ie & Ee). subst e'. destruct (G _ Ie) as (_ & Rp & _). rewrite Rp in *. eapply PS; eauto.
  - intros e' I Ce [OK1 OK2]. destruct (INP _ I) as (e & Ie & Ee). subst e'. destruct (G _ Ie) as (_ & Rp & _ & SS). rewrite Rp in *.
    destruct (SS Ce) as [S1 S2]. apply BK. apply E; auto. split; congruence.
  - intros e' I Kd. destruct (INP _ I) as (e & Ie & Ee). subst e'. destruct (G _ Ie) as (_ & Rp & _). rewrite Rp in *. auto.
  - unfold lID. rewrite FP, map_map. replace (map (fun x => p_id (g x)) (s_pool st)) with (map p_id (s_pool st)); [exact ID|].
    apply map_ext_in. intros e Ie. destruct (G _ Ie) as (A & _). auto.
  - destruct OW as (O1 & O2 & O3 & O4 & O5). unfold lOW. rewrite FT, FS. split; [unfold del_task; now apply nodup_filter_tasks|]. split; [|split; [|split; [exact O4|]]].
    3: { intros e' I NZ'. destruct (INP _ I) as (e & Ie & Ee). subst e'. destruct (G _ Ie) as (_ & Rp & Ow & _). rewrite Rp. rewrite Ow in NZ'.
         destruct (p_owner e =? op); [exfalso; apply NZ'; reflexivity | exact (O5 _ Ie NZ')]. }
    + intros e' I NZ'. destruct (INP _ I) as (e & Ie & Ee). subst e'. destruct (G _ Ie) as (_ & _ & Ow & _). rewrite Ow in *.
      destruct (p_owner e =? op) eqn:Q; [contradiction|]. destruct (O2 _ Ie NZ') as (y & Iy & Oy). exists y. split; auto.
      unfold del_task. apply filter_In. split; auto. apply negb_true_iff. rewrite Oy. exact Q.
    + intros y Iy. unfold del_task in Iy. apply filter_In in Iy as [Iy _]. auto.
  - intros y Iy. rewrite FT in Iy. unfold del_task in Iy. apply filter_In in Iy as [Iy Ny]. apply negb_true_iff in Ny. apply Z.eqb_neq in Ny.
    destruct OW as (_ & _ & O3 & _). destruct (O3 _ Iy) as [NZy _].
    apply (tk_ok_frame st); auto.
    + unfold owned. rewrite FP. apply filter_map_len. intros e Ie. destruct (G _ Ie) as (_ & _ & Ow & _). rewrite Ow.
      destruct (p_owner e =? op) eqn:Q; auto. apply Z.eqb_eq in Q. rewrite Q.
      destruct (0 =? t_op y) eqn:Q1; [apply Z.eqb_eq in Q1; congruence|]. destruct (op =? t_op y) eqn:Q2; [apply Z.eqb_eq in Q2; congruence|]. reflexivity.
    + intros r (e & Ie & Oe & Re). exists (g e). destruct (G _ Ie) as (_ & Rp & Ow & _). split; [rewrite FP; now apply in_map|].
      split; [|congruence]. rewrite Ow, Oe. destruct (t_op y =? op) eqn:Q; auto. apply Z.eqb_eq in Q. contradiction.
Qed.

Lemma low_finish_task : forall st t err, tr_ok st -> lowx st (t_op t) -> In t (s_tasks st) -> low (finish_task st t err).
Proof.
  intros st t err (T0 & T1 & T2) LX It. pose proof LX as (_ & _ & _ & _ & _ & _ & (_ & _ & O3 & _) & _).
  destruct (O3 _ It) as [NZ _]. unfold finish_task.
  set (g1 := fun e : pent => if p_owner e =? t_op t
                             then {| p_id := p_id e; p_rpc := p_rpc e; p_st := p_st e; p_res := p_res e; p_tr := p_tr e;
                                     p_lose := p_lose e; p_auto := p_auto e; p_owner := 0 |} else e).
  set (g2 := fun e : pent => if p_id e =? t_rpc t
                             then {| p_id := p_id e; p_rpc := p_rpc e; p_st := 2; p_res := [err]; p_tr := p_tr e;
                                     p_lose := p_lose e; p_auto := p_auto e; p_owner := p_owner e |} else e).
  assert (G1 : forall e, p_id (g1 e) = p_id e /\ p_rpc (g1 e) = p_rpc e /\ p_owner (g1 e) = (if p_owner e =? t_op t then 0 else p_owner e) /\
                         p_st (g1 e) = p_st e /\ p_res (g1 e) = p_res e).
  { intro e; unfold g1; destruct (p_owner e =? t_op t); repeat split; auto. }
  destruct (t_rpc t =? 0) eqn:Z0.
  - apply (low_of_pool_map st _ g1 (t_op t)); auto; try reflexivity.
    intros e Ie. destruct (G1 e) as (A & B & C & D & F). repeat split; auto.
  - apply Z.eqb_neq in Z0. apply (low_of_pool_map st _ (fun e => g2 (g1 e)) (t_op t)); auto; try reflexivity.
    + cbn. rewrite map_map. reflexivity.
    + intros e Ie. destruct (G1 e) as (A & B & C & D & F). unfold g2. rewrite A.
      destruct (p_id e =? t_rpc t) eqn:Q; cbn; [|repeat split; auto].
      apply Z.eqb_eq in Q. destruct (T2 _ It) as [_ FX]. pose proof (FX Z0 _ Ie Q) as KF.
      split; [auto|]. split; [auto|]. split; [auto|]. intros [Y|Y]; rewrite KF in Y; discriminate Y.
Qed.

(* ---------- a task starts ---------- *)
Lemma filter_nonempty_len : forall (p : Z -> bool) l, (Z.of_nat (length (filter p l)) =? 0) = false -> filter p l <> [].
Proof. intros p l H X. rewrite X in H. discriminate H. Qed.

Lemma low_activate : forall st t, tr_ok st -> low st -> In t (s_tasks st) -> t_phase t = 0 -> low (activate st t).
Proof.
  intros st t T L It Ph. pose proof L as (_ & _ & _ & _ & _ & _ & _ & TK). destruct (TK _ It) as (_ & P1 & _).
  specialize (P1 Ph). unfold activate.
  assert (FIN : forall err, low (finish_task st t err)) by (intro err; apply low_finish_task; auto using low_lowx).
  destruct (zget (s_blobs st) (t_blob t)) as [[repl nt]|]; [|apply FIN].
  destruct (nt <=? t_tract t); [apply FIN|].
  destruct (tget (s_dtr st) (tkey (t_blob t) (t_tract t))) as [[dv hosts]|] eqn:Et; [|apply FIN].
  destruct (t_kind t =? 5) eqn:K5.
  - set (ok := filter (fun h => negb (zmem h (t_bad t))) hosts).
    destruct (Z.of_nat (length ok) =? 0) eqn:L0; [apply FIN|]. destruct (Z.of_nat (length ok) =? Z.of_nat (length hosts)); [apply FIN|].
    destruct (negb (subset ok (known_of st (t_gen t)))); [apply FIN|].
    apply (low_launch st t _ (fun h => mk_setversion (t_gen t) h (t_blob t) (t_tract t) (dv + 1)) ok); auto using low_lowx.
    + intros h Ih. split; [cbn; lia|]. split; [|intro Y; discriminate Y]. intros _ dv0 H0 E0 V. cbn in E0, V. unfold rtk in E0. cbn in E0. rewrite Et in E0. inversion E0; subst.
      cbn. unfold ok in Ih. apply filter_In in Ih as [Ih _]. exact Ih.
    + intros OWN NOW BK. split; [cbn; auto|]. split; [cbn; intro Y; discriminate Y|]. split; [cbn; intros _ _; now apply filter_nonempty_len|]. split.
      * intros _. cbn [t_op t_wait t_ok]. split; [rewrite NOW; lia|]. intros h Ih. right. exact (OWN h Ih).
      * cbn. intro Y; discriminate Y.
  - destruct (negb (zmem (t_badts t) hosts)); [apply FIN|]. destruct (negb (t_cliver t =? dv)); [apply FIN|].
    destruct (negb (subset hosts (known_of st (t_gen t)))); [apply FIN|].
    apply (low_launch st t _ (fun h => mk_setversion (t_gen t) h (t_blob t) (t_tract t) (dv + 1)) hosts); auto using low_lowx.
    + intros h Ih. split; [cbn; lia|]. split; [|intro Y; discriminate Y]. intros _ dv0 H0 E0 V. cbn in E0, V. unfold rtk in E0. cbn in E0. rewrite Et in E0. inversion E0; subst. exact Ih.
    + intros OWN NOW BK. split; [cbn; auto|]. split; [cbn; intro Y; discriminate Y|]. split; [cbn; intro Y; discriminate Y|]. split.
      * intros _. cbn [t_op t_wait t_ok]. split; [rewrite NOW; lia|]. intros h Ih. right. exact (OWN h Ih).
      * cbn. intro Y; discriminate Y.
Qed.

Lemma low_wake : forall n st, tr_ok st -> low st -> low (wake n st).
Proof.
  induction n; intros st T L; [exact L|]. unfold wake; fold wake.
  destruct (find _ (s_tasks st)) as [t|] eqn:F; [|exact L].
  apply find_some in F as [It Pt]. apply andb_true_iff in Pt as [Pt _]. apply Z.eqb_eq in Pt.
  apply IHn; [exact (proj1 (machT_activate st t It T)) | apply low_activate; auto].
Qed.

Lemma low_add_task : forall st t, low st -> t_phase t = 0 -> ~ In (t_op t) (map t_op (s_tasks st)) -> t_op t <> 0 -> - s_nsynth st <= t_op t ->
  low (set_tasks st (s_tasks st ++ [t])).
Proof.
  intros st t (R1 & HV & PS & E & PE & ID & OW & TK) Ph FR NZ NS. destruct OW as (O1 & O2 & O3 & O4).
  assert (NOOWN : owned st (t_op t) = []).
  { unfold owned. destruct (filter _ (s_pool st)) as [|e l] eqn:F; auto. exfalso.
    assert (I : In e (filter (fun e0 => p_owner e0 =? t_op t) (s_pool st))) by (rewrite F; left; auto).
    apply filter_In in I as [I Q]. apply Z.eqb_eq in Q. destruct (O2 _ I ltac:(congruence)) as (y & Iy & Oy).
    apply FR. rewrite <- Q, <- Oy. now apply in_map. }
  split; [exact R1|]. split; [exact HV|]. split; [exact PS|]. split; [exact E|]. split; [exact PE|]. split; [exact ID|]. split.
  - split; [|split; [|split; [|exact O4]]].
    + cbn. rewrite map_app. cbn. apply nodup_app_one; auto.
    + intros e I N0. destruct (O2 _ I N0) as (y & Iy & Oy). exists y. split; auto. cbn. apply in_or_app. auto.
    + intros y Iy. cbn in Iy. apply in_app_or in Iy as [Iy|[Iy|[]]]; [auto|]. subst y. auto.
  - intros y Iy. cbn in Iy. apply in_app_or in Iy as [Iy|[Iy|[]]]; [exact (TK _ Iy)|]. subst y.
    split; [auto|]. split; [intros _; exact NOOWN|]. split; [intros _ Y; lia|]. split; intro Y; rewrite Ph in Y; discriminate Y.
Qed.

Lemma low_start_task : forall st t, tr_ok st -> low st ->
  t_rpc t < s_next st -> (t_rpc t <> 0 -> forall e, In e (s_pool st) -> p_id e = t_rpc t -> k_kind (p_rpc e) = K_FixVersion) ->
  t_phase t = 0 -> ~ In (t_op t) (map t_op (s_tasks st)) -> t_op t <> 0 -> - s_nsynth st <= t_op t ->
  low (start_task st t).
Proof.
  intros st t T L RL RF Ph FR NZ NS. unfold start_task.
  set (st1 := set_tasks st (s_tasks st ++ [t])).
  assert (L1 : low st1) by (apply low_add_task; auto).
  assert (T1 : tr_ok st1).
  { destruct T as (T0 & T1 & T2). split; [exact T0|]. split; [exact T1|]. intros x Ix. cbn in Ix. apply in_app_or in Ix as [Ix|[Ix|[]]]; [exact (T2 _ Ix)|]. subst x. auto. }
  assert (It : In t (s_tasks st1)) by (cbn; apply in_or_app; right; left; reflexivity).
  destruct (_ && _).
  - apply low_finish_task; auto using low_lowx.
  - apply low_wake; auto.
Qed.

(* ---------- a reply reaches its task ---------- *)
Definition tk_okm (st : state) (t : task) : Prop :=
  (t_phase t = 1 \/ t_phase t = 2) /\ (t_kind t = 5 -> t_ok t <> []) /\
  (t_phase t = 1 -> nown st (t_op t) <= t_wait t - 1 /\
     forall h, In h (t_ok t) -> bumpedk st h (ttk t) (t_dv t + 1) \/ own_rpc st (t_op t) (sv_of t h)) /\
  (t_phase t = 2 -> nown st (t_op t) <= t_wait t - 1 /\
     (forall h, In h (t_ok t) -> bumpedk st h (ttk t) (t_dv t + 1)) /\
     forall n, In n (t_new t) -> bumpedk st n (ttk t) (t_dv t + 1) \/ own_rpc st (t_op t) (pl_of t n)).

Lemma find_task_op : forall ts op t, find_task ts op = Some t -> t_op t = op.
Proof.
  induction ts as [|a l IH]; intros op t H; cbn in H; [discriminate|].
  destruct (t_op a =? op) eqn:E; [inversion H; subst; now apply Z.eqb_eq in E | eauto].
Qed.
Lemma find_task_none : forall ts op, find_task ts op = None -> forall t, In t ts -> t_op t <> op.
Proof.
  induction ts as [|a l IH]; intros op H t I; [destruct I|]. cbn in H.
  destruct (t_op a =? op) eqn:E; [discriminate|]. destruct I as [I|I]; [subst; now apply Z.eqb_neq in E | eauto].
Qed.

Lemma nown_zero : forall st op r, nown st op <= 0 -> own_rpc st op r -> False.
Proof.
  intros st op r N (e & I & O & _). unfold nown, owned in N.
  assert (X : In e (filter (fun e0 => p_owner e0 =? op) (s_pool st))) by (apply filter_In; split; auto; now apply Z.eqb_eq).
  destruct (filter _ (s_pool st)); [destruct X | cbn in N; lia].
Qed.
Lemma nown_zero_nil : forall st op, nown st op <= 0 -> owned st op = [].
Proof. intros st op N. unfold nown in N. destruct (owned st op); [reflexivity | cbn in N; lia]. Qed.

Lemma low_upd_task : forall st t t', lowx st (t_op t) -> In t (s_tasks st) -> t_op t' = t_op t -> tk_ok st t' ->
  low (set_tasks st (upd_task (s_tasks st) t')).
Proof.
  intros st t t' (R1 & HV & PS & E & PE & ID & OW & TK) It OP TK'. destruct OW as (O1 & O2 & O3 & O4).
  split; [exact R1|]. split; [exact HV|]. split; [exact PS|]. split; [exact E|]. split; [exact PE|]. split; [exact ID|]. split.
  - unfold lOW. cbn [s_tasks s_pool s_nsynth set_tasks]. rewrite upd_task_ops. split; [exact O1|]. split; [|split; [|exact O4]].
    + intros e I NZ. destruct (O2 _ I NZ) as (y & Iy & Oy).
      assert (IM : In (t_op y) (map t_op (upd_task (s_tasks st) t'))) by (rewrite upd_task_ops; now apply in_map).
      apply in_map_iff in IM as (y' & Ey & Iy'). exists y'. split; auto. congruence.
    + intros x Ix. apply upd_task_in in Ix as [[Ex _]|[Ix _]]; [|auto]. subst x. rewrite OP. auto.
  - intros x Ix. cbn in Ix. apply upd_task_in in Ix as [[Ex _]|[Ix NOP]]; [subst x; exact TK'|]. rewrite OP in NOP. exact (TK _ Ix NOP).
Qed.

Lemma subset_in : forall a b h, subset a b = true -> In h a -> In h b.
Proof. intros a b h S I. unfold subset in S. rewrite forallb_forall in S. apply zmem_in. auto. Qed.

Lemma lowx_commit : forall st t hosts dv hs,
  win_ok st -> lowx st (t_op t) -> tget (s_dtr st) (ttk t) = Some (dv, hs) -> t_dv t = dv ->
  (forall h, In h hosts -> bumpedk st h (ttk t) (dv + 1)) ->
  lowx (set_dtr st (tset (s_dtr st) (ttk t) (dv + 1, hosts))) (t_op t).
Proof.
  intros st t hosts dv hs (U1 & U2 & U3) (R1 & HV & PS & E & PE & ID & OW & TK) Et TD BH.
  split; [exact R1|]. split; [|split; [|split; [exact E|split; [exact PE|split; [exact ID|split; [exact OW|exact TK]]]]]].
  - intros tk dv' H' h Et' Ih. cbn [s_dtr set_dtr] in Et'. destruct (tk_eqb tk (ttk t)) eqn:Q.
    + apply tk_eqb_eq in Q. subst tk. rewrite tget_tset_same in Et'. inversion Et'; subst. apply BH. exact Ih.
    + rewrite tget_tset_other in Et' by (intro Y; subst tk; rewrite tk_eqb_refl in Q; discriminate). exact (HV _ _ _ _ Et' Ih).
  - intros e I Kd dv' H' Et' V. cbn [s_dtr set_dtr] in Et'. destruct (tk_eqb (rtk (p_rpc e)) (ttk t)) eqn:Q.
    + apply tk_eqb_eq in Q. rewrite Q, tget_tset_same in Et'. inversion Et'; subst.
      destruct (U2 _ I (or_introl Kd)) as (dv0 & H0 & E0 & L0). rewrite Q, Et in E0. inversion E0; subst. lia.
    + rewrite tget_tset_other in Et' by (intro Y; rewrite Y, tk_eqb_refl in Q; discriminate). eapply PS; eauto.
Qed.

Lemma insert_sorted_nonempty : forall x l, insert_sorted x l <> [].
Proof. intros x l. destruct l as [|a l]; cbn; [discriminate|]. destruct (x <? a); [discriminate|]. destruct (x =? a); discriminate. Qed.
Lemma sorted_nonempty : forall l, l <> [] -> fold_right insert_sorted [] l <> [].
Proof. intros l N. destruct l as [|a l]; [contradiction|]. cbn. apply insert_sorted_nonempty. Qed.

Lemma is_perm_in : forall a b h, is_perm a b = true -> In h a -> In h b.
Proof.
  intros a b h P I. unfold is_perm in P. apply andb_true_iff in P as [P _]. apply andb_true_iff in P as [_ P]. eapply subset_in; eauto.
Qed.

Lemma low_task_reply : forall st op err hint,
  win_ok st -> tr_ok st -> lowx st op ->
  (forall t, find_task (s_tasks st) op = Some t -> err = cl_NoError -> tk_okm st t) ->
  low (task_reply st op err hint).
Proof.
  intros st op err hint0 I2 T LX KM. unfold task_reply.
  destruct (find_task (s_tasks st) op) as [t|] eqn:F.
  2: { destruct LX as (R1 & HV & PS & E & PE & ID & OW & TK). split; [exact R1|]. split; [exact HV|]. split; [exact PS|]. split; [exact E|].
       split; [exact PE|]. split; [exact ID|]. split; [exact OW|]. intros t It. apply TK; auto. eapply find_task_none; eauto. }
  pose proof (find_task_in _ _ _ F) as It. pose proof (find_task_op _ _ _ F) as OP. subst op.
  assert (FINW : forall err0, low (wake 8 (finish_task st t err0))).
  { intro err0. apply low_wake; [exact (proj1 (machT_finish_task st t err0 It T)) | apply low_finish_task; auto]. }
  destruct (negb (err =? cl_NoError)) eqn:NE; [apply FINW|].
  apply negb_false_iff in NE. apply Z.eqb_eq in NE. destruct (KM _ eq_refl NE) as (PH & PK & P2 & P3).
  destruct (1 <? t_wait t) eqn:W1.
  { apply Z.ltb_lt in W1. apply (low_upd_task st t); auto.
    split; [cbn; tauto|]. split; [cbn; intro Y; destruct PH as [PH|PH]; rewrite PH in Y; discriminate Y|]. split; [cbn; intros K _; auto|]. cbn [t_phase t_op t_wait t_ok t_new t_dv]. split.
    - intros Ph. destruct (P2 Ph) as [C X]. split; [exact C|]. exact X.
    - intros Ph. destruct (P3 Ph) as (C & X & Y). split; [exact C|]. split; [exact X | exact Y]. }
  apply Z.ltb_ge in W1.
  destruct ((t_kind t =? 5) && (t_phase t =? 1)) eqn:KP.
  { apply andb_true_iff in KP as [K5 P1]. apply Z.eqb_eq in K5, P1. destruct (P2 P1) as [C X].
    assert (NZ : nown st (t_op t) <= 0) by lia.
    assert (BOK : forall h, In h (t_ok t) -> bumpedk st h (ttk t) (t_dv t + 1)).
    { intros h Ih. destruct (X h Ih) as [B|O]; [exact B | exfalso; eapply nown_zero; eauto]. }
    destruct (_ || _); [apply FINW|].
    destruct (negb _) eqn:HS; [apply FINW|]. apply negb_false_iff in HS. apply andb_true_iff in HS as [HS _]. apply andb_true_iff in HS as [HL _]. apply Z.eqb_eq in HL.
    apply (low_launch st t _ (fun h => mk_pull (t_gen t) h (t_blob t) (t_tract t) (t_dv t + 1) (t_ok t)) (before_sep hint0)); auto using nown_zero_nil.
    - intros h Ih. split; [cbn; lia|]. split; [intro Y; discriminate Y|]. intros _. cbn. split; [apply sorted_nonempty; auto | reflexivity].
    - intros OWN NOW BK. split; [cbn; auto|]. split; [cbn; intro Y; discriminate Y|]. split; [cbn; intros _ _; auto|]. split; [cbn; intro Y; discriminate Y|].
      intros _. cbn [t_op t_wait t_ok t_new t_dv]. split; [rewrite NOW; lia|]. split.
      + intros h Ih. apply BK. exact (BOK h Ih).
      + intros n In'. right. exact (OWN n In'). }
  (* commit *)
  set (hosts0 := if t_kind t =? 5 then t_ok t ++ t_new t else t_ok t) in *.
  set (hosts := if is_perm (after_sep hint0) hosts0 then after_sep hint0 else hosts0) in *.
  assert (NZ : nown st (t_op t) <= 0) by (destruct PH as [PH|PH]; [destruct (P2 PH) | destruct (P3 PH)]; lia).
  assert (B0 : forall h, In h hosts0 -> bumpedk st h (ttk t) (t_dv t + 1)).
  { intros h Ih. unfold hosts0 in Ih. destruct PH as [PH|PH].
    - destruct (P2 PH) as [_ X]. assert (Ih' : In h (t_ok t)).
      { destruct (t_kind t =? 5) eqn:K5; [|exact Ih]. rewrite PH in KP. cbn in KP. discriminate KP. }
      destruct (X h Ih') as [B|O]; [exact B | exfalso; eapply nown_zero; eauto].
    - destruct (P3 PH) as (_ & X & Y).
      assert (Ih' : In h (t_ok t) \/ In h (t_new t)) by (destruct (t_kind t =? 5); [apply in_app_or; exact Ih | left; exact Ih]).
      destruct Ih' as [Ih'|Ih']; [exact (X h Ih')|]. destruct (Y h Ih') as [B|O]; [exact B | exfalso; eapply nown_zero; eauto]. }
  assert (BH : forall h, In h hosts -> bumpedk st h (ttk t) (t_dv t + 1)).
  { intros h Ih. unfold hosts in Ih. destruct (is_perm (after_sep hint0) hosts0) eqn:PM; [apply B0; eapply is_perm_in; eauto | apply B0; exact Ih]. }
  destruct (change_tract st (t_term t) (t_blob t) (t_tract t) (t_dv t + 1) hosts) as [st1 ee] eqn:CT.
  destruct (change_tract_cases _ _ _ _ _ _ _ _ CT) as [E1|(dv & hs & G & V & E1)]; subst st1; [apply FINW|].
  assert (TD : t_dv t = dv) by lia.
  pose proof (lowx_commit st t hosts dv hs I2 LX G TD) as LC. rewrite <- TD in LC. specialize (LC BH).
  set (st1 := set_dtr st (tset (s_dtr st) (t_blob t, t_tract t) (t_dv t + 1, hosts))) in *.
  assert (T1 : tr_ok st1) by exact T.
  apply low_wake; [exact (proj1 (machT_finish_task st1 t ee It T1)) | apply low_finish_task; auto].
Qed.

(* ---------- pool entries keep their id and request; an owner can only be cleared ---------- *)
Definition omono (st st' : state) : Prop :=
  s_next st <= s_next st' /\
  forall y', In y' (s_pool st') -> p_id y' < s_next st ->
    exists y, In y (s_pool st) /\ p_id y = p_id y' /\ p_rpc y = p_rpc y' /\ (p_owner y' = p_owner y \/ p_owner y' = 0).

Lemma omono_refl : forall st, omono st st.
Proof. intros st. split; [lia|]. intros y I _. exists y. auto. Qed.

Lemma omono_trans : forall a b c, omono a b -> omono b c -> omono a c.
Proof.
  intros a b c [N1 H1] [N2 H2]. split; [lia|]. intros y3 I3 L3.
  destruct (H2 _ I3 ltac:(lia)) as (y2 & I2 & E2 & R2 & O2). destruct (H1 _ I2 ltac:(lia)) as (y1 & I1 & E1 & R1 & O1).
  exists y1. split; auto. split; [congruence|]. split; [congruence|]. destruct O2 as [O2|O2]; [rewrite O2; exact O1 | right; exact O2].
Qed.

Lemma omono_pool_map : forall st st' (g : pent -> pent), s_next st' = s_next st -> s_pool st' = map g (s_pool st) ->
  (forall e, p_id (g e) = p_id e /\ p_rpc (g e) = p_rpc e /\ (p_owner (g e) = p_owner e \/ p_owner (g e) = 0)) -> omono st st'.
Proof.
  intros st st' g N P G. split; [lia|]. intros y' I _. rewrite P in I. apply in_map_iff in I as (y & E & I). subst y'.
  destruct (G y) as (A & B & C). exists y. auto.
Qed.

Lemma omono_sub : forall st st', s_next st <= s_next st' -> (forall y, In y (s_pool st') -> In y (s_pool st) \/ s_next st <= p_id y) -> omono st st'.
Proof.
  intros st st' N P. split; auto. intros y I L. destruct (P _ I) as [X|X]; [exists y; auto | lia].
Qed.

Lemma omono_issue_cur : forall st r o, omono st (issue_cur st r o).
Proof.
  intros. apply omono_sub; [cbn; lia|]. intros y I. cbn in I. apply in_app_or in I as [I|[I|[]]]; auto. subst y. right. cbn. lia.
Qed.
Lemma omono_fold_issue : forall (f : Z -> rpc) o l st, omono st (fold_left (fun s h => issue_cur s (f h) o) l st).
Proof. induction l; intros; cbn [fold_left]; [apply omono_refl|]. eapply omono_trans; [apply omono_issue_cur | apply IHl]. Qed.

Lemma omono_finish_task : forall st t err, omono st (finish_task st t err).
Proof.
  intros. unfold finish_task.
  set (g1 := fun e : pent => if p_owner e =? t_op t
                             then {| p_id := p_id e; p_rpc := p_rpc e; p_st := p_st e; p_res := p_res e; p_tr := p_tr e;
                                     p_lose := p_lose e; p_auto := p_auto e; p_owner := 0 |} else e).
  set (g2 := fun e : pent => if p_id e =? t_rpc t
                             then {| p_id := p_id e; p_rpc := p_rpc e; p_st := 2; p_res := [err]; p_tr := p_tr e;
                                     p_lose := p_lose e; p_auto := p_auto e; p_owner := p_owner e |} else e).
  assert (G1 : forall e, p_id (g1 e) = p_id e /\ p_rpc (g1 e) = p_rpc e /\ (p_owner (g1 e) = p_owner e \/ p_owner (g1 e) = 0)).
  { intro e; unfold g1; destruct (p_owner e =? t_op t); cbn; auto. }
  assert (G2 : forall e, p_id (g2 e) = p_id e /\ p_rpc (g2 e) = p_rpc e /\ p_owner (g2 e) = p_owner e).
  { intro e; unfold g2; destruct (p_id e =? t_rpc t); cbn; auto. }
  destruct (t_rpc t =? 0).
  - apply (omono_pool_map _ _ g1); auto.
  - apply (omono_pool_map _ _ (fun e => g2 (g1 e))); auto; [cbn; now rewrite map_map|].
    intros e. destruct (G1 e) as (A & B & C). destruct (G2 (g1 e)) as (A2 & B2 & C2). rewrite A2, B2, C2. auto.
Qed.

Lemma omono_same_pool : forall st st', s_next st' = s_next st -> s_pool st' = s_pool st -> omono st st'.
Proof. intros st st' N P. apply omono_sub; [lia|]. intros y I. rewrite P in I. auto. Qed.

Lemma omono_activate : forall st t, omono st (activate st t).
Proof.
  intros. unfold activate. brk; try apply omono_finish_task;
    (eapply omono_trans; [|apply omono_fold_issue]; apply omono_same_pool; reflexivity).
Qed.
Lemma omono_wake : forall n st, omono st (wake n st).
Proof. induction n; intros; [apply omono_refl|]. unfold wake; fold wake. destruct (find _ _); [|apply omono_refl]. eapply omono_trans; [apply omono_activate | apply IHn]. Qed.
Lemma omono_start_task : forall st t, omono st (start_task st t).
Proof.
  intros. unfold start_task. destruct (_ && _).
  - eapply omono_trans; [|apply omono_finish_task]. apply omono_same_pool; reflexivity.
  - eapply omono_trans; [|apply omono_wake]. apply omono_same_pool; reflexivity.
Qed.
Lemma omono_change_tract : forall st term b t v h, omono st (fst (change_tract st term b t v h)).
Proof. intros. unfold change_tract. brk; cbn [fst]; try apply omono_refl. apply omono_same_pool; reflexivity. Qed.
Lemma omono_task_reply : forall st op err hint, omono st (task_reply st op err hint).
Proof.
  intros. unfold task_reply. destruct (find_task _ _) as [t|]; [|apply omono_refl].
  destruct (negb _). { eapply omono_trans; [apply omono_finish_task | apply omono_wake]. }
  destruct (1 <? t_wait t). { apply omono_same_pool; reflexivity. }
  destruct (_ && _).
  { destruct (_ || _). { eapply omono_trans; [apply omono_finish_task | apply omono_wake]. }
    destruct (negb _). { eapply omono_trans; [apply omono_finish_task | apply omono_wake]. }
    eapply omono_trans; [|apply omono_fold_issue]. apply omono_same_pool; reflexivity. }
  match goal with |- context [change_tract ?a ?b ?c ?d ?e ?f] =>
    pose proof (omono_change_tract a b c d e f) as MC; destruct (change_tract a b c d e f) as [st1 ee] end.
  cbn [fst] in MC. eapply omono_trans; [exact MC|]. eapply omono_trans; [apply omono_finish_task | apply omono_wake].
Qed.
Lemma omono_resume : forall st e d h, omono st (resume st e d h).
Proof.
  intros. unfold resume. set (st1 := set_pool st (pool_remove (s_pool st) (p_id e))).
  assert (M1 : omono st st1).
  { apply omono_sub; [cbn; lia|]. intros y I. cbn in I. unfold pool_remove in I. apply filter_In in I as [I _]. auto. }
  destruct (k_cli (p_rpc e) <? 0).
  - destruct (p_owner e =? 0); [exact M1|]. eapply omono_trans; [exact M1 | apply omono_task_reply].
  - eapply omono_trans; [exact M1|].
    set (st2 := if k_kind (p_rpc e) =? K_FixVersion then set_done st1 _ else st1).
    assert (F2 : s_next st2 = s_next st1 /\ s_pool st2 = s_pool st1) by (unfold st2; destruct (_ =? _); split; reflexivity).
    destruct F2 as [A B]. destruct d.
    + destruct (learn_fields st2 (p_rpc e) (p_res e) (p_tr e)) as (N & P & _). apply omono_same_pool; congruence.
    + apply omono_same_pool; auto.
Qed.
Lemma omono_flush : forall n st h, omono st (flush n st h).
Proof. induction n; intros; [apply omono_refl|]. unfold flush; fold flush. destruct (find _ _); [|apply omono_refl]. eapply omono_trans; [apply omono_resume | apply IHn]. Qed.

(* ---------- a reply is consumed ---------- *)
Lemma nodup_filter_ids : forall (p : pent -> bool) l, NoDup (map p_id l) -> NoDup (map p_id (filter p l)).
Proof.
  induction l as [|a l IH]; intros ND; cbn; auto. cbn in ND. inversion ND; subst.
  destruct (p a); cbn; auto. constructor; auto. intro X. apply H1. apply in_map_iff in X as (y & E & I).
  apply filter_In in I as [I _]. rewrite <- E. now apply in_map.
Qed.

Definition hstale (st : state) (e : pent) : Prop :=
  forall y, In y (s_pool st) -> p_id y = p_id e -> p_rpc y = p_rpc e /\ (p_owner y = p_owner e \/ p_owner y = 0).

Lemma lowx_remove : forall st id op, low st ->
  (forall y, In y (s_pool st) -> p_id y = id -> p_owner y = op \/ p_owner y = 0) ->
  lowx (set_pool st (pool_remove (s_pool st) id)) op.
Proof.
  intros st id op (R1 & HV & PS & E & PE & ID & OW & TK) HO. destruct OW as (O1 & O2 & O3 & O4 & O5).
  set (st1 := set_pool st (pool_remove (s_pool st) id)).
  assert (SUB : forall y, In y (s_pool st1) -> In y (s_pool st) /\ p_id y <> id).
  { intros y I. cbn in I. unfold pool_remove in I. apply filter_In in I as [I N]. split; auto. apply negb_true_iff in N. now apply Z.eqb_neq in N. }
  split; [exact R1|]. split; [exact HV|]. split; [|split; [|split; [|split; [|split]]]].
  - intros e I. destruct (SUB _ I) as [I0 _]. exact (PS _ I0).
  - intros e I. destruct (SUB _ I) as [I0 _]. exact (E _ I0).
  - intros e I. destruct (SUB _ I) as [I0 _]. exact (PE _ I0).
  - unfold lID. cbn. unfold pool_remove. now apply nodup_filter_ids.
  - split; [exact O1|]. split; [|split; [exact O3|split; [exact O4|]]]; intros e I; destruct (SUB _ I) as [I0 _]; [exact (O2 _ I0) | exact (O5 _ I0)].
  - intros t It NOP. destruct (O3 _ It) as [NZ _]. apply (tk_ok_frame st); auto.
    + unfold owned. cbn [s_pool st1 set_pool]. unfold pool_remove.
      clear - HO NOP NZ. induction (s_pool st) as [|a l IH]; cbn; auto.
      assert (HO' : forall y, In y l -> p_id y = id -> p_owner y = op \/ p_owner y = 0) by (intros y I; apply HO; right; exact I).
      destruct (negb (p_id a =? id)) eqn:Q; cbn.
      * destruct (p_owner a =? t_op t); cbn; rewrite IH; auto.
      * apply negb_false_iff in Q. apply Z.eqb_eq in Q. destruct (HO a (or_introl eq_refl) Q) as [X|X]; rewrite X.
        -- destruct (op =? t_op t) eqn:Q2; [apply Z.eqb_eq in Q2; congruence|]. now apply IH.
        -- destruct (0 =? t_op t) eqn:Q2; [apply Z.eqb_eq in Q2; congruence|]. now apply IH.
    + intros r (e & Ie & Oe & Re). exists e. split; [|auto]. cbn. unfold pool_remove. apply filter_In. split; auto.
      apply negb_true_iff. apply Z.eqb_neq. intro X. destruct (HO _ Ie X) as [Y|Y]; congruence.
Qed.

Lemma low_ext : forall st st', s_reps st' = s_reps st -> s_dtr st' = s_dtr st -> s_pool st' = s_pool st ->
  s_tasks st' = s_tasks st -> s_nsynth st' = s_nsynth st -> low st -> low st'.
Proof.
  intros st st' R D P T S (R1 & HV & PS & E & PE & ID & OW & TK).
  assert (BK : forall h tk v, bumpedk st h tk v -> bumpedk st' h tk v) by (intros h tk v B; unfold bumpedk in *; rewrite R; exact B).
  split; [intros k r G; rewrite R in G; eauto|]. split; [|split; [|split; [|split; [|split; [|split]]]]].
  - intros tk dv H h Et Ih. rewrite D in Et. apply BK. eapply HV; eauto.
  - intros e I. rewrite P in I. rewrite D. exact (PS _ I).
  - intros e I Ce OKr. rewrite P in I. apply BK. auto.
  - intros e I. rewrite P in I. exact (PE _ I).
  - unfold lID. rewrite P. exact ID.
  - unfold lOW. rewrite T, P, S. exact OW.
  - intros t It. rewrite T in It. apply (tk_ok_frame st); auto.
    + unfold owned. now rewrite P.
    + intros r (e & Ie & Rest). exists e. rewrite P. auto.
Qed.

Lemma nown_remove : forall st e, NoDup (map p_id (s_pool st)) -> In e (s_pool st) ->
  nown (set_pool st (pool_remove (s_pool st) (p_id e))) (p_owner e) = nown st (p_owner e) - 1.
Proof.
  intros st e ND Ie. unfold nown, owned. cbn [s_pool set_pool]. unfold pool_remove.
  induction (s_pool st) as [|a l IH]; [destruct Ie|]. cbn in ND. inversion ND; subst.
  destruct Ie as [Ie|Ie].
  - subst a. cbn. rewrite Z.eqb_refl. cbn. rewrite Z.eqb_refl. cbn [length].
    replace (filter (fun x => negb (p_id x =? p_id e)) l) with l; [lia|].
    symmetry. clear - H1. induction l as [|b l IH]; cbn; auto.
    destruct (p_id b =? p_id e) eqn:Q; [apply Z.eqb_eq in Q; exfalso; apply H1; left; auto|]. cbn. f_equal. apply IH. intro X. apply H1. right. exact X.
  - cbn. destruct (p_id a =? p_id e) eqn:Q; [apply Z.eqb_eq in Q; exfalso; apply H1; rewrite Q; now apply in_map|]. cbn.
    destruct (p_owner a =? p_owner e); cbn [length]; rewrite !Nat2Z.inj_succ || idtac; specialize (IH H2 Ie); lia.
Qed.

Lemma win_pool_remove : forall st id, dur_ok st -> win_ok st -> win_ok (set_pool st (pool_remove (s_pool st) id)).
Proof. intros st id D W. eapply step2_win; [apply calm_step2, calm_pool_remove | exact D | exact W]. Qed.

Lemma tr_ok_remove : forall st id, tr_ok st -> tr_ok (set_pool st (pool_remove (s_pool st) id)).
Proof.
  intros st id (T0 & T1 & T2). split; [exact T0|]. split.
  - intros x Ix. cbn in Ix. unfold pool_remove in Ix. apply filter_In in Ix as [Ix _]. auto.
  - intros t It. destruct (T2 _ It) as [L F]. split; auto. intros NZ x Ix. cbn in Ix. unfold pool_remove in Ix. apply filter_In in Ix as [Ix _]. eauto.
Qed.

Lemma learn_fields2 : forall s r res tr,
  s_reps (client_learns s r res tr) = s_reps s /\ s_dtr (client_learns s r res tr) = s_dtr s /\ s_nsynth (client_learns s r res tr) = s_nsynth s.
Proof. intros. unfold client_learns. brk; auto. Qed.

Lemma lowx0_low : forall st, lowx st 0 -> low st.
Proof.
  intros st (R1 & HV & PS & E & PE & ID & OW & TK). split; [exact R1|]. split; [exact HV|]. split; [exact PS|]. split; [exact E|].
  split; [exact PE|]. split; [exact ID|]. split; [exact OW|]. intros t It. apply TK; auto. destruct OW as (_ & _ & O3 & _). destruct (O3 _ It). auto.
Qed.

Lemma low_resume : forall st e d h, Inv2 st -> tr_ok st -> low st -> hstale st e ->
  (d = true -> In e (s_pool st) /\ p_st e = 2) -> low (resume st e d h).
Proof.
  intros st e d h I2 T L HS PD. pose proof L as (R1 & HV & PS & E & PE & ID & OW & TK). pose proof OW as (O1 & O2 & O3 & O4 & O5).
  pose proof I2 as [[Ds _] W]. unfold resume.
  set (st1 := set_pool st (pool_remove (s_pool st) (p_id e))).
  destruct (k_cli (p_rpc e) <? 0) eqn:KC.
  - destruct (p_owner e =? 0) eqn:OZ.
    + apply Z.eqb_eq in OZ. apply lowx0_low. apply lowx_remove; auto. intros y Iy Ey. destruct (HS _ Iy Ey) as [_ [X|X]]; [rewrite OZ in X|]; auto.
    + apply Z.eqb_neq in OZ. apply low_task_reply.
      * apply win_pool_remove; auto.
      * now apply tr_ok_remove.
      * apply lowx_remove; auto. intros y Iy Ey. destruct (HS _ Iy Ey) as [_ X]. exact X.
      * intros t F ERR. destruct d.
        2: { exfalso. discriminate ERR. }
        destruct (PD eq_refl) as [Ie P2].
        assert (OKR : okres e).
        { split; auto. destruct (p_res e) as [|c r]; cbn in ERR |- *; [discriminate ERR | exact ERR]. }
        change (s_tasks st1) with (s_tasks st) in F.
        pose proof (find_task_in _ _ _ F) as It. pose proof (find_task_op _ _ _ F) as OP.
        destruct (TK _ It) as (P0 & P1 & PK & P2' & P3).
        assert (NOW : nown st1 (t_op t) = nown st (t_op t) - 1) by (rewrite OP; apply nown_remove; auto).
        assert (PHN : t_phase t <> 0).
        { intro Z0. specialize (P1 Z0). unfold owned in P1.
          assert (X : In e (filter (fun e0 => p_owner e0 =? t_op t) (s_pool st))) by (apply filter_In; split; auto; rewrite OP; apply Z.eqb_refl).
          rewrite P1 in X. destruct X. }
        assert (KEEP : forall r, own_rpc st (t_op t) r -> p_rpc e = r \/ own_rpc st1 (t_op t) r).
        { intros r (e' & Ie' & Oe' & Re'). destruct (Z.eq_dec (p_id e') (p_id e)) as [X|X].
          - left. assert (e' = e) by (eapply uniq_pid; eauto). subst e'. exact Re'.
          - right. exists e'. split; [|auto]. cbn. unfold pool_remove. apply filter_In. split; auto. apply negb_true_iff. now apply Z.eqb_neq. }
        split; [destruct P0 as [X|[X|X]]; [contradiction | auto | auto]|]. split; [intros K5; apply PK; auto; destruct P0 as [X|[X|X]]; lia|]. split.
        -- intros Ph. destruct (P2' Ph) as [C X]. split; [lia|]. intros h0 Ih. destruct (X h0 Ih) as [B|O]; [left; exact B|].
           destruct (KEEP _ O) as [EQ|O1']; [|right; exact O1']. left.
           assert (B : bumpedk st (k_ts (p_rpc e)) (rtk (p_rpc e)) (k_ver (p_rpc e))) by (apply E; auto; left; rewrite EQ; reflexivity).
           rewrite EQ in B. exact B.
        -- intros Ph. destruct (P3 Ph) as (C & X & Y). split; [lia|]. split; [exact X|]. intros n In'. destruct (Y n In') as [B|O]; [left; exact B|].
           destruct (KEEP _ O) as [EQ|O1']; [|right; exact O1']. left.
           assert (B : bumpedk st (k_ts (p_rpc e)) (rtk (p_rpc e)) (k_ver (p_rpc e))) by (apply E; auto; right; rewrite EQ; reflexivity).
           rewrite EQ in B. exact B.
  - (* a client's request: nobody owns it *)
    apply Z.ltb_ge in KC.
    assert (L1 : low st1).
    { apply lowx0_low. apply lowx_remove; auto. intros y Iy Ey. destruct (HS _ Iy Ey) as [RY _]. right.
      destruct (Z.eq_dec (p_owner y) 0) as [X|X]; auto. specialize (O5 _ Iy X). rewrite RY in O5. lia. }
    set (st2 := if k_kind (p_rpc e) =? K_FixVersion then set_done st1 _ else st1).
    assert (L2 : low st2) by (unfold st2; destruct (_ =? _); [apply (low_ext st1); auto | exact L1]).
    destruct d; [|exact L2].
    destruct (learn_fields st2 (p_rpc e) (p_res e) (p_tr e)) as (_ & A & B). destruct (learn_fields2 st2 (p_rpc e) (p_res e) (p_tr e)) as (C & D & F).
    apply (low_ext st2); auto.
Qed.

Lemma hstale_in : forall st e, lID st -> In e (s_pool st) -> hstale st e.
Proof. intros st e ID Ie y Iy Ey. assert (y = e) by (eapply uniq_pid; eauto). subst y. auto. Qed.

Lemma hstale_omono : forall st st' x, omono st st' -> p_id x < s_next st -> hstale st x -> hstale st' x.
Proof.
  intros st st' x [N M] L HS y' Iy' Ey'. destruct (M _ Iy' ltac:(lia)) as (y & Iy & Ey & Ry & Oy).
  destruct (HS y Iy ltac:(congruence)) as [R O]. split; [congruence|]. destruct Oy as [Oy|Oy]; [rewrite Oy; exact O | right; exact Oy].
Qed.

Lemma low_flush : forall n st h, Inv2 st -> tr_ok st -> ops_uniq st -> low st -> low (flush n st h).
Proof.
  induction n; intros st h I2 T U L; [exact L|]. unfold flush; fold flush.
  destruct (find _ (s_pool st)) as [e|] eqn:F; [|exact L].
  apply find_some in F as [Ie Pe]. apply andb_true_iff in Pe as [Pe _]. apply Z.eqb_eq in Pe.
  assert (PD : negb (p_lose e) = true -> In e (s_pool st) /\ p_st e = 2) by (intros _; auto).
  destruct (machU_resume st e (negb (p_lose e)) h PD T U) as (T' & U' & _).
  apply IHn; auto.
  - apply inv2_resume; auto. intros x Hx. destruct I2 as [[_ (_ & _ & K3)] _]. now apply K3.
  - apply low_resume; auto. apply hstale_in; auto. apply L.
Qed.

Lemma low_fold_victims : forall victims s, Inv2 s -> tr_ok s -> ops_uniq s -> low s ->
  (forall x, In x victims -> tr_bound s (k_blob (p_rpc x)) (p_tr x)) ->
  (forall x, In x victims -> hstale s x /\ p_id x < s_next s) ->
  low (fold_left (fun s x => flush 8 (resume s x false []) []) victims s).
Proof.
  induction victims as [|v victims IH]; intros s I2 T U L TB HS; cbn [fold_left]; [exact L|].
  assert (PD : false = true -> In v (s_pool s) /\ p_st v = 2) by (intro Y; discriminate Y).
  destruct (machU_resume s v false [] PD T U) as (T1 & U1 & _).
  pose proof (inv2_resume s v false [] I2 (TB v (or_introl eq_refl))) as I3.
  pose proof (low_resume s v false [] I2 T L (proj1 (HS v (or_introl eq_refl))) PD) as L1.
  destruct (machU_flush 8 (resume s v false []) [] T1 U1) as (T2 & U2 & _).
  pose proof (inv2_flush 8 _ [] I3) as I4.
  pose proof (low_flush 8 _ [] I3 T1 U1 L1) as L2.
  assert (OM : omono s (flush 8 (resume s v false []) [])) by (eapply omono_trans; [apply omono_resume | apply omono_flush]).
  apply IH; auto.
  - intros x Hx y Hy. destruct I2 as [I W]. pose proof I as [D _].
    destruct (inv_resume s v false [] I (TB v (or_introl eq_refl))) as [I1 A1].
    destruct (inv_flush 8 _ [] I1) as [_ A2].
    apply (bound_advances s); [apply (advances_trans s (resume s v false [])); auto | exact D | apply (TB x (or_intror Hx) y Hy)].
  - intros x Hx. destruct (HS x (or_intror Hx)) as [H1 H2]. split; [eapply hstale_omono; eauto | destruct OM; lia].
Qed.

(* ---------- small steps ---------- *)
Lemma low_nsynth : forall st, low st -> low (set_nsynth st (s_nsynth st + 1)).
Proof.
  intros st (R1 & HV & PS & E & PE & ID & OW & TK). destruct OW as (O1 & O2 & O3 & O4 & O5).
  split; [exact R1|]. split; [exact HV|]. split; [exact PS|]. split; [exact E|]. split; [exact PE|]. split; [exact ID|]. split; [|exact TK].
  split; [exact O1|]. split; [exact O2|]. split; [|split; [cbn; lia | exact O5]].
  intros t It. destruct (O3 _ It) as [A B]. split; auto. cbn. lia.
Qed.

Lemma low_issue_client : forall st r, tr_ok st -> low st -> k_kind r <> K_SetVersion -> k_kind r <> K_PullTract -> low (issue st r 0).
Proof.
  intros st r (T0 & T1 & T2) (R1 & HV & PS & E & PE & ID & OW & TK) N1 N2. destruct OW as (O1 & O2 & O3 & O4 & O5).
  set (enew := {| p_id := s_next st; p_rpc := r; p_st := 0; p_res := []; p_tr := []; p_lose := false; p_auto := true; p_owner := 0 |}).
  assert (INP : forall e, In e (s_pool (issue st r 0)) -> In e (s_pool st) \/ e = enew).
  { intros e I. cbn in I. apply in_app_or in I as [I|[I|[]]]; auto. }
  split; [exact R1|]. split; [exact HV|]. split; [|split; [|split; [|split; [|split]]]].
  - intros e I Kd. destruct (INP _ I) as [X|X]; [exact (PS _ X Kd)|]. subst e. cbn in Kd. contradiction.
  - intros e I Ce OKr. destruct (INP _ I) as [X|X]; [exact (E _ X Ce OKr)|]. subst e. destruct OKr as [Y _]. unfold enew in Y. cbn in Y. discriminate Y.
  - intros e I Kd. destruct (INP _ I) as [X|X]; [exact (PE _ X Kd)|]. subst e. cbn in Kd. contradiction.
  - unfold lID. cbn. rewrite map_app. cbn. apply nodup_app_one; auto. intro X. apply in_map_iff in X as (y & Ey & Iy). specialize (T1 _ Iy). lia.
  - split; [exact O1|]. split; [|split; [exact O3|split; [exact O4|]]]; intros e I NZ; destruct (INP _ I) as [X|X]; auto; subst e; cbn in NZ; contradiction.
  - intros t It. destruct (O3 _ It) as [NZ _]. apply (tk_ok_frame st); auto.
    + unfold owned. cbn [s_pool issue set_next set_pool]. rewrite filter_app, app_length. cbn [filter p_owner]. destruct (0 =? t_op t) eqn:Q; [apply Z.eqb_eq in Q; congruence|]. cbn [length]. apply Nat.add_0_r.
    + intros r0 (e & Ie & Rest). exists e. split; [cbn; apply in_or_app; auto | auto].
Qed.

Lemma probe_nochange : forall st b t ver hosts dv dt, (dv =? 1) && (dt =? 0) = false ->
  tget (s_dtr st) (tkey b t) = Some (ver, hosts) ->
  fst (change_tract st (s_term st - dt) b t (ver + dv) hosts) = st.
Proof.
  intros st b t ver hosts dv dt C E. unfold change_tract.
  destruct (negb (s_term st - dt =? s_term st)) eqn:TT; [reflexivity|].
  apply negb_false_iff in TT. apply Z.eqb_eq in TT. assert (dt = 0) by lia. subst dt. rewrite Z.eqb_refl, andb_true_r in C.
  destruct (zget (s_blobs st) b) as [[repl nt]|]; [|reflexivity]. destruct (nt <? t); [reflexivity|]. rewrite E.
  destruct (negb (_ =? _)); [reflexivity|]. destruct (negb (ver + 1 =? ver + dv)) eqn:V; [reflexivity|].
  apply negb_false_iff in V. apply Z.eqb_eq in V. assert (dv = 1) by lia. subst dv. discriminate C.
Qed.

Lemma find_task_notin : forall ts op, find_task ts op = None -> ~ In op (map t_op ts).
Proof. intros ts op H I. apply in_map_iff in I as (t & E & It). exact (find_task_none _ _ H t It E). Qed.

Lemma post_b_again : forall st1 e oracle st1b res2 tr2, exec_rpc st1 e oracle = (st1b, res2, tr2) -> is_cur_ts (p_rpc e) ->
  bumpedk st1 (k_ts (p_rpc e)) (rtk (p_rpc e)) (k_ver (p_rpc e)) -> bumpedk st1b (k_ts (p_rpc e)) (rtk (p_rpc e)) (k_ver (p_rpc e)).
Proof.
  intros st1 e oracle st1b res2 tr2 X Ce B. unfold exec_rpc in X. unfold bumpedk, rtk in *.
  set (x := k_ts (p_rpc e)) in *. set (tk := tkey (k_blob (p_rpc e)) (k_tract (p_rpc e))) in *.
  destruct Ce as [K|K].
  - rewrite K in X. cbn in X. destruct (ts_setversion _ _ _ _ _) as [reps c] eqn:Sv. inversion X; subst. cbn [s_reps set_reps].
    pose proof (ts_setversion_frame _ _ _ _ _ _ _ Sv) as (F1 & F2 & F3). fold x tk in F2, F3.
    destruct (rget (s_reps st1) (x, tk)) as [r0|] eqn:G; [|rewrite (F2 eq_refl); exact I].
    destruct (F3 _ eq_refl) as (r' & G' & _ & L & _). rewrite G'. lia.
  - rewrite K in X. cbn in X. destruct (ts_pull _ _ _ _ _ _ _) as [reps c] eqn:Pl. inversion X; subst. cbn [s_reps set_reps].
    unfold ts_pull in Pl. fold x tk in Pl. destruct (negb (x =? aux_nth (p_rpc e) 0)); [inversion Pl; subst; exact B|].
    apply pull_loop_spec in Pl as [OTH [SAME|[PRE RES]]]; [rewrite SAME; exact B|].
    destruct RES as [RES|(src & s & GS & V & RES)]; rewrite RES; [exact I | cbn; lia].
Qed.

(* ---------- one event ---------- *)
Lemma low_step_exec : forall L st mode r,
  ok_ev L st (7 :: mode :: r) = true -> G st -> low st -> low (fst (step_exec st mode r)).
Proof.
  intros L st mode r OK (I2 & A & OO & AK & T & C) LW. pose proof OO as (U & _).
  unfold step_exec. cbn [ok_ev] in OK. change (7 =? 3) with false in OK. change (7 =? 4) with false in OK.
  change ((7 =? 5) || (7 =? 6)) with false in OK. change (7 =? 7) with true in OK. cbv iota in OK.
  destruct (parse_rpc r) as [[rp r1]|]; [|exact LW].
  destruct r1 as [|nh r2]; [exact LW|].
  destruct (take nh r2) as [place r3].
  destruct (find_pent (s_pool st) rp 0) as [e|] eqn:F; [|exact LW].
  pose proof (find_pent_eq _ _ _ _ F) as ERP. pose proof (find_pent_st _ _ _ _ F) as EST. apply find_pent_in in F.
  apply andb_true_iff in OK as [OK OKP]. apply andb_true_iff in OK as [OKM OKC].
  set (hint := place ++ [-1] ++ match r3 with nd :: r4 => fst (take nd r4) | [] => [] end).
  assert (TBe : tr_bound st (k_blob (p_rpc e)) (p_tr e)) by (intros x Hx; destruct I2 as [[_ (_ & _ & K3)] _]; now apply K3).
  assert (HSe : hstale st e) by (apply hstale_in; auto; apply LW).
  assert (SD0 : (mode =? 4) = false -> side_ok st e).
  { intro M4. rewrite <- ERP in OKC, OKP. rewrite M4 in OKC, OKP. cbn in OKC, OKP. split; [|split].
    - intros K. rewrite K, Z.eqb_refl in OKC. apply negb_true_iff in OKC. unfold durable in OKC. unfold rtk.
      destruct (tget (s_dtr st) _); [discriminate | reflexivity].
    - intros K. rewrite K, Z.eqb_refl in OKP. now apply negb_true_iff in OKP.
    - intros K dv H Et. destruct LW as (_ & HV & PS & _). split.
      + intros V. eapply PS; eauto.
      + intros r0 Ih G0. specialize (HV _ _ _ _ Et Ih). unfold bumpedk in HV. rewrite G0 in HV. exact HV. }
  destruct (mode =? 4) eqn:M4.
  { cbn [fst].
    assert (PD : false = true -> In e (s_pool st) /\ p_st e = 2) by (intro Y; discriminate Y).
    destruct (machU_resume st e false hint PD T U) as (T1 & U1 & _).
    apply low_flush; auto; [apply inv2_resume; auto | apply low_resume; auto]. }
  destruct (mode =? 6) eqn:M6.
  { exfalso. apply Z.eqb_eq in M6. pose proof (mode_ok_cases _ _ OKM). lia. }
  destruct (k_kind rp =? K_FixVersion) eqn:KF.
  { cbn [fst]. apply Z.eqb_eq in KF.
    set (e2 := set_pent e 1 [] [] (mode =? 2) (negb (mode =? 5))).
    set (sa := set_pool st (pool_update (s_pool st) e2)).
    set (sb := set_nsynth sa (s_nsynth st + 1)).
    assert (Ja : Inv2 sa) by (split; [apply inv_pool_update; auto using tr_bound_nil; apply I2 | apply win_pool_update; auto; apply I2]).
    assert (Jb : Inv2 sb) by exact Ja.
    assert (La : low sa) by (apply low_upd; auto; intro Y; discriminate Y).
    assert (Lb : low sb) by (apply (low_nsynth sa); exact La).
    assert (Tb : tr_ok sb) by (apply (tr_ok_upd st st); auto; repeat split).
    assert (Ub : ops_uniq sb) by exact U.
    set (t := new_task (- (s_nsynth st + 1)) 6 (s_gen st) (s_term st) (k_blob rp) (k_tract rp) [] (k_ver rp) (aux_nth rp 0) (p_id e)).
    assert (RL : t_rpc t < s_next sb) by (cbn; destruct T as (_ & T1 & _); apply T1; exact F).
    assert (RF : t_rpc t <> 0 -> forall x, In x (s_pool sb) -> p_id x = t_rpc t -> k_kind (p_rpc x) = K_FixVersion).
    { intros _ x Ix Id. cbn in Ix, Id. unfold pool_update in Ix. apply in_map_iff in Ix as (y & Ey & Iy).
      destruct (p_id y =? p_id e2) eqn:Q; subst x; [cbn; rewrite ERP; exact KF|]. apply Z.eqb_neq in Q. cbn in Q. contradiction. }
    assert (Ls : low (start_task sb t)).
    { destruct LW as (_ & _ & _ & _ & _ & _ & (_ & _ & O3 & O4 & _) & _).
      apply low_start_task; auto; cbn; try lia.
      intro X. apply in_map_iff in X as (y & Ey & Iy). destruct (O3 _ Iy) as [_ B]. lia. }
    assert (Js : Inv2 (start_task sb t)).
    { eapply inv2_calm; [apply calm_start_task; apply new_task_phase | | exact Jb].
      apply (inv_quiet sb); [apply quiet_start_task | exact (proj1 Jb)]. }
    destruct (machU_of _ _ (machT_start_task sb t RL RF) (keeps_start_task sb t) Tb Ub) as (Ts & Us & _).
    apply low_flush; auto. }
  destruct (exec_rpc st e place) as [[st1 res] tr] eqn:X1.
  specialize (SD0 eq_refl).
  destruct (mode =? 3) eqn:M3.
  { destruct (exec_rpc st1 e place) as [[st1b res2] tr2] eqn:X2. cbn [fst].
    destruct (exec_low st e place st1 res tr I2 LW F SD0 X1) as (L1 & PB & (FP & FT & FN & FS)).
    destruct (cinv_exec_upd2 st e place st1 res tr st1b res2 tr2 (mode =? 2) (negb (mode =? 5)) I2 OO T C F EST SD0 X1 X2) as [_ T2].
    pose proof I2 as [I W].
    destruct (inv_exec _ _ _ _ _ _ I X1) as (E1 & P1 & TB1).
    assert (J1 : Inv2 st1) by (split; [exact (evolves_inv _ _ E1 I) | exact (win_exec _ _ _ _ _ _ I2 F X1)]).
    assert (F1 : In e (s_pool st1)) by (rewrite P1; exact F).
    pose proof (side_ok_again _ _ _ _ _ _ X1 SD0) as SD1.
    destruct (exec_low st1 e place st1b res2 tr2 J1 L1 F1 SD1 X2) as (L1b & _ & (FP2 & FT2 & FN2 & FS2)).
    destruct (inv_exec _ _ _ _ _ _ (proj1 J1) X2) as (E2 & P2 & TB2).
    assert (J1b : Inv2 st1b) by (split; [exact (evolves_inv _ _ E2 (proj1 J1)) | exact (win_exec _ _ _ _ _ _ J1 F1 X2)]).
    set (st2 := set_pool st1b (pool_update (s_pool st1b) (set_pent e 2 res tr (mode =? 2) (negb (mode =? 5))))) in *.
    assert (J2 : Inv2 st2).
    { split; [apply inv_pool_update; [exact (proj1 J1b) | rewrite P2; exact F1 |] | apply win_pool_update; [exact (proj2 J1b) | rewrite P2; exact F1]].
      intros x Hx. destruct J1 as [[D1 _] _]. eapply bound_advances; [apply evolves_advances; exact E2 | exact D1 | apply (TB1 _ Hx)]. }
    assert (U2 : ops_uniq st2).
    { destruct (exec_misc _ _ _ _ _ _ X1) as (_ & O1 & _). destruct (exec_misc _ _ _ _ _ _ X2) as (_ & O2 & _).
      apply (ops_uniq_same st); auto. cbn. congruence. }
    apply low_flush; auto. apply low_upd; [exact L1b | rewrite FP2; exact F1 | intros _].
    (* the copy did not fall back during the second execution *)
    intros Ce OKc. specialize (PB Ce OKc). eapply post_b_again; eauto. }
  cbn [fst].
  destruct (exec_low st e place st1 res tr I2 LW F SD0 X1) as (L1 & PB & (FP & FT & FN & FS)).
  destruct (cinv_exec_upd st e place st1 res tr (mode =? 2) (negb (mode =? 5)) I2 OO T C F EST SD0 X1) as [_ T2].
  pose proof I2 as [I W].
  destruct (inv_exec _ _ _ _ _ _ I X1) as (E1 & P1 & TB1).
  assert (J1 : Inv2 st1) by (split; [exact (evolves_inv _ _ E1 I) | exact (win_exec _ _ _ _ _ _ I2 F X1)]).
  set (st2 := set_pool st1 (pool_update (s_pool st1) (set_pent e 2 res tr (mode =? 2) (negb (mode =? 5))))) in *.
  assert (J2 : Inv2 st2).
  { split; [apply inv_pool_update; [exact (proj1 J1) | rewrite P1; exact F | exact TB1] | apply win_pool_update; [exact (proj2 J1) | rewrite P1; exact F]]. }
  assert (U2 : ops_uniq st2).
  { destruct (exec_misc _ _ _ _ _ _ X1) as (_ & O1 & _). apply (ops_uniq_same st); auto. }
  apply low_flush; auto. apply low_upd; [exact L1 | rewrite FP; exact F | intros _; exact PB].
Qed.

Theorem low_step : forall L st ev, ok_ev L st ev = true -> G st -> low st -> low (fst (step st ev)).
Proof.
  intros L st ev OK0 G0 L0. unfold step.
  assert (OK : ok_ev L (set_out st []) ev = true) by exact OK0.
  assert (GS : G (set_out st [])) by exact G0.
  assert (LW : low (set_out st [])) by exact L0. clear OK0 G0 L0.
  set (s := set_out st []) in *. clearbody s.
  pose proof GS as (I2 & A & OO & AK & T & C). pose proof OO as (U & _).
  destruct ev as [|c a]; [exact LW|]. unfold ok_ev in OK.
  destruct (c =? 1) eqn:C1. { destruct a; exact LW. }
  destruct (c =? 2) eqn:C2. { destruct a as [|x [|y [|z a]]]; try exact LW. destruct (zget (s_blobs s) x); exact LW. }
  destruct (c =? 3) eqn:C3. { destruct a as [|x1 [|x2 [|x3 [|x4 [|x5 [|x6 [|x7 a]]]]]]]; exact LW. }
  destruct (c =? 4) eqn:C4. { destruct a as [|x1 [|x2 [|x3 [|x4 [|x5 [|x6 a]]]]]]; exact LW. }
  assert (START : forall op kind blob tract bad cliver badts,
            (0 <? op) && match find_task (s_tasks s) op with None => true | Some _ => false end = true ->
            low (flush 8 (start_task s (new_task op kind (s_gen s) (s_term s) blob tract bad cliver badts 0)) [])).
  { intros op kind blob tract bad cliver badts FR. apply andb_true_iff in FR as [F1 F2]. apply Z.ltb_lt in F1.
    destruct (find_task (s_tasks s) op) eqn:FT; [discriminate|].
    set (t := new_task op kind (s_gen s) (s_term s) blob tract bad cliver badts 0).
    assert (RL : t_rpc t < s_next s) by (cbn; destruct T as (T0 & _); lia).
    assert (RF : t_rpc t <> 0 -> forall x, In x (s_pool s) -> p_id x = t_rpc t -> k_kind (p_rpc x) = K_FixVersion) by (intro X; cbn in X; contradiction).
    assert (Ls : low (start_task s t)).
    { pose proof LW as (_ & _ & _ & _ & _ & _ & (_ & _ & _ & O4 & _) & _). apply low_start_task; auto; cbn; try lia. now apply find_task_notin. }
    assert (Js : Inv2 (start_task s t)).
    { eapply inv2_calm; [apply calm_start_task; apply new_task_phase | | exact I2]. apply (inv_quiet s); [apply quiet_start_task | exact (proj1 I2)]. }
    destruct (machU_of _ _ (machT_start_task s t RL RF) (keeps_start_task s t) T U) as (Ts & Us & _).
    apply low_flush; auto. }
  destruct (c =? 5) eqn:C5.
  { cbn [orb] in OK. destruct a as [|x1 [|x2 [|x3 [|x4 [|x5 a]]]]]; try exact LW. destruct (take x5 a) as [bad rest]. cbn [fst]. apply START. exact OK. }
  destruct (c =? 6) eqn:C6.
  { cbn [orb] in OK. destruct a as [|x1 [|x2 [|x3 [|x4 [|x5 [|x6 [|x7 a]]]]]]]; try exact LW. cbn [fst]. apply START. exact OK. }
  cbn [orb] in OK.
  destruct (c =? 7) eqn:C7.
  { destruct a as [|mode rest]; [exact LW|]. apply Z.eqb_eq in C7. subst c. apply (low_step_exec L); auto. }
  destruct (c =? 8) eqn:C8.
  { destruct a as [|lose r]; [exact LW|]. unfold step_reply.
    destruct (parse_rpc r) as [[rp r1]|]; [|exact LW].
    destruct (find_pent (s_pool s) rp 2) as [e|] eqn:F; [|exact LW]. cbn [fst].
    pose proof (find_pent_st _ _ _ _ F) as EST. apply find_pent_in in F.
    match goal with |- low (flush 8 (resume s e ?d ?h) ?h) => set (dd := d); set (hh := h) end.
    assert (PD : dd = true -> In e (s_pool s) /\ p_st e = 2) by (intros _; auto).
    destruct (machU_resume s e dd hh PD T U) as (T1 & U1 & _).
    apply low_flush; auto.
    - apply inv2_resume; auto. intros x Hx. destruct I2 as [[_ (_ & _ & K3)] _]. now apply K3.
    - apply low_resume; auto. apply hstale_in; auto. apply LW. }
  destruct (c =? 9) eqn:C9.
  { destruct a as [|ts [|y a]]; try exact LW. unfold step_restart. cbn [fst].
    apply low_fold_victims; auto.
    - apply victims_bound. exact (proj1 I2).
    - intros x Ix. apply filter_In in Ix as [Ix _]. split; [apply hstale_in; auto; apply LW | destruct T as (_ & T1 & _); auto]. }
  destruct (c =? 10) eqn:C10. { destruct a; exact LW. }
  destruct (c =? 11) eqn:C11. { destruct a as [|ts [|y a]]; exact LW. }
  destruct (c =? 12) eqn:C12.
  { destruct a as [|x1 [|x2 [|x3 [|x4 [|x5 a]]]]]; try exact LW. unfold step_probe.
    destruct (tget (s_dtr s) (tkey x1 x2)) as [[ver hosts]|] eqn:Et; [|exact LW].
    destruct ((x3 =? 1) && (x4 =? 0)) eqn:PR; [exact LW|].
    pose proof (probe_nochange s x1 x2 ver hosts x3 x4 PR Et) as NC.
    destruct (change_tract s (s_term s - x4) x1 x2 (ver + x3) hosts) as [s1 cc]. cbn [fst] in *. subst s1. exact LW. }
  destruct (c =? 13) eqn:C13.
  { unfold step_issue. destruct (parse_rpc a) as [[rp r1]|]; [|exact LW].
    destruct (issue_allowed s rp) eqn:IA; [|exact LW]. cbn [fst].
    unfold issue_allowed in IA. apply andb_true_iff in IA as [IA _]. apply andb_true_iff in IA as [_ CK].
    apply low_issue_client; auto; intro X; rewrite X in CK; discriminate CK. }
  destruct (c =? 14) eqn:C14.
  { destruct a as [|x1 [|x2 [|x3 a]]]; try exact LW. unfold step_finclient.
    repeat match goal with
           | |- context [match ?x with _ => _ end] => destruct x eqn:?
           | |- context [if ?x then _ else _] => destruct x eqn:?
           end; exact LW. }
  destruct (c =? 15) eqn:C15. { destruct a as [|op [|y a]]; try exact LW. destruct (zget (s_fin s) op); exact LW. }
  destruct (c =? 16) eqn:C16.
  { unfold step_rpcdone. repeat match goal with |- context [match ?x with _ => _ end] => destruct x eqn:? end; exact LW. }
  destruct (c =? 17) eqn:C17. { discriminate. }
  exact LW.
Qed.

(* ---------- along a schedule ---------- *)
Lemma low_lwp : forall st, low st -> lwp st.
Proof.
  intros st (_ & HV & PS & _). split.
  - intros tk dv H x r0 E I G. specialize (HV _ _ _ _ E I). unfold bumpedk in HV. rewrite G in HV. exact HV.
  - intros e dv H I K E V. eapply PS; eauto.
Qed.

Lemma low_init : low init_state.
Proof.
  split; [intros k r G; discriminate G|]. split; [intros tk dv H h E; discriminate E|]. split; [intros e I; destruct I|].
  split; [intros e I; destruct I|]. split; [intros e I; destruct I|]. split; [constructor|]. split.
  - split; [constructor|]. split; [intros e I; destruct I|]. split; [intros t I; destruct I|]. split; [cbn; lia | intros e I; destruct I].
  - intros t I. destruct I.
Qed.

Theorem GL_run : forall L evs st, ok_run L st evs = true -> G st -> low st -> G (run_state st evs) /\ low (run_state st evs).
Proof.
  induction evs as [|ev evs IH]; intros st OK GS LS; [split; assumption|].
  cbn in OK. apply andb_true_iff in OK as [OK1 OK2]. cbn [run_state]. apply IH; auto.
  - eapply G_step; eauto. now apply low_lwp.
  - eapply low_step; eauto.
Qed.

(* host_version_window, lower half, and its consequence: acknowledged writes are visible *)
Theorem lower_window : forall L evs, ok_run L init_state evs = true ->
  let st := run_state init_state evs in
  forall tk dv H h r, tget (s_dtr st) tk = Some (dv, H) -> In h H -> rget (s_reps st) (h, tk) = Some r -> dv <= r_ver r.
Proof.
  intros L evs OK st tk dv H h r E I G. destruct (GL_run L evs init_state OK G_init low_init) as [_ LS].
  destruct (low_lwp _ LS) as [HV _]. eapply HV; eauto.
Qed.

Theorem acked_visible_run : forall L evs, ok_run L init_state evs = true ->
  forall b j h p, 0 <= p < TL -> vis_ok (run_state init_state evs) b j h p = true.
Proof.
  intros L evs OK b j h p P. destruct (GL_run L evs init_state OK G_init low_init) as [GS _]. now apply vis_of_G.
Qed.

Theorem hosts_contain_acked : forall L evs, ok_run L init_state evs = true ->
  let st := run_state init_state evs in
  forall b wid W j dv H g r,
    In (b, wid, W) (s_acked st) -> tget (s_dtr st) (b, j) = Some (dv, H) -> rget (s_reps st) (g, (b, j)) = Some r ->
    (In g H /\ r_ver r = dv) \/ r_ver r = dv + 1 ->
    0 < snd (seg_of (w_off W) (w_len W) j) -> In (rec_in wid W j) (r_app r).
Proof.
  intros L evs OK st. destruct (GL_run L evs init_state OK G_init low_init) as [(_ & _ & _ & _ & _ & V1 & _) _]. exact V1.
Qed.
