(* Cluster/Order.v — single-writer order.  Under the schedule discipline of Sched.ok_ev every replica's list
   of applied writes is ordered by write id (newest first) and write ids are ordered like the attempts, so the
   byte a replica shows at a position is the id of the NEWEST attempt among the records it holds there. *)
From Coq Require Import List ZArith Bool Lia Sorted.
From BLB Require Import Gen.Consts Cluster.Model Cluster.Proofs Cluster.Frame Cluster.Attempts Cluster.Sched.
Import ListNotations.
Open Scope Z_scope.

Arguments flush : simpl never.
Arguments wake : simpl never.
Arguments start_task : simpl never.
Arguments resume : simpl never.
Arguments exec_rpc : simpl never.
Arguments task_reply : simpl never.
Arguments activate : simpl never.
Arguments finish_task : simpl never.

(* ---------- where the applied list of a replica comes from when one RPC executes ---------- *)
Definition appsrc (reps reps' : list (rkey * replica)) (key : rkey) (nw : wrec) : Prop :=
  forall k r', rget reps' k = Some r' ->
    (exists k0 r0, snd k0 = snd k /\ rget reps k0 = Some r0 /\ r_app r' = r_app r0) \/
    (k = key /\ 0 < w_len nw /\ exists r0, rget reps k = Some r0 /\ r_app r' = nw :: r_app r0) \/
    (k = key /\ 0 < w_len nw /\ rget reps k = None /\ r_app r' = [nw]) \/
    r_app r' = [].

Definition appcopy (reps reps' : list (rkey * replica)) : Prop :=
  forall k r', rget reps' k = Some r' ->
    (exists k0 r0, snd k0 = snd k /\ rget reps k0 = Some r0 /\ r_app r' = r_app r0) \/ r_app r' = [].

Lemma appcopy_refl : forall reps, appcopy reps reps.
Proof. intros reps k r' G. left. exists k, r'. auto. Qed.

Lemma appcopy_trans : forall a b c, appcopy a b -> appcopy b c -> appcopy a c.
Proof.
  intros a b c H1 H2 k r' G. destruct (H2 _ _ G) as [(k1 & r1 & S1 & G1 & E1)|N]; [|right; exact N].
  destruct (H1 _ _ G1) as [(k0 & r0 & S0 & G0 & E0)|N]; [left; exists k0, r0; repeat split; auto; congruence | right; congruence].
Qed.

Lemma appcopy_other : forall reps reps' key,
  same_except reps reps' key ->
  (forall r', rget reps' key = Some r' -> (exists k0 r0, snd k0 = snd key /\ rget reps k0 = Some r0 /\ r_app r' = r_app r0) \/ r_app r' = []) ->
  appcopy reps reps'.
Proof.
  intros reps reps' key S H k r' G. destruct (rk_eqb k key) eqn:E.
  - apply rk_eqb_eq in E. subst. auto.
  - left. exists k, r'. repeat split; auto. rewrite <- (S k); auto. intro X. subst. rewrite rk_eqb_refl in E. discriminate.
Qed.

Lemma appcopy_setversion : forall reps ts tsid tk nv reps' c,
  ts_setversion reps ts tsid tk nv = (reps', c) -> appcopy reps reps'.
Proof.
  intros. pose proof (ts_setversion_frame _ _ _ _ _ _ _ H) as (A & B & C).
  apply (appcopy_other _ _ (ts, tk)); [exact A|]. intros r' G.
  destruct (rget reps (ts, tk)) as [r|] eqn:G0.
  - destruct (C r eq_refl) as (r2 & G2 & AP & _). rewrite G in G2. inversion G2; subst. left. exists (ts, tk), r. auto.
  - rewrite (B eq_refl) in G. discriminate.
Qed.

Lemma appcopy_pull_once : forall reps nts ts tk ver src reps' e,
  pull_once reps nts ts tk ver src = (reps', e) -> appcopy reps reps'.
Proof.
  intros reps nts ts tk ver src reps' e H.
  apply (appcopy_other _ _ (ts, tk)); [eapply pull_once_frame; eauto|]. intros r' G. unfold pull_once in H.
  destruct (rget reps (ts, tk)) as [r|] eqn:G0.
  - destruct (ver <? r_ver r).
    + inversion H; subst. left. exists (ts, tk), r. rewrite G0 in G. inversion G; subst. auto.
    + destruct ((src <=? 0) || (nts <? src)). { inversion H; subst. rewrite rget_rdel_same in G. discriminate. }
      destruct (rget (rdel reps (ts, tk)) (src, tk)) as [s|] eqn:GS.
      * destruct (r_ver s =? ver); inversion H; subst.
        -- rewrite rget_rset_same in G. inversion G; subst. cbn.
           destruct (rk_eqb (src, tk) (ts, tk)) eqn:E2.
           ++ apply rk_eqb_eq in E2. inversion E2; subst. rewrite rget_rdel_same in GS. discriminate.
           ++ left. exists (src, tk), s. repeat split; auto. rewrite <- GS. symmetry. apply rget_rdel_other.
              intro X. rewrite X, rk_eqb_refl in E2. discriminate.
        -- rewrite rget_rdel_same in G. discriminate.
      * inversion H; subst. rewrite rget_rdel_same in G. discriminate.
  - destruct ((src <=? 0) || (nts <? src)). { inversion H; subst. rewrite G0 in G. discriminate. }
    destruct (rget reps (src, tk)) as [s|] eqn:GS.
    + destruct (r_ver s =? ver); inversion H; subst.
      * rewrite rget_rset_same in G. inversion G; subst. cbn. left. exists (src, tk), s. auto.
      * rewrite G0 in G. discriminate.
    + inversion H; subst. rewrite G0 in G. discriminate.
Qed.

Lemma appcopy_pull_loop : forall srcs reps nts ts tk ver last reps' e,
  pull_loop reps nts ts tk ver srcs last = (reps', e) -> appcopy reps reps'.
Proof.
  induction srcs as [|s srcs IH]; intros reps nts ts tk ver last reps' e H.
  - inversion H; subst. apply appcopy_refl.
  - cbn in H. destruct (pull_once reps nts ts tk ver s) as [r1 e1] eqn:P. apply appcopy_pull_once in P.
    destruct (e1 =? cl_NoError); [inversion H; subst; auto|]. eapply appcopy_trans; eauto.
Qed.

Lemma appcopy_pull_crash : forall srcs reps nts ts tk ver, appcopy reps (pull_crash reps nts ts tk ver srcs).
Proof.
  induction srcs as [|s srcs IH]; intros reps nts ts tk ver; [apply appcopy_refl|].
  cbn. destruct (pull_once reps nts ts tk ver s) as [r1 e1] eqn:P. apply appcopy_pull_once in P.
  destruct (e1 =? cl_NoError).
  - eapply appcopy_trans; [exact P|]. apply (appcopy_other _ _ (ts, tk)).
    + intros k' Hk. now apply rget_rset_other.
    + intros r' G. rewrite rget_rset_same in G. inversion G; subst. right. reflexivity.
  - eapply appcopy_trans; eauto.
Qed.

Lemma appsrc_of_copy : forall reps reps' key nw, appcopy reps reps' -> appsrc reps reps' key nw.
Proof. intros reps reps' key nw H k r' G. destruct (H _ _ G) as [X|X]; auto. Qed.

Lemma appsrc_write : forall reps ts tk ver wid off len reps' c,
  ts_write reps ts tk ver wid off len = (reps', c) -> appsrc reps reps' (ts, tk) (mkw wid off len).
Proof.
  intros reps ts tk ver wid off len reps' c H k r' G. unfold ts_write in H.
  destruct (rget reps (ts, tk)) as [r|] eqn:G0.
  - destruct (r_ver r =? ver); inversion H; subst.
    + destruct (rk_eqb k (ts, tk)) eqn:E.
      * apply rk_eqb_eq in E. subst k. rewrite rget_rset_same in G. inversion G; subst. cbn. unfold app_write.
        destruct (len <=? 0) eqn:L.
        -- left. exists (ts, tk), r. auto.
        -- apply Z.leb_gt in L. right. left. repeat split; auto. exists r. auto.
      * left. exists k, r'. repeat split; auto. rewrite <- G. symmetry. apply rget_rset_other. intro X. subst. rewrite rk_eqb_refl in E. discriminate.
    + left. exists k, r'. auto.
  - inversion H; subst. left. exists k, r'. auto.
Qed.

Lemma appsrc_create : forall reps ts tsid tk wid off len reps' c,
  ts_create reps ts tsid tk wid off len = (reps', c) -> appsrc reps reps' (ts, tk) (mkw wid off len).
Proof.
  intros reps ts tsid tk wid off len reps' c H. unfold ts_create in H.
  destruct (negb (ts =? tsid)). { inversion H; subst. intros k r' G. left. exists k, r'. auto. }
  destruct (rget reps (ts, tk)) as [r|] eqn:G0; [eapply appsrc_write; eauto|].
  inversion H; subst. intros k r' G.
  destruct (rk_eqb k (ts, tk)) eqn:E.
  - apply rk_eqb_eq in E. subst k. rewrite rget_rset_same in G. inversion G; subst. cbn. unfold app_write.
    destruct (len <=? 0) eqn:L; [right; right; right; reflexivity|].
    apply Z.leb_gt in L. right. right. left. repeat split; auto.
  - left. exists k, r'. repeat split; auto. rewrite <- G. symmetry. apply rget_rset_other. intro X. subst. rewrite rk_eqb_refl in E. discriminate.
Qed.

Definition rec_of (r : rpc) : wrec := mkw (k_wid r) (k_off r) (k_len r).

Lemma exec_appsrc : forall st e oracle st' res tr, exec_rpc st e oracle = (st', res, tr) ->
  (wkind (p_rpc e) -> appsrc (s_reps st) (s_reps st') (rpc_key_of (p_rpc e)) (rec_of (p_rpc e))) /\
  (~ wkind (p_rpc e) -> appcopy (s_reps st) (s_reps st')).
Proof.
  intros st e oracle st' res tr H. unfold exec_rpc in H. unfold rpc_key_of, wkind, rec_of.
  destruct (k_kind (p_rpc e) =? K_Write) eqn:KW.
  { destruct (ts_write _ _ _ _ _ _ _) as [reps c] eqn:W. inversion H; subst; cbn [s_reps set_reps].
    apply Z.eqb_eq in KW. split; [intros _; eapply appsrc_write; eauto | intros N; exfalso; auto]. }
  destruct (k_kind (p_rpc e) =? K_Create) eqn:KC.
  { destruct (ts_create _ _ _ _ _ _ _) as [reps c] eqn:W. inversion H; subst; cbn [s_reps set_reps].
    apply Z.eqb_eq in KC. split; [intros _; eapply appsrc_create; eauto | intros N; exfalso; auto]. }
  apply Z.eqb_neq in KW, KC.
  assert (CP : appcopy (s_reps st) (s_reps st')).
  { destruct (k_kind (p_rpc e) =? K_Read).
    { destruct (ts_read _ _ _ _ _ _) as [[c n] runs]. inversion H; subst. apply appcopy_refl. }
    destruct (k_kind (p_rpc e) =? K_SetVersion).
    { destruct (ts_setversion _ _ _ _ _) as [reps c] eqn:W. inversion H; subst; cbn [s_reps set_reps]. eapply appcopy_setversion; eauto. }
    destruct (k_kind (p_rpc e) =? K_PullTract).
    { destruct (ts_pull _ _ _ _ _ _ _) as [reps c] eqn:W. inversion H; subst; cbn [s_reps set_reps].
      unfold ts_pull in W. destruct (negb _); [inversion W; subst; apply appcopy_refl | eapply appcopy_pull_loop; eauto]. }
    assert (SAME : s_reps st' = s_reps st).
    { destruct (k_kind (p_rpc e) =? K_StatBlob).
      { destruct (zget (s_blobs st) (k_blob (p_rpc e))) as [[a b]|]; inversion H; subst; reflexivity. }
      destruct (k_kind (p_rpc e) =? K_GetTracts). { destruct (exec_gettracts st (p_rpc e)). inversion H; subst; reflexivity. }
      destruct (k_kind (p_rpc e) =? K_ExtendBlob). { destruct (exec_extend st (p_rpc e) oracle). inversion H; subst; reflexivity. }
      destruct (k_kind (p_rpc e) =? K_AckExtend).
      { pose proof (reps_ack_extend st (k_blob (p_rpc e)) (decode_tracts false (k_aux (p_rpc e)))) as R.
        destruct (ack_extend _ _ _) as [s1 c]. inversion H; subst. exact R. }
      destruct (k_kind (p_rpc e) =? K_ReportBadTS); inversion H; subst; reflexivity. }
    rewrite SAME. apply appcopy_refl. }
  split; [intros [K|K]; contradiction | intros _; exact CP].
Qed.

(* ---------- the operations in progress keep their identity through the machinery ---------- *)
Definition opsig (o : cop) := (o_id o, o_kind o, o_cli o, o_blob o, o_off o, o_len o, o_wid o).
Definition sigs (st : state) := map opsig (s_ops st).

Lemma sigs_upd_op : forall ops o succ acked reads,
  map opsig (upd_op ops (set_op_fields o succ acked reads)) = map opsig ops \/ True.
Proof. auto. Qed.

Lemma map_opsig_upd : forall ops o succ acked reads, In o ops ->
  (forall x y, In x ops -> In y ops -> o_id x = o_id y -> opsig x = opsig y) ->
  map opsig (upd_op ops (set_op_fields o succ acked reads)) = map opsig ops.
Proof.
  intros ops o succ acked reads IN U. unfold upd_op. rewrite map_map. apply map_ext_in. intros x Hx.
  destruct (o_id x =? o_id (set_op_fields o succ acked reads)) eqn:E; auto.
  apply Z.eqb_eq in E. cbn in E. change (opsig o = opsig x). symmetry. apply U; assumption.
Qed.

(* ids of operations in progress are unique *)
Definition ops_uniq (st : state) : Prop := NoDup (map o_id (s_ops st)) /\ NoDup (map o_cli (s_ops st)).

Lemma uniq_sig : forall ops, NoDup (map o_id ops) ->
  forall x y, In x ops -> In y ops -> o_id x = o_id y -> opsig x = opsig y.
Proof.
  induction ops as [|a ops IH]; intros ND x y Hx Hy E; [destruct Hx|].
  cbn in ND. inversion ND as [|? ? NI ND']; subst.
  destruct Hx as [Hx|Hx]; destruct Hy as [Hy|Hy]; subst; auto.
  - exfalso. apply NI. rewrite E. now apply in_map.
  - exfalso. apply NI. rewrite <- E. now apply in_map.
Qed.

Definition keeps (st st' : state) : Prop := still st st' /\ (ops_uniq st -> sigs st' = sigs st).

Lemma keeps_refl : forall st, keeps st st.
Proof. intros; split; [apply still_refl | auto]. Qed.

Lemma sigs_uniq : forall st st', sigs st' = sigs st -> ops_uniq st -> ops_uniq st'.
Proof.
  intros st st' E [U1 U2]. unfold sigs in E.
  assert (A : map o_id (s_ops st') = map o_id (s_ops st)).
  { replace (map o_id (s_ops st')) with (map (fun s => fst (fst (fst (fst (fst (fst s)))))) (map opsig (s_ops st'))) by (rewrite map_map; reflexivity).
    rewrite E, map_map. reflexivity. }
  assert (B : map o_cli (s_ops st') = map o_cli (s_ops st)).
  { replace (map o_cli (s_ops st')) with (map (fun s => snd (fst (fst (fst (fst s))))) (map opsig (s_ops st'))) by (rewrite map_map; reflexivity).
    rewrite E, map_map. reflexivity. }
  split; congruence.
Qed.

Lemma keeps_trans : forall a b c, keeps a b -> keeps b c -> keeps a c.
Proof.
  intros a b c [S1 G1] [S2 G2]. split; [eapply still_trans; eauto|].
  intros U. rewrite G2; [now apply G1|]. eapply sigs_uniq; [apply G1|]; auto.
Qed.

Lemma keeps_of_still_ops : forall st st', still st st' -> s_ops st' = s_ops st -> keeps st st'.
Proof. intros st st' S E. split; auto. intros _. unfold sigs. now rewrite E. Qed.

Lemma keeps_issue_cur : forall st r o, ~ wkind r -> keeps st (issue_cur st r o).
Proof. intros. apply keeps_of_still_ops; [now apply still_issue_cur | reflexivity]. Qed.

Lemma ops_fold_issue : forall (f : Z -> rpc) o l st, s_ops (fold_left (fun s h => issue_cur s (f h) o) l st) = s_ops st.
Proof. induction l; intros; cbn; auto. rewrite IHl. reflexivity. Qed.

Lemma ops_finish_task : forall st t e, s_ops (finish_task st t e) = s_ops st.
Proof. intros; unfold finish_task; brk; reflexivity. Qed.

Lemma ops_activate : forall st t, s_ops (activate st t) = s_ops st.
Proof. intros; unfold activate; brk; try apply ops_finish_task; rewrite ops_fold_issue; reflexivity. Qed.

Lemma ops_wake : forall n st, s_ops (wake n st) = s_ops st.
Proof. induction n; intros; [reflexivity|]. unfold wake; fold wake. destruct (find _ _); auto. rewrite IHn. apply ops_activate. Qed.

Lemma ops_start_task : forall st t, s_ops (start_task st t) = s_ops st.
Proof. intros; unfold start_task; brk; [rewrite ops_finish_task | rewrite ops_wake]; reflexivity. Qed.

Lemma ops_change_tract : forall st term b t v h, s_ops (fst (change_tract st term b t v h)) = s_ops st.
Proof. intros; unfold change_tract; brk; reflexivity. Qed.

Lemma ops_task_reply : forall st op err hint, s_ops (task_reply st op err hint) = s_ops st.
Proof.
  intros; unfold task_reply.
  destruct (find_task (s_tasks st) op) as [t|]; auto.
  destruct (negb (err =? cl_NoError)). { rewrite ops_wake. apply ops_finish_task. }
  destruct (1 <? t_wait t). { reflexivity. }
  destruct ((t_kind t =? 5) && (t_phase t =? 1)).
  - brk; try (rewrite ops_wake; apply ops_finish_task). rewrite ops_fold_issue. reflexivity.
  - match goal with |- context [change_tract ?a ?b ?c ?d ?e ?f] =>
      pose proof (ops_change_tract a b c d e f) as H; destruct (change_tract a b c d e f) as [st1 e1] end.
    cbn in H. rewrite ops_wake, ops_finish_task. exact H.
Qed.

Lemma keeps_start_task : forall st t, keeps st (start_task st t).
Proof. intros. apply keeps_of_still_ops; [apply still_start_task | apply ops_start_task]. Qed.

Lemma keeps_task_reply : forall st op err hint, keeps st (task_reply st op err hint).
Proof. intros. apply keeps_of_still_ops; [apply still_task_reply | apply ops_task_reply]. Qed.

Lemma keeps_client_learns : forall st r res tr, keeps st (client_learns st r res tr).
Proof.
  intros. split; [apply still_client_learns|]. intros [U _]. unfold sigs, client_learns.
  destruct res as [|cls payload]; auto.
  destruct (k_kind r =? K_GetTracts). { destruct (negb _); reflexivity. }
  destruct (k_kind r =? K_ExtendBlob). { destruct (negb _); reflexivity. }
  destruct (op_of_client (s_ops st) (k_cli r)) as [o|] eqn:F; auto.
  apply op_of_client_in in F.
  repeat match goal with |- context [if ?x then _ else _] => destruct x eqn:? end; auto;
    cbn [s_ops set_ops]; apply map_opsig_upd; auto; apply uniq_sig; auto.
Qed.

Lemma keeps_resume : forall st e d h, keeps st (resume st e d h).
Proof.
  intros. unfold resume.
  set (st1 := set_pool st (pool_remove (s_pool st) (p_id e))).
  assert (K1 : keeps st st1).
  { apply keeps_of_still_ops; [|reflexivity]. repeat split; auto.
    - intros o H. exists o. repeat split; auto.
    - intros e' H. cbn in H. unfold pool_remove in H. apply filter_In in H as [H _]. left. exists e'. auto. }
  eapply keeps_trans; [exact K1|].
  destruct (k_cli (p_rpc e) <? 0).
  - destruct (p_owner e =? 0); [apply keeps_refl | apply keeps_task_reply].
  - set (st2 := if k_kind (p_rpc e) =? K_FixVersion then set_done st1 _ else st1).
    assert (K2 : keeps st1 st2) by (unfold st2; destruct (k_kind (p_rpc e) =? K_FixVersion); [apply keeps_of_still_ops; [apply still_same|]; reflexivity | apply keeps_refl]).
    eapply keeps_trans; [exact K2|]. destruct d; [apply keeps_client_learns | apply keeps_refl].
Qed.

Lemma keeps_flush : forall n st h, keeps st (flush n st h).
Proof.
  induction n; intros; [apply keeps_refl|]. unfold flush; fold flush.
  destruct (find _ (s_pool st)); [|apply keeps_refl].
  eapply keeps_trans; [apply keeps_resume | apply IHn].
Qed.

Lemma keeps_fold_victims : forall victims s,
  keeps s (fold_left (fun s x => flush 8 (resume s x false []) []) victims s).
Proof.
  induction victims; intros; cbn [fold_left]; [apply keeps_refl|].
  eapply keeps_trans; [eapply keeps_trans; [apply keeps_resume | apply keeps_flush] | apply IHvictims].
Qed.

(* ---------- the invariant ---------- *)
Definition sorted_app (l : list wrec) : Prop := StronglySorted (fun a b => w_id b <= w_id a) l.
Definition awid (x : Z * Z * wrec) : Z := snd (fst x).
Definition att_sorted (l : list (Z * Z * wrec)) : Prop := StronglySorted (fun x y => awid y < awid x) l.

Definition ord_ok (st : state) : Prop :=
  ops_uniq st /\
  att_sorted (s_att st) /\
  (forall k r, rget (s_reps st) k = Some r -> sorted_app (r_app r)) /\
  (forall e, In e (s_pool st) -> wkind (p_rpc e) -> 0 < k_len (p_rpc e) ->
     exists o, In o (s_ops st) /\ o_kind o = 3 /\ o_wid o = k_wid (p_rpc e) /\ o_cli o = k_cli (p_rpc e)) /\
  (forall o, In o (s_ops st) -> o_kind o = 3 -> forall x, In x (s_att st) -> awid x <= o_wid o) /\
  (forall o1 o2, In o1 (s_ops st) -> In o2 (s_ops st) -> o_kind o1 = 3 -> o_kind o2 = 3 -> o_id o1 = o_id o2).

Lemma sig_in : forall st st' o, sigs st' = sigs st -> In o (s_ops st) -> exists o', In o' (s_ops st') /\ opsig o' = opsig o.
Proof.
  intros st st' o E I. unfold sigs in E. assert (X : In (opsig o) (map opsig (s_ops st'))) by (rewrite E; now apply in_map).
  apply in_map_iff in X as (o' & E' & I'). exists o'. auto.
Qed.

Lemma opsig_fields : forall a b, opsig a = opsig b ->
  o_id a = o_id b /\ o_kind a = o_kind b /\ o_cli a = o_cli b /\ o_blob a = o_blob b /\ o_off a = o_off b /\ o_len a = o_len b /\ o_wid a = o_wid b.
Proof. intros a b H. unfold opsig in H. inversion H. repeat split; auto. Qed.

Lemma keeps_ord : forall st st', keeps st st' -> ord_ok st -> ord_ok st'.
Proof.
  intros st st' [(A & R & O & P) SG] (U & AS & O1 & O4 & O5 & O6). specialize (SG U).
  assert (BACK : forall o', In o' (s_ops st') -> exists o, In o (s_ops st) /\ opsig o = opsig o').
  { intros o' I. apply (sig_in st' st); auto. }
  split; [eapply sigs_uniq; eauto|]. split; [rewrite A; exact AS|]. split; [intros k r G; rewrite R in G; eauto|].
  split; [|split].
  - intros e' I W L. destruct (P _ I) as [(e & Ie & E)|N]; [|contradiction].
    rewrite <- E in *. destruct (O4 _ Ie W L) as (o & Io & K & Wd & C).
    destruct (sig_in st st' o SG Io) as (o' & Io' & S). apply opsig_fields in S as (_ & S2 & S3 & _ & _ & _ & S7).
    exists o'. repeat split; auto; congruence.
  - intros o' I K x Hx. rewrite A in Hx. destruct (BACK _ I) as (o & Io & S). apply opsig_fields in S as (_ & S2 & _ & _ & _ & _ & S7).
    rewrite <- S7. apply O5; auto. congruence.
  - intros a b Ia Ib Ka Kb. destruct (BACK _ Ia) as (a0 & Ia0 & Sa). destruct (BACK _ Ib) as (b0 & Ib0 & Sb).
    apply opsig_fields in Sa as (Sa1 & Sa2 & _). apply opsig_fields in Sb as (Sb1 & Sb2 & _).
    rewrite <- Sa1, <- Sb1. apply O6; auto; congruence.
Qed.

Lemma sorted_cons_max : forall l w, sorted_app l -> (forall x, In x l -> w_id x <= w_id w) -> sorted_app (w :: l).
Proof. intros l w S H. constructor; auto. apply Forall_forall. exact H. Qed.

Lemma ord_exec : forall st e oracle st' res tr,
  att_ok st -> ord_ok st -> In e (s_pool st) -> exec_rpc st e oracle = (st', res, tr) -> ord_ok st'.
Proof.
  intros st e oracle st' res tr (A1 & A2 & A3) (U & AS & O1 & O4 & O5 & O6) IN X.
  destruct (exec_misc _ _ _ _ _ _ X) as (EA & EO & EP).
  destruct (exec_appsrc _ _ _ _ _ _ X) as [SW SC].
  split; [unfold ops_uniq; rewrite EO; exact U|]. split; [rewrite EA; exact AS|]. split.
  2:{ rewrite EO, EP, EA. auto. }
  intros k r' G.
  assert (CP : (exists k0 r0, snd k0 = snd k /\ rget (s_reps st) k0 = Some r0 /\ r_app r' = r_app r0) \/ r_app r' = [] -> sorted_app (r_app r')).
  { intros [(k0 & r0 & _ & G0 & E)|E]; rewrite E; [eauto | constructor]. }
  destruct (Z.eq_dec (k_kind (p_rpc e)) K_Write) as [KW|KW]; [|destruct (Z.eq_dec (k_kind (p_rpc e)) K_Create) as [KC|KC]].
  3:{ apply CP. apply SC; auto. intros [K|K]; contradiction. }
  all: assert (WK : wkind (p_rpc e)) by (unfold wkind; auto);
    destruct (SW WK _ _ G) as [C|[(K & L & r0 & G0 & E)|[(K & L & G0 & E)|E]]];
    [apply CP; left; exact C | | rewrite E; repeat constructor | rewrite E; constructor].
  all: rewrite E; apply sorted_cons_max; [eauto|]; intros x Hx; cbn;
    destruct (O4 _ IN WK L) as (o & Io & Ko & Wo & _); rewrite <- Wo;
    subst k; unfold rpc_key_of, tkey in G0;
    destruct (A3 _ _ _ _ _ G0 Hx) as (W & IA & _); apply (O5 o Io Ko _ IA).
Qed.

Lemma ord_pool_update : forall st e stt res tr lose auto,
  ord_ok st -> In e (s_pool st) -> ord_ok (set_pool st (pool_update (s_pool st) (set_pent e stt res tr lose auto))).
Proof.
  intros st e stt res tr lose auto O IN. eapply keeps_ord; [|exact O].
  apply keeps_of_still_ops; [|reflexivity]. repeat split; auto.
  - intros o H. exists o. repeat split; auto.
  - intros e' H. cbn in H. unfold pool_update in H. apply in_map_iff in H as (x & E & Ix).
    left. destruct (p_id x =? p_id (set_pent e stt res tr lose auto)); subst e'; [exists e; auto | exists x; auto].
Qed.

Lemma find_pent_in' : forall pool rp w e, find_pent pool rp w = Some e -> In e pool.
Proof.
  induction pool as [|x pool IH]; intros rp w e H; cbn [find_pent] in H; [discriminate|].
  destruct (rpc_eqb (p_rpc x) rp && (p_st x =? w)); [inversion H; subst; left; auto | right; eauto].
Qed.

Lemma ord_step_exec : forall st mode r, att_ok st -> ord_ok st -> ord_ok (fst (step_exec st mode r)).
Proof.
  intros st mode r A O. unfold step_exec.
  destruct (parse_rpc r) as [[rp r1]|]; [|exact O].
  destruct r1 as [|nh r2]; [exact O|].
  destruct (take nh r2) as [place r3].
  destruct (find_pent (s_pool st) rp 0) as [e|] eqn:F; [|exact O].
  apply find_pent_in' in F.
  destruct (mode =? 4).
  { cbn [fst]. eapply keeps_ord; [eapply keeps_trans; [apply keeps_resume | apply keeps_flush] | exact O]. }
  destruct (mode =? 6).
  { destruct (negb (k_kind rp =? K_PullTract)); [exact O|]. cbn [fst].
    match goal with |- context [set_reps st ?x] => set (reps' := x); set (st1 := set_reps st reps') end.
    assert (O1 : ord_ok st1).
    { destruct O as (U & AS & B1 & B4 & B5 & B6). split; [exact U|]. split; [exact AS|]. split; [|split; [exact B4|split; [exact B5|exact B6]]].
      intros k r' G. cbn [s_reps set_reps st1] in G. unfold reps' in G.
      destruct (k_ts rp =? aux_nth rp 0); [|eauto].
      destruct (appcopy_pull_crash _ _ _ _ _ _ _ _ G) as [(k0 & r0 & _ & G0 & E)|E]; rewrite E; [eauto | constructor]. }
    eapply keeps_ord; [|exact O1].
    eapply keeps_trans; [eapply keeps_trans; [apply keeps_resume | apply keeps_flush] | apply keeps_fold_victims]. }
  destruct (k_kind rp =? K_FixVersion).
  { cbn [fst].
    set (sa := set_pool st (pool_update (s_pool st) (set_pent e 1 [] [] (mode =? 2) (negb (mode =? 5))))).
    assert (Oa : ord_ok sa) by (apply ord_pool_update; auto).
    eapply keeps_ord; [|exact Oa].
    eapply keeps_trans; [apply (keeps_of_still_ops sa (set_nsynth sa (s_nsynth st + 1))); [apply still_same|]; reflexivity|].
    eapply keeps_trans; [apply keeps_start_task | apply keeps_flush]. }
  destruct (exec_rpc st e place) as [[st1 res] tr] eqn:X1.
  pose proof (ord_exec _ _ _ _ _ _ A O F X1) as O1.
  pose proof (att_exec _ _ _ _ _ _ A F X1) as A1.
  destruct (exec_misc _ _ _ _ _ _ X1) as (_ & _ & P1).
  destruct (mode =? 3).
  - destruct (exec_rpc st1 e place) as [[st1b res2] tr2] eqn:X2. cbn [fst].
    assert (IN1 : In e (s_pool st1)) by (rewrite P1; exact F).
    pose proof (ord_exec _ _ _ _ _ _ A1 O1 IN1 X2) as O2.
    destruct (exec_misc _ _ _ _ _ _ X2) as (_ & _ & P2).
    eapply keeps_ord; [apply keeps_flush|]. apply ord_pool_update; auto. rewrite P2. exact IN1.
  - cbn [fst]. eapply keeps_ord; [apply keeps_flush|]. apply ord_pool_update; auto. rewrite P1. exact F.
Qed.

Lemma find_op_none : forall ops id, find_op ops id = None -> ~ In id (map o_id ops).
Proof.
  induction ops as [|o ops IH]; intros id H I; [destruct I|]. cbn in H.
  destruct (o_id o =? id) eqn:E; [discriminate|]. destruct I as [I|I]; [apply Z.eqb_neq in E; contradiction | eapply IH; eauto].
Qed.

Lemma op_of_client_none : forall ops cli, op_of_client ops cli = None -> ~ In cli (map o_cli ops).
Proof.
  intros ops cli H I. unfold op_of_client in H. apply in_map_iff in I as (o & E & Io).
  pose proof (find_none _ _ H o Io) as X. cbn in X. rewrite E, Z.eqb_refl in X. discriminate.
Qed.

Lemma find_op_some : forall ops id o, find_op ops id = Some o -> In o ops /\ o_id o = id.
Proof.
  induction ops as [|x ops IH]; intros id o H; cbn in H; [discriminate|].
  destruct (o_id x =? id) eqn:E; [inversion H; subst; apply Z.eqb_eq in E; split; [left|]; auto|].
  destruct (IH _ _ H). split; [right|]; auto.
Qed.

Lemma nodup_app_one : forall (l : list Z) x, NoDup l -> ~ In x l -> NoDup (l ++ [x]).
Proof.
  induction l as [|a l IH]; intros x ND NI; cbn; [constructor; auto; constructor|].
  inversion ND; subst. constructor.
  - intro I. apply in_app_or in I as [I|[I|[]]]; [contradiction | subst; apply NI; left; auto].
  - apply IH; auto. intro I. apply NI. right. exact I.
Qed.

Lemma nodup_filter_map : forall (f : cop -> Z) (g : cop -> bool) l, NoDup (map f l) -> NoDup (map f (filter g l)).
Proof.
  induction l as [|a l IH]; intros ND; cbn; [constructor|]. inversion ND; subst.
  destruct (g a); cbn; auto. constructor; auto. intro I. apply H1. apply in_map_iff in I as (x & E & Ix).
  apply filter_In in Ix as [Ix _]. rewrite <- E. now apply in_map.
Qed.

Lemma existsb_kind3_false : forall ops, existsb (fun o => o_kind o =? 3) ops = false -> forall o, In o ops -> o_kind o <> 3.
Proof.
  intros ops H o I K. assert (X : existsb (fun o => o_kind o =? 3) ops = true) by (apply existsb_exists; exists o; split; auto; rewrite K; reflexivity).
  congruence.
Qed.

(* one admissible event keeps the order invariant *)
Theorem ord_step : forall L st ev, ok_ev L st ev = true -> att_ok st -> ord_ok st -> ord_ok (fst (step st ev)).
Proof.
  intros L st ev OK0 A0 O0. unfold step.
  assert (OK : ok_ev L (set_out st []) ev = true) by exact OK0.
  assert (A : att_ok (set_out st [])) by exact A0.
  assert (O : ord_ok (set_out st [])) by exact O0. clear OK0 A0 O0.
  set (s := set_out st []) in *. clearbody s.
  destruct ev as [|c a]; [exact O|]. unfold ok_ev in OK.
  destruct (c =? 1) eqn:C1. { destruct a; exact O. }
  destruct (c =? 2) eqn:C2. { destruct a as [|x [|y [|z a]]]; try exact O. destruct (zget (s_blobs s) x); exact O. }
  destruct (c =? 3) eqn:C3.
  { destruct a as [|x1 [|x2 [|x3 [|x4 [|x5 [|x6 [|x7 a]]]]]]]; try exact O. cbn [fst].
    repeat (apply andb_true_iff in OK as [OK ?]).
    apply negb_true_iff in OK.
    destruct (find_op (s_ops s) x1) eqn:FO; [discriminate|]. destruct (op_of_client (s_ops s) x2) eqn:OC; [discriminate|].
    destruct O as ([U1 U2] & AS & O1 & O4 & O5 & O6).
    pose proof (existsb_kind3_false _ OK) as NW.
    rewrite forallb_forall in H3.
    split; [|split; [|split; [exact O1|split; [|split]]]].
    - split; cbn [s_ops set_att set_ops]; rewrite map_app; cbn; apply nodup_app_one; auto;
        [now apply find_op_none | now apply op_of_client_none].
    - cbn [s_att set_att]. constructor; auto. apply Forall_forall. intros [[b w] W] Hx. specialize (H3 _ Hx). cbn in H3. apply Z.ltb_lt in H3. exact H3.
    - intros e I W Ln. destruct (O4 _ I W Ln) as (o & Io & R). exists o. split; auto. cbn. apply in_or_app. left. exact Io.
    - intros o I K x Hx. cbn in I. apply in_app_or in I as [I|[I|[]]]; [exfalso; exact (NW _ I K)|]. subst o. cbn.
      cbn in Hx. destruct Hx as [Hx|Hx]; [subst x; cbn; lia|]. specialize (H3 _ Hx). destruct x as [[b w] W]. cbn in *. apply Z.ltb_lt in H3. lia.
    - intros o1 o2 I1 I2 K1 K2. cbn in I1, I2.
      apply in_app_or in I1 as [I1|[I1|[]]]; [exfalso; exact (NW _ I1 K1)|].
      apply in_app_or in I2 as [I2|[I2|[]]]; [exfalso; exact (NW _ I2 K2)|]. subst. reflexivity. }
  destruct (c =? 4) eqn:C4.
  { destruct a as [|x1 [|x2 [|x3 [|x4 [|x5 [|x6 a]]]]]]; try exact O. cbn [fst].
    apply andb_true_iff in OK as [OK1 OK2].
    destruct (find_op (s_ops s) x1) eqn:FO; [discriminate|]. destruct (op_of_client (s_ops s) x2) eqn:OC; [discriminate|].
    destruct O as ([U1 U2] & AS & O1 & O4 & O5 & O6).
    split; [|split; [exact AS|split; [exact O1|split; [|split]]]].
    - split; cbn [s_ops set_ops]; rewrite map_app; cbn; apply nodup_app_one; auto;
        [now apply find_op_none | now apply op_of_client_none].
    - intros e I W Ln. destruct (O4 _ I W Ln) as (o & Io & R). exists o. split; auto. cbn. apply in_or_app. left. exact Io.
    - intros o I K x Hx. cbn in I. apply in_app_or in I as [I|[I|[]]]; [eapply O5; eauto|]. subst o. cbn in K. discriminate.
    - intros o1 o2 I1 I2 K1 K2. cbn in I1, I2.
      apply in_app_or in I1 as [I1|[I1|[]]]; [|subst o1; cbn in K1; discriminate].
      apply in_app_or in I2 as [I2|[I2|[]]]; [|subst o2; cbn in K2; discriminate]. eauto. }
  destruct (c =? 5) eqn:C5.
  { destruct a as [|x1 [|x2 [|x3 [|x4 [|x5 a]]]]]; try exact O.
    destruct (take x5 a) as [bad rest]. cbn [fst].
    eapply keeps_ord; [eapply keeps_trans; [apply keeps_start_task | apply keeps_flush] | exact O]. }
  destruct (c =? 6) eqn:C6.
  { destruct a as [|x1 [|x2 [|x3 [|x4 [|x5 [|x6 [|x7 a]]]]]]]; try exact O. cbn [fst].
    eapply keeps_ord; [eapply keeps_trans; [apply keeps_start_task | apply keeps_flush] | exact O]. }
  destruct (c =? 7) eqn:C7. { destruct a as [|mode rest]; [exact O|]. now apply ord_step_exec. }
  destruct (c =? 8) eqn:C8.
  { destruct a as [|lose r]; [exact O|]. unfold step_reply.
    destruct (parse_rpc r) as [[rp r1]|]; [|exact O].
    destruct (find_pent (s_pool s) rp 2) as [e|]; [|exact O]. cbn [fst].
    eapply keeps_ord; [eapply keeps_trans; [apply keeps_resume | apply keeps_flush] | exact O]. }
  destruct (c =? 9) eqn:C9.
  { destruct a as [|ts [|y a]]; try exact O. unfold step_restart. cbn [fst].
    eapply keeps_ord; [apply keeps_fold_victims | exact O]. }
  destruct (c =? 10) eqn:C10. { destruct a; exact O. }
  destruct (c =? 11) eqn:C11. { destruct a as [|ts [|y a]]; exact O. }
  destruct (c =? 12) eqn:C12.
  { destruct a as [|x1 [|x2 [|x3 [|x4 [|x5 a]]]]]; try exact O. unfold step_probe.
    destruct (tget (s_dtr s) (tkey x1 x2)) as [[ver hosts]|]; [|exact O].
    destruct ((x3 =? 1) && (x4 =? 0)); [exact O|].
    match goal with |- context [change_tract ?a ?b ?c ?d ?e ?f] =>
      pose proof (still_change_tract a b c d e f) as H; pose proof (ops_change_tract a b c d e f) as H2; destruct (change_tract a b c d e f) end.
    cbn [fst] in *. eapply keeps_ord; [apply keeps_of_still_ops; eauto | exact O]. }
  destruct (c =? 13) eqn:C13.
  { unfold step_issue. destruct (parse_rpc a) as [[rp r1]|]; [|exact O].
    destruct (issue_allowed s rp) eqn:IA; [|exact O]. cbn [fst].
    destruct O as (U & AS & O1 & O4 & O5 & O6). split; [exact U|]. split; [exact AS|]. split; [exact O1|]. split; [|split; [exact O5|exact O6]].
    intros e H K Ln. cbn in H. apply in_app_or in H as [H|[H|[]]]; [now apply O4|]. subst e. cbn in K, Ln |- *.
    unfold issue_allowed in IA. apply andb_true_iff in IA as [_ IA].
    assert (TS : is_ts_kind (k_kind rp) = true) by (destruct K as [K|K]; rewrite K; reflexivity).
    rewrite TS in IA. apply andb_true_iff in IA as [_ IA].
    assert (WK : (k_kind rp =? K_Write) || (k_kind rp =? K_Create) = true) by (destruct K as [K|K]; rewrite K; reflexivity).
    rewrite WK in IA. destruct (op_of_client (s_ops s) (k_cli rp)) as [o|] eqn:OF; [|discriminate].
    pose proof OF as OF2. apply op_of_client_in in OF. unfold op_of_client in OF2. apply find_some in OF2 as [_ CL]. cbn in CL. apply Z.eqb_eq in CL.
    apply andb_true_iff in IA as [IA H3]. apply andb_true_iff in IA as [H1 H2].
    apply Z.eqb_eq in H1. apply orb_true_iff in H3 as [H3|H3]. { apply Z.eqb_eq in H3. lia. }
    apply andb_true_iff in H3 as [H3 _]. apply andb_true_iff in H3 as [H4 _]. apply Z.eqb_eq in H4.
    exists o. repeat split; auto. }
  destruct (c =? 14) eqn:C14.
  { destruct a as [|x1 [|x2 [|x3 a]]]; try exact O. unfold step_finclient.
    destruct (find_op (s_ops s) x1) as [o|] eqn:FO; [|exact O].
    apply find_op_some in FO as [IO ID]. apply negb_true_iff in OK.
    assert (DEL : ord_ok (set_ops s (del_op (s_ops s) x1))).
    { destruct O as ([U1 U2] & AS & O1 & O4 & O5 & O6).
      assert (SUB : forall o', In o' (del_op (s_ops s) x1) -> In o' (s_ops s) /\ o_id o' <> x1).
      { intros o' I. unfold del_op in I. apply filter_In in I as [I N]. split; auto. apply negb_true_iff in N. now apply Z.eqb_neq in N. }
      split; [split; cbn [s_ops set_ops]; unfold del_op; now apply nodup_filter_map|].
      split; [exact AS|]. split; [exact O1|]. split; [|split].
      - intros e I W Ln. destruct (O4 _ I W Ln) as (o' & Io' & K' & W' & Cl').
        exists o'. split; auto. cbn. unfold del_op. apply filter_In. split; auto. apply negb_true_iff. apply Z.eqb_neq. intro E.
        (* o' would be the finishing op: then e is a pending data RPC of its client *)
        assert (o' = o).
        { assert (X : o_id o' = o_id o) by congruence. clear - U1 Io' IO X. induction (s_ops s) as [|a l IH]; [destruct IO|].
          cbn in U1. inversion U1; subst. destruct Io' as [Io'|Io']; destruct IO as [IO|IO]; subst; auto.
          - exfalso. apply H1. rewrite X. now apply in_map.
          - exfalso. apply H1. rewrite <- X. now apply in_map. }
        subst o'. apply busy_pending in OK. unfold pending_data in OK.
        assert (T : existsb (fun e0 => (k_cli (p_rpc e0) =? o_cli o) && data_kind (k_kind (p_rpc e0))) (s_pool s) = true).
        { apply existsb_exists. exists e. split; auto. rewrite Cl', Z.eqb_refl. cbn. unfold data_kind. destruct W as [W|W]; rewrite W; reflexivity. }
        congruence.
      - intros o' I K x Hx. destruct (SUB _ I). eapply O5; eauto.
      - intros a1 a2 I1 I2 K1 K2. destruct (SUB _ I1), (SUB _ I2). eauto. }
    repeat match goal with
           | |- context [match ?x with _ => _ end] => destruct x eqn:?
           | |- context [if ?x then _ else _] => destruct x eqn:?
           end; exact DEL. }
  destruct (c =? 15) eqn:C15. { destruct a as [|op [|y a]]; try exact O. destruct (zget (s_fin s) op); exact O. }
  destruct (c =? 16) eqn:C16.
  { unfold step_rpcdone. repeat match goal with
                                | |- context [match ?x with _ => _ end] => destruct x eqn:?
                                end; exact O. }
  destruct (c =? 17) eqn:C17. { discriminate. }
  exact O.
Qed.

Lemma ord_init : ord_ok init_state.
Proof.
  split; [split; constructor|]. split; [constructor|]. repeat split; cbn; intros; try contradiction; discriminate.
Qed.

(* ---------- acknowledged writes are attempts ---------- *)
Lemma acked_fold_issue : forall (f : Z -> rpc) o l st, s_acked (fold_left (fun s h => issue_cur s (f h) o) l st) = s_acked st.
Proof. induction l; intros; cbn; auto. rewrite IHl. reflexivity. Qed.
Lemma acked_finish_task : forall st t e, s_acked (finish_task st t e) = s_acked st.
Proof. intros; unfold finish_task; brk; reflexivity. Qed.
Lemma acked_activate : forall st t, s_acked (activate st t) = s_acked st.
Proof. intros; unfold activate; brk; try apply acked_finish_task; rewrite acked_fold_issue; reflexivity. Qed.
Lemma acked_wake : forall n st, s_acked (wake n st) = s_acked st.
Proof. induction n; intros; [reflexivity|]. unfold wake; fold wake. destruct (find _ _); auto. rewrite IHn. apply acked_activate. Qed.
Lemma acked_start_task : forall st t, s_acked (start_task st t) = s_acked st.
Proof. intros; unfold start_task; brk; [rewrite acked_finish_task | rewrite acked_wake]; reflexivity. Qed.
Lemma acked_change_tract : forall st term b t v h, s_acked (fst (change_tract st term b t v h)) = s_acked st.
Proof. intros; unfold change_tract; brk; reflexivity. Qed.
Lemma acked_task_reply : forall st op err hint, s_acked (task_reply st op err hint) = s_acked st.
Proof.
  intros; unfold task_reply.
  destruct (find_task (s_tasks st) op) as [t|]; auto.
  destruct (negb (err =? cl_NoError)). { rewrite acked_wake. apply acked_finish_task. }
  destruct (1 <? t_wait t). { reflexivity. }
  destruct ((t_kind t =? 5) && (t_phase t =? 1)).
  - brk; try (rewrite acked_wake; apply acked_finish_task). rewrite acked_fold_issue. reflexivity.
  - match goal with |- context [change_tract ?a ?b ?c ?d ?e ?f] =>
      pose proof (acked_change_tract a b c d e f) as H; destruct (change_tract a b c d e f) as [st1 e1] end.
    cbn in H. rewrite acked_wake, acked_finish_task. exact H.
Qed.
Lemma acked_client_learns : forall st r res tr, s_acked (client_learns st r res tr) = s_acked st.
Proof. intros; unfold client_learns; brk; reflexivity. Qed.
Lemma acked_resume : forall st e d h, s_acked (resume st e d h) = s_acked st.
Proof.
  intros; unfold resume; brk; try reflexivity;
    try (rewrite acked_task_reply; reflexivity); try (rewrite acked_client_learns; reflexivity).
Qed.
Lemma acked_flush : forall n st h, s_acked (flush n st h) = s_acked st.
Proof. induction n; intros; [reflexivity|]. unfold flush; fold flush. destruct (find _ _); auto. rewrite IHn. apply acked_resume. Qed.
Lemma acked_fold_victims : forall victims s, s_acked (fold_left (fun s x => flush 8 (resume s x false []) []) victims s) = s_acked s.
Proof. induction victims; intros; cbn [fold_left]; auto. rewrite IHvictims, acked_flush, acked_resume. reflexivity. Qed.
Lemma acked_exec : forall st e oracle st' res tr, exec_rpc st e oracle = (st', res, tr) -> s_acked st' = s_acked st.
Proof.
  intros st e oracle st' res tr H. unfold exec_rpc in H.
  repeat match type of H with
         | context [let '(_, _) := ?x in _] => destruct x eqn:?
         | context [match ?x with _ => _ end] => destruct x eqn:?
         | context [if ?x then _ else _] => destruct x eqn:?
         end; inversion H; subst; try reflexivity;
  match goal with
  | A : ack_extend _ _ _ = (_, _) |- _ =>
      unfold ack_extend in A;
      repeat match type of A with
             | context [match ?x with _ => _ end] => destruct x eqn:?
             | context [if ?x then _ else _] => destruct x eqn:?
             end; inversion A; subst; reflexivity
  end.
Qed.

Lemma acked_step_exec : forall st mode r, s_acked (fst (step_exec st mode r)) = s_acked st.
Proof.
  intros. unfold step_exec.
  destruct (parse_rpc r) as [[rp r1]|]; auto. destruct r1 as [|nh r2]; auto.
  destruct (take nh r2) as [place r3]. destruct (find_pent (s_pool st) rp 0) as [e|]; auto.
  destruct (mode =? 4). { cbn [fst]. rewrite acked_flush, acked_resume. reflexivity. }
  destruct (mode =? 6). { destruct (negb _); auto. cbn [fst]. rewrite acked_fold_victims, acked_flush, acked_resume. reflexivity. }
  destruct (k_kind rp =? K_FixVersion). { cbn [fst]. rewrite acked_flush, acked_start_task. reflexivity. }
  destruct (exec_rpc st e place) as [[st1 res] tr] eqn:X1. pose proof (acked_exec _ _ _ _ _ _ X1) as E1.
  destruct (mode =? 3).
  - destruct (exec_rpc st1 e place) as [[st1b res2] tr2] eqn:X2. pose proof (acked_exec _ _ _ _ _ _ X2) as E2.
    cbn [fst]. rewrite acked_flush. cbn. congruence.
  - cbn [fst]. rewrite acked_flush. cbn. congruence.
Qed.

(* s_acked changes only when a write operation finishes successfully: then the finished write is added *)
Lemma acked_step : forall st ev,
  s_acked (fst (step st ev)) = s_acked st \/
  exists o, In o (s_ops st) /\ o_kind o = 3 /\
            s_acked (fst (step st ev)) = (o_blob o, o_wid o, mkw (o_wid o) (o_off o) (o_len o)) :: s_acked st.
Proof.
  intros st ev. unfold step. set (s := set_out st []).
  assert (SA : s_acked s = s_acked st) by reflexivity. assert (SO : s_ops s = s_ops st) by reflexivity.
  rewrite <- SA, <- SO. clearbody s. clear SA SO.
  destruct ev as [|c a]; [left; reflexivity|].
  destruct (c =? 1). { left. destruct a; reflexivity. }
  destruct (c =? 2). { left. destruct a as [|x [|y [|z a]]]; try reflexivity. destruct (zget (s_blobs s) x); reflexivity. }
  destruct (c =? 3). { left. destruct a as [|x1 [|x2 [|x3 [|x4 [|x5 [|x6 [|x7 a]]]]]]]; reflexivity. }
  destruct (c =? 4). { left. destruct a as [|x1 [|x2 [|x3 [|x4 [|x5 [|x6 a]]]]]]; reflexivity. }
  destruct (c =? 5). { left. destruct a as [|x1 [|x2 [|x3 [|x4 [|x5 a]]]]]; try reflexivity. destruct (take x5 a). cbn [fst]. rewrite acked_flush, acked_start_task. reflexivity. }
  destruct (c =? 6). { left. destruct a as [|x1 [|x2 [|x3 [|x4 [|x5 [|x6 [|x7 a]]]]]]]; try reflexivity. cbn [fst]. rewrite acked_flush, acked_start_task. reflexivity. }
  destruct (c =? 7). { left. destruct a as [|mode rest]; [reflexivity|]. apply acked_step_exec. }
  destruct (c =? 8).
  { left. destruct a as [|lose r]; [reflexivity|]. unfold step_reply. destruct (parse_rpc r) as [[rp r1]|]; auto.
    destruct (find_pent (s_pool s) rp 2); auto. cbn [fst]. rewrite acked_flush, acked_resume. reflexivity. }
  destruct (c =? 9). { left. destruct a as [|ts [|y a]]; try reflexivity. unfold step_restart. cbn [fst]. apply acked_fold_victims. }
  destruct (c =? 10). { left. destruct a; reflexivity. }
  destruct (c =? 11). { left. destruct a as [|ts [|y a]]; reflexivity. }
  destruct (c =? 12).
  { left. destruct a as [|x1 [|x2 [|x3 [|x4 [|x5 a]]]]]; try reflexivity. unfold step_probe.
    destruct (tget (s_dtr s) (tkey x1 x2)) as [[ver hosts]|]; auto. destruct ((x3 =? 1) && (x4 =? 0)); auto.
    match goal with |- context [change_tract ?a ?b ?c ?d ?e ?f] =>
      pose proof (acked_change_tract a b c d e f) as H; destruct (change_tract a b c d e f) end. exact H. }
  destruct (c =? 13). { left. unfold step_issue. destruct (parse_rpc a) as [[rp r1]|]; auto. destruct (issue_allowed s rp); reflexivity. }
  destruct (c =? 14).
  { destruct a as [|x1 [|x2 [|x3 a]]]; try (left; reflexivity). unfold step_finclient.
    destruct (find_op (s_ops s) x1) as [o|] eqn:FO; [|left; reflexivity]. apply find_op_some in FO as [IO _].
    destruct (existsb _ (s_pool s)); [left; reflexivity|].
    destruct (o_kind o =? 3) eqn:K.
    - destruct ((x3 =? cl_NoError) && (x2 =? o_len o)); [|left; reflexivity].
      destruct (ack_allowed s o); [|left; reflexivity]. right. exists o. apply Z.eqb_eq in K. auto.
    - left. repeat match goal with
                   | |- context [match ?x with _ => _ end] => destruct x eqn:?
                   | |- context [if ?x then _ else _] => destruct x eqn:?
                   end; reflexivity. }
  destruct (c =? 15). { left. destruct a as [|op [|y a]]; try reflexivity. destruct (zget (s_fin s) op); reflexivity. }
  destruct (c =? 16). { left. unfold step_rpcdone. repeat match goal with |- context [match ?x with _ => _ end] => destruct x eqn:? end; reflexivity. }
  destruct (c =? 17). { left. unfold step_inject. destruct (parse_rpc a) as [[rp r1]|]; auto. destruct (_ && _); reflexivity. }
  left. reflexivity.
Qed.

Lemma att_step_exec : forall st mode r, s_att (fst (step_exec st mode r)) = s_att st.
Proof.
  intros. unfold step_exec.
  destruct (parse_rpc r) as [[rp r1]|]; auto. destruct r1 as [|nh r2]; auto.
  destruct (take nh r2) as [place r3]. destruct (find_pent (s_pool st) rp 0) as [e|]; auto.
  destruct (mode =? 4). { cbn [fst]. destruct (still_flush 8 (resume st e false (place ++ [-1] ++ match r3 with nd :: r4 => fst (take nd r4) | [] => [] end)) (place ++ [-1] ++ match r3 with nd :: r4 => fst (take nd r4) | [] => [] end)) as [E _].
    rewrite E. destruct (still_resume st e false (place ++ [-1] ++ match r3 with nd :: r4 => fst (take nd r4) | [] => [] end)) as [E2 _]. exact E2. }
  destruct (mode =? 6).
  { destruct (negb _); auto. cbn [fst].
    match goal with |- s_att (fold_left _ ?v ?s0) = _ => destruct (still_fold_victims v s0) as [E _]; rewrite E end.
    match goal with |- s_att (flush 8 ?s0 ?h) = _ => destruct (still_flush 8 s0 h) as [E2 _]; rewrite E2 end.
    match goal with |- s_att (resume ?s0 ?x ?d ?h) = _ => destruct (still_resume s0 x d h) as [E3 _]; rewrite E3 end. reflexivity. }
  destruct (k_kind rp =? K_FixVersion).
  { cbn [fst].
    match goal with |- s_att (flush 8 ?s0 ?h) = _ => destruct (still_flush 8 s0 h) as [E2 _]; rewrite E2 end.
    match goal with |- s_att (start_task ?s0 ?t) = _ => destruct (still_start_task s0 t) as [E3 _]; rewrite E3 end. reflexivity. }
  destruct (exec_rpc st e place) as [[st1 res] tr] eqn:X1. destruct (exec_misc _ _ _ _ _ _ X1) as (E1 & _).
  destruct (mode =? 3).
  - destruct (exec_rpc st1 e place) as [[st1b res2] tr2] eqn:X2. destruct (exec_misc _ _ _ _ _ _ X2) as (E2 & _).
    cbn [fst]. match goal with |- s_att (flush 8 ?s0 ?h) = _ => destruct (still_flush 8 s0 h) as [E3 _]; rewrite E3 end. cbn. congruence.
  - cbn [fst]. match goal with |- s_att (flush 8 ?s0 ?h) = _ => destruct (still_flush 8 s0 h) as [E3 _]; rewrite E3 end. cbn. congruence.
Qed.

Lemma att_step_incl : forall st ev x, In x (s_att st) -> In x (s_att (fst (step st ev))).
Proof.
  intros st ev x. unfold step. set (s := set_out st []).
  assert (SA : s_att s = s_att st) by reflexivity. rewrite <- SA. clearbody s. clear SA. intros I.
  assert (SAME : forall s', s_att s' = s_att s -> In x (s_att s')) by (intros s' E; rewrite E; exact I).
  destruct ev as [|c a]; [exact I|].
  destruct (c =? 1). { destruct a; exact I. }
  destruct (c =? 2). { destruct a as [|x0 [|y [|z a]]]; try exact I. destruct (zget (s_blobs s) x0); exact I. }
  destruct (c =? 3). { destruct a as [|x1 [|x2 [|x3 [|x4 [|x5 [|x6 [|x7 a]]]]]]]; try exact I. cbn. right. exact I. }
  destruct (c =? 4). { destruct a as [|x1 [|x2 [|x3 [|x4 [|x5 [|x6 a]]]]]]; exact I. }
  destruct (c =? 5).
  { destruct a as [|x1 [|x2 [|x3 [|x4 [|x5 a]]]]]; try exact I. destruct (take x5 a). cbn [fst]. apply SAME.
    match goal with |- s_att (flush 8 ?s0 ?h) = _ => destruct (still_flush 8 s0 h) as [E2 _]; rewrite E2 end.
    match goal with |- s_att (start_task ?s0 ?t) = _ => destruct (still_start_task s0 t) as [E3 _]; rewrite E3 end. reflexivity. }
  destruct (c =? 6).
  { destruct a as [|x1 [|x2 [|x3 [|x4 [|x5 [|x6 [|x7 a]]]]]]]; try exact I. cbn [fst]. apply SAME.
    match goal with |- s_att (flush 8 ?s0 ?h) = _ => destruct (still_flush 8 s0 h) as [E2 _]; rewrite E2 end.
    match goal with |- s_att (start_task ?s0 ?t) = _ => destruct (still_start_task s0 t) as [E3 _]; rewrite E3 end. reflexivity. }
  destruct (c =? 7). { destruct a as [|mode rest]; [exact I|]. apply SAME. apply att_step_exec. }
  destruct (c =? 8).
  { destruct a as [|lose r]; [exact I|]. unfold step_reply. destruct (parse_rpc r) as [[rp r1]|]; auto.
    destruct (find_pent (s_pool s) rp 2); auto. cbn [fst]. apply SAME.
    match goal with |- s_att (flush 8 ?s0 ?h) = _ => destruct (still_flush 8 s0 h) as [E2 _]; rewrite E2 end.
    match goal with |- s_att (resume ?s0 ?y ?d ?h) = _ => destruct (still_resume s0 y d h) as [E3 _]; rewrite E3 end. reflexivity. }
  destruct (c =? 9).
  { destruct a as [|ts [|y a]]; try exact I. unfold step_restart. cbn [fst]. apply SAME.
    match goal with |- s_att (fold_left _ ?v ?s0) = _ => destruct (still_fold_victims v s0) as [E _]; exact E end. }
  destruct (c =? 10). { destruct a; exact I. }
  destruct (c =? 11). { destruct a as [|ts [|y a]]; exact I. }
  destruct (c =? 12).
  { destruct a as [|x1 [|x2 [|x3 [|x4 [|x5 a]]]]]; try exact I. unfold step_probe.
    destruct (tget (s_dtr s) (tkey x1 x2)) as [[ver hosts]|]; auto. destruct ((x3 =? 1) && (x4 =? 0)); auto.
    match goal with |- context [change_tract ?a ?b ?c ?d ?e ?f] =>
      pose proof (still_change_tract a b c d e f) as H; destruct (change_tract a b c d e f) end. apply SAME. destruct H as [E _]. exact E. }
  destruct (c =? 13). { unfold step_issue. destruct (parse_rpc a) as [[rp r1]|]; auto. destruct (issue_allowed s rp); exact I. }
  destruct (c =? 14).
  { destruct a as [|x1 [|x2 [|x3 a]]]; try exact I. unfold step_finclient.
    repeat match goal with
           | |- context [match ?x with _ => _ end] => destruct x eqn:?
           | |- context [if ?x then _ else _] => destruct x eqn:?
           end; exact I. }
  destruct (c =? 15). { destruct a as [|op [|y a]]; try exact I. destruct (zget (s_fin s) op); exact I. }
  destruct (c =? 16). { unfold step_rpcdone. repeat match goal with |- context [match ?x with _ => _ end] => destruct x eqn:? end; exact I. }
  destruct (c =? 17). { unfold step_inject. destruct (parse_rpc a) as [[rp r1]|]; auto. destruct (_ && _); exact I. }
  exact I.
Qed.

Definition acked_ok (st : state) : Prop := forall x, In x (s_acked st) -> In x (s_att st).

Lemma acked_ok_step : forall st ev, att_ok st -> acked_ok st -> acked_ok (fst (step st ev)).
Proof.
  intros st ev (A1 & _) AK x Hx.
  destruct (acked_step st ev) as [E|(o & Io & K & E)]; rewrite E in Hx.
  - apply att_step_incl. now apply AK.
  - destruct Hx as [Hx|Hx]; [subst x; apply att_step_incl; now apply A1 | apply att_step_incl; now apply AK].
Qed.

(* ---------- what a replica shows ---------- *)
Lemma byte_at_sorted : forall l wr p,
  sorted_app l -> In wr l -> covers wr p = true ->
  (forall wr', In wr' l -> covers wr' p = true -> w_id wr' <= w_id wr) ->
  byte_at l p = w_id wr.
Proof.
  induction l as [|a l IH]; intros wr p S I C M; [destruct I|].
  cbn. inversion S as [|? ? S' F]; subst. destruct (covers a p) eqn:CA.
  - destruct I as [I|I]; [subst; reflexivity|].
    rewrite Forall_forall in F. specialize (F _ I). specialize (M a (or_introl eq_refl) CA). lia.
  - destruct I as [I|I]; [subst; congruence|]. apply IH; auto. intros wr' I' C'. apply M; auto. right. exact I'.
Qed.

Lemma newest_cover_in : forall att b q wid, newest_cover att b q = Some wid ->
  exists W, In (b, wid, W) att /\ covers W q = true.
Proof.
  induction att as [|[[b0 w0] W0] att IH]; intros b q wid H; cbn in H; [discriminate|].
  destruct ((b0 =? b) && covers W0 q) eqn:E.
  - inversion H; subst. apply andb_true_iff in E as [E1 E2]. apply Z.eqb_eq in E1. subst. exists W0. split; [left|]; auto.
  - destruct (IH _ _ _ H) as (W & I & C). exists W. split; [right|]; auto.
Qed.

Lemma newest_cover_max : forall att b q wid, att_sorted att -> newest_cover att b q = Some wid ->
  forall w' W', In (b, w', W') att -> covers W' q = true -> w' <= wid.
Proof.
  induction att as [|[[b0 w0] W0] att IH]; intros b q wid S H w' W' I C; [destruct I|].
  inversion S as [|? ? S' F]; subst. cbn in H. destruct ((b0 =? b) && covers W0 q) eqn:E.
  - inversion H; subst. destruct I as [I|I]; [inversion I; lia|].
    rewrite Forall_forall in F. specialize (F _ I). unfold awid in F. cbn in F. lia.
  - destruct I as [I|I].
    + inversion I; subst. rewrite Z.eqb_refl, C in E. discriminate.
    + eapply IH; eauto.
Qed.

Lemma att_wid_unique : forall att b1 b2 w W1 W2, att_sorted att -> In (b1, w, W1) att -> In (b2, w, W2) att -> b1 = b2 /\ W1 = W2.
Proof.
  induction att as [|x att IH]; intros b1 b2 w W1 W2 S I1 I2; [destruct I1|].
  inversion S as [|? ? S' F]; subst. rewrite Forall_forall in F.
  destruct I1 as [I1|I1]; destruct I2 as [I2|I2]; subst.
  - inversion I2; auto.
  - specialize (F _ I2). unfold awid in F. cbn in F. lia.
  - specialize (F _ I1). unfold awid in F. cbn in F. lia.
  - eauto.
Qed.

Lemma seg_covers_iff : forall off len j p wo wl, 0 <= p < TL ->
  seg_of off len j = (wo, wl) -> (off <= j * TL + p < off + len <-> wo <= p < wo + wl).
Proof. intros off len j p wo wl P H. unfold seg_of in H. inversion H; subst. lia. Qed.

(* the record of attempt (wid, W) in tract j *)
Definition rec_in (wid : Z) (W : wrec) (j : Z) : wrec :=
  mkw wid (fst (seg_of (w_off W) (w_len W) j)) (snd (seg_of (w_off W) (w_len W) j)).

(* THE REDUCTION: if a replica holds the record of the newest attempt covering a byte, it shows that attempt's id there *)
Lemma shows_newest : forall st ts b j r p wid W,
  att_ok st -> ord_ok st -> 0 <= p < TL ->
  rget (s_reps st) (ts, (b, j)) = Some r ->
  newest_cover (s_att st) b (j * TL + p) = Some wid ->
  In (b, wid, W) (s_att st) ->
  In (rec_in wid W j) (r_app r) ->
  byte_at (r_app r) p = wid.
Proof.
  intros st ts b j r p wid W (_ & _ & A3) (_ & AS & O1 & _) P G NC IW IR.
  destruct (newest_cover_in _ _ _ _ NC) as (W0 & I0 & C0).
  destruct (att_wid_unique _ _ _ _ _ _ AS IW I0) as [_ EW]. subst W0.
  change wid with (w_id (rec_in wid W j)).
  apply byte_at_sorted; [eapply O1; eauto | exact IR | |].
  - unfold rec_in, covers. cbn. destruct (seg_of (w_off W) (w_len W) j) as [wo wl] eqn:S. cbn.
    unfold covers in C0. apply andb_true_iff in C0 as [C1 C2]. apply Z.leb_le in C1. apply Z.ltb_lt in C2.
    pose proof (proj1 (seg_covers_iff _ _ _ p _ _ P S) (conj C1 C2)) as [L1 L2].
    apply andb_true_iff. split; [apply Z.leb_le | apply Z.ltb_lt]; lia.
  - intros wr' I' C'. cbn. destruct (A3 _ _ _ _ _ G I') as (W' & IA' & S').
    eapply newest_cover_max; eauto.
    unfold covers in *. apply andb_true_iff in C' as [C1 C2]. apply Z.leb_le in C1. apply Z.ltb_lt in C2.
    pose proof (proj2 (seg_covers_iff _ _ _ p _ _ P S') (conj C1 C2)) as [L1 L2].
    apply andb_true_iff. split; [apply Z.leb_le | apply Z.ltb_lt]; lia.
Qed.
