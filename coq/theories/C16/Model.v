(* C16/Model.v — executable model of the bulk RPC framing of pkg/rpc/bulk_codec.go and the
   buffer pool of pkg/rpc/pool.go.  Definitions only; proofs are in Proofs.v.

   Wire format of one message (bulk_codec.go writeBulk):
     1. gob(header)  2. gob(body)  3. le32(len payload)  4. le32(crc32c(1 ++ 2 ++ 3))
     5. payload (only if len > 0)  6. le32(crc32c(payload)) (only if len > 0)
   The receiver (ReadRequestHeader/ReadResponseHeader + readBulkBody) is transcribed branch by
   branch, including "a received payload checksum of 0 is not checked".

   encoding/gob is an opaque self-delimiting codec: Section variables [genc]/[gdec].  [gdec s]
   says what gob does on the byte stream [s]: decodes a value consuming exactly n bytes, fails
   after consuming n bytes, or waits for more input.  The codec computes its running CRC over
   exactly the bytes gob consumed (bulkGobCodec.Read), which is what [takeN n s] yields here. *)
From Coq Require Import List NArith ZArith Bool.
From BLB Require Import Lib.CRC Lib.CRCFast Gen.Consts C16.CrcT C16.RetryModel.
Import ListNotations.
Open Scope N_scope.

(* ---------- byte-stream helpers (N-indexed so that extracted code never builds unary numbers) ---------- *)

Definition lenN (l : list byte) : N := fold_left (fun n _ => N.succ n) l 0.

(* takeN n l = Some (first n bytes, rest), None if fewer than n bytes are available *)
Fixpoint takeN (n : N) (l : list byte) {struct l} : option (list byte * list byte) :=
  match n with
  | 0 => Some ([], l)
  | _ => match l with
         | [] => None
         | x :: r => match takeN (N.pred n) r with
                     | Some (a, r') => Some (x :: a, r')
                     | None => None
                     end
         end
  end.

Definition dropN (n : N) (l : list byte) : list byte :=
  match takeN n l with Some (_, r) => r | None => [] end.

(* ---------- pool.go ---------- *)

Definition pool_small : N := 128 * 1024 + c16_ExtraRoom.
Definition buf1MB : N := 1048576 + c16_ExtraRoom.   (* 1<<20 + disk.ExtraRoom *)
Definition buf4MB : N := 4194304 + c16_ExtraRoom.   (* 4<<20 + disk.ExtraRoom *)
Definition buf8MB : N := 8388608 + c16_ExtraRoom.   (* 8<<20 + disk.ExtraRoom *)

(* capacity of the slice returned by GetBuffer(n) (its length is n) *)
Definition pool_cap (n : N) : N :=
  if n <=? pool_small then n
  else if n <=? buf1MB then buf1MB
  else if n <=? buf4MB then buf4MB
  else if n <=? buf8MB then buf8MB
  else n.

(* readBulkBody's buffer rule: the caller's slice is used iff its capacity suffices *)
Definition fits (n bufcap : N) : bool := n <=? bufcap.
Definition delivered_cap (n bufcap : N) : N := if fits n bufcap then bufcap else pool_cap n.

(* ---------- the frame ---------- *)

(* what one gob Decode call does on a byte stream *)
Inductive gres (M : Type) :=
| GOk (m : M) (n : N)       (* decoded m, consumed exactly n bytes *)
| GErr (n : N)              (* decode error after consuming n bytes *)
| GStall.                   (* needs more bytes than the stream holds *)
Arguments GOk {M}. Arguments GErr {M}. Arguments GStall {M}.

Section Frame.
  Variables H B : Type.     (* header values (rpc.Request / rpc.Response) and body values *)

  Variable genc_h : H -> list byte.
  Variable genc_b : B -> list byte.
  Variable gdec_h : list byte -> gres H.
  Variable gdec_b : list byte -> gres B.

  (* writeBulk.  uint32(len) truncation is what le32 does (each byte masked). *)
  Definition send (h : H) (b : B) (p : list byte) : list byte :=
    let hb := genc_h h ++ genc_b b in
    let lenb := le32 (lenN p) in
    hb ++ lenb ++ le32 (crc32c_t (hb ++ lenb))
       ++ (if lenN p =? 0 then [] else p ++ le32 (crc32c_t p)).

  Inductive rres :=
  | ROk (h : H) (b : B) (p : list byte) (inbuf chk : bool) (rest : list byte)
      (* delivered; inbuf = payload is in the caller's buffer; chk = payload checksum was compared *)
  | RErrHdr (rest : list byte)       (* gob failed on the header: net/rpc drops the connection *)
  | RErrBody (rest : list byte)      (* gob failed on the body *)
  | RErrCrc (rest : list byte)       (* errChecksumMismatch *)
  | RErrNotBulk (rest : list byte)   (* payload announced for a body that is not BulkData *)
  | RStall.

  (* Read{Request,Response}Header followed by readBulkBody on stream s.
     bufcap = capacity of the slice the caller left in the body (0 if none); isbulk = body implements BulkData. *)
  Definition recv (s : list byte) (bufcap : N) (isbulk : bool) : rres :=
    match gdec_h s with
    | GStall => RStall
    | GErr n => RErrHdr (dropN n s)
    | GOk h n1 =>
    match takeN n1 s with None => RStall | Some (g1, s1) =>
    match gdec_b s1 with
    | GStall => RStall
    | GErr n => RErrBody (dropN n s1)
    | GOk b n2 =>
    match takeN n2 s1 with None => RStall | Some (g2, s2) =>
    match takeN 4 s2 with None => RStall | Some (lenb, s3) =>
    let have := crc_update_t (crc_update_t (crc_update_t 0 g1) g2) lenb in
    match takeN 4 s3 with None => RStall | Some (crcb, s4) =>
    if negb (of_le crcb =? have) then RErrCrc s4 else
    let n := of_le lenb in
    if n =? 0 then ROk h b [] false false s4 else
    if negb isbulk then RErrNotBulk s4 else
    match takeN n s4 with None => RStall | Some (p, s5) =>
    match takeN 4 s5 with None => RStall | Some (pc, s6) =>
    let want := of_le pc in
    if negb (want =? 0) && negb (want =? crc32c_t p) then RErrCrc s6
    else ROk h b p (fits n bufcap) (negb (want =? 0)) s6
    end end end end end end
    end end.

  (* a connection: receive messages one after the other, one caller buffer each, until the buffers run out or the
     connection is dropped (header error / stall).  A gob error on the body keeps reading, as net/rpc does.  After a
     checksum mismatch or a payload left unread the codec remembers the error (bulkGobCodec.rErr, fix cbee0a8): the
     next read of a header fails with it without consuming anything, and net/rpc drops the connection.
     broken = rErr is set. *)
  Definition is_reject (r : rres) : bool :=
    match r with RErrCrc _ | RErrNotBulk _ => true | _ => false end.

  Fixpoint recv_conn (broken : bool) (s : list byte) (bufs : list (N * bool)) : list rres :=
    match bufs with
    | [] => []
    | (cap, isb) :: bufs' =>
        if broken then [RErrHdr s] else
        let r := recv s cap isb in
        r :: match r with
             | ROk _ _ _ _ _ rest => recv_conn false rest bufs'
             | RErrBody rest => recv_conn false rest bufs'
             | RErrCrc rest | RErrNotBulk rest => recv_conn true rest bufs'
             | RErrHdr _ | RStall => []
             end
    end.

  Definition recv_seq (s : list byte) (bufs : list (N * bool)) : list rres := recv_conn false s bufs.

  (* check_frame: re-derive the layout and both checksums of one captured frame, given the extent g of the
     gob part: (announced length, header checksum ok, payload checksum ok, no trailing bytes) *)
  Definition check_frame (w : list byte) (g : N) : option (N * bool * bool * bool) :=
    match takeN g w with None => None | Some (hb, s2) =>
    match takeN 4 s2 with None => None | Some (lenb, s3) =>
    match takeN 4 s3 with None => None | Some (crcb, s4) =>
    let n := of_le lenb in
    let ok1 := of_le crcb =? crc32c_t (hb ++ lenb) in
    if n =? 0 then Some (n, ok1, true, match s4 with [] => true | _ => false end) else
    match takeN n s4 with None => None | Some (p, s5) =>
    match takeN 4 s5 with None => None | Some (pc, s6) =>
    Some (n, ok1, of_le pc =? crc32c_t p, match s6 with [] => true | _ => false end)
    end end end end end.
End Frame.

Arguments ROk {H B}. Arguments RErrHdr {H B}. Arguments RErrBody {H B}. Arguments RErrCrc {H B}.
Arguments RErrNotBulk {H B}. Arguments RStall {H B}.

(* ---------- transit damage ---------- *)

(* xor the integer v (little-endian) into the bytes of l, starting at its first byte *)
Fixpoint xor_bytes (l : list byte) (v : N) : list byte :=
  match l with
  | [] => []
  | x :: r => if v =? 0 then l else N.lxor x (N.land v 255) :: xor_bytes r (N.shiftr v 8)
  end.

Fixpoint xor_from (k : N) (l : list byte) (v : N) : list byte :=
  match l with
  | [] => []
  | x :: r => if k =? 0 then xor_bytes l v else x :: xor_from (N.pred k) r v
  end.

(* xor bit pattern pat (bit j of pat goes to stream bit bitpos+j; stream bit i = bit (i mod 8) of byte i/8,
   the order in which CRC-32C consumes bits) *)
Definition xor_at (s : list byte) (bitpos pat : N) : list byte :=
  xor_from (bitpos / 8) s (N.shiftl pat (bitpos mod 8)).

(* ---------- a trivial concrete codec (used for the refutation witness and non-vacuity examples) ---------- *)
(* a message is one byte, encoded as itself *)
Definition tgenc (m : byte) : list byte := [m].
Definition tgdec (s : list byte) : gres byte :=
  match s with [] => GStall | x :: _ => GOk x 1 end.

(* ---------- run-length helpers for the wire ---------- *)

Definition rep (n : N) (v : byte) (tl : list byte) : list byte := N.iter n (cons v) tl.

(* canonical RLE of a byte list: nruns, (len, val)* — same as vw.RLE *)
Fixpoint rle_go (l : list byte) (cur : byte) (cnt : N) (acc : list Z) (runs : N) : list Z :=
  match l with
  | [] => Z.of_N (N.succ runs) :: rev_append acc [Z.of_N cnt; Z.of_N cur]
  | x :: r => if x =? cur then rle_go r cur (N.succ cnt) acc runs
              else rle_go r x 1 (Z.of_N cur :: Z.of_N cnt :: acc) (N.succ runs)
  end.
Definition rle (l : list byte) : list Z :=
  match l with [] => [0%Z] | x :: r => rle_go r x 1 [] 0 end.

(* parse `k (len val)*k` from an int line; returns bytes and the remaining ints *)
Fixpoint unrle_runs (k : nat) (l : list Z) : option (list byte * list Z) :=
  match k with
  | O => Some ([], l)
  | S k' => match l with
            | n :: v :: r => match unrle_runs k' r with
                             | Some (bs, r') => Some (rep (Z.to_N n) (Z.to_N v) bs, r')
                             | None => None
                             end
            | _ => None
            end
  end.
Definition unrle (l : list Z) : option (list byte * list Z) :=
  match l with k :: r => unrle_runs (Z.to_nat k) r | [] => None end.

(* parse `k b1..bk` *)
Fixpoint take_ints (k : nat) (l : list Z) : option (list byte * list Z) :=
  match k with
  | O => Some ([], l)
  | S k' => match l with
            | x :: r => match take_ints k' r with Some (a, r') => Some (Z.to_N x :: a, r') | None => None end
            | [] => None
            end
  end.
Definition take_blob (l : list Z) : option (list byte * list Z) :=
  match l with k :: r => take_ints (Z.to_nat k) r | [] => None end.

(* ---------- the executable instance: gob bytes are opaque blobs, gob's behaviour is an oracle ---------- *)

Definition blob := list byte.
(* oracle for one gob Decode call: code 0 = error, 1 = ok, 2 = stall; n = bytes consumed *)
Definition ogdec (code n : N) (s : list byte) : gres blob :=
  if code =? 1 then match takeN n s with Some (g, _) => GOk g n | None => GStall end
  else if code =? 0 then GErr n else GStall.

Record st := { stream : list byte;                      (* bytes in flight, not yet consumed by the receiver *)
               expect : list (blob * blob * list byte); (* messages sent and not yet received *)
               errd : bool;                             (* an earlier message on this connection met a body-level error *)
               sticky : bool;                           (* the receiving codec has remembered a read error (rErr) *)
               verdict : Z }.

Definition st0 : st := {| stream := []; expect := []; errd := false; sticky := false; verdict := 1%Z |}.

Definition bad : list Z := [(-1)%Z].
Definition b2z (b : bool) : Z := if b then 1%Z else 0%Z.
Definition blob_eqb (a b : list byte) : bool :=
  (lenN a =? lenN b) && forallb (fun '(x, y) => x =? y) (combine a b).

(* observation of one receive: class inbuf cap consumed payloadRLE
   class: 1 OK, 2 gob error on header, 3 gob error on body, 4 checksum mismatch, 6 not bulk, 7 stall *)
Definition obs_recv (s : list byte) (bufcap : N) (r : rres blob blob) : list Z :=
  let cons rest := Z.of_N (lenN s - lenN rest) in
  match r with
  | ROk _ _ p inbuf _ rest =>
      [1%Z; b2z inbuf; Z.of_N (if lenN p =? 0 then 0 else delivered_cap (lenN p) bufcap); cons rest] ++ rle p
  | RErrHdr rest => [2%Z; 0%Z; 0%Z; cons rest; 0%Z]
  | RErrBody rest => [3%Z; 0%Z; 0%Z; cons rest; 0%Z]
  | RErrCrc rest => [4%Z; 0%Z; 0%Z; cons rest; 0%Z]
  | RErrNotBulk rest => [6%Z; 0%Z; 0%Z; cons rest; 0%Z]
  | RStall => [7%Z; 0%Z; 0%Z; 0%Z; 0%Z]
  end.

Definition rest_of (s : list byte) (r : rres blob blob) : list byte :=
  match r with
  | ROk _ _ _ _ _ rest | RErrHdr rest | RErrBody rest | RErrCrc rest | RErrNotBulk rest => rest
  | RStall => s
  end.

(* property verdict for one delivery against the message that was sent at that place in the sequence:
   1 fine; 3 altered payload delivered while the received payload checksum field was 0 (F8);
   4 something that was not sent is delivered after an earlier message of the connection was rejected;
   2 any other delivery of something that was not sent *)
Definition judge (exp : list (blob * blob * list byte)) (e : bool) (same : bool) (r : rres blob blob) : Z :=
  match r with
  | ROk _ _ p _ chk _ =>
      let other := if e then 4%Z else 2%Z in
      match exp with
      | (_, _, p0) :: _ =>
          if blob_eqb p p0 then (if same then 1%Z else other)
          else if negb chk && negb (lenN p =? 0) then 3%Z else other
      | [] => other
      end
  | _ => 1%Z
  end.

Definition is_body_err (r : rres blob blob) : bool :=
  match r with RErrBody _ | RErrCrc _ | RErrNotBulk _ => true | _ => false end.

Definition worse (a b : Z) : Z := if (a =? 1)%Z then b else a.

Definition recv_args (l : list Z) : option (N * bool * N * N * N * N * bool) :=
  match l with
  | [cap; isb; c1; n1; c2; n2; same] =>
      Some (Z.to_N cap, negb (isb =? 0)%Z, Z.to_N c1, Z.to_N n1, Z.to_N c2, Z.to_N n2, negb (same =? 0)%Z)
  | _ => None
  end.

Definition do_recv (broken : bool) (s : list byte) (a : N * bool * N * N * N * N * bool) : rres blob blob :=
  let '(cap, isb, c1, n1, c2, n2, _) := a in
  if broken then RErrHdr s    (* Read{Request,Response}Header returns the remembered error, nothing is consumed *)
  else recv blob blob (ogdec c1 n1) (ogdec c2 n2) s cap isb.

Definition step (s : st) (op : list Z) : st * list Z :=
  match op with
  | 1%Z :: r0 =>   (* Send: header blob, body blob, payload RLE -> RLE of the wire bytes of the frame *)
      match take_blob r0 with None => (s, bad) | Some (h, r1) =>
      match take_blob r1 with None => (s, bad) | Some (b, r2) =>
      match unrle r2 with None => (s, bad) | Some (p, _) =>
      let w := send blob blob (fun x => x) (fun x => x) h b p in
      ({| stream := stream s ++ w; expect := expect s ++ [(h, b, p)]; errd := errd s; sticky := sticky s; verdict := verdict s |}, rle w)
      end end end
  | 2%Z :: r0 =>   (* Recv cap isbulk c1 n1 c2 n2 same *)
      match recv_args r0 with None => (s, bad) | Some a =>
      let r := do_recv (sticky s) (stream s) a in
      let '(_, _, _, _, _, _, same) := a in
      ({| stream := rest_of (stream s) r; expect := tl (expect s); errd := errd s || is_body_err r;
          sticky := sticky s || is_reject blob blob r;
          verdict := worse (verdict s) (judge (expect s) (errd s) same r) |},
       obs_recv (stream s) (let '(cap, _, _, _, _, _, _) := a in cap) r)
      end
  | [3%Z; pos; pat] =>   (* Tamper: xor a bit pattern into the stream in flight *)
      ({| stream := xor_at (stream s) (Z.to_N pos) (Z.to_N pat); expect := expect s; errd := errd s; sticky := sticky s; verdict := verdict s |}, [0%Z])
  | 4%Z :: pos :: pat :: r0 =>   (* Probe: what a receive would do on the stream damaged by one burst; state unchanged *)
      match recv_args r0 with None => (s, bad) | Some a =>
      let s' := xor_at (stream s) (Z.to_N pos) (Z.to_N pat) in
      let r := do_recv (sticky s) s' a in
      let '(_, _, _, _, _, _, same) := a in
      ({| stream := stream s; expect := expect s; errd := errd s; sticky := sticky s;
          verdict := worse (verdict s) (judge (expect s) (errd s) same r) |},
       obs_recv s' (let '(cap, _, _, _, _, _, _) := a in cap) r)
      end
  | [5%Z; n] =>   (* GetBuffer(n): len, cap *)
      (s, [n; Z.of_N (pool_cap (Z.to_N n))])
  | [6%Z; k] =>   (* Cut: the connection breaks after k more bytes *)
      ({| stream := match takeN (Z.to_N k) (stream s) with Some (a, _) => a | None => stream s end;
          expect := expect s; errd := errd s; sticky := sticky s; verdict := verdict s |}, [0%Z])
  | [9%Z] =>      (* property verdict of the case so far *)
      (s, [777%Z; verdict s])
  | [20%Z; mode; fault; cached; errnil; ndials; ndeliv; allsame; replyok] =>
      (* one call through ConnectionCache.Send / rpc.Client.Call under a fault script, as observed by the harness *)
      (s, [777%Z; conn_verdict (Z.to_N mode) (Z.to_N fault) (negb (cached =? 0)%Z) (negb (errnil =? 0)%Z)
                               (Z.to_N ndials) (Z.to_N ndeliv) (negb (allsame =? 0)%Z) (negb (replyok =? 0)%Z)])
  | _ => (s, bad)
  end.

Fixpoint run_from (s : st) (ops : list (list Z)) : list (list Z) :=
  match ops with
  | [] => []
  | op :: r => let '(s', o) := step s op in o :: run_from s' r
  end.

(* Generic driver entry point: ops of one case -> expected observation lines. *)
Definition run_case (ops : list (list Z)) : list (list Z) := run_from st0 ops.
